(* The Gallina model of the DDNet reference (Model/SnapRef.v) against the model of libtw2's
   snapshot code (Model/Snap.v): the reference builder lays a snapshot out as write_to_ints does,
   and the delta CSnapshotDelta::CreateDelta makes is read and applied by libtw2 to the target.

   A  ref_builder_layout: the builder's ints are ref_layout vu (data size, count, byte offsets, key :: data)
   B  lay_*: the CSnapshot accessors on a laid-out snapshot (offset, position, key, size, data, all keys)
   C  index_hashed_present / _absent: the hash list is a lookup while no bucket holds more than 64 keys
   D  cd_updates_spec, ref_create_delta_spec: CreateDelta's ints are [] or wire_ints of the deleted keys and
      of the new / changed entries (rdiffs), for items in ANY order
   E  rwd_update_sub, apply_ref: RawSnap::read_with_delta on a delta that omits the unchanged items;
      wire_pre_filter: the precondition of the wire theorem survives dropping entries
   F  ref_of_raw_spec, layout_is_wire, c09_ref_builder, _items, _any_order
   G  c09_ref_delta (reference snapshots in key order: the wire theorem of Proofs/SnapWire.v applies)
   H  any order: read_wire_u (Delta::read_from_ints on unsorted keys), rwd_update_gen / apply_gen,
      c09_ref_delta_items *)
From LibTw2 Require Import Base.Res Base.Bits Model.Varint Model.Packer Model.Snap Model.SnapRef
  Proofs.SnapBase Proofs.SnapRep Proofs.SnapDelta Proofs.SnapApply Proofs.SnapOk Proofs.SnapTotal Proofs.SnapTotal2
  Proofs.SnapWire Proofs.SnapWireInst Proofs.SnapC09 Proofs.SnapSer.
From Coq Require Import ZArith List Lia Bool Permutation.
Import ListNotations.
Open Scope Z_scope.

(* ================= part A: the builder ================= *)
Definition kd_of (it : ritem) : Z * list Z := (ritem_key it, snd it).

Definition ref_layout (vu : items) : list Z :=
  (Z.of_nat (length (flat vu)) + Z.of_nat (length vu)) * 4 :: Z.of_nat (length vu)
  :: offs_from 0 vu ++ flat_map enc_item vu.

Lemma c_int_small x : 0 <= x <= i32_max -> c_int x = x.
Proof.
  intros H. unfold c_int, i32_of, u32_of, two31, two32, i32_max in *.
  rewrite Z.mod_small by lia. destruct (Z.ltb_spec x 2147483648); lia.
Qed.

Lemma ritem_ok_inv ty id d : ritem_ok (ty, id, d) = true ->
  0 <= ty <= 32767 /\ 0 <= id <= 65535 /\ forallb is_i32 d = true.
Proof.
  unfold ritem_ok, REF_MAX_TYPE, REF_MAX_ID. intros H.
  repeat (apply andb_true_iff in H; destruct H as [H ?]).
  repeat match goal with H : (_ <=? _) = true |- _ => apply Z.leb_le in H end. repeat split; try lia. assumption.
Qed.

Lemma ref_key ty id : 0 <= ty <= 32767 -> 0 <= id <= 65535 ->
  Z.lor (Z.shiftl ty 16) id = key ty id /\ 0 <= key ty id <= i32_max.
Proof.
  intros Ht Hi. rewrite key_arith by lia. rewrite shiftl_mul by lia. change (2 ^ 16) with 65536.
  rewrite Z.lor_comm. change 65536 with (2 ^ 16). rewrite (lor_low_high id ty 16) by (change (2 ^ 16) with 65536; lia).
  change (2 ^ 16) with 65536. unfold i32_of, two31, two32, i32_max.
  destruct (Z.ltb_spec (ty * 65536 + id) 2147483648); lia.
Qed.

Lemma offs_from_app a : forall b p, offs_from p (a ++ b) = offs_from p a ++ offs_from (p + ilen a) b.
Proof.
  induction a as [|[k d] a IH]; intros b p; cbn [app offs_from].
  - change (ilen []) with 0. rewrite Z.add_0_r. reflexivity.
  - f_equal. rewrite IH. f_equal. f_equal. rewrite ilen_cons. lia.
Qed.

Record binv (b : rbuilder) (vu : items) : Prop := {
  bi_data : rb_data b = flat_map enc_item vu;
  bi_size : rb_data_size b = 4 * ilen vu;
  bi_offs : rb_offs b = offs_from 0 vu;
  bi_num : rb_num b = Z.of_nat (length vu);
  bi_drop : rb_dropped b = false
}.

Lemma binv_init : binv rb_init [].
Proof. split; reflexivity. Qed.

Lemma ref_new_item_ok b vu ty id d : binv b vu -> ritem_ok (ty, id, d) = true ->
  lim_ok (vu ++ [(key ty id, d)]) ->
  exists b', ref_new_item b ty id d = Ok b' /\ binv b' (vu ++ [(key ty id, d)]).
Proof.
  intros I Hok [L1 L2]. destruct (ritem_ok_inv _ _ _ Hok) as (Ht & Hi & _).
  rewrite flat_app, !app_length in *. cbn [length flat flat_map snd] in *. rewrite app_nil_r in L2.
  unfold MAX_SNAPSHOT_ITEMS, MAX_SNAPSHOT_SIZE, ser_size in *.
  unfold ref_new_item. rewrite (bi_drop _ _ I), (bi_num _ _ I), (bi_size _ _ I), ilen_flat.
  rewrite c_int_small by (unfold i32_max; lia).
  unfold REF_OFFSET_UUID, REF_MAX_TYPE, REF_MAX_ID, REF_MAX_SIZE, REF_MAX_ITEMS.
  replace (65536 <=? ty) with false by (symmetry; apply Z.leb_gt; lia).
  replace (0 <=? ty) with true by (symmetry; apply Z.leb_le; lia).
  replace (ty <=? 32767) with true by (symmetry; apply Z.leb_le; lia).
  replace (0 <=? id) with true by (symmetry; apply Z.leb_le; lia).
  replace (id <=? 65535) with true by (symmetry; apply Z.leb_le; lia).
  replace (0 <=? 4 * Z.of_nat (length d)) with true by (symmetry; apply Z.leb_le; lia).
  replace (4 * Z.of_nat (length d) <=? 65536 - 8 - 4 - 4) with true by (symmetry; apply Z.leb_le; lia).
  replace (1024 <=? Z.of_nat (length vu)) with false by (symmetry; apply Z.leb_gt; lia).
  match goal with |- context [65536 <? ?e] => replace (65536 <? e) with false by (symmetry; apply Z.ltb_ge; lia) end.
  cbn [andb orb negb]. eexists. split; [reflexivity|].
  destruct (ref_key ty id Ht Hi) as [Hk _].
  split; cbn [rb_data rb_data_size rb_offs rb_num rb_dropped].
  - rewrite (bi_data _ _ I), flat_map_app. cbn [flat_map enc_item fst snd]. rewrite app_nil_r, Hk.
    replace (4 * Z.of_nat (length d) / 4) with (Z.of_nat (length d)) by (rewrite Z.mul_comm, Z_div_mult by lia; reflexivity).
    rewrite Nat2Z.id, firstn_all. reflexivity.
  - rewrite ilen_app, ilen_cons. change (ilen []) with 0. rewrite ilen_flat. lia.
  - rewrite (bi_offs _ _ I), offs_from_app. cbn [offs_from]. rewrite ilen_flat. do 2 (try f_equal); try lia.
  - rewrite app_length. cbn [length]. lia.
  - reflexivity.
Qed.

Lemma ref_add_items_ok : forall its b vu, binv b vu -> ritems_ok its = true ->
  lim_ok (vu ++ map kd_of its) ->
  exists b', ref_add_items b its = Ok b' /\ binv b' (vu ++ map kd_of its).
Proof.
  induction its as [|[[ty id] d] its IH]; intros b vu I Hok Hl.
  - exists b. cbn [map]. rewrite app_nil_r. split; [reflexivity|exact I].
  - cbn [ritems_ok forallb] in Hok. apply andb_true_iff in Hok. destruct Hok as [Ho Hok].
    cbn [map] in Hl. change (kd_of (ty, id, d)) with (key ty id, d) in *.
    change ((key ty id, d) :: map kd_of its) with ([(key ty id, d)] ++ map kd_of its) in Hl.
    rewrite app_assoc in Hl.
    destruct (ref_new_item_ok b vu ty id d I Ho (lim_ok_prefix _ _ Hl)) as (b1 & E1 & I1).
    destruct (IH b1 _ I1 Hok Hl) as (b' & E' & I').
    exists b'. cbn [ref_add_items]. rewrite E1. cbn [bind]. split; [exact E'|].
    cbn [map]. change (kd_of (ty, id, d)) with (key ty id, d).
    change ((key ty id, d) :: map kd_of its) with ([(key ty id, d)] ++ map kd_of its). rewrite app_assoc. exact I'.
Qed.

Theorem ref_builder_layout its : ritems_ok its = true -> lim_ok (map kd_of its) ->
  ref_builder_ints its = Ok (ref_layout (map kd_of its)).
Proof.
  intros Hok Hl. destruct (ref_add_items_ok its rb_init [] binv_init Hok Hl) as (b & E & I).
  cbn [app] in I. unfold ref_builder_ints. rewrite E. cbn [bind]. unfold ref_finish.
  destruct Hl as [L1 L2]. unfold MAX_SNAPSHOT_ITEMS, MAX_SNAPSHOT_SIZE, ser_size, REF_MAX_ITEMS, REF_MAX_SIZE in *.
  rewrite (bi_num _ _ I), (bi_size _ _ I), (bi_data _ _ I), (bi_offs _ _ I), ilen_flat.
  replace (Z.of_nat (length (map kd_of its)) <=? 1024) with true by (symmetry; apply Z.leb_le; lia).
  match goal with |- context [?e <=? 65536] => replace (e <=? 65536) with true by (symmetry; apply Z.leb_le; lia) end.
  cbn [negb]. unfold ref_layout. f_equal. f_equal. lia.
Qed.

(* ================= part B: reading a laid-out snapshot ================= *)
Lemma ref_layout_length vu : Z.of_nat (length (ref_layout vu)) = 2 + Z.of_nat (length vu) + ilen vu.
Proof. unfold ref_layout. cbn [length]. rewrite app_length, offs_from_length. unfold ilen. lia. Qed.

Lemma lim_ok_words vu : lim_ok vu -> 2 + Z.of_nat (length vu) + ilen vu <= 16384.
Proof. intros [L1 L2]. unfold MAX_SNAPSHOT_SIZE, ser_size in L2. rewrite ilen_flat. lia. Qed.

Lemma cs_int_nth s i v : nth_error s i = Some v -> Z.of_nat (length s) <= 16384 -> cs_int s (Z.of_nat i) = Ok v.
Proof.
  intros Hn Hl. unfold cs_int, REF_BUF_INTS.
  assert (i < length s)%nat by (apply nth_error_Some; congruence).
  replace (0 <=? Z.of_nat i) with true by (symmetry; apply Z.leb_le; lia).
  replace (Z.of_nat i <? 16384) with true by (symmetry; apply Z.ltb_lt; lia).
  cbn [andb]. rewrite Nat2Z.id, Hn. reflexivity.
Qed.

Lemma nth_error_offs pre k d post : forall p,
  nth_error (offs_from p (pre ++ (k, d) :: post)) (length pre) = Some (4 * (p + ilen pre)).
Proof.
  induction pre as [|[k' d'] pre IH]; intros p; cbn [app offs_from length nth_error].
  - change (ilen []) with 0. f_equal. lia.
  - rewrite IH, ilen_cons. f_equal. lia.
Qed.

Section Layout.
  Variable vu : items.
  Hypothesis Hlim : lim_ok vu.
  Let s := ref_layout vu.
  Let n := Z.of_nat (length vu).

  Lemma lay_len : Z.of_nat (length s) <= 16384.
  Proof. unfold s. rewrite ref_layout_length. apply lim_ok_words, Hlim. Qed.

  Lemma lay_data_size : cs_data_size s = Ok (4 * ilen vu).
  Proof.
    unfold cs_data_size. change 0 with (Z.of_nat 0). rewrite (cs_int_nth s 0 ((Z.of_nat (length (flat vu)) + n) * 4)); [|reflexivity|apply lay_len].
    f_equal. rewrite ilen_flat. unfold n. lia.
  Qed.

  Lemma lay_num : cs_num_items s = Ok n.
  Proof. unfold cs_num_items. change 1 with (Z.of_nat 1). apply cs_int_nth; [reflexivity|apply lay_len]. Qed.

  Lemma lay_offset pre k d post : vu = pre ++ (k, d) :: post ->
    cs_offset s (Z.of_nat (length pre)) = Ok (4 * ilen pre).
  Proof.
    intros Hv. unfold cs_offset. replace (2 + Z.of_nat (length pre)) with (Z.of_nat (2 + length pre)) by lia.
    apply cs_int_nth; [|apply lay_len]. unfold s, ref_layout. cbn [Nat.add nth_error].
    rewrite nth_error_app1 by (rewrite offs_from_length, Hv, app_length; cbn [length]; lia).
    rewrite Hv, nth_error_offs. f_equal.
  Qed.

  Lemma lay_split pre k d post : vu = pre ++ (k, d) :: post ->
    exists front, s = front ++ k :: d ++ flat_map enc_item post
      /\ Z.of_nat (length front) = 2 + n + ilen pre.
  Proof.
    intros Hv. exists ((Z.of_nat (length (flat vu)) + n) * 4 :: n :: offs_from 0 vu ++ flat_map enc_item pre). split.
    - unfold s, ref_layout. fold n. cbn [app]. f_equal. f_equal. rewrite <- app_assoc. f_equal.
      rewrite Hv at 1. rewrite flat_map_app. reflexivity.
    - cbn [length]. rewrite app_length, offs_from_length. unfold ilen, n. lia.
  Qed.

  Lemma lay_pos pre k d post : vu = pre ++ (k, d) :: post ->
    cs_item_pos s (Z.of_nat (length pre)) = Ok (2 + n + ilen pre).
  Proof.
    intros Hv. unfold cs_item_pos. rewrite lay_num. cbn [bind]. rewrite (lay_offset pre k d post Hv). cbn [bind].
    rewrite Z.mul_comm, Z_mod_mult. cbn [Z.eqb]. rewrite Z_div_mult by lia. reflexivity.
  Qed.

  Lemma lay_key pre k d post : vu = pre ++ (k, d) :: post ->
    cs_item_key s (Z.of_nat (length pre)) = Ok k.
  Proof.
    intros Hv. unfold cs_item_key. rewrite (lay_pos pre k d post Hv). cbn [bind].
    destruct (lay_split pre k d post Hv) as (front & Hs & Hf). rewrite <- Hf.
    apply cs_int_nth; [|apply lay_len]. rewrite Hs. apply nth_error_mid.
  Qed.

  Lemma lay_size pre k d post : vu = pre ++ (k, d) :: post ->
    cs_item_size s (Z.of_nat (length pre)) = Ok (4 * Z.of_nat (length d)).
  Proof.
    intros Hv. unfold cs_item_size. rewrite lay_num. cbn [bind]. rewrite (lay_offset pre k d post Hv). cbn [bind].
    assert (Hn : n = Z.of_nat (length pre) + 1 + Z.of_nat (length post)).
    { unfold n. rewrite Hv, app_length. cbn [length]. lia. }
    pose proof (lim_ok_words vu Hlim) as Hw. rewrite Hv, ilen_app, ilen_cons in Hw.
    pose proof (ilen_nonneg pre). pose proof (ilen_nonneg post).
    destruct post as [|[k' d'] post].
    - replace (Z.of_nat (length pre) =? n - 1) with true by (symmetry; apply Z.eqb_eq; cbn [length] in Hn; lia).
      rewrite lay_data_size. cbn [bind]. f_equal. rewrite Hv, ilen_app, ilen_cons. change (ilen []) with 0.
      rewrite c_int_small by (unfold i32_max; lia). lia.
    - replace (Z.of_nat (length pre) =? n - 1) with false by (symmetry; apply Z.eqb_neq; cbn [length] in Hn; lia).
      replace (Z.of_nat (length pre) + 1) with (Z.of_nat (length (pre ++ [(k, d)]))) by (rewrite app_length; cbn [length]; lia).
      rewrite (lay_offset (pre ++ [(k, d)]) k' d' post) by (rewrite <- app_assoc; exact Hv). cbn [bind].
      f_equal. rewrite ilen_app, ilen_cons. change (ilen []) with 0.
      rewrite c_int_small by (unfold i32_max; lia). lia.
  Qed.

  Lemma lay_read pre k d post : vu = pre ++ (k, d) :: post ->
    cs_read s (2 + n + ilen pre + 1) (Z.of_nat (length d)) = Ok d.
  Proof.
    intros Hv. destruct (lay_split pre k d post Hv) as (front & Hs & Hf).
    pose proof lay_len as Hl. rewrite Hs, !app_length in Hl. cbn [length] in Hl. rewrite app_length in Hl.
    unfold cs_read, REF_BUF_INTS. rewrite <- Hf.
    replace (0 <=? Z.of_nat (length front) + 1) with true by (symmetry; apply Z.leb_le; lia).
    replace (0 <=? Z.of_nat (length d)) with true by (symmetry; apply Z.leb_le; lia).
    replace (Z.of_nat (length front) + 1 + Z.of_nat (length d) <=? 16384) with true by (symmetry; apply Z.leb_le; lia).
    cbn [andb]. rewrite Nat2Z.id.
    replace (Z.to_nat (Z.of_nat (length front) + 1)) with (length (front ++ [k])) by (rewrite app_length; cbn [length]; lia).
    replace s with ((front ++ [k]) ++ d ++ flat_map enc_item post) by (rewrite Hs, <- app_assoc; reflexivity).
    rewrite firstn_skipn_app_mid, Z.eqb_refl. reflexivity.
  Qed.

  Lemma lay_keys_from : forall post pre, vu = pre ++ post ->
    cs_keys_from s (Z.of_nat (length pre)) (length post) = Ok (map fst post).
  Proof.
    induction post as [|[k d] post IH]; intros pre Hv; [reflexivity|].
    cbn [length cs_keys_from map fst]. rewrite (lay_key pre k d post Hv). cbn [bind].
    replace (Z.of_nat (length pre) + 1) with (Z.of_nat (length (pre ++ [(k, d)]))) by (rewrite app_length; cbn [length]; lia).
    rewrite IH by (rewrite <- app_assoc; exact Hv). reflexivity.
  Qed.

  Lemma lay_keys : cs_keys s = Ok (map fst vu).
  Proof.
    unfold cs_keys. rewrite lay_num. cbn [bind]. destruct Hlim as [L1 _]. unfold MAX_SNAPSHOT_ITEMS in L1.
    destruct (Z.leb_spec n 0) as [H0|H0].
    - unfold n in H0. destruct vu; [reflexivity|cbn [length] in H0; lia].
    - unfold REF_BUF_INTS. replace (16384 <? n) with false by (symmetry; apply Z.ltb_ge; unfold n; lia).
      unfold n. rewrite Nat2Z.id. apply (lay_keys_from vu []). reflexivity.
  Qed.
End Layout.

(* ================= part C: the hash list is a lookup ================= *)
Definition hcount (h : Z) (keys : list Z) : Z := bucket_count keys h.

Lemma hcount_cons h k keys : hcount h (k :: keys) = (if calc_hash_id k =? h then 1 else 0) + hcount h keys.
Proof. unfold hcount, bucket_count. cbn [filter]. destruct (calc_hash_id k =? h); cbn [length]; lia. Qed.

Lemma hcount_nonneg h keys : 0 <= hcount h keys.
Proof. unfold hcount, bucket_count. lia. Qed.

Lemma hashed_absent key h : forall keys i cnt, ~ In key keys -> hashed_from (gen_hash keys) h key i cnt = -1.
Proof.
  induction keys as [|k keys IH]; intros i cnt Hni; [reflexivity|]. cbn [gen_hash map hashed_from].
  assert (k <> key) by (intros ->; apply Hni; left; reflexivity).
  assert (~ In key keys) by (intros Hin; apply Hni; right; exact Hin).
  destruct (calc_hash_id k =? h); [|apply IH; assumption].
  destruct (cnt <? REF_BUCKET_SIZE); [|reflexivity].
  destruct (Z.eqb_spec k key); [contradiction|apply IH; assumption].
Qed.

Lemma hashed_present key : forall pre post i cnt, ~ In key pre ->
  cnt + hcount (calc_hash_id key) pre < 64 -> 0 <= cnt ->
  hashed_from (gen_hash (pre ++ key :: post)) (calc_hash_id key) key i cnt = i + Z.of_nat (length pre).
Proof.
  induction pre as [|k pre IH]; intros post i cnt Hni Hc H0.
  - cbn [app gen_hash map hashed_from length]. rewrite Z.eqb_refl. unfold hcount, bucket_count in Hc. cbn in Hc.
    unfold REF_BUCKET_SIZE. replace (cnt <? 64) with true by (symmetry; apply Z.ltb_lt; lia).
    rewrite Z.eqb_refl. cbn. lia.
  - cbn [app gen_hash map hashed_from]. fold (gen_hash (pre ++ key :: post)).
    assert (k <> key) by (intros ->; apply Hni; left; reflexivity).
    assert (~ In key pre) by (intros Hin; apply Hni; right; exact Hin).
    rewrite hcount_cons in Hc. pose proof (hcount_nonneg (calc_hash_id key) pre).
    destruct (calc_hash_id k =? calc_hash_id key).
    + unfold REF_BUCKET_SIZE. replace (cnt <? 64) with true by (symmetry; apply Z.ltb_lt; lia).
      destruct (Z.eqb_spec k key); [contradiction|]. rewrite IH by (try assumption; lia). cbn [length]. lia.
    + rewrite IH by (try assumption; lia). cbn [length]. lia.
Qed.

Lemma hcount_app h a b : hcount h (a ++ b) = hcount h a + hcount h b.
Proof. unfold hcount, bucket_count. rewrite filter_app, app_length. lia. Qed.

Definition buckets_fine (keys : list Z) : Prop := forall h, hcount h keys <= 64.

Lemma index_hashed_absent keys key : ~ In key keys -> index_hashed (gen_hash keys) key = -1.
Proof. intros H. apply hashed_absent, H. Qed.

Lemma index_hashed_present pre key post : buckets_fine (pre ++ key :: post) -> ~ In key pre ->
  index_hashed (gen_hash (pre ++ key :: post)) key = Z.of_nat (length pre).
Proof.
  intros Hb Hni. unfold index_hashed. rewrite hashed_present; [lia|exact Hni| |lia].
  specialize (Hb (calc_hash_id key)). rewrite hcount_app, hcount_cons, Z.eqb_refl in Hb.
  pose proof (hcount_nonneg (calc_hash_id key) post). lia.
Qed.

Lemma calc_hash_range k : 0 <= calc_hash_id k < 256.
Proof. unfold calc_hash_id, REF_HASHLIST_SIZE. apply Z.mod_pos_bound. lia. Qed.

Lemma hcount_out h keys : ~ (0 <= h < 256) -> hcount h keys = 0.
Proof.
  intros Hh. induction keys as [|k keys IH]; [reflexivity|]. rewrite hcount_cons, IH.
  pose proof (calc_hash_range k). destruct (Z.eqb_spec (calc_hash_id k) h); lia.
Qed.

Lemma ref_buckets_fine S : ref_buckets_ok S = true -> buckets_fine (map fst (rs_offs S)).
Proof.
  unfold ref_buckets_ok, REF_BUCKET_SIZE. intros H h. rewrite forallb_forall in H.
  destruct (Z_lt_le_dec h 0) as [Hn|Hn]; [rewrite hcount_out; lia|].
  destruct (Z_lt_le_dec h 256) as [Hh|Hh]; [|rewrite hcount_out; lia].
  apply Z.leb_le, H. apply in_map_iff. exists (Z.to_nat h). split; [lia|]. apply in_seq. lia.
Qed.

(* ================= part D: CreateDelta on two laid-out snapshots ================= *)
Definition emitted (chA : items) (e : Z * list Z) : bool := absent chA (fst e) || needed (snd e).
Definition rdiffs (chA vB : items) : items := filter (emitted chA) (diffs chA vB).
Definition wsum (l : items) : Z := 3 * Z.of_nat (length l) + Z.of_nat (length (flat l)).
Definition keys_pos (l : items) : Prop := forall k, In k (map fst l) -> 0 <= k <= i32_max.

Lemma wsum_cons k d t : wsum ((k, d) :: t) = 3 + Z.of_nat (length d) + wsum t.
Proof. unfold wsum. cbn [length flat flat_map snd]. rewrite app_length. fold (flat t). lia. Qed.
Lemma wsum_nonneg l : 0 <= wsum l.
Proof. unfold wsum. lia. Qed.

Lemma key_pos_ty k : 0 <= k <= i32_max ->
  Z.shiftr k 16 = key_to_raw_type_id k /\ Z.land k 65535 = key_to_id k /\ 0 <= key_to_raw_type_id k <= 32767.
Proof.
  intros Hk. unfold i32_max in Hk. rewrite key_to_ty_arith, key_to_id_arith, shiftr_div by lia.
  change 65535 with (2 ^ 16 - 1). rewrite land_pow2_mask by lia. change (2 ^ 16) with 65536.
  assert (E : u32_of k = k) by (unfold u32_of, two32; apply Z.mod_small; lia). rewrite E.
  split; [reflexivity|]. split; [reflexivity|]. Z.div_mod_to_equations; lia.
Qed.

Lemma all_from_spec f : forall d lo, all_from f d lo = true ->
  forall x, lo <= x < lo + 2 ^ Z.of_nat d -> f x = true.
Proof.
  induction d as [|d IH]; intros lo H x Hx.
  - cbn [all_from] in H. change (2 ^ Z.of_nat 0) with 1 in Hx. replace x with lo by lia. exact H.
  - cbn [all_from] in H. apply andb_true_iff in H. destruct H as [H1 H2].
    assert (E : 2 ^ Z.of_nat (S d) = 2 * 2 ^ Z.of_nat d).
    { rewrite Nat2Z.inj_succ, Z.pow_succ_r by lia. reflexivity. }
    rewrite E in Hx. destruct (Z_lt_le_dec x (lo + 2 ^ Z.of_nat d)); [apply (IH lo H1); lia|apply (IH _ H2); lia].
Qed.

Lemma all_types_spec f : all_types f = true -> forall ty, 0 <= ty <= 32767 -> f ty = true.
Proof. intros H ty Hr. apply (all_from_spec f 15 0 H). change (2 ^ Z.of_nat 15) with 32768. lia. Qed.

Lemma all_from_impl (p q : Z -> bool) : (forall x, p x = true -> q x = true) ->
  forall d lo, all_from p d lo = true -> all_from q d lo = true.
Proof.
  intros Hi. induction d as [|d IH]; intros lo H; cbn [all_from] in *; [apply Hi, H|].
  apply andb_true_iff in H. destruct H as [H1 H2]. rewrite (IH _ H1), (IH _ H2). reflexivity.
Qed.

Lemma ref_table_ok_at sz ty : ref_table_ok sz = true -> 0 <= ty <= 32767 ->
  match sz ty with Some s => ty < 64 /\ 0 < s /\ 4 * s <= 32767 | None => True end.
Proof.
  intros Ht Hr. unfold ref_table_ok in Ht. pose proof (all_types_spec _ Ht ty Hr) as H. cbv beta in H.
  destruct (sz ty) as [s|]; [|exact I]. unfold REF_MAX_NETOBJSIZES in H.
  apply andb_true_iff in H. destruct H as [H H3]. apply andb_true_iff in H. destruct H as [H1 H2].
  apply Z.ltb_lt in H1, H2. apply Z.leb_le in H3. repeat split; assumption.
Qed.

Lemma include_size_spec sz ty : ref_table_ok sz = true -> 0 <= ty <= 32767 ->
  (if REF_MAX_NETOBJSIZES <=? ty then Ok true
   else if ty <? 0 then Panic site_ref_sizes
   else Ok (ref_sizes sz ty =? 0))
  = (Ok (match sz ty with Some _ => false | None => true end) : res unit bool).
Proof.
  intros Ht Hr. pose proof (ref_table_ok_at sz ty Ht Hr) as H.
  unfold ref_sizes, REF_MAX_NETOBJSIZES in *. destruct (sz ty) as [s|].
  - destruct H as (H1 & H2 & H3).
    replace (64 <=? ty) with false by (symmetry; apply Z.leb_gt; lia).
    replace (ty <? 0) with false by (symmetry; apply Z.ltb_ge; lia).
    replace (4 * s =? 0) with false by (symmetry; apply Z.eqb_neq; lia). reflexivity.
  - destruct (64 <=? ty); [reflexivity|].
    replace (ty <? 0) with false by (symmetry; apply Z.ltb_ge; lia). reflexivity.
Qed.

Lemma table_sizes_ok sz : ref_table_ok sz = true -> ref_sizes_ok sz = true.
Proof.
  unfold ref_table_ok, ref_sizes_ok, all_types. apply all_from_impl. intros ty H.
  destruct (sz ty) as [s|]; [|reflexivity].
  apply andb_true_iff in H. destruct H as [H H3]. apply andb_true_iff in H. destruct H as [H1 H2].
  rewrite H1, H3. apply Z.ltb_lt in H2.
  replace (0 <=? s) with true by (symmetry; apply Z.leb_le; lia). reflexivity.
Qed.

Lemma c_size_t_small x : 0 <= x < 18446744073709551616 -> c_size_t x = x.
Proof. intros H. unfold c_size_t. apply Z.mod_small. exact H. Qed.

Lemma rdiffs_cons chA k d t : rdiffs chA ((k, d) :: t) =
  if absent chA k || needed (diff_of chA (k, d)) then (k, diff_of chA (k, d)) :: rdiffs chA t else rdiffs chA t.
Proof. reflexivity. Qed.

Lemma upd_enc_eq sz k d : upd_enc sz (k, d) = key_to_raw_type_id k :: key_to_id k :: size_field sz k d ++ d.
Proof. reflexivity. Qed.

Section Create.
  Variable sz : osize.
  Hypothesis Hsz : ref_table_ok sz = true.
  Variables vuA vuB : items.
  Hypothesis HlimA : lim_ok vuA.
  Hypothesis HlimB : lim_ok vuB.
  Hypothesis HndA : NoDup (map fst vuA).
  Hypothesis HndB : NoDup (map fst vuB).
  Hypothesis HkB : keys_pos vuB.
  Hypothesis HbA : buckets_fine (map fst vuA).
  Hypothesis HbB : buckets_fine (map fst vuB).
  Hypothesis Hsl : same_len vuA vuB.
  Let sA := ref_layout vuA.
  Let sB := ref_layout vuB.

  Lemma past_absent k : aget k vuA = None -> index_hashed (gen_hash (map fst vuA)) k = -1.
  Proof. intros H. apply index_hashed_absent. apply aget_none. exact H. Qed.

  Lemma past_present k f : aget k vuA = Some f ->
    exists pre post, vuA = pre ++ (k, f) :: post
      /\ index_hashed (gen_hash (map fst vuA)) k = Z.of_nat (length pre).
  Proof.
    intros H. apply aget_in in H. apply in_split in H. destruct H as (pre & post & Hv).
    exists pre, post. split; [exact Hv|].
    pose proof HndA as Hnd. rewrite Hv in Hnd. destruct (nodup_mid _ _ _ _ Hnd) as [Hpre _].
    pose proof HbA as Hb. rewrite Hv, map_app in Hb. cbn [map fst] in Hb.
    rewrite Hv at 1. rewrite map_app. cbn [map fst].
    rewrite index_hashed_present by assumption. rewrite map_length. reflexivity.
  Qed.

  Lemma cd_updates_spec : forall todo done p, vuB = done ++ todo -> 0 <= p -> p + wsum todo <= 16384 ->
    cd_updates (ref_sizes sz) sA sB (gen_hash (map fst vuA)) (map fst todo) (Z.of_nat (length done)) p
    = Ok (Z.of_nat (length (rdiffs vuA todo)), flat_map (upd_enc sz) (rdiffs vuA todo)).
  Proof.
    induction todo as [|[k d] todo IH]; intros done p Hv Hp Hw; [reflexivity|].
    cbn [map fst cd_updates]. rewrite wsum_cons in Hw. pose proof (wsum_nonneg todo) as Hw0.
    assert (Hk : 0 <= k <= i32_max).
    { apply HkB. rewrite Hv, map_app. apply in_or_app. right. left. reflexivity. }
    destruct (key_pos_ty k Hk) as (Ety & Eid & Rty). rewrite Ety, Eid.
    unfold sB. rewrite (lay_size vuB HlimB done k d todo Hv). cbn [bind].
    assert (Hdl : 4 * Z.of_nat (length d) <= 65536).
    { pose proof (lim_ok_words vuB HlimB) as Hwd. rewrite Hv, ilen_app, ilen_cons in Hwd.
      pose proof (ilen_nonneg done). pose proof (ilen_nonneg todo). lia. }
    rewrite c_size_t_small by lia.
    replace (4 * Z.of_nat (length d) / 4) with (Z.of_nat (length d)) by (rewrite Z.mul_comm, Z_div_mult by lia; reflexivity).
    rewrite (lay_pos vuB HlimB done k d todo Hv). cbn [bind].
    rewrite (include_size_spec sz _ Hsz Rty). cbn [bind].
    rewrite c_int_small by (unfold i32_max; lia).
    set (incl := match sz (key_to_raw_type_id k) with Some _ => false | None => true end).
    assert (Hhl : 2 <= (if incl then 3 else 2) <= 3) by (destruct incl; lia).
    unfold REF_BUF_INTS.
    replace (16384 <? p + (if incl then 3 else 2) + Z.of_nat (length d)) with false by (symmetry; apply Z.ltb_ge; lia).
    rewrite (lay_read vuB HlimB done k d todo Hv). cbn [bind].
    assert (Hnext : forall p', 0 <= p' -> p' <= p + 3 + Z.of_nat (length d) ->
      cd_updates (ref_sizes sz) sA sB (gen_hash (map fst vuA)) (map fst todo) (Z.of_nat (length done) + 1) p'
      = Ok (Z.of_nat (length (rdiffs vuA todo)), flat_map (upd_enc sz) (rdiffs vuA todo))).
    { intros p' H0 H1.
      replace (Z.of_nat (length done) + 1) with (Z.of_nat (length (done ++ [(k, d)]))) by (rewrite app_length; cbn [length]; lia).
      apply IH; [rewrite <- app_assoc; exact Hv|exact H0|lia]. }
    assert (Hsf : (if incl then [Z.of_nat (length d)] else []) = size_field sz k (diff_of vuA (k, d))).
    { unfold size_field, incl. rewrite diff_len by (intros f Hf; apply (Hsl k f d Hf); rewrite Hv;
        apply aget_mid; pose proof HndB as Hnd; rewrite Hv in Hnd; apply (nodup_mid _ _ _ _ Hnd)).
      destruct (sz (key_to_raw_type_id k)); reflexivity. }
    rewrite rdiffs_cons.
    destruct (aget k vuA) as [f|] eqn:Hf.
    - (* the item exists in A: diff *)
      destruct (past_present k f Hf) as (preA & postA & HvA & Hpast). rewrite Hpast.
      replace (Z.of_nat (length preA) =? -1) with false by (symmetry; apply Z.eqb_neq; lia).
      unfold sA. rewrite (lay_pos vuA HlimA preA k f postA HvA). cbn [bind].
      assert (Hfl : length f = length d).
      { apply (Hsl k f d Hf). rewrite Hv. apply aget_mid. pose proof HndB as Hnd. rewrite Hv in Hnd.
        apply (nodup_mid _ _ _ _ Hnd). }
      rewrite <- Hfl at 1. rewrite (lay_read vuA HlimA preA k f postA HvA). cbn [bind].
      assert (Hdiff : diff_item f d = diff_of vuA (k, d)).
      { unfold diff_item, diff_of. cbn [fst snd]. rewrite Hf. reflexivity. }
      rewrite Hdiff. unfold absent. rewrite Hf. cbn [orb].
      destruct (needed (diff_of vuA (k, d))) eqn:Hn.
      + rewrite Hnext by lia. cbn [bind length flat_map]. rewrite upd_enc_eq, <- Hsf. f_equal. f_equal; [lia|].
        cbn [app]. rewrite <- app_assoc. reflexivity.
      + rewrite Hnext by lia. cbn [bind]. reflexivity.
    - (* a new item: copy *)
      rewrite (past_absent k Hf). rewrite Z.eqb_refl. cbn [bind]. unfold absent. rewrite Hf. cbn [orb].
      rewrite Hnext by lia. cbn [bind length flat_map]. rewrite upd_enc_eq, <- Hsf. f_equal. f_equal; [lia|].
      unfold diff_of. cbn [fst snd]. rewrite Hf. cbn [app]. rewrite <- app_assoc. reflexivity.
  Qed.

  Definition ref_del : list Z := filter (absent vuB) (map fst vuA).

  Lemma deleted_spec :
    filter (fun k => index_hashed (gen_hash (map fst vuB)) k =? -1) (map fst vuA) = ref_del.
  Proof.
    unfold ref_del. apply filter_ext. intros k. unfold absent. destruct (aget k vuB) as [dd|] eqn:Hd.
    - apply aget_in in Hd. apply in_split in Hd. destruct Hd as (pre & post & Hv).
      pose proof HndB as Hnd. rewrite Hv in Hnd. destruct (nodup_mid _ _ _ _ Hnd) as [Hpre _].
      pose proof HbB as Hb. rewrite Hv, map_app in Hb. cbn [map fst] in Hb.
      rewrite Hv, map_app. cbn [map fst]. rewrite index_hashed_present by assumption.
      apply Z.eqb_neq. lia.
    - rewrite index_hashed_absent by (apply aget_none; exact Hd). reflexivity.
  Qed.

  Theorem ref_create_delta_spec :
    3 + Z.of_nat (length vuA) + wsum vuB <= 16384 ->
    ref_create_delta (ref_sizes sz) sA sB
    = Ok (if (Z.of_nat (length ref_del) =? 0) && (Z.of_nat (length (rdiffs vuA vuB)) =? 0) then []
          else wire_ints sz ref_del (rdiffs vuA vuB)).
  Proof.
    intros Hfit. unfold ref_create_delta, sA, sB.
    rewrite (lay_keys vuB HlimB). cbn [bind]. rewrite (lay_keys vuA HlimA). cbn [bind].
    rewrite deleted_spec.
    assert (Hdl : Z.of_nat (length ref_del) <= Z.of_nat (length vuA)).
    { unfold ref_del. pose proof (filter_length_le' (absent vuB) (map fst vuA)) as H. rewrite map_length in H. lia. }
    pose proof (wsum_nonneg vuB). unfold REF_BUF_INTS.
    replace (16384 <? 3 + Z.of_nat (length ref_del)) with false by (symmetry; apply Z.ltb_ge; lia).
    pose proof (cd_updates_spec vuB [] (3 + Z.of_nat (length ref_del)) eq_refl) as Hc.
    cbn [length Z.of_nat] in Hc. fold sA sB in Hc. unfold sA, sB in Hc. rewrite Hc by lia. cbn [bind].
    destruct ((Z.of_nat (length ref_del) =? 0) && (Z.of_nat (length (rdiffs vuA vuB)) =? 0)); reflexivity.
  Qed.
End Create.

(* ================= part E: libtw2 applies a delta that omits the unchanged items ================= *)
Lemma wsub_zero a b : is_i32 a = true -> is_i32 b = true -> wsub a b = 0 -> a = b.
Proof.
  intros Ha Hb. apply is_i32_iff in Ha. apply is_i32_iff in Hb. unfold wsub, i32_of, u32_of, two31, two32.
  destruct (Z.ltb_spec ((a - b) mod 4294967296) 2147483648); intros Hz; Z.div_mod_to_equations; lia.
Qed.

Lemma zip_wsub_zero : forall d f, length f = length d -> forallb is_i32 f = true -> forallb is_i32 d = true ->
  needed (zip_with wsub d f) = false -> d = f.
Proof.
  induction d as [|a d IH]; intros [|b f] Hl Hf Hd Hn; try discriminate; [reflexivity|].
  cbn [forallb] in Hf, Hd. apply andb_true_iff in Hf. apply andb_true_iff in Hd.
  destruct Hf as [Hb Hf]. destruct Hd as [Ha Hd].
  unfold needed, zip_with in Hn. cbn [combine map existsb fst snd] in Hn. apply orb_false_iff in Hn.
  destruct Hn as [H0 Hn]. apply negb_false_iff, Z.eqb_eq in H0.
  f_equal; [apply wsub_zero; assumption|]. apply IH; [cbn in Hl; lia|exact Hf|exact Hd|exact Hn].
Qed.

Definition tgt (chB : items) (l : items) : items := map (fun e => (fst e, data_of chB (fst e))) l.

Lemma tgt_keys chB l : map fst (tgt chB l) = map fst l.
Proof. unfold tgt. rewrite map_map. reflexivity. Qed.

Lemma tgt_app chB a b : tgt chB (a ++ b) = tgt chB a ++ tgt chB b.
Proof. unfold tgt. apply map_app. Qed.

Lemma aget_tgt chB l k : aget k (tgt chB l) = if existsb (fun e => k =? fst e) l then Some (data_of chB k) else None.
Proof.
  induction l as [|[k' d] l IH]; [reflexivity|]. cbn [tgt map aget existsb fst].
  destruct (Z.eqb_spec k k'); [subst; reflexivity|exact IH].
Qed.

Section UpdateSub.
  Variables (A B : rawsnap) (chA chB : items).
  Hypothesis HA : rep A chA.
  Hypothesis HB : rep B chB.
  Hypothesis Hsl : same_len chA chB.
  Hypothesis HbA : forallb is_i32 (rs_buf A) = true.
  Hypothesis HbB : forallb is_i32 (rs_buf B) = true.
  Hypothesis HlimB : lim_ok chB.

  (* an entry of the delta: the difference to an item of B *)
  Definition ent (e : Z * list Z) : Prop :=
    exists dB, aget (fst e) chB = Some dB /\ snd e = diff_of chA (fst e, dB) /\ is_i32 (fst e) = true.

  Lemma tgt_done l : Forall ent l -> forall k d, aget k (tgt chB l) = Some d -> aget k chB = Some d.
  Proof.
    intros Hall k d H. rewrite aget_tgt in H. destruct (existsb (fun e => k =? fst e) l) eqn:Ex; [|discriminate].
    injection H as <-. apply existsb_exists in Ex. destruct Ex as ([k' df] & Hin & Hk). cbn [fst] in Hk.
    apply Z.eqb_eq in Hk. subst k'. rewrite Forall_forall in Hall. destruct (Hall _ Hin) as (dB & HdB & _).
    cbn [fst] in HdB. unfold data_of. rewrite HdB. reflexivity.
  Qed.

  Lemma rwd_update_sub : forall todo done S ch,
    NoDup (map fst (done ++ todo)) -> Forall ent (done ++ todo) -> rep S ch ->
    upd_inv chA chB ch (tgt chB done) ->
    exists S' ch',
      rwd_update A (flat (done ++ todo)) (ranges_of (length (flat done)) todo) S = Ok S'
      /\ rep S' ch' /\ upd_inv chA chB ch' (tgt chB (done ++ todo)).
  Proof.
    induction todo as [|[k df] todo IH]; intros done S ch Hnd Hall HS Hinv.
    - exists S, ch. rewrite app_nil_r. cbn [ranges_of rwd_update]. split; [reflexivity|split; assumption].
    - assert (Hent : ent (k, df)).
      { rewrite Forall_forall in Hall. apply Hall. apply in_or_app. right. left. reflexivity. }
      destruct Hent as (dB & HkB & Hdf & Hki). cbn [fst snd] in HkB, Hdf, Hki.
      assert (Hkd : aget k (tgt chB done) = None).
      { apply aget_none. rewrite tgt_keys. rewrite map_app in Hnd. cbn [map fst] in Hnd.
        apply NoDup_remove_2 in Hnd. intros Hin. apply Hnd, in_or_app. left. exact Hin. }
      assert (Halld : Forall ent done).
      { rewrite Forall_forall in *. intros x Hx. apply Hall, in_or_app. left. exact Hx. }
      pose proof (tgt_done done Halld) as Hdone.
      assert (Hdl : length df = length dB).
      { rewrite Hdf. apply diff_len. intros f Hf. apply (Hsl k f dB Hf HkB). }
      cbn [ranges_of rwd_update].
      assert (Hslice : forall E, @slice E (flat (done ++ (k, df) :: todo))
                (length (flat done), (length (flat done) + length df)%nat) = Ok df).
      { intros E. rewrite flat_app. cbn [flat flat_map snd]. apply slice_mid. }
      rewrite Hslice. cbn [bind]. rewrite (key_split k Hki).
      pose proof (Hinv k) as Hk. rewrite Hkd in Hk. unfold absent in Hk. rewrite HkB in Hk.
      rewrite (raw_item_rep A chA) by exact HA. rewrite (key_split k Hki).
      assert (Htg : tgt chB (done ++ [(k, df)]) = tgt chB done ++ [(k, dB)]).
      { rewrite tgt_app. cbn [tgt map fst]. unfold data_of. rewrite HkB. reflexivity. }
      assert (Hnext : forall S2 ch2, rep S2 ch2 -> upd_inv chA chB ch2 (tgt chB done ++ [(k, dB)]) ->
        exists S' ch', rwd_update A (flat (done ++ (k, df) :: todo))
           (ranges_of (length (flat done) + length df) todo) S2 = Ok S'
           /\ rep S' ch' /\ upd_inv chA chB ch' (tgt chB (done ++ (k, df) :: todo))).
      { intros S2 ch2 R2 I2.
        destruct (IH (done ++ [(k, df)]) S2 ch2) as (S' & ch' & E & R & I).
        - rewrite <- app_assoc. exact Hnd.
        - rewrite <- app_assoc. exact Hall.
        - exact R2.
        - rewrite Htg. exact I2.
        - exists S', ch'. rewrite <- app_assoc in I, E. cbn [app] in I, E. split; [|split; assumption].
          rewrite <- E. f_equal. rewrite flat_app, app_length. cbn [flat flat_map snd length].
          rewrite app_nil_r. reflexivity. }
      destruct (aget k ch) as [f|] eqn:Hch.
      + symmetry in Hk. destruct (rep_get_some _ _ _ _ HS Hch) as (r & Hr & Hrl & Hrs).
        unfold prepare_item. rewrite Hr. cbn [bind]. rewrite Hrs. cbn [bind].
        assert (Hfl : length f = length dB) by (apply (Hsl k f dB Hk HkB)).
        replace (range_len r =? length df)%nat with true by (symmetry; apply Nat.eqb_eq; lia).
        cbn [negb bind]. rewrite Hk. unfold apply_item_delta.
        replace (length df =? range_len r)%nat with true by (symmetry; apply Nat.eqb_eq; lia).
        replace (length f =? range_len r)%nat with true by (symmetry; apply Nat.eqb_eq; lia).
        cbn [negb bind].
        assert (Hout : zip_with wadd f df = dB).
        { rewrite Hdf. unfold diff_of. cbn [fst snd]. rewrite Hk. apply zip_add_sub; [exact Hfl| |].
          - rewrite (rep_buf _ _ HA) in HbA. apply (flat_i32 chA k f HbA Hk).
          - rewrite (rep_buf _ _ HB) in HbB. apply (flat_i32 chB k dB HbB HkB). }
        rewrite Hout. destruct (rep_write S ch k r dB HS Hr) as (buf' & Ew & Rw); [lia|].
        rewrite Ew. cbn [bind]. apply (Hnext _ _ Rw).
        intros k'. rewrite aget_app. destruct (Z.eq_dec k' k) as [->|Hne].
        * rewrite Hkd. cbn [aget]. rewrite Z.eqb_refl. apply aget_aset_same.
          apply aget_some_in. exists f. exact Hch.
        * rewrite aget_aset_other by exact Hne. rewrite Hinv.
          destruct (aget k' (tgt chB done)); [reflexivity|]. cbn [aget]. destruct (Z.eqb_spec k' k); [contradiction|reflexivity].
      + symmetry in Hk.
        assert (Hnone : aget k (rs_offs S) = None) by (apply (rep_get_none _ _ _ HS), Hch).
        assert (Hdiff : df = dB) by (rewrite Hdf; unfold diff_of; cbn [fst snd]; rewrite Hk; reflexivity).
        assert (Hlim1 : lim_ok (ch ++ [(k, df)])).
        { apply (upd_weight chA chB Hsl HlimB ch (tgt chB done) k dB (rep_nodup _ _ HS) Hinv Hdone Hch HkB). exact Hdl. }
        destruct (push_steps S k df Hnone (fits_of_lim _ _ _ _ HS Hlim1))
          as (S1 & ro & E1 & E2 & E2' & E3 & E4).
        rewrite E1. cbn [bind]. destruct (E2 serr) as [z Ez]. rewrite Ez. cbn [bind].
        replace (range_len ro =? length df)%nat with true by (symmetry; apply Nat.eqb_eq; lia).
        cbn [negb bind]. rewrite Hk. unfold apply_item_delta.
        replace (length df =? range_len ro)%nat with true by (symmetry; apply Nat.eqb_eq; lia).
        cbn [negb bind]. rewrite E3. cbn [bind]. rewrite E4.
        change {| rs_offs := rs_offs (pushed S k df); rs_buf := rs_buf (pushed S k df) |} with (pushed S k df).
        apply (Hnext _ _ (rep_pushed _ _ _ _ HS Hnone)).
        intros k'. rewrite !aget_app, Hinv, Hdiff.
        destruct (aget k' (tgt chB done)); [reflexivity|]. cbn [aget].
        destruct (Z.eqb_spec k' k) as [->|Hne]; [|destruct (absent chB k'); [reflexivity|]; destruct (aget k' chA); reflexivity].
        unfold absent. rewrite HkB, Hk. reflexivity.
  Qed.
End UpdateSub.

(* the entries CreateDelta emits: all items of B that are new or differ *)
Lemma rdiffs_in chA v k df : In (k, df) (rdiffs chA v) ->
  exists dB, In (k, dB) v /\ df = diff_of chA (k, dB) /\ emitted chA (k, df) = true.
Proof.
  unfold rdiffs, diffs. intros H. apply filter_In in H. destruct H as [H He].
  apply in_map_iff in H. destruct H as ([k0 dB] & E & Hin). cbn [fst] in E. injection E as <- <-.
  exists dB. repeat split; assumption.
Qed.

Lemma filter_keys_nodup {V} (p : Z * V -> bool) l : NoDup (map fst l) -> NoDup (map fst (filter p l)).
Proof.
  induction l as [|[k v] l IH]; intros H; [constructor|]. cbn [map fst] in H. inversion H as [|? ? Hni Hnd]; subst.
  cbn [filter]. destruct (p (k, v)); [|apply IH, Hnd]. cbn [map fst]. constructor; [|apply IH, Hnd].
  intros Hin. apply Hni. apply in_map_iff in Hin. destruct Hin as (x & Hx & Hin). apply filter_In in Hin.
  apply in_map_iff. exists x. split; [exact Hx|apply Hin].
Qed.

Lemma diffs_keys chA v : map fst (diffs chA v) = map fst v.
Proof. unfold diffs. rewrite map_map. reflexivity. Qed.

Theorem apply_ref A B chA chB :
  rep A chA -> rep B chB -> keys_i32 A -> keys_i32 B ->
  forallb is_i32 (rs_buf A) = true -> forallb is_i32 (rs_buf B) = true ->
  lim_ok chB -> same_len chA chB ->
  exists B' ch',
    raw_read_with_delta A (delta_of (filter (absent chB) (map fst (rs_offs A))) (rdiffs chA (view B chB))) = (Ok B', [])
    /\ rep B' ch' /\ (forall k, aget k ch' = aget k chB).
Proof.
  intros HA HB IA IB HbA HbB Hlim Hsl.
  set (dl := rdiffs chA (view B chB)).
  set (d := delta_of (filter (absent chB) (map fst (rs_offs A))) dl).
  assert (Hdel : forall k, smem k (d_del d) = true <-> (In k (map fst (rs_offs A)) /\ absent chB k = true)).
  { intros k. rewrite smem_in. unfold d, delta_of. cbn [d_del]. rewrite filter_In. tauto. }
  assert (Hkept : forall k, aget k (kept d chA (rs_offs A)) = if absent chB k then None else aget k chA).
  { intros k. unfold kept. fold (view A chA).
    rewrite (aget_filter (fun k => negb (smem k (d_del d))) k (view A chA)), (aget_view A chA k HA).
    destruct (smem k (d_del d)) eqn:Hm; cbn [negb].
    - apply Hdel in Hm. destruct Hm as [_ ->]. reflexivity.
    - destruct (absent chB k) eqn:Ha; [|reflexivity].
      destruct (aget k chA) eqn:Hg; [|reflexivity]. exfalso.
      assert (smem k (d_del d) = true); [|congruence]. apply Hdel. split; [|exact Ha].
      apply (rep_in_keys _ _ _ HA). congruence. }
  assert (Hnd : NoDup (map fst (kept d chA (rs_offs A)))).
  { unfold kept. rewrite (filter_map_fst (fun k => negb (smem k (d_del d)))). apply NoDup_filter.
    rewrite map_map. cbn [fst]. apply rep_nodup_offs with chA, HA. }
  assert (HlimK : lim_ok ([] ++ kept d chA (rs_offs A))).
  { cbn [app]. destruct (weight_le (kept d chA (rs_offs A)) chB Hnd) as [W1 W2].
    - intros k dd Hin. apply (in_aget k dd _ Hnd) in Hin. rewrite Hkept in Hin.
      unfold absent in Hin. destruct (aget k chB) as [dB|] eqn:HkB; [|discriminate].
      exists dB. split; [reflexivity|]. apply (Hsl k dd dB Hin HkB).
    - destruct Hlim as [L1 L2]. unfold lim_ok, ser_size in *. split; lia. }
  destruct (rwd_copy_spec A chA d HA IA (rs_offs A) raw_empty [] 0%nat (incl_refl _) rep_empty) as (S1 & E1 & R1).
  { cbn [raw_empty rs_offs map app]. apply (rep_sorted _ _ HA). }
  { exact HlimK. }
  cbn [app] in R1.
  assert (Hndv : NoDup (map fst (view B chB))) by (rewrite view_keys; apply rep_nodup_offs with chB, HB).
  assert (Hent : Forall (ent chA chB) dl).
  { apply Forall_forall. intros [k df] Hin. destruct (rdiffs_in _ _ _ _ Hin) as (dB & HinB & Hdf & _).
    exists dB. cbn [fst snd]. split; [apply (in_view B chB k dB HB HinB)|]. split; [exact Hdf|].
    apply (view_i32 B chB IB (k, dB) HinB). }
  assert (Hnddl : NoDup (map fst dl)).
  { unfold dl, rdiffs. apply filter_keys_nodup. rewrite diffs_keys. exact Hndv. }
  destruct (rwd_update_sub A B chA chB HA HB Hsl HbA HbB Hlim dl [] S1 _ Hnddl Hent R1) as (S' & ch' & E2 & R2 & I2).
  { intros k. cbn [tgt map aget]. apply Hkept. }
  exists S', ch'. split; [|split; [exact R2|]].
  - unfold raw_read_with_delta. rewrite E1. cbn [wlift wbind Nat.add].
    replace (ndel d (rs_offs A) =? length (d_del d))%nat with true.
    + cbn [negb wret wbind app]. change (length (flat [])) with 0%nat in E2. cbn [app] in E2.
      unfold d at 1 2. unfold delta_of. cbn [d_buf d_upd]. rewrite E2. reflexivity.
    + symmetry. apply Nat.eqb_eq. unfold ndel.
      rewrite (filter_ext_in (fun kr : Z * range => smem (fst kr) (d_del d)) (fun kr => absent chB (fst kr))).
      * rewrite <- (map_length fst), (filter_map_fst (absent chB)). reflexivity.
      * intros [k r] Hin. cbn [fst]. destruct (absent chB k) eqn:Ha.
        -- apply Hdel. split; [apply (in_map fst) in Hin; exact Hin|exact Ha].
        -- destruct (smem k (d_del d)) eqn:Hm; [|reflexivity]. apply Hdel in Hm. destruct Hm as [_ Hm]. congruence.
  - intros k. cbn [app] in I2. rewrite I2. destruct (aget k (tgt chB dl)) as [dd|] eqn:Ht.
    + symmetry. apply (tgt_done chA chB dl Hent k dd Ht).
    + destruct (aget k chB) as [dB|] eqn:HkB; [|unfold absent; rewrite HkB; reflexivity].
      unfold absent. rewrite HkB.
      (* k is in B but was not emitted: it is in A with the same data *)
      assert (HinB : In (k, dB) (view B chB)).
      { apply aget_in. rewrite (aget_view B chB k HB). exact HkB. }
      assert (Hnotin : ~ In (k, diff_of chA (k, dB)) dl).
      { intros Hin. apply aget_none in Ht. apply Ht. rewrite tgt_keys. apply (in_map fst) in Hin. exact Hin. }
      assert (Hem : emitted chA (k, diff_of chA (k, dB)) = false).
      { destruct (emitted chA (k, diff_of chA (k, dB))) eqn:He; [|reflexivity]. exfalso. apply Hnotin.
        unfold dl, rdiffs. apply filter_In. split; [|exact He]. unfold diffs. apply in_map_iff.
        exists (k, dB). split; [reflexivity|exact HinB]. }
      unfold emitted in Hem. cbn [fst snd] in Hem. apply orb_false_iff in Hem. destruct Hem as [Hab Hne].
      unfold absent in Hab. destruct (aget k chA) as [f|] eqn:Hf; [|discriminate].
      f_equal. unfold diff_of in Hne. cbn [fst snd] in Hne. rewrite Hf in Hne. symmetry.
      apply zip_wsub_zero; [apply (Hsl k f dB Hf HkB)| | |exact Hne].
      * rewrite (rep_buf _ _ HA) in HbA. apply (flat_i32 chA k f HbA Hf).
      * rewrite (rep_buf _ _ HB) in HbB. apply (flat_i32 chB k dB HbB HkB).
Qed.

(* ---------- the wire precondition survives dropping entries ---------- *)
Lemma sorted_keys_filter {V} (p : Z * V -> bool) (l : list (Z * V)) :
  sortedb (map fst l) = true -> sortedb (map fst (filter p l)) = true.
Proof.
  induction l as [|[k v] l IH]; intros H; [reflexivity|]. cbn [map fst] in H. apply sortedb_cons in H.
  destruct H as [Hk Hs]. cbn [filter]. destruct (p (k, v)); [|apply IH, Hs]. cbn [map fst].
  apply sortedb_cons. split; [|apply IH, Hs]. intros x Hx. apply Hk. apply in_map_iff in Hx.
  destruct Hx as (y & Hy & Hin). apply filter_In in Hin. apply in_map_iff. exists y. split; [exact Hy|apply Hin].
Qed.

Lemma flat_filter_length (p : Z * list Z -> bool) l : (length (flat (filter p l)) <= length (flat l))%nat.
Proof.
  induction l as [|[k d] l IH]; [cbn; lia|]. cbn [filter]. destruct (p (k, d)); cbn [flat flat_map snd];
    rewrite ?app_length; fold (flat l); fold (flat (filter p l)); lia.
Qed.

Lemma wire_pre_filter sz del dch p : wire_pre sz del dch -> wire_pre sz del (filter p dch).
Proof.
  intros W. split.
  - apply (wp_del_sorted _ _ _ W).
  - apply (wp_del_i32 _ _ _ W).
  - apply sorted_keys_filter, (wp_keys_sorted _ _ _ W).
  - apply forallb_forall. intros x Hx. apply in_map_iff in Hx. destruct Hx as (y & <- & Hin). apply filter_In in Hin.
    pose proof (wp_keys_i32 _ _ _ W) as H. rewrite forallb_forall in H. apply H. apply in_map, Hin.
  - apply forallb_flat_in. intros k d Hin. apply filter_In in Hin.
    apply (proj1 (forallb_flat_in dch) (wp_data_i32 _ _ _ W) k d), Hin.
  - apply Forall_forall. intros x Hx. apply filter_In in Hx.
    pose proof (wp_sizes _ _ _ W) as H. rewrite Forall_forall in H. apply H, Hx.
  - intros k Hin. apply (wp_disjoint _ _ _ W). apply in_map_iff in Hin. destruct Hin as (y & <- & Hin).
    apply filter_In in Hin. apply in_map, Hin.
  - apply (wp_nd _ _ _ W).
  - pose proof (filter_length_le' p dch). pose proof (wp_nu _ _ _ W). lia.
  - pose proof (flat_filter_length p dch). pose proof (wp_nb _ _ _ W). lia.
Qed.

(* ================= part F: a RawSnap and the reference snapshot of the same items ================= *)
Definition rpos (S : rawsnap) : Prop := forall k, In k (map fst (rs_offs S)) -> 0 <= k <= i32_max.

Lemma ref_types_pos S : keys_i32 S -> ref_types_ok S = true -> rpos S.
Proof.
  unfold keys_i32, ref_types_ok. intros Hi Ht k Hin. rewrite forallb_forall in Hi, Ht.
  specialize (Hi k Hin). apply is_i32_iff in Hi. apply in_map_iff in Hin. destruct Hin as (kr & <- & Hin).
  specialize (Ht kr Hin). apply Z.leb_le in Ht. unfold i32_max. lia.
Qed.

Lemma isort_u32_sorted : forall l, sortedb l = true -> (forall k, In k l -> 0 <= k <= i32_max) -> isort_u32 l = l.
Proof.
  induction l as [|a l IH]; intros Hs Hp; [reflexivity|]. cbn [isort_u32].
  rewrite IH; [|apply sortedb_tail with a, Hs|intros k Hk; apply Hp; right; exact Hk].
  destruct l as [|b l]; [reflexivity|]. cbn [insert_u32].
  apply sortedb_cons in Hs. destruct Hs as [Hab _]. specialize (Hab b (or_introl eq_refl)).
  pose proof (Hp a (or_introl eq_refl)) as Ha. pose proof (Hp b (or_intror (or_introl eq_refl))) as Hb.
  unfold i32_max in *. unfold u32_of, two32. rewrite !Z.mod_small by lia.
  replace (a <=? b) with true by (symmetry; apply Z.leb_le; lia). reflexivity.
Qed.

Lemma kd_of_ritems v : forallb is_i32 (map fst v) = true -> map kd_of (ritems_of v) = v.
Proof.
  induction v as [|[k d] v IH]; intros H; [reflexivity|]. cbn [map fst forallb] in H.
  apply andb_true_iff in H. destruct H as [Hk H]. cbn [ritems_of map fst snd].
  unfold kd_of at 1, ritem_key. cbn [fst snd]. rewrite (key_split k Hk). f_equal. apply IH, H.
Qed.

Lemma ritems_of_ok v : (forall k, In k (map fst v) -> 0 <= k <= i32_max) -> forallb is_i32 (flat v) = true ->
  ritems_ok (ritems_of v) = true.
Proof.
  intros Hp Hd. unfold ritems_ok, ritems_of. apply forallb_forall. intros it Hin. apply in_map_iff in Hin.
  destruct Hin as ([k d] & <- & Hin). cbn [fst snd]. unfold ritem_ok, REF_MAX_TYPE, REF_MAX_ID.
  destruct (key_pos_ty k (Hp k (in_map fst _ _ Hin))) as (_ & _ & Rt). pose proof (key_to_id_range k) as Ri.
  replace (0 <=? key_to_raw_type_id k) with true by (symmetry; apply Z.leb_le; lia).
  replace (key_to_raw_type_id k <=? 32767) with true by (symmetry; apply Z.leb_le; lia).
  replace (0 <=? key_to_id k) with true by (symmetry; apply Z.leb_le; lia).
  replace (key_to_id k <=? 65535) with true by (symmetry; apply Z.leb_le; lia). cbn [andb].
  apply (proj1 (forallb_flat_in v) Hd k d Hin).
Qed.

Section OneSnap.
  Variables (S : rawsnap) (ch : items).
  Hypothesis G : good S.
  Hypothesis R : rep S ch.
  Hypothesis T : ref_types_ok S = true.

  Lemma view_pos : forall k, In k (map fst (view S ch)) -> 0 <= k <= i32_max.
  Proof. rewrite view_keys. apply ref_types_pos; [apply (g_keys _ G)|exact T]. Qed.

  Lemma view_lim : lim_ok (view S ch).
  Proof.
    pose proof (good_lim S ch G R) as [L1 L2]. pose proof (view_perm S ch R) as Hp. unfold lim_ok.
    rewrite (Permutation_length Hp), (length_flat_perm _ _ Hp). split; assumption.
  Qed.

  Lemma view_data_i32 : forallb is_i32 (flat (view S ch)) = true.
  Proof.
    apply forallb_flat_in. intros k d Hin. pose proof (g_buf _ G) as Hb. rewrite (rep_buf _ _ R) in Hb.
    apply (flat_i32 ch k d Hb). apply (in_view S ch k d R Hin).
  Qed.

  Lemma view_nodup : NoDup (map fst (view S ch)).
  Proof. rewrite view_keys. apply rep_nodup_offs with ch, R. Qed.

  Lemma ref_of_raw_spec : ref_of_raw S = Ok (ref_layout (view S ch)).
  Proof.
    unfold ref_of_raw. rewrite (raw_items_rep S ch R). cbn [bind].
    assert (Hk : forallb is_i32 (map fst (view S ch)) = true) by (rewrite view_keys; apply (g_keys _ G)).
    rewrite ref_builder_layout; rewrite ?(kd_of_ritems _ Hk); [reflexivity| |apply view_lim].
    apply ritems_of_ok; [apply view_pos|apply view_data_i32].
  Qed.

  Lemma layout_is_wire : ref_layout (view S ch) = wire_snap S ch.
  Proof.
    assert (Hu : uitems S ch = view S ch).
    { unfold uitems, ukeys. rewrite isort_u32_sorted; [symmetry; apply view_as_map|apply (rep_sorted _ _ R)|].
      apply ref_types_pos; [apply (g_keys _ G)|exact T]. }
    unfold wire_snap, ref_layout. rewrite Hu. destruct (rep_lengths _ _ R) as [L1 L2].
    pose proof (view_perm S ch R) as Hp.
    rewrite (length_flat_perm _ _ Hp), (Permutation_length Hp), <- L1, <- L2. reflexivity.
  Qed.
End OneSnap.

(* the reference builder, fed the items of a RawSnap in key order, writes what write_to_ints writes *)
Theorem c09_ref_builder S : raw_ok S = true -> ref_types_ok S = true ->
  exists l, ref_of_raw S = Ok l /\ snap_ints S = Ok l
    /\ (forall cap, (length l <= cap)%nat -> raw_write_to_ints S cap = Ok l).
Proof.
  intros OS T. pose proof (raw_ok_good S OS) as G. destruct (g_rep _ G) as [ch R].
  exists (wire_snap S ch). rewrite (ref_of_raw_spec S ch G R T), (layout_is_wire S ch G R T).
  pose proof (snap_ints_spec S ch G R) as Hs. split; [reflexivity|]. split; [exact Hs|].
  intros cap Hc. unfold raw_write_to_ints. rewrite Hs.
  replace (cap <? length (wire_snap S ch))%nat with false by (symmetry; apply Nat.ltb_ge; exact Hc).
  destruct (snap_wire_roundtrip S ch G R) as (l & _ & _ & Hl & _ & Hsz & _). rewrite Hs in Hl. injection Hl as <-.
  replace (MAX_SNAPSHOT_SIZE <? 4 * Z.of_nat (length (wire_snap S ch))) with false by (symmetry; apply Z.ltb_ge; exact Hsz).
  reflexivity.
Qed.

(* ---------- both builders on one list of items ---------- *)
Lemma raw_build_rep : forall its S0 ch0 S, ritems_ok its = true -> good S0 -> rep S0 ch0 ->
  raw_build_from S0 its = Ok S -> good S /\ rep S (ch0 ++ map kd_of its).
Proof.
  induction its as [|[[ty id] d] its IH]; intros S0 ch0 S Hok G0 R0 Hb.
  - cbn [raw_build_from] in Hb. injection Hb as <-. cbn [map]. rewrite app_nil_r. split; assumption.
  - cbn [ritems_ok forallb] in Hok. apply andb_true_iff in Hok. destruct Hok as [Ho Hok].
    destruct (ritem_ok_inv _ _ _ Ho) as (Ht & Hi & Hd).
    cbn [raw_build_from] in Hb. pose proof (add_item_good S0 ty id d G0) as Hg.
    rewrite add_item_eq in Hb, Hg.
    destruct (aget (key ty id) (rs_offs S0)) eqn:Hn; [discriminate|].
    destruct (MAX_SNAPSHOT_ITEMS <? _); [discriminate|]. destruct (MAX_SNAPSHOT_SIZE <? _); [discriminate|].
    cbn [bind] in Hb. specialize (Hg ltac:(lia) ltac:(lia) Hd).
    destruct (IH _ _ _ Hok Hg (rep_pushed S0 ch0 (key ty id) d R0 Hn) Hb) as [G' R'].
    split; [exact G'|]. cbn [map]. change (kd_of (ty, id, d)) with (key ty id, d).
    rewrite <- app_assoc in R'. exact R'.
Qed.

Lemma ritems_keys_pos its : ritems_ok its = true -> forall k, In k (map fst (map kd_of its)) -> 0 <= k <= i32_max.
Proof.
  intros Hok k Hin. rewrite map_map in Hin. apply in_map_iff in Hin. destruct Hin as ([[ty id] d] & <- & Hin).
  unfold ritems_ok in Hok. rewrite forallb_forall in Hok. destruct (ritem_ok_inv _ _ _ (Hok _ Hin)) as (Ht & Hi & _).
  cbn [kd_of fst]. unfold ritem_key. cbn [fst snd]. apply ref_key; assumption.
Qed.

Lemma view_sorted S ch : rep S ch -> sortedb (map fst ch) = true -> view S ch = ch.
Proof.
  intros R Hs. rewrite view_as_map.
  assert (E : map fst (rs_offs S) = map fst ch).
  { apply sortedb_ext; [apply (rep_sorted _ _ R)|exact Hs|]. intros x. pose proof (rep_keys _ _ R) as Hp. split; intros Hx.
    - apply (Permutation_in _ Hp Hx).
    - apply (Permutation_in _ (Permutation_sym Hp) Hx). }
  rewrite E. apply rebuild, (rep_nodup _ _ R).
Qed.

(* the same items, in ascending key order, through both builders: the same integers *)
Theorem c09_ref_builder_items its S : ritems_ok its = true -> raw_build its = Ok S ->
  sortedb (map ritem_key its) = true ->
  exists l, ref_builder_ints its = Ok l /\ snap_ints S = Ok l
    /\ (forall cap, (length l <= cap)%nat -> raw_write_to_ints S cap = Ok l).
Proof.
  intros Hok Hb Hs. destruct (raw_build_rep its raw_empty [] S Hok good_empty rep_empty Hb) as [G R].
  cbn [app] in R.
  assert (Hkeys : map fst (map kd_of its) = map ritem_key its) by (rewrite map_map; reflexivity).
  assert (Hv : view S (map kd_of its) = map kd_of its) by (apply view_sorted; [exact R|rewrite Hkeys; exact Hs]).
  assert (T : ref_types_ok S = true).
  { unfold ref_types_ok. apply forallb_forall. intros kr Hin. apply Z.leb_le.
    apply (ritems_keys_pos its Hok). apply (Permutation_in _ (rep_keys _ _ R)). apply in_map, Hin. }
  exists (wire_snap S (map kd_of its)). rewrite <- (layout_is_wire S _ G R T), Hv.
  split; [apply ref_builder_layout; [exact Hok|apply (good_lim S _ G R)]|].
  pose proof (snap_ints_spec S _ G R) as Hsi. rewrite <- (layout_is_wire S _ G R T), Hv in Hsi.
  split; [exact Hsi|]. intros cap Hc. unfold raw_write_to_ints. rewrite Hsi.
  replace (cap <? length (ref_layout (map kd_of its)))%nat with false by (symmetry; apply Nat.ltb_ge; exact Hc).
  destruct (snap_wire_roundtrip S _ G R) as (l & _ & _ & Hl & _ & Hsz & _).
  rewrite Hsi in Hl. injection Hl as <-.
  replace (MAX_SNAPSHOT_SIZE <? 4 * Z.of_nat (length (ref_layout (map kd_of its)))) with false by (symmetry; apply Z.ltb_ge; exact Hsz).
  reflexivity.
Qed.

(* the same items in ANY order: libtw2 reads what the reference builder wrote as the snapshot its own
   builder makes - the same items (in key order), lookups and checksum *)
Theorem c09_ref_builder_any_order its S : ritems_ok its = true -> raw_build its = Ok S ->
  exists l S', ref_builder_ints its = Ok l /\ raw_read_from_ints l = (Ok S', [])
    /\ (forall E, @raw_items E S' = @raw_items E S)
    /\ (forall E ty id, @raw_item E S' ty id = @raw_item E S ty id)
    /\ crc S' = crc S.
Proof.
  intros Hok Hb. destruct (raw_build_rep its raw_empty [] S Hok good_empty rep_empty Hb) as [G R].
  cbn [app] in R. set (vu := map kd_of its) in *.
  pose proof (good_lim S vu G R) as Hlim.
  assert (Hki : forallb is_i32 (map fst vu) = true).
  { apply forallb_forall. intros k Hin. apply is_i32_iff. pose proof (ritems_keys_pos its Hok k Hin). unfold i32_max in *. lia. }
  destruct (read_back vu (rep_nodup _ _ R) Hki Hlim (Z.of_nat (length (flat vu)))) as (S' & E & R'); [apply ilen_flat|lia|].
  exists (ref_layout vu), S'. split; [apply ref_builder_layout; assumption|]. split; [exact E|].
  destruct (same_lookups S' vu S vu R' R (fun k => eq_refl)) as (Hv & Hc & _).
  split; [intros E0; rewrite (raw_items_rep S' vu R'), (raw_items_rep S vu R), Hv; reflexivity|].
  split; [intros E0 ty id; rewrite (raw_item_rep S' vu ty id R'), (raw_item_rep S vu ty id R); reflexivity|exact Hc].
Qed.

(* ================= part G: the reference's delta for a pair, read and applied by libtw2 ================= *)
Lemma rdiffs_ext c1 c2 v : (forall k, aget k c1 = aget k c2) -> rdiffs c1 v = rdiffs c2 v.
Proof.
  intros H. unfold rdiffs.
  assert (Hd : diffs c1 v = diffs c2 v).
  { unfold diffs. apply map_ext. intros kd. unfold diff_of. rewrite H. reflexivity. }
  rewrite Hd. apply filter_ext. intros e. unfold emitted, absent. rewrite H. reflexivity.
Qed.

Lemma same_len_ext c1 c2 d1 d2 : (forall k, aget k c1 = aget k c2) -> (forall k, aget k d1 = aget k d2) ->
  same_len c2 d2 -> same_len c1 d1.
Proof. intros H1 H2 Hs k f d Hf Hd. rewrite H1 in Hf. rewrite H2 in Hd. apply (Hs k f d Hf Hd). Qed.

Theorem c09_ref_delta sz A B :
  raw_ok A = true -> raw_ok B = true -> k09 A B = false ->
  ref_types_ok A = true -> ref_types_ok B = true ->
  ref_buckets_ok A = true -> ref_buckets_ok B = true ->
  ref_table_ok sz = true -> sizes_respected sz B = true -> ref_delta_fits A B = true ->
  exists fa fb ints,
    ref_of_raw A = Ok fa /\ ref_of_raw B = Ok fb /\ ref_delta sz fa fb = Ok ints
    /\ ((ints = [] /\ (forall E, @raw_items E A = @raw_items E B) /\ crc A = crc B)
        \/ (exists d B',
              delta_read_from_ints sz ints = (Ok d, [])
              /\ raw_read_with_delta A d = (Ok B', [])
              /\ (forall E, @raw_items E B' = @raw_items E B)
              /\ (forall E ty id, @raw_item E B' ty id = @raw_item E B ty id)
              /\ crc B' = crc B)).
Proof.
  intros OA OB Hk TA TB BA BB Hsz Hsr Hfit.
  destruct (raw_ok_rep A OA) as (chA & HA & IA & HbA & LA).
  destruct (raw_ok_rep B OB) as (chB & HB & IB & HbB & LB).
  pose proof (raw_ok_good A OA) as GA. pose proof (raw_ok_good B OB) as GB.
  pose proof (k09_false _ _ _ _ HA HB Hk) as Hsl.
  exists (ref_layout (view A chA)), (ref_layout (view B chB)).
  set (del := filter (absent chB) (map fst (rs_offs A))).
  set (dl := rdiffs chA (view B chB)).
  exists (if (Z.of_nat (length del) =? 0) && (Z.of_nat (length dl) =? 0) then [] else wire_ints sz del dl).
  split; [apply ref_of_raw_spec; assumption|]. split; [apply ref_of_raw_spec; assumption|].
  assert (Edel : ref_del (view A chA) (view B chB) = del).
  { unfold ref_del, del. rewrite view_keys. apply filter_ext. intros k. unfold absent. rewrite (aget_view B chB k HB). reflexivity. }
  assert (Edl : rdiffs (view A chA) (view B chB) = dl) by (apply rdiffs_ext; intros k; apply (aget_view A chA k HA)).
  split.
  { unfold ref_delta. rewrite (table_sizes_ok sz Hsz).
    rewrite (ref_create_delta_spec sz Hsz (view A chA) (view B chB)); rewrite ?Edel, ?Edl; try reflexivity.
    - apply (view_lim A chA GA HA).
    - apply (view_lim B chB GB HB).
    - apply (view_nodup A chA HA).
    - apply (view_nodup B chB HB).
    - intros k Hin. apply (view_pos B chB GB TB k Hin).
    - rewrite view_keys. apply ref_buckets_fine, BA.
    - rewrite view_keys. apply ref_buckets_fine, BB.
    - apply (same_len_ext _ chA _ chB); [intros k; apply (aget_view A chA k HA)|intros k; apply (aget_view B chB k HB)|exact Hsl].
    - unfold ref_delta_fits, REF_BUF_INTS in Hfit. apply Z.leb_le in Hfit. unfold wsum, view. rewrite !map_length.
      fold (view B chB). rewrite (length_flat_perm _ _ (view_perm B chB HB)), <- (rep_buf _ _ HB). lia. }
  (* an item of B that is not in the delta is in A with the same data *)
  assert (Hsame : forall k dB, aget k chB = Some dB -> ~ In k (map fst dl) -> aget k chA = Some dB).
  { intros k dB HkB Hni.
    assert (HinB : In (k, dB) (view B chB)) by (apply aget_in; rewrite (aget_view B chB k HB); exact HkB).
    assert (Hem : emitted chA (k, diff_of chA (k, dB)) = false).
    { destruct (emitted chA (k, diff_of chA (k, dB))) eqn:He; [|reflexivity]. exfalso. apply Hni.
      change k with (fst (k, diff_of chA (k, dB))). apply in_map. unfold dl, rdiffs. apply filter_In.
      split; [|exact He]. unfold diffs. apply in_map_iff. exists (k, dB). split; [reflexivity|exact HinB]. }
    unfold emitted in Hem. cbn [fst snd] in Hem. apply orb_false_iff in Hem. destruct Hem as [Hab Hne].
    unfold absent in Hab. destruct (aget k chA) as [f|] eqn:Hf; [|discriminate].
    f_equal. unfold diff_of in Hne. cbn [fst snd] in Hne. rewrite Hf in Hne. symmetry.
    apply zip_wsub_zero; [apply (Hsl k f dB Hf HkB)| | |exact Hne].
    - rewrite (rep_buf _ _ HA) in HbA. apply (flat_i32 chA k f HbA Hf).
    - rewrite (rep_buf _ _ HB) in HbB. apply (flat_i32 chB k dB HbB HkB). }
  destruct ((Z.of_nat (length del) =? 0) && (Z.of_nat (length dl) =? 0)) eqn:Hempty.
  - (* the empty delta: nothing deleted, nothing new or changed *)
    left. split; [reflexivity|]. apply andb_true_iff in Hempty. destruct Hempty as [E1 E2].
    apply Z.eqb_eq in E1, E2. assert (Hd0 : del = []) by (destruct del; [reflexivity|cbn [length] in E1; lia]).
    assert (Hl0 : dl = []) by (destruct dl; [reflexivity|cbn [length] in E2; lia]).
    assert (Hlook : forall k, aget k chA = aget k chB).
    { intros k. destruct (aget k chB) as [dB|] eqn:HkB.
      - apply (Hsame k dB HkB). rewrite Hl0. intros [].
      - destruct (aget k chA) as [f|] eqn:Hf; [|reflexivity]. exfalso.
        assert (Hin : In k del).
        { unfold del. apply filter_In. split; [apply (rep_in_keys _ _ _ HA); congruence|unfold absent; rewrite HkB; reflexivity]. }
        rewrite Hd0 in Hin. destruct Hin. }
    destruct (same_lookups A chA B chB HA HB Hlook) as (Hv & Hc & _).
    split; [intros E; rewrite (raw_items_rep A chA HA), (raw_items_rep B chB HB), Hv; reflexivity|exact Hc].
  - right.
    destruct (created_pre sz A B chA chB HA HB IA IB HbA HbB LA LB Hsl Hsr) as [_ W].
    cbn [created d_del] in W. fold del in W.
    pose proof (wire_pre_filter sz del _ (emitted chA) W) as W'. fold (rdiffs chA (view B chB)) in W'. fold dl in W'.
    destruct (apply_ref A B chA chB HA HB IA IB HbA HbB LB Hsl) as (B' & ch' & Eap & R' & Hlook).
    fold del dl in Eap.
    exists (delta_of del dl), B'. split; [apply wire_ints_roundtrip, W'|]. split; [exact Eap|].
    destruct (same_lookups _ _ _ _ R' HB Hlook) as (Hv & Hc & _).
    split; [intros E; rewrite (raw_items_rep B' ch' R'), (raw_items_rep B chB HB), Hv; reflexivity|].
    split; [intros E ty id; rewrite (raw_item_rep B' ch' ty id R'), (raw_item_rep B chB ty id HB), Hlook; reflexivity|exact Hc].
Qed.

(* ================= part H: items in any order ================= *)
(* ---------- Delta::read_from_ints on a wire form whose keys are not sorted ---------- *)
Definition sins_all (l acc : list Z) : list Z := fold_left (fun a v => sins v a) l acc.
Definition ins_all (l acc : list (Z * range)) : list (Z * range) :=
  fold_left (fun a kr => ains (fst kr) (snd kr) a) l acc.

Lemma sins_all_in l : forall acc x, In x (sins_all l acc) <-> In x l \/ In x acc.
Proof.
  induction l as [|v l IH]; intros acc x; cbn [sins_all fold_left]; [cbn [In]; tauto|].
  fold (sins_all l (sins v acc)). rewrite IH, sins_in. cbn [In]. intuition.
Qed.

Lemma sins_all_sorted l : forall acc, sortedb acc = true -> sortedb (sins_all l acc) = true.
Proof.
  induction l as [|v l IH]; intros acc H; [exact H|]. cbn [sins_all fold_left]. apply IH, sins_sorted, H.
Qed.

Lemma sins_length_new k l : ~ In k l -> length (sins k l) = Datatypes.S (length l).
Proof.
  induction l as [|a l IH]; intros Hni; [reflexivity|]. cbn [sins].
  destruct (Z.ltb_spec k a); [reflexivity|]. destruct (Z.eqb_spec k a); [exfalso; apply Hni; left; auto|].
  cbn [length]. rewrite IH; [reflexivity|]. intros Hin. apply Hni. right. exact Hin.
Qed.

Lemma sins_all_length l : forall acc, NoDup l -> (forall x, In x l -> ~ In x acc) ->
  length (sins_all l acc) = (length l + length acc)%nat.
Proof.
  induction l as [|v l IH]; intros acc Hnd Hdj; [reflexivity|]. inversion Hnd as [|? ? Hni Hnd']; subst.
  cbn [sins_all fold_left]. fold (sins_all l (sins v acc)). rewrite IH; [|exact Hnd'|].
  - rewrite sins_length_new by (apply Hdj; left; reflexivity). cbn [length]. lia.
  - intros x Hx Hin. apply sins_in in Hin. destruct Hin as [->|Hin]; [contradiction|]. apply (Hdj x); [right; exact Hx|exact Hin].
Qed.

Lemma ins_all_app a b acc : ins_all (a ++ b) acc = ins_all b (ins_all a acc).
Proof. unfold ins_all. apply fold_left_app. Qed.

Lemma ins_all_sorted l : forall acc, sortedb (map fst acc) = true -> sortedb (map fst (ins_all l acc)) = true.
Proof.
  induction l as [|[k r] l IH]; intros acc H; [exact H|]. cbn [ins_all fold_left fst snd]. apply IH, ains_sorted, H.
Qed.

Lemma ins_all_in l : forall acc x, In x (ins_all l acc) -> In x l \/ In x acc.
Proof.
  induction l as [|[k r] l IH]; intros acc x H; [right; exact H|]. cbn [ins_all fold_left fst snd] in H.
  apply IH in H. destruct H as [H|H]; [left; right; exact H|]. apply ains_in in H.
  destruct H as [->|H]; [left; left; reflexivity|right; exact H].
Qed.

Lemma aget_ins_all_other k l : forall acc, ~ In k (map fst l) -> aget k (ins_all l acc) = aget k acc.
Proof.
  induction l as [|[k' r] l IH]; intros acc Hni; [reflexivity|]. cbn [ins_all fold_left fst snd].
  fold (ins_all l (ains k' r acc)). rewrite IH by (intros Hin; apply Hni; right; exact Hin).
  apply aget_ains_other. intros ->. apply Hni. left. reflexivity.
Qed.

Lemma aget_ins_all_in k r l : forall acc, NoDup (map fst l) -> In (k, r) l -> aget k (ins_all l acc) = Some r.
Proof.
  induction l as [|[k' r'] l IH]; intros acc Hnd Hin; [destruct Hin|]. cbn [map fst] in Hnd.
  inversion Hnd as [|? ? Hni Hnd']; subst. cbn [ins_all fold_left fst snd]. fold (ins_all l (ains k' r' acc)).
  destruct Hin as [E|Hin].
  - injection E as -> ->. rewrite aget_ins_all_other by exact Hni. apply aget_ains_same.
  - apply IH; assumption.
Qed.

Lemma ins_all_keys_in l : forall acc k, In k (map fst l) -> In k (map fst (ins_all l acc)).
Proof.
  induction l as [|[k' r] l IH]; intros acc k Hin; [destruct Hin|]. cbn [ins_all fold_left fst snd].
  fold (ins_all l (ains k' r acc)). cbn [map fst] in Hin.
  destruct (in_dec Z.eq_dec k (map fst l)) as [Hl|Hl]; [apply IH, Hl|].
  destruct Hin as [<-|Hin]; [|contradiction]. apply aget_some_in. exists r.
  rewrite aget_ins_all_other by exact Hl. apply aget_ains_same.
Qed.

(* the precondition of the wire theorem without the order *)
Record wire_pre_u (sz : osize) (del : list Z) (dch : items) : Prop := {
  wu_del_nd : NoDup del;
  wu_keys_nd : NoDup (map fst dch);
  wu_keys_i32 : forallb is_i32 (map fst dch) = true;
  wu_sizes : Forall (size_ok sz) dch;
  wu_disjoint : forall k, In k (map fst dch) -> ~ In k del;
  wu_nd : Z.of_nat (length del) <= i32_max;
  wu_nu : Z.of_nat (length dch) <= i32_max;
  wu_nb : Z.of_nat (length (flat dch)) <= i32_max
}.

Definition delta_of_u (del : list Z) (dch : items) : delta :=
  {| d_del := sins_all del []; d_upd := ins_all (ranges_of 0 dch) []; d_buf := flat dch |}.

Notation rie := (read_int_err (list Z) int_rd_int).

Lemma rie_cons v l e : rie (v :: l) e = (Ok (v, l), []).
Proof. reflexivity. Qed.

Lemma read_deleted_any : forall del acc rest fuel, (length del <= fuel)%nat ->
  read_deleted (list Z) int_rd_int fuel (Z.of_nat (length del)) (del ++ rest) acc = (Ok (rest, sins_all del acc), []).
Proof.
  induction del as [|v del IH]; intros acc rest fuel Hf.
  - destruct fuel; reflexivity.
  - destruct fuel as [|fuel]; [cbn in Hf; lia|]. cbn [read_deleted].
    replace (Z.of_nat (length (v :: del)) <=? 0) with false by (symmetry; apply Z.leb_gt; cbn [length]; lia).
    cbn [app]. rewrite rie_cons, wbind_ok.
    replace (Z.of_nat (length (v :: del)) - 1) with (Z.of_nat (length del)) by (cbn [length]; lia).
    rewrite IH by (cbn [length] in Hf; lia). reflexivity.
Qed.

Lemma read_data_int : forall data acc rest fuel, (length data <= fuel)%nat ->
  read_data (list Z) int_rd_int fuel (Z.of_nat (length data)) (data ++ rest) acc = (Ok (rest, rev acc ++ data), []).
Proof.
  induction data as [|v data IH]; intros acc rest fuel Hf.
  - destruct fuel; cbn [read_data length Z.of_nat Z.leb Z.compare app]; rewrite app_nil_r; reflexivity.
  - destruct fuel as [|fuel]; [cbn in Hf; lia|]. cbn [read_data].
    replace (Z.of_nat (length (v :: data)) <=? 0) with false by (symmetry; apply Z.leb_gt; cbn [length]; lia).
    cbn [app]. rewrite rie_cons, wbind_ok.
    replace (Z.of_nat (length (v :: data)) - 1) with (Z.of_nat (length data)) by (cbn [length]; lia).
    rewrite IH by (cbn [length] in Hf; lia). cbn [rev]. rewrite <- app_assoc. reflexivity.
Qed.

Definition st_of (dl : list Z) (done : items) : delta :=
  {| d_del := dl; d_upd := ins_all (ranges_of 0 done) []; d_buf := flat done |}.

Lemma read_updates_any sz dl : forall todo done fuel num,
  NoDup (map fst done ++ map fst todo) ->
  forallb is_i32 (map fst todo) = true ->
  Forall (size_ok sz) todo ->
  (forall k, In k (map fst todo) -> smem k dl = false) ->
  num + Z.of_nat (length todo) <= i32_max -> 0 <= num ->
  Z.of_nat (length (flat (done ++ todo))) <= i32_max ->
  (length todo <= fuel)%nat ->
  read_updates (list Z) int_rd_empty int_rd_int (fun p => Datatypes.S (length p)) fuel sz
    (flat_map (upd_enc sz) todo) (st_of dl done) num
  = (Ok (st_of dl (done ++ todo), num + Z.of_nat (length todo)), []).
Proof.
  induction todo as [|[k d] todo IH]; intros done fuel num Hnd Hki Hsz Hdj Hnum Hn0 Hnb Hf.
  - cbn [flat_map length Z.of_nat]. rewrite app_nil_r, Z.add_0_r. destruct fuel; reflexivity.
  - destruct fuel as [|fuel]; [cbn in Hf; lia|].
    cbn [map fst forallb] in Hki. apply andb_true_iff in Hki. destruct Hki as [Hk Hki'].
    inversion Hsz as [|? ? Hsk Hsz']; subst.
    cbn [read_updates flat_map]. rewrite upd_enc_eq. cbn [app int_rd_empty].
    rewrite rie_cons, wbind_ok, rie_cons, wbind_ok.
    pose proof (key_to_ty_range k) as Rt. pose proof (key_to_id_range k) as Ri.
    rewrite (proj2 (is_u16_iff _) Rt), (proj2 (is_u16_iff _) Ri). cbn [negb].
    unfold size_ok in Hsk. cbn [fst snd] in Hsk. unfold size_field.
    assert (Hbuflen : Z.of_nat (length (flat done)) + Z.of_nat (length d) <= i32_max).
    { rewrite flat_app, app_length in Hnb. cbn [flat flat_map snd] in Hnb. rewrite app_length in Hnb. lia. }
    assert (Hcont : forall size, size = Z.of_nat (length d) ->
      (let start := length (d_buf (st_of dl done)) in
       if u32_max <? Z.of_nat start then werr TooLongDiff
       else if u32_max <? Z.of_nat start + size then werr TooLongDiff
       else let+ (p4, data) := read_data (list Z) int_rd_int (Datatypes.S (length (d ++ flat_map (upd_enc sz) todo))) size
                                 (d ++ flat_map (upd_enc sz) todo) [] in
            let buf' := d_buf (st_of dl done) ++ data in
            let k0 := key (key_to_raw_type_id k) (key_to_id k) in
            let+ _ := match aget k0 (d_upd (st_of dl done)) with Some _ => wwarn DuplicateUpdate | None => wret tt end in
            let+ _ := if smem k0 (d_del (st_of dl done)) then wwarn DeleteUpdate else wret tt in
            if num =? i32_max then (Panic site_num_updates, [])
            else read_updates (list Z) int_rd_empty int_rd_int (fun p => Datatypes.S (length p)) fuel sz p4
                   {| d_del := d_del (st_of dl done);
                      d_upd := ains k0 (start, length buf') (d_upd (st_of dl done)); d_buf := buf' |} (num + 1))
      = (Ok (st_of dl (done ++ (k, d) :: todo), num + Z.of_nat (length ((k, d) :: todo))), [])).
    { intros size ->. cbn zeta. cbn [st_of d_buf d_upd d_del].
      unfold u32_max, i32_max in *.
      replace (4294967295 <? Z.of_nat (length (flat done))) with false by (symmetry; apply Z.ltb_ge; lia).
      replace (4294967295 <? Z.of_nat (length (flat done)) + Z.of_nat (length d)) with false by (symmetry; apply Z.ltb_ge; lia).
      rewrite read_data_int by (rewrite app_length; lia).
      rewrite wbind_ok. cbn [rev app]. rewrite (key_split k Hk).
      cbn [map fst] in Hnd.
      assert (Hkd : ~ In k (map fst done)).
      { apply NoDup_remove_2 in Hnd. intros Hin. apply Hnd, in_or_app. left. exact Hin. }
      rewrite aget_ins_all_other by (rewrite ranges_of_keys; exact Hkd). cbn [aget].
      unfold wret at 1. rewrite wbind_ok.
      rewrite (Hdj k) by (left; reflexivity). unfold wret at 1. rewrite wbind_ok.
      replace (num =? 2147483647) with false by (symmetry; apply Z.eqb_neq; cbn [length] in Hnum; lia).
      match goal with |- read_updates _ _ _ _ _ _ _ ?X _ = _ =>
        replace X with (st_of dl (done ++ [(k, d)])) end.
      2:{ unfold st_of. f_equal.
        - rewrite ranges_of_app, ins_all_app. cbn [ranges_of ins_all fold_left fst snd Nat.add]. rewrite app_length. reflexivity.
        - rewrite flat_app. cbn. rewrite app_nil_r. reflexivity. }
      rewrite IH.
      - rewrite <- app_assoc. cbn [app length].
        replace (num + 1 + Z.of_nat (length todo)) with (num + Z.of_nat (Datatypes.S (length todo))) by lia. reflexivity.
      - rewrite map_app. cbn [map fst]. rewrite <- app_assoc. exact Hnd.
      - exact Hki'.
      - exact Hsz'.
      - intros k' Hk'. apply Hdj. right. exact Hk'.
      - cbn [length] in Hnum. lia.
      - lia.
      - rewrite <- app_assoc. exact Hnb.
      - cbn [length] in Hf. lia. }
    destruct (sz (key_to_raw_type_id k)) as [s|] eqn:Hsz0.
    + unfold wret at 1. rewrite wbind_ok. cbn [app]. apply Hcont. exact Hsk.
    + cbn [app]. rewrite rie_cons, wbind_ok.
      replace (Z.of_nat (length d) <? 0) with false by (symmetry; apply Z.ltb_ge; lia).
      unfold wret at 1. rewrite wbind_ok. apply Hcont. reflexivity.
Qed.

Theorem read_wire_u sz del dch : wire_pre_u sz del dch ->
  delta_read_from_ints sz (wire_ints sz del dch) = (Ok (delta_of_u del dch), []).
Proof.
  intros W. unfold delta_read_from_ints, wire_ints, read_delta, read_delta_header.
  pose proof (wu_nd _ _ _ W) as Hnd. pose proof (wu_nu _ _ _ W) as Hnu.
  rewrite rie_cons, wbind_ok.
  replace (Z.of_nat (length del) <? 0) with false by (symmetry; apply Z.ltb_ge; lia).
  rewrite rie_cons, wbind_ok.
  replace (Z.of_nat (length dch) <? 0) with false by (symmetry; apply Z.ltb_ge; lia).
  rewrite rie_cons, wbind_ok. cbn [Z.eqb negb].
  unfold wret at 1. rewrite wbind_ok. unfold wret at 1. rewrite wbind_ok.
  rewrite read_deleted_any by (rewrite app_length; lia). rewrite wbind_ok.
  rewrite (sins_all_length del [] (wu_del_nd _ _ _ W)) by (intros x _ []).
  cbn [length]. rewrite Nat.add_0_r, Z.eqb_refl. cbn [negb]. unfold wret at 1. rewrite wbind_ok.
  change {| d_del := sins_all del []; d_upd := []; d_buf := [] |} with (st_of (sins_all del []) []).
  rewrite read_updates_any.
  - rewrite wbind_ok. cbn [app Z.add]. rewrite Z.eqb_refl. cbn [negb]. unfold wret at 1. rewrite wbind_ok. reflexivity.
  - cbn [map app]. apply (wu_keys_nd _ _ _ W).
  - apply (wu_keys_i32 _ _ _ W).
  - apply (wu_sizes _ _ _ W).
  - intros k Hk. destruct (smem k (sins_all del [])) eqn:E; [|reflexivity]. exfalso.
    apply smem_in, sins_all_in in E. destruct E as [E|[]]. apply (wu_disjoint _ _ _ W k Hk E).
  - lia.
  - lia.
  - cbn [app]. apply (wu_nb _ _ _ W).
  - assert (G : forall l, (length l <= length (flat_map (upd_enc sz) l))%nat).
    { induction l as [|x l IHl]; [cbn; lia|]. cbn [flat_map length]. rewrite app_length. unfold upd_enc at 1. cbn [length]. lia. }
    specialize (G dch). lia.
Qed.

(* ---------- the update loop over any list of (key, range) whose ranges cut entries out of the buffer ---------- *)
Definition sliced (chA chB : items) (dbuf : list Z) (kr : Z * range) : Prop :=
  exists df, (forall E, @slice E dbuf (snd kr) = Ok df) /\ ent chA chB (fst kr, df).

Section UpdateGen.
  Variables (A B : rawsnap) (chA chB : items).
  Hypothesis HA : rep A chA.
  Hypothesis HB : rep B chB.
  Hypothesis Hsl : same_len chA chB.
  Hypothesis HbA : forallb is_i32 (rs_buf A) = true.
  Hypothesis HbB : forallb is_i32 (rs_buf B) = true.
  Hypothesis HlimB : lim_ok chB.
  Variable dbuf : list Z.

  Lemma rwd_update_gen : forall todo done S ch,
    NoDup (map fst done ++ map fst todo) -> Forall (ent chA chB) done -> Forall (sliced chA chB dbuf) todo ->
    rep S ch -> upd_inv chA chB ch (tgt chB done) ->
    exists S' ch' done',
      rwd_update A dbuf todo S = Ok S' /\ rep S' ch' /\ upd_inv chA chB ch' (tgt chB done')
      /\ map fst done' = map fst done ++ map fst todo /\ Forall (ent chA chB) done'.
  Proof.
    induction todo as [|[k r] todo IH]; intros done S ch Hnd Halld Hall HS Hinv.
    - exists S, ch, done. cbn [rwd_update map]. rewrite app_nil_r. split; [reflexivity|]. split; [exact HS|]. split; [exact Hinv|]. split; [reflexivity|exact Halld].
    - inversion Hall as [|? ? Hsl0 Hall']; subst. destruct Hsl0 as (df & Hslice & Hent). cbn [fst snd] in Hslice, Hent.
      pose proof Hent as Hent0.
      destruct Hent as (dB & HkB & Hdf & Hki). cbn [fst snd] in HkB, Hdf, Hki.
      cbn [map fst] in Hnd.
      assert (Hkd : aget k (tgt chB done) = None).
      { apply aget_none. rewrite tgt_keys. apply NoDup_remove_2 in Hnd. intros Hin. apply Hnd, in_or_app. left. exact Hin. }
      pose proof (tgt_done chA chB done Halld) as Hdone.
      assert (Hdl : length df = length dB).
      { rewrite Hdf. apply diff_len. intros f Hf. apply (Hsl k f dB Hf HkB). }
      cbn [rwd_update]. rewrite Hslice. cbn [bind]. rewrite (key_split k Hki).
      pose proof (Hinv k) as Hk. rewrite Hkd in Hk. unfold absent in Hk. rewrite HkB in Hk.
      rewrite (raw_item_rep A chA) by exact HA. rewrite (key_split k Hki).
      assert (Htg : tgt chB (done ++ [(k, df)]) = tgt chB done ++ [(k, dB)]).
      { rewrite tgt_app. cbn [tgt map fst]. unfold data_of. rewrite HkB. reflexivity. }
      assert (Hnext : forall S2 ch2, rep S2 ch2 -> upd_inv chA chB ch2 (tgt chB done ++ [(k, dB)]) ->
        exists S' ch' done', rwd_update A dbuf todo S2 = Ok S'
           /\ rep S' ch' /\ upd_inv chA chB ch' (tgt chB done')
           /\ map fst done' = map fst done ++ k :: map fst todo /\ Forall (ent chA chB) done').
      { intros S2 ch2 R2 I2.
        destruct (IH (done ++ [(k, df)]) S2 ch2) as (S' & ch' & done' & E & R & I & Hk' & Ha').
        - rewrite map_app. cbn [map fst]. rewrite <- app_assoc. exact Hnd.
        - apply Forall_app. split; [exact Halld|constructor; [exact Hent0|constructor]].
        - exact Hall'.
        - exact R2.
        - rewrite Htg. exact I2.
        - exists S', ch', done'. rewrite map_app, <- app_assoc in Hk'. cbn [map fst app] in Hk'.
          split; [exact E|]. split; [exact R|]. split; [exact I|]. split; [exact Hk'|exact Ha']. }
      destruct (aget k ch) as [f|] eqn:Hch.
      + symmetry in Hk. destruct (rep_get_some _ _ _ _ HS Hch) as (r0 & Hr & Hrl & Hrs).
        unfold prepare_item. rewrite Hr. cbn [bind]. rewrite Hrs. cbn [bind].
        assert (Hfl : length f = length dB) by (apply (Hsl k f dB Hk HkB)).
        replace (range_len r0 =? length df)%nat with true by (symmetry; apply Nat.eqb_eq; lia).
        cbn [negb bind]. rewrite Hk. unfold apply_item_delta.
        replace (length df =? range_len r0)%nat with true by (symmetry; apply Nat.eqb_eq; lia).
        replace (length f =? range_len r0)%nat with true by (symmetry; apply Nat.eqb_eq; lia).
        cbn [negb bind].
        assert (Hout : zip_with wadd f df = dB).
        { rewrite Hdf. unfold diff_of. cbn [fst snd]. rewrite Hk. apply zip_add_sub; [exact Hfl| |].
          - rewrite (rep_buf _ _ HA) in HbA. apply (flat_i32 chA k f HbA Hk).
          - rewrite (rep_buf _ _ HB) in HbB. apply (flat_i32 chB k dB HbB HkB). }
        rewrite Hout. destruct (rep_write S ch k r0 dB HS Hr) as (buf' & Ew & Rw); [lia|].
        rewrite Ew. cbn [bind]. apply (Hnext _ _ Rw).
        intros k'. rewrite aget_app. destruct (Z.eq_dec k' k) as [->|Hne].
        * rewrite Hkd. cbn [aget]. rewrite Z.eqb_refl. apply aget_aset_same.
          apply aget_some_in. exists f. exact Hch.
        * rewrite aget_aset_other by exact Hne. rewrite Hinv.
          destruct (aget k' (tgt chB done)); [reflexivity|]. cbn [aget]. destruct (Z.eqb_spec k' k); [contradiction|reflexivity].
      + symmetry in Hk.
        assert (Hnone : aget k (rs_offs S) = None) by (apply (rep_get_none _ _ _ HS), Hch).
        assert (Hdiff : df = dB) by (rewrite Hdf; unfold diff_of; cbn [fst snd]; rewrite Hk; reflexivity).
        assert (Hlim1 : lim_ok (ch ++ [(k, df)])).
        { apply (upd_weight chA chB Hsl HlimB ch (tgt chB done) k dB (rep_nodup _ _ HS) Hinv Hdone Hch HkB). exact Hdl. }
        destruct (push_steps S k df Hnone (fits_of_lim _ _ _ _ HS Hlim1))
          as (S1 & ro & E1 & E2 & E2' & E3 & E4).
        rewrite E1. cbn [bind]. destruct (E2 serr) as [z Ez]. rewrite Ez. cbn [bind].
        replace (range_len ro =? length df)%nat with true by (symmetry; apply Nat.eqb_eq; lia).
        cbn [negb bind]. rewrite Hk. unfold apply_item_delta.
        replace (length df =? range_len ro)%nat with true by (symmetry; apply Nat.eqb_eq; lia).
        cbn [negb bind]. rewrite E3. cbn [bind]. rewrite E4.
        change {| rs_offs := rs_offs (pushed S k df); rs_buf := rs_buf (pushed S k df) |} with (pushed S k df).
        apply (Hnext _ _ (rep_pushed _ _ _ _ HS Hnone)).
        intros k'. rewrite !aget_app, Hinv, Hdiff.
        destruct (aget k' (tgt chB done)); [reflexivity|]. cbn [aget].
        destruct (Z.eqb_spec k' k) as [->|Hne]; [|destruct (absent chB k'); [reflexivity|]; destruct (aget k' chA); reflexivity].
        unfold absent. rewrite HkB, Hk. reflexivity.
  Qed.
End UpdateGen.

(* RawSnap::read_with_delta for any delta that deletes exactly the keys A has and B lacks, whose updates are
   differences to items of B, and that leaves out only items B shares with A *)
Theorem apply_gen A B chA chB d :
  rep A chA -> rep B chB -> keys_i32 A -> keys_i32 B ->
  forallb is_i32 (rs_buf A) = true -> forallb is_i32 (rs_buf B) = true ->
  lim_ok chB -> same_len chA chB ->
  (forall k, smem k (d_del d) = true <-> (In k (map fst (rs_offs A)) /\ absent chB k = true)) ->
  length (d_del d) = length (filter (absent chB) (map fst (rs_offs A))) ->
  NoDup (map fst (d_upd d)) ->
  Forall (sliced chA chB (d_buf d)) (d_upd d) ->
  (forall k dB, aget k chB = Some dB -> ~ In k (map fst (d_upd d)) -> aget k chA = Some dB) ->
  exists B' ch', raw_read_with_delta A d = (Ok B', []) /\ rep B' ch' /\ (forall k, aget k ch' = aget k chB).
Proof.
  intros HA HB IA IB HbA HbB Hlim Hsl Hdel Hlen Hndu Hslc Hsame.
  assert (Hkept : forall k, aget k (kept d chA (rs_offs A)) = if absent chB k then None else aget k chA).
  { intros k. unfold kept. fold (view A chA).
    rewrite (aget_filter (fun k => negb (smem k (d_del d))) k (view A chA)), (aget_view A chA k HA).
    destruct (smem k (d_del d)) eqn:Hm; cbn [negb].
    - apply Hdel in Hm. destruct Hm as [_ ->]. reflexivity.
    - destruct (absent chB k) eqn:Ha; [|reflexivity].
      destruct (aget k chA) eqn:Hg; [|reflexivity]. exfalso.
      assert (smem k (d_del d) = true); [|congruence]. apply Hdel. split; [|exact Ha].
      apply (rep_in_keys _ _ _ HA). congruence. }
  assert (Hnd : NoDup (map fst (kept d chA (rs_offs A)))).
  { unfold kept. rewrite (filter_map_fst (fun k => negb (smem k (d_del d)))). apply NoDup_filter.
    rewrite map_map. cbn [fst]. apply rep_nodup_offs with chA, HA. }
  assert (HlimK : lim_ok ([] ++ kept d chA (rs_offs A))).
  { cbn [app]. destruct (weight_le (kept d chA (rs_offs A)) chB Hnd) as [W1 W2].
    - intros k dd Hin. apply (in_aget k dd _ Hnd) in Hin. rewrite Hkept in Hin.
      unfold absent in Hin. destruct (aget k chB) as [dB|] eqn:HkB; [|discriminate].
      exists dB. split; [reflexivity|]. apply (Hsl k dd dB Hin HkB).
    - destruct Hlim as [L1 L2]. unfold lim_ok, ser_size in *. split; lia. }
  destruct (rwd_copy_spec A chA d HA IA (rs_offs A) raw_empty [] 0%nat (incl_refl _) rep_empty) as (S1 & E1 & R1).
  { cbn [raw_empty rs_offs map app]. apply (rep_sorted _ _ HA). }
  { exact HlimK. }
  cbn [app] in R1.
  destruct (rwd_update_gen A B chA chB HA HB Hsl HbA HbB Hlim (d_buf d) (d_upd d) [] S1 (kept d chA (rs_offs A))) as (S' & ch' & done' & E2 & R2 & I2 & Hk' & Ha').
  { cbn [map app]. exact Hndu. }
  { constructor. }
  { exact Hslc. }
  { exact R1. }
  { intros k. cbn [tgt map aget]. apply Hkept. }
  cbn [map app] in Hk'.
  exists S', ch'. split; [|split; [exact R2|]].
  - unfold raw_read_with_delta. rewrite E1. cbn [wlift wbind Nat.add].
    replace (ndel d (rs_offs A) =? length (d_del d))%nat with true.
    + cbn [negb wret wbind app]. rewrite E2. reflexivity.
    + symmetry. apply Nat.eqb_eq. rewrite Hlen. unfold ndel.
      rewrite (filter_ext_in (fun kr : Z * range => smem (fst kr) (d_del d)) (fun kr => absent chB (fst kr))).
      * rewrite <- (map_length fst), (filter_map_fst (absent chB)). reflexivity.
      * intros [k r] Hin. cbn [fst]. destruct (absent chB k) eqn:Ha.
        -- apply Hdel. split; [apply (in_map fst) in Hin; exact Hin|exact Ha].
        -- destruct (smem k (d_del d)) eqn:Hm; [|reflexivity]. apply Hdel in Hm. destruct Hm as [_ Hm]. congruence.
  - intros k. rewrite I2. destruct (aget k (tgt chB done')) as [dd|] eqn:Ht.
    + symmetry. apply (tgt_done chA chB done' Ha' k dd Ht).
    + destruct (aget k chB) as [dB|] eqn:HkB; [|unfold absent; rewrite HkB; reflexivity].
      unfold absent. rewrite HkB. apply (Hsame k dB HkB). rewrite <- Hk', <- (tgt_keys chB). apply aget_none. exact Ht.
Qed.

(* ---------- permutations ---------- *)
Lemma filter_length_perm {T} (p : T -> bool) l l' : Permutation l l' -> length (filter p l) = length (filter p l').
Proof.
  induction 1 as [|x a b _ IH|x y a|a b c _ IH1 _ IH2]; [reflexivity| | |congruence].
  - cbn [filter]. destruct (p x); cbn [length]; congruence.
  - cbn [filter]. destruct (p x), (p y); reflexivity.
Qed.

Lemma buckets_fine_perm l l' : Permutation l l' -> buckets_fine l -> buckets_fine l'.
Proof.
  intros Hp H h. specialize (H h). unfold hcount, bucket_count in *.
  rewrite <- (filter_length_perm _ _ _ Hp). exact H.
Qed.

(* ================= both builders on the same two lists of items, any order ================= *)
Theorem c09_ref_delta_items sz ia ib A B :
  ritems_ok ia = true -> ritems_ok ib = true -> raw_build ia = Ok A -> raw_build ib = Ok B ->
  k09 A B = false -> ref_buckets_ok A = true -> ref_buckets_ok B = true ->
  ref_table_ok sz = true -> sizes_respected sz B = true -> ref_delta_fits A B = true ->
  exists fa fb ints,
    ref_builder_ints ia = Ok fa /\ ref_builder_ints ib = Ok fb /\ ref_delta sz fa fb = Ok ints
    /\ ((ints = [] /\ (forall E, @raw_items E A = @raw_items E B) /\ crc A = crc B)
        \/ (exists d B',
              delta_read_from_ints sz ints = (Ok d, [])
              /\ raw_read_with_delta A d = (Ok B', [])
              /\ (forall E, @raw_items E B' = @raw_items E B)
              /\ (forall E ty id, @raw_item E B' ty id = @raw_item E B ty id)
              /\ crc B' = crc B)).
Proof.
  intros Hoa Hob Hba Hbb Hk BA BB Hsz Hsr Hfit.
  destruct (raw_build_rep ia raw_empty [] A Hoa good_empty rep_empty Hba) as [GA HA].
  destruct (raw_build_rep ib raw_empty [] B Hob good_empty rep_empty Hbb) as [GB HB].
  cbn [app] in HA, HB. set (vuA := map kd_of ia) in *. set (vuB := map kd_of ib) in *.
  pose proof (good_lim A vuA GA HA) as LA. pose proof (good_lim B vuB GB HB) as LB.
  pose proof (g_keys _ GA) as IA. pose proof (g_keys _ GB) as IB.
  pose proof (g_buf _ GA) as HbA. pose proof (g_buf _ GB) as HbB.
  pose proof (k09_false _ _ _ _ HA HB Hk) as Hsl.
  pose proof (rep_nodup _ _ HA) as NA. pose proof (rep_nodup _ _ HB) as NB.
  exists (ref_layout vuA), (ref_layout vuB).
  set (del := ref_del vuA vuB). set (dl := rdiffs vuA vuB).
  exists (if (Z.of_nat (length del) =? 0) && (Z.of_nat (length dl) =? 0) then [] else wire_ints sz del dl).
  split; [apply ref_builder_layout; assumption|]. split; [apply ref_builder_layout; assumption|].
  destruct (rep_lengths _ _ HA) as [LA1 LA2]. destruct (rep_lengths _ _ HB) as [LB1 LB2].
  split.
  { unfold ref_delta. rewrite (table_sizes_ok sz Hsz).
    apply (ref_create_delta_spec sz Hsz vuA vuB); try assumption.
    - intros k Hin. apply (ritems_keys_pos ib Hob k Hin).
    - apply (buckets_fine_perm _ _ (rep_keys _ _ HA)), ref_buckets_fine, BA.
    - apply (buckets_fine_perm _ _ (rep_keys _ _ HB)), ref_buckets_fine, BB.
    - unfold ref_delta_fits, REF_BUF_INTS in Hfit. apply Z.leb_le in Hfit. unfold wsum. lia. }
  (* membership in A's key map *)
  assert (HkeysA : forall k, In k (map fst (rs_offs A)) <-> In k (map fst vuA)).
  { intros k. split; intros H; [apply (Permutation_in _ (rep_keys _ _ HA) H)|apply (Permutation_in _ (Permutation_sym (rep_keys _ _ HA)) H)]. }
  assert (Hsame : forall k dB, aget k vuB = Some dB -> ~ In k (map fst dl) -> aget k vuA = Some dB).
  { intros k dB HkB Hni.
    assert (HinB : In (k, dB) vuB) by (apply aget_in; exact HkB).
    assert (Hem : emitted vuA (k, diff_of vuA (k, dB)) = false).
    { destruct (emitted vuA (k, diff_of vuA (k, dB))) eqn:He; [|reflexivity]. exfalso. apply Hni.
      change k with (fst (k, diff_of vuA (k, dB))). apply in_map. unfold dl, rdiffs. apply filter_In.
      split; [|exact He]. unfold diffs. apply in_map_iff. exists (k, dB). split; [reflexivity|exact HinB]. }
    unfold emitted in Hem. cbn [fst snd] in Hem. apply orb_false_iff in Hem. destruct Hem as [Hab Hne].
    unfold absent in Hab. destruct (aget k vuA) as [f|] eqn:Hf; [|discriminate].
    f_equal. unfold diff_of in Hne. cbn [fst snd] in Hne. rewrite Hf in Hne. symmetry.
    apply zip_wsub_zero; [apply (Hsl k f dB Hf HkB)| | |exact Hne].
    - rewrite (rep_buf _ _ HA) in HbA. apply (flat_i32 vuA k f HbA Hf).
    - rewrite (rep_buf _ _ HB) in HbB. apply (flat_i32 vuB k dB HbB HkB). }
  destruct ((Z.of_nat (length del) =? 0) && (Z.of_nat (length dl) =? 0)) eqn:Hempty.
  - left. split; [reflexivity|]. apply andb_true_iff in Hempty. destruct Hempty as [E1 E2].
    apply Z.eqb_eq in E1, E2. assert (Hd0 : del = []) by (destruct del; [reflexivity|cbn [length] in E1; lia]).
    assert (Hl0 : dl = []) by (destruct dl; [reflexivity|cbn [length] in E2; lia]).
    assert (Hlook : forall k, aget k vuA = aget k vuB).
    { intros k. destruct (aget k vuB) as [dB|] eqn:HkB.
      - apply (Hsame k dB HkB). rewrite Hl0. intros [].
      - destruct (aget k vuA) as [f|] eqn:Hf; [|reflexivity]. exfalso.
        assert (Hin : In k del).
        { unfold del, ref_del. apply filter_In. split; [apply aget_some_in; eauto|unfold absent; rewrite HkB; reflexivity]. }
        rewrite Hd0 in Hin. destruct Hin. }
    destruct (same_lookups A vuA B vuB HA HB Hlook) as (Hv & Hc & _).
    split; [intros E; rewrite (raw_items_rep A vuA HA), (raw_items_rep B vuB HB), Hv; reflexivity|exact Hc].
  - right.
    assert (Hdlin : forall k df, In (k, df) dl -> exists dB, aget k vuB = Some dB /\ df = diff_of vuA (k, dB)).
    { intros k df Hin. destruct (rdiffs_in _ _ _ _ Hin) as (dB & HinB & Hdf & _). exists dB. split; [apply in_aget; assumption|exact Hdf]. }
    assert (Hkeysdl : forall k, In k (map fst dl) -> In k (map fst vuB)).
    { intros k Hin. apply in_map_iff in Hin. destruct Hin as ([k0 df] & <- & Hin). destruct (Hdlin _ _ Hin) as (dB & HkB & _).
      cbn [fst]. apply aget_some_in. eauto. }
    assert (Hi32B : forall k, In k (map fst vuB) -> is_i32 k = true).
    { intros k Hin. apply is_i32_iff. pose proof (ritems_keys_pos ib Hob k Hin). unfold i32_max in *. lia. }
    assert (Hnddl : NoDup (map fst dl)) by (unfold dl, rdiffs; apply filter_keys_nodup; rewrite diffs_keys; exact NB).
    assert (W : wire_pre_u sz del dl).
    { split.
      - unfold del, ref_del. apply NoDup_filter, NA.
      - exact Hnddl.
      - apply forallb_forall. intros k Hin. apply Hi32B, Hkeysdl, Hin.
      - apply Forall_forall. intros [k df] Hin. destruct (Hdlin _ _ Hin) as (dB & HkB & Hdf).
        unfold size_ok. cbn [fst snd].
        assert (Hdfl : length df = length dB) by (rewrite Hdf; apply diff_len; intros f Hf; apply (Hsl k f dB Hf HkB)).
        rewrite Hdfl. destruct (rep_get_some _ _ _ _ HB HkB) as (r & Hr & Hrl & _).
        unfold sizes_respected in Hsr. rewrite forallb_forall in Hsr. specialize (Hsr (k, r) (aget_in _ _ _ Hr)).
        cbn [fst snd] in Hsr. destruct (sz (key_to_raw_type_id k)).
        + apply Z.eqb_eq in Hsr. rewrite Hsr, Hrl. reflexivity.
        + assert (length dB <= length (flat vuB))%nat.
          { apply aget_in in HkB. apply in_split in HkB. destruct HkB as (l1 & l2 & E). rewrite E.
            rewrite flat_app. cbn [flat flat_map snd]. rewrite !app_length. lia. }
          destruct LB as [_ LB2']. unfold MAX_SNAPSHOT_SIZE, ser_size, i32_max in *. lia.
      - intros k Hin Hd. unfold del, ref_del in Hd. apply filter_In in Hd. destruct Hd as [_ Hd].
        apply Hkeysdl, aget_some_in in Hin. destruct Hin as [v Hv]. unfold absent in Hd. rewrite Hv in Hd. discriminate.
      - unfold del, ref_del. pose proof (filter_length_le' (absent vuB) (map fst vuA)) as Hle. rewrite map_length in Hle.
        destruct LA as [LA1' _]. unfold MAX_SNAPSHOT_ITEMS, i32_max in *. lia.
      - unfold dl, rdiffs. pose proof (filter_length_le' (emitted vuA) (diffs vuA vuB)) as Hle. unfold diffs in Hle at 2.
        rewrite map_length in Hle. destruct LB as [LB1' _]. unfold MAX_SNAPSHOT_ITEMS, i32_max in *. lia.
      - unfold dl, rdiffs. pose proof (flat_filter_length (emitted vuA) (diffs vuA vuB)) as Hle.
        rewrite (diffs_flat_length vuA vuB) in Hle.
        2:{ intros k d Hin. apply diff_len. intros f Hf. apply (Hsl k f d Hf). apply in_aget; assumption. }
        destruct LB as [_ LB2']. unfold MAX_SNAPSHOT_SIZE, ser_size, i32_max in *. lia. }
    destruct (apply_gen A B vuA vuB (delta_of_u del dl) HA HB IA IB HbA HbB LB Hsl) as (B' & ch' & Eap & R' & Hlook).
    + intros k. unfold delta_of_u. cbn [d_del]. rewrite smem_in, sins_all_in. unfold del, ref_del. rewrite filter_In, HkeysA.
      cbn [In]. tauto.
    + unfold delta_of_u. cbn [d_del]. rewrite (sins_all_length del []); [|unfold del, ref_del; apply NoDup_filter, NA|intros x _ []].
      cbn [length]. rewrite Nat.add_0_r. unfold del, ref_del. apply filter_length_perm, Permutation_sym, (rep_keys _ _ HA).
    + unfold delta_of_u. cbn [d_upd]. apply sortedb_nodup, ins_all_sorted. reflexivity.
    + unfold delta_of_u. cbn [d_upd d_buf]. apply Forall_forall. intros [k r] Hin.
      apply ins_all_in in Hin. destruct Hin as [Hin|[]].
      destruct (in_ranges_split _ _ _ _ Hin) as (pre & df & post & Edl & Er).
      exists df. cbn [fst snd]. split.
      * intros E. rewrite Edl, flat_app, Er. cbn [flat flat_map snd Nat.add]. apply slice_mid.
      * assert (Hindl : In (k, df) dl) by (rewrite Edl; apply in_or_app; right; left; reflexivity).
        destruct (Hdlin _ _ Hindl) as (dB & HkB & Hdf). exists dB. cbn [fst snd]. split; [exact HkB|]. split; [exact Hdf|].
        apply Hi32B, aget_some_in. eauto.
    + intros k dB HkB Hni. apply (Hsame k dB HkB). intros Hin. apply Hni. unfold delta_of_u. cbn [d_upd].
      apply ins_all_keys_in. rewrite ranges_of_keys. exact Hin.
    + exists (delta_of_u del dl), B'. split; [apply read_wire_u, W|]. split; [exact Eap|].
      destruct (same_lookups _ _ _ _ R' HB Hlook) as (Hv & Hc & _).
      split; [intros E; rewrite (raw_items_rep B' ch' R'), (raw_items_rep B vuB HB), Hv; reflexivity|].
      split; [intros E ty id; rewrite (raw_item_rep B' ch' ty id R'), (raw_item_rep B vuB ty id HB), Hlook; reflexivity|exact Hc].
Qed.

(* C04 at the byte level (0.6): a datagram the connection layer emits (dgram_ok), written by
   the library's own Packet::write, is at most 1400 bytes and is read back by Packet::read as
   the same value without a single warning, and its chunks iterate back bit-identical. Bridges
   Proofs/Conn6Inv.v (what is emitted) with Props/C05 (packet codec round trip). *)
From LibTw2 Require Import Base.Res Model.PacketTypes Model.PacketBase Model.Packet6 Model.PacketInst
  Model.ConnCore Proofs.ConnCoreInv
  Proofs.PktBits6 Proofs.Packet6Write Proofs.Packet6Read Proofs.Packet6Chunks Proofs.PacketInstProofs.
From LibTw2 Require Gen.Consts6 Gen.Bits6.
From Coq Require Import ZArith Lia Bool List.
Open Scope Z_scope.

Definition ctl6_of (c : control) : option control6 :=
  match c with
  | KeepAlive => Some C6KeepAlive
  | Connect _ => Some C6Connect
  | ConnectAccept => Some C6ConnectAccept
  | Accept => Some C6Accept
  | Close r => Some (C6Close r)
  | TokenMsg _ => None
  end.

(* the packet value handed to Packet::write for an abstract datagram *)
Definition encode6 (d : dgram) : option packet6 :=
  match d with
  | DConnless _ _ p => Some (P6Connless p)
  | DControl tok ack c => match ctl6_of c with Some c6 => Some (P6Connected ack tok (P6Control c6)) | None => None end
  | DChunks tok ack rr n cs => Some (P6Connected ack tok (P6Chunks rr n (flat_map chunk_enc6 cs)))
  end.

(* payloads and tokens are byte strings (the model keeps bytes as Z) *)
Definition dgram_bytes_ok (d : dgram) : bool :=
  match d with
  | DConnless _ _ p => bytes_ok p
  | DControl tok _ c => match tok with Some t => bytes_ok t | None => true end
                        && match c with Close r => bytes_ok r | _ => true end
  | DChunks tok _ _ _ cs => match tok with Some t => bytes_ok t | None => true end
                            && forallb (fun c => bytes_ok (ch_data c)) cs
  end.

Lemma chunk_enc6_length c : Z.of_nat (length (chunk_enc6 c)) <= chunk_size c.
Proof.
  unfold chunk_enc6, chunk_hdr6, chunk_size, chunk_hdr, is_vital. rewrite app_length.
  destruct (ch_vital c) as [[s r]|].
  - destruct (Bits6.ChunkHeaderVital6_pack _) as [p| | |];
      unfold Bits6.ChunkHeaderVitalPacked6_as_bytes; cbn [app length]; lia.
  - destruct (Bits6.ChunkHeader6_pack _) as [p| | |];
      unfold Bits6.ChunkHeaderPacked6_as_bytes; cbn [app length]; lia.
Qed.

Lemma chunks_enc6_length cs : Z.of_nat (length (flat_map chunk_enc6 cs)) <= chunks_size cs.
Proof.
  induction cs as [|c cs IH]; cbn [flat_map chunks_size]; [cbn; lia|].
  rewrite app_length. pose proof (chunk_enc6_length c). lia.
Qed.

Lemma chunk_ok_wf6 c : chunk_ok params6 c -> chunk_wf6 c = true.
Proof.
  intros [[_ H2] Hv]. unfold chunk_wf6, vital_wf. unfold params6 in H2. cbn [p_size_bits] in H2.
  change (2 ^ 10) with 1024 in H2. destruct (ch_vital c) as [[s r]|]; unfold SEQ_MOD in Hv; lia.
Qed.

Theorem emitted_expressible6 d p :
  dgram_ok params6 d -> encode6 d = Some p ->
  expressible6 p = true /\ K05_6 p = false /\ K06_6 p = false.
Proof.
  intros Hok He. destruct d as [t r pl|tok ack c|tok ack rr n cs]; cbn [encode6] in He.
  - injection He as <-. cbn in Hok. unfold MAX_PAYLOAD in Hok. cbn. split; [|split; [reflexivity|]];
      unfold Consts6.MAX_PACKETSIZE, Consts6.HEADER_SIZE, Consts6.PADDING_SIZE_CONNLESS, Consts6.MAX_PAYLOAD; lia.
  - destruct (ctl6_of c) as [c6|] eqn:Ec; [|discriminate]. injection He as <-.
    destruct Hok as [Htok [Hack [Hsz Hcl]]]. unfold SEQ_MOD in Hack. cbn [expressible6 K05_6 K06_6].
    split; [|split; reflexivity].
    apply andb_true_iff. split; [apply andb_true_iff; split; [lia|]|].
    + destruct tok as [t|]; [|reflexivity]. unfold token_ok. cbn in Htok. apply Nat.eqb_eq. exact Htok.
    + destruct c; cbn in Ec; try discriminate; injection Ec as <-; try reflexivity.
      destruct Hcl as [Hnul Hlen]. apply andb_true_iff. split.
      * unfold has_nul. clear -Hnul. induction reason as [|b r IH]; [reflexivity|].
        cbn [forallb existsb] in *. apply andb_true_iff in Hnul as [Hb Hr]. specialize (IH Hr).
        destruct (b =? 0); [discriminate Hb|]. cbn [orb]. exact IH.
      * unfold Consts6.CTRLMSG_CLOSE_REASON_LENGTH. lia.
  - injection He as <-. destruct Hok as [Htok [Hack [Hn [Hn255 [Hcs [Hsz Hne]]]]]]. unfold SEQ_MOD in Hack.
    cbn [expressible6 K05_6 K06_6]. split; [|split; [|reflexivity]].
    + apply andb_true_iff. split; [apply andb_true_iff; split; [lia|]|].
      * destruct tok as [t|]; [|reflexivity]. unfold token_ok. cbn in Htok. apply Nat.eqb_eq. exact Htok.
      * apply andb_true_iff. split; [lia|].
        pose proof (chunks_enc6_length cs). unfold chunks_dgram_size, params6, MAX_PACKETSIZE, tok_size6 in Hsz.
        cbn [p_v7 p_header] in Hsz.
        unfold Consts6.TOKEN_SIZE, Consts6.MAX_PACKETSIZE, Consts6.HEADER_SIZE. destruct tok; lia.
    + destruct rr; [reflexivity|]. destruct Hne as [Hne|Hne]; [discriminate|]. destruct (n =? 0) eqn:E; [lia|reflexivity].
Qed.

Lemma bytes_ok_app' a b : bytes_ok a = true -> bytes_ok b = true -> bytes_ok (a ++ b) = true.
Proof. unfold bytes_ok. intros Ha Hb. rewrite forallb_app, Ha, Hb. reflexivity. Qed.

Lemma chunk_hdr6_bytes_ok c : chunk_wf6 c = true -> bytes_ok (chunk_hdr6 c) = true.
Proof.
  destruct c as [d v]. unfold chunk_wf6, chunk_hdr6. cbn [ch_data ch_vital].
  intros Hwf. apply andb_true_iff in Hwf as [Hd Hv]. apply Z.ltb_lt in Hd.
  destruct (chunk_flags_facts6 v) as (Hf & _ & _).
  set (h := {| Bits6.ch6_flags := chunk_flags v; Bits6.ch6_size := Z.of_nat (length d) |}).
  assert (Hh : PktBits6.ch6_in_range h = true)
    by (unfold PktBits6.ch6_in_range, h; cbn [Bits6.ch6_flags Bits6.ch6_size]; lia).
  destruct v as [[s r]|].
  - cbn [vital_wf] in Hv.
    assert (Hhv : PktBits6.chv6_in_range {| Bits6.chv6_h := h; Bits6.chv6_sequence := s |} = true).
    { unfold PktBits6.chv6_in_range. cbn [Bits6.chv6_h Bits6.chv6_sequence]. rewrite Hh. lia. }
    destruct (PktBits6.chv6_pack_unpack _ Hhv) as (p & Ep & _ & Hb & _). rewrite Ep.
    destruct p as [a b c3]. unfold PktBits6.chvp6_bytes_ok in Hb. cbn in Hb.
    unfold Bits6.ChunkHeaderVitalPacked6_as_bytes. cbn [app Bits6.chvp6_flags_size Bits6.chvp6_sequence_size Bits6.chvp6_sequence].
    unfold bytes_ok. cbn [forallb]. unfold byte_ok. unfold PktBits6.byteb in Hb. lia.
  - destruct (PktBits6.ch6_pack_unpack _ Hh) as (p & Ep & _ & Hb & _). rewrite Ep.
    destruct p as [a b]. unfold PktBits6.chp6_bytes_ok in Hb. cbn in Hb.
    unfold Bits6.ChunkHeaderPacked6_as_bytes. cbn [app Bits6.chp6_flags_size Bits6.chp6_padding_size].
    unfold bytes_ok. cbn [forallb]. unfold byte_ok. unfold PktBits6.byteb in Hb. lia.
Qed.

Lemma chunks_enc6_bytes_ok cs : Forall (fun c => chunk_wf6 c = true) cs ->
  forallb (fun c => bytes_ok (ch_data c)) cs = true -> bytes_ok (flat_map chunk_enc6 cs) = true.
Proof.
  induction 1 as [|c cs Hc Hcs IH]; intros Hb; [reflexivity|].
  cbn [forallb] in Hb. apply andb_true_iff in Hb as [Hb1 Hb2]. cbn [flat_map]. unfold chunk_enc6.
  apply bytes_ok_app'; [apply bytes_ok_app'; [apply chunk_hdr6_bytes_ok, Hc|exact Hb1]|apply IH, Hb2].
Qed.

(* the theorem: emitted datagram -> bytes -> the library's own reader *)
Theorem emitted_reads_back6 d p :
  dgram_ok params6 d -> dgram_bytes_ok d = true -> encode6 d = Some p ->
  exists out,
    write6_tw p 1400 = Ok out /\ (length out <= 1400)%nat
    /\ (exists views, read6_tw out (true_hint6 p) 1400 = ([], Ok (p, views)))
    /\ match d with
       | DChunks _ _ _ n cs =>
         exists cvs it', chunks_iter_all6 (flat_map chunk_enc6 cs) n = Ok (cvs, [], it') /\ map fst cvs = cs
       | _ => True
       end.
Proof.
  intros Hok Hb He.
  destruct (emitted_expressible6 d p Hok He) as [Hx [Hk5 Hk6]].
  destruct (Packet6Write.write6_ok tw_comp p 1400 Hx Hk6 (le_n _)) as [Hw Hlen].
  exists (Packet6Write.encoding6 tw_comp p). split; [exact Hw|]. split; [exact Hlen|].
  assert (Hpb : packet_bytes_ok6 p = true).
  { destruct d as [t r pl|tok ack c|tok ack rr n cs]; cbn [encode6] in He.
    - injection He as <-. exact Hb.
    - destruct (ctl6_of c) as [c6|] eqn:Ec; [|discriminate]. injection He as <-.
      cbn [dgram_bytes_ok] in Hb. cbn [packet_bytes_ok6].
      destruct c; cbn in Ec; try discriminate; injection Ec as <-; try (rewrite andb_true_r in Hb; rewrite Hb; reflexivity).
      exact Hb.
    - injection He as <-. cbn [dgram_bytes_ok] in Hb. apply andb_true_iff in Hb as [Hb1 Hb2].
      cbn [packet_bytes_ok6]. rewrite Hb1. cbn [andb].
      destruct Hok as [_ [_ [_ [_ [Hcs _]]]]]. apply chunks_enc6_bytes_ok; [|exact Hb2].
      eapply Forall_impl; [|exact Hcs]. intros c Hc. apply chunk_ok_wf6, Hc. }
  split.
  - eexists. unfold read6_tw.
    rewrite (Packet6Read.read_encoding6 tw_comp tw_decomp PacketInstProofs.tw_rt p 1400 Hx Hpb (le_n _)).
    unfold Packet6Read.k05_warnings6. rewrite Hk5. reflexivity.
  - destruct d as [t r pl|tok ack c|tok ack rr n cs]; try exact I.
    destruct Hok as [_ [_ [Hn [_ [Hcs _]]]]].
    destruct (chunks_roundtrip6 cs) as [_ [cvs [it' [H1 H2]]]].
    { apply forallb_forall. intros c Hin. rewrite Forall_forall in Hcs. apply chunk_ok_wf6, Hcs, Hin. }
    exists cvs, it'. rewrite Hn. split; assumption.
Qed.

(* Basic facts for the snapshot model: wrapping i32 arithmetic, item keys,
   sorted association lists (the BTreeMap / BTreeSet stand-ins). *)
From LibTw2 Require Import Base.Res Base.Bits Model.Varint Model.Snap.
From Coq Require Import ZArith List Lia Bool Permutation.
Import ListNotations.
Open Scope Z_scope.

(* ---------- i32 wrap-around ---------- *)
Definition wrap (x : Z) : Z := i32_of (u32_of x).

Lemma is_i32_iff v : is_i32 v = true <-> -2147483648 <= v <= 2147483647.
Proof. unfold is_i32, i32_min, i32_max. rewrite andb_true_iff, !Z.leb_le. tauto. Qed.

Lemma wrap_range x : is_i32 (wrap x) = true.
Proof.
  apply is_i32_iff. unfold wrap, i32_of, u32_of, two31, two32.
  destruct (Z.ltb_spec (x mod 4294967296) 2147483648); Z.div_mod_to_equations; lia.
Qed.

Lemma wrap_i32 x : is_i32 x = true -> wrap x = x.
Proof.
  intros H. apply is_i32_iff in H. unfold wrap, i32_of, u32_of, two31, two32.
  destruct (Z.ltb_spec (x mod 4294967296) 2147483648); Z.div_mod_to_equations; lia.
Qed.

Lemma wadd_wsub a b : is_i32 a = true -> is_i32 b = true -> wadd a (wsub b a) = b.
Proof.
  intros Ha Hb. apply is_i32_iff in Ha. apply is_i32_iff in Hb.
  unfold wadd, wsub, i32_of, u32_of, two31, two32.
  destruct (Z.ltb_spec ((b - a) mod 4294967296) 2147483648);
  match goal with |- context [(?e mod 4294967296 <? 2147483648)] =>
    destruct (Z.ltb_spec (e mod 4294967296) 2147483648) end;
  Z.div_mod_to_equations; lia.
Qed.

Lemma wadd_i32 a b : is_i32 (wadd a b) = true.
Proof. apply wrap_range. Qed.
Lemma wsub_i32 a b : is_i32 (wsub a b) = true.
Proof. apply (wrap_range (a - b)). Qed.

(* the sum of a buffer, wrapped once: what the fold of wrapping_add computes *)
Definition zsum (l : list Z) : Z := fold_right Z.add 0 l.

Lemma wrap_add_l a b : wrap (wrap a + b) = wrap (a + b).
Proof.
  unfold wrap, i32_of, u32_of, two31, two32.
  assert (E: ((if a mod 4294967296 <? 2147483648 then a mod 4294967296 else a mod 4294967296 - 4294967296) + b)
             mod 4294967296 = (a + b) mod 4294967296).
  { destruct (Z.ltb_spec (a mod 4294967296) 2147483648).
    - rewrite Zplus_mod_idemp_l. reflexivity.
    - replace (a mod 4294967296 - 4294967296 + b) with (a mod 4294967296 + b + (-1) * 4294967296) by lia.
      rewrite Z_mod_plus_full. rewrite Zplus_mod_idemp_l. reflexivity. }
  rewrite E. reflexivity.
Qed.

Lemma fold_wadd l : forall a, fold_left wadd l (wrap a) = wrap (a + zsum l).
Proof.
  induction l as [|x l IH]; intros a; cbn [fold_left zsum fold_right].
  - f_equal. lia.
  - change (wadd (wrap a) x) with (wrap (wrap a + x)). rewrite wrap_add_l, IH.
    f_equal. unfold zsum. lia.
Qed.

Lemma crc_zsum S : crc S = wrap (zsum (rs_buf S)).
Proof. unfold crc. change 0 with (wrap 0) at 1. rewrite fold_wadd. reflexivity. Qed.

Lemma zsum_app a b : zsum (a ++ b) = zsum a + zsum b.
Proof. unfold zsum. induction a as [|x a IH]; cbn [app fold_right]; lia. Qed.

(* ---------- keys ---------- *)
Lemma is_u16_iff v : is_u16 v = true <-> 0 <= v <= 65535.
Proof. unfold is_u16. rewrite andb_true_iff, !Z.leb_le. tauto. Qed.

Lemma key_to_id_arith k : key_to_id k = (u32_of k) mod 65536.
Proof. unfold key_to_id. apply (land_pow2_mask (u32_of k) 16). lia. Qed.

Lemma key_to_ty_arith k : key_to_raw_type_id k = (u32_of k) / 65536.
Proof.
  unfold key_to_raw_type_id. rewrite (land_pow2_mask _ 16) by lia.
  rewrite shiftr_div by lia. change (2 ^ 16) with 65536.
  unfold u32_of, two32. Z.div_mod_to_equations; lia.
Qed.

Lemma key_arith ty id : 0 <= ty <= 65535 -> 0 <= id <= 65535 -> key ty id = i32_of (ty * 65536 + id).
Proof.
  intros Ht Hi. unfold key. f_equal. rewrite shiftl_mul by lia. change (2 ^ 16) with 65536.
  unfold u32_of, two32. rewrite Z.mod_small by lia.
  rewrite Z.lor_comm, Z.add_comm. change 65536 with (2 ^ 16).
  apply (lor_low_high id ty 16); [lia|]. change (2 ^ 16) with 65536. lia.
Qed.

Lemma key_to_id_range k : 0 <= key_to_id k <= 65535.
Proof. rewrite key_to_id_arith. Z.div_mod_to_equations; lia. Qed.
Lemma key_to_ty_range k : 0 <= key_to_raw_type_id k <= 65535.
Proof. rewrite key_to_ty_arith. unfold u32_of, two32. Z.div_mod_to_equations; lia. Qed.

Lemma key_i32 ty id : 0 <= ty <= 65535 -> 0 <= id <= 65535 -> is_i32 (key ty id) = true.
Proof.
  intros Ht Hi. rewrite key_arith by assumption. apply is_i32_iff.
  unfold i32_of, two31, two32. destruct (Z.ltb_spec (ty * 65536 + id) 2147483648); lia.
Qed.

Lemma key_split k : is_i32 k = true -> key (key_to_raw_type_id k) (key_to_id k) = k.
Proof.
  intros H. apply is_i32_iff in H.
  rewrite key_arith by (apply key_to_ty_range || apply key_to_id_range).
  rewrite key_to_ty_arith, key_to_id_arith.
  replace (u32_of k / 65536 * 65536 + u32_of k mod 65536) with (u32_of k)
    by (Z.div_mod_to_equations; lia).
  apply (wrap_i32 k). apply is_i32_iff. exact H.
Qed.

Lemma key_to_ty_key ty id : 0 <= ty <= 65535 -> 0 <= id <= 65535 -> key_to_raw_type_id (key ty id) = ty.
Proof.
  intros Ht Hi. rewrite key_to_ty_arith, key_arith by assumption.
  unfold u32_of, i32_of, two31, two32.
  destruct (Z.ltb_spec (ty * 65536 + id) 2147483648); Z.div_mod_to_equations; lia.
Qed.

Lemma key_to_id_key ty id : 0 <= ty <= 65535 -> 0 <= id <= 65535 -> key_to_id (key ty id) = id.
Proof.
  intros Ht Hi. rewrite key_to_id_arith, key_arith by assumption.
  unfold u32_of, i32_of, two31, two32.
  destruct (Z.ltb_spec (ty * 65536 + id) 2147483648); Z.div_mod_to_equations; lia.
Qed.

Lemma key_inj t1 i1 t2 i2 :
  0 <= t1 <= 65535 -> 0 <= i1 <= 65535 -> 0 <= t2 <= 65535 -> 0 <= i2 <= 65535 ->
  key t1 i1 = key t2 i2 -> t1 = t2 /\ i1 = i2.
Proof.
  intros A B C D E. split.
  - rewrite <- (key_to_ty_key t1 i1), <- (key_to_ty_key t2 i2) by assumption. now rewrite E.
  - rewrite <- (key_to_id_key t1 i1), <- (key_to_id_key t2 i2) by assumption. now rewrite E.
Qed.

(* type 0 keys are exactly 0 .. 65535 *)
Lemma key_type0 id : 0 <= id <= 65535 -> key 0 id = id.
Proof.
  intros H. rewrite key_arith by lia. unfold i32_of, two31. destruct (Z.ltb_spec (0 * 65536 + id) 2147483648); lia.
Qed.

(* ---------- sorted lists ---------- *)
Lemma sortedb_cons a l : sortedb (a :: l) = true <-> (forall x, In x l -> a < x) /\ sortedb l = true.
Proof.
  revert a. induction l as [|b l IH]; intros a.
  - cbn. split; [intros _; split; [intros x []|reflexivity]|reflexivity].
  - change (sortedb (a :: b :: l)) with ((a <? b) && sortedb (b :: l)).
    rewrite andb_true_iff, Z.ltb_lt. split.
    + intros [Hab Hs]. split; [|exact Hs]. intros x [<-|Hx]; [exact Hab|].
      apply IH in Hs. destruct Hs as [Hb _]. specialize (Hb x Hx). lia.
    + intros [Hall Hs]. split; [apply Hall; left; reflexivity|exact Hs].
Qed.

Lemma sortedb_tail a l : sortedb (a :: l) = true -> sortedb l = true.
Proof. intros H. apply sortedb_cons in H. tauto. Qed.

Lemma sortedb_nodup l : sortedb l = true -> NoDup l.
Proof.
  induction l as [|a l IH]; intros H; [constructor|].
  apply sortedb_cons in H. destruct H as [Hall Hs]. constructor; [|apply IH, Hs].
  intros Hin. specialize (Hall a Hin). lia.
Qed.

Lemma sortedb_app_one l k : sortedb l = true -> (forall x, In x l -> x < k) -> sortedb (l ++ [k]) = true.
Proof.
  induction l as [|a l IH]; intros Hs Hall; [reflexivity|].
  cbn [app]. apply sortedb_cons. apply sortedb_cons in Hs. destruct Hs as [Ha Hs]. split.
  - intros x Hx. apply in_app_or in Hx. destruct Hx as [Hx|[<-|[]]]; [apply Ha, Hx|apply Hall; left; reflexivity].
  - apply IH; [exact Hs|]. intros x Hx. apply Hall. right. exact Hx.
Qed.

(* two strictly sorted lists with the same elements are equal *)
Lemma sortedb_ext l1 : forall l2, sortedb l1 = true -> sortedb l2 = true ->
  (forall x, In x l1 <-> In x l2) -> l1 = l2.
Proof.
  induction l1 as [|a l1 IH]; intros l2 H1 H2 Hio.
  - destruct l2 as [|b l2]; [reflexivity|]. exfalso. apply (Hio b). left. reflexivity.
  - destruct l2 as [|b l2]; [exfalso; apply (Hio a); left; reflexivity|].
    apply sortedb_cons in H1. apply sortedb_cons in H2. destruct H1 as [Ha H1]. destruct H2 as [Hb H2].
    assert (a = b).
    { destruct (proj1 (Hio a) (or_introl eq_refl)) as [->|Hin]; [reflexivity|].
      destruct (proj2 (Hio b) (or_introl eq_refl)) as [->|Hin']; [reflexivity|].
      specialize (Ha _ Hin'). specialize (Hb _ Hin). lia. }
    subst b. f_equal. apply IH; [exact H1|exact H2|].
    intros x. split; intros Hx.
    + destruct (proj1 (Hio x) (or_intror Hx)) as [<-|Hin]; [|exact Hin]. specialize (Ha _ Hx). lia.
    + destruct (proj2 (Hio x) (or_intror Hx)) as [<-|Hin]; [|exact Hin]. specialize (Hb _ Hx). lia.
Qed.

(* ---------- BTreeSet ---------- *)
Lemma smem_in k l : smem k l = true <-> In k l.
Proof.
  induction l as [|a l IH]; cbn [smem In]; [split; [discriminate|intros []]|].
  rewrite orb_true_iff, Z.eqb_eq, IH. split; intros [H|H]; auto.
Qed.

Lemma sins_in k x l : In x (sins k l) <-> x = k \/ In x l.
Proof.
  induction l as [|a l IH]; cbn [sins]; [cbn; intuition|].
  destruct (Z.ltb_spec k a); [cbn; intuition|].
  destruct (Z.eqb_spec k a); [subst; cbn; intuition|].
  cbn [In]. rewrite IH. intuition.
Qed.

Lemma sins_sorted k l : sortedb l = true -> sortedb (sins k l) = true.
Proof.
  induction l as [|a l IH]; intros Hs; [reflexivity|].
  cbn [sins]. destruct (Z.ltb_spec k a).
  - apply sortedb_cons. split; [|exact Hs]. intros x [<-|Hx]; [exact H|].
    apply sortedb_cons in Hs. destruct Hs as [Ha _]. specialize (Ha x Hx). lia.
  - destruct (Z.eqb_spec k a); [exact Hs|].
    apply sortedb_cons in Hs. destruct Hs as [Ha Hs]. apply sortedb_cons. split; [|apply IH, Hs].
    intros x Hx. apply sins_in in Hx. destruct Hx as [->|Hx]; [lia|apply Ha, Hx].
Qed.

(* appending in ascending order *)
Lemma sins_last k l : (forall x, In x l -> x < k) -> sins k l = l ++ [k].
Proof.
  induction l as [|a l IH]; intros Hall; [reflexivity|].
  cbn [sins app]. assert (a < k) by (apply Hall; left; reflexivity).
  destruct (Z.ltb_spec k a); [lia|]. destruct (Z.eqb_spec k a); [lia|].
  f_equal. apply IH. intros x Hx. apply Hall. right. exact Hx.
Qed.

(* ---------- BTreeMap ---------- *)
Section Amap.
  Context {V : Type}.
  Implicit Types l : list (Z * V).

  Lemma aget_in k v l : aget k l = Some v -> In (k, v) l.
  Proof.
    induction l as [|[k' v'] l IH]; cbn [aget]; [discriminate|].
    destruct (Z.eqb_spec k k'); [intros [= ->]; subst; left; reflexivity|intros H; right; auto].
  Qed.

  Lemma aget_none k l : aget k l = None <-> ~ In k (map fst l).
  Proof.
    induction l as [|[k' v'] l IH]; cbn [aget map In fst]; [tauto|].
    destruct (Z.eqb_spec k k'); [subst; split; [discriminate|intros H; exfalso; apply H; left; reflexivity]|].
    rewrite IH. split; [intros H [E|I]; [congruence|auto]|intros H I; apply H; right; exact I].
  Qed.

  Lemma aget_some_in k l : (exists v, aget k l = Some v) <-> In k (map fst l).
  Proof.
    destruct (aget k l) eqn:E.
    - split; [intros _|intros _; eauto]. apply aget_in in E. apply (in_map fst) in E. exact E.
    - split; [intros [v Hv]; discriminate|]. intros H. apply aget_none in E. contradiction.
  Qed.

  Lemma in_aget k v l : NoDup (map fst l) -> In (k, v) l -> aget k l = Some v.
  Proof.
    induction l as [|[k' v'] l IH]; cbn [aget map fst]; intros Hnd Hin; [destruct Hin|].
    inversion Hnd as [|? ? Hni Hnd']; subst. destruct Hin as [E|Hin].
    - injection E as -> ->. rewrite Z.eqb_refl. reflexivity.
    - destruct (Z.eqb_spec k k'); [subst; exfalso; apply Hni; apply (in_map fst) in Hin; exact Hin|auto].
  Qed.

  Lemma aget_ains_same k v l : aget k (ains k v l) = Some v.
  Proof.
    induction l as [|[k' v'] l IH]; cbn [ains aget]; [rewrite Z.eqb_refl; reflexivity|].
    destruct (Z.ltb_spec k k'); [cbn [aget]; rewrite Z.eqb_refl; reflexivity|].
    destruct (Z.eqb_spec k k'); cbn [aget]; [rewrite Z.eqb_refl; reflexivity|].
    destruct (Z.eqb_spec k k'); [contradiction|exact IH].
  Qed.

  Lemma aget_ains_other k k0 v l : k <> k0 -> aget k (ains k0 v l) = aget k l.
  Proof.
    intros Hne. induction l as [|[k' v'] l IH]; cbn [ains aget].
    - destruct (Z.eqb_spec k k0); [contradiction|reflexivity].
    - destruct (Z.ltb_spec k0 k').
      + cbn [aget]. destruct (Z.eqb_spec k k0); [contradiction|reflexivity].
      + destruct (Z.eqb_spec k0 k').
        * subst k'. cbn [aget]. destruct (Z.eqb_spec k k0); [contradiction|reflexivity].
        * cbn [aget]. destruct (Z.eqb_spec k k'); [reflexivity|exact IH].
  Qed.

  Lemma ains_keys k v l : map fst (ains k v l) = sins k (map fst l).
  Proof.
    induction l as [|[k' v'] l IH]; cbn [ains sins map fst]; [reflexivity|].
    destruct (Z.ltb_spec k k'); [reflexivity|]. destruct (Z.eqb_spec k k'); [subst; reflexivity|].
    cbn [map fst]. f_equal. exact IH.
  Qed.

  Lemma ains_sorted k v l : sortedb (map fst l) = true -> sortedb (map fst (ains k v l)) = true.
  Proof. intros H. rewrite ains_keys. apply sins_sorted, H. Qed.

  (* inserting a fresh key is a permutation of consing *)
  Lemma ains_perm k v l : aget k l = None -> Permutation (ains k v l) ((k, v) :: l).
  Proof.
    induction l as [|[k' v'] l IH]; cbn [ains aget]; intros H; [apply Permutation_refl|].
    destruct (Z.eqb_spec k k'); [discriminate|].
    destruct (Z.ltb_spec k k'); [apply Permutation_refl|].
    eapply Permutation_trans; [apply perm_skip, IH, H|apply perm_swap].
  Qed.

  Lemma ains_length_new k v l : aget k l = None -> length (ains k v l) = S (length l).
  Proof. intros H. apply (Permutation_length (ains_perm k v l H)). Qed.

  Lemma ains_last k v l : (forall x, In x (map fst l) -> x < k) -> ains k v l = l ++ [(k, v)].
  Proof.
    induction l as [|[k' v'] l IH]; intros Hall; [reflexivity|].
    cbn [ains app]. assert (k' < k) by (apply Hall; left; reflexivity).
    destruct (Z.ltb_spec k k'); [lia|]. destruct (Z.eqb_spec k k'); [lia|].
    f_equal. apply IH. intros x Hx. apply Hall. right. exact Hx.
  Qed.

  (* replacing the value of a present key keeps the keys *)
  Lemma ains_keys_present k v l : sortedb (map fst l) = true -> In k (map fst l) ->
    map fst (ains k v l) = map fst l.
  Proof.
    induction l as [|[k' v'] l IH]; cbn [ains map fst]; intros Hs Hin; [destruct Hin|].
    apply sortedb_cons in Hs. destruct Hs as [Ha Hs].
    destruct (Z.ltb_spec k k').
    - exfalso. destruct Hin as [E|Hin]; [lia|]. specialize (Ha _ Hin). lia.
    - destruct (Z.eqb_spec k k'); [subst; reflexivity|]. cbn [map fst]. f_equal. apply IH; [exact Hs|].
      destruct Hin as [E|Hin]; [congruence|exact Hin].
  Qed.
End Amap.

(* ---------- lists ---------- *)
Lemma firstn_skipn_app_mid {A} (pre d post : list A) :
  firstn (length d) (skipn (length pre) (pre ++ d ++ post)) = d.
Proof.
  rewrite skipn_app, skipn_all, Nat.sub_diag. cbn [app skipn].
  rewrite firstn_app, firstn_all, Nat.sub_diag. cbn. apply app_nil_r.
Qed.

Lemma zip_with_length f a b : length a = length b -> length (zip_with f a b) = length a.
Proof. intros H. unfold zip_with. rewrite map_length, combine_length, H. apply Nat.min_id. Qed.

Lemma zip_add_sub f t : length f = length t -> forallb is_i32 f = true -> forallb is_i32 t = true ->
  zip_with wadd f (zip_with wsub t f) = t.
Proof.
  revert t. induction f as [|a f IH]; intros [|b t] Hl Hf Ht; try discriminate; [reflexivity|].
  cbn in Hf, Ht. apply andb_true_iff in Hf. apply andb_true_iff in Ht.
  destruct Hf as [Ha Hf]. destruct Ht as [Hb Ht].
  unfold zip_with in *. cbn [combine map fst snd]. f_equal; [apply wadd_wsub; assumption|].
  apply IH; [cbn in Hl; lia|exact Hf|exact Ht].
Qed.

Lemma zip_with_i32 f a b : (forall x y, is_i32 (f x y) = true) -> forallb is_i32 (zip_with f a b) = true.
Proof.
  intros Hf. unfold zip_with. apply forallb_forall. intros x Hx. apply in_map_iff in Hx.
  destruct Hx as [[p q] [<- _]]. apply Hf.
Qed.

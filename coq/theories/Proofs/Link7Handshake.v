(* C02 for 0.7 at the level of the link, the handshake half (mirror of Link6Handshake.v over
   Model/Link7.v). The 0.7 handshake has one more round than the 0.6 one:

     A (connector)                                      B (acceptor)
     Token7 oa         -- TokenMsg oa, header NONE -->  Unconnected7 / PendingConnect7 ob
                       <-- TokenMsg ob, header oa  --   PendingConnect7 ob     (no timer: B never repeats it)
     Connecting7 oa ob -- Connect oa, header ob    -->  Pending7 ob oa
                       <-- Accept, header oa       --
     Online7 (Ready)   -- first chunk datagram     -->  Online7

   parts 1-3  handshake_link7: from every state of the two-endpoint link in which the connecting side A
              is mid-handshake (Token7 or Connecting7) and the accepting side B is in one of the states
              it can be in then, holding the matching tokens (hs_pair7), there is a finite schedule
              -- the network loses what is in flight, the side whose turn it is (A, unless B is
              Pending7) lets its 500 ms handshake timer run out and ticks, every datagram emitted from
              then on is delivered exactly once -- after which A is online and has been told Ready
              exactly once, and B is pending with A's token.
   parts 4-5  progress_link7: in net/src/connection7.rs, as in 0.6, the acceptor leaves Pending7 only
              when the first *chunk* datagram of the connector arrives; that step (A's first send) and
              the healing schedule of Link7Heal.v are composed with the handshake.
   part 6     no_chunks7_run: ticks and flushes alone never emit a chunk datagram from a connector that
              has nothing to send, so they never take the acceptor online.
   part 7     step7_trans: the transition relation of one endpoint (old state, new state, datagram fed,
              datagrams emitted), proved once and used for the invariants of parts 8-9.
   part 8     role_inv7: who can be where in a reachable state (which pairs of states occur together,
              what an endpoint that has not got past a state can have emitted).
   part 9     both_token7_run: both sides called connect -- both ask for a token for ever.
   parts 10-11 the shape of the schedules (ticks, labels, losses only in the prefix), boolean mirrors.
   part 12    late_accept_link7: A is online and has something to send or resend, B is still pending. *)
From LibTw2 Require Import Base.Res Model.PacketTypes Model.ConnCore Model.Conn6 Model.Conn7 Model.LinkGhost Model.Link7
  Proofs.ConnCoreInv Proofs.Conn7Inv Proofs.LinkArith Proofs.LinkCore Proofs.Link7Inv Proofs.ConnProgress
  Proofs.Link6Heal Proofs.Link7Heal Proofs.Link7Tok.
From Coq Require Import ZArith Lia Bool List.
Open Scope Z_scope.

(* ================= part 1: one endpoint ================= *)

(* a call that touches none of the ghost histories and draws no random token *)
Definition keeps7 (x x' : lside7) : Prop :=
  l7_rand x' = l7_rand x /\ l7_sub x' = l7_sub x /\ l7_del x' = l7_del x /\ l7_nvs x' = l7_nvs x /\
  l7_nvr x' = l7_nvr x.

Lemma ctl_fits7 tok c : match c with Close _ => False | _ => True end ->
  (MAX_PACKETSIZE <? control_size params7 tok c) = false.
Proof.
  intros H. destruct c; try contradiction; try reflexivity.
  unfold control_size. cbn [p_v7 params7]. destruct tok as [t|]; [|reflexivity].
  destruct (list_eq_dec Z.eq_dec t TOKEN_NONE); reflexivity.
Qed.

Lemma triggered_some7 t now : t <= now -> triggered (Some t) now = true.
Proof. intros H. cbn. apply Z.leb_le, H. Qed.

Lemma tokb_none own : own <> TOKEN_NONE -> tokb own TOKEN_NONE = false.
Proof. intros H. apply tokb_false', H. Qed.

Lemma token_random7_nonnone rnd t r : token_random7 rnd = Ok (t, r) -> t <> TOKEN_NONE.
Proof.
  induction rnd as [|x rnd IH]; cbn [token_random7]; intros H; [discriminate|].
  destruct (tokb x TOKEN_NONE) eqn:E; [apply IH, H|]. injection H as <- _. apply tokb_false', E.
Qed.

Ltac hs_done7_tac :=
  eexists; split; [reflexivity|]; cbn; rewrite ?app_nil_r, ?orb_false_r, ?orb_true_r;
  split; [reflexivity|]; split; [repeat split|]; split; [try (change (ready_events []) with 0); try lia; try reflexivity|reflexivity].

(* the connecting side's timer has run out while it waits for the token: the request is sent again *)
Lemma hs_tick_token7 now x oa ta :
  c7_state (l7_conn x) = Token7 oa -> oa <> TOKEN_NONE -> c7_send (l7_conn x) = Some ta -> ta <= now ->
  exists x', side_step7 now x Op7Tick = Ok (x', [mkf7 x (DControl (Some TOKEN_NONE) 0 (TokenMsg oa))]) /\
    l7_conn x' = {| c7_state := Token7 oa; c7_send := Some (now + ms 500) |} /\ keeps7 x x' /\
    l7_ready x' = l7_ready x /\ l7_answered x' = l7_answered x.
Proof.
  destruct x as [[st sd] rnd sub del nvs nvr rdy ans]. cbn [l7_conn c7_state c7_send]. intros -> Hn -> Hle.
  unfold side_step7, step7. cbn [l7_conn c7_state c7_send e_now l7_rand].
  rewrite (triggered_some7 _ _ Hle). unfold tick_action7, send_control7, send_control_with7. cbn [c7_state their_token].
  rewrite (tokb_none _ Hn), ctl_fits7 by exact I. cbn [bind].
  hs_done7_tac.
Qed.

(* ... while it waits for the Accept: the Connect is sent again *)
Lemma hs_tick_connecting7 now x oa tb ta :
  c7_state (l7_conn x) = Connecting7 oa tb -> oa <> TOKEN_NONE -> c7_send (l7_conn x) = Some ta -> ta <= now ->
  exists x', side_step7 now x Op7Tick = Ok (x', [mkf7 x (DControl (Some tb) 0 (Connect (Some oa)))]) /\
    l7_conn x' = {| c7_state := Connecting7 oa tb; c7_send := Some (now + ms 500) |} /\ keeps7 x x' /\
    l7_ready x' = l7_ready x /\ l7_answered x' = l7_answered x.
Proof.
  destruct x as [[st sd] rnd sub del nvs nvr rdy ans]. cbn [l7_conn c7_state c7_send]. intros -> Hn -> Hle.
  unfold side_step7, step7. cbn [l7_conn c7_state c7_send e_now l7_rand].
  rewrite (triggered_some7 _ _ Hle). unfold tick_action7, send_control7, send_control_with7. cbn [c7_state their_token].
  rewrite (tokb_none _ Hn), ctl_fits7 by exact I. cbn [bind].
  hs_done7_tac.
Qed.

(* the pending side's timer has run out: the Accept is sent again *)
Lemma hs_tick_pending7 now y ob ta tb :
  c7_state (l7_conn y) = Pending7 ob ta -> c7_send (l7_conn y) = Some tb -> tb <= now ->
  exists y', side_step7 now y Op7Tick = Ok (y', [mkf7 y (DControl (Some ta) 0 Accept)]) /\
    l7_conn y' = {| c7_state := Pending7 ob ta; c7_send := Some (now + ms 500) |} /\ keeps7 y y' /\
    l7_ready y' = l7_ready y /\ l7_answered y' = true.
Proof.
  destruct y as [[st sd] rnd sub del nvs nvr rdy ans]. cbn [l7_conn c7_state c7_send]. intros -> -> Hle.
  unfold side_step7, step7. cbn [l7_conn c7_state c7_send e_now l7_rand].
  rewrite (triggered_some7 _ _ Hle). unfold tick_action7, send_control7, send_control_with7. cbn [c7_state their_token].
  rewrite ctl_fits7 by exact I. cbn [bind].
  hs_done7_tac.
Qed.

(* a token request reaches an acceptor that has not seen one: it draws its token, remembers it
   (PendingConnect7) and answers; no timer is started *)
Lemma hs_feed_request_new7 now y ack r nt rnd' :
  c7_state (l7_conn y) = Unconnected7 -> token_random7 (l7_rand y) = Ok (nt, rnd') -> 0 <= ack < SEQ_MOD ->
  exists y', side_step7 now y (Op7Feed (DControl (Some TOKEN_NONE) ack (TokenMsg r)))
             = Ok (y', [mkf7 y (DControl (Some r) 0 (TokenMsg nt))]) /\
    l7_conn y' = {| c7_state := PendingConnect7 nt; c7_send := c7_send (l7_conn y) |} /\
    l7_rand y' = rnd' /\ l7_sub y' = l7_sub y /\ l7_del y' = l7_del y /\ l7_nvs y' = l7_nvs y /\ l7_nvr y' = l7_nvr y /\
    l7_ready y' = l7_ready y /\ l7_answered y' = l7_answered y.
Proof.
  destruct y as [[st sd] rnd sub del nvs nvr rdy ans]. cbn [l7_conn c7_state c7_send l7_rand]. intros -> Hr Hack.
  pose proof (token_random7_nonnone _ _ _ Hr) as Hn.
  unfold side_step7, step7, feed7. cbn [l7_conn c7_state c7_send e_now e_rand l7_rand own_token andb].
  rewrite tokb_refl. cbn [negb].
  replace ((ack <? 0) || (SEQ_MOD <=? ack)) with false by lia.
  rewrite Hr. cbn [bind]. unfold send_control_with7. rewrite (tokb_none _ Hn), ctl_fits7 by exact I. cbn [bind].
  eexists. split; [reflexivity|]. cbn. rewrite ?app_nil_r, ?orb_false_r.
  split; [reflexivity|]. repeat (split; [reflexivity|]). split; [change (ready_events []) with 0; lia|reflexivity].
Qed.

(* ... an acceptor that has answered one already: the same token is sent again *)
Lemma hs_feed_request_again7 now y ob ack r :
  c7_state (l7_conn y) = PendingConnect7 ob -> ob <> TOKEN_NONE -> 0 <= ack < SEQ_MOD ->
  exists y', side_step7 now y (Op7Feed (DControl (Some TOKEN_NONE) ack (TokenMsg r)))
             = Ok (y', [mkf7 y (DControl (Some r) 0 (TokenMsg ob))]) /\
    l7_conn y' = l7_conn y /\ keeps7 y y' /\ l7_ready y' = l7_ready y /\ l7_answered y' = l7_answered y.
Proof.
  destruct y as [[st sd] rnd sub del nvs nvr rdy ans]. cbn [l7_conn c7_state c7_send l7_rand]. intros -> Hn Hack.
  unfold side_step7, step7, feed7. cbn [l7_conn c7_state c7_send e_now e_rand l7_rand own_token andb].
  rewrite tokb_refl. cbn [negb].
  replace ((ack <? 0) || (SEQ_MOD <=? ack)) with false by lia.
  unfold send_control_with7. rewrite (tokb_none _ Hn), ctl_fits7 by exact I. cbn [bind].
  hs_done7_tac.
Qed.

(* the acceptor's token reaches the connecting side: it sends its Connect and starts its timer *)
Lemma hs_feed_token7 now x oa ack tb :
  c7_state (l7_conn x) = Token7 oa -> oa <> TOKEN_NONE -> 0 <= ack < SEQ_MOD ->
  exists x', side_step7 now x (Op7Feed (DControl (Some oa) ack (TokenMsg tb)))
             = Ok (x', [mkf7 x (DControl (Some tb) 0 (Connect (Some oa)))]) /\
    l7_conn x' = {| c7_state := Connecting7 oa tb; c7_send := Some (now + ms 500) |} /\ keeps7 x x' /\
    l7_ready x' = l7_ready x /\ l7_answered x' = l7_answered x.
Proof.
  destruct x as [[st sd] rnd sub del nvs nvr rdy ans]. cbn [l7_conn c7_state c7_send l7_rand]. intros -> Hn Hack.
  unfold side_step7, step7, feed7. cbn [l7_conn c7_state c7_send e_now e_rand l7_rand own_token andb].
  rewrite tokb_refl. cbn [negb].
  replace ((ack <? 0) || (SEQ_MOD <=? ack)) with false by lia.
  unfold tick_action7, send_control7, send_control_with7. cbn [c7_state their_token].
  rewrite (tokb_none _ Hn), ctl_fits7 by exact I. cbn [bind].
  hs_done7_tac.
Qed.

(* the Connect (carrying the acceptor's token in its header) reaches the acceptor: pending, Accept *)
Lemma hs_feed_connect7 now y ob ack ta :
  c7_state (l7_conn y) = PendingConnect7 ob -> 0 <= ack < SEQ_MOD ->
  exists y', side_step7 now y (Op7Feed (DControl (Some ob) ack (Connect (Some ta))))
             = Ok (y', [mkf7 y (DControl (Some ta) 0 Accept)]) /\
    l7_conn y' = {| c7_state := Pending7 ob ta; c7_send := Some (now + ms 500) |} /\ keeps7 y y' /\
    l7_ready y' = l7_ready y /\ l7_answered y' = true.
Proof.
  destruct y as [[st sd] rnd sub del nvs nvr rdy ans]. cbn [l7_conn c7_state c7_send l7_rand]. intros -> Hack.
  unfold side_step7, step7, feed7. cbn [l7_conn c7_state c7_send e_now e_rand l7_rand own_token andb].
  rewrite tokb_refl. cbn [negb].
  replace ((ack <? 0) || (SEQ_MOD <=? ack)) with false by lia.
  unfold tick_action7, send_control7, send_control_with7. cbn [c7_state their_token].
  rewrite ctl_fits7 by exact I. cbn [bind].
  hs_done7_tac.
Qed.

(* the Accept reaches the connecting side: online, Ready; nothing is emitted *)
Lemma hs_feed_accept7 now x oa tb ack :
  c7_state (l7_conn x) = Connecting7 oa tb -> 0 <= ack < SEQ_MOD ->
  exists x', side_step7 now x (Op7Feed (DControl (Some oa) ack Accept)) = Ok (x', []) /\
    l7_conn x' = {| c7_state := Online7 (online_new (Some oa) (Some tb)); c7_send := c7_send (l7_conn x) |} /\
    keeps7 x x' /\ l7_ready x' = l7_ready x + 1 /\ l7_answered x' = l7_answered x.
Proof.
  destruct x as [[st sd] rnd sub del nvs nvr rdy ans]. cbn [l7_conn c7_state c7_send l7_rand]. intros -> Hack.
  unfold side_step7, step7, feed7. cbn [l7_conn c7_state c7_send e_now e_rand l7_rand own_token andb].
  rewrite tokb_refl. cbn [negb].
  replace ((ack <? 0) || (SEQ_MOD <=? ack)) with false by lia.
  hs_done7_tac.
Qed.

(* ================= part 2: the link, step by step ================= *)
Definition mkl7 (xa xb : lside7) (ab ba : list flight) (now : Z) : link7 :=
  {| k7_a := xa; k7_b := xb; k7_ab := ab; k7_ba := ba; k7_now := now |}.

Lemma link_eta7 w : w = mkl7 (k7_a w) (k7_b w) (k7_ab w) (k7_ba w) (k7_now w).
Proof. destruct w; reflexivity. Qed.

Lemma lstep_time7 xa xb ab ba now dt :
  link_step7 (mkl7 xa xb ab ba now) (L7Time dt) = Ok (mkl7 xa xb ab ba (now + dt)).
Proof. reflexivity. Qed.
Lemma lstep_appA7 xa xb ab ba now op x' fl : side_step7 now xa op = Ok (x', fl) ->
  link_step7 (mkl7 xa xb ab ba now) (L7App SA7 op) = Ok (mkl7 x' xb (ab ++ fl) ba now).
Proof. intros H. cbn. rewrite H. reflexivity. Qed.
Lemma lstep_appB7 xa xb ab ba now op y' fl : side_step7 now xb op = Ok (y', fl) ->
  link_step7 (mkl7 xa xb ab ba now) (L7App SB7 op) = Ok (mkl7 xa y' ab (ba ++ fl) now).
Proof. intros H. cbn. rewrite H. reflexivity. Qed.
Lemma lstep_delA7 xa xb f ab ba now y' fl : side_step7 now xb (Op7Feed (f_d f)) = Ok (y', fl) ->
  link_step7 (mkl7 xa xb (f :: ab) ba now) (L7Deliver SA7 0) = Ok (mkl7 xa y' (f :: ab) (ba ++ fl) now).
Proof. intros H. cbn. rewrite H. reflexivity. Qed.
Lemma lstep_delB7 xa xb f ab ba now x' fl : side_step7 now xa (Op7Feed (f_d f)) = Ok (x', fl) ->
  link_step7 (mkl7 xa xb ab (f :: ba) now) (L7Deliver SB7 0) = Ok (mkl7 x' xb (ab ++ fl) (f :: ba) now).
Proof. intros H. cbn. rewrite H. reflexivity. Qed.
Lemma lstep_dropA7 xa xb f ab ba now :
  link_step7 (mkl7 xa xb (f :: ab) ba now) (L7Drop SA7 0) = Ok (mkl7 xa xb ab ba now).
Proof. reflexivity. Qed.
Lemma lstep_dropB7 xa xb f ab ba now :
  link_step7 (mkl7 xa xb ab (f :: ba) now) (L7Drop SB7 0) = Ok (mkl7 xa xb ab ba now).
Proof. reflexivity. Qed.

Lemma adm_tick7 w s : admissible7 w (L7App s Op7Tick).
Proof. cbn. repeat split. Qed.
Lemma adm_delA7 xa xb f ab ba now : fresh7 f xb -> rand_ok7 {| e_now := now; e_rand := l7_rand xb |} ->
  admissible7 (mkl7 xa xb (f :: ab) ba now) (L7Deliver SA7 0).
Proof. intros H1 H2. cbn. split; assumption. Qed.
Lemma adm_delB7 xa xb f ab ba now : fresh7 f xa -> rand_ok7 {| e_now := now; e_rand := l7_rand xa |} ->
  admissible7 (mkl7 xa xb ab (f :: ba) now) (L7Deliver SB7 0).
Proof. intros H1 H2. cbn. split; assumption. Qed.

(* the oldest datagram from A / from B arrives and leaves the network *)
Lemma drainA7 xa xb f ab ba now y' fl :
  fresh7 f xb -> rand_ok7 {| e_now := now; e_rand := l7_rand xb |} ->
  side_step7 now xb (Op7Feed (f_d f)) = Ok (y', fl) ->
  sched7 (mkl7 xa xb (f :: ab) ba now) (drain7 SA7 1) (mkl7 xa y' ab (ba ++ fl) now).
Proof.
  intros H1 H2 H3. eapply sched_cons7; [apply adm_delA7; assumption|apply lstep_delA7, H3|].
  eapply sched_cons7; [exact I|apply lstep_dropA7|apply sched_nil7].
Qed.
Lemma drainB7 xa xb f ab ba now x' fl :
  fresh7 f xa -> rand_ok7 {| e_now := now; e_rand := l7_rand xa |} ->
  side_step7 now xa (Op7Feed (f_d f)) = Ok (x', fl) ->
  sched7 (mkl7 xa xb ab (f :: ba) now) (drain7 SB7 1) (mkl7 x' xb (ab ++ fl) ba now).
Proof.
  intros H1 H2 H3. eapply sched_cons7; [apply adm_delB7; assumption|apply lstep_delB7, H3|].
  eapply sched_cons7; [exact I|apply lstep_dropB7|apply sched_nil7].
Qed.

Lemma drainA_nil7 xa xb f ab ba now y' :
  fresh7 f xb -> rand_ok7 {| e_now := now; e_rand := l7_rand xb |} ->
  side_step7 now xb (Op7Feed (f_d f)) = Ok (y', []) ->
  sched7 (mkl7 xa xb (f :: ab) ba now) (drain7 SA7 1) (mkl7 xa y' ab ba now).
Proof. intros H1 H2 H3. pose proof (drainA7 xa xb f ab ba now y' [] H1 H2 H3) as H. rewrite app_nil_r in H. exact H. Qed.
Lemma drainB_nil7 xa xb f ab ba now x' :
  fresh7 f xa -> rand_ok7 {| e_now := now; e_rand := l7_rand xa |} ->
  side_step7 now xa (Op7Feed (f_d f)) = Ok (x', []) ->
  sched7 (mkl7 xa xb ab (f :: ba) now) (drain7 SB7 1) (mkl7 x' xb ab ba now).
Proof. intros H1 H2 H3. pose proof (drainB7 xa xb f ab ba now x' [] H1 H2 H3) as H. rewrite app_nil_r in H. exact H. Qed.

Lemma fresh_ctl7 x y tok ack c : zlen (l7_sub y) - zlen (l7_del x) < 1024 -> fresh7 (mkf7 x (DControl tok ack c)) y.
Proof. intros H. split; [exact H|]. intros ch s r []. Qed.

Lemma fresh_nochunks7 f y : dgram_chunks (f_d f) = [] -> zlen (l7_sub y) - f_c f < 1024 -> fresh7 f y.
Proof. intros E H. split; [exact H|]. rewrite E. intros ch s r []. Qed.

(* the three handshake schedules (after the losses), by the datagram the first tick repeats *)
Definition hs_request7 (dt : Z) : list llabel7 :=
  [L7Time dt; L7App SA7 Op7Tick] ++ drain7 SA7 1 ++ drain7 SB7 1 ++ drain7 SA7 1 ++ drain7 SB7 1.
Definition hs_connect7 (dt : Z) : list llabel7 :=
  [L7Time dt; L7App SA7 Op7Tick] ++ drain7 SA7 1 ++ drain7 SB7 1.
Definition hs_answer7 (dt : Z) : list llabel7 :=
  [L7Time dt; L7App SB7 Op7Tick] ++ drain7 SB7 1.

(* what the handshake schedule reaches: A online and Ready with the tokens (own oa, peer ob), B pending
   with the mirrored pair, the network empty, no history touched *)
Record hs_done7 (xa xb xa' xb' : lside7) (oa ob : token) : Prop := {
  hd7_a : c7_state (l7_conn xa') = Online7 (online_new (Some oa) (Some ob));
  hd7_b : c7_state (l7_conn xb') = Pending7 ob oa;
  hd7_keep : l7_sub xa' = l7_sub xa /\ l7_del xa' = l7_del xa /\ l7_nvs xa' = l7_nvs xa /\ l7_nvr xa' = l7_nvr xa /\
             l7_sub xb' = l7_sub xb /\ l7_del xb' = l7_del xb /\ l7_nvs xb' = l7_nvs xb /\ l7_nvr xb' = l7_nvr xb;
  hd7_ready : l7_ready xa' = l7_ready xa + 1 /\ l7_ready xb' = l7_ready xb;
  hd7_ans : l7_answered xb' = true;
  hd7_randa : l7_rand xa' = l7_rand xa;
}.

(* the Connect is in flight, the acceptor holds the token it carries: pending, Accept, online *)
Lemma handshake_tail7 xa xb now oa ob f :
  c7_state (l7_conn xa) = Connecting7 oa ob -> c7_state (l7_conn xb) = PendingConnect7 ob ->
  f_d f = DControl (Some ob) 0 (Connect (Some oa)) -> f_c f = 0 ->
  l7_sub xa = [] -> l7_del xa = [] -> l7_sub xb = [] -> l7_del xb = [] ->
  rand_ok7 {| e_now := now; e_rand := l7_rand xa |} -> rand_ok7 {| e_now := now; e_rand := l7_rand xb |} ->
  exists xa' xb',
    sched7 (mkl7 xa xb [f] [] now) (drain7 SA7 1 ++ drain7 SB7 1) (mkl7 xa' xb' [] [] now) /\
    hs_done7 xa xb xa' xb' oa ob /\ l7_rand xb' = l7_rand xb.
Proof.
  intros Ca Cb Ef Ec SubA DelA SubB DelB Ra Rb.
  destruct (hs_feed_connect7 now xb ob 0 oa Cb) as [xb1 [T1 [Cb1 [[Kb1 [Kb2 [Kb3 [Kb4 Kb5]]]] [Ry1 An1]]]]];
    [unfold SEQ_MOD; lia|].
  destruct (hs_feed_accept7 now xa oa ob 0 Ca) as [xa1 [T2 [Ca1 [[Ka1 [Ka2 [Ka3 [Ka4 Ka5]]]] [Ry2 An2]]]]];
    [unfold SEQ_MOD; lia|].
  exists xa1, xb1. split; [|split].
  - eapply sched_app7.
    { eapply drainA7; [|exact Rb|rewrite Ef; exact T1].
      apply fresh_nochunks7; [rewrite Ef; reflexivity|]. rewrite SubB, Ec. cbn. lia. }
    cbn [app].
    eapply drainB_nil7; [|exact Ra|exact T2].
    apply fresh_ctl7. rewrite SubA, DelB. cbn. lia.
  - constructor.
    + rewrite Ca1. reflexivity.
    + rewrite Cb1. reflexivity.
    + repeat split; congruence.
    + split; [exact Ry2|exact Ry1].
    + exact An1.
    + exact Ka1.
  - exact Kb1.
Qed.

(* A waits for the Accept, B has only handed out its token: A's timer runs out, A repeats the Connect *)
Lemma handshake_connect7 xa xb now oa ob ta :
  c7_state (l7_conn xa) = Connecting7 oa ob -> oa <> TOKEN_NONE -> c7_send (l7_conn xa) = Some ta ->
  c7_state (l7_conn xb) = PendingConnect7 ob ->
  l7_sub xa = [] -> l7_del xa = [] -> l7_sub xb = [] -> l7_del xb = [] ->
  (forall t, rand_ok7 {| e_now := t; e_rand := l7_rand xa |}) ->
  (forall t, rand_ok7 {| e_now := t; e_rand := l7_rand xb |}) ->
  exists xa' xb',
    sched7 (mkl7 xa xb [] [] now) (hs_connect7 (Z.max 0 (ta - now))) (mkl7 xa' xb' [] [] (now + Z.max 0 (ta - now))) /\
    hs_done7 xa xb xa' xb' oa ob /\ l7_rand xb' = l7_rand xb.
Proof.
  intros Ca Hn Sa Cb SubA DelA SubB DelB Ra Rb. set (dt := Z.max 0 (ta - now)). set (t1 := now + dt).
  assert (Hle : ta <= t1) by (unfold t1, dt; lia).
  destruct (hs_tick_connecting7 t1 xa oa ob ta Ca Hn Sa Hle) as [xa1 [T1 [Ca1 [[Ka1 [Ka2 [Ka3 [Ka4 Ka5]]]] [Ry1 An1]]]]].
  assert (Ca1' : c7_state (l7_conn xa1) = Connecting7 oa ob) by (rewrite Ca1; reflexivity).
  destruct (handshake_tail7 xa1 xb t1 oa ob (mkf7 xa (DControl (Some ob) 0 (Connect (Some oa)))) Ca1' Cb eq_refl)
    as [xa' [xb' [S2 [D2 Er]]]]; try congruence.
  { cbn [mkf7 f_c]. rewrite DelA. reflexivity. }
  { rewrite Ka1. apply Ra. }
  { apply Rb. }
  exists xa', xb'. split; [|split; [|exact Er]].
  - unfold hs_connect7.
    eapply sched_cons7; [exact I|apply lstep_time7|]. fold t1.
    eapply sched_cons7; [apply adm_tick7|apply lstep_appA7, T1|]. cbn [app]. exact S2.
  - destruct D2 as [Da Db [K1 [K2 [K3 [K4 [K5 [K6 [K7 K8]]]]]]] [Y1 Y2] An Rn].
    constructor; try assumption.
    + repeat split; congruence.
    + split; [congruence|exact Y2].
    + congruence.
Qed.

(* B is pending: its timer runs out, it repeats the Accept, A is online *)
Lemma handshake_answer7 xa xb now oa ob tb :
  c7_state (l7_conn xa) = Connecting7 oa ob ->
  c7_state (l7_conn xb) = Pending7 ob oa -> c7_send (l7_conn xb) = Some tb ->
  l7_sub xa = [] -> l7_del xa = [] -> l7_sub xb = [] -> l7_del xb = [] ->
  (forall t, rand_ok7 {| e_now := t; e_rand := l7_rand xa |}) ->
  exists xa' xb',
    sched7 (mkl7 xa xb [] [] now) (hs_answer7 (Z.max 0 (tb - now))) (mkl7 xa' xb' [] [] (now + Z.max 0 (tb - now))) /\
    hs_done7 xa xb xa' xb' oa ob /\ l7_rand xb' = l7_rand xb.
Proof.
  intros Ca Cb Sb SubA DelA SubB DelB Ra. set (dt := Z.max 0 (tb - now)). set (t1 := now + dt).
  assert (Hle : tb <= t1) by (unfold t1, dt; lia).
  destruct (hs_tick_pending7 t1 xb ob oa tb Cb Sb Hle) as [xb1 [T1 [Cb1 [[Kb1 [Kb2 [Kb3 [Kb4 Kb5]]]] [Ry1 An1]]]]].
  destruct (hs_feed_accept7 t1 xa oa ob 0 Ca) as [xa1 [T2 [Ca1 [[Ka1 [Ka2 [Ka3 [Ka4 Ka5]]]] [Ry2 An2]]]]];
    [unfold SEQ_MOD; lia|].
  exists xa1, xb1. split; [|split].
  - unfold hs_answer7.
    eapply sched_cons7; [exact I|apply lstep_time7|]. fold t1.
    eapply sched_cons7; [apply adm_tick7|apply lstep_appB7, T1|]. cbn [app].
    eapply drainB_nil7; [|apply Ra|exact T2].
    apply fresh_ctl7. rewrite SubA, DelB. cbn. lia.
  - constructor.
    + rewrite Ca1. reflexivity.
    + rewrite Cb1. reflexivity.
    + repeat split; congruence.
    + split; [exact Ry2|exact Ry1].
    + exact An1.
    + exact Ka1.
  - exact Kb1.
Qed.

(* the acceptor's random stream after the token request has been answered *)
Definition hs_rand_after7 (y : lside7) : list token :=
  match c7_state (l7_conn y) with
  | Unconnected7 => match token_random7 (l7_rand y) with Ok (_, r) => r | _ => l7_rand y end
  | _ => l7_rand y
  end.

(* a token request reaches an acceptor that has not seen a Connect yet *)
Lemma hs_feed_request7 now y r :
  (c7_state (l7_conn y) = Unconnected7 \/ exists ob, c7_state (l7_conn y) = PendingConnect7 ob /\ ob <> TOKEN_NONE) ->
  rand_ok7 {| e_now := now; e_rand := l7_rand y |} ->
  exists y' ob, side_step7 now y (Op7Feed (DControl (Some TOKEN_NONE) 0 (TokenMsg r)))
             = Ok (y', [mkf7 y (DControl (Some r) 0 (TokenMsg ob))]) /\
    c7_state (l7_conn y') = PendingConnect7 ob /\ ob <> TOKEN_NONE /\
    l7_rand y' = hs_rand_after7 y /\ l7_sub y' = l7_sub y /\ l7_del y' = l7_del y /\ l7_nvs y' = l7_nvs y /\ l7_nvr y' = l7_nvr y /\
    l7_ready y' = l7_ready y /\ l7_answered y' = l7_answered y.
Proof.
  intros [Hu|[ob [Hp Hn]]] [_ [nt [rnd' Hr]]]; cbn [e_rand] in Hr.
  - destruct (hs_feed_request_new7 now y 0 r nt rnd' Hu Hr) as [y' [T [C [K1 [K2 [K3 [K4 [K5 [Y A]]]]]]]]]; [unfold SEQ_MOD; lia|].
    exists y', nt. split; [exact T|]. split; [rewrite C; reflexivity|]. split; [eapply token_random7_nonnone, Hr|].
    split; [unfold hs_rand_after7; rewrite Hu, Hr; exact K1|]. repeat (split; [assumption|]). assumption.
  - destruct (hs_feed_request_again7 now y ob 0 r Hp Hn) as [y' [T [C [[K1 [K2 [K3 [K4 K5]]]] [Y A]]]]]; [unfold SEQ_MOD; lia|].
    exists y', ob. split; [exact T|]. split; [rewrite C; exact Hp|]. split; [exact Hn|].
    split; [unfold hs_rand_after7; rewrite Hp; exact K1|]. repeat (split; [assumption|]). assumption.
Qed.

(* A waits for B's token: its timer runs out, it repeats the request; B answers (drawing its token
   if this is the first request it sees), A sends the Connect, B the Accept, A is online *)
Lemma handshake_request7 xa xb now oa ta :
  c7_state (l7_conn xa) = Token7 oa -> oa <> TOKEN_NONE -> c7_send (l7_conn xa) = Some ta ->
  (c7_state (l7_conn xb) = Unconnected7 \/ exists ob, c7_state (l7_conn xb) = PendingConnect7 ob /\ ob <> TOKEN_NONE) ->
  l7_sub xa = [] -> l7_del xa = [] -> l7_sub xb = [] -> l7_del xb = [] ->
  (forall t, rand_ok7 {| e_now := t; e_rand := l7_rand xa |}) ->
  (forall t, rand_ok7 {| e_now := t; e_rand := l7_rand xb |}) ->
  (forall t, rand_ok7 {| e_now := t; e_rand := hs_rand_after7 xb |}) ->
  exists xa' xb' ob,
    sched7 (mkl7 xa xb [] [] now) (hs_request7 (Z.max 0 (ta - now))) (mkl7 xa' xb' [] [] (now + Z.max 0 (ta - now))) /\
    hs_done7 xa xb xa' xb' oa ob /\ l7_rand xb' = hs_rand_after7 xb.
Proof.
  intros Ca Hn Sa Cb SubA DelA SubB DelB Ra Rb Rb'. set (dt := Z.max 0 (ta - now)). set (t1 := now + dt).
  assert (Hle : ta <= t1) by (unfold t1, dt; lia).
  destruct (hs_tick_token7 t1 xa oa ta Ca Hn Sa Hle) as [xa1 [T1 [Ca1 [[Ka1 [Ka2 [Ka3 [Ka4 Ka5]]]] [Ry1 An1]]]]].
  destruct (hs_feed_request7 t1 xb oa Cb (Rb t1)) as [xb1 [ob [T2 [Cb1 [Hnb [Kb1 [Kb2 [Kb3 [Kb4 [Kb5 [Ry2 An2]]]]]]]]]]].
  assert (Ca1' : c7_state (l7_conn xa1) = Token7 oa) by (rewrite Ca1; reflexivity).
  destruct (hs_feed_token7 t1 xa1 oa 0 ob Ca1' Hn) as [xa2 [T3 [Ca2 [[Kc1 [Kc2 [Kc3 [Kc4 Kc5]]]] [Ry3 An3]]]]];
    [unfold SEQ_MOD; lia|].
  assert (Ca2' : c7_state (l7_conn xa2) = Connecting7 oa ob) by (rewrite Ca2; reflexivity).
  destruct (handshake_tail7 xa2 xb1 t1 oa ob (mkf7 xa1 (DControl (Some ob) 0 (Connect (Some oa)))) Ca2' Cb1 eq_refl)
    as [xa' [xb' [S4 [D4 Er]]]]; try congruence.
  { cbn [mkf7 f_c]. rewrite Ka3, DelA. reflexivity. }
  { rewrite Kc1, Ka1. apply Ra. }
  { rewrite Kb1. apply Rb'. }
  exists xa', xb', ob. split; [|split; [|congruence]].
  - unfold hs_request7.
    eapply sched_cons7; [exact I|apply lstep_time7|]. fold t1.
    eapply sched_cons7; [apply adm_tick7|apply lstep_appA7, T1|]. cbn [app].
    eapply sched_app7.
    { eapply drainA7; [|apply Rb|exact T2].
      apply fresh_ctl7. rewrite SubB, DelA. cbn. lia. }
    cbn [app]. eapply sched_app7.
    { eapply drainB7; [|rewrite Ka1; apply Ra|exact T3].
      apply fresh_ctl7. rewrite Ka2, SubA, DelB. cbn. lia. }
    cbn [app]. exact S4.
  - destruct D4 as [Da Db [K1 [K2 [K3 [K4 [K5 [K6 [K7 K8]]]]]]] [Y1 Y2] An Rn].
    constructor; try assumption.
    + repeat split; congruence.
    + split; [rewrite Y1, Ry3, Ry1; reflexivity|congruence].
    + congruence.
Qed.

(* ================= part 3: the handshake from an arbitrary state of the link ================= *)
Inductive hs_phase7 := PhRequest | PhConnect | PhAnswer.
Definition hs_post7 (ph : hs_phase7) (dt : Z) : list llabel7 :=
  match ph with PhRequest => hs_request7 dt | PhConnect => hs_connect7 dt | PhAnswer => hs_answer7 dt end.
Definition hs_schedule7 (ph : hs_phase7) (na nb : nat) (dt : Z) : list llabel7 :=
  drops7 SA7 na ++ drops7 SB7 nb ++ hs_post7 ph dt.

Lemma sched_inv7 w ls w' : link_inv7 w -> sched7 w ls w' -> link_inv7 w'.
Proof.
  intros Hi [Ha Hr]. destruct (link_run_inv7 ls w Hi Ha) as [w2 [Hr2 Hi2]]. rewrite Hr in Hr2.
  injection Hr2 as <-. exact Hi2.
Qed.

(* the states of the two ends while the connecting side A is mid-handshake, with the tokens the two
   ends hold for each other (an invariant of every admissible history: hs_pair_reachable7 below) *)
Definition hs_pair7 (sa sb : state7) : Prop :=
  match sa, sb with
  | Token7 _, Unconnected7 | Token7 _, PendingConnect7 _ => True
  | Connecting7 oa ta, PendingConnect7 ob => ta = ob
  | Connecting7 oa ta, Pending7 ob tb => ta = ob /\ tb = oa
  | _, _ => False
  end.

(* the random streams: usable now, and B's still usable after it has drawn its token *)
Definition hs_rand_ok7 (w : link7) : Prop :=
  rand_ok7 {| e_now := k7_now w; e_rand := l7_rand (k7_a w) |} /\
  rand_ok7 {| e_now := k7_now w; e_rand := l7_rand (k7_b w) |} /\
  rand_ok7 {| e_now := k7_now w; e_rand := hs_rand_after7 (k7_b w) |}.

Lemma never_online_fresh7 x subY delY nvsY ansY :
  side_inv7 x subY delY nvsY ansY -> never_online7 (c7_state (l7_conn x)) ->
  l7_sub x = [] /\ l7_del x = [] /\ l7_nvs x = [] /\ l7_ready x = 0.
Proof. intros H. exact (sv7_fresh _ _ _ _ _ H). Qed.

Theorem handshake_link7 w :
  link_inv7 w -> hs_pair7 (c7_state (l7_conn (k7_a w))) (c7_state (l7_conn (k7_b w))) -> hs_rand_ok7 w ->
  exists ph na nb dt w' oa ob,
    0 <= dt /\ sched7 w (hs_schedule7 ph na nb dt) w' /\ link_inv7 w' /\
    own_token (c7_state (l7_conn (k7_a w))) = Some oa /\
    hs_done7 (k7_a w) (k7_b w) (k7_a w') (k7_b w') oa ob /\ k7_ab w' = [] /\ k7_ba w' = [] /\
    l7_sub (k7_a w) = [] /\ l7_del (k7_a w) = [] /\ l7_sub (k7_b w) = [] /\ l7_del (k7_b w) = [] /\
    l7_ready (k7_a w) = 0 /\
    rand_ok7 {| e_now := k7_now w'; e_rand := l7_rand (k7_a w') |} /\
    rand_ok7 {| e_now := k7_now w'; e_rand := l7_rand (k7_b w') |}.
Proof.
  intros Hi Hp [Ra [Rb Rb']].
  pose proof (linv_side7 w SA7 Hi) as Ha. pose proof (linv_side7 w SB7 Hi) as Hb. cbn [get7 other7] in Ha, Hb.
  assert (NA : never_online7 (c7_state (l7_conn (k7_a w)))).
  { destruct (c7_state (l7_conn (k7_a w))); try contradiction; exact I. }
  assert (NB : never_online7 (c7_state (l7_conn (k7_b w)))).
  { destruct (c7_state (l7_conn (k7_a w))); try contradiction; destruct (c7_state (l7_conn (k7_b w))); try contradiction; exact I. }
  destruct (never_online_fresh7 _ _ _ _ _ Ha NA) as [SubA [DelA [_ RdyA]]].
  destruct (never_online_fresh7 _ _ _ _ _ Hb NB) as [SubB [DelB [_ RdyB]]].
  pose proof (sv7_conn _ _ _ _ _ Ha) as Hca. pose proof (sv7_conn _ _ _ _ _ Hb) as Hcb. unfold conn_ok7 in Hca, Hcb.
  destruct (drop_all7 SA7 _ w eq_refl Hi) as [w1 [S1 [I1 [E1 [B1 [O1 N1]]]]]].
  destruct (drop_all7 SB7 _ w1 eq_refl I1) as [w2 [S2 [I2 [E2 [B2 [O2 N2]]]]]]. cbn [other7] in O1, O2.
  assert (Ew2 : w2 = mkl7 (k7_a w) (k7_b w) [] [] (k7_now w)).
  { rewrite (link_eta7 w2). unfold mkl7. f_equal.
    - change (k7_a w2) with (get7 w2 SA7). rewrite E2, E1. reflexivity.
    - change (k7_b w2) with (get7 w2 SB7). rewrite E2, E1. reflexivity.
    - change (k7_ab w2) with (bag7 w2 SA7). rewrite O2. exact B1.
    - exact B2.
    - congruence. }
  assert (RA : forall t, rand_ok7 {| e_now := t; e_rand := l7_rand (k7_a w) |}) by (intros t; exact Ra).
  assert (RB : forall t, rand_ok7 {| e_now := t; e_rand := l7_rand (k7_b w) |}) by (intros t; exact Rb).
  assert (RB' : forall t, rand_ok7 {| e_now := t; e_rand := hs_rand_after7 (k7_b w) |}) by (intros t; exact Rb').
  assert (Fin : forall ph dt xa' xb' oa ob rb',
    0 <= dt -> own_token (c7_state (l7_conn (k7_a w))) = Some oa ->
    sched7 (mkl7 (k7_a w) (k7_b w) [] [] (k7_now w)) (hs_post7 ph dt) (mkl7 xa' xb' [] [] (k7_now w + dt)) ->
    hs_done7 (k7_a w) (k7_b w) xa' xb' oa ob -> l7_rand xb' = rb' -> (forall t, rand_ok7 {| e_now := t; e_rand := rb' |}) ->
    exists ph na nb dt w' oa ob,
      0 <= dt /\ sched7 w (hs_schedule7 ph na nb dt) w' /\ link_inv7 w' /\
      own_token (c7_state (l7_conn (k7_a w))) = Some oa /\
      hs_done7 (k7_a w) (k7_b w) (k7_a w') (k7_b w') oa ob /\ k7_ab w' = [] /\ k7_ba w' = [] /\
      l7_sub (k7_a w) = [] /\ l7_del (k7_a w) = [] /\ l7_sub (k7_b w) = [] /\ l7_del (k7_b w) = [] /\
      l7_ready (k7_a w) = 0 /\
      rand_ok7 {| e_now := k7_now w'; e_rand := l7_rand (k7_a w') |} /\
      rand_ok7 {| e_now := k7_now w'; e_rand := l7_rand (k7_b w') |}).
  { intros ph dt xa' xb' oa ob rb' Hdt Hown S3 D3 Er Rr.
    exists ph, (length (bag7 w SA7)), (length (bag7 w1 SB7)), dt, (mkl7 xa' xb' [] [] (k7_now w + dt)), oa, ob.
    split; [exact Hdt|].
    assert (Sall : sched7 w (hs_schedule7 ph (length (bag7 w SA7)) (length (bag7 w1 SB7)) dt)
                     (mkl7 xa' xb' [] [] (k7_now w + dt))).
    { unfold hs_schedule7. eapply sched_app7; [exact S1|]. eapply sched_app7; [exact S2|]. rewrite Ew2. exact S3. }
    split; [exact Sall|]. split; [exact (sched_inv7 _ _ _ Hi Sall)|]. cbn [mkl7 k7_a k7_b k7_ab k7_ba k7_now].
    split; [exact Hown|]. split; [exact D3|]. do 7 (split; [first [reflexivity|assumption]|]).
    split; [rewrite (hd7_randa _ _ _ _ _ _ D3); apply RA|rewrite Er; apply Rr]. }
  destruct (c7_state (l7_conn (k7_a w))) as [|oa|oa|oa ta|oa ta|oa|] eqn:Ca; try contradiction.
  - (* A waits for B's token *)
    destruct Hca as [_ [Hna Hsa]]. destruct (c7_send (l7_conn (k7_a w))) as [ta|] eqn:Sa; [|contradiction].
    assert (Cb : c7_state (l7_conn (k7_b w)) = Unconnected7 \/
                 exists ob, c7_state (l7_conn (k7_b w)) = PendingConnect7 ob /\ ob <> TOKEN_NONE).
    { destruct (c7_state (l7_conn (k7_b w))) as [|ob|ob|ob tb|ob tb|ob|]; try contradiction.
      - left; reflexivity.
      - right. exists ob. split; [reflexivity|apply Hcb]. }
    destruct (handshake_request7 (k7_a w) (k7_b w) (k7_now w) oa ta Ca Hna Sa Cb SubA DelA SubB DelB RA RB RB')
      as [xa' [xb' [ob [S3 [D3 Er]]]]].
    eapply (Fin PhRequest); [|reflexivity|exact S3|exact D3|exact Er|exact RB']. lia.
  - (* A waits for the Accept *)
    destruct Hca as [_ [_ [Hna Hsa]]]. destruct (c7_send (l7_conn (k7_a w))) as [tsa|] eqn:Sa; [|contradiction].
    destruct (c7_state (l7_conn (k7_b w))) as [|ob|ob|ob tb|ob tb|ob|] eqn:Cb; try contradiction.
    + (* B has handed out its token *)
      cbn in Hp. subst ta.
      destruct (handshake_connect7 (k7_a w) (k7_b w) (k7_now w) oa ob tsa Ca Hna Sa Cb SubA DelA SubB DelB RA RB)
        as [xa' [xb' [S3 [D3 Er]]]].
      eapply (Fin PhConnect); [|reflexivity|exact S3|exact D3|exact Er|exact RB]. lia.
    + (* B is pending *)
      cbn in Hp. destruct Hp as [-> ->].
      destruct Hcb as [_ [_ Hsb]]. destruct (c7_send (l7_conn (k7_b w))) as [tsb|] eqn:Sb; [|contradiction].
      destruct (handshake_answer7 (k7_a w) (k7_b w) (k7_now w) oa ob tsb Ca Cb Sb SubA DelA SubB DelB RA)
        as [xa' [xb' [S3 [D3 Er]]]].
      eapply (Fin PhAnswer); [|reflexivity|exact S3|exact D3|exact Er|exact RB]. lia.
Qed.


(* ================= part 4: the first send takes the acceptor online ================= *)
Definition first_chunk7 (d : bytes) (v : bool) : chunk :=
  {| ch_data := d; ch_vital := if v then Some (1, false) else None |}.

Lemma hs_send7 now x own their d v :
  c7_state (l7_conn x) = Online7 (online_new own their) -> Z.of_nat (length d) <= MAX_PAYLOAD ->
  exists x1 o1, side_step7 now x (Op7Send d v) = Ok (x1, []) /\
    c7_state (l7_conn x1) = Online7 o1 /\ o_own o1 = own /\ o_their o1 = their /\ o_ack o1 = 0 /\ o_rr o1 = false /\
    o_packet o1 = {| pc_num := 1; pc_chunks := [first_chunk7 d v] |} /\
    l7_sub x1 = (if v then l7_sub x ++ [d] else l7_sub x) /\ l7_del x1 = l7_del x /\ l7_rand x1 = l7_rand x /\
    l7_ready x1 = l7_ready x.
Proof.
  destruct x as [[st sd] rnd sub del nvs nvr rdy ans]. cbn [l7_conn c7_state c7_send]. intros -> Hl.
  pose proof (Nat2Z.is_nonneg (length d)) as Hl0. unfold MAX_PAYLOAD in Hl.
  unfold side_step7, step7. cbn [l7_conn c7_state c7_send e_now l7_rand].
  unfold online_send.
  replace ((MAX_PAYLOAD <? Z.of_nat (length d)) || negb (p_v7 params7) && (2 ^ p_size_bits params7 <=? Z.of_nat (length d)))
    with false.
  2:{ symmetry. unfold params7, MAX_PAYLOAD. cbn [p_v7 p_size_bits negb andb]. rewrite orb_false_r. lia. }
  unfold can_fit_chunk. cbn [online_new o_packet pc_empty pc_num pc_len pc_chunks chunks_size].
  replace (negb ((0 <? 255) && (0 + chunk_hdr v + Z.of_nat (length d) <=? fit_limit params7))) with false.
  2:{ symmetry. unfold fit_limit, params7, MAX_PAYLOAD, chunk_hdr. cbn [p_v7]. destruct v; cbn [negb]; apply negb_false_iff; lia. }
  cbn [bind]. unfold online_queue, pc_write_chunk.
  cbn [online_new o_packet o_packet_nv o_seq pc_empty pc_num pc_len pc_chunks chunks_size].
  replace (2 ^ p_size_bits params7 <=? Z.of_nat (length d)) with false
    by (symmetry; unfold params7; cbn [p_size_bits]; change (2 ^ 12) with 4096; lia).
  replace (2048 <? Z.of_nat (length d)) with false by lia.
  unfold chunk_size, is_vital. cbn [ch_vital ch_data chunk_hdr].
  destruct v.
  - cbn [chunk_hdr]. replace (2048 <? 0 + (3 + Z.of_nat (length d))) with false by lia.
    cbn [Z.leb Z.compare bind].
    eexists _, _. split; [reflexivity|]. cbn. rewrite !app_nil_r.
    repeat split. change (ready_events []) with 0. lia.
  - cbn [chunk_hdr]. replace (2048 <? 0 + (2 + Z.of_nat (length d))) with false by lia.
    cbn [Z.leb Z.compare bind].
    eexists _, _. split; [reflexivity|]. cbn. rewrite !app_nil_r.
    repeat split. change (ready_events []) with 0. lia.
Qed.

Lemma hs_flush7 now x o tok d v :
  c7_state (l7_conn x) = Online7 o -> o_their o = tok -> o_ack o = 0 -> o_rr o = false ->
  o_packet o = {| pc_num := 1; pc_chunks := [first_chunk7 d v] |} -> Z.of_nat (length d) <= MAX_PAYLOAD ->
  exists x2, side_step7 now x Op7Flush = Ok (x2, [mkf7 x (DChunks tok 0 false 1 [first_chunk7 d v])]) /\
    c7_state (l7_conn x2) = Online7 (o_clear o) /\ keeps7 x x2 /\ l7_ready x2 = l7_ready x.
Proof.
  destruct x as [[st sd] rnd sub del nvs nvr rdy ans]. cbn [l7_conn c7_state c7_send]. intros -> Ht Ha Hr Hp Hl.
  pose proof (Nat2Z.is_nonneg (length d)) as Hl0. unfold MAX_PAYLOAD in Hl.
  unfold side_step7, step7. cbn [l7_conn c7_state c7_send e_now l7_rand].
  unfold online_flush, can_send. rewrite Hp, Hr, Ht, Ha. cbn [pc_num Z.eqb negb orb].
  replace (MAX_PACKETSIZE <? chunks_dgram_size params7 tok (pc_len {| pc_num := 1; pc_chunks := [first_chunk7 d v] |})) with false.
  2:{ symmetry. unfold chunks_dgram_size, pc_len, params7, MAX_PACKETSIZE, first_chunk7, chunk_size, is_vital, chunk_hdr.
      cbn [p_v7 p_header pc_chunks chunks_size ch_vital ch_data]. destruct v; unfold chunk_size, is_vital, chunk_hdr; cbn [ch_vital ch_data]; lia. }
  cbn [bind]. eexists. split; [reflexivity|]. cbn. rewrite !app_nil_r.
  repeat split. change (ready_events []) with 0. lia.
Qed.

Lemma hs_feed_first7 now y ob oa d v :
  c7_state (l7_conn y) = Pending7 ob oa ->
  exists y' o, side_step7 now y (Op7Feed (DChunks (Some ob) 0 false 1 [first_chunk7 d v])) = Ok (y', []) /\
    c7_state (l7_conn y') = Online7 o /\ o_own o = Some ob /\ o_their o = Some oa /\ l7_sub y' = l7_sub y /\
    l7_rand y' = l7_rand y /\ l7_ready y' = l7_ready y.
Proof.
  destruct y as [[st sd] rnd sub del nvs nvr rdy ans]. cbn [l7_conn c7_state c7_send]. intros ->.
  unfold side_step7, step7, feed7. cbn [l7_conn c7_state c7_send e_now e_rand l7_rand own_token andb].
  rewrite tokb_refl. cbn [negb orb Z.ltb Z.leb Z.compare SEQ_MOD bind c7_state c7_send].
  destruct v; cbn; (eexists _, _; split; [reflexivity|]; cbn; repeat split); lia.
Qed.

Definition first_send7 (d : bytes) (v : bool) : list llabel7 :=
  [L7App SA7 (Op7Send d v); L7App SA7 Op7Flush] ++ drain7 SA7 1.

Lemma first_send_link7 xa xb now oa ob d v :
  c7_state (l7_conn xa) = Online7 (online_new (Some oa) (Some ob)) -> c7_state (l7_conn xb) = Pending7 ob oa ->
  l7_sub xa = [] -> l7_del xa = [] -> l7_sub xb = [] -> l7_del xb = [] ->
  rand_ok7 {| e_now := now; e_rand := l7_rand xb |} -> Z.of_nat (length d) <= MAX_PAYLOAD ->
  exists xa' xb' o1 o2,
    sched7 (mkl7 xa xb [] [] now) (first_send7 d v) (mkl7 xa' xb' [] [] now) /\
    c7_state (l7_conn xa') = Online7 o1 /\ c7_state (l7_conn xb') = Online7 o2 /\
    o_their o1 = o_own o2 /\ o_their o2 = o_own o1 /\
    can_send o1 = false /\
    l7_sub xa' = (if v then [d] else []) /\ l7_sub xb' = [] /\
    l7_rand xa' = l7_rand xa /\ l7_rand xb' = l7_rand xb /\ l7_ready xa' = l7_ready xa.
Proof.
  intros Ca Cb SubA DelA SubB DelB Rb Hl.
  destruct (hs_send7 now xa (Some oa) (Some ob) d v Ca Hl) as [x1 [o1 [T1 [C1 [Own1 [Th1 [Ak1 [Rr1 [Pk1 [Sub1 [Del1 [Rn1 Ry1]]]]]]]]]]]].
  destruct (hs_flush7 now x1 o1 (Some ob) d v C1 Th1 Ak1 Rr1 Pk1 Hl) as [x2 [T2 [C2 [[K1 [K2 [K3 [K4 K5]]]] Ry2]]]].
  destruct (hs_feed_first7 now xb ob oa d v Cb) as [y1 [o2 [T3 [C3 [Own3 [Th3 [Sub3 [Rn3 Ry3]]]]]]]].
  exists x2, y1, (o_clear o1), o2. split; [|split; [exact C2|split; [exact C3|]]].
  - unfold first_send7.
    eapply sched_cons7; [|apply lstep_appA7, T1|].
    { cbn [admissible7 get7 mkl7 k7_a k7_now]. split; [exact I|]. split; [eexists; exact Ca|].
      unfold window_ok7. rewrite Ca. destruct v; [cbn; lia|exact I]. }
    rewrite app_nil_r.
    eapply sched_cons7; [|apply lstep_appA7, T2|].
    { cbn [admissible7 get7 mkl7 k7_a k7_now]. split; [exact I|]. split; [eexists; exact C1|exact I]. }
    cbn [app]. eapply drainA_nil7; [|exact Rb|exact T3].
    split.
    + cbn [mkf7 f_c]. rewrite SubB, Del1, DelA. cbn. lia.
    + intros c s r Hin Hv. cbn [mkf7 f_d f_n dgram_chunks] in *. destruct Hin as [<-|[]].
      rewrite Sub1, SubA, DelB. destruct v; cbn in Hv; [|discriminate]. injection Hv as <- _. cbn. lia.
  - split; [cbn; congruence|]. split; [cbn; congruence|]. split; [reflexivity|].
    split; [rewrite K2, Sub1, SubA; destruct v; reflexivity|].
    split; [congruence|]. split; [congruence|]. split; congruence.
Qed.


(* ---------- Ready is never taken back ---------- *)
Lemma ready_events_nonneg7 evs : 0 <= ready_events evs.
Proof. unfold ready_events. apply zlen_nonneg. Qed.

Lemma side_step_ready7 now x op x' fl : side_step7 now x op = Ok (x', fl) -> l7_ready x <= l7_ready x'.
Proof.
  intros H. apply side_step_inv7 in H as [out [_ [-> _]]]. cbn [after7 l7_ready].
  pose proof (ready_events_nonneg7 (out7_events out)). lia.
Qed.

Lemma link_step_ready7 w l w' s : link_step7 w l = Ok w' -> l7_ready (get7 w s) <= l7_ready (get7 w' s).
Proof.
  destruct l as [t o|dt|from k|from k]; cbn [link_step7].
  - destruct (side_step7 (k7_now w) (get7 w t) o) as [[x fl]| | |] eqn:E; try discriminate.
    intros H; injection H as <-. apply side_step_ready7 in E. destruct t, s; cbn [get7 set_side7 k7_a k7_b] in *; lia.
  - intros H; injection H as <-. destruct s; cbn; lia.
  - destruct (nth_error (bag7 w from) k) as [f|]; [|intros H; injection H as <-; lia].
    destruct (side_step7 (k7_now w) (get7 w (other7 from)) (Op7Feed (f_d f))) as [[x fl]| | |] eqn:E; try discriminate.
    intros H; injection H as <-. apply side_step_ready7 in E. destruct from, s; cbn [get7 other7 set_side7 k7_a k7_b] in *; lia.
  - intros H; injection H as <-. destruct from, s; cbn; lia.
Qed.

Lemma link_run_ready7 ls : forall w w' s, link_run7 w ls = Ok w' -> l7_ready (get7 w s) <= l7_ready (get7 w' s).
Proof.
  induction ls as [|l ls IH]; intros w w' s H; cbn [link_run7] in H.
  - injection H as <-. lia.
  - destruct (link_step7 w l) as [w1| | |] eqn:E; try discriminate.
    pose proof (link_step_ready7 _ _ _ s E). pose proof (IH _ _ s H). lia.
Qed.

(* ---------- losses of nothing can be left out of a schedule ---------- *)
Lemma drops_noop7 s n w : bag7 w s = [] -> link_run7 w (drops7 s n) = Ok w.
Proof.
  intros Hb. destruct w as [xa xb ab ba now].
  destruct s; cbn [bag7 k7_ab k7_ba] in Hb; subst; (induction n as [|n IH]; [reflexivity|exact IH]).
Qed.

Lemma sched_split7 l1 : forall l2 w w', sched7 w (l1 ++ l2) w' -> exists w1, sched7 w l1 w1 /\ sched7 w1 l2 w'.
Proof.
  induction l1 as [|l l1 IH]; intros l2 w w' [A R]; cbn [app] in *.
  - exists w. split; [apply sched_nil7|split; assumption].
  - cbn [admissible_run7 link_run7] in A, R. destruct A as [Al A].
    destruct (link_step7 w l) as [wm| | |] eqn:E; try discriminate.
    destruct (IH l2 wm w' (conj A R)) as [w1 [S1 S2]]. exists w1. split; [|exact S2].
    eapply sched_cons7; eassumption.
Qed.

Lemma flush_idle7 now x o x' fl : c7_state (l7_conn x) = Online7 o -> can_send o = false ->
  side_step7 now x Op7Flush = Ok (x', fl) -> fl = [].
Proof.
  intros Hon Hc H. destruct (flush_side7 now x o x' fl Hon H) as [o' [ds [Ef [_ [-> _]]]]].
  unfold online_flush in Ef. rewrite Hc in Ef. cbn in Ef. injection Ef as _ <-. reflexivity.
Qed.

(* from a state with an empty network in which A has nothing to flush, the healing schedule needs no losses *)
Lemma heal_no_loss7 w oa na nb dt1 n1 dt2 n2 dt3 n3 w' :
  c7_state (l7_conn (k7_a w)) = Online7 oa -> can_send oa = false -> k7_ab w = [] -> k7_ba w = [] ->
  sched7 w (heal_schedule7 na nb dt1 n1 dt2 n2 dt3 n3) w' -> sched7 w (heal_schedule7 0 0 dt1 n1 dt2 n2 dt3 n3) w'.
Proof.
  intros Hon Hc Hab Hba H. unfold heal_schedule7 in *.
  apply sched_split7 in H as [w1 [S1 H]]. apply sched_split7 in H as [w2 [S2 H]]. apply sched_split7 in H as [w3 [S3 H]].
  assert (B1 : bag7 w1 SA7 = [] /\ bag7 w1 SB7 = []).
  { destruct S1 as [_ R]. cbn [link_run7 link_step7 get7] in R.
    destruct (side_step7 (k7_now w) (k7_a w) Op7Flush) as [[x fl]| | |] eqn:E; try discriminate.
    injection R as <-. rewrite (flush_idle7 _ _ _ _ _ Hon Hc E). cbn. rewrite Hab, Hba. split; reflexivity. }
  destruct B1 as [B1a B1b].
  assert (E2 : w2 = w1). { destruct S2 as [_ R]. rewrite (drops_noop7 SA7 na w1 B1a) in R. injection R as <-. reflexivity. }
  subst w2.
  assert (E3 : w3 = w1). { destruct S3 as [_ R]. rewrite (drops_noop7 SB7 nb w1 B1b) in R. injection R as <-. reflexivity. }
  subst w3.
  cbn [drops7 repeat]. change (sched7 w ([L7App SA7 Op7Flush] ++ speak7 SA7 dt1 ++ drain7 SA7 n1 ++ speak7 SB7 dt2 ++ drain7 SB7 n2 ++ speak7 SA7 dt3 ++ drain7 SA7 n3) w').
  eapply sched_app7; [exact S1|exact H].
Qed.

(* ================= part 5: handshake, first send, healing ================= *)
Definition progress_schedule7 (ph : hs_phase7) (na nb : nat) (dt : Z) (d : bytes) (v : bool)
    (dt1 : Z) (n1 : nat) (dt2 : Z) (n2 : nat) (dt3 : Z) (n3 : nat) : list llabel7 :=
  hs_schedule7 ph na nb dt ++ first_send7 d v ++ heal_schedule7 0 0 dt1 n1 dt2 n2 dt3 n3.

Theorem progress_link7 w d v :
  link_inv7 w -> hs_pair7 (c7_state (l7_conn (k7_a w))) (c7_state (l7_conn (k7_b w))) ->
  hs_rand_ok7 w -> Z.of_nat (length d) <= MAX_PAYLOAD ->
  exists ph na nb dt dt1 n1 dt2 n2 dt3 n3 w' oa' ob',
    0 <= dt /\ 0 <= dt1 /\ 0 <= dt2 /\ 0 <= dt3 /\
    sched7 w (progress_schedule7 ph na nb dt d v dt1 n1 dt2 n2 dt3 n3) w' /\ link_inv7 w' /\
    l7_ready (k7_a w') = 1 /\
    l7_sub (k7_a w') = (if v then [d] else []) /\ l7_sub (k7_b w') = [] /\
    l7_del (k7_b w') = l7_sub (k7_a w') /\ l7_del (k7_a w') = l7_sub (k7_b w') /\
    c7_state (l7_conn (k7_a w')) = Online7 oa' /\ c7_state (l7_conn (k7_b w')) = Online7 ob' /\
    o_queue oa' = [] /\ o_queue ob' = [] /\
    pc_chunks (o_packet oa') = [] /\ pc_chunks (o_packet ob') = [] /\
    o_rr oa' = false /\ o_rr ob' = false /\ k7_ab w' = [] /\ k7_ba w' = [].
Proof.
  intros Hi Hp Hr Hl.
  destruct (handshake_link7 w Hi Hp Hr)
    as [ph [na [nb [dt [w1 [oa [ob [Hdt [S1 [I1 [_ [D1 [Bab [Bba [SubA [DelA [SubB [DelB [RdyA [Ra1 Rb1]]]]]]]]]]]]]]]]]]]].
  destruct D1 as [Da Db [K1 [K2 [K3 [K4 [K5 [K6 [K7 K8]]]]]]] [Ry1 Ry2] An1 Rn1].
  assert (E1 : w1 = mkl7 (k7_a w1) (k7_b w1) [] [] (k7_now w1)) by (rewrite (link_eta7 w1) at 1; rewrite Bab, Bba; reflexivity).
  destruct (first_send_link7 (k7_a w1) (k7_b w1) (k7_now w1) oa ob d v Da Db) as
    [xa2 [xb2 [o1 [o2 [S2 [Ca2 [Cb2 [Tk1 [Tk2 [Cs2 [Sub2a [Sub2b [Rn2a [Rn2b Ry2a]]]]]]]]]]]]]]; try congruence.
  set (w2 := mkl7 xa2 xb2 [] [] (k7_now w1)) in *.
  rewrite <- E1 in S2.
  pose proof (sched_inv7 _ _ _ I1 S2) as I2.
  destruct (heal_link7 w2 o1 o2 I2 Ca2 Cb2 Tk1 Tk2) as
    [na' [nb' [dt1 [n1 [dt2 [n2 [dt3 [n3 [w' [oa' [ob' [D1 [D2 [D3 [Hadm [Hrun [I3 [Sa [Sb [Db' [Da' [Oa [Ob [Qa [Qb [Pa [Pb [Rra [Rrb [Ba Bb]]]]]]]]]]]]]]]]]]]]]]]]]]]]]].
  { unfold w2. cbn [mkl7 k7_a k7_now]. rewrite Rn2a. exact Ra1. }
  { unfold w2. cbn [mkl7 k7_b k7_now]. rewrite Rn2b. exact Rb1. }
  pose proof (heal_no_loss7 w2 o1 na' nb' dt1 n1 dt2 n2 dt3 n3 w' Ca2 Cs2 eq_refl eq_refl (conj Hadm Hrun)) as S3.
  exists ph, na, nb, dt, dt1, n1, dt2, n2, dt3, n3, w', oa', ob'.
  do 4 (split; [assumption|]).
  split; [unfold progress_schedule7; eapply sched_app7; [exact S1|]; eapply sched_app7; [exact S2|exact S3]|].
  split; [exact I3|].
  split.
  { pose proof (link_run_ready7 _ w2 w' SA7 (proj2 S3)) as Hm. cbn [get7] in Hm.
    pose proof (sv7_ready _ _ _ _ _ (linv_side7 w' SA7 I3)) as Hb. cbn [get7] in Hb.
    assert (l7_ready (k7_a w2) = 1) by (unfold w2; cbn [mkl7 k7_a]; rewrite Ry2a, Ry1, RdyA; reflexivity). lia. }
  split; [rewrite Sa; exact Sub2a|]. split; [rewrite Sb; exact Sub2b|].
  repeat (split; [assumption|]). assumption.
Qed.


(* ================= part 6: ticks and flushes alone never take the acceptor online ================= *)
(* a handshake datagram: a control message other than Close *)
Definition hs_ctl7 (d : dgram) : Prop :=
  match d with DControl _ _ (Close _) => False | DControl _ _ _ => True | _ => False end.
(* the connector is mid-handshake, or online with nothing to send *)
Definition connector_idle7 (st : state7) : Prop :=
  match st with
  | Token7 _ | Connecting7 _ _ => True
  | Online7 o => pc_num (o_packet o) = 0 /\ o_rr o = false /\ o_queue o = []
  | _ => False
  end.
Definition acceptor_waits7 (st : state7) : Prop :=
  match st with Unconnected7 | PendingConnect7 _ | Pending7 _ _ => True | _ => False end.
Definition quiet_op7 (o : op7) : Prop :=
  match o with Op7Tick | Op7Flush => True | Op7Feed d => hs_ctl7 d | _ => False end.

Lemma idle_can_send7 o : pc_num (o_packet o) = 0 -> o_rr o = false -> can_send o = false.
Proof. intros H1 H2. unfold can_send. rewrite H1, H2. reflexivity. Qed.

(* a tick action in a handshake state: the state's datagram is repeated *)
Lemma tick_action_hs7 c e out : tick_action7 c e = Ok out ->
  match c7_state c with Online7 o => can_send o = false | Disconnected7 => False | _ => True end ->
  c7_state (out7_conn out) = c7_state c /\ Forall hs_ctl7 (out7_sent out) /\ out7_events out = [].
Proof.
  intros H Hc. destruct c as [st sd]. cbn [c7_state] in *.
  destruct st as [|own|own|own their|own their|o|]; try contradiction.
  - unfold tick_action7 in H. cbn [c7_state] in H. injection H as <-. cbn. repeat split. constructor.
  - ctl7 H. cbn. repeat split. constructor; [exact I|constructor].
  - unfold tick_action7 in H. cbn [c7_state] in H. injection H as <-. cbn. repeat split. constructor.
  - ctl7 H. cbn. repeat split. constructor; [exact I|constructor].
  - ctl7 H. cbn. repeat split. constructor; [exact I|constructor].
  - unfold tick_action7 in H. cbn [c7_state] in H. rewrite Hc in H. fold (tick_action7) in H.
    unfold send_control7 in H. cbn [c7_state their_token bind] in H.
    match type of H with context [send_control_with7 ?st ?c ?t] =>
      destruct (send_control_with7 st c t) as [ds| | |] eqn:Esc; cbn [bind] in H; try discriminate;
      apply send_control_with7_shape in Esc; subst ds; injection H as <- end.
    cbn. repeat split. constructor; [exact I|constructor].
Qed.

Lemma connector_idle7_step c e o out : connector_idle7 (c7_state c) -> quiet_op7 o -> step7 c e o = Ok out ->
  connector_idle7 (c7_state (out7_conn out)) /\ Forall hs_ctl7 (out7_sent out).
Proof.
  destruct c as [st sd]. cbn [c7_state]. intros Hi Ho H.
  destruct o as [|data vital| | |reason|data|d| |]; try contradiction; unfold step7 in H; cbn [c7_state c7_send] in H.
  - (* flush *)
    destruct st as [|own|own|own their|own their|on|]; try contradiction; try discriminate.
    destruct Hi as [H1 [H2 H3]]. unfold online_flush in H. rewrite (idle_can_send7 on H1 H2) in H. cbn [negb bind] in H.
    injection H as <-. cbn. split; [repeat split; assumption|constructor].
  - (* tick *)
    assert (Hrs : match st with
                  | Online7 o => match queue_back (o_queue o) with Some rc => triggered (rc_next rc) (e_now e) | None => false end
                  | _ => false end = false).
    { destruct st as [|own|own|own their|own their|on|]; try reflexivity. destruct Hi as [_ [_ ->]]. reflexivity. }
    rewrite Hrs in H. destruct (triggered sd (e_now e)).
    + apply tick_action_hs7 in H as [E [S _]].
      * cbn [c7_state] in E. rewrite E. split; assumption.
      * cbn [c7_state]. destruct st as [|own|own|own their|own their|on|]; try contradiction; try exact I.
        destruct Hi as [H1 [H2 _]]. apply idle_can_send7; assumption.
    + injection H as <-. cbn. split; [exact Hi|constructor].
  - (* a handshake datagram arrives *)
    destruct d as [t1 t2 pl|tk ack ctl|tk ack rr n cs]; cbn [quiet_op7 hs_ctl7] in Ho; try contradiction.
    unfold feed7 in H. cbn [c7_state c7_send] in H.
    match type of H with context [if negb (tokb ?a ?b) then _ else _] => destruct (negb (tokb a b)) end.
    { injection H as <-. cbn. split; [exact Hi|constructor]. }
    destruct ((ack <? 0) || (SEQ_MOD <=? ack)); [discriminate|].
    destruct st as [|own|own|own their|own their|on|]; try contradiction.
    + destruct ctl as [|resp| | |reason|resp]; try contradiction;
        try (injection H as <-; cbn; split; [exact I|constructor]).
      apply tick_action_hs7 in H as [E [S _]]; [|exact I]. cbn [c7_state] in E. rewrite E. split; [exact I|exact S].
    + destruct ctl as [|resp| | |reason|resp]; try contradiction;
        try (injection H as <-; cbn; split; [exact I|constructor]).
      injection H as <-. cbn. split; [repeat split|constructor].
    + destruct Hi as [H1 [H2 H3]]. rewrite (ack_empty on ack H3) in H.
      destruct ctl as [|resp| | |reason|resp]; try contradiction;
        (injection H as <-; cbn; split; [repeat split; assumption|constructor]).
Qed.

Lemma acceptor_waits7_step c e o out : acceptor_waits7 (c7_state c) -> quiet_op7 o -> step7 c e o = Ok out ->
  acceptor_waits7 (c7_state (out7_conn out)) /\ Forall hs_ctl7 (out7_sent out).
Proof.
  destruct c as [st sd]. cbn [c7_state]. intros Hi Ho H.
  destruct o as [|data vital| | |reason|data|d| |]; try contradiction; unfold step7 in H; cbn [c7_state c7_send] in H.
  - destruct st; try contradiction; discriminate.
  - assert (Hrs : match st with
                  | Online7 o => match queue_back (o_queue o) with Some rc => triggered (rc_next rc) (e_now e) | None => false end
                  | _ => false end = false) by (destruct st; try contradiction; reflexivity).
    rewrite Hrs in H. destruct (triggered sd (e_now e)).
    + apply tick_action_hs7 in H as [E [S _]].
      * cbn [c7_state] in E. rewrite E. split; assumption.
      * cbn [c7_state]. destruct st; try contradiction; exact I.
    + injection H as <-. cbn. split; [exact Hi|constructor].
  - destruct d as [t1 t2 pl|tk ack ctl|tk ack rr n cs]; cbn [quiet_op7 hs_ctl7] in Ho; try contradiction.
    unfold feed7 in H. cbn [c7_state c7_send] in H.
    match type of H with context [if negb (tokb ?a ?b) then _ else _] => destruct (negb (tokb a b)) end.
    { injection H as <-. cbn. split; [exact Hi|constructor]. }
    destruct ((ack <? 0) || (SEQ_MOD <=? ack)); [discriminate|].
    destruct st as [|own|own|own their|own their|on|]; try contradiction.
    + destruct ctl as [|resp| | |reason|resp]; try contradiction;
        try (injection H as <-; cbn; split; [exact I|constructor]).
      destruct (token_random7 (e_rand e)) as [[nt rnd']| | |]; cbn [bind] in H; try discriminate.
      match type of H with context [send_control_with7 ?st ?c ?t] =>
        destruct (send_control_with7 st c t) as [ds| | |] eqn:Esc; cbn [bind] in H; try discriminate;
        apply send_control_with7_shape in Esc; subst ds; injection H as <- end.
      cbn. split; [exact I|]. constructor; [exact I|constructor].
    + destruct ctl as [|resp| | |reason|resp]; try contradiction;
        try (injection H as <-; cbn; split; [exact I|constructor]).
      * destruct resp as [t|]; [|injection H as <-; cbn; split; [exact I|constructor]].
        apply tick_action_hs7 in H as [E [S _]]; [|exact I]. cbn [c7_state] in E. rewrite E. split; [exact I|exact S].
      * match type of H with context [send_control_with7 ?st ?c ?t] =>
          destruct (send_control_with7 st c t) as [ds| | |] eqn:Esc; cbn [bind] in H; try discriminate;
          apply send_control_with7_shape in Esc; subst ds; injection H as <- end.
        cbn. split; [exact I|]. constructor; [exact I|constructor].
    + destruct ctl as [|resp| | |reason|resp]; try contradiction;
        (injection H as <-; cbn; split; [exact I|constructor]).
Qed.

Definition hs_bag7 (fl : list flight) : Prop := Forall (fun f => hs_ctl7 (f_d f)) fl.

(* the connector has nothing to send, the acceptor waits, only handshake datagrams are in flight *)
Definition no_chunks7 (w : link7) : Prop :=
  connector_idle7 (c7_state (l7_conn (k7_a w))) /\ acceptor_waits7 (c7_state (l7_conn (k7_b w))) /\
  hs_bag7 (k7_ab w) /\ hs_bag7 (k7_ba w).

Lemma hs_bag_new7 x ds : Forall hs_ctl7 ds -> hs_bag7 (map (mkf7 x) ds).
Proof. intros H. unfold hs_bag7. apply Forall_map. exact H. Qed.

Lemma hs_bag_nth7 fl k f : hs_bag7 fl -> nth_error fl k = Some f -> hs_ctl7 (f_d f).
Proof. intros H Hk. unfold hs_bag7 in H. rewrite Forall_forall in H. apply H. eapply nth_error_In, Hk. Qed.

Theorem no_chunks7_step w l w' : no_chunks7 w -> heal_label7 l -> link_step7 w l = Ok w' -> no_chunks7 w'.
Proof.
  intros [Ha [Hb [Hab Hba]]] Hl H. destruct l as [s o|dt|from k|from k]; cbn [link_step7] in H.
  - assert (Hq : quiet_op7 o) by (destruct o; try contradiction; exact I).
    destruct (side_step7 (k7_now w) (get7 w s) o) as [[x fl]| | |] eqn:E; try discriminate. injection H as <-.
    apply side_step_inv7 in E as [out [Hs [-> ->]]]. change (l7_conn (after7 (get7 w s) o out)) with (out7_conn out).
    destruct s; cbn [get7] in Hs; unfold no_chunks7, set_side7; cbn [k7_a k7_b k7_ab k7_ba after7 l7_conn].
    + destruct (connector_idle7_step _ _ _ _ Ha Hq Hs) as [P1 P2].
      split; [exact P1|]. split; [exact Hb|]. split; [|exact Hba]. apply Forall_app. split; [exact Hab|apply hs_bag_new7, P2].
    + destruct (acceptor_waits7_step _ _ _ _ Hb Hq Hs) as [P1 P2].
      split; [exact Ha|]. split; [exact P1|]. split; [exact Hab|]. apply Forall_app. split; [exact Hba|apply hs_bag_new7, P2].
  - injection H as <-. exact (conj Ha (conj Hb (conj Hab Hba))).
  - destruct (nth_error (bag7 w from) k) as [f|] eqn:Ek; [|injection H as <-; exact (conj Ha (conj Hb (conj Hab Hba)))].
    destruct (side_step7 (k7_now w) (get7 w (other7 from)) (Op7Feed (f_d f))) as [[x fl]| | |] eqn:E; try discriminate.
    injection H as <-. apply side_step_inv7 in E as [out [Hs [-> ->]]].
    destruct from; cbn [get7 other7 bag7] in *; unfold no_chunks7, set_side7; cbn [k7_a k7_b k7_ab k7_ba after7 l7_conn].
    + pose proof (hs_bag_nth7 _ _ _ Hab Ek) as Hq.
      destruct (acceptor_waits7_step _ _ (Op7Feed (f_d f)) _ Hb Hq Hs) as [P1 P2].
      split; [exact Ha|]. split; [exact P1|]. split; [exact Hab|]. apply Forall_app. split; [exact Hba|apply hs_bag_new7, P2].
    + pose proof (hs_bag_nth7 _ _ _ Hba Ek) as Hq.
      destruct (connector_idle7_step _ _ (Op7Feed (f_d f)) _ Ha Hq Hs) as [P1 P2].
      split; [exact P1|]. split; [exact Hb|]. split; [|exact Hba]. apply Forall_app. split; [exact Hab|apply hs_bag_new7, P2].
  - injection H as <-. unfold no_chunks7. destruct from; cbn [k7_a k7_b k7_ab k7_ba].
    + split; [exact Ha|]. split; [exact Hb|]. split; [apply remove_nth7_forall, Hab|exact Hba].
    + split; [exact Ha|]. split; [exact Hb|]. split; [exact Hab|apply remove_nth7_forall, Hba].
Qed.

Theorem no_chunks7_run ls : forall w w', no_chunks7 w -> Forall heal_label7 ls -> link_run7 w ls = Ok w' -> no_chunks7 w'.
Proof.
  induction ls as [|l ls IH]; intros w w' Hn Hl H; cbn [link_run7] in H.
  - injection H as <-. exact Hn.
  - inversion Hl as [|l0 ls0 Hl1 Hl2]; subst. destruct (link_step7 w l) as [w1| | |] eqn:E; try discriminate.
    eapply IH; [eapply no_chunks7_step; eassumption|exact Hl2|exact H].
Qed.


(* ================= part 7: how one call moves an endpoint, and what it emits ================= *)
Definition hdr7 (tk : option token) : token := match tk with Some t => t | None => TOKEN_NONE end.
Definition online_dgram7 (d : dgram) : Prop :=
  match d with DChunks _ _ _ _ _ | DControl _ _ KeepAlive | DConnless _ _ _ => True | _ => False end.

(* the transitions of net/src/connection7.rs: old state, new state, the datagram fed (if any), the
   datagrams emitted. There is no way back; every state emits its own kind of datagram *)
Definition trans7 (fed : option dgram) (st st' : state7) (sent : list dgram) : Prop :=
  match st, st' with
  | Unconnected7, Unconnected7 => sent = []
  | Unconnected7, Token7 own => fed = None /\ sent = [DControl (Some TOKEN_NONE) 0 (TokenMsg own)]
  | Unconnected7, PendingConnect7 own =>
    exists tk ack their, fed = Some (DControl tk ack (TokenMsg their)) /\ sent = [DControl (Some their) 0 (TokenMsg own)]
  | Token7 own, Token7 own' => own' = own /\ (sent = [] \/ sent = [DControl (Some TOKEN_NONE) 0 (TokenMsg own)])
  | Token7 own, Connecting7 own' their =>
    own' = own /\ (exists tk ack, fed = Some (DControl tk ack (TokenMsg their)) /\ hdr7 tk = own) /\
    sent = [DControl (Some their) 0 (Connect (Some own))]
  | PendingConnect7 own, PendingConnect7 own' =>
    own' = own /\ (sent = [] \/ exists their, sent = [DControl (Some their) 0 (TokenMsg own)])
  | PendingConnect7 own, Pending7 own' their =>
    own' = own /\ (exists tk ack, fed = Some (DControl tk ack (Connect (Some their)))) /\
    sent = [DControl (Some their) 0 Accept]
  | Connecting7 own their, Connecting7 own' their' =>
    own' = own /\ their' = their /\ (sent = [] \/ sent = [DControl (Some their) 0 (Connect (Some own))])
  | Connecting7 own their, Online7 o => (exists tk ack, fed = Some (DControl tk ack Accept)) /\ sent = []
  | Pending7 own their, Pending7 own' their' =>
    own' = own /\ their' = their /\ (sent = [] \/ sent = [DControl (Some their) 0 Accept])
  | Pending7 own their, Online7 o => (exists tk ack rr n cs, fed = Some (DChunks tk ack rr n cs)) /\ sent = []
  | Online7 _, Online7 _ => Forall online_dgram7 sent
  | Disconnected7, Disconnected7 => sent = []
  | Disconnected7, _ => False
  | _, Disconnected7 => sent = [] \/ exists tk a r, sent = [DControl tk a (Close r)]
  | _, _ => False
  end.

Lemma trans7_refl fed st : trans7 fed st st [].
Proof. destruct st; cbn; auto. Qed.

Lemma benign_online7 ds : Forall benign ds -> Forall online_dgram7 ds.
Proof.
  intros H. eapply Forall_impl; [|exact H]. intros d.
  destruct d as [t1 t2 p|tk a c|tk a rr n cs]; cbn; try (intros; exact I). destruct c; cbn; intros Hb; try exact I; contradiction.
Qed.

(* what a handshake state repeats when its timer runs out *)
Definition tick_msg7 (st : state7) : list dgram :=
  match st with
  | Token7 own => [DControl (Some TOKEN_NONE) 0 (TokenMsg own)]
  | Connecting7 own their => [DControl (Some their) 0 (Connect (Some own))]
  | Pending7 own their => [DControl (Some their) 0 Accept]
  | _ => []
  end.

Lemma tick_action7_msg c e out : tick_action7 c e = Ok out -> (forall o, c7_state c <> Online7 o) ->
  c7_state (out7_conn out) = c7_state c /\ out7_sent out = tick_msg7 (c7_state c).
Proof.
  intros H Hc. destruct c as [st sd]. cbn [c7_state] in *.
  destruct st as [|own|own|own their|own their|o|].
  - unfold tick_action7 in H. cbn [c7_state] in H. injection H as <-. cbn. split; reflexivity.
  - ctl7 H. cbn. split; reflexivity.
  - unfold tick_action7 in H. cbn [c7_state] in H. injection H as <-. cbn. split; reflexivity.
  - ctl7 H. cbn. split; reflexivity.
  - ctl7 H. cbn. split; reflexivity.
  - exfalso. eapply Hc. reflexivity.
  - unfold tick_action7 in H. cbn [c7_state] in H. injection H as <-. cbn. split; reflexivity.
Qed.

Lemma tick_action7_trans c e out fed : tick_action7 c e = Ok out ->
  trans7 fed (c7_state c) (c7_state (out7_conn out)) (out7_sent out).
Proof.
  intros H. destruct (c7_state c) as [|own|own|own their|own their|o|] eqn:Es.
  1-5,7: (destruct (tick_action7_msg c e out H) as [E1 E2]; [intros o; rewrite Es; discriminate|]);
    rewrite E1, E2, Es; cbn; auto.
  destruct c as [st sd]. cbn [c7_state] in Es. subst st. unfold tick_action7 in H. cbn [c7_state] in H.
  destruct (can_send o).
  - destruct (online_flush params7 o) as [[o' d]| | |] eqn:Ef; cbn [bind] in H; try discriminate.
    injection H as <-. cbn. apply benign_online7. apply flush_toks in Ef as [_ [_ E3]]. exact E3.
  - unfold send_control7 in H. cbn [c7_state their_token bind] in H.
    match type of H with context [send_control_with7 ?st ?c ?t] =>
      destruct (send_control_with7 st c t) as [ds| | |] eqn:Esc; cbn [bind] in H; try discriminate;
      apply send_control_with7_shape in Esc; subst ds; injection H as <- end.
    cbn. constructor; [exact I|constructor].
Qed.

Lemma tokb_true a b : tokb a b = true -> a = b.
Proof. unfold tokb. destruct (list_eq_dec Z.eq_dec a b); [auto|discriminate]. Qed.

Definition fed_of (o : op7) : option dgram := match o with Op7Feed d => Some d | _ => None end.

Theorem step7_trans c e o out :
  (app_op7 o \/ exists d, o = Op7Feed d) -> step7 c e o = Ok out ->
  trans7 (fed_of o) (c7_state c) (c7_state (out7_conn out)) (out7_sent out).
Proof.
  intros Ho H. destruct c as [st sd]. unfold step7 in H. cbn [c7_state c7_send] in *.
  destruct o as [|data vital| | |reason|data|d| |]; cbn [fed_of].
  - (* connect *)
    destruct st; try discriminate.
    destruct (token_random7 (e_rand e)) as [[t rnd']| | |]; cbn [bind] in H; try discriminate.
    destruct (tick_action7_msg _ _ _ H) as [E1 E2]; [intros o; discriminate|]. cbn [c7_state] in E1, E2.
    rewrite E1, E2. cbn. split; reflexivity.
  - (* send *)
    destruct st as [|own|own|own their|own their|o|]; try discriminate.
    destruct (online_send params7 (e_now e) o data vital) as [[[o' ds] r]| | |] eqn:Es; cbn [bind] in H; try discriminate.
    injection H as <-. cbn. apply send_toks in Es as [_ [_ E3]]. apply benign_online7, E3.
  - (* flush *)
    destruct st as [|own|own|own their|own their|o|]; try discriminate.
    destruct (online_flush params7 o) as [[o' ds]| | |] eqn:Ef; cbn [bind] in H; try discriminate.
    injection H as <-. cbn. apply flush_toks in Ef as [_ [_ E3]]. apply benign_online7, E3.
  - (* tick *)
    destruct (match st with
              | Online7 o => match queue_back (o_queue o) with Some rc => triggered (rc_next rc) (e_now e) | None => false end
              | _ => false end) eqn:Ers.
    + destruct st as [|own|own|own their|own their|o|]; try discriminate Ers. unfold do_resend7 in H.
      destruct (online_resend params7 (e_now e) o) as [[[o' ds] ts]| | |] eqn:Er; cbn [bind] in H; try discriminate.
      injection H as <-. cbn. apply resend_toks in Er as [_ [_ E3]]. apply benign_online7, E3.
    + destruct (triggered sd (e_now e)).
      * apply (tick_action7_trans _ _ _ None) in H. exact H.
      * injection H as <-. cbn. apply trans7_refl.
  - (* disconnect *)
    destruct st as [|own|own|own their|own their|o|]; try discriminate; (destruct (existsb _ reason); [discriminate|]);
      unfold send_control7 in H;
      (match type of H with context [send_control_with7 ?st ?c ?t] =>
         destruct (send_control_with7 st c t) as [ds| | |] eqn:Esc; cbn [bind] in H; try discriminate;
         apply send_control_with7_shape in Esc; subst ds; injection H as <- end);
      cbn; right; eexists _, _, _; reflexivity.
  - (* connless *)
    destruct st as [|own|own|own their|own their|o|]; try discriminate.
    destruct (MAX_PAYLOAD <? _); injection H as <-; cbn; repeat constructor.
  - (* feed *)
    unfold feed7 in H. cbn [c7_state c7_send] in H.
    destruct d as [t1 t2 pl|tk ack ctl|tk ack rr n cs].
    + destruct (negb _); [injection H as <-; apply trans7_refl|].
      destruct (negb _); injection H as <-; apply trans7_refl.
    + match type of H with context [if negb (tokb ?a ?b) then _ else _] => destruct (tokb a b) eqn:Etk end; cbn [negb] in H;
        [|injection H as <-; apply trans7_refl].
      destruct ((ack <? 0) || (SEQ_MOD <=? ack)); [discriminate|].
      destruct st as [|own|own|own their|own their|o|].
      * (* unconnected *)
        destruct ctl as [|resp| | |reason|tm]; try (injection H as <-; cbn; auto; fail).
        destruct (token_random7 (e_rand e)) as [[nt rnd']| | |]; cbn [bind] in H; try discriminate.
        match type of H with context [send_control_with7 ?st ?c ?t] =>
          destruct (send_control_with7 st c t) as [ds| | |] eqn:Esc; cbn [bind] in H; try discriminate;
          apply send_control_with7_shape in Esc; subst ds; injection H as <- end.
        cbn. eexists _, _, _. split; reflexivity.
      * (* token requested *)
        destruct ctl as [|resp| | |reason|tm]; try (injection H as <-; cbn; auto; fail).
        destruct (tick_action7_msg _ _ _ H) as [E1 E2]; [intros o; discriminate|]. cbn [c7_state] in E1, E2.
        rewrite E1, E2. cbn. split; [reflexivity|]. split; [|reflexivity].
        exists tk, ack. split; [reflexivity|]. cbn in Etk. apply tokb_true in Etk. exact Etk.
      * (* pending connect *)
        destruct ctl as [|resp| | |reason|tm]; try (injection H as <-; cbn; auto; fail).
        -- destruct resp as [t|]; [|injection H as <-; cbn; auto].
           destruct (tick_action7_msg _ _ _ H) as [E1 E2]; [intros o; discriminate|]. cbn [c7_state] in E1, E2.
           rewrite E1, E2. cbn. split; [reflexivity|]. split; [|reflexivity]. exists tk, ack. reflexivity.
        -- match type of H with context [send_control_with7 ?st ?c ?t] =>
             destruct (send_control_with7 st c t) as [ds| | |] eqn:Esc; cbn [bind] in H; try discriminate;
             apply send_control_with7_shape in Esc; subst ds; injection H as <- end.
           cbn. split; [reflexivity|]. right. eexists. reflexivity.
      * (* connecting *)
        destruct ctl as [|resp| | |reason|tm]; try (injection H as <-; cbn; auto; fail).
        injection H as <-. cbn. split; [|reflexivity]. exists tk, ack. reflexivity.
      * (* pending *)
        destruct ctl as [|resp| | |reason|tm]; (injection H as <-; cbn; auto).
      * (* online *)
        destruct ctl as [|resp| | |reason|tm]; injection H as <-; cbn; auto.
      * destruct ctl as [|resp| | |reason|tm]; injection H as <-; cbn; auto.
    + match type of H with context [if negb (tokb ?a ?b) then _ else _] => destruct (tokb a b) eqn:Etk end; cbn [negb] in H;
        [|injection H as <-; apply trans7_refl].
      destruct ((ack <? 0) || (SEQ_MOD <=? ack)); [discriminate|].
      destruct st as [|own|own|own their|own their|o|]; cbn [c7_state] in H;
        try (injection H as <-; apply trans7_refl).
      * set (o0 := online_new (Some own) (Some their)) in *.
        assert (Hrs : (if rr then do_resend7 {| c7_state := Online7 o0; c7_send := sd |} e o0
                       else Ok ({| c7_state := Online7 o0; c7_send := sd |}, []))
                      = Ok ({| c7_state := Online7 o0; c7_send := sd |}, [])) by (destruct rr; reflexivity).
        rewrite Hrs in H. cbn [bind c7_state c7_send] in H.
        destruct (recv_chunks (o_ack o0) (o_rr o0) cs) as [[[ack' rr'] evs]| | |]; cbn [bind] in H; try discriminate.
        injection H as <-. cbn. split; [|reflexivity]. eexists _, _, _, _, _. reflexivity.
      * destruct rr.
        -- unfold do_resend7 in H.
           destruct (online_resend params7 (e_now e) (ack_chunks o ack)) as [[[o3 ds] ts]| | |] eqn:Er; cbn [bind] in H; try discriminate.
           cbn [c7_state c7_send] in H. apply resend_toks in Er as [_ [_ E3]].
           destruct (recv_chunks (o_ack o3) (o_rr o3) cs) as [[[ack' rr'] evs]| | |]; cbn [bind] in H; try discriminate.
           injection H as <-. cbn. apply benign_online7, E3.
        -- cbn [bind c7_state c7_send] in H.
           destruct (recv_chunks _ _ cs) as [[[ack' rr'] evs]| | |]; cbn [bind] in H; try discriminate.
           injection H as <-. cbn. constructor.
  - injection H as <-. apply trans7_refl.
  - destruct Ho as [Ha|[d Hd]]; [contradiction|discriminate].
Qed.

(* ================= part 8: who can be where (reachable states) ================= *)
(* classes of states ... *)
Definition early7 (st : state7) : Prop := match st with Unconnected7 | Token7 _ => True | _ => False end.
Definition pre_accept7 (st : state7) : Prop :=
  match st with Unconnected7 | Token7 _ | PendingConnect7 _ | Connecting7 _ _ => True | _ => False end.
Definition acc7 (st : state7) : Prop :=
  match st with PendingConnect7 _ | Pending7 _ _ | Online7 _ | Disconnected7 => True | _ => False end.
Definition is_connecting7 (st : state7) : Prop := match st with Connecting7 _ _ => True | _ => False end.
Definition unanswered7 (st : state7) : Prop := match st with Connecting7 _ _ | Pending7 _ _ => False | _ => True end.
Definition offline7 (st : state7) : Prop := match st with Online7 _ => False | _ => True end.
(* ... and of datagrams: a token request (header token NONE), a token answer, a TokenMsg or Connect *)
Definition is_request7 (d : dgram) : Prop :=
  match d with DControl tk _ (TokenMsg _) => hdr7 tk = TOKEN_NONE | _ => False end.
Definition is_answer7 (d : dgram) : Prop :=
  match d with DControl tk _ (TokenMsg _) => hdr7 tk <> TOKEN_NONE | _ => False end.
Definition pre_accept_dgram7 (d : dgram) : Prop :=
  match d with DControl _ _ (TokenMsg _) | DControl _ _ (Connect _) => True | _ => False end.

Lemma trans7_pre fed st st' sent : trans7 fed st st' sent -> pre_accept7 st' ->
  pre_accept7 st /\ Forall pre_accept_dgram7 sent.
Proof.
  destruct st, st'; cbn; intros T H; try contradiction; (split; [exact I|]);
    repeat match goal with
           | H : _ /\ _ |- _ => destruct H
           | H : exists _, _ |- _ => destruct H
           | H : _ \/ _ |- _ => destruct H
           end; subst; repeat constructor.
Qed.

Lemma trans7_early fed st st' sent : trans7 fed st st' sent -> early7 st' ->
  early7 st /\ Forall is_request7 sent.
Proof.
  destruct st, st'; cbn; intros T H; try contradiction; (split; [exact I|]);
    repeat match goal with
           | H : _ /\ _ |- _ => destruct H
           | H : exists _, _ |- _ => destruct H
           | H : _ \/ _ |- _ => destruct H
           end; subst; repeat constructor.
Qed.

Lemma trans7_never fed st st' sent : trans7 fed st st' sent -> never_online7 st' ->
  never_online7 st /\ Forall hs_ctl7 sent.
Proof.
  destruct st, st'; cbn; intros T H; try contradiction; (split; [exact I|]);
    repeat match goal with
           | H : _ /\ _ |- _ => destruct H
           | H : exists _, _ |- _ => destruct H
           | H : _ \/ _ |- _ => destruct H
           end; subst; repeat constructor.
Qed.

Lemma trans7_acc fed st st' sent : trans7 fed st st' sent -> acc7 st -> acc7 st'.
Proof. destruct st, st'; cbn; intros T H; try contradiction; exact I. Qed.

Lemma trans7_answer fed st st' sent : trans7 fed st st' sent -> Exists is_answer7 sent -> acc7 st'.
Proof.
  destruct st, st'; cbn; intros T H; try contradiction; try exact I;
    repeat match goal with
           | H : _ /\ _ |- _ => destruct H
           | H : exists _, _ |- _ => destruct H
           | H : _ \/ _ |- _ => destruct H
           end; subst;
    repeat match goal with
           | H : Exists _ [] |- _ => inversion H
           | H : Exists _ (_ :: _) |- _ => inversion H; clear H; subst
           end;
    cbn in *; try contradiction; try congruence.
Qed.

Lemma trans7_online fed st st' sent : trans7 fed st st' sent -> offline7 st -> ~ offline7 st' ->
  exists d, fed = Some d /\ ~ pre_accept_dgram7 d.
Proof.
  destruct st, st'; cbn; intros T H H'; try contradiction; try (exfalso; apply H'; exact I);
    repeat match goal with
           | H : _ /\ _ |- _ => destruct H
           | H : exists _, _ |- _ => destruct H
           end; subst; (eexists; split; [reflexivity|]); cbn; auto.
Qed.

(* the own token of an endpoint that has sent a token request is not NONE (part of conn_ok7) *)
Definition tok_req_ok7 (st : state7) : Prop := match st with Token7 own => own <> TOKEN_NONE | _ => True end.

Lemma conn_ok7_req c : conn_ok7 c -> tok_req_ok7 (c7_state c).
Proof. unfold conn_ok7, tok_req_ok7. destruct (c7_state c); try exact (fun _ => I). intros [_ [H _]]. exact H. Qed.

Lemma trans7_connecting fed st st' sent : trans7 fed st st' sent -> is_connecting7 st' ->
  is_connecting7 st \/ exists d, fed = Some d /\ (tok_req_ok7 st -> is_answer7 d).
Proof.
  destruct st, st'; cbn; intros T H; try contradiction; try (left; exact I).
  destruct T as [-> [[tk [ack [E Hh]]] _]]. right. eexists. split; [exact E|]. cbn. intros Hn Hc. apply Hn. congruence.
Qed.

Lemma trans7_unanswered fed st st' sent : trans7 fed st st' sent -> unanswered7 st -> ~ unanswered7 st' ->
  exists d, fed = Some d /\ (is_request7 d -> ~ tok_req_ok7 st).
Proof.
  destruct st, st'; cbn; intros T H H'; try contradiction; try (exfalso; apply H'; exact I).
  - destruct T as [-> [[tk [ack [E Hh]]] _]]. eexists. split; [exact E|]. cbn. intros Hr Hn. apply Hn. congruence.
  - destruct T as [-> [[tk [ack E]] _]]. eexists. split; [exact E|]. cbn. intros [].
Qed.

(* x: an endpoint, y: its peer; bagx / bagy: what x / y has sent *)
Record role7 (x y : state7) (bagx bagy : list flight) : Prop := {
  r7_pre : pre_accept7 x -> Forall (fun f => pre_accept_dgram7 (f_d f)) bagx /\ offline7 y;
  r7_early : early7 x -> Forall (fun f => is_request7 (f_d f)) bagx /\ unanswered7 y;
  r7_acc : is_connecting7 x \/ Exists (fun f => is_answer7 (f_d f)) bagy -> acc7 y;
  r7_never : never_online7 x -> hs_bag7 bagx;
}.

Lemma role7_incl x y bx by_ bx' by' : role7 x y bx by_ -> incl bx' bx -> incl by' by_ -> role7 x y bx' by'.
Proof.
  intros [P E A N] Hx Hy. constructor; [| | |intros H; specialize (N H); unfold hs_bag7 in *; rewrite Forall_forall in *; intros f Hf; apply N, Hx, Hf].
  - intros H. destruct (P H) as [Q1 Q2]. split; [|exact Q2]. rewrite Forall_forall in *. intros f Hf. apply Q1, Hx, Hf.
  - intros H. destruct (E H) as [Q1 Q2]. split; [|exact Q2]. rewrite Forall_forall in *. intros f Hf. apply Q1, Hx, Hf.
  - intros [H|H]; apply A; [left; exact H|right]. rewrite Exists_exists in *. destruct H as [f [Hf Hd]]. exists f. split; [apply Hy, Hf|exact Hd].
Qed.

(* one call at endpoint z (peer p) *)
Lemma role_side_step7 now z op z' fl (p : state7) bagz bagp :
  side_step7 now z op = Ok (z', fl) ->
  (app_op7 op \/ exists f, In f bagp /\ op = Op7Feed (f_d f)) ->
  tok_req_ok7 (c7_state (l7_conn z)) ->
  role7 (c7_state (l7_conn z)) p bagz bagp -> role7 p (c7_state (l7_conn z)) bagp bagz ->
  role7 (c7_state (l7_conn z')) p (bagz ++ fl) bagp /\ role7 p (c7_state (l7_conn z')) bagp (bagz ++ fl).
Proof.
  intros H Hop Hn [P1 E1 A1 N1] [P2 E2 A2 N2]. apply side_step_inv7 in H as [out [Hs [-> ->]]].
  change (l7_conn (after7 z op out)) with (out7_conn out).
  assert (Ho' : app_op7 op \/ exists d, op = Op7Feed d).
  { destruct Hop as [Ha|[f [_ ->]]]; [left; exact Ha|right; eexists; reflexivity]. }
  pose proof (step7_trans _ _ _ _ Ho' Hs) as T.
  assert (Hfed : forall d, fed_of op = Some d -> exists f, In f bagp /\ f_d f = d).
  { intros d Hd. destruct Hop as [Ha|[f [Hin ->]]].
    - destruct op; try discriminate Hd. contradiction.
    - cbn in Hd. injection Hd as <-. exists f. split; [exact Hin|reflexivity]. }
  split; constructor.
  - intros Hp. destruct (trans7_pre _ _ _ _ T Hp) as [Q1 Q2]. destruct (P1 Q1) as [Q3 Q4]. split; [|exact Q4].
    apply Forall_app. split; [exact Q3|]. apply Forall_map. exact Q2.
  - intros Hp. destruct (trans7_early _ _ _ _ T Hp) as [Q1 Q2]. destruct (E1 Q1) as [Q3 Q4]. split; [|exact Q4].
    apply Forall_app. split; [exact Q3|]. apply Forall_map. exact Q2.
  - intros [Hc|He]; [|apply A1; right; exact He].
    destruct (trans7_connecting _ _ _ _ T Hc) as [Hc'|[d [Hd Ha]]]; [apply A1; left; exact Hc'|].
    destruct (Hfed d Hd) as [f [Hin <-]]. apply A1. right. apply Exists_exists. exists f. split; [exact Hin|apply Ha, Hn].
  - intros Hp. destruct (trans7_never _ _ _ _ T Hp) as [Q1 Q2]. apply Forall_app. split; [apply N1, Q1|]. apply hs_bag_new7, Q2.
  - intros Hp. destruct (P2 Hp) as [Q1 Q2]. split; [exact Q1|].
    destruct (c7_state (out7_conn out)) eqn:Es'; try exact I. exfalso.
    destruct (trans7_online _ _ _ _ T Q2) as [d [Hd Hnp]]; [intros Hx; exact Hx|].
    destruct (Hfed d Hd) as [f [Hin <-]]. rewrite Forall_forall in Q1. exact (Hnp (Q1 f Hin)).
  - intros Hp. destruct (E2 Hp) as [Q1 Q2]. split; [exact Q1|].
    destruct (c7_state (out7_conn out)) eqn:Es'; try exact I; exfalso;
      (destruct (trans7_unanswered _ _ _ _ T Q2) as [d [Hd Hnp]]; [intros Hx; exact Hx|]);
      destruct (Hfed d Hd) as [f [Hin <-]]; rewrite Forall_forall in Q1; exact (Hnp (Q1 f Hin) Hn).
  - intros [Hc|He].
    + eapply trans7_acc; [exact T|]. apply A2. left. exact Hc.
    + apply Exists_app in He as [He|He].
      * eapply trans7_acc; [exact T|]. apply A2. right. exact He.
      * eapply trans7_answer; [exact T|]. apply Exists_exists in He as [f [Hin Ha]].
        apply in_map_iff in Hin as [d [<- Hin]]. apply Exists_exists. exists d. split; [exact Hin|exact Ha].
  - exact N2.
Qed.

Definition role_inv7 (w : link7) : Prop :=
  role7 (c7_state (l7_conn (k7_a w))) (c7_state (l7_conn (k7_b w))) (k7_ab w) (k7_ba w) /\
  role7 (c7_state (l7_conn (k7_b w))) (c7_state (l7_conn (k7_a w))) (k7_ba w) (k7_ab w).

Lemma role_inv7_new ra rb : role_inv7 (link7_new ra rb).
Proof.
  split; constructor; cbn; try (intros _; split; [constructor|exact I]); try (intros _; constructor);
    (intros [[]|H]; inversion H).
Qed.

Theorem role_inv7_step w l w' : link_inv7 w -> role_inv7 w -> admissible7 w l -> link_step7 w l = Ok w' -> role_inv7 w'.
Proof.
  intros Hi [PA PB] Hadm Hs.
  pose proof (conn_ok7_req _ (sv7_conn _ _ _ _ _ (linv_side7 w SA7 Hi))) as HnA.
  pose proof (conn_ok7_req _ (sv7_conn _ _ _ _ _ (linv_side7 w SB7 Hi))) as HnB. cbn [get7] in HnA, HnB.
  destruct l as [s o|dt|from k|from k]; cbn [link_step7] in Hs.
  - destruct Hadm as [Happ _].
    destruct (side_step7 (k7_now w) (get7 w s) o) as [[z' fl]| | |] eqn:E; try discriminate. injection Hs as <-.
    destruct s; cbn [get7] in E; unfold role_inv7, set_side7; cbn [k7_a k7_b k7_ab k7_ba].
    + destruct (role_side_step7 _ _ _ _ _ _ _ _ E (or_introl Happ) HnA PA PB) as [Q1 Q2]. split; assumption.
    + destruct (role_side_step7 _ _ _ _ _ _ _ _ E (or_introl Happ) HnB PB PA) as [Q1 Q2]. split; assumption.
  - injection Hs as <-. exact (conj PA PB).
  - destruct (nth_error (bag7 w from) k) as [f|] eqn:Ek; [|injection Hs as <-; exact (conj PA PB)].
    destruct (side_step7 (k7_now w) (get7 w (other7 from)) (Op7Feed (f_d f))) as [[z' fl]| | |] eqn:E; try discriminate.
    injection Hs as <-. apply nth_error_In in Ek.
    destruct from; cbn [get7 other7 bag7] in *; unfold role_inv7, set_side7; cbn [k7_a k7_b k7_ab k7_ba].
    + destruct (role_side_step7 _ _ _ _ _ _ _ _ E (or_intror (ex_intro _ f (conj Ek eq_refl))) HnB PB PA) as [Q1 Q2].
      split; assumption.
    + destruct (role_side_step7 _ _ _ _ _ _ _ _ E (or_intror (ex_intro _ f (conj Ek eq_refl))) HnA PA PB) as [Q1 Q2].
      split; assumption.
  - injection Hs as <-. unfold role_inv7. destruct from; cbn [k7_a k7_b k7_ab k7_ba].
    + split; (eapply role7_incl; [eassumption| |]); try apply incl_refl; apply remove_nth7_incl.
    + split; (eapply role7_incl; [eassumption| |]); try apply incl_refl; apply remove_nth7_incl.
Qed.

Theorem role_inv7_run ls : forall w w', link_inv7 w -> role_inv7 w -> admissible_run7 w ls -> link_run7 w ls = Ok w' ->
  role_inv7 w'.
Proof.
  induction ls as [|l ls IH]; intros w w' Hi Hr Ha Hrun; cbn [admissible_run7 link_run7] in *.
  - injection Hrun as <-. exact Hr.
  - destruct Ha as [Ha1 Ha2]. destruct (link_step_inv7 w l Hi Ha1) as [w1 [Hs Hi1]]. rewrite Hs in *.
    eapply IH; [exact Hi1|exact (role_inv7_step w l w1 Hi Hr Ha1 Hs)|exact Ha2|exact Hrun].
Qed.


(* ---------- every reachable state satisfies the three invariants ---------- *)
Lemma reach_inv7 ra rb ls w :
  admissible_run7 (link7_new ra rb) ls -> link_run7 (link7_new ra rb) ls = Ok w ->
  link_inv7 w /\ tok_inv7 w /\ role_inv7 w.
Proof.
  intros Ha Hr. destruct (link_run_inv7 ls _ (link7_new_inv ra rb) Ha) as [w0 [Hr0 Hi]].
  rewrite Hr in Hr0. injection Hr0 as <-.
  split; [exact Hi|]. split.
  - exact (tok_inv7_run ls _ w (tok_inv7_new ra rb) Ha Hr).
  - exact (role_inv7_run ls _ w (link7_new_inv ra rb) (role_inv7_new ra rb) Ha Hr).
Qed.

(* the starting states of the handshake theorems: A has called connect and is not yet online, B has
   not called connect and is not yet online *)
Definition connector_mid7 (st : state7) : Prop := match st with Token7 _ | Connecting7 _ _ => True | _ => False end.
Definition handshake_start7 (w : link7) : Prop :=
  connector_mid7 (c7_state (l7_conn (k7_a w))) /\ acceptor_waits7 (c7_state (l7_conn (k7_b w))).

(* in a reachable state they come in the four combinations of hs_pair7, with matching tokens *)
Lemma hs_pair_reachable7 w : tok_inv7 w -> role_inv7 w -> handshake_start7 w ->
  hs_pair7 (c7_state (l7_conn (k7_a w))) (c7_state (l7_conn (k7_b w))).
Proof.
  intros [TA TB] [RA RB] [Ha Hb].
  destruct (c7_state (l7_conn (k7_a w))) as [|oa|oa|oa ta|oa ta|oa|] eqn:Ca; try contradiction;
    destruct (c7_state (l7_conn (k7_b w))) as [|ob|ob|ob tb|ob tb|ob|] eqn:Cb; try contradiction; cbn.
  - exact I.
  - exact I.
  - destruct (r7_early _ _ _ _ RA I) as [_ []].
  - exact (r7_acc _ _ _ _ RA (or_introl I)).
  - pose proof (pj7_their _ _ _ TA ta eq_refl) as H. cbn in H. congruence.
  - pose proof (pj7_their _ _ _ TA ta eq_refl) as H1. pose proof (pj7_their _ _ _ TB tb eq_refl) as H2. cbn in H1, H2.
    split; congruence.
Qed.

(* who the peer of a connecting endpoint can be *)
Definition token_peer7 (st : state7) : Prop :=
  match st with Unconnected7 | Token7 _ | PendingConnect7 _ | Disconnected7 => True | _ => False end.
Definition connecting_peer7 (st : state7) : Prop :=
  match st with PendingConnect7 _ | Pending7 _ _ | Disconnected7 => True | _ => False end.
Definition online_peer7 (st : state7) : Prop :=
  match st with Pending7 _ _ | Online7 _ | Disconnected7 => True | _ => False end.

Lemma role7_peer x y bx by_ : role7 x y bx by_ -> role7 y x by_ bx ->
  (early7 x -> token_peer7 y) /\ (is_connecting7 x -> connecting_peer7 y) /\ (~ offline7 x -> online_peer7 y).
Proof.
  intros R R'. split; [|split].
  - intros H. destruct (r7_early _ _ _ _ R H) as [_ H1].
    assert (H2 : offline7 y) by (apply (r7_pre _ _ _ _ R); destruct x; try contradiction; exact I).
    destruct y; try contradiction; exact I.
  - intros H. pose proof (r7_acc _ _ _ _ R (or_introl H)) as H1.
    assert (H2 : offline7 y) by (apply (r7_pre _ _ _ _ R); destruct x; try contradiction; exact I).
    destruct y; try contradiction; exact I.
  - intros H. destruct y; try exact I; exfalso; apply H; apply (r7_pre _ _ _ _ R'); exact I.
Qed.

(* ================= part 9: both sides called connect: neither ever gets an answer ================= *)
Definition request_op7 (o : op7) : Prop :=
  match o with Op7Tick | Op7Flush => True | Op7Feed d => is_request7 d | _ => False end.

Lemma token_step7 c e o out own : c7_state c = Token7 own -> own <> TOKEN_NONE -> request_op7 o -> step7 c e o = Ok out ->
  c7_state (out7_conn out) = Token7 own /\ Forall is_request7 (out7_sent out).
Proof.
  destruct c as [st sd]. cbn [c7_state]. intros -> Hn Ho H.
  destruct o as [|data vital| | |reason|data|d| |]; try contradiction; unfold step7 in H; cbn [c7_state c7_send] in H.
  - discriminate.
  - destruct (triggered sd (e_now e)).
    + destruct (tick_action7_msg _ _ _ H) as [E1 E2]; [intros o; discriminate|]. cbn [c7_state] in E1, E2.
      rewrite E1, E2. split; [reflexivity|]. constructor; [reflexivity|constructor].
    + injection H as <-. cbn. split; [reflexivity|constructor].
  - destruct d as [t1 t2 pl|tk ack ctl|tk ack rr n cs]; cbn [request_op7 is_request7] in Ho; try contradiction.
    destruct ctl; try contradiction.
    unfold feed7 in H. cbn [c7_state c7_send own_token andb] in H.
    change (match tk with Some t => t | None => TOKEN_NONE end) with (hdr7 tk) in H. rewrite Ho in H.
    assert (E : tokb TOKEN_NONE own = false) by (apply tokb_false'; congruence).
    rewrite E in H. cbn [negb] in H. injection H as <-. cbn. split; [reflexivity|constructor].
Qed.

Definition both_token7 (oa ob : token) (w : link7) : Prop :=
  c7_state (l7_conn (k7_a w)) = Token7 oa /\ c7_state (l7_conn (k7_b w)) = Token7 ob /\
    oa <> TOKEN_NONE /\ ob <> TOKEN_NONE /\
    Forall (fun f => is_request7 (f_d f)) (k7_ab w) /\ Forall (fun f => is_request7 (f_d f)) (k7_ba w).

Theorem both_token7_step oa ob w l w' : both_token7 oa ob w -> heal_label7 l -> link_step7 w l = Ok w' -> both_token7 oa ob w'.
Proof.
  intros [Ha [Hb [Na [Nb [Hab Hba]]]]] Hl H. destruct l as [s o|dt|from k|from k]; cbn [link_step7] in H.
  - assert (Hq : request_op7 o) by (destruct o; try contradiction; exact I).
    destruct (side_step7 (k7_now w) (get7 w s) o) as [[x fl]| | |] eqn:E; try discriminate. injection H as <-.
    apply side_step_inv7 in E as [out [Hs [-> ->]]].
    destruct s; cbn [get7] in Hs; unfold both_token7, set_side7; cbn [k7_a k7_b k7_ab k7_ba after7 l7_conn].
    + destruct (token_step7 _ _ _ _ _ Ha Na Hq Hs) as [P1 P2].
      split; [exact P1|]. split; [exact Hb|]. split; [exact Na|]. split; [exact Nb|]. split; [|exact Hba].
      apply Forall_app. split; [exact Hab|apply Forall_map; exact P2].
    + destruct (token_step7 _ _ _ _ _ Hb Nb Hq Hs) as [P1 P2].
      split; [exact Ha|]. split; [exact P1|]. split; [exact Na|]. split; [exact Nb|]. split; [exact Hab|].
      apply Forall_app. split; [exact Hba|apply Forall_map; exact P2].
  - injection H as <-. repeat (split; [assumption|]). assumption.
  - destruct (nth_error (bag7 w from) k) as [f|] eqn:Ek;
      [|injection H as <-; repeat (split; [assumption|]); assumption].
    destruct (side_step7 (k7_now w) (get7 w (other7 from)) (Op7Feed (f_d f))) as [[x fl]| | |] eqn:E; try discriminate.
    injection H as <-. apply side_step_inv7 in E as [out [Hs [-> ->]]]. apply nth_error_In in Ek.
    destruct from; cbn [get7 other7 bag7] in *; unfold both_token7, set_side7; cbn [k7_a k7_b k7_ab k7_ba after7 l7_conn].
    + assert (Hq : request_op7 (Op7Feed (f_d f))) by (rewrite Forall_forall in Hab; exact (Hab f Ek)).
      destruct (token_step7 _ _ _ _ _ Hb Nb Hq Hs) as [P1 P2].
      split; [exact Ha|]. split; [exact P1|]. split; [exact Na|]. split; [exact Nb|]. split; [exact Hab|].
      apply Forall_app. split; [exact Hba|apply Forall_map; exact P2].
    + assert (Hq : request_op7 (Op7Feed (f_d f))) by (rewrite Forall_forall in Hba; exact (Hba f Ek)).
      destruct (token_step7 _ _ _ _ _ Ha Na Hq Hs) as [P1 P2].
      split; [exact P1|]. split; [exact Hb|]. split; [exact Na|]. split; [exact Nb|]. split; [|exact Hba].
      apply Forall_app. split; [exact Hab|apply Forall_map; exact P2].
  - injection H as <-. unfold both_token7. destruct from; cbn [k7_a k7_b k7_ab k7_ba].
    + split; [exact Ha|]. split; [exact Hb|]. split; [exact Na|]. split; [exact Nb|]. split; [apply remove_nth7_forall, Hab|exact Hba].
    + split; [exact Ha|]. split; [exact Hb|]. split; [exact Na|]. split; [exact Nb|]. split; [exact Hab|apply remove_nth7_forall, Hba].
Qed.

Theorem both_token7_run oa ob ls : forall w w', both_token7 oa ob w -> Forall heal_label7 ls -> link_run7 w ls = Ok w' ->
  both_token7 oa ob w'.
Proof.
  induction ls as [|l ls IH]; intros w w' Hn Hl H; cbn [link_run7] in H.
  - injection H as <-. exact Hn.
  - inversion Hl as [|l0 ls0 Hl1 Hl2]; subst. destruct (link_step7 w l) as [w1| | |] eqn:E; try discriminate.
    eapply IH; [eapply both_token7_step; eassumption|exact Hl2|exact H].
Qed.


(* ================= part 10: the shape of the schedules ================= *)
Lemma ticks_hs7 ph na nb dt : ticks7 (hs_schedule7 ph na nb dt) = 1%nat.
Proof. unfold hs_schedule7. rewrite !ticks_app7, !ticks_drops7. destruct ph; reflexivity. Qed.

Lemma heal_labels_drops7 s n : Forall heal_label7 (drops7 s n).
Proof. induction n as [|n IH]; [constructor|]. constructor; [exact I|exact IH]. Qed.
Lemma heal_labels_drain7 s n : Forall heal_label7 (drain7 s n).
Proof. induction n as [|n IH]; [constructor|]. constructor; [exact I|]. constructor; [exact I|exact IH]. Qed.

Lemma hs_labels7 ph na nb dt : 0 <= dt -> Forall heal_label7 (hs_schedule7 ph na nb dt).
Proof.
  intros H. unfold hs_schedule7. apply Forall_app. split; [apply heal_labels_drops7|].
  apply Forall_app. split; [apply heal_labels_drops7|]. destruct ph; repeat constructor; exact H.
Qed.

Lemma hs_shape7 ph na nb dt :
  exists post, hs_schedule7 ph na nb dt = drops7 SA7 na ++ drops7 SB7 nb ++ post /\ orderly7 post.
Proof. eexists. split; [reflexivity|]. destruct ph; cbn; repeat split. Qed.

(* the only application call besides ticks and flushes: A's first send *)
Definition progress_label7 (d : bytes) (v : bool) (l : llabel7) : Prop :=
  heal_label7 l \/ l = L7App SA7 (Op7Send d v).
Definition is_send7 (l : llabel7) : bool := match l with L7App _ (Op7Send _ _) => true | _ => false end.
Definition sends7 (ls : list llabel7) : nat := length (filter is_send7 ls).

Lemma sends_app7 a b : sends7 (a ++ b) = (sends7 a + sends7 b)%nat.
Proof. unfold sends7. rewrite filter_app, app_length. reflexivity. Qed.
Lemma sends_heal7 ls : Forall heal_label7 ls -> sends7 ls = 0%nat.
Proof.
  induction 1 as [|l ls Hl _ IH]; [reflexivity|]. unfold sends7 in *. cbn [filter].
  destruct l as [s o|dt|s k|s k]; try exact IH. destruct o; try exact IH. contradiction.
Qed.

Lemma progress_shape7 ph na nb dt d v dt1 n1 dt2 n2 dt3 n3 :
  0 <= dt -> 0 <= dt1 -> 0 <= dt2 -> 0 <= dt3 ->
  let ls := progress_schedule7 ph na nb dt d v dt1 n1 dt2 n2 dt3 n3 in
  Forall (progress_label7 d v) ls /\ ticks7 ls = 4%nat /\ sends7 ls = 1%nat /\
  exists post, ls = drops7 SA7 na ++ drops7 SB7 nb ++ post /\ orderly7 post.
Proof.
  intros H0 H1 H2 H3 ls. unfold ls, progress_schedule7.
  assert (Hh : Forall heal_label7 (heal_schedule7 0 0 dt1 n1 dt2 n2 dt3 n3)) by (apply heal_labels7; assumption).
  assert (Hs : Forall heal_label7 (hs_schedule7 ph na nb dt)) by (apply hs_labels7; exact H0).
  split; [|split; [|split]].
  - apply Forall_app. split; [eapply Forall_impl; [|exact Hs]; intros l Hl; left; exact Hl|].
    apply Forall_app. split; [|eapply Forall_impl; [|exact Hh]; intros l Hl; left; exact Hl].
    unfold first_send7. constructor; [right; reflexivity|]. repeat constructor; left; exact I.
  - rewrite !ticks_app7, ticks_hs7, ticks_heal7. reflexivity.
  - rewrite !sends_app7, (sends_heal7 _ Hs), (sends_heal7 _ Hh). reflexivity.
  - destruct (heal_schedule_shape7 0 0 dt1 n1 dt2 n2 dt3 n3) as [hp [Eh Oh]]. cbn [drops7 repeat app] in Eh.
    unfold hs_schedule7. eexists. split; [rewrite <- !app_assoc; reflexivity|].
    apply orderly_app7; [destruct ph; cbn; repeat split|].
    apply orderly_app7; [cbn; repeat split|]. rewrite Eh. exact Oh.
Qed.

(* ================= part 11: boolean mirrors of the hypotheses (for concrete states) ================= *)
Definition handshake_startb7 (w : link7) : bool :=
  match c7_state (l7_conn (k7_a w)), c7_state (l7_conn (k7_b w)) with
  | Token7 _, Unconnected7 | Token7 _, PendingConnect7 _ | Token7 _, Pending7 _ _
  | Connecting7 _ _, Unconnected7 | Connecting7 _ _, PendingConnect7 _ | Connecting7 _ _, Pending7 _ _ => true
  | _, _ => false
  end.

Definition hs_rand_okb7 (w : link7) : bool :=
  rand_okb7 (l7_rand (k7_a w)) && rand_okb7 (l7_rand (k7_b w)) && rand_okb7 (hs_rand_after7 (k7_b w)).

Lemma handshake_startb7_ok w : handshake_startb7 w = true -> handshake_start7 w.
Proof.
  unfold handshake_startb7, handshake_start7.
  destruct (c7_state (l7_conn (k7_a w))); try discriminate; destruct (c7_state (l7_conn (k7_b w))); try discriminate;
    intros _; split; exact I.
Qed.

Lemma hs_rand_okb7_ok w : hs_rand_okb7 w = true -> hs_rand_ok7 w.
Proof.
  unfold hs_rand_okb7, hs_rand_ok7. intros H. apply andb_true_iff in H as [H H3]. apply andb_true_iff in H as [H1 H2].
  split; [apply rand_okb7_ok, H1|]. split; [apply rand_okb7_ok, H2|apply rand_okb7_ok, H3].
Qed.


(* ================= part 12: A is online and has something to send, B is still pending ================= *)
Definition is_chunks7 (d : dgram) : Prop := match d with DChunks _ _ _ _ _ => True | _ => False end.

Lemma flush_chunks7 pp o o' ds : online_flush pp o = Ok (o', ds) -> Forall is_chunks7 ds.
Proof.
  unfold online_flush. destruct (negb (can_send o)); [intros H; injection H as <- <-; constructor|].
  destruct (MAX_PACKETSIZE <? _); [discriminate|]. intros H; injection H as <- <-. constructor; [exact I|constructor].
Qed.

Lemma resend_loop_chunks7 pp : forall todo fuel o out ts o' out' ts',
  resend_loop pp fuel o todo out ts = Ok (o', out', ts') -> Forall is_chunks7 out -> Forall is_chunks7 out'.
Proof.
  induction todo as [|c rest IH].
  - intros fuel o out ts o' out' ts' H Ho. destruct fuel; cbn in H; injection H as <- <- <-; exact Ho.
  - induction fuel as [|fuel IHf]; intros o out ts o' out' ts' H Ho; cbn [resend_loop] in H; [discriminate|].
    destruct (can_fit_chunk _ _ _ _).
    + destruct (pc_write_chunk _ _ _ _) as [p| | |]; try discriminate. eapply IH; eassumption.
    + destruct (online_flush pp o) as [[o1 d1]| | |] eqn:Ef; try discriminate.
      eapply IHf; [eassumption|]. apply Forall_app. split; [exact Ho|eapply flush_chunks7, Ef].
Qed.

Lemma resend_chunks7 pp now o o' ds ts : online_resend pp now o = Ok (o', ds, ts) -> Forall is_chunks7 ds.
Proof.
  unfold online_resend. destruct (o_queue o); [intros H; injection H as <- <- <-; constructor|].
  intros H. eapply resend_loop_chunks7; [exact H|constructor].
Qed.

Lemma map_mkf_inj7 x x' ds ds' : map (mkf7 x) ds = map (mkf7 x') ds' -> ds = ds'.
Proof.
  intros H. apply (f_equal (map f_d)) in H. rewrite !map_fd_mkf7 in H. exact H.
Qed.

(* A lets both its deadlines pass, ticks and flushes; nothing is assumed about B *)
Lemma speak_alone7 w o :
  link_inv7 w -> c7_state (l7_conn (get7 w SA7)) = Online7 o ->
  exists w' ds o2,
    sched7 w (speak7 SA7 (Z.max 0 (due7 (l7_conn (get7 w SA7)) - k7_now w))) w' /\ link_inv7 w' /\
    bag7 w' SA7 = bag7 w SA7 ++ map (mkf7 (get7 w SA7)) ds /\ bag7 w' SB7 = bag7 w SB7 /\
    get7 w' SB7 = get7 w SB7 /\
    l7_sub (get7 w' SA7) = l7_sub (get7 w SA7) /\ l7_del (get7 w' SA7) = l7_del (get7 w SA7) /\
    l7_rand (get7 w' SA7) = l7_rand (get7 w SA7) /\
    c7_state (l7_conn (get7 w' SA7)) = Online7 o2 /\ o_own o2 = o_own o /\ o_their o2 = o_their o /\
    pc_chunks (o_packet o2) = [] /\ o_rr o2 = false /\
    ds <> [] /\ Forall (dg_ok (o_their o) (o_rr o)) ds /\
    Forall (fun d => tight (zlen (l7_sub (get7 w SA7))) (dgram_chunks d)) ds /\
    (o_queue o <> [] \/ can_send o = true -> Forall is_chunks7 ds).
Proof.
  intros Hi Hon. remember (get7 w SA7) as x eqn:Ex.
  set (dt := Z.max 0 (due7 (l7_conn x) - k7_now w)).
  pose proof (linv_side7 w SA7 Hi) as Hsx. rewrite <- Ex in Hsx.
  pose proof (sv7_conn _ _ _ _ _ Hsx) as Hc.
  destruct (sv7_online _ _ _ _ _ Hsx o Hon) as [a [Hsnd [Ha Hack]]].
  destruct (ltime_step7 w dt) as [w1 [S1 [G1 [B1 [N1 I1]]]]]. specialize (I1 Hi).
  assert (A2 : admissible7 w1 (L7App SA7 Op7Tick)) by (cbn; repeat split).
  destruct (lapp_step7 w1 SA7 Op7Tick I1 A2) as [x1 [fl1 [T1 [L1 I2]]]]. rewrite G1, <- Ex in T1.
  assert (Hdue : due7 (l7_conn x) <= k7_now w1) by (rewrite N1; unfold dt; lia).
  destruct (tick_side7 _ x o x1 fl1 Hon Hc Hdue T1) as [_ [_ [_ [_ [o1 [ds1 [Hon1 [Efl1 Hcase]]]]]]]].
  assert (A3 : admissible7 (set_side7 w1 SA7 x1 fl1) (L7App SA7 Op7Flush)).
  { cbn [admissible7]. rewrite get_set_same7. split; [exact I|]. split; [exists o1; exact Hon1|exact I]. }
  destruct (lapp_step7 _ SA7 Op7Flush I2 A3) as [x2 [fl2 [T2 [L2 I3]]]].
  rewrite get_set_same7, now_set7 in T2.
  destruct (speak_side7 _ x o a x1 fl1 x2 fl2 Hon Hc Hsnd Hack Hdue T1 T2)
    as [o2 [ds [Hconn2 [Hfl [Es [Ed [Er [To [Tt [P1 [P2 [P3 [P4 [P5 [P6 [P7 P8]]]]]]]]]]]]]]]].
  exists (set_side7 (set_side7 w1 SA7 x1 fl1) SA7 x2 fl2), ds, o2.
  split.
  { eapply sched_cons7; [exact I|exact S1|]. eapply sched_cons7; [exact A2|exact L1|].
    eapply sched_cons7; [exact A3|exact L2|apply sched_nil7]. }
  split; [exact I3|].
  split. { rewrite !bag_set_same7, B1, <- app_assoc, Hfl. reflexivity. }
  split. { change SB7 with (other7 SA7). rewrite !bag_set_other7. apply B1. }
  split. { change SB7 with (other7 SA7). rewrite !get_set_other7. apply G1. }
  rewrite get_set_same7. split; [exact Es|]. split; [exact Ed|]. split; [exact Er|].
  split; [rewrite Hconn2; reflexivity|]. split; [exact To|]. split; [exact Tt|].
  split; [exact P1|]. split; [exact P2|]. split; [exact P4|]. split; [exact P5|]. split; [exact P6|].
  (* everything emitted is a chunk datagram unless A was idle *)
  intros Hbusy.
  destruct (flush_side7 _ x1 o1 x2 fl2 Hon1 T2) as [o2' [ds2 [Ef2 [_ [Efl2 _]]]]].
  assert (Eds : ds = ds1 ++ ds2).
  { assert (Hs1 : l7_sub x1 = l7_sub x /\ l7_del x1 = l7_del x).
    { destruct (tick_side7 _ x o x1 fl1 Hon Hc Hdue T1) as [Q1 [Q2 _]]. split; assumption. }
    destruct Hs1 as [Q1 Q2].
    assert (Hm : map (mkf7 x1) ds2 = map (mkf7 x) ds2).
    { apply map_ext. intros d. unfold mkf7. rewrite Q1, Q2. reflexivity. }
    rewrite Efl1, Efl2, Hm, <- map_app in Hfl. symmetry. eapply map_mkf_inj7, Hfl. }
  rewrite Eds. apply Forall_app. split; [|eapply flush_chunks7, Ef2].
  destruct Hcase as [[Hq [ts Er']]|[[Hq [Ecs Ef1]]|[Hq [Ecs _]]]].
  - eapply resend_chunks7, Er'.
  - eapply flush_chunks7, Ef1.
  - destruct Hbusy as [Hb|Hb]; [contradiction|congruence].
Qed.

(* the first chunk datagram reaches the pending acceptor: it is online, nothing is emitted *)
Lemma feed_chunks_pending7 now y ob oa ack rr n cs y' fl :
  c7_state (l7_conn y) = Pending7 ob oa -> side_step7 now y (Op7Feed (DChunks (Some ob) ack rr n cs)) = Ok (y', fl) ->
  fl = [] /\ exists o, c7_state (l7_conn y') = Online7 o /\ o_own o = Some ob /\ o_their o = Some oa /\
    l7_sub y' = l7_sub y /\ l7_rand y' = l7_rand y.
Proof.
  intros Hp H. apply side_step_inv7 in H as [out [Hs [-> ->]]].
  destruct y as [[st sd] rnd sub del nvs nvr rdy ans]. cbn [l7_conn c7_state c7_send] in Hp. subst st.
  unfold step7, feed7 in Hs. cbn [l7_conn c7_state c7_send e_now e_rand l7_rand own_token andb] in Hs.
  rewrite tokb_refl in Hs. cbn [negb] in Hs.
  destruct ((ack <? 0) || (SEQ_MOD <=? ack)); [discriminate|]. cbn [c7_state] in Hs.
  set (o0 := online_new (Some ob) (Some oa)) in *.
  assert (Hrs : (if rr then do_resend7 {| c7_state := Online7 o0; c7_send := sd |}
                               {| e_now := now; e_rand := rnd |} o0
                 else Ok ({| c7_state := Online7 o0; c7_send := sd |}, []))
                = Ok ({| c7_state := Online7 o0; c7_send := sd |}, [])) by (destruct rr; reflexivity).
  rewrite Hrs in Hs. cbn [bind c7_state c7_send] in Hs.
  destruct (recv_chunks _ _ cs) as [[[a' r'] evs]| | |]; cbn [bind] in Hs; try discriminate.
  injection Hs as <-. cbn. split; [reflexivity|]. eexists. repeat split.
Qed.

Definition late_schedule7 (na nb : nat) (dt : Z) (n : nat)
    (dt1 : Z) (n1 : nat) (dt2 : Z) (n2 : nat) (dt3 : Z) (n3 : nat) : list llabel7 :=
  drops7 SA7 na ++ drops7 SB7 nb ++ speak7 SA7 dt ++ drain7 SA7 n ++ heal_schedule7 0 0 dt1 n1 dt2 n2 dt3 n3.

Lemma drain_S7 s n : drain7 s (S n) = drain7 s 1 ++ drain7 s n.
Proof. reflexivity. Qed.

Theorem late_accept_link7 w oa tb ob :
  link_inv7 w -> c7_state (l7_conn (k7_a w)) = Online7 oa -> c7_state (l7_conn (k7_b w)) = Pending7 ob tb ->
  o_own oa = Some tb -> o_their oa = Some ob -> (o_queue oa <> [] \/ can_send oa = true) ->
  rand_ok7 {| e_now := k7_now w; e_rand := l7_rand (k7_a w) |} ->
  rand_ok7 {| e_now := k7_now w; e_rand := l7_rand (k7_b w) |} ->
  exists na nb dt n dt1 n1 dt2 n2 dt3 n3 w' oa' ob',
    0 <= dt /\ 0 <= dt1 /\ 0 <= dt2 /\ 0 <= dt3 /\
    sched7 w (late_schedule7 na nb dt n dt1 n1 dt2 n2 dt3 n3) w' /\ link_inv7 w' /\
    l7_sub (k7_a w') = l7_sub (k7_a w) /\ l7_sub (k7_b w') = l7_sub (k7_b w) /\
    l7_del (k7_b w') = l7_sub (k7_a w') /\ l7_del (k7_a w') = l7_sub (k7_b w') /\
    c7_state (l7_conn (k7_a w')) = Online7 oa' /\ c7_state (l7_conn (k7_b w')) = Online7 ob' /\
    o_queue oa' = [] /\ o_queue ob' = [] /\
    pc_chunks (o_packet oa') = [] /\ pc_chunks (o_packet ob') = [] /\
    o_rr oa' = false /\ o_rr ob' = false /\ k7_ab w' = [] /\ k7_ba w' = [].
Proof.
  intros Hi Hoa Hpb Hown Eth Hbusy HrA HrB.
  set (toks := fun s => match s with SA7 => Some tb | SB7 => Some ob end).
  set (subs := fun s => l7_sub (get7 w s)). set (rnds := fun s => l7_rand (get7 w s)).
  assert (HrndB : forall now, rand_ok7 {| e_now := now; e_rand := rnds SB7 |}) by (intros now; exact HrB).
  pose proof (linv_side7 w SA7 Hi) as HsA. pose proof (linv_side7 w SB7 Hi) as HsB. cbn [get7 other7] in HsA, HsB.
  destruct (sv7_fresh _ _ _ _ _ HsB) as [SubB [DelB _]]; [rewrite Hpb; exact I|].
  assert (DelA : l7_del (k7_a w) = []).
  { pose proof (sv7_dle _ _ _ _ _ HsA) as Hd. rewrite SubB in Hd. destruct (l7_del (k7_a w)); [reflexivity|].
    unfold zlen in Hd. cbn [length] in Hd. lia. }
  (* everything in flight is lost *)
  destruct (drop_all7 SA7 _ w eq_refl Hi) as [w1 [S1 [I1 [E1 [B1 [O1 N1]]]]]].
  destruct (drop_all7 SB7 _ w1 eq_refl I1) as [w2 [S2 [I2 [E2 [B2 [O2 N2]]]]]]. cbn [other7] in O1, O2.
  assert (E20 : forall s, get7 w2 s = get7 w s) by (intros s; rewrite E2, E1; reflexivity).
  assert (B2A : bag7 w2 SA7 = []) by (rewrite O2; exact B1).
  (* A speaks *)
  assert (Hoa2 : c7_state (l7_conn (get7 w2 SA7)) = Online7 oa) by (rewrite E20; exact Hoa).
  destruct (speak_alone7 w2 oa I2 Hoa2)
    as [w3 [ds [oa3 [S3 [I3 [B3 [O3 [X3 [Sub3 [Del3 [Rn3 [Hoa3 [Own3 [Th3 [P3 [R3 [Ne3 [Dg3 [Ti3 Ch3]]]]]]]]]]]]]]]]]]].
  rewrite B2A in B3. cbn [app] in B3. rewrite B2 in O3. rewrite E20 in *.
  specialize (Ch3 Hbusy). rewrite Eth in Dg3.
  destruct ds as [|d1 rest]; [contradiction|]. clear Ne3.
  inversion Ch3 as [|d1' r' Hd1 _]; subst d1' r'.
  inversion Dg3 as [|d1' r' [_ [Tk1 _]] Dgr]; subst d1' r'.
  inversion Ti3 as [|d1' r' Ti1 Tir]; subst d1' r'.
  destruct d1 as [t1 t2 pl|tk ak ctl|tk ak rr n cs]; try contradiction. cbn [dgram_tok] in Tk1.
  subst tk.
  cbn [map] in B3.
  (* the first datagram takes B online *)
  set (f1 := mkf7 (get7 w SA7) (DChunks (Some ob) ak rr n cs)) in *.
  assert (Hpb3 : c7_state (l7_conn (get7 w3 SB7)) = Pending7 ob tb) by (rewrite X3; exact Hpb).
  assert (Hfresh : fresh7 f1 (get7 w3 (other7 SA7))).
  { cbn [other7]. rewrite X3. cbn [get7]. split.
    - unfold f1. cbn [mkf7 f_c get7]. rewrite SubB, DelA. cbn. lia.
    - intros c sq r Hin Hv. unfold f1 in *. cbn [mkf7 f_d f_n dgram_chunks get7] in *.
      destruct (Ti1 c sq r Hin Hv) as [i [Hi1 ->]].
      rewrite (idx_of_spec (zlen (l7_sub (k7_a w))) (seqof i) i); [|lia|reflexivity]. rewrite DelB.
      pose proof (zlen_nonneg (l7_sub (k7_a w))). change (zlen (@nil bytes)) with 0. lia. }
  destruct (ldeliver_step7 w3 SA7 f1 _ I3 B3 Hfresh) as [A4 [y4 [fl4 [T4 [L4 I4]]]]].
  { cbn [other7]. rewrite X3. cbn [get7]. exact HrB. }
  cbn [other7] in T4, L4, I4. rewrite X3 in T4. unfold f1 in T4. cbn [mkf7 f_d get7] in T4.
  destruct (feed_chunks_pending7 _ _ ob tb ak rr n cs y4 fl4 Hpb T4) as [-> [ob4 [Hob4 [Own4 [Th4 [Sub4 Rn4]]]]]].
  destruct (ldrop_step7 (set_side7 w3 SB7 y4 []) SA7) as [w5 [S5 [G5 [B5 [O5 [N5 I5]]]]]]. specialize (I5 I4).
  cbn [other7] in O5.
  assert (Hoa5 : c7_state (l7_conn (get7 w5 SA7)) = Online7 oa3).
  { rewrite G5. change SA7 with (other7 SB7). rewrite get_set_other7. exact Hoa3. }
  assert (Hob5 : c7_state (l7_conn (get7 w5 (other7 SA7))) = Online7 ob4).
  { cbn [other7]. rewrite G5, get_set_same7. exact Hob4. }
  assert (G5' : good7 w5 toks subs rnds).
  { split; [exact I5|]. intros [|]; unfold subs, rnds, toks; cbn [other7].
    - exists oa3. split; [exact Hoa5|]. rewrite G5. change SA7 with (other7 SB7). rewrite get_set_other7. cbn [other7].
      split; [congruence|]. split; [congruence|]. split; assumption.
    - exists ob4. rewrite G5, get_set_same7. split; [exact Hob4|]. split; [exact Own4|]. split; [exact Th4|].
      cbn [get7]. split; assumption. }
  assert (B5' : bag7 w5 SA7 = map (mkf7 (get7 w SA7)) rest).
  { rewrite B5. change SA7 with (other7 SB7). rewrite bag_set_other7. cbn [other7]. rewrite B3. reflexivity. }
  assert (F5 : Forall (fl_ok7 (toks (other7 SA7)) (zlen (subs SA7)) (zlen (subs (other7 SA7)))) (map (mkf7 (get7 w SA7)) rest)).
  { unfold subs, toks. cbn [get7 other7]. eapply fl_ok_map7; [reflexivity| |exact Dgr|exact Tir|right].
    - rewrite SubB, DelA. cbn. lia.
    - rewrite SubB, DelA. reflexivity. }
  destruct (drain_all7 SA7 toks subs rnds HrndB _ w5 ob4 G5' B5' F5 Hob5)
    as [w6 [ob6 [S6 [G6 [B6 [O6 [X6 [N6 [Hob6 _]]]]]]]]].
  cbn [other7] in O6, Hob6.
  pose proof (proj1 G6) as I6.
  destruct (proj2 G6 SA7) as [oa6 [Hoa6 [Own6 [Th6 [SubA6 RnA6]]]]].
  destruct (proj2 G6 SB7) as [ob6' [Hob6' [OwnB6 [ThB6 [SubB6 RnB6]]]]].
  rewrite Hob6 in Hob6'. injection Hob6' as <-.
  assert (Eoa6 : oa6 = oa3) by (rewrite X6, Hoa5 in Hoa6; injection Hoa6 as <-; reflexivity). subst oa6.
  assert (Bab6 : k7_ab w6 = []) by exact B6.
  assert (Bba6 : k7_ba w6 = []).
  { change (k7_ba w6) with (bag7 w6 SB7). rewrite O6, O5, bag_set_same7, O3. reflexivity. }
  (* the healing schedule *)
  destruct (heal_link7 w6 oa3 ob6 I6 Hoa6 Hob6) as
    [na' [nb' [dt1 [n1 [dt2 [n2 [dt3 [n3 [w' [oa' [ob' [D1 [D2 [D3 [Hadm [Hrun [I7 [Sa [Sb [Db' [Da' [Oa [Ob [Qa [Qb [Pa [Pb [Rra [Rrb [Ba Bb]]]]]]]]]]]]]]]]]]]]]]]]]]]]]].
  { cbn [other7 toks] in *. congruence. }
  { cbn [other7 toks] in *. congruence. }
  { change (k7_a w6) with (get7 w6 SA7). rewrite RnA6. exact HrA. }
  { change (k7_b w6) with (get7 w6 SB7). rewrite RnB6. exact HrB. }
  assert (Cs6 : can_send oa3 = false).
  { pose proof (sv7_conn _ _ _ _ _ (linv_side7 w6 SA7 I6)) as Hc. unfold conn_ok7 in Hc. cbn [get7] in Hc, Hoa6. rewrite Hoa6 in Hc.
    destruct Hc as [[[Hn _] _] _]. rewrite P3 in Hn. apply idle_can_send7; [exact Hn|exact R3]. }
  pose proof (heal_no_loss7 w6 oa3 na' nb' dt1 n1 dt2 n2 dt3 n3 w' Hoa6 Cs6 Bab6 Bba6 (conj Hadm Hrun)) as S7.
  exists (length (bag7 w SA7)), (length (bag7 w1 SB7)), (Z.max 0 (due7 (l7_conn (get7 w SA7)) - k7_now w2)),
    (S (length (map (mkf7 (get7 w SA7)) rest))), dt1, n1, dt2, n2, dt3, n3, w', oa', ob'.
  split; [lia|]. do 3 (split; [assumption|]).
  split.
  { unfold late_schedule7. eapply sched_app7; [exact S1|]. eapply sched_app7; [exact S2|]. eapply sched_app7; [exact S3|].
    eapply sched_app7; [|exact S7]. rewrite drain_S7. eapply sched_app7; [|exact S6].
    eapply sched_cons7; [exact A4|exact L4|]. eapply sched_cons7; [exact I|exact S5|apply sched_nil7]. }
  split; [exact I7|].
  split; [rewrite Sa; exact SubA6|]. split; [rewrite Sb; exact SubB6|].
  repeat (split; [assumption|]). assumption.
Qed.

Lemma late_shape7 na nb dt n dt1 n1 dt2 n2 dt3 n3 :
  0 <= dt -> 0 <= dt1 -> 0 <= dt2 -> 0 <= dt3 ->
  let ls := late_schedule7 na nb dt n dt1 n1 dt2 n2 dt3 n3 in
  Forall heal_label7 ls /\ ticks7 ls = 4%nat /\
  exists post, ls = drops7 SA7 na ++ drops7 SB7 nb ++ post /\ orderly7 post.
Proof.
  intros H0 H1 H2 H3 ls. unfold ls, late_schedule7.
  assert (Hh : Forall heal_label7 (heal_schedule7 0 0 dt1 n1 dt2 n2 dt3 n3)) by (apply heal_labels7; assumption).
  split; [|split].
  - apply Forall_app. split; [apply heal_labels_drops7|]. apply Forall_app. split; [apply heal_labels_drops7|].
    apply Forall_app. split; [repeat constructor; exact H0|]. apply Forall_app. split; [apply heal_labels_drain7|exact Hh].
  - rewrite !ticks_app7, !ticks_drops7, ticks_drain7, ticks_heal7. reflexivity.
  - destruct (heal_schedule_shape7 0 0 dt1 n1 dt2 n2 dt3 n3) as [hp [Eh Oh]]. cbn [drops7 repeat app] in Eh.
    eexists. split; [reflexivity|].
    apply orderly_app7; [exact I|]. apply orderly_app7; [apply orderly_drain7|]. rewrite Eh. exact Oh.
Qed.

(* A online with nothing in its resend queue while B is still pending: nothing was ever submitted *)
Lemma pending_idle_nothing7 w oa ob tb :
  link_inv7 w -> c7_state (l7_conn (k7_a w)) = Online7 oa -> c7_state (l7_conn (k7_b w)) = Pending7 ob tb ->
  o_queue oa = [] ->
  l7_sub (k7_a w) = [] /\ l7_del (k7_a w) = [] /\ l7_sub (k7_b w) = [] /\ l7_del (k7_b w) = [].
Proof.
  intros Hi Hoa Hpb Hq.
  pose proof (linv_side7 w SA7 Hi) as HsA. pose proof (linv_side7 w SB7 Hi) as HsB. cbn [get7 other7] in HsA, HsB.
  destruct (sv7_fresh _ _ _ _ _ HsB) as [SubB [DelB _]]; [rewrite Hpb; exact I|].
  assert (Hnil : forall l : list bytes, zlen l <= 0 -> l = []).
  { intros l H. destruct l; [reflexivity|]. unfold zlen in H. cbn [length] in H. lia. }
  split; [|split; [|split; assumption]].
  - destruct (sv7_online _ _ _ _ _ HsA oa Hoa) as [a [Hs [Ha _]]].
    pose proof (si_queue _ _ _ _ Hs) as Hqi. rewrite Hq in Hqi. cbn in Hqi.
    apply Hnil. rewrite DelB in Ha. change (zlen (@nil bytes)) with 0 in Ha. lia.
  - apply Hnil. pose proof (sv7_dle _ _ _ _ _ HsA) as Hd. rewrite SubB in Hd. exact Hd.
Qed.

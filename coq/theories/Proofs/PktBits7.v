(* The bit-field leaf functions of net/src/protocol7.rs (generated: Gen/Bits7.v) are
   mutually inverse: for every in-range field tuple and for every canonical bit pattern.
   Method: the bytes that are only passed through are split off by lifting lemmas, what
   remains depends on at most two bytes (or one small field and one 10-bit field) and is
   checked on every value by vm_compute (PktSweep.v). Nothing here is sampled. *)
From LibTw2 Require Import Base.Res Base.Bits Model.PacketBase Gen.Consts7 Gen.Bits7 Proofs.PktSweep.
From LibTw2 Require Import Proofs.PktBits6.   (* byteb *)
From Coq Require Import ZArith Lia Bool List.
Open Scope Z_scope.

(* ================= ChunkHeader (2 bytes) ================= *)

(* canonical: the two padding bits of the second byte are clear (doc/packet7.md) *)
Definition ch7_canonical (p : ChunkHeaderPacked7) : bool := chp7_padding_size p <? 64.
Definition ch7_in_range (h : ChunkHeader7) : bool :=
  (0 <=? ch7_flags h) && (ch7_flags h <? 4) && (0 <=? ch7_size h) && (ch7_size h <? 4096).
Definition chp7_bytes_ok (p : ChunkHeaderPacked7) : bool :=
  byteb (chp7_flags_size p) && byteb (chp7_padding_size p).

Definition chp7_eqb (a b : ChunkHeaderPacked7) : bool :=
  (chp7_flags_size a =? chp7_flags_size b) && (chp7_padding_size a =? chp7_padding_size b).
Lemma chp7_eqb_eq a b : chp7_eqb a b = true <-> a = b.
Proof.
  destruct a, b; unfold chp7_eqb; cbn. split.
  - intros H. apply andb_true_iff in H as [H1 H2]. apply Z.eqb_eq in H1, H2. subst. reflexivity.
  - intros H. injection H as -> ->. rewrite !Z.eqb_refl. reflexivity.
Qed.
Definition ch7_eqb (a b : ChunkHeader7) : bool :=
  (ch7_flags a =? ch7_flags b) && (ch7_size a =? ch7_size b).
Lemma ch7_eqb_eq a b : ch7_eqb a b = true <-> a = b.
Proof.
  destruct a, b; unfold ch7_eqb; cbn. split.
  - intros H. apply andb_true_iff in H as [H1 H2]. apply Z.eqb_eq in H1, H2. subst. reflexivity.
  - intros H. injection H as -> ->. rewrite !Z.eqb_refl. reflexivity.
Qed.

Definition ch7_chk_u (b0 b1 : Z) : bool :=
  let p := {| chp7_flags_size := b0; chp7_padding_size := b1 |} in
  let '(h, ws) := ChunkHeaderPacked7_unpack_warn p in
  ch7_in_range h &&
  match ChunkHeader7_pack h with
  | Ok p' => Bool.eqb (is_nil ws) (chp7_eqb p' p) && Bool.eqb (chp7_eqb p' p) (ch7_canonical p)
  | _ => false
  end.

Lemma ch7_chk_u_all b0 b1 : 0 <= b0 < 256 -> 0 <= b1 < 256 -> ch7_chk_u b0 b1 = true.
Proof. intros H0 H1. sweep2 b0 b1 H0 H1. Qed.

Definition ch7_chk_p (flags size : Z) : bool :=
  let h := {| ch7_flags := flags; ch7_size := size |} in
  match ChunkHeader7_pack h with
  | Ok p => chp7_bytes_ok p && ch7_canonical p
            && let '(h', ws) := ChunkHeaderPacked7_unpack_warn p in ch7_eqb h' h && is_nil ws
  | _ => false
  end.

Lemma ch7_chk_p_all flags size : 0 <= flags < 4 -> 0 <= size < 4096 -> ch7_chk_p flags size = true.
Proof. intros H0 H1. rsweep2 4%nat 4096%nat flags size H0 H1. Qed.

Lemma ch7_facts_u p : chp7_bytes_ok p = true ->
  exists h ws p', ChunkHeaderPacked7_unpack_warn p = (h, ws) /\ ch7_in_range h = true
    /\ ChunkHeader7_pack h = Ok p'
    /\ (ws = [] <-> p' = p) /\ (p' = p <-> ch7_canonical p = true).
Proof.
  destruct p as [b0 b1]. unfold chp7_bytes_ok. cbn [chp7_flags_size chp7_padding_size].
  intros H. apply andb_true_iff in H as [H0 H1]. apply byteb_iff in H0, H1.
  pose proof (ch7_chk_u_all b0 b1 H0 H1) as C. unfold ch7_chk_u in C.
  destruct (ChunkHeaderPacked7_unpack_warn _) as [h ws].
  apply andb_true_iff in C as [Cr C].
  destruct (ChunkHeader7_pack h) as [p'| | |] eqn:Ep; try discriminate.
  apply andb_true_iff in C as [C1 C2]. apply eqb_prop in C1, C2.
  exists h, ws, p'. split; [reflexivity|]. split; [exact Cr|]. split; [exact Ep|]. split.
  - split.
    + intros ->. apply chp7_eqb_eq. rewrite <- C1. reflexivity.
    + intros E. apply is_nil_true. rewrite C1. apply chp7_eqb_eq, E.
  - split.
    + intros E. rewrite <- C2. apply chp7_eqb_eq, E.
    + intros E. apply chp7_eqb_eq. rewrite C2. exact E.
Qed.

(* unpack then pack: every canonical bit pattern *)
Theorem ch7_unpack_pack p : chp7_bytes_ok p = true -> ch7_canonical p = true ->
  ChunkHeader7_pack (fst (ChunkHeaderPacked7_unpack_warn p)) = Ok p
  /\ snd (ChunkHeaderPacked7_unpack_warn p) = [].
Proof.
  intros Hb Hc. destruct (ch7_facts_u p Hb) as (h & ws & p' & E & _ & Ep & Hw & Hcn).
  rewrite E. cbn [fst snd]. apply Hcn in Hc. subst p'. split; [exact Ep|]. apply Hw. reflexivity.
Qed.

Theorem ch7_warn_iff p : chp7_bytes_ok p = true ->
  (snd (ChunkHeaderPacked7_unpack_warn p) = [] <-> ChunkHeader7_pack (fst (ChunkHeaderPacked7_unpack_warn p)) = Ok p)
  /\ (snd (ChunkHeaderPacked7_unpack_warn p) = [] <-> ch7_canonical p = true).
Proof.
  intros Hb. destruct (ch7_facts_u p Hb) as (h & ws & p' & E & _ & Ep & Hw & Hcn).
  rewrite E. cbn [fst snd]. rewrite Ep. split.
  - rewrite Hw. split; [intros ->; reflexivity|intros H; injection H as ->; reflexivity].
  - rewrite Hw. exact Hcn.
Qed.

Theorem ch7_unpack_in_range p : chp7_bytes_ok p = true ->
  ch7_in_range (fst (ChunkHeaderPacked7_unpack_warn p)) = true.
Proof.
  intros Hb. destruct (ch7_facts_u p Hb) as (h & ws & p' & E & Hr & _). rewrite E. exact Hr.
Qed.

(* pack then unpack: every in-range field tuple *)
Theorem ch7_pack_unpack h : ch7_in_range h = true ->
  exists p, ChunkHeader7_pack h = Ok p /\ ChunkHeaderPacked7_unpack_warn p = (h, [])
            /\ chp7_bytes_ok p = true /\ ch7_canonical p = true.
Proof.
  destruct h as [flags size]. unfold ch7_in_range. cbn [ch7_flags ch7_size]. intros H.
  assert (H0 : 0 <= flags < 4) by lia. assert (H1 : 0 <= size < 4096) by lia.
  pose proof (ch7_chk_p_all flags size H0 H1) as C. unfold ch7_chk_p in C.
  destruct (ChunkHeader7_pack _) as [p| | |]; try discriminate.
  apply andb_true_iff in C as [C C3]. apply andb_true_iff in C as [C1 C2].
  exists p. split; [reflexivity|].
  destruct (ChunkHeaderPacked7_unpack_warn p) as [h' ws].
  apply andb_true_iff in C3 as [C3 C4]. apply ch7_eqb_eq in C3. apply is_nil_true in C4. subst.
  split; [reflexivity|]. split; assumption.
Qed.


(* ================= PacketHeader (7 bytes; num_chunks and the token are passed through) ================= *)

(* canonical: the two padding bits (bits 6 and 7 of the first byte) are clear *)
Definition ph7_canonical (p : PacketHeaderPacked7) : bool := php7_padding_flags_ack p / 64 =? 0.
Definition ph7_in_range (h : PacketHeader7) : bool :=
  (0 <=? ph7_flags h) && (ph7_flags h <? 16) && (0 <=? ph7_ack h) && (ph7_ack h <? 1024)
  && byteb (ph7_num_chunks h).
Definition php7_bytes_ok (p : PacketHeaderPacked7) : bool :=
  byteb (php7_padding_flags_ack p) && byteb (php7_ack p) && byteb (php7_num_chunks p).

Definition ph7_set_rest (h : PacketHeader7) (nc : Z) (tok : bytes) : PacketHeader7 :=
  {| ph7_flags := ph7_flags h; ph7_ack := ph7_ack h; ph7_num_chunks := nc; ph7_token := tok |}.
Definition php7_set_rest (p : PacketHeaderPacked7) (nc : Z) (tok : bytes) : PacketHeaderPacked7 :=
  {| php7_padding_flags_ack := php7_padding_flags_ack p; php7_ack := php7_ack p; php7_num_chunks := nc; php7_token := tok |}.

Lemma ph7_unpack_lift b0 b1 b2 tok :
  PacketHeaderPacked7_unpack_warn {| php7_padding_flags_ack := b0; php7_ack := b1; php7_num_chunks := b2; php7_token := tok |}
  = (ph7_set_rest (fst (PacketHeaderPacked7_unpack_warn {| php7_padding_flags_ack := b0; php7_ack := b1; php7_num_chunks := 0; php7_token := [] |})) b2 tok,
     snd (PacketHeaderPacked7_unpack_warn {| php7_padding_flags_ack := b0; php7_ack := b1; php7_num_chunks := 0; php7_token := [] |})).
Proof. reflexivity. Qed.

Lemma ph7_pack_lift h nc tok :
  PacketHeader7_pack (ph7_set_rest h nc tok)
  = match PacketHeader7_pack (ph7_set_rest h 0 []) with
    | Ok p => Ok (php7_set_rest p nc tok)
    | Err e => Err e
    | Panic s => Panic s
    | OutOfFuel => OutOfFuel
    end.
Proof.
  unfold PacketHeader7_pack, ph7_set_rest, php7_set_rest. cbn [ph7_flags ph7_ack ph7_num_chunks ph7_token].
  destruct (negb (Z.shiftr (ph7_flags h) PACKET_FLAGS_BITS =? 0)); [reflexivity|].
  destruct (negb (Z.shiftr (ph7_ack h) SEQUENCE_BITS =? 0)); reflexivity.
Qed.

Definition ph7_eqb01 (a b : PacketHeaderPacked7) : bool :=
  (php7_padding_flags_ack a =? php7_padding_flags_ack b) && (php7_ack a =? php7_ack b).

Definition ph7_chk_u (b0 b1 : Z) : bool :=
  let p := {| php7_padding_flags_ack := b0; php7_ack := b1; php7_num_chunks := 0; php7_token := [] |} in
  let '(h, ws) := PacketHeaderPacked7_unpack_warn p in
  ph7_in_range h && (ph7_num_chunks h =? 0) && is_nil (ph7_token h) &&
  match PacketHeader7_pack h with
  | Ok p' => Bool.eqb (ph7_eqb01 p' p) (ph7_canonical p)
             && Bool.eqb (is_nil ws) (ph7_canonical p)
             && (php7_num_chunks p' =? 0) && is_nil (php7_token p')
  | _ => false
  end.

Lemma ph7_chk_u_all b0 b1 : 0 <= b0 < 256 -> 0 <= b1 < 256 -> ph7_chk_u b0 b1 = true.
Proof. intros H0 H1. sweep2 b0 b1 H0 H1. Qed.

Lemma ph7_facts_u p : php7_bytes_ok p = true ->
  exists h ws p', PacketHeaderPacked7_unpack_warn p = (h, ws) /\ ph7_in_range h = true
    /\ PacketHeader7_pack h = Ok p'
    /\ (p' = p <-> ph7_canonical p = true)
    /\ (ws = [] <-> ph7_canonical p = true)
    /\ ph7_num_chunks h = php7_num_chunks p /\ ph7_token h = php7_token p.
Proof.
  destruct p as [b0 b1 b2 tok]. unfold php7_bytes_ok. cbn [php7_padding_flags_ack php7_ack php7_num_chunks php7_token].
  intros H. apply andb_true_iff in H as [H H2]. apply andb_true_iff in H as [H0 H1].
  apply byteb_iff in H0, H1.
  pose proof (ph7_chk_u_all b0 b1 H0 H1) as C. unfold ph7_chk_u in C.
  rewrite ph7_unpack_lift.
  destruct (PacketHeaderPacked7_unpack_warn {| php7_padding_flags_ack := b0; php7_ack := b1; php7_num_chunks := 0; php7_token := [] |}) as [h ws].
  cbn [fst snd].
  apply andb_true_iff in C as [Cr C]. apply andb_true_iff in Cr as [Cr Ct]. apply andb_true_iff in Cr as [Cr Cn].
  apply Z.eqb_eq in Cn. apply is_nil_true in Ct.
  assert (Eh : ph7_set_rest h 0 [] = h) by (destruct h; unfold ph7_set_rest; cbn in *; subst; reflexivity).
  destruct (PacketHeader7_pack h) as [p0| | |] eqn:Ep; try discriminate.
  apply andb_true_iff in C as [C C4]. apply andb_true_iff in C as [C C3]. apply andb_true_iff in C as [C1 C2].
  apply eqb_prop in C1, C2. apply Z.eqb_eq in C3. apply is_nil_true in C4.
  exists (ph7_set_rest h b2 tok), ws, (php7_set_rest p0 b2 tok). split; [reflexivity|].
  split.
  { unfold ph7_in_range, ph7_set_rest in *. cbn [ph7_flags ph7_ack ph7_num_chunks] in *.
    apply andb_true_iff in Cr as [Cr _]. rewrite Cr, H2. reflexivity. }
  split.
  { rewrite ph7_pack_lift, Eh, Ep. reflexivity. }
  unfold ph7_canonical in *. cbn [php7_padding_flags_ack] in *.
  split; [|split; [|split; reflexivity]].
  - rewrite <- C1. unfold ph7_eqb01, php7_set_rest. destruct p0 as [c0 c1 c2 c3].
    cbn [php7_padding_flags_ack php7_ack php7_num_chunks php7_token]. split.
    + intros E. injection E as -> ->. rewrite !Z.eqb_refl. reflexivity.
    + intros E. apply andb_true_iff in E as [E0 E1]. apply Z.eqb_eq in E0, E1. subst. reflexivity.
  - rewrite <- C2. split; [intros ->; reflexivity|apply is_nil_true].
Qed.

Theorem ph7_unpack_pack p : php7_bytes_ok p = true -> ph7_canonical p = true ->
  PacketHeader7_pack (fst (PacketHeaderPacked7_unpack_warn p)) = Ok p
  /\ snd (PacketHeaderPacked7_unpack_warn p) = [].
Proof.
  intros Hb Hc. destruct (ph7_facts_u p Hb) as (h & ws & p' & E & _ & Ep & Hcn & Hw & _).
  rewrite E. cbn [fst snd]. apply Hcn in Hc as Hc'. subst p'. split; [exact Ep|]. apply Hw, Hc.
Qed.

Theorem ph7_warn_iff p : php7_bytes_ok p = true ->
  (snd (PacketHeaderPacked7_unpack_warn p) = [] <-> PacketHeader7_pack (fst (PacketHeaderPacked7_unpack_warn p)) = Ok p)
  /\ (snd (PacketHeaderPacked7_unpack_warn p) = [] <-> ph7_canonical p = true).
Proof.
  intros Hb. destruct (ph7_facts_u p Hb) as (h & ws & p' & E & _ & Ep & Hcn & Hw & _).
  rewrite E. cbn [fst snd]. rewrite Ep. split; [|exact Hw].
  rewrite Hw, <- Hcn. split; [intros ->; reflexivity|intros H; injection H as ->; reflexivity].
Qed.

Theorem ph7_unpack_in_range p : php7_bytes_ok p = true ->
  ph7_in_range (fst (PacketHeaderPacked7_unpack_warn p)) = true
  /\ ph7_num_chunks (fst (PacketHeaderPacked7_unpack_warn p)) = php7_num_chunks p
  /\ ph7_token (fst (PacketHeaderPacked7_unpack_warn p)) = php7_token p.
Proof.
  intros Hb. destruct (ph7_facts_u p Hb) as (h & ws & p' & E & Hr & _ & _ & _ & Hn & Ht). rewrite E.
  split; [|split]; assumption.
Qed.

Definition ph7_eqb01h (a b : PacketHeader7) : bool :=
  (ph7_flags a =? ph7_flags b) && (ph7_ack a =? ph7_ack b).

Definition ph7_chk_p (flags ack : Z) : bool :=
  let h := {| ph7_flags := flags; ph7_ack := ack; ph7_num_chunks := 0; ph7_token := [] |} in
  match PacketHeader7_pack h with
  | Ok p => byteb (php7_padding_flags_ack p) && byteb (php7_ack p) && (php7_num_chunks p =? 0) && is_nil (php7_token p)
            && ph7_canonical p
            && let '(h', ws) := PacketHeaderPacked7_unpack_warn p in ph7_eqb01h h' h && is_nil ws
  | _ => false
  end.

Lemma ph7_chk_p_all flags ack : 0 <= flags < 16 -> 0 <= ack < 1024 -> ph7_chk_p flags ack = true.
Proof. intros H0 H1. rsweep2 16%nat 1024%nat flags ack H0 H1. Qed.

Theorem ph7_pack_unpack h : ph7_in_range h = true ->
  exists p, PacketHeader7_pack h = Ok p /\ PacketHeaderPacked7_unpack_warn p = (h, [])
            /\ php7_bytes_ok p = true /\ ph7_canonical p = true /\ php7_token p = ph7_token h.
Proof.
  destruct h as [flags ack nc tok]. unfold ph7_in_range. cbn [ph7_flags ph7_ack ph7_num_chunks ph7_token]. intros H.
  assert (H0 : 0 <= flags < 16) by lia. assert (H1 : 0 <= ack < 1024) by lia.
  assert (H2 : byteb nc = true) by (apply andb_true_iff in H as [_ H]; exact H).
  pose proof (ph7_chk_p_all flags ack H0 H1) as C. unfold ph7_chk_p in C.
  change {| ph7_flags := flags; ph7_ack := ack; ph7_num_chunks := nc; ph7_token := tok |}
    with (ph7_set_rest {| ph7_flags := flags; ph7_ack := ack; ph7_num_chunks := 0; ph7_token := [] |} nc tok).
  rewrite ph7_pack_lift.
  change (ph7_set_rest {| ph7_flags := flags; ph7_ack := ack; ph7_num_chunks := 0; ph7_token := [] |} 0 [])
    with {| ph7_flags := flags; ph7_ack := ack; ph7_num_chunks := 0; ph7_token := [] |}.
  destruct (PacketHeader7_pack _) as [p| | |]; try discriminate.
  destruct p as [c0 c1 c2 c3]. cbn [php7_padding_flags_ack php7_ack php7_num_chunks php7_token] in C.
  apply andb_true_iff in C as [C C6]. apply andb_true_iff in C as [C C5]. apply andb_true_iff in C as [C C4].
  apply andb_true_iff in C as [C C3]. apply andb_true_iff in C as [C1 C2].
  apply Z.eqb_eq in C3. apply is_nil_true in C4. subst c2 c3.
  exists (php7_set_rest {| php7_padding_flags_ack := c0; php7_ack := c1; php7_num_chunks := 0; php7_token := [] |} nc tok).
  split; [reflexivity|]. unfold php7_set_rest. cbn [php7_padding_flags_ack php7_ack php7_num_chunks php7_token].
  rewrite ph7_unpack_lift.
  destruct (PacketHeaderPacked7_unpack_warn {| php7_padding_flags_ack := c0; php7_ack := c1; php7_num_chunks := 0; php7_token := [] |}) as [h' ws].
  apply andb_true_iff in C6 as [C6 C7]. apply is_nil_true in C7. subst ws.
  unfold ph7_eqb01h in C6. destruct h' as [f' a' n' t']. cbn [ph7_flags ph7_ack fst snd] in *.
  apply andb_true_iff in C6 as [E0 E1]. apply Z.eqb_eq in E0, E1. subst.
  split; [reflexivity|]. split; [|split; [exact C5|reflexivity]].
  unfold php7_bytes_ok. cbn [php7_padding_flags_ack php7_ack php7_num_chunks]. rewrite C1, C2, H2. reflexivity.
Qed.

(* ================= PacketHeaderConnless (9 bytes; both tokens are passed through) ================= *)

Definition phc7_canonical (p : PacketHeaderConnlessPacked7) : bool := phcp7_padding_flags_version p / 64 =? 0.
Definition phc7_in_range (h : PacketHeaderConnless7) : bool :=
  (0 <=? phc7_flags h) && (phc7_flags h <? 16) && (0 <=? phc7_version h) && (phc7_version h <? 4).
Definition phcp7_bytes_ok (p : PacketHeaderConnlessPacked7) : bool := byteb (phcp7_padding_flags_version p).

Definition phc7_set_toks (h : PacketHeaderConnless7) (t r : bytes) : PacketHeaderConnless7 :=
  {| phc7_flags := phc7_flags h; phc7_version := phc7_version h; phc7_token := t; phc7_response_token := r |}.
Definition phcp7_set_toks (p : PacketHeaderConnlessPacked7) (t r : bytes) : PacketHeaderConnlessPacked7 :=
  {| phcp7_padding_flags_version := phcp7_padding_flags_version p; phcp7_token := t; phcp7_response_token := r |}.

Lemma phc7_unpack_lift b0 t r :
  PacketHeaderConnlessPacked7_unpack_warn {| phcp7_padding_flags_version := b0; phcp7_token := t; phcp7_response_token := r |}
  = (phc7_set_toks (fst (PacketHeaderConnlessPacked7_unpack_warn {| phcp7_padding_flags_version := b0; phcp7_token := []; phcp7_response_token := [] |})) t r,
     snd (PacketHeaderConnlessPacked7_unpack_warn {| phcp7_padding_flags_version := b0; phcp7_token := []; phcp7_response_token := [] |})).
Proof. reflexivity. Qed.

Lemma phc7_pack_lift h t r :
  PacketHeaderConnless7_pack (phc7_set_toks h t r)
  = match PacketHeaderConnless7_pack (phc7_set_toks h [] []) with
    | Ok p => Ok (phcp7_set_toks p t r)
    | Err e => Err e
    | Panic s => Panic s
    | OutOfFuel => OutOfFuel
    end.
Proof.
  unfold PacketHeaderConnless7_pack, phc7_set_toks, phcp7_set_toks.
  cbn [phc7_flags phc7_version phc7_token phc7_response_token].
  destruct (negb (Z.shiftr (phc7_flags h) PACKET_FLAGS_BITS =? 0)); [reflexivity|].
  destruct (negb (Z.shiftr (phc7_version h) VERSION_BITS =? 0)); reflexivity.
Qed.

Definition phc7_chk_u (b0 : Z) : bool :=
  let p := {| phcp7_padding_flags_version := b0; phcp7_token := []; phcp7_response_token := [] |} in
  let '(h, ws) := PacketHeaderConnlessPacked7_unpack_warn p in
  phc7_in_range h && is_nil (phc7_token h) && is_nil (phc7_response_token h) &&
  match PacketHeaderConnless7_pack h with
  | Ok p' => Bool.eqb (phcp7_padding_flags_version p' =? b0) (phc7_canonical p)
             && Bool.eqb (is_nil ws) (phc7_canonical p)
             && is_nil (phcp7_token p') && is_nil (phcp7_response_token p')
  | _ => false
  end.

Lemma phc7_chk_u_all b0 : 0 <= b0 < 256 -> phc7_chk_u b0 = true.
Proof. intros H0. sweep1 b0 H0. Qed.

Lemma phc7_facts_u p : phcp7_bytes_ok p = true ->
  exists h ws p', PacketHeaderConnlessPacked7_unpack_warn p = (h, ws) /\ phc7_in_range h = true
    /\ PacketHeaderConnless7_pack h = Ok p'
    /\ (p' = p <-> phc7_canonical p = true)
    /\ (ws = [] <-> phc7_canonical p = true)
    /\ phc7_token h = phcp7_token p /\ phc7_response_token h = phcp7_response_token p.
Proof.
  destruct p as [b0 t r]. unfold phcp7_bytes_ok. cbn [phcp7_padding_flags_version phcp7_token phcp7_response_token].
  intros H0. apply byteb_iff in H0.
  pose proof (phc7_chk_u_all b0 H0) as C. unfold phc7_chk_u in C.
  rewrite phc7_unpack_lift.
  destruct (PacketHeaderConnlessPacked7_unpack_warn {| phcp7_padding_flags_version := b0; phcp7_token := []; phcp7_response_token := [] |}) as [h ws].
  cbn [fst snd].
  apply andb_true_iff in C as [Cr C]. apply andb_true_iff in Cr as [Cr Ct2]. apply andb_true_iff in Cr as [Cr Ct1].
  apply is_nil_true in Ct1, Ct2.
  assert (Eh : phc7_set_toks h [] [] = h) by (destruct h; unfold phc7_set_toks; cbn in *; subst; reflexivity).
  destruct (PacketHeaderConnless7_pack h) as [p0| | |] eqn:Ep; try discriminate.
  apply andb_true_iff in C as [C C4]. apply andb_true_iff in C as [C C3]. apply andb_true_iff in C as [C1 C2].
  apply eqb_prop in C1, C2. apply is_nil_true in C3, C4.
  exists (phc7_set_toks h t r), ws, (phcp7_set_toks p0 t r). split; [reflexivity|].
  split; [exact Cr|]. split.
  { rewrite phc7_pack_lift, Eh, Ep. reflexivity. }
  unfold phc7_canonical in *. cbn [phcp7_padding_flags_version] in *.
  split; [|split; [|split; reflexivity]].
  - rewrite <- C1. unfold phcp7_set_toks. destruct p0 as [c0 c1 c2].
    cbn [phcp7_padding_flags_version phcp7_token phcp7_response_token]. split.
    + intros E. injection E as ->. apply Z.eqb_refl.
    + intros E. apply Z.eqb_eq in E. subst. reflexivity.
  - rewrite <- C2. split; [intros ->; reflexivity|apply is_nil_true].
Qed.

Theorem phc7_unpack_pack p : phcp7_bytes_ok p = true -> phc7_canonical p = true ->
  PacketHeaderConnless7_pack (fst (PacketHeaderConnlessPacked7_unpack_warn p)) = Ok p
  /\ snd (PacketHeaderConnlessPacked7_unpack_warn p) = [].
Proof.
  intros Hb Hc. destruct (phc7_facts_u p Hb) as (h & ws & p' & E & _ & Ep & Hcn & Hw & _).
  rewrite E. cbn [fst snd]. apply Hcn in Hc as Hc'. subst p'. split; [exact Ep|]. apply Hw, Hc.
Qed.

Theorem phc7_warn_iff p : phcp7_bytes_ok p = true ->
  (snd (PacketHeaderConnlessPacked7_unpack_warn p) = [] <-> PacketHeaderConnless7_pack (fst (PacketHeaderConnlessPacked7_unpack_warn p)) = Ok p)
  /\ (snd (PacketHeaderConnlessPacked7_unpack_warn p) = [] <-> phc7_canonical p = true).
Proof.
  intros Hb. destruct (phc7_facts_u p Hb) as (h & ws & p' & E & _ & Ep & Hcn & Hw & _).
  rewrite E. cbn [fst snd]. rewrite Ep. split; [|exact Hw].
  rewrite Hw, <- Hcn. split; [intros ->; reflexivity|intros H; injection H as ->; reflexivity].
Qed.

Theorem phc7_unpack_in_range p : phcp7_bytes_ok p = true ->
  phc7_in_range (fst (PacketHeaderConnlessPacked7_unpack_warn p)) = true
  /\ phc7_token (fst (PacketHeaderConnlessPacked7_unpack_warn p)) = phcp7_token p
  /\ phc7_response_token (fst (PacketHeaderConnlessPacked7_unpack_warn p)) = phcp7_response_token p.
Proof.
  intros Hb. destruct (phc7_facts_u p Hb) as (h & ws & p' & E & Hr & _ & _ & _ & Ht & Hrt). rewrite E.
  split; [|split]; assumption.
Qed.

Definition phc7_chk_p (flags version : Z) : bool :=
  let h := {| phc7_flags := flags; phc7_version := version; phc7_token := []; phc7_response_token := [] |} in
  match PacketHeaderConnless7_pack h with
  | Ok p => byteb (phcp7_padding_flags_version p) && is_nil (phcp7_token p) && is_nil (phcp7_response_token p)
            && phc7_canonical p
            && let '(h', ws) := PacketHeaderConnlessPacked7_unpack_warn p in
               (phc7_flags h' =? flags) && (phc7_version h' =? version) && is_nil ws
  | _ => false
  end.

Lemma phc7_chk_p_all flags version : 0 <= flags < 16 -> 0 <= version < 4 -> phc7_chk_p flags version = true.
Proof. intros H0 H1. rsweep2 16%nat 4%nat flags version H0 H1. Qed.

Theorem phc7_pack_unpack h : phc7_in_range h = true ->
  exists p, PacketHeaderConnless7_pack h = Ok p /\ PacketHeaderConnlessPacked7_unpack_warn p = (h, [])
            /\ phcp7_bytes_ok p = true /\ phc7_canonical p = true
            /\ phcp7_token p = phc7_token h /\ phcp7_response_token p = phc7_response_token h.
Proof.
  destruct h as [flags version t r]. unfold phc7_in_range. cbn [phc7_flags phc7_version phc7_token phc7_response_token]. intros H.
  assert (H0 : 0 <= flags < 16) by lia. assert (H1 : 0 <= version < 4) by lia.
  pose proof (phc7_chk_p_all flags version H0 H1) as C. unfold phc7_chk_p in C.
  change {| phc7_flags := flags; phc7_version := version; phc7_token := t; phc7_response_token := r |}
    with (phc7_set_toks {| phc7_flags := flags; phc7_version := version; phc7_token := []; phc7_response_token := [] |} t r).
  rewrite phc7_pack_lift.
  change (phc7_set_toks {| phc7_flags := flags; phc7_version := version; phc7_token := []; phc7_response_token := [] |} [] [])
    with {| phc7_flags := flags; phc7_version := version; phc7_token := []; phc7_response_token := [] |}.
  destruct (PacketHeaderConnless7_pack _) as [p| | |]; try discriminate.
  destruct p as [c0 c1 c2]. cbn [phcp7_padding_flags_version phcp7_token phcp7_response_token] in C.
  apply andb_true_iff in C as [C C5]. apply andb_true_iff in C as [C C4]. apply andb_true_iff in C as [C C3].
  apply andb_true_iff in C as [C1 C2]. apply is_nil_true in C2, C3. subst c1 c2.
  exists (phcp7_set_toks {| phcp7_padding_flags_version := c0; phcp7_token := []; phcp7_response_token := [] |} t r).
  split; [reflexivity|]. unfold phcp7_set_toks. cbn [phcp7_padding_flags_version phcp7_token phcp7_response_token].
  rewrite phc7_unpack_lift.
  destruct (PacketHeaderConnlessPacked7_unpack_warn {| phcp7_padding_flags_version := c0; phcp7_token := []; phcp7_response_token := [] |}) as [h' ws].
  apply andb_true_iff in C5 as [C5 C7]. apply andb_true_iff in C5 as [C5 C6]. apply is_nil_true in C7. subst ws.
  destruct h' as [f' v' t' r']. cbn [phc7_flags phc7_version fst snd] in *.
  apply Z.eqb_eq in C5, C6. subst.
  split; [reflexivity|]. split; [exact C1|]. split; [exact C4|]. split; reflexivity.
Qed.

(* ================= ChunkHeaderVital (3 bytes) ================= *)

(* every bit of the three bytes carries information: every pattern is canonical, and
   unpack_warn never warns (with the repaired padding mask, /repo 6d5326e) *)
Definition chv7_canonical (p : ChunkHeaderVitalPacked7) : bool := true.
Definition chv7_in_range (h : ChunkHeaderVital7) : bool :=
  ch7_in_range (chv7_h h) && (0 <=? chv7_sequence h) && (chv7_sequence h <? 1024).
Definition chvp7_bytes_ok (p : ChunkHeaderVitalPacked7) : bool :=
  byteb (chvp7_flags_size p) && byteb (chvp7_sequence_size p) && byteb (chvp7_sequence p).

Lemma chvp7_eq_iff a0 a1 a2 b0 b1 b2 :
  {| chvp7_flags_size := a0; chvp7_sequence_size := a1; chvp7_sequence := a2 |}
  = {| chvp7_flags_size := b0; chvp7_sequence_size := b1; chvp7_sequence := b2 |}
  <-> a0 = b0 /\ ((a1 =? b1) && (a2 =? b2) = true).
Proof.
  split.
  - intros H. injection H as -> -> ->. rewrite !Z.eqb_refl. split; reflexivity.
  - intros [-> H]. apply andb_true_iff in H as [H1 H2]. apply Z.eqb_eq in H1, H2. subst. reflexivity.
Qed.

Lemma chv7_facts_u p : chvp7_bytes_ok p = true ->
  exists h ws p', ChunkHeaderVitalPacked7_unpack_warn p = (h, ws) /\ chv7_in_range h = true
    /\ ChunkHeaderVital7_pack h = Ok p'
    /\ (ws = [] <-> chv7_canonical p = true) /\ (p' = p <-> chv7_canonical p = true).
Proof.
  destruct p as [b0 b1 b2]. unfold chvp7_bytes_ok, chv7_canonical.
  cbn [chvp7_flags_size chvp7_sequence_size chvp7_sequence].
  intros H. apply andb_true_iff in H as [H H2]. apply andb_true_iff in H as [H0 H1].
  apply byteb_iff in H0, H1, H2.
  unfold ChunkHeaderVitalPacked7_unpack_warn. cbn [chvp7_flags_size chvp7_sequence_size chvp7_sequence].
  assert (Hq : chp7_bytes_ok {| chp7_flags_size := b0; chp7_padding_size := Z.land b1 63 |} = true).
  { unfold chp7_bytes_ok. cbn [chp7_flags_size chp7_padding_size]. apply andb_true_iff.
    split; [apply byteb_iff; exact H0|]. sweep1 b1 H1. }
  assert (Hqc : ch7_canonical {| chp7_flags_size := b0; chp7_padding_size := Z.land b1 63 |} = true).
  { unfold ch7_canonical. cbn [chp7_padding_size]. sweep1 b1 H1. }
  destruct (ch7_unpack_pack _ Hq Hqc) as [Ep Ew].
  pose proof (ch7_unpack_in_range _ Hq) as Hr.
  destruct (ChunkHeaderPacked7_unpack_warn {| chp7_flags_size := b0; chp7_padding_size := Z.land b1 63 |}) as [vh wsh].
  cbn [fst snd] in *. subst wsh.
  eexists. eexists. eexists. split; [reflexivity|].
  split.
  { unfold chv7_in_range. cbn [chv7_h chv7_sequence]. rewrite Hr. cbn [andb]. sweep2 b1 b2 H1 H2. }
  unfold ChunkHeaderVital7_pack. cbn [chv7_h chv7_sequence]. rewrite Ep.
  cbn [bind chp7_flags_size chp7_padding_size].
  match goal with
  | |- (if ?c then _ else Ok {| chvp7_flags_size := _; chvp7_sequence_size := ?e1; chvp7_sequence := ?e2 |}) = _ /\ _ =>
    assert (F1 : c = false) by (to_bool; sweep2 b1 b2 H1 H2);
    assert (F2 : Bool.eqb ((e1 =? b1) && (e2 =? b2)) true = true) by (sweep2 b1 b2 H1 H2)
  end.
  rewrite F1. split; [reflexivity|]. split.
  - split; reflexivity.
  - rewrite chvp7_eq_iff. apply eqb_true_iff_l in F2. rewrite <- F2. intuition.
Qed.

Theorem chv7_unpack_pack p : chvp7_bytes_ok p = true -> chv7_canonical p = true ->
  ChunkHeaderVital7_pack (fst (ChunkHeaderVitalPacked7_unpack_warn p)) = Ok p
  /\ snd (ChunkHeaderVitalPacked7_unpack_warn p) = [].
Proof.
  intros Hb Hc. destruct (chv7_facts_u p Hb) as (h & ws & p' & E & _ & Ep & Hw & Hcn).
  rewrite E. cbn [fst snd]. apply Hcn in Hc as Hc'. subst p'. split; [exact Ep|]. apply Hw, Hc.
Qed.

Theorem chv7_warn_iff p : chvp7_bytes_ok p = true ->
  (snd (ChunkHeaderVitalPacked7_unpack_warn p) = [] <-> ChunkHeaderVital7_pack (fst (ChunkHeaderVitalPacked7_unpack_warn p)) = Ok p)
  /\ (snd (ChunkHeaderVitalPacked7_unpack_warn p) = [] <-> chv7_canonical p = true).
Proof.
  intros Hb. destruct (chv7_facts_u p Hb) as (h & ws & p' & E & _ & Ep & Hw & Hcn).
  rewrite E. cbn [fst snd]. rewrite Ep. split; [|exact Hw].
  rewrite Hw, <- Hcn. split; [intros ->; reflexivity|intros H; injection H as ->; reflexivity].
Qed.

Theorem chv7_unpack_in_range p : chvp7_bytes_ok p = true ->
  chv7_in_range (fst (ChunkHeaderVitalPacked7_unpack_warn p)) = true.
Proof.
  intros Hb. destruct (chv7_facts_u p Hb) as (h & ws & p' & E & Hr & _). rewrite E. exact Hr.
Qed.

Theorem chv7_pack_unpack h : chv7_in_range h = true ->
  exists p, ChunkHeaderVital7_pack h = Ok p /\ ChunkHeaderVitalPacked7_unpack_warn p = (h, [])
            /\ chvp7_bytes_ok p = true /\ chv7_canonical p = true.
Proof.
  destruct h as [hh seq]. unfold chv7_in_range. cbn [chv7_h chv7_sequence]. intros H.
  apply andb_true_iff in H as [H Hs2]. apply andb_true_iff in H as [Hh Hs1].
  assert (Hs : 0 <= seq < Z.of_nat 1024) by (change (Z.of_nat 1024) with 1024; lia).
  destruct (ch7_pack_unpack hh Hh) as (q & Eq & Uq & Bq & Cq).
  destruct q as [c0 c]. unfold chp7_bytes_ok, ch7_canonical in Bq, Cq.
  cbn [chp7_flags_size chp7_padding_size] in Bq, Cq.
  apply andb_true_iff in Bq as [B0 B1]. apply byteb_iff in B1.
  assert (Hc : 0 <= c < Z.of_nat 64) by (change (Z.of_nat 64) with 64; lia).
  unfold ChunkHeaderVital7_pack. cbn [chv7_h chv7_sequence]. rewrite Eq.
  cbn [bind chp7_flags_size chp7_padding_size].
  match goal with
  | |- exists p, (if ?a then _ else _) = _ /\ _ =>
    assert (F1 : a = false) by (to_bool; rsweep1 1024%nat seq Hs)
  end.
  rewrite F1. eexists. split; [reflexivity|].
  unfold ChunkHeaderVitalPacked7_unpack_warn, chvp7_bytes_ok, chv7_canonical.
  cbn [chvp7_flags_size chvp7_sequence_size chvp7_sequence].
  match goal with
  | |- context [ChunkHeaderPacked7_unpack_warn {| chp7_flags_size := c0; chp7_padding_size := ?e |}] =>
    assert (F2 : e = c) by (to_bool; rsweep2 64%nat 1024%nat c seq Hc Hs)
  end.
  rewrite F2, Uq.
  match goal with
  | |- ({| chv7_h := hh; chv7_sequence := ?s |}, []) = _ /\ _ =>
    assert (F3 : s = seq) by (to_bool; rsweep2 64%nat 1024%nat c seq Hc Hs)
  end.
  rewrite F3. split; [reflexivity|]. rewrite B0. cbn [andb]. split.
  - unfold byteb. rsweep2 64%nat 1024%nat c seq Hc Hs.
  - reflexivity.
Qed.

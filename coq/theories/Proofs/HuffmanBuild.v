(* Huffman::from_frequencies_array (Model/Huffman.v: merge_loop, descend, dfs_pre, dfs,
   from_frequencies) builds a well-formed table whenever it returns one, for EVERY
   frequency vector; and its only failure on 256 frequencies is the push on the full
   24-entry DFS stack.

   Plan of the proof:
   (1) merge_loop: the work list is a forest (list of `tree`) whose leaves are exactly the
       257 symbols, each once; the node vector holds the inner nodes of the forest
       (`repr`); the last element of the work list is the node pushed last.
   (2) at the end there is one tree, rooted at t_len - 1 = 512 = ROOT_IDX.
   (3) the explicit-stack depth-first walk (`dfs`), started below a tree with `k` ancestors
       on its stack, either overflows the stack (height + k > 24) or returns to the state
       it was entered in, having stored at every leaf the path from the root (`enter_tree`).
   (4) wf_table / depths_ok of the result. *)
From LibTw2 Require Import Base.Res Base.Bits Model.Huffman Model.HuffmanRef
  Proofs.HuffmanBits Proofs.HuffmanTable.
From Coq Require Import ZArith List Lia Bool Permutation FinFun.
Import ListNotations.
Open Scope Z_scope.

(* ---------- trees represented in a node vector ---------- *)

Inductive tree := Lf (s : Z) | Nd (i : Z) (a b : tree).

Definition root_idx (tr : tree) : Z := match tr with Lf s => s | Nd i _ _ => i end.

Fixpoint leaves (tr : tree) : list Z :=
  match tr with Lf s => [s] | Nd _ a b => leaves a ++ leaves b end.

Fixpoint height (tr : tree) : nat :=
  match tr with Lf _ => O | Nd _ a b => S (Nat.max (height a) (height b)) end.

(* the number of loop iterations the walk spends below a tree after its first leaf *)
Fixpoint cost (tr : tree) : nat :=
  match tr with Lf _ => O | Nd _ a b => (cost a + S (cost b + 1))%nat end.

(* tr sits in the node vector t: leaves are symbols, an inner node i holds the indices of
   its two children *)
Fixpoint repr (t : table) (tr : tree) : Prop :=
  match tr with
  | Lf s => 0 <= s < NUM_SYMBOLS
  | Nd i a b => NUM_SYMBOLS <= i /\ lookup t i = Some (root_idx a, root_idx b) /\ repr t a /\ repr t b
  end.

(* q leads from the root of tr to the leaf s (false = children[0]) *)
Fixpoint tpath (tr : tree) (q : list bool) (s : Z) : Prop :=
  match tr with
  | Lf s' => q = [] /\ s' = s
  | Nd _ a b =>
    match q with
    | [] => False
    | false :: q' => tpath a q' s
    | true :: q' => tpath b q' s
    end
  end.

Lemma lookup_range t i nd : lookup t i = Some nd -> 0 <= i < t_len t.
Proof.
  unfold lookup. destruct (Z.leb_spec 0 i), (Z.ltb_spec i (t_len t)); cbn [andb]; try discriminate. lia.
Qed.

Lemma repr_ext t t' tr : (forall j, NUM_SYMBOLS <= j -> lookup t' j = lookup t j) -> repr t tr -> repr t' tr.
Proof.
  intros H. induction tr as [s|i a IHa b IHb]; cbn [repr]; [auto|].
  intros (Hi & Hl & Ha & Hb). rewrite H by exact Hi. auto.
Qed.

Lemma repr_push t nd tr : 0 <= t_len t -> repr t tr -> repr (push_node t nd) tr.
Proof.
  intros Hlen. induction tr as [s|i a IHa b IHb]; cbn [repr]; [auto|].
  intros (Hi & Hl & Ha & Hb). rewrite lookup_push by exact Hlen.
  pose proof (lookup_range _ _ _ Hl). destruct (Z.eqb_spec i (t_len t)); [lia|]. auto.
Qed.

Lemma leaves_range t tr s : repr t tr -> In s (leaves tr) -> 0 <= s < NUM_SYMBOLS.
Proof.
  induction tr as [s'|i a IHa b IHb]; cbn [repr leaves].
  - intros H [<-|[]]. exact H.
  - intros (_ & _ & Ha & Hb) Hin. apply in_app_or in Hin as [Hin|Hin]; auto.
Qed.

Lemma root_range t tr : repr t tr -> 0 <= root_idx tr.
Proof. destruct tr; cbn [repr root_idx]; unfold NUM_SYMBOLS; lia. Qed.

Lemma tpath_leaf tr : forall q s, tpath tr q s -> In s (leaves tr).
Proof.
  induction tr as [s'|i a IHa b IHb]; intros q s; cbn [tpath leaves].
  - intros [_ <-]. now left.
  - destruct q as [|[] q']; [intros []| |]; intros H; apply in_or_app; eauto.
Qed.

Lemma leaf_tpath tr : forall s, In s (leaves tr) -> exists q, tpath tr q s.
Proof.
  induction tr as [s'|i a IHa b IHb]; intros s; cbn [leaves].
  - intros [<-|[]]. exists []. cbn. auto.
  - intros Hin. apply in_app_or in Hin as [Hin|Hin].
    + destruct (IHa s Hin) as [q Hq]. exists (false :: q). exact Hq.
    + destruct (IHb s Hin) as [q Hq]. exists (true :: q). exact Hq.
Qed.

Lemma tpath_height tr : forall q s, tpath tr q s -> (length q <= height tr)%nat.
Proof.
  induction tr as [s'|i a IHa b IHb]; intros q s; cbn [tpath height].
  - intros [-> _]. cbn. lia.
  - destruct q as [|[] q']; [intros []| |]; intros H; cbn [length].
    + specialize (IHb _ _ H). lia.
    + specialize (IHa _ _ H). lia.
Qed.

Lemma tpath_walk t tr : repr t tr -> forall q s, tpath tr q s -> walk t q (root_idx tr) = Some s.
Proof.
  induction tr as [s'|i a IHa b IHb]; cbn [repr]; intros Hr q s; cbn [tpath root_idx].
  - intros [-> <-]. reflexivity.
  - destruct Hr as (Hi & Hl & Ha & Hb).
    destruct q as [|bit q']; [intros []|]. cbn [walk].
    destruct (Z.ltb_spec i NUM_SYMBOLS); [lia|]. rewrite Hl. cbn [fst snd].
    destruct bit; intros Hq; auto.
Qed.

(* ---------- the sort ---------- *)

Lemma insert_desc_perm x l : Permutation (insert_desc x l) (x :: l).
Proof.
  induction l as [|y r IH]; cbn [insert_desc]; [reflexivity|].
  destruct (fst x <? fst y); [|reflexivity].
  rewrite IH. apply perm_swap.
Qed.

Lemma sort_desc_perm l : Permutation (sort_desc l) l.
Proof.
  induction l as [|x r IH]; cbn [sort_desc]; [reflexivity|].
  rewrite insert_desc_perm. now apply perm_skip.
Qed.

(* ---------- (1), (2): the combining loop ---------- *)

Definition MInv (fl : list (Z * Z)) (nodes : table) (ts : list tree) : Prop :=
  Permutation (map snd fl) (map root_idx ts)
  /\ Forall (repr nodes) ts
  /\ Permutation (flat_map leaves ts) all_symbols
  /\ NUM_SYMBOLS <= t_len nodes
  /\ (exists fl0 f, fl = fl0 ++ [(f, t_len nodes - 1)])
  /\ t_len nodes + Z.of_nat (length fl) = 514.

Lemma merge_step fl nodes ts : MInv fl nodes ts -> (2 <= length fl)%nat ->
  exists f1 f2 rest fr ts',
    rev (sort_desc fl) = f1 :: f2 :: rest
    /\ MInv (rev rest ++ [(fr, t_len nodes)]) (push_node nodes (snd f1, snd f2)) ts'
    /\ fr = Z.min (fst f1 + fst f2) u32_max.
Proof.
  intros (Hp & Hr & Hl & Hlen & Hlast & Hsum) H2.
  assert (Hperm : Permutation fl (rev (sort_desc fl))).
  { etransitivity; [symmetry; apply sort_desc_perm|apply Permutation_rev]. }
  destruct (rev (sort_desc fl)) as [|f1 [|f2 rest]] eqn:Hs.
  - apply Permutation_length in Hperm. cbn in Hperm. lia.
  - apply Permutation_length in Hperm. cbn in Hperm. lia.
  - exists f1, f2, rest, (Z.min (fst f1 + fst f2) u32_max).
    assert (Hp2 : Permutation (map snd (f1 :: f2 :: rest)) (map root_idx ts)).
    { etransitivity; [|exact Hp]. apply Permutation_map. now symmetry. }
    apply Permutation_map_inv in Hp2 as (l3 & Heq & Hp3).
    destruct l3 as [|t1 [|t2 ts2]]; try discriminate. cbn [map] in Heq.
    injection Heq as E1 E2 E3.
    exists (Nd (t_len nodes) t1 t2 :: ts2). split; [reflexivity|]. split; [|reflexivity].
    assert (Hr3 : Forall (repr nodes) (t1 :: t2 :: ts2)) by (eapply Permutation_Forall; eassumption).
    inversion Hr3 as [|? ? Hr1 Hr3']; subst. inversion Hr3' as [|? ? Hr2 Hr4]; subst.
    unfold MInv. rewrite len_push. unfold NUM_SYMBOLS in *.
    split; [|split; [|split; [|split; [|split]]]].
    + rewrite map_app, map_rev. cbn [map snd root_idx]. rewrite E3.
      etransitivity; [apply Permutation_app_comm|]. cbn [app]. apply perm_skip.
      symmetry. apply Permutation_rev.
    + constructor.
      * cbn [repr]. unfold NUM_SYMBOLS. split; [lia|]. split; [|split; apply repr_push; auto; lia].
        rewrite lookup_push by lia. rewrite Z.eqb_refl. now rewrite E1, E2.
      * eapply Forall_impl; [|exact Hr4]. intros tr. apply repr_push. lia.
    + etransitivity; [|exact Hl]. etransitivity; [|symmetry; apply Permutation_flat_map; exact Hp3].
      cbn [flat_map leaves]. now rewrite app_assoc.
    + lia.
    + exists (rev rest), (Z.min (fst f1 + fst f2) u32_max). do 3 f_equal. lia.
    + apply Permutation_length in Hperm. cbn [length] in Hperm.
      rewrite app_length, rev_length. cbn [length]. lia.
Qed.

Lemma merge_loop_spec : forall fuel fl nodes ts,
  MInv fl nodes ts -> (1 <= length fl <= fuel)%nat ->
  exists nodes' e ts', merge_loop fuel fl nodes = Ok nodes' /\ MInv [e] nodes' ts'.
Proof.
  induction fuel as [|f IH]; intros fl nodes ts HI Hlen; [lia|].
  destruct fl as [|x [|y r]].
  - cbn in Hlen. lia.
  - exists nodes, x, ts. split; [reflexivity|exact HI].
  - destruct (merge_step _ _ _ HI ltac:(cbn; lia)) as (f1 & f2 & rest & fr & ts' & Hs & HI' & Hfr).
    cbn [merge_loop]. rewrite Hs. rewrite <- Hfr.
    assert (Hl' : length (rev rest ++ [(fr, t_len nodes)]) = S (length r)).
    { destruct HI as (_ & _ & _ & _ & _ & H1). destruct HI' as (_ & _ & _ & _ & _ & H2).
      rewrite len_push in H2. cbn [length] in H1. lia. }
    apply (IH _ _ _ HI'). cbn [length] in Hlen. lia.
Qed.

(* the state in which from_frequencies enters the loop *)
Lemma merge_init freqs : length freqs = 256%nat ->
  MInv (combine freqs (map Z.of_nat (seq 0 256)) ++ [(1, EOF)]) (of_list (repeat NODE_SENTINEL 257))
      (map Lf all_symbols).
Proof.
  intros Hlen. unfold MInv. rewrite len_of_list, repeat_length.
  assert (Hsnd : map snd (combine freqs (map Z.of_nat (seq 0 256)) ++ [(1, EOF)]) = all_symbols).
  { rewrite map_app. cbn [map snd].
    assert (Hc : forall (a : list Z) (b : list Z), length a = length b -> map snd (combine a b) = b).
    { induction a as [|x a IHa]; intros [|y b] Hab; try discriminate; [reflexivity|].
      cbn [combine map snd]. f_equal. apply IHa. now injection Hab. }
    rewrite Hc by (rewrite map_length, seq_length; exact Hlen).
    unfold all_symbols. change 257%nat with (256 + 1)%nat. rewrite seq_app, map_app. reflexivity. }
  split; [|split; [|split; [|split; [|split]]]].
  - rewrite Hsnd, map_map. cbn [root_idx]. now rewrite map_id.
  - apply Forall_forall. intros tr Hin. apply in_map_iff in Hin as (s & <- & Hs).
    cbn [repr]. unfold all_symbols in Hs. apply in_map_iff in Hs as (n & <- & Hn).
    apply in_seq in Hn. unfold NUM_SYMBOLS. lia.
  - rewrite flat_map_concat_map, map_map. cbn [leaves].
    rewrite <- flat_map_concat_map. clear. induction all_symbols as [|x l IH]; [reflexivity|].
    cbn [flat_map app]. now apply perm_skip.
  - unfold NUM_SYMBOLS. lia.
  - exists (combine freqs (map Z.of_nat (seq 0 256))), 1. reflexivity.
  - rewrite app_length, combine_length, map_length, seq_length, Hlen. cbn. lia.
Qed.

(* the loop ends with one tree over the 257 symbols, rooted at ROOT_IDX *)
Lemma merge_result freqs : length freqs = 256%nat ->
  exists nodes tr,
    merge_loop 300 (combine freqs (map Z.of_nat (seq 0 256)) ++ [(1, EOF)])
               (of_list (repeat NODE_SENTINEL 257)) = Ok nodes
    /\ t_len nodes = Z.of_nat NUM_NODES /\ root_idx tr = ROOT_IDX /\ repr nodes tr
    /\ Permutation (leaves tr) all_symbols.
Proof.
  intros Hlen. pose proof (merge_init freqs Hlen) as HI.
  destruct (merge_loop_spec 300 _ _ _ HI) as (nodes & e & ts & Hm & HI').
  { destruct HI as (_ & _ & _ & _ & _ & H). rewrite len_of_list, repeat_length in H. lia. }
  destruct HI' as (Hp & Hr & Hl & _ & (fl0 & f & Hlast) & Hsum).
  cbn [length] in Hsum.
  assert (fl0 = []) as ->.
  { destruct fl0 as [|? [|? ?]]; [reflexivity|discriminate|discriminate]. }
  cbn [app] in Hlast. injection Hlast as ->. cbn [map snd] in Hp.
  apply Permutation_length_1_inv in Hp.
  destruct ts as [|tr [|? ?]]; try discriminate. injection Hp as Hroot.
  exists nodes, tr. split; [exact Hm|]. split; [unfold NUM_NODES; lia|].
  split; [unfold ROOT_IDX; lia|]. split; [now inversion Hr|].
  cbn [flat_map] in Hl. now rewrite app_nil_r in Hl.
Qed.


(* ---------- the bit set `bits` of the walk ---------- *)

Lemma pow2_testbit k i : 0 <= k -> 0 <= i -> Z.testbit (2 ^ k) i = (i =? k).
Proof. intros Hk Hi. rewrite Z.pow2_bits_eqb by lia. apply Z.eqb_sym. Qed.

Lemma bit_clear bits k : 0 <= k -> 0 <= bits < 2 ^ k -> Z.land bits (Z.shiftl 1 k) = 0.
Proof.
  intros Hk Hb. rewrite Z.shiftl_1_l. apply Z.bits_inj'. intros i Hi.
  rewrite Z.land_spec, pow2_testbit, Z.bits_0 by lia.
  destruct (Z.eqb_spec i k) as [->|]; [|apply andb_false_r].
  rewrite (testbit_small bits k k) by lia. reflexivity.
Qed.

Lemma bit_set_range bits k : 0 <= k -> 0 <= bits < 2 ^ k ->
  0 <= Z.lor bits (Z.shiftl 1 k) < 2 ^ (k + 1).
Proof.
  intros Hk Hb. rewrite lor_shiftl_low by lia. rewrite Z.pow_add_r by lia. lia.
Qed.

Lemma bit_set_test bits k : 0 <= k -> 0 <= bits < 2 ^ k ->
  Z.land (Z.lor bits (Z.shiftl 1 k)) (Z.shiftl 1 k) <> 0.
Proof.
  intros Hk Hb E. assert (Ht : Z.testbit (Z.land (Z.lor bits (Z.shiftl 1 k)) (Z.shiftl 1 k)) k = true).
  { rewrite Z.land_spec, Z.lor_spec, Z.shiftl_1_l, pow2_testbit, Z.eqb_refl by lia.
    now rewrite orb_true_r. }
  rewrite E, Z.bits_0 in Ht. discriminate.
Qed.

Lemma bit_set_clear bits k : 0 <= k -> 0 <= bits < 2 ^ k ->
  Z.ldiff (Z.lor bits (Z.shiftl 1 k)) (Z.shiftl 1 k) = bits.
Proof.
  intros Hk Hb. apply Z.bits_inj'. intros i Hi.
  rewrite Z.ldiff_spec, Z.lor_spec, Z.shiftl_1_l, pow2_testbit by lia.
  destruct (Z.eqb_spec i k) as [->|].
  - rewrite (testbit_small bits k k) by lia. reflexivity.
  - cbn [negb]. now rewrite orb_false_r, andb_true_r.
Qed.

Lemma bits_of_snoc v k : bits_of v 0 (S k) = bits_of v 0 k ++ [Z.testbit v (Z.of_nat k)].
Proof.
  replace (S k) with (k + 1)%nat by lia. rewrite bits_of_app. cbn [bits_of]. reflexivity.
Qed.

Lemma bits_left bits k : 0 <= bits < 2 ^ Z.of_nat k ->
  bits_of bits 0 (S k) = bits_of bits 0 k ++ [false].
Proof. intros Hb. rewrite bits_of_snoc. rewrite (testbit_small bits (Z.of_nat k)) by lia. reflexivity. Qed.

Lemma bits_right bits k : 0 <= bits < 2 ^ Z.of_nat k ->
  bits_of (Z.lor bits (Z.shiftl 1 (Z.of_nat k))) 0 (S k) = bits_of bits 0 k ++ [true].
Proof.
  intros Hb. rewrite bits_of_snoc. f_equal.
  - apply bits_of_ext. intros i Hi. rewrite Z.lor_spec, Z.shiftl_1_l, pow2_testbit by lia.
    destruct (Z.eqb_spec (0 + i) (Z.of_nat k)); [lia|]. apply orb_false_r.
  - rewrite Z.lor_spec, Z.shiftl_1_l, pow2_testbit, Z.eqb_refl by lia. now rewrite orb_true_r.
Qed.

(* SymbolRepr::to_node followed by Node::to_symbol_repr *)
Lemma to_node_ok bits n : 0 <= bits < 2 ^ 24 ->
  to_node bits n = Some (Z.lor (Z.shiftl n 8) (Z.shiftr bits 16), Z.land bits 65535).
Proof.
  intros Hb. unfold to_node. rewrite shiftr_div by lia.
  rewrite Z.div_small by lia. reflexivity.
Qed.

Lemma to_symbol_repr_to_node bits n : 0 <= bits < 2 ^ 24 -> 0 <= n ->
  to_symbol_repr (Z.lor (Z.shiftl n 8) (Z.shiftr bits 16), Z.land bits 65535) = (bits, n).
Proof.
  intros Hb Hn. unfold to_symbol_repr. cbn [fst snd].
  assert (Hhi : 0 <= Z.shiftr bits 16 < 2 ^ 8).
  { rewrite shiftr_div by lia. split; [apply Z.div_pos; lia|].
    apply Z.div_lt_upper_bound; [lia|]. change (2 ^ 16 * 2 ^ 8) with (2 ^ 24). lia. }
  f_equal.
  - apply Z.bits_inj'. intros i Hi.
    rewrite Z.lor_spec. change 65535 with (Z.ones 16). change 255 with (Z.ones 8).
    rewrite Z.land_spec. destruct (Z.ltb_spec i 16).
    + rewrite Z.shiftl_spec_low by lia. rewrite Z.ones_spec_low by lia. now rewrite andb_true_r.
    + rewrite Z.shiftl_spec by lia. rewrite Z.ones_spec_high by lia. rewrite andb_false_r, orb_false_r.
      rewrite Z.land_spec, Z.lor_spec. rewrite Z.shiftl_spec by lia.
      destruct (Z.ltb_spec (i - 16) 8).
      * rewrite Z.ones_spec_low by lia. rewrite andb_true_r.
        rewrite (Z.testbit_neg_r n) by lia. cbn [orb]. rewrite Z.shiftr_spec by lia. f_equal. lia.
      * rewrite Z.ones_spec_high by lia. rewrite andb_false_r.
        symmetry. apply (testbit_small bits 24); lia.
  - rewrite Z.shiftr_lor. rewrite Z.shiftr_shiftl_l by lia. rewrite Z.sub_diag, Z.shiftl_0_r.
    rewrite Z.shiftr_shiftr by lia. rewrite (shiftr_div bits) by lia.
    rewrite (Z.div_small bits) by (change (2 ^ (16 + 8)) with (2 ^ 24); lia). apply Z.lor_0_r.
Qed.

Lemma NoDup_app_disj {A} (l1 l2 : list A) x : NoDup (l1 ++ l2) -> In x l1 -> In x l2 -> False.
Proof.
  induction l1 as [|y l1 IH]; cbn [app In]; [tauto|].
  intros H [->|Hin] H2; inversion H; subst.
  - apply H3. apply in_or_app. auto.
  - eauto.
Qed.

Lemma NoDup_app_parts {A} (l1 l2 : list A) : NoDup (l1 ++ l2) -> NoDup l1 /\ NoDup l2.
Proof.
  induction l1 as [|y l1 IH]; cbn [app]; [split; [constructor|assumption]|].
  intros H. inversion H as [|? ? Hn Hd]; subst. destruct (IH Hd) as [H1 H2]. split; [|exact H2].
  constructor; [|exact H1]. intros Hin. apply Hn. apply in_or_app. auto.
Qed.

(* ---------- (3): the depth-first walk ---------- *)

(* one visit of the `while top >= NUM_SYMBOLS` loop and the assignment after it, then the
   rest of the outer loop *)
Definition enter (d f : nat) (nodes : table) (stack : list Z) (top bits : Z) : res unit table :=
  match descend d nodes stack top with
  | Ok (stack'', leaf) =>
    match to_node bits (Z.of_nat (length stack'')) with
    | None => Panic site_to_node
    | Some v =>
      match set_node nodes leaf v with
      | None => Panic site_ff_index
      | Some nodes' => dfs f nodes' stack'' leaf bits false
      end
    end
  | Err e => Err e | Panic p => Panic p | OutOfFuel => OutOfFuel
  end.

Lemma dfs_S f nodes stack top bits first :
  dfs (S f) nodes stack top bits first =
  match dfs_pre nodes stack top bits first with
  | PBreak => Ok nodes
  | PPanic p => Panic p
  | PContinue stack' top' bits' => dfs f nodes stack' top' bits' false
  | PDown stack' top' bits' => enter 30 f nodes stack' top' bits'
  end.
Proof. reflexivity. Qed.

Lemma descend_leaf d nodes stack top : top < NUM_SYMBOLS -> descend d nodes stack top = Ok (stack, top).
Proof. intros H. destruct d; cbn [descend]; destruct (Z.ltb_spec top NUM_SYMBOLS); try lia; reflexivity. Qed.

Lemma descend_inner d nodes stack top nd : NUM_SYMBOLS <= top -> lookup nodes top = Some nd ->
  descend (S d) nodes stack top =
  if (STACK_CAP <=? length stack)%nat then Panic site_stack_push else descend d nodes (top :: stack) (fst nd).
Proof.
  intros H Hl. cbn [descend]. destruct (Z.ltb_spec top NUM_SYMBOLS); [lia|]. now rewrite Hl.
Qed.

(* what the walk has stored at a leaf reached by `pre ++ q` *)
Definition leaf_ok (nd : node) (pre q : list bool) : Prop :=
  snd (to_symbol_repr nd) = Z.of_nat (length pre + length q)
  /\ 0 <= fst (to_symbol_repr nd) < 2 ^ snd (to_symbol_repr nd)
  /\ code_of (to_symbol_repr nd) = pre ++ q.

Definition Post (nodes nodes' : table) (tr : tree) (pre : list bool) : Prop :=
  t_len nodes' = t_len nodes
  /\ (forall j, ~ In j (leaves tr) -> lookup nodes' j = lookup nodes j)
  /\ (forall q s, tpath tr q s -> exists nd, lookup nodes' s = Some nd /\ leaf_ok nd pre q).

Lemma enter_tree : forall tr nodes, repr nodes tr -> NoDup (leaves tr) -> NUM_SYMBOLS <= t_len nodes ->
  forall d fuel stack bits,
  (length stack <= 24)%nat -> (25 <= d + length stack)%nat ->
  0 <= bits < 2 ^ Z.of_nat (length stack) ->
  if (height tr + length stack <=? 24)%nat
  then exists nodes',
         enter d (cost tr + fuel) nodes stack (root_idx tr) bits = dfs fuel nodes' stack (root_idx tr) bits false
         /\ Post nodes nodes' tr (bits_of bits 0 (length stack))
  else enter d (cost tr + fuel) nodes stack (root_idx tr) bits = Panic site_stack_push.
Proof.
  induction tr as [s|i a IHa b IHb]; intros nodes Hr Hdup Hlen d fuel stack bits Hk Hd Hb.
  - (* a leaf: store (bits, length stack) *)
    cbn [height cost root_idx Nat.add]. cbn [repr] in Hr.
    destruct (Nat.leb_spec (length stack) 24); [|lia].
    assert (Hb24 : 0 <= bits < 2 ^ 24).
    { assert (2 ^ Z.of_nat (length stack) <= 2 ^ 24) by (apply Z.pow_le_mono_r; lia). lia. }
    unfold enter. rewrite descend_leaf by lia. rewrite to_node_ok by exact Hb24.
    destruct (set_node nodes s (Z.lor (Z.shiftl (Z.of_nat (length stack)) 8) (Z.shiftr bits 16), Z.land bits 65535))
      as [nodes'|] eqn:Hset.
    2:{ unfold set_node in Hset. unfold NUM_SYMBOLS in *.
        destruct (Z.leb_spec 0 s), (Z.ltb_spec s (t_len nodes)); cbn [andb] in Hset; try discriminate; lia. }
    exists nodes'. split; [reflexivity|].
    split; [apply (lookup_set _ _ _ _ 0 Hset)|]. split.
    + intros j Hj. destruct (lookup_set _ _ _ _ j Hset) as [_ ->].
      destruct (Z.eqb_spec j s) as [->|]; [|reflexivity]. exfalso. apply Hj. now left.
    + intros q s' [-> <-]. destruct (lookup_set _ _ _ _ s Hset) as [_ Hls].
      rewrite Z.eqb_refl in Hls. eexists. split; [exact Hls|].
      unfold leaf_ok. rewrite to_symbol_repr_to_node by lia. cbn [fst snd length].
      rewrite bits_of_length, Nat.add_0_r, app_nil_r. split; [reflexivity|]. split; [exact Hb|].
      unfold code_of. cbn [fst snd]. now rewrite Nat2Z.id.
  - (* an inner node *)
    cbn [repr] in Hr. destruct Hr as (Hi & Hl & Ha & Hb').
    cbn [leaves] in Hdup. cbn [height cost root_idx].
    set (k := length stack) in *.
    assert (HdS : exists d', d = S d') by (destruct d; [lia|eauto]). destruct HdS as [d' ->].
    assert (Hent : enter (S d') (cost a + S (cost b + 1) + fuel) nodes stack i bits =
            if (STACK_CAP <=? k)%nat then Panic site_stack_push
            else enter d' (cost a + S (cost b + 1) + fuel) nodes (i :: stack) (root_idx a) bits).
    { unfold enter. rewrite (descend_inner _ _ _ _ _ Hi Hl). cbn [fst]. fold k.
      destruct (STACK_CAP <=? k)%nat; reflexivity. }
    rewrite Hent. unfold STACK_CAP. destruct (Nat.leb_spec 24 k) as [Hfull|Hroom].
    { destruct (Nat.leb_spec (S (Nat.max (height a) (height b)) + k) 24); [lia|reflexivity]. }
    (* the left subtree *)
    destruct (NoDup_app_parts _ _ Hdup) as [Hnda Hndb].
    assert (Hbits1 : 0 <= bits < 2 ^ Z.of_nat (length (i :: stack))).
    { cbn [length]. fold k. assert (2 ^ Z.of_nat k <= 2 ^ Z.of_nat (S k)) by (apply Z.pow_le_mono_r; lia). lia. }
    pose proof (IHa nodes Ha Hnda Hlen d' (S (cost b + 1) + fuel)%nat (i :: stack) bits
                 ltac:(cbn [length]; fold k; lia) ltac:(cbn [length]; fold k; lia) Hbits1) as IH1.
    replace (cost a + (S (cost b + 1) + fuel))%nat with (cost a + S (cost b + 1) + fuel)%nat in IH1 by lia.
    cbn [length] in IH1. fold k in IH1.
    destruct (Nat.leb_spec (height a + S k) 24) as [Hha|Hha].
    2:{ rewrite IH1. destruct (Nat.leb_spec (S (Nat.max (height a) (height b)) + k) 24); [lia|reflexivity]. }
    destruct IH1 as (nodes_a & E1 & Hlen_a & Hsame_a & Hleaf_a). rewrite E1. clear E1.
    assert (Hinner_a : forall j, NUM_SYMBOLS <= j -> lookup nodes_a j = lookup nodes j).
    { intros j Hj. apply Hsame_a. intros Hin. pose proof (leaves_range _ _ _ Ha Hin). lia. }
    (* back at i from the left: bit k is clear, go right *)
    replace (S (cost b + 1) + fuel)%nat with (S (cost b + S fuel)) by lia. rewrite dfs_S.
    unfold dfs_pre. fold k. rewrite (bit_clear bits (Z.of_nat k)) by lia. cbn [Z.eqb negb].
    unfold STACK_CAP. destruct (Nat.leb_spec 24 k); [lia|].
    rewrite Hinner_a, Hl by exact Hi. cbn [snd].
    pose proof (bit_set_range bits (Z.of_nat k) ltac:(lia) Hb) as Hbits2.
    assert (Hrb : repr nodes_a b) by (eapply repr_ext; eassumption).
    pose proof (IHb nodes_a Hrb Hndb ltac:(lia) 30%nat (S fuel) (i :: stack) (Z.lor bits (Z.shiftl 1 (Z.of_nat k)))
                 ltac:(cbn [length]; fold k; lia) ltac:(cbn [length]; fold k; lia)
                 ltac:(cbn [length]; fold k; rewrite Nat2Z.inj_succ; exact Hbits2)) as IH2.
    cbn [length] in IH2. fold k in IH2.
    destruct (Nat.leb_spec (height b + S k) 24) as [Hhb|Hhb].
    2:{ rewrite IH2. destruct (Nat.leb_spec (S (Nat.max (height a) (height b)) + k) 24); [lia|reflexivity]. }
    destruct IH2 as (nodes_ab & E2 & Hlen_b & Hsame_b & Hleaf_b). rewrite E2. clear E2.
    destruct (Nat.leb_spec (S (Nat.max (height a) (height b)) + k) 24); [|lia].
    (* back at i from the right: bit k is set, clear it and go up *)
    rewrite dfs_S. unfold dfs_pre. fold k.
    destruct (Z.eqb_spec (Z.land (Z.lor bits (Z.shiftl 1 (Z.of_nat k))) (Z.shiftl 1 (Z.of_nat k))) 0) as [E|_].
    { exfalso. revert E. apply bit_set_test; lia. }
    cbn [negb]. rewrite bit_set_clear by lia.
    exists nodes_ab. split; [reflexivity|]. split; [lia|]. split.
    + intros j Hj. rewrite Hsame_b, Hsame_a; [reflexivity| |]; intros Hin; apply Hj, in_or_app; auto.
    + intros q s Hq. cbn [tpath] in Hq. destruct q as [|[] q']; [destruct Hq| |].
      * destruct (Hleaf_b _ _ Hq) as (nd & Hnd & Hlen' & Hrange & Hcode). exists nd. split; [exact Hnd|].
        rewrite bits_right in Hcode by exact Hb. rewrite <- app_assoc in Hcode. cbn [app] in Hcode.
        unfold leaf_ok. rewrite bits_of_length in *. cbn [length] in *. repeat split; try tauto; lia.
      * destruct (Hleaf_a _ _ Hq) as (nd & Hnd & Hlen' & Hrange & Hcode). exists nd. split.
        { rewrite Hsame_b; [exact Hnd|]. intros Hin.
          apply tpath_leaf in Hq. exact (NoDup_app_disj _ _ _ Hdup Hq Hin). }
        rewrite bits_left in Hcode by exact Hb. rewrite <- app_assoc in Hcode. cbn [app] in Hcode.
        unfold leaf_ok. rewrite bits_of_length in *. cbn [length] in *. repeat split; try tauto; lia.
Qed.


(* ---------- (4): the finished table ---------- *)

Lemma subtree_ok_S' t d idx :
  subtree_ok t (S d) idx =
  if idx <? NUM_SYMBOLS then 0 <=? idx else
  match lookup t idx with
  | Some nd => subtree_ok t d (fst nd) && subtree_ok t d (snd nd)
  | None => false
  end.
Proof. reflexivity. Qed.

Lemma repr_subtree_ok t tr : repr t tr -> forall d, (height tr <= d)%nat ->
  subtree_ok t d (root_idx tr) = true.
Proof.
  induction tr as [s|i a IHa b IHb]; cbn [repr height root_idx].
  - intros Hs d _. destruct d; cbn [subtree_ok]; destruct (Z.ltb_spec s NUM_SYMBOLS); try lia;
      apply Z.leb_le; lia.
  - intros (Hi & Hl & Ha & Hb) d Hd. destruct d as [|d]; [lia|]. rewrite subtree_ok_S'.
    destruct (Z.ltb_spec i NUM_SYMBOLS); [lia|]. rewrite Hl. cbn [fst snd].
    rewrite IHa, IHb by (auto; lia). reflexivity.
Qed.

Lemma depths_ok_S' t d idx depth :
  depths_ok t (S d) idx depth =
  if idx <? NUM_SYMBOLS then
    match lookup t idx with Some nd => snd (to_symbol_repr nd) =? depth | None => false end
  else match lookup t idx with
       | Some nd => depths_ok t d (fst nd) (depth + 1) && depths_ok t d (snd nd) (depth + 1)
       | None => false
       end.
Proof. reflexivity. Qed.

Lemma leaf_ok_shift nd pre b q : leaf_ok nd pre (b :: q) -> leaf_ok nd (pre ++ [b]) q.
Proof.
  unfold leaf_ok. rewrite app_length, <- app_assoc. cbn [length app]. intros (H1 & H2 & H3).
  repeat split; try tauto. lia.
Qed.

Lemma repr_depths_ok t tr : repr t tr -> forall d pre, (height tr <= d)%nat ->
  (forall q s, tpath tr q s -> exists nd, lookup t s = Some nd /\ leaf_ok nd pre q) ->
  depths_ok t d (root_idx tr) (Z.of_nat (length pre)) = true.
Proof.
  induction tr as [s|i a IHa b IHb]; cbn [repr height root_idx].
  - intros Hs d pre _ H. destruct (H [] s) as (nd & Hl & Hlen & _); [cbn; auto|].
    cbn [length] in Hlen. rewrite Nat.add_0_r in Hlen.
    destruct d; cbn [depths_ok]; destruct (Z.ltb_spec s NUM_SYMBOLS); try lia; rewrite Hl; apply Z.eqb_eq; exact Hlen.
  - intros (Hi & Hl & Ha & Hb) d pre Hd H. destruct d as [|d]; [lia|]. rewrite depths_ok_S'.
    destruct (Z.ltb_spec i NUM_SYMBOLS); [lia|]. rewrite Hl. cbn [fst snd].
    replace (Z.of_nat (length pre) + 1) with (Z.of_nat (length (pre ++ [false])))
      by (rewrite app_length; cbn [length]; lia).
    rewrite (IHa Ha d (pre ++ [false])); [| lia |].
    2:{ intros q s Hq. destruct (H (false :: q) s Hq) as (nd & Hnd & Hok). exists nd. split; [exact Hnd|].
        now apply leaf_ok_shift. }
    replace (length (pre ++ [false])) with (length (pre ++ [true])) by (rewrite !app_length; reflexivity).
    rewrite (IHb Hb d (pre ++ [true])); [reflexivity | lia |].
    intros q s Hq. destruct (H (true :: q) s Hq) as (nd & Hnd & Hok). exists nd. split; [exact Hnd|].
    now apply leaf_ok_shift.
Qed.

Lemma cost_leaves tr : (cost tr + 2 = 2 * length (leaves tr))%nat.
Proof.
  induction tr as [s|i a IHa b IHb]; cbn [cost leaves length]; [reflexivity|].
  rewrite app_length. lia.
Qed.

Lemma all_symbols_NoDup : NoDup all_symbols.
Proof.
  unfold all_symbols. apply Injective_map_NoDup; [|apply seq_NoDup].
  intros x y. apply Nat2Z.inj.
Qed.

Lemma all_symbols_length : length all_symbols = 257%nat.
Proof. unfold all_symbols. now rewrite map_length, seq_length. Qed.

(* a tree over all symbols whose leaves carry their paths is a well-formed table *)
Lemma tree_wf t tr : t_len t = Z.of_nat NUM_NODES -> repr t tr -> root_idx tr = ROOT_IDX ->
  (height tr <= 24)%nat -> Permutation (leaves tr) all_symbols ->
  (forall q s, tpath tr q s -> exists nd, lookup t s = Some nd /\ leaf_ok nd [] q) ->
  wf_table t = true /\ depths_ok t 24 ROOT_IDX 0 = true.
Proof.
  intros Hlen Hr Hroot Hh Hperm Hleaf. split.
  - unfold wf_table. rewrite Hlen, Z.eqb_refl. cbn [andb]. rewrite <- Hroot.
    rewrite (repr_subtree_ok t tr Hr 24%nat Hh). cbn [andb].
    apply forallb_forall. intros s Hs.
    assert (Hin : In s (leaves tr)) by (eapply Permutation_in; [symmetry; exact Hperm|exact Hs]).
    destruct (leaf_tpath tr s Hin) as [q Hq].
    destruct (Hleaf q s Hq) as (nd & Hnd & Hl & Hrange & Hcode).
    pose proof (tpath_height tr q s Hq) as Hqh. pose proof (tpath_walk t tr Hr q s Hq) as Hw. rewrite Hroot in Hw.
    cbn [app length Nat.add] in Hl, Hcode.
    assert (q <> []).
    { intros ->. destruct tr as [s'|i a b]; cbn [tpath] in Hq; [|tauto].
      cbn [root_idx repr] in *. unfold ROOT_IDX, NUM_SYMBOLS in *. lia. }
    assert (1 <= length q)%nat by (destruct q; [congruence|cbn; lia]).
    unfold sym_ok. rewrite Hnd. rewrite Hcode, Hw, Z.eqb_refl.
    destruct (Z.leb_spec 1 (snd (to_symbol_repr nd))); [|lia].
    destruct (Z.leb_spec (snd (to_symbol_repr nd)) 24); [|lia].
    destruct (Z.leb_spec 0 (fst (to_symbol_repr nd))); [|lia].
    destruct (Z.ltb_spec (fst (to_symbol_repr nd)) (2 ^ snd (to_symbol_repr nd))); [|lia].
    reflexivity.
  - rewrite <- Hroot. apply (repr_depths_ok t tr Hr 24%nat [] Hh Hleaf).
Qed.

(* ---------- from_frequencies ---------- *)

Theorem from_frequencies_outcome freqs : length freqs = 256%nat ->
  (exists t, from_frequencies freqs = Ok t /\ wf_table t = true /\ depths_ok t 24 ROOT_IDX 0 = true)
  \/ from_frequencies freqs = Panic site_stack_push.
Proof.
  intros Hlen. destruct (merge_result freqs Hlen) as (nodes & tr & Hm & Hn & Hroot & Hr & Hperm).
  unfold from_frequencies. rewrite Hlen. cbn [Nat.eqb negb]. rewrite Hm.
  assert (Hdup : NoDup (leaves tr)).
  { eapply Permutation_NoDup; [symmetry; exact Hperm|apply all_symbols_NoDup]. }
  assert (Hcost : cost tr = 512%nat).
  { pose proof (cost_leaves tr) as Hc. rewrite (Permutation_length Hperm), all_symbols_length in Hc. lia. }
  assert (Hn' : NUM_SYMBOLS <= t_len nodes) by (rewrite Hn; unfold NUM_SYMBOLS, NUM_NODES; lia).
  assert (H1 : (length (@nil Z) <= 24)%nat) by (cbn [length]; lia).
  assert (H2 : (25 <= 30 + length (@nil Z))%nat) by (cbn [length]; lia).
  assert (H3 : 0 <= 0 < 2 ^ Z.of_nat (length (@nil Z))) by (cbn [length]; lia).
  pose proof (enter_tree tr nodes Hr Hdup Hn' 30%nat 3487%nat [] 0 H1 H2 H3) as Hdfs.
  rewrite Hroot in Hdfs.
  assert (Hstart : dfs 4000 nodes [] ROOT_IDX 0 true = enter 30 (cost tr + 3487) nodes [] ROOT_IDX 0).
  { rewrite Hcost. change 4000%nat with (S (512 + 3487)). rewrite dfs_S. reflexivity. }
  rewrite Hstart. cbn [length] in Hdfs. rewrite Nat.add_0_r in Hdfs.
  destruct (Nat.leb_spec (height tr) 24) as [Hh|Hh].
  - left. destruct Hdfs as (t & E & Hlen' & Hsame & Hleaf). rewrite E.
    change 3487%nat with (S 3486). rewrite dfs_S. cbn [dfs_pre].
    rewrite Hlen', Hn, Z.eqb_refl. exists t. split; [reflexivity|].
    apply (tree_wf t tr); try assumption; [lia|].
    eapply repr_ext; [|exact Hr]. intros j Hj. apply Hsame. intros Hin.
    pose proof (leaves_range _ _ _ Hr Hin). lia.
  - right. rewrite Hdfs. reflexivity.
Qed.

Theorem from_frequencies_wf freqs t : from_frequencies freqs = Ok t ->
  wf_table t = true /\ depths_ok t 24 ROOT_IDX 0 = true.
Proof.
  intros H. destruct (Nat.eqb_spec (length freqs) 256) as [Hlen|Hlen].
  - destruct (from_frequencies_outcome freqs Hlen) as [(t' & E & Hwf)|E]; rewrite E in H; [|discriminate].
    injection H as <-. exact Hwf.
  - unfold from_frequencies in H. apply Nat.eqb_neq in Hlen. rewrite Hlen in H. discriminate.
Qed.

Theorem from_frequencies_len_panic freqs : length freqs <> 256%nat ->
  from_frequencies freqs = Panic site_ff_len.
Proof. intros Hlen. unfold from_frequencies. apply Nat.eqb_neq in Hlen. now rewrite Hlen. Qed.

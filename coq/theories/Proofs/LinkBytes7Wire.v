(* What a 0.7 endpoint holds and emits is made of bytes, as long as what it is given is: an
   invariant of Conn7.step7 used by the byte-level link (C01 over bytes, 0.7). That every 0.7
   datagram carries well-formed tokens is Proofs/Conn7Emit.v; this file only adds byte-ness.
   The lemmas about the shared online core are those of Proofs/LinkBytes6Wire.v. *)
From LibTw2 Require Import Base.Res Model.PacketTypes Model.ConnCore Model.Conn7
  Proofs.ConnCoreInv Proofs.Conn7Inv Proofs.ConnBytes7 Proofs.Conn7Emit Proofs.LinkBytes6Wire.
From Coq Require Import ZArith Lia Bool List.
Open Scope Z_scope.

Definition obytes (t : option token) : Prop := match t with Some x => bytesP x | None => True end.

Definition wire_control7 (c : control) : Prop :=
  match c with Close r | TokenMsg r => bytesP r | Connect resp => obytes resp | _ => True end.

Definition wire_dgram7 (d : dgram) : Prop :=
  match d with
  | DConnless tok resp p => obytes tok /\ obytes resp /\ bytesP p
  | DControl tok _ c => obytes tok /\ wire_control7 c
  | DChunks tok _ _ _ cs => obytes tok /\ Forall chunk_bytes cs
  end.

Definition wire_state7 (st : state7) : Prop :=
  match st with
  | Token7 own | PendingConnect7 own => bytesP own
  | Connecting7 own their | Pending7 own their => bytesP own /\ bytesP their
  | Online7 o => wire_online o
  | _ => True
  end.

Definition wire_op7 (o : op7) : Prop :=
  match o with
  | Op7Send d _ | Op7SendConnless d | Op7Disconnect d => bytesP d
  | Op7Feed d => wire_dgram7 d
  | _ => True
  end.

Definition wire_out7 (out : outcome7) : Prop :=
  wire_state7 (c7_state (out7_conn out)) /\ Forall bytesP (e_rand (out7_env out)) /\ Forall wire_dgram7 (out7_sent out).

Lemma mk7_wire c e ds evs ws r : wire_state7 (c7_state c) -> Forall bytesP (e_rand e) -> Forall wire_dgram7 ds ->
  wire_out7 (mk7 c e ds evs ws r).
Proof. intros H1 H2 H3. split; [exact H1|split; [exact H2|exact H3]]. Qed.

Lemma tok_bytes_obytes t : tok_bytes t -> obytes t.
Proof. intros [x [-> H]]. exact H. Qed.

(* the online core emits chunk datagrams only *)
Lemma chunks_wire7 t ds : Forall wire_dgram ds -> Forall (chunks_tok t) ds -> Forall wire_dgram7 ds.
Proof.
  intros H1 H2. rewrite Forall_forall in *. intros d Hin. specialize (H1 d Hin). specialize (H2 d Hin).
  destruct d; cbn [chunks_tok] in H2; try contradiction. destruct H1 as [Ht Hc].
  split; [apply tok_bytes_obytes, Ht|exact Hc].
Qed.

Lemma online_new_wire7 own their : bytesP own -> bytesP their -> wire_online (online_new (Some own) (Some their)).
Proof.
  intros H1 H2. unfold wire_online, online_new. cbn.
  split; [exists own; split; [reflexivity|exact H1]|]. split; [exists their; split; [reflexivity|exact H2]|].
  repeat split; constructor.
Qed.

Lemma send_control_with7_wire st c tok ds : send_control_with7 st c tok = Ok ds ->
  bytesP tok -> wire_control7 c -> Forall wire_dgram7 ds.
Proof.
  unfold send_control_with7. intros H Ht Hc.
  destruct (match c with Connect (Some r) | TokenMsg r => tokb r TOKEN_NONE | _ => false end); [discriminate|].
  destruct (MAX_PACKETSIZE <? _); [discriminate|]. injection H as <-.
  constructor; [|constructor]. split; [exact Ht|exact Hc].
Qed.

Lemma their_bytes st : wire_state7 st -> bytesP (match their_token st with Some t => t | None => TOKEN_NONE end).
Proof.
  destruct st as [|own|own|own their|own their|o|]; cbn [their_token wire_state7]; try (intros _; reflexivity).
  - intros [_ H]. exact H.
  - intros [_ H]. exact H.
  - intros (_ & [x [-> H]] & _). exact H.
Qed.

Lemma send_control7_wire st c ds : send_control7 st c = Ok ds -> wire_state7 st -> wire_control7 c ->
  Forall wire_dgram7 ds.
Proof. unfold send_control7. intros H Hw Hc. eapply send_control_with7_wire; [exact H|apply their_bytes, Hw|exact Hc]. Qed.

Lemma tick_action7_wire c e out : tick_action7 c e = Ok out -> wire_state7 (c7_state c) -> Forall bytesP (e_rand e) ->
  wire_out7 out.
Proof.
  unfold tick_action7. intros H Hw Hr.
  destruct (c7_state c) as [|own|own|own their|own their|o|] eqn:Es;
    try (injection H as <-; apply mk7_wire; [rewrite Es; exact Hw|exact Hr|constructor]).
  - apply bind_ok in H as [d [H1 H2]]. injection H2 as <-.
    apply mk7_wire; [cbn; rewrite Es; exact Hw|exact Hr|]. eapply send_control7_wire; [exact H1|exact Hw|exact Hw].
  - apply bind_ok in H as [d [H1 H2]]. injection H2 as <-.
    apply mk7_wire; [cbn; rewrite Es; exact Hw|exact Hr|]. eapply send_control7_wire; [exact H1|exact Hw|apply Hw].
  - apply bind_ok in H as [d [H1 H2]]. injection H2 as <-.
    apply mk7_wire; [cbn; rewrite Es; exact Hw|exact Hr|]. eapply send_control7_wire; [exact H1|exact Hw|exact I].
  - destruct (can_send o).
    + apply bind_ok in H as [[o' d] [H1 H2]]. injection H2 as <-.
      destruct (flush_wire _ _ _ _ H1 Hw) as [Hw' Hd]. apply online_flush_emit in H1 as [H1 _].
      apply mk7_wire; [exact Hw'|exact Hr|eapply chunks_wire7; eassumption].
    + apply bind_ok in H as [d [H1 H2]]. injection H2 as <-.
      apply mk7_wire; [cbn; rewrite Es; exact Hw|exact Hr|]. eapply send_control7_wire; [exact H1|exact Hw|exact I].
Qed.

Lemma do_resend7_wire c e o c' ds : do_resend7 c e o = Ok (c', ds) -> wire_online o ->
  (exists o', c7_state c' = Online7 o' /\ wire_online o') /\ Forall wire_dgram7 ds.
Proof.
  unfold do_resend7. intros H Hw. apply bind_ok in H as [[[o' d] timer] [H1 H2]]. injection H2 as <- <-.
  destruct (resend_wire _ _ _ _ _ _ H1 Hw) as [Hw' Hd]. apply online_resend_emit in H1.
  split; [exists o'; split; [reflexivity|exact Hw']|eapply chunks_wire7; eassumption].
Qed.

Lemma token_random7_wire rnd : forall t r, token_random7 rnd = Ok (t, r) -> Forall bytesP rnd ->
  bytesP t /\ Forall bytesP r.
Proof.
  induction rnd as [|x rnd IH]; intros t r H Hr; cbn [token_random7] in H; [discriminate|].
  inversion Hr as [|x0 r0 Hx Hrest]; subst.
  destruct (tokb x TOKEN_NONE); [apply IH; assumption|]. injection H as <- <-. split; assumption.
Qed.

Lemma feed_chunks_tail_wire (c2 : conn7) e o rr cs out :
  wire_online o -> Forall bytesP (e_rand e) ->
  (let* (c3, sent) := (if rr : bool then do_resend7 c2 e o else Ok (c2, [])) in
   match c7_state c3 with
   | Online7 o3 =>
     let* (ack', rr', evs) := recv_chunks (o_ack o3) (o_rr o3) cs in
     Ok (mk7 {| c7_state := Online7 (o_set_ack o3 ack' rr'); c7_send := c7_send c3 |} e sent evs [] R7Ok)
   | _ => Ok (mk7 c3 e sent [] [] R7Ok)
   end) = Ok out ->
  c7_state c2 = Online7 o -> wire_out7 out.
Proof.
  intros Hw Hr H Hc2. apply bind_ok in H as [[c3 sent] [H1 H2]].
  assert (Hs : (exists o3, c7_state c3 = Online7 o3 /\ wire_online o3) /\ Forall wire_dgram7 sent).
  { destruct rr; [eapply do_resend7_wire; eassumption|].
    injection H1 as <- <-. split; [exists o; split; assumption|constructor]. }
  destruct Hs as [[o3 [Eo3 Hw3]] Hsent]. rewrite Eo3 in H2.
  apply bind_ok in H2 as [[[a r] evs] [_ H2]]. injection H2 as <-. apply mk7_wire; [exact Hw3|exact Hr|exact Hsent].
Qed.

Theorem feed7_wire c e d out : feed7 c e d = Ok out ->
  wire_state7 (c7_state c) -> Forall bytesP (e_rand e) -> wire_dgram7 d -> wire_out7 out.
Proof.
  intros Hf Hw Hr Hd.
  destruct d as [tk rs pl|tk ack ctl|tk ack rr n cs].
  - unfold feed7 in Hf. destruct (negb (otokb tk (own_token (c7_state c)))); [injection Hf as <-; apply mk7_wire; [exact Hw|exact Hr|constructor]|].
    destruct (negb (otokb rs (their_token (c7_state c)))); injection Hf as <-; (apply mk7_wire; [exact Hw|exact Hr|constructor]).
  - destruct Hd as [Htk Hctl]. unfold feed7 in Hf.
    match type of Hf with context [if negb (tokb ?a ?b) then _ else _] => destruct (negb (tokb a b)) end;
      [injection Hf as <-; apply mk7_wire; [exact Hw|exact Hr|constructor]|].
    destruct ((ack <? 0) || (SEQ_MOD <=? ack)); [discriminate|].
    set (st1 := match c7_state c with Online7 o => Online7 (ack_chunks o ack) | _ => c7_state c end) in Hf.
    assert (Hw1 : wire_state7 st1).
    { unfold st1. destruct (c7_state c); try exact Hw. cbn. apply ack_wire, Hw. }
    clearbody st1.
    assert (Hsame : forall snd evs ws, wire_out7 (mk7 {| c7_state := st1; c7_send := snd |} e [] evs ws R7Ok)).
    { intros. apply mk7_wire; [exact Hw1|exact Hr|constructor]. }
    destruct ctl as [|resp| | |reason|resp]; try (injection Hf as <-; apply Hsame).
    + (* Connect *)
      destruct st1 as [|own|own|own their|own their|o|]; try (injection Hf as <-; apply Hsame).
      destruct resp as [t|]; [|injection Hf as <-; apply Hsame].
      eapply tick_action7_wire; [exact Hf| |exact Hr]. cbn. split; [exact Hw1|exact Hctl].
    + (* Accept *)
      destruct st1 as [|own|own|own their|own their|o|]; try (injection Hf as <-; apply Hsame).
      injection Hf as <-. apply mk7_wire; [|exact Hr|constructor]. cbn. apply online_new_wire7; apply Hw1.
    + (* Close *)
      injection Hf as <-. apply mk7_wire; [exact I|exact Hr|constructor].
    + (* TokenMsg *)
      destruct st1 as [|own|own|own their|own their|o|]; try (injection Hf as <-; apply Hsame).
      * apply bind_ok in Hf as [[nt rnd'] [H1 H2]]. apply bind_ok in H2 as [s [H2 H3]]. injection H3 as <-.
        destruct (token_random7_wire _ _ _ H1 Hr) as [Hnt Hrnd].
        apply mk7_wire; [exact Hnt|exact Hrnd|]. eapply send_control_with7_wire; [exact H2|exact Hctl|exact Hnt].
      * eapply tick_action7_wire; [exact Hf| |exact Hr]. cbn. split; [exact Hw1|exact Hctl].
      * apply bind_ok in Hf as [s [H2 H3]]. injection H3 as <-.
        apply mk7_wire; [exact Hw1|exact Hr|]. eapply send_control_with7_wire; [exact H2|exact Hctl|exact Hw1].
  - destruct Hd as [Htk Hcs]. unfold feed7 in Hf.
    match type of Hf with context [if negb (tokb ?a ?b) then _ else _] => destruct (negb (tokb a b)) end;
      [injection Hf as <-; apply mk7_wire; [exact Hw|exact Hr|constructor]|].
    destruct ((ack <? 0) || (SEQ_MOD <=? ack)); [discriminate|].
    destruct (c7_state c) as [|own|own|own their|own their|o|] eqn:Es;
      try (injection Hf as <-; apply mk7_wire; [exact Hw|exact Hr|constructor]).
    + eapply feed_chunks_tail_wire; [|exact Hr|exact Hf|reflexivity]. apply online_new_wire7; apply Hw.
    + eapply feed_chunks_tail_wire; [|exact Hr|exact Hf|reflexivity]. apply ack_wire, Hw.
Qed.

Theorem step7_wire c e o out : step7 c e o = Ok out ->
  wire_state7 (c7_state c) -> Forall bytesP (e_rand e) -> wire_op7 o -> wire_out7 out.
Proof.
  intros Hs Hw Hr Ho. destruct o as [|data vital| | |reason|data|d| |]; unfold step7 in Hs.
  - destruct (c7_state c); try discriminate. apply bind_ok in Hs as [[t rnd'] [H1 H2]].
    destruct (token_random7_wire _ _ _ H1 Hr) as [Ht Hrnd].
    eapply tick_action7_wire; [exact H2|exact Ht|exact Hrnd].
  - destruct (c7_state c) as [|own|own|own their|own their|on|]; try discriminate.
    apply bind_ok in Hs as [[[o' d] r] [H1 H2]]. injection H2 as <-.
    destruct (send_wire _ _ _ _ _ _ _ _ H1 Hw Ho) as [Hw' Hd]. apply online_send_emit in H1.
    apply mk7_wire; [exact Hw'|exact Hr|eapply chunks_wire7; eassumption].
  - destruct (c7_state c) as [|own|own|own their|own their|on|]; try discriminate.
    apply bind_ok in Hs as [[o' d] [H1 H2]]. injection H2 as <-.
    destruct (flush_wire _ _ _ _ H1 Hw) as [Hw' Hd]. apply online_flush_emit in H1 as [H1 _].
    apply mk7_wire; [exact Hw'|exact Hr|eapply chunks_wire7; eassumption].
  - destruct (match c7_state c with
              | Online7 o => match queue_back (o_queue o) with Some rc => triggered (rc_next rc) (e_now e) | None => false end
              | _ => false end).
    + destruct (c7_state c) as [|own|own|own their|own their|on|] eqn:Es;
        try (injection Hs as <-; apply mk7_wire; [rewrite Es; exact Hw|exact Hr|constructor]).
      apply bind_ok in Hs as [[c' d] [H1 H2]]. injection H2 as <-.
      destruct (do_resend7_wire _ _ _ _ _ H1 Hw) as [[o3 [Eo3 Hw3]] Hsent].
      apply mk7_wire; [rewrite Eo3; exact Hw3|exact Hr|exact Hsent].
    + destruct (triggered (c7_send c) (e_now e)); [|injection Hs as <-; apply mk7_wire; [exact Hw|exact Hr|constructor]].
      eapply tick_action7_wire; [exact Hs|exact Hw|exact Hr].
  - destruct (c7_state c) as [|own|own|own their|own their|on|] eqn:Es; try discriminate.
    all: destruct (existsb (fun b => b =? 0) reason); try discriminate.
    all: apply bind_ok in Hs as [d [H1 H2]]; injection H2 as <-; apply mk7_wire; [exact I|exact Hr|].
    all: eapply send_control7_wire; [exact H1|exact Hw|exact Ho].
  - destruct (c7_state c) as [|own|own|own their|own their|on|] eqn:Es; try discriminate.
    destruct (MAX_PAYLOAD <? _); injection Hs as <-; (apply mk7_wire; [cbn; rewrite Es; exact Hw|exact Hr|]).
    + constructor.
    + constructor; [|constructor]. destruct Hw as (H1 & H2 & _).
      split; [apply tok_bytes_obytes, H2|]. split; [apply tok_bytes_obytes, H1|exact Ho].
  - eapply feed7_wire; eassumption.
  - injection Hs as <-. apply mk7_wire; [exact Hw|exact Hr|constructor].
  - destruct (c7_state c); try discriminate. injection Hs as <-. apply mk7_wire; [exact I|exact Hr|constructor].
Qed.

(* the decidable shadow used by Proofs/ConnBytes7.v *)
Lemma obytes_ok_of t : obytes t -> obytes_ok t = true.
Proof. destruct t; [intros H; exact H|reflexivity]. Qed.

Lemma wire_dgram7_bytes_ok d : wire_dgram7 d -> dgram_bytes_ok7 d = true.
Proof.
  destruct d as [t r pl|tok ack c|tok ack rr n cs]; cbn [wire_dgram7 dgram_bytes_ok7].
  - intros (H1 & H2 & H3). rewrite (obytes_ok_of _ H1), (obytes_ok_of _ H2), H3. reflexivity.
  - intros [H1 H2]. rewrite (obytes_ok_of _ H1). cbn [andb].
    destruct c as [|resp| | |r|r]; try reflexivity; try exact H2. apply obytes_ok_of, H2.
  - intros [H1 H2]. rewrite (obytes_ok_of _ H1). cbn [andb]. apply forallb_chunk_bytes, H2.
Qed.

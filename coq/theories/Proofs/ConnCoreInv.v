(* Invariant of the shared online core (both protocol versions): packet contents stay
   within every size limit, so no call panics, resend terminates, and every datagram
   that is emitted is well-formed. *)
From LibTw2 Require Import Base.Res Model.PacketTypes Model.ConnCore.
From Coq Require Import ZArith Lia Bool List.
Open Scope Z_scope.

Definition pp_ok (pp : params) : Prop := pp = params6 \/ pp = params7.

Definition data_ok (pp : params) (d : bytes) : Prop :=
  Z.of_nat (length d) <= MAX_PAYLOAD /\ Z.of_nat (length d) < 2 ^ p_size_bits pp.

Definition chunk_ok (pp : params) (c : chunk) : Prop :=
  data_ok pp (ch_data c) /\
  match ch_vital c with Some (s, _) => 0 <= s < SEQ_MOD | None => True end.

Definition pc_ok (pp : params) (p : pcontents) : Prop :=
  pc_num p = Z.of_nat (length (pc_chunks p)) /\ pc_num p <= 255 /\
  pc_len p <= fit_limit pp /\ Forall (chunk_ok pp) (pc_chunks p).

Definition rchunk_ok (pp : params) (c : rchunk) : Prop :=
  data_ok pp (rc_data c) /\ 0 <= rc_seq c < SEQ_MOD /\ rc_next c <> None.

Definition tok_ok (t : option token) : Prop :=
  match t with Some x => length x = 4%nat | None => True end.

Definition online_ok (pp : params) (o : online) : Prop :=
  pc_ok pp (o_packet o) /\ pc_ok pp (o_packet_nv o) /\
  pc_num (o_packet_nv o) <= pc_num (o_packet o) /\ pc_len (o_packet_nv o) <= pc_len (o_packet o) /\
  Forall (rchunk_ok pp) (o_queue o) /\
  0 <= o_ack o < SEQ_MOD /\ 0 <= o_seq o < SEQ_MOD.

(* what a receiver may rely on for a datagram the connection layer emits *)
Definition dgram_ok (pp : params) (d : dgram) : Prop :=
  match d with
  | DChunks tok ack rr n cs =>
    tok_ok tok /\
    0 <= ack < SEQ_MOD /\ n = Z.of_nat (length cs) /\ n <= 255 /\ Forall (chunk_ok pp) cs /\
    chunks_dgram_size pp tok (chunks_size cs) <= MAX_PACKETSIZE /\
    (rr = true \/ n <> 0)          (* a flush only happens when there is something to send *)
  | DControl tok ack c =>
    tok_ok tok /\
    0 <= ack < SEQ_MOD /\ control_size pp tok c <= MAX_PACKETSIZE /\
    match c with Close r => forallb (fun b => negb (b =? 0)) r = true /\ (length r <= 127)%nat | _ => True end
  | DConnless _ _ p => Z.of_nat (length p) <= MAX_PAYLOAD
  end.

Lemma chunks_size_app a b : chunks_size (a ++ b) = chunks_size a + chunks_size b.
Proof. induction a as [|c a IH]; cbn [app chunks_size]; lia. Qed.

Lemma chunks_size_nonneg cs : 0 <= chunks_size cs.
Proof.
  induction cs as [|c cs IH]; cbn [chunks_size]; [lia|].
  unfold chunk_size, chunk_hdr. destruct (is_vital c); lia.
Qed.

Lemma fit_limit_bounds pp : pp_ok pp -> 1390 <= fit_limit pp <= 1393.
Proof. intros [-> | ->]; unfold fit_limit, MAX_PAYLOAD, params6, params7; cbn [p_v7]; lia. Qed.

Lemma pc_empty_ok pp : pp_ok pp -> pc_ok pp pc_empty.
Proof.
  intros H. unfold pc_ok, pc_empty, pc_len. cbn. pose proof (fit_limit_bounds pp H).
  repeat split; try lia. constructor.
Qed.

(* a write that passed can_fit_chunk (or goes into an empty packet) succeeds *)
Lemma pc_write_ok pp p data vital :
  pp_ok pp -> pc_ok pp p -> data_ok pp data ->
  match vital with Some (s, _) => 0 <= s < SEQ_MOD | None => True end ->
  pc_num p < 255 ->
  pc_len p + chunk_hdr (match vital with Some _ => true | None => false end)
    + Z.of_nat (length data) <= fit_limit pp ->
  exists p', pc_write_chunk pp p data vital = Ok p' /\ pc_ok pp p' /\
    pc_chunks p' = pc_chunks p ++ [{| ch_data := data; ch_vital := vital |}] /\
    pc_num p' = pc_num p + 1 /\
    pc_len p' = pc_len p + chunk_hdr (match vital with Some _ => true | None => false end)
                + Z.of_nat (length data).
Proof.
  intros Hpp [Hn [Hle [Hlen Hall]]] [Hd1 Hd2] Hv Hnum Hfit.
  pose proof (fit_limit_bounds pp Hpp) as Hfl.
  unfold pc_write_chunk.
  replace (2 ^ p_size_bits pp <=? Z.of_nat (length data)) with false by lia.
  set (c := {| ch_data := data; ch_vital := vital |}).
  assert (Hcs : chunk_size c = chunk_hdr (match vital with Some _ => true | None => false end)
                               + Z.of_nat (length data)).
  { unfold chunk_size, is_vital, c. cbn. destruct vital; reflexivity. }
  replace (2048 <? pc_len p + chunk_size c) with false by lia.
  replace (255 <=? pc_num p) with false by lia.
  eexists. split; [reflexivity|]. cbn [pc_chunks pc_num].
  assert (Hl : pc_len {| pc_num := pc_num p + 1; pc_chunks := pc_chunks p ++ [c] |}
               = pc_len p + chunk_size c).
  { unfold pc_len. cbn [pc_chunks]. rewrite chunks_size_app. cbn [chunks_size]. lia. }
  split; [|split; [reflexivity|split; [reflexivity|rewrite Hl, Hcs; lia]]].
  unfold pc_ok. cbn [pc_num pc_chunks]. rewrite Hl, Hcs.
  repeat split; try lia.
  - rewrite app_length. cbn [length]. lia.
  - apply Forall_app. split; [exact Hall|]. constructor; [|constructor].
    unfold chunk_ok, c. cbn. split; [split; assumption|exact Hv].
Qed.

Lemma can_fit_true pp p len vital :
  can_fit_chunk pp p len vital = true -> pc_num p < 255 /\ pc_len p + chunk_hdr vital + len <= fit_limit pp.
Proof. unfold can_fit_chunk. intros H. apply andb_true_iff in H. lia. Qed.

(* ---------- flush ---------- *)
Lemma online_flush_ok pp o :
  pp_ok pp -> online_ok pp o -> tok_ok (o_their o) ->
  exists o' ds, online_flush pp o = Ok (o', ds) /\ online_ok pp o' /\ Forall (dgram_ok pp) ds /\
    o_queue o' = o_queue o /\ o_seq o' = o_seq o /\ o_ack o' = o_ack o /\
    o_own o' = o_own o /\ o_their o' = o_their o /\
    (ds = [] -> o' = o) /\ (ds <> [] -> o_packet o' = pc_empty /\ o_packet_nv o' = pc_empty /\ o_rr o' = false).
Proof.
  intros Hpp Hok Htok. pose proof Hok as Hok0. destruct Hok as [Hp [Hnv [Hn1 [Hn2 [Hq [Ha Hs]]]]]].
  pose proof (fit_limit_bounds pp Hpp) as Hfl.
  unfold online_flush. destruct (can_send o) eqn:Ecs; cbn [negb].
  2:{ exists o, []. split; [reflexivity|]. split; [exact Hok0|]. split; [constructor|].
      do 5 (split; [reflexivity|]). split; [intros _; reflexivity|].
      intros Hne; exfalso; apply Hne; reflexivity. }
  destruct Hp as [Hpn [Hple [Hplen Hpall]]].
  assert (Hsz : chunks_dgram_size pp (o_their o) (pc_len (o_packet o)) <= MAX_PACKETSIZE).
  { unfold chunks_dgram_size, MAX_PACKETSIZE, tok_size6.
    destruct Hpp as [-> | ->]; unfold fit_limit, MAX_PAYLOAD, params6, params7 in *; cbn [p_v7 p_header] in *;
      destruct (o_their o); lia. }
  replace (MAX_PACKETSIZE <? chunks_dgram_size pp (o_their o) (pc_len (o_packet o))) with false by lia.
  eexists _, _. split; [reflexivity|].
  split.
  { unfold online_ok, o_clear. cbn. pose proof (pc_empty_ok pp Hpp).
    repeat split; try assumption; try lia; try apply H. }
  split.
  { constructor; [|constructor]. unfold dgram_ok. split; [exact Htok|]. repeat split; try assumption; try lia.
    unfold can_send in Ecs. apply orb_true_iff in Ecs as [E|E]; [right; lia|left; exact E]. }
  unfold o_clear. cbn. do 5 (split; [reflexivity|]). split; [intros H; discriminate H|].
  intros _. repeat split.
Qed.

Lemma data_fits_empty pp d : pp_ok pp -> data_ok pp d -> 3 + Z.of_nat (length d) <= fit_limit pp.
Proof.
  intros [-> | ->] [H1 H2]; unfold fit_limit, MAX_PAYLOAD, params6, params7 in *; cbn [p_v7 p_size_bits] in *;
    [change (2 ^ 10) with 1024 in H2|]; lia.
Qed.

Lemma seq_next_range s : 0 <= seq_next s < SEQ_MOD.
Proof. unfold seq_next, SEQ_MOD. apply Z.mod_pos_bound. lia. Qed.

Lemma mk_online_ok pp o :
  pc_ok pp (o_packet o) -> pc_ok pp (o_packet_nv o) ->
  pc_num (o_packet_nv o) <= pc_num (o_packet o) -> pc_len (o_packet_nv o) <= pc_len (o_packet o) ->
  Forall (rchunk_ok pp) (o_queue o) -> 0 <= o_ack o < SEQ_MOD -> 0 <= o_seq o < SEQ_MOD ->
  online_ok pp o.
Proof. unfold online_ok. tauto. Qed.

(* ---------- queue ---------- *)
Lemma online_queue_ok pp now o data vital :
  pp_ok pp -> online_ok pp o -> data_ok pp data ->
  pc_num (o_packet o) < 255 ->
  pc_len (o_packet o) + chunk_hdr vital + Z.of_nat (length data) <= fit_limit pp ->
  exists o', online_queue pp now o data vital = Ok o' /\ online_ok pp o' /\
    o_own o' = o_own o /\ o_their o' = o_their o /\ o_ack o' = o_ack o /\ o_rr o' = o_rr o.
Proof.
  intros Hpp Hok Hd Hnum Hfit. destruct Hok as [Hp [Hnv [Hn1 [Hn2 [Hq [Ha Hs]]]]]].
  unfold online_queue. destruct vital.
  - replace (2048 <? Z.of_nat (length data)) with false by (destruct Hd; unfold MAX_PAYLOAD in *; lia).
    destruct (pc_write_ok pp (o_packet o) data (Some (seq_next (o_seq o), false)) Hpp Hp Hd
                (seq_next_range _) Hnum Hfit) as [p' [Hw [Hp' [_ [Hnum' Hlen']]]]].
    rewrite Hw. eexists. split; [reflexivity|]. cbn. split; [|repeat split].
    apply mk_online_ok; cbn; try assumption; try lia; try apply seq_next_range.
    + unfold chunk_hdr in Hlen'. lia.
    + constructor; [|exact Hq]. unfold rchunk_ok. cbn. split; [exact Hd|]. split; [apply seq_next_range|discriminate].
  - assert (Hnv1 : pc_num (o_packet_nv o) < 255) by lia.
    assert (Hnv2 : pc_len (o_packet_nv o) + chunk_hdr false + Z.of_nat (length data) <= fit_limit pp) by lia.
    destruct (pc_write_ok pp (o_packet_nv o) data None Hpp Hnv Hd I Hnv1 Hnv2) as [nv' [Hw1 [Hnv' [_ [Hnn Hnl]]]]].
    destruct (pc_write_ok pp (o_packet o) data None Hpp Hp Hd I Hnum Hfit) as [p' [Hw2 [Hp' [_ [Hpn Hpl]]]]].
    rewrite Hw1, Hw2. eexists. split; [reflexivity|]. unfold o_set_packets. cbn. split; [|repeat split].
    apply mk_online_ok; cbn; try assumption; lia.
Qed.

(* ---------- send ---------- *)
Lemma online_send_ok pp now o data vital :
  pp_ok pp -> online_ok pp o -> tok_ok (o_their o) ->
  exists o' ds r, online_send pp now o data vital = Ok (o', ds, r) /\ online_ok pp o' /\
    Forall (dgram_ok pp) ds /\ o_own o' = o_own o /\ o_their o' = o_their o /\
    (r = SendTooLong -> o' = o /\ ds = []).
Proof.
  intros Hpp Hok Htok. unfold online_send.
  destruct ((MAX_PAYLOAD <? Z.of_nat (length data))
            || negb (p_v7 pp) && (2 ^ p_size_bits pp <=? Z.of_nat (length data))) eqn:Elong.
  { exists o, [], SendTooLong. split; [reflexivity|]. split; [exact Hok|]. split; [constructor|].
    split; [reflexivity|]. split; [reflexivity|]. intros _. split; reflexivity. }
  assert (Hd : data_ok pp data).
  { unfold data_ok. apply orb_false_iff in Elong as [E1 E2].
    split; [lia|]. destruct Hpp as [-> | ->]; unfold params6, params7 in *; cbn [p_v7 p_size_bits negb andb] in *.
    - lia.
    - change (2 ^ 12) with 4096. unfold MAX_PAYLOAD in E1. lia. }
  pose proof (data_fits_empty pp data Hpp Hd) as Hfe.
  destruct (can_fit_chunk pp (o_packet o) (Z.of_nat (length data)) vital) eqn:Ecf; cbn [negb bind].
  - apply can_fit_true in Ecf as [Hn Hf].
    destruct (online_queue_ok pp now o data vital Hpp Hok Hd Hn Hf) as [o' [Hq [Hok' [H1 [H2 _]]]]].
    rewrite Hq. cbn [bind]. exists o', [], SendOk. split; [reflexivity|]. split; [exact Hok'|]. split; [constructor|].
    split; [exact H1|]. split; [exact H2|]. discriminate.
  - destruct (online_flush_ok pp o Hpp Hok Htok) as [o1 [ds [Hfl [Hok1 [Hds [_ [_ [_ [Ho [Ht [Hsame Hcl]]]]]]]]]]].
    rewrite Hfl. cbn [bind].
    assert (Hempty : pc_num (o_packet o1) = 0 /\ pc_len (o_packet o1) = 0).
    { destruct ds as [|d ds'].
      - rewrite (Hsame eq_refl). destruct Hok as [[Hpn [_ [_ _]]] _].
        (* nothing was flushed: the packet holds no chunk *)
        unfold online_flush in Hfl. destruct (can_send o) eqn:Ecs; cbn [negb] in Hfl.
        + destruct (MAX_PACKETSIZE <? _) in Hfl; discriminate Hfl.
        + unfold can_send in Ecs. apply orb_false_iff in Ecs as [E _].
          assert (Hz : pc_num (o_packet o) = 0) by lia. split; [exact Hz|].
          unfold pc_len. rewrite Hz in Hpn. destruct (pc_chunks (o_packet o)); [reflexivity|cbn in Hpn; lia].
      - destruct Hcl as [Hc _]; [discriminate|]. rewrite Hc. split; reflexivity. }
    destruct Hempty as [Hz1 Hz2].
    assert (Hn : pc_num (o_packet o1) < 255) by lia.
    assert (Hf : pc_len (o_packet o1) + chunk_hdr vital + Z.of_nat (length data) <= fit_limit pp)
      by (unfold chunk_hdr; destruct vital; lia).
    destruct (online_queue_ok pp now o1 data vital Hpp Hok1 Hd Hn Hf) as [o' [Hq [Hok' [H1 [H2 _]]]]].
    rewrite Hq. cbn [bind]. exists o', ds, SendOk. split; [reflexivity|]. split; [exact Hok'|]. split; [exact Hds|].
    split; [congruence|]. split; [congruence|]. discriminate.
Qed.

(* ---------- resend ---------- *)
Lemma o_set_packets_ok pp o p :
  online_ok pp o -> pc_ok pp p ->
  pc_num (o_packet_nv o) <= pc_num p -> pc_len (o_packet_nv o) <= pc_len p ->
  online_ok pp (o_set_packets o p (o_packet_nv o)).
Proof.
  intros [Hp [Hnv [Hn1 [Hn2 [Hq [Ha Hs]]]]]] Hp' H1 H2. apply mk_online_ok; cbn; assumption.
Qed.

Lemma resend_loop_ok pp : pp_ok pp -> forall todo fuel o out ts,
  online_ok pp o -> tok_ok (o_their o) -> Forall (rchunk_ok pp) todo -> Forall (dgram_ok pp) out ->
  (2 * length todo <= fuel)%nat ->
  exists o' out' ts', resend_loop pp fuel o todo out ts = Ok (o', out', ts') /\
    online_ok pp o' /\ Forall (dgram_ok pp) out' /\
    o_queue o' = o_queue o /\ o_own o' = o_own o /\ o_their o' = o_their o /\
    o_seq o' = o_seq o /\ o_ack o' = o_ack o.
Proof.
  intros Hpp. induction todo as [|c rest IH]; intros fuel o out ts Hok Htok Htodo Hout Hfuel.
  - destruct fuel; cbn [resend_loop]; eexists _, _, _; (split; [reflexivity|]);
      (split; [exact Hok|]); (split; [exact Hout|]); repeat split.
  - inversion Htodo as [|c' rest' Hc Hrest]; subst.
    destruct Hc as [Hd [Hseq _]].
    cbn [length] in Hfuel. destruct fuel as [|fuel]; [lia|]. cbn [resend_loop].
    (* writing c into a packet that can hold it, then continuing *)
    assert (Hwrite : forall o1 f1 out1 ts1, online_ok pp o1 -> tok_ok (o_their o1) -> Forall (dgram_ok pp) out1 ->
              (2 * length rest <= f1)%nat ->
              pc_num (o_packet o1) < 255 ->
              pc_len (o_packet o1) + chunk_hdr true + Z.of_nat (length (rc_data c)) <= fit_limit pp ->
              exists o' out' ts',
                match pc_write_chunk pp (o_packet o1) (rc_data c) (Some (rc_seq c, true)) with
                | Ok p => resend_loop pp f1 (o_set_packets o1 p (o_packet_nv o1)) rest out1 ts1
                | Err e => Err e | Panic s => Panic s | OutOfFuel => OutOfFuel
                end = Ok (o', out', ts') /\
                online_ok pp o' /\ Forall (dgram_ok pp) out' /\
                o_queue o' = o_queue o1 /\ o_own o' = o_own o1 /\ o_their o' = o_their o1 /\
                o_seq o' = o_seq o1 /\ o_ack o' = o_ack o1).
    { intros o1 f1 out1 ts1 Hok1 Htok1 Hout1 Hf1 Hn Hf.
      pose proof Hok1 as Hok1'. destruct Hok1' as [Hp [Hnv [Hn1 [Hn2 _]]]].
      destruct (pc_write_ok pp (o_packet o1) (rc_data c) (Some (rc_seq c, true)) Hpp Hp Hd Hseq Hn Hf)
        as [p' [Hw [Hp' [_ [Hpn Hpl]]]]].
      rewrite Hw.
      assert (Hok2 : online_ok pp (o_set_packets o1 p' (o_packet_nv o1))).
      { apply o_set_packets_ok; try assumption; unfold chunk_hdr in Hpl; lia. }
      destruct (IH f1 _ out1 ts1 Hok2 Htok1 Hrest Hout1 Hf1) as [o' [out' [ts' [Hr Hrest']]]].
      exists o', out', ts'. split; [exact Hr|]. exact Hrest'. }
    destruct (can_fit_chunk pp (o_packet o) (Z.of_nat (length (rc_data c))) true) eqn:Ecf.
    + apply can_fit_true in Ecf as [Hn Hf].
      apply (Hwrite o fuel out ts Hok Htok Hout); [lia|exact Hn|exact Hf].
    + destruct (online_flush_ok pp o Hpp Hok Htok) as [o1 [ds [Hfl [Hok1 [Hds [Hq1 [Hs1 [Ha1 [Ho1 [Ht1 [Hsame Hcl]]]]]]]]]]].
      rewrite Hfl.
      (* after the flush the packet is empty: the chunk fits *)
      assert (Hempty : pc_num (o_packet o1) = 0 /\ pc_len (o_packet o1) = 0).
      { destruct ds as [|d ds'].
        - rewrite (Hsame eq_refl). destruct Hok as [[Hpn _] _].
          unfold online_flush in Hfl. destruct (can_send o) eqn:Ecs; cbn [negb] in Hfl.
          + destruct (MAX_PACKETSIZE <? _) in Hfl; discriminate Hfl.
          + unfold can_send in Ecs. apply orb_false_iff in Ecs as [E _].
            assert (Hz : pc_num (o_packet o) = 0) by lia. split; [exact Hz|].
            unfold pc_len. rewrite Hz in Hpn. destruct (pc_chunks (o_packet o)); [reflexivity|cbn in Hpn; lia].
        - destruct Hcl as [Hc _]; [discriminate|]. rewrite Hc. split; reflexivity. }
      destruct Hempty as [Hz1 Hz2].
      destruct fuel as [|fuel]; [lia|]. cbn [resend_loop].
      pose proof (data_fits_empty pp (rc_data c) Hpp Hd) as Hfe.
      replace (can_fit_chunk pp (o_packet o1) (Z.of_nat (length (rc_data c))) true) with true
        by (symmetry; unfold can_fit_chunk, chunk_hdr; rewrite Hz1, Hz2; lia).
      assert (Htok1 : tok_ok (o_their o1)) by (rewrite Ht1; exact Htok).
      destruct (Hwrite o1 fuel (out ++ ds) true Hok1 Htok1) as [o' [out' [ts' [Hr [Hok' [Hout' [E1 [E2 [E3 [E4 E5]]]]]]]]]].
      * apply Forall_app. split; assumption.
      * lia.
      * lia.
      * unfold chunk_hdr. lia.
      * exists o', out', ts'. split; [exact Hr|]. split; [exact Hok'|]. split; [exact Hout'|].
        repeat split; congruence.
Qed.

Lemma restart_timers_ok pp now q : Forall (rchunk_ok pp) q -> Forall (rchunk_ok pp) (restart_timers now q).
Proof.
  intros H. unfold restart_timers. apply Forall_map. eapply Forall_impl; [|exact H].
  intros c [Hd [Hs _]]. unfold rchunk_ok. cbn. split; [exact Hd|]. split; [exact Hs|discriminate].
Qed.

Lemma online_resend_ok pp now o :
  pp_ok pp -> online_ok pp o -> tok_ok (o_their o) ->
  exists o' ds ts, online_resend pp now o = Ok (o', ds, ts) /\ online_ok pp o' /\
    Forall (dgram_ok pp) ds /\ o_own o' = o_own o /\ o_their o' = o_their o /\
    o_seq o' = o_seq o /\ o_ack o' = o_ack o /\ length (o_queue o') = length (o_queue o).
Proof.
  intros Hpp Hok Htok. unfold online_resend.
  destruct (o_queue o) as [|c q] eqn:Eq.
  { exists o, [], false. split; [reflexivity|]. split; [exact Hok|]. split; [constructor|].
    rewrite Eq. repeat split. }
  rewrite <- Eq.
  pose proof Hok as Hok0. destruct Hok0 as [Hp [Hnv [Hn1 [Hn2 [Hq [Ha Hs]]]]]].
  set (q' := restart_timers now (o_queue o)).
  set (o1 := {| o_own := o_own o; o_their := o_their o; o_ack := o_ack o; o_seq := o_seq o;
                o_rr := o_rr o; o_packet := o_packet_nv o; o_packet_nv := o_packet_nv o; o_queue := q' |}).
  assert (Hq' : Forall (rchunk_ok pp) q') by (apply restart_timers_ok, Hq).
  assert (Hok1 : online_ok pp o1) by (apply mk_online_ok; cbn; try assumption; lia).
  assert (Hfuel : (2 * length (rev q') <= resend_fuel o)%nat).
  { unfold resend_fuel, q', restart_timers. rewrite rev_length, map_length. lia. }
  destruct (resend_loop_ok pp Hpp (rev q') (resend_fuel o) o1 [] false Hok1 Htok
              (Forall_rev Hq') (Forall_nil _) Hfuel)
    as [o' [out' [ts' [Hr [Hok' [Hout' [E1 [E2 [E3 [E4 E5]]]]]]]]]].
  exists o', out', ts'. split; [exact Hr|]. split; [exact Hok'|]. split; [exact Hout'|].
  cbn in E1, E2, E3, E4, E5. repeat split; try assumption.
  rewrite E1. unfold q', restart_timers. apply map_length.
Qed.

(* ---------- receiving ---------- *)
Definition chunk_in_ok (c : chunk) : Prop :=
  match ch_vital c with Some (s, _) => 0 <= s < SEQ_MOD | None => True end.

Lemma seq_update_range a s : 0 <= a < SEQ_MOD -> 0 <= fst (seq_update a s) < SEQ_MOD.
Proof.
  intros Ha. unfold seq_update. destruct (seq_compare (seq_next a) s); cbn [fst];
    try exact Ha; apply seq_next_range.
Qed.

Lemma recv_chunks_ok cs : forall ack rr, 0 <= ack < SEQ_MOD -> Forall chunk_in_ok cs ->
  exists ack' rr' evs, recv_chunks ack rr cs = Ok (ack', rr', evs) /\ 0 <= ack' < SEQ_MOD.
Proof.
  induction cs as [|c cs IH]; intros ack rr Ha Hcs.
  - eexists _, _, _. split; [reflexivity|exact Ha].
  - inversion Hcs as [|c' cs' Hc Hrest]; subst. cbn [recv_chunks]. unfold chunk_in_ok in Hc.
    destruct (ch_vital c) as [[s r]|].
    + replace ((s <? 0) || (SEQ_MOD <=? s)) with false by lia.
      pose proof (seq_update_range ack s Ha) as Hr.
      destruct (seq_update ack s) as [a' o] eqn:Eu. cbn [fst] in Hr.
      destruct o.
      * destruct (IH ack true Ha Hrest) as [a2 [r2 [e2 [H1 H2]]]]. eexists _, _, _. split; [exact H1|exact H2].
      * destruct (IH a' rr Hr Hrest) as [a2 [r2 [e2 [H1 H2]]]]. rewrite H1. eexists _, _, _. split; [reflexivity|exact H2].
      * destruct (IH ack true Ha Hrest) as [a2 [r2 [e2 [H1 H2]]]]. eexists _, _, _. split; [exact H1|exact H2].
    + destruct (IH ack rr Ha Hrest) as [a2 [r2 [e2 [H1 H2]]]]. rewrite H1. eexists _, _, _. split; [reflexivity|exact H2].
Qed.

Lemma take_until_seq_forall (P : rchunk -> Prop) q ack l :
  take_until_seq q ack = Some l -> Forall P q -> Forall P l.
Proof.
  revert l. induction q as [|c q IH]; intros l H Hq; cbn [take_until_seq] in H; [discriminate|].
  inversion Hq; subst.
  destruct (rc_seq c =? ack); [injection H as <-; constructor|].
  destruct (take_until_seq q ack) as [l'|]; [|discriminate]. injection H as <-.
  constructor; [assumption|]. apply IH; [reflexivity|assumption].
Qed.

Lemma ack_chunks_ok pp o ack : online_ok pp o -> online_ok pp (ack_chunks o ack).
Proof.
  intros Hok. unfold ack_chunks. destruct (take_until_seq (o_queue o) ack) as [q|] eqn:E; [|exact Hok].
  destruct Hok as [Hp [Hnv [Hn1 [Hn2 [Hq [Ha Hs]]]]]]. apply mk_online_ok; cbn; try assumption.
  eapply take_until_seq_forall; eassumption.
Qed.

Lemma ack_chunks_toks o ack : o_own (ack_chunks o ack) = o_own o /\ o_their (ack_chunks o ack) = o_their o.
Proof. unfold ack_chunks. destruct (take_until_seq (o_queue o) ack); split; reflexivity. Qed.

Lemma o_set_ack_ok pp o a r : online_ok pp o -> 0 <= a < SEQ_MOD -> online_ok pp (o_set_ack o a r).
Proof.
  intros [Hp [Hnv [Hn1 [Hn2 [Hq [Ha Hs]]]]]] Hr. apply mk_online_ok; cbn; assumption.
Qed.

Lemma online_new_ok pp own their : pp_ok pp -> online_ok pp (online_new own their).
Proof.
  intros Hpp. pose proof (pc_empty_ok pp Hpp). apply mk_online_ok; cbn; try assumption; try lia; try constructor;
    unfold SEQ_MOD; lia.
Qed.

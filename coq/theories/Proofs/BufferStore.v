(* with_buffer on a backing store: opening the view (Vec / ArrayVec / slice /
   slice reference, capped any number of times), running the closure, Drop of
   the intermediate object. *)
From LibTw2 Require Import Base.Res Model.Buffer Proofs.BufferMem Proofs.BufferOps Proofs.BufferRun.
From Coq Require Import List Arith Lia Bool ZArith.
Import ListNotations.
Open Scope nat_scope.

(* ---------- what a store is made of ---------- *)

Fixpoint store_mem (s : store) : bytes :=
  match s with
  | SVec d sp | SArrayVec d sp => d ++ sp
  | SSlice m | SSliceRef m => m
  | SCapAt _ s' => store_mem s'
  end.

(* the contents the container has before *)
Fixpoint store_data (s : store) : bytes :=
  match s with
  | SVec d _ | SArrayVec d _ => d
  | SSlice _ | SSliceRef _ => []
  | SCapAt _ s' => store_data s'
  end.

Fixpoint store_spare (s : store) : nat :=
  match s with
  | SVec _ sp | SArrayVec _ sp => length sp
  | SSlice m | SSliceRef m => length m
  | SCapAt _ s' => store_spare s'
  end.

(* the capacity the property promises: the spare capacity, capped *)
Fixpoint store_cap (s : store) : Z :=
  match s with
  | SCapAt n s' => Z.min n (store_cap s')
  | _ => Z.of_nat (store_spare s)
  end.

Fixpoint store_owner (s : store) : owner :=
  match s with
  | SVec d _ => OVec (length d)
  | SArrayVec d _ => OArrayVec (length d)
  | SSlice _ => OSlice
  | SSliceRef _ => OSliceRef
  | SCapAt _ s' => store_owner s'
  end.

Lemma store_mem_length s : length (store_mem s) = length (store_data s) + store_spare s.
Proof. induction s; cbn [store_mem store_data store_spare length]; try rewrite app_length; lia. Qed.

Lemma open_store_spec s :
  exists v, open_store s = (store_mem s, store_owner s, Ok v)
    /\ view_ok (length (store_mem s)) v /\ v_init v = 0 /\ v_off v = length (store_data s)
    /\ v_cap v <= store_spare s
    /\ (store_wf s = true -> Z.of_nat (v_cap v) = store_cap s).
Proof.
  induction s as [d sp|d sp|m|m|n s IH]; cbn [open_store store_mem store_owner store_data store_spare store_cap store_wf].
  1-4: eexists; split; [reflexivity|]; unfold view_ok; cbn [v_off v_cap v_init length];
       try rewrite app_length; repeat split; lia.
  destruct IH as [v [E [Hv [H0 [Hoff [Hcap Hwf]]]]]]. rewrite E.
  destruct (cap_view_spec v n _ Hv H0) as [c [Ec [Ho [Hi [Hc Hn]]]]].
  exists c. split; [rewrite Ec; reflexivity|]. split; [|split; [exact Hi|split; [lia|split; [lia|]]]].
  - destruct Hv. unfold view_ok. lia.
  - intros Hw. apply andb_true_iff in Hw as [Hn0 Hw]. rewrite Hn by (unfold is_usize in Hn0; lia).
    rewrite (Hwf Hw). reflexivity.
Qed.

(* the first len+k bytes of a memory, given pointwise *)
Lemma firstn_two_parts (m d a : bytes) :
  length d + length a <= length m ->
  (forall j, j < length d -> nth_error m j = nth_error d j) ->
  (forall i, i < length a -> nth_error m (length d + i) = nth_error a i) ->
  firstn (length d + length a) m = d ++ a.
Proof.
  intros Hl Hd Ha. apply list_ext_nth_error.
  - rewrite firstn_length, app_length. lia.
  - intros i Hi. rewrite firstn_length in Hi. rewrite nth_error_firstn_lt by lia.
    destruct (Nat.lt_ge_cases i (length d)).
    + rewrite nth_error_app_l by lia. apply Hd. assumption.
    + rewrite nth_error_app_r by lia. rewrite <- Ha by lia. f_equal. lia.
Qed.

(* ---------- the whole of with_buffer(store, closure) ---------- *)

Record store_good (s : store) (r : result) : Prop := mk_store_good {
  sg_views : Forall (view_ok (length (store_mem s))) (r_views r);
  sg_reports : Forall report_ok (r_reports r);
  sg_exit : safe_exit (r_exit r);
  sg_count : length (r_acc r) = r_init r;
  sg_cap : r_init r <= store_spare s;
  sg_cap_wf : store_wf s = true -> (Z.of_nat (r_init r) <= store_cap s)%Z;
  sg_size : length (r_data r) + length (r_rest r) = length (store_mem s);
  sg_release :
    match store_owner s with
    | OVec _ | OArrayVec _ => r_data r = store_data s ++ r_acc r
    | OSliceRef => r_data r = r_acc r
    | OSlice => length (r_data r) = length (store_mem s) /\ firstn (r_init r) (r_data r) = r_acc r
    end;
  (* every slice handed out lies in the part of the container that was added and is still intact
     when everything has been released *)
  sg_held : Forall (report_held (r_data r ++ r_rest r) (length (store_data s))
                                (length (store_data s) + r_init r)) (r_reports r);
  (* the memory before the view's window (the old contents) and behind the capped window is untouched *)
  sg_frame : forall j, j < length (store_data s) \/ length (store_data s) + store_spare s <= j ->
             nth_error (r_data r ++ r_rest r) j = nth_error (store_mem s) j }.

Lemma owner_data s : match store_owner s with
                     | OVec len | OArrayVec len => len = length (store_data s)
                     | _ => store_data s = []
                     end.
Proof. induction s; cbn [store_owner store_data]; try reflexivity. exact IHs. Qed.

Theorem run_store_good s p : store_good s (run_store s p).
Proof.
  destruct (open_store_spec s) as [v [E [Hv [H0 [Hoff [Hcap Hwf]]]]]].
  unfold run_store. rewrite E.
  set (m := store_mem s) in *. set (total := length m) in *.
  assert (Ha : acc_ok m v []) by (split; [cbn; lia|intros i Hi; lia]).
  pose proof (run_good total p m v [] eq_refl Hv Ha) as G.
  set (o := before [EOpen (room v)] [] [] (run m v [] p)).
  assert (Go : good total m v [] o) by (apply good_before; [exact G|constructor|constructor|constructor]).
  clearbody o. clear G. destruct Go as [g_len0 g_lo0 g_hi0 g_acc0 g_ext0 g_frame0 g_exit0 g_views0 g_reports0 g_held0].
  rewrite Hoff in g_held0. rewrite H0 in *.
  destruct g_acc0 as [Lc Nc]. cbn [with_init v_off v_cap v_init] in Lc, Nc.
  destruct g_ext0 as [log Hlog]. cbn [app] in Hlog.
  pose proof (store_mem_length s) as Hml. fold m in Hml. fold total in Hml.
  pose proof (owner_data s) as Hown.
  assert (Hfit : length (store_data s) + s_init o <= length (s_mem o)) by lia.
  assert (Hfirst : firstn (length (store_data s) + s_init o) (s_mem o) = store_data s ++ s_acc o).
  { rewrite <- Lc. apply firstn_two_parts.
    - lia.
    - intros j Hj. rewrite g_frame0 by lia. unfold m.
      clear -Hj. induction s; cbn [store_mem store_data] in *; try (rewrite nth_error_app_l by lia; reflexivity);
        try (cbn in Hj; lia). apply IHs, Hj.
    - intros i Hi. rewrite <- Nc by lia. f_equal. lia. }
  assert (Hframe : forall j, j < length (store_data s) \/ length (store_data s) + store_spare s <= j ->
                   nth_error (s_mem o) j = nth_error m j).
  { intros j Hj. apply g_frame0. destruct Hv. lia. }
  subst total m. unfold finish, release.
  destruct (store_owner s) as [len|len| |] eqn:Eo.
  - (* Vec *) subst len.
    replace (length (s_mem o) <? length (store_data s) + s_init o) with false by (symmetry; apply Nat.ltb_ge; lia).
    constructor; cbn [r_views r_reports r_exit r_acc r_init r_data r_rest]; try assumption; try lia.
    + intros Hw. rewrite <- (Hwf Hw). lia.
    + rewrite firstn_length, skipn_length. lia.
    + rewrite Eo. exact Hfirst.
    + rewrite firstn_skipn. exact g_held0.
    + intros j Hj. rewrite firstn_skipn. apply Hframe, Hj.
  - (* ArrayVec *) subst len.
    replace (length (s_mem o) <? length (store_data s) + s_init o) with false by (symmetry; apply Nat.ltb_ge; lia).
    constructor; cbn [r_views r_reports r_exit r_acc r_init r_data r_rest]; try assumption; try lia.
    + intros Hw. rewrite <- (Hwf Hw). lia.
    + rewrite firstn_length, skipn_length. lia.
    + rewrite Eo. exact Hfirst.
    + rewrite firstn_skipn. exact g_held0.
    + intros j Hj. rewrite firstn_skipn. apply Hframe, Hj.
  - (* slice: no Drop *)
    rewrite Hown in *. cbn [length Nat.add app] in *.
    constructor; cbn [r_views r_reports r_exit r_acc r_init r_data r_rest]; try assumption; try lia.
    + intros Hw. rewrite <- (Hwf Hw). lia.
    + cbn [length]. lia.
    + rewrite Eo. split; [lia|exact Hfirst].
    + rewrite app_nil_r, Hown. exact g_held0.
    + intros j Hj. rewrite Hown in Hj. cbn [length Nat.add] in Hj. rewrite app_nil_r. apply Hframe, Hj.
  - (* slice reference: narrowed to the initialized part *)
    rewrite Hown in *. cbn [length Nat.add app] in *.
    replace (length (s_mem o) <? s_init o) with false by (symmetry; apply Nat.ltb_ge; lia).
    constructor; cbn [r_views r_reports r_exit r_acc r_init r_data r_rest]; try assumption; try lia.
    + intros Hw. rewrite <- (Hwf Hw). lia.
    + rewrite firstn_length, skipn_length. lia.
    + rewrite Eo. exact Hfirst.
    + rewrite firstn_skipn, Hown. exact g_held0.
    + intros j Hj. rewrite Hown in Hj. cbn [length Nat.add] in Hj. rewrite firstn_skipn. apply Hframe, Hj.
Qed.

(* ---------- a plain sequence of writes: the result is the fitting prefix of the concatenation ---------- *)

Fixpoint pwrites (ws : list bytes) (k : prog) : prog :=
  match ws with
  | [] => k
  | w :: ws' => PWrite false w (pwrites ws' k)
  end.

Lemma firstn_app_room (a b : bytes) n :
  firstn n (a ++ b) = firstn n a ++ firstn (n - length (firstn n a)) b.
Proof.
  rewrite firstn_app. f_equal. rewrite firstn_length.
  destruct (Nat.le_ge_cases n (length a)).
  - rewrite Nat.min_l by assumption. replace (n - length a) with 0 by lia. rewrite Nat.sub_diag. reflexivity.
  - rewrite Nat.min_r by assumption. reflexivity.
Qed.

Lemma pwrites_run total : forall ws m v acc, length m = total -> view_ok total v -> acc_ok m v acc ->
  let o := run m v acc (pwrites ws PInit) in
  s_acc o = acc ++ firstn (room v) (concat ws)
  /\ s_reports o = [(v_off v, s_acc o, s_acc o)]
  /\ s_exit o = XOk
  /\ exists evs, s_evs o = evs ++ [EBytes (s_acc o)].
Proof.
  induction ws as [|w ws IH]; intros m v acc Hl Hv Ha; cbn [pwrites concat].
  - cbn [run]. rewrite firstn_nil, app_nil_r.
    rewrite (initialized_spec m v acc) by (try rewrite Hl; assumption).
    cbn [stop s_acc s_reports s_exit s_evs]. repeat split. exists []. reflexivity.
  - cbn [run]. destruct (extend_store w m v) as [m' [E [L N]]]; [rewrite Hl; exact Hv|]. rewrite E.
    rewrite andb_false_r. cbn [before s_acc s_reports s_exit s_evs app].
    assert (Hg : length (firstn (room v) w) <= room v) by (rewrite firstn_length; lia).
    destruct (spare_store total m m' v acc _ Hv Ha Hg N) as [Ha' _].
    assert (Hle : v_init v + length (firstn (room v) w) <= v_cap v)
      by (destruct Hv; revert Hg; generalize (length (firstn (room v) w)); unfold room; lia).
    destruct (IH m' (with_init v (v_init v + length (firstn (room v) w))) (acc ++ firstn (room v) w))
      as [H1 [H2 [H3 [evs H4]]]]; [lia|apply with_init_ok; assumption|exact Ha'|].
    split; [|split; [exact H2|split; [exact H3|]]].
    + rewrite H1. rewrite firstn_app_room, app_assoc. f_equal. f_equal.
      generalize (length (firstn (room v) w)). intros LL. unfold room, with_init. cbn [v_cap v_init]. lia.
    + eexists. rewrite H4. rewrite app_comm_cons. reflexivity.
Qed.

(* with_buffer(store, |b| { b.write(w1); ...; b.write(wn); b.initialized() }) on any (capped) store *)
Theorem run_store_pwrites s ws : store_wf s = true ->
  let r := run_store s (pwrites ws PInit) in
  r_acc r = firstn (Z.to_nat (store_cap s)) (concat ws)
  /\ r_reports r = [(length (store_data s), r_acc r, r_acc r)]
  /\ r_exit r = XOk
  /\ exists evs, r_evs r = evs ++ [EBytes (r_acc r)].
Proof.
  intros Hw. destruct (open_store_spec s) as [v [E [Hv [H0 [Hoff [Hcap Hwf]]]]]].
  pose proof (run_store_good s (pwrites ws PInit)) as G.
  unfold run_store in *. rewrite E in *.
  assert (Ha : acc_ok (store_mem s) v []) by (split; [cbn; lia|intros i Hi; lia]).
  destruct (pwrites_run _ ws (store_mem s) v [] eq_refl Hv Ha) as [H1 [H2 [H3 [evs H4]]]].
  cbn [app] in H1.
  assert (Hroom : room v = Z.to_nat (store_cap s)) by (unfold room; rewrite <- (Hwf Hw); lia).
  set (o := before [EOpen (room v)] [] [] (run (store_mem s) v [] (pwrites ws PInit))) in *.
  assert (Ho : s_acc o = firstn (Z.to_nat (store_cap s)) (concat ws) /\ s_reports o = [(length (store_data s), s_acc o, s_acc o)]
               /\ s_exit o = XOk /\ exists evs, s_evs o = evs ++ [EBytes (s_acc o)]).
  { subst o. cbn [before s_acc s_reports s_exit s_evs app]. rewrite <- Hroom, <- Hoff.
    repeat split; try assumption. exists (EOpen (room v) :: evs). rewrite H4. reflexivity. }
  clearbody o. destruct Ho as [A1 [A2 [A3 A4]]].
  destruct G as [_ _ Gx _ _ _ _ _ _ _].
  unfold finish, release in *.
  destruct (store_owner s); try destruct (_ <? _);
    cbn [r_acc r_reports r_exit r_evs] in *; repeat split; try assumption;
    exfalso; destruct Gx as [H|[H|[H|H]]]; try discriminate H;
    injection H; intros H'; vm_compute in H'; discriminate H'.
Qed.


(* ---------- the slice-index expressions of buffer/src, one obligation each ---------- *)

(* what has to hold of a BufferRef for each `[a..b]` (and each checked subtraction / unsafe
   precondition) applied to it to be in bounds; `total` is the size of the root allocation *)
Record index_obligations (total : nat) (v : view) : Prop := mk_index_obligations {
  ob_lib_extend : v_init v <= v_cap v;             (* lib.rs extend:            &mut self.buffer[*self.initialized_..] *)
  ob_lib_uninitialized_mut : v_init v <= v_cap v;  (* lib.rs uninitialized_mut: &mut self.buffer[*self.initialized_..] *)
  ob_lib_initialized : v_init v <= v_cap v;        (* lib.rs initialized:       &self.buffer[..*self.initialized_] *)
  ob_lib_remaining : v_init v <= v_cap v;          (* lib.rs remaining:         self.buffer.len() - *self.initialized_ *)
  ob_buffer_ref_buffer : v_init v <= v_cap v;      (* buffer_ref.rs buffer:     &mut self.buffer.buffer[len..] *)
  ob_lib_cap_at : forall n, v_init v = 0 ->        (* lib.rs cap_at:            &mut self.buffer[..index], index = min(n, len) *)
      exists c, cap_view v n = Ok c /\ v_cap c <= v_cap v /\ v_off c = v_off v;
  ob_raw_window : v_off v + v_cap v <= total;      (* vec.rs / arrayvec.rs from_raw_parts_mut(start, remaining), wildly_unsafe:
                                                      the window lies inside the allocation *)
  ob_write_in_window : forall i, i < v_cap v -> v_off v + i < total   (* every byte extend / a reader touches *) }.

Lemma view_ok_obligations total v : view_ok total v -> index_obligations total v.
Proof.
  intros Hv. pose proof Hv as [Hi Ht]. constructor; try assumption.
  - intros n H0. destruct (cap_view_spec v n total Hv H0) as [c [E [Ho [_ [Hc _]]]]].
    exists c. repeat split; assumption.
  - intros i Hlt. lia.
Qed.

Definition checked_sites : list Z :=
  [site_extend_index; site_uninit_index; site_initialized_index; site_cap_at_index;
   site_sliceref_index; site_nested_index; site_remaining_sub; site_cap_at_assert;
   site_arrayvec_set_len; site_vec_set_len; site_parent_counter; site_mem_oob].

Lemma safe_exit_not_checked x site : safe_exit x -> In site checked_sites -> x <> XPanic site.
Proof.
  intros Hs Hin Hx. subst x.
  destruct Hs as [H|[H|[H|H]]]; try discriminate H;
    injection H as ->; vm_compute in Hin;
    repeat (destruct Hin as [Hin|Hin]; [discriminate Hin|]); contradiction.
Qed.

(* Demo model, typed layer: along a history of accepted calls, the snapshot DemoReader holds is
   observationally the one DemoWriter holds (same items, same registry), so every Snapshot chunk
   the reader reports lists exactly the items of the snapshot the writer built - across key
   frames, deltas and the chain of recycled builders.
   Uses the snapshot block's proof architecture (rep / good / bgood / like of Proofs/Snap*.v). *)
From LibTw2 Require Import Base.Res Model.Varint Model.Huffman Model.Demo Model.DemoHL
  Proofs.DemoBase Proofs.DemoChunk Proofs.DemoFile Proofs.DemoHLProofs.
From LibTw2 Require Import Model.Packer Model.Snap Proofs.SnapBase Proofs.SnapRep Proofs.SnapDelta
  Proofs.SnapApply Proofs.SnapOk Proofs.SnapWire Proofs.SnapWireInst Proofs.SnapTotal Proofs.SnapTotal2
  Proofs.SnapC09 Proofs.SnapSer Proofs.SnapReg Proofs.SnapObs Proofs.SnapBuilder Proofs.SnapBuilder2
  Proofs.SnapBuilder3 Proofs.SnapC10.
From Coq Require Import ZArith List Lia Bool Permutation.
Import ListNotations.
Open Scope Z_scope.

(* ---------- key frame: a builder-made snapshot written and read ---------- *)
Theorem bgood_roundtrip b : bgood b ->
  exists l bs S', snap_ints (sn_raw (b_snap b)) = Ok l /\ ints_to_bytes l = Ok bs
    /\ 4 * Z.of_nat (length l) <= MAX_SNAPSHOT_SIZE
    /\ snap_read_bytes bs = (Ok S', []) /\ like (b_snap b) S'.
Proof.
  intros G. set (S0 := b_snap b).
  destruct (builder_consistent _ G) as [Ec GS]. fold S0 in Ec, GS. pose proof (bg_raw _ G) as GR. fold S0 in GR.
  destruct (g_rep _ GR) as [ch R].
  destruct (snap_wire_roundtrip (sn_raw S0) ch GR R) as (l & R1 & ch1 & El & Hli & Hlen & Erd & Rr & Hlook).
  pose proof (build_from_raw_congr R1 ch1 (sn_raw S0) ch Rr R Hlook) as Hcg. rewrite Ec in Hcg.
  destruct (build_from_raw R1) as [[S1| | |] ws1] eqn:Eb; try contradiction.
  destruct Hcg as (Hext & Hws & Hr1 & _). subst ws1.
  assert (Ers : snap_read_from_ints l = (Ok S1, [])).
  { unfold snap_read_from_ints. rewrite Erd. rewrite wbind_ok'. exact Eb. }
  exists l, (enc l), S1. split; [exact El|]. split; [apply ints_to_bytes_enc, Hli|]. split; [exact Hlen|].
  split; [unfold snap_read_bytes; rewrite (read_bytes_enc l Hli); exact Ers|].
  split; [exact Hext|]. split.
  - rewrite Hr1. pose proof (read_from_ints_good l Hli) as Hg. rewrite Erd in Hg. exact Hg.
  - exists ch, ch1. split; [exact R|]. split; [rewrite Hr1; exact Rr|exact Hlook].
Qed.

(* ---------- what a successful Delta::write says about the sizes ---------- *)
Lemma delta_upd_ints_sizes sz : forall todo done u,
  delta_upd_ints sz (flat (done ++ todo)) (ranges_of (length (flat done)) todo) = Ok u ->
  Forall (size_ok sz) todo.
Proof.
  induction todo as [|[k d] todo IH]; intros done u H; [constructor|].
  cbn [ranges_of delta_upd_ints] in H.
  rewrite flat_app in H. cbn [flat flat_map snd] in H. fold (flat todo) in H. rewrite slice_mid in H. cbn [bind] in H.
  assert (Hrest : forall u', delta_upd_ints sz (flat done ++ d ++ flat todo) (ranges_of (length (flat done) + length d) todo) = Ok u' ->
                  Forall (size_ok sz) todo).
  { intros u' Hu'. apply (IH (done ++ [(k, d)]) u').
    replace (flat ((done ++ [(k, d)]) ++ todo)) with (flat done ++ d ++ flat todo)
      by (rewrite !flat_app; cbn; rewrite app_nil_r, <- app_assoc; reflexivity).
    replace (length (flat (done ++ [(k, d)]))) with (length (flat done) + length d)%nat
      by (rewrite flat_app, app_length; cbn; rewrite app_nil_r; reflexivity).
    exact Hu'. }
  constructor.
  - unfold size_ok. cbn [fst snd]. destruct (sz (key_to_raw_type_id k)) as [s|].
    + destruct (s =? Z.of_nat (length d)) eqn:E; [apply Z.eqb_eq, E|discriminate H].
    + destruct (i32_max <? Z.of_nat (length d)) eqn:E; [discriminate H|apply Z.ltb_ge, E].
  - destruct (match sz (key_to_raw_type_id k) with
              | Some s => if s =? Z.of_nat (length d) then Ok [] else Panic site_static_size
              | None => if i32_max <? Z.of_nat (length d) then Panic site_assert_i32 else Ok [Z.of_nat (length d)]
              end) as [szf| | |]; cbn [bind] in H; try discriminate.
    destruct (delta_upd_ints sz (flat done ++ d ++ flat todo) (ranges_of (length (flat done) + length d) todo)) as [rest| | |] eqn:Er;
      cbn [bind] in H; try discriminate.
    apply (Hrest rest eq_refl).
Qed.

Lemma delta_ints_sizes sz del dch l : delta_ints sz (delta_of del dch) = Ok l -> Forall (size_ok sz) dch.
Proof.
  unfold delta_ints, delta_of. cbn [d_del d_upd d_buf]. intros H.
  destruct (i32_max <? Z.of_nat (length del)); [discriminate|].
  destruct (i32_max <? Z.of_nat (length (ranges_of 0 dch))); [discriminate|].
  destruct (delta_upd_ints sz (flat dch) (ranges_of 0 dch)) as [u| | |] eqn:E; cbn [bind] in H; try discriminate.
  apply (delta_upd_ints_sizes sz dch [] u). exact E.
Qed.

(* created_pre with the sizes taken from the successful write instead of sizes_respected *)
Theorem created_pre' sz A B chA chB :
  rep A chA -> rep B chB -> keys_i32 A -> keys_i32 B ->
  forallb is_i32 (rs_buf A) = true -> forallb is_i32 (rs_buf B) = true ->
  lim_ok chA -> lim_ok chB -> same_len chA chB -> Forall (size_ok sz) (diffs chA (view B chB)) ->
  wire_pre sz (d_del (created A B chA chB)) (diffs chA (view B chB)).
Proof.
  intros HA HB IA IB HbA HbB LA LB Hsl Hsz.
  assert (Hdl : forall k d, In (k, d) (view B chB) -> length (diff_of chA (k, d)) = length d).
  { intros k d Hin. apply diff_len. intros f Hf. apply (Hsl k f d Hf). apply (in_view B chB k d HB Hin). }
  assert (Hkeys : map fst (diffs chA (view B chB)) = map fst (rs_offs B)).
  { unfold diffs. rewrite map_map. cbn [fst]. apply view_keys. }
  destruct (rep_lengths _ _ HA) as [LA1 LA2]. destruct (rep_lengths _ _ HB) as [LB1 LB2].
  destruct LA as [LA3 LA4]. destruct LB as [LB3 LB4]. unfold ser_size, MAX_SNAPSHOT_SIZE, MAX_SNAPSHOT_ITEMS, i32_max in *.
  assert (Hfl : length (flat (diffs chA (view B chB))) = length (flat chB)).
  { rewrite diffs_flat_length by exact Hdl. apply length_flat_perm, view_perm, HB. }
  cbn [created d_del]. split.
  - apply sortedb_filter, (rep_sorted _ _ HA).
  - apply forallb_filter, IA.
  - rewrite Hkeys. apply (rep_sorted _ _ HB).
  - rewrite Hkeys. apply IB.
  - apply forallb_flat_in. intros k d' Hin. unfold diffs in Hin. apply in_map_iff in Hin.
    destruct Hin as [[k0 dB] [E Hin]]. cbn [fst] in E. injection E as <- <-.
    unfold diff_of. cbn [fst snd]. destruct (aget k0 chA); [apply zip_with_i32, wsub_i32|].
    rewrite (rep_buf _ _ HB) in HbB. apply (flat_i32 chB k0 dB HbB). apply (in_view B chB k0 dB HB Hin).
  - exact Hsz.
  - intros k Hin Hd. rewrite Hkeys in Hin. apply filter_In in Hd. destruct Hd as [_ Hd].
    apply (rep_in_keys _ _ _ HB) in Hin. unfold absent in Hd. destruct (aget k chB); [discriminate|congruence].
  - pose proof (filter_length_le' (absent chB) (map fst (rs_offs A))) as Hle. rewrite map_length in Hle. unfold i32_max. lia.
  - unfold diffs. rewrite map_length. unfold view. rewrite map_length. unfold i32_max. lia.
  - rewrite Hfl. unfold i32_max. lia.
Qed.

(* the delta only depends on what the old snapshot holds *)
Lemma diffs_lookups chA chR v : (forall k, aget k chR = aget k chA) -> diffs chR v = diffs chA v.
Proof.
  intros H. unfold diffs. apply map_ext. intros [k d]. unfold diff_of. cbn [fst snd]. rewrite H. reflexivity.
Qed.

Lemma same_len_lookups chA chR chB : (forall k, aget k chR = aget k chA) -> same_len chA chB -> same_len chR chB.
Proof. intros H Hs k f d Hf Hd. rewrite H in Hf. apply (Hs k f d Hf Hd). Qed.

(* ---------- delta: created from the writer's old snapshot, applied to the reader's ---------- *)
Theorem delta_step sz A R bB d e :
  good (sn_raw A) -> like A R -> bgood bB ->
  create_raw (sn_raw A) (sn_raw (b_snap bB)) = Ok d -> delta_encoding sz d = Ok (e, true) ->
  exists S', delta_read_bytes sz e = (Ok d, []) /\ snap_read_with_delta R d = (Ok S', []) /\ like (b_snap bB) S'.
Proof.
  intros GA (_ & GR & chA & chR & HA & HR & Hlk) GB Hcr Henc. set (B := b_snap bB) in *.
  destruct (builder_consistent _ GB) as [EcB _]. fold B in EcB.
  pose proof (bg_raw _ GB) as GRB. fold B in GRB. destruct (g_rep _ GRB) as [chB HB].
  (* no key changes its size: otherwise Delta::create would have panicked *)
  assert (Hk : k09 (sn_raw A) (sn_raw B) = false).
  { destruct (k09 (sn_raw A) (sn_raw B)) eqn:E; [|reflexivity].
    destruct (create_raw_k09 _ _ chA chB HA HB (g_keys _ GA) (g_keys _ GRB) E) as [s Hp]. rewrite Hp in Hcr. discriminate. }
  pose proof (k09_false _ _ _ _ HA HB Hk) as Hsl.
  rewrite (create_raw_spec _ _ chA chB HA HB (g_keys _ GA) (g_keys _ GRB) Hsl) in Hcr. injection Hcr as <-.
  (* the same delta, seen from the reader's snapshot *)
  destruct (same_lookups _ _ _ _ HR HA Hlk) as (_ & _ & Hkeys).
  assert (Hsame : created (sn_raw A) (sn_raw B) chA chB = created (sn_raw R) (sn_raw B) chR chB).
  { unfold created. rewrite Hkeys, (diffs_lookups chA chR _ Hlk). reflexivity. }
  pose proof (same_len_lookups chA chR chB Hlk Hsl) as HslR.
  destruct (apply_created (sn_raw R) (sn_raw B) chR chB HR HB (g_keys _ GR) (g_keys _ GRB) (g_buf _ GR) (g_buf _ GRB)
              (good_lim _ _ GRB HB) HslR) as (B' & ch' & Eap & R' & Hlook).
  rewrite <- Hsame in Eap.
  pose proof (build_from_raw_congr B' ch' (sn_raw B) chB R' HB Hlook) as Hcg. rewrite EcB in Hcg.
  destruct (build_from_raw B') as [[S1| | |] ws1] eqn:Eb; try contradiction.
  destruct Hcg as (Hext & Hws & Hr1 & _). subst ws1. exists S1.
  (* the wire form *)
  unfold delta_encoding in Henc.
  destruct (delta_ints sz (created (sn_raw A) (sn_raw B) chA chB)) as [l| | |] eqn:El; try discriminate.
  destruct (ints_to_bytes l) as [bs| | |] eqn:Ebs; try discriminate. injection Henc as <-.
  assert (Hd : created (sn_raw A) (sn_raw B) chA chB
               = delta_of (d_del (created (sn_raw A) (sn_raw B) chA chB)) (diffs chA (view (sn_raw B) chB))) by reflexivity.
  pose proof El as El'. rewrite Hd in El'. pose proof (delta_ints_sizes _ _ _ _ El') as Hsz.
  pose proof (created_pre' sz _ _ chA chB HA HB (g_keys _ GA) (g_keys _ GRB) (g_buf _ GA) (g_buf _ GRB)
                (good_lim _ _ GA HA) (good_lim _ _ GRB HB) Hsl Hsz) as W.
  rewrite (delta_ints_spec sz _ _ W) in El'. apply Ok_inj in El'. subst l.
  rewrite (ints_to_bytes_enc _ (wire_ints_i32 _ _ _ W)) in Ebs. apply Ok_inj in Ebs. subst bs.
  split; [rewrite Hd at 2; apply wire_bytes_roundtrip, W|].
  split; [unfold snap_read_with_delta; rewrite Eap, wbind_ok'; exact Eb|].
  split; [exact Hext|]. split.
  - rewrite Hr1. pose proof (read_with_delta_good (sn_raw R) (created (sn_raw A) (sn_raw B) chA chB) GR
                               (dgood_created _ _ chA chB HA HB (g_buf _ GRB))) as Wp.
    unfold wpost in Wp. rewrite Eap in Wp. exact Wp.
  - exists chB, ch'. split; [exact HB|]. split; [rewrite Hr1; exact R'|exact Hlook].
Qed.

(* ---------- the chain ---------- *)

(* what write_snap may be given: type ids and ids in range, data of i32 *)
Definition item_okb (it : hitem) : bool :=
  match it with
  | (t, id, data) =>
    match t with Ordinal o => (0 <? o) && (o <? 16384) | Uuid u => uuid_okb u end
    && (0 <=? id) && (id <=? 65535) && forallb is_i32 data
  end.
Definition hop_typed_ok (o : hop) : bool :=
  match o with
  | HSnap tick its => is_i32 tick && forallb item_okb its
  | HMsg e => bytes_ok e
  end.

Lemma item_okb_op_ok t id data : item_okb (t, id, data) = true -> op_ok t id data.
Proof.
  unfold item_okb, op_ok. intros H. repeat rewrite andb_true_iff in H. destruct H as [[[Ht H1] H2] H3].
  split; [|split; [lia|exact H3]]. destruct t as [o|u]; [unfold OFFSET_EXTENDED_TYPE_ID; lia|exact Ht].
Qed.

Lemma hop_typed_ok_hop_ok o : hop_typed_ok o = true -> hop_ok o = true.
Proof. destruct o as [tick its|e]; cbn; intros H; [apply andb_true_iff in H; tauto|exact H]. Qed.

Lemma add_items_bgood : forall its b b', bgood b -> forallb item_okb its = true ->
  add_items b its = (b', Ok tt) -> bgood b'.
Proof.
  induction its as [|[[t id] data] its IH]; intros b b' G Hok H; cbn [add_items] in H.
  - injection H as <-. exact G.
  - cbn [forallb] in Hok. apply andb_true_iff in Hok as [Hit Hits].
    destruct (builder_add_bgood b t id data G (item_okb_op_ok _ _ _ Hit)) as [G1 _].
    destruct (builder_add b t id data) as [b1 [[]|e|s|]]; cbn [fst] in G1; try (injection H as _ H; discriminate).
    apply (IH b1 b' G1 Hits H).
Qed.

(* writer and reader in step *)
Record hinv (w : hwriter) (R : snap) : Prop := {
  hi_buf : hw_buf w = [];
  hi_bld : bgood (hw_builder w);
  hi_snap : exists b, bgood b /\ hw_snap w = b_snap b;
  hi_like : like (hw_snap w) R
}.

Lemma like_refl_bgood b : bgood b -> like (b_snap b) (b_snap b).
Proof.
  intros G. pose proof (bg_raw _ G) as GR. destruct (g_rep _ GR) as [ch R].
  split; [reflexivity|]. split; [exact GR|]. exists ch, ch. split; [exact R|]. split; [exact R|reflexivity].
Qed.

Lemma hinv_new : hinv hwriter_new snap_empty.
Proof.
  split; cbn [hwriter_new hw_buf hw_builder hw_snap]; [reflexivity|apply bgood_new| |].
  - exists builder_new. split; [apply bgood_new|reflexivity].
  - apply (like_refl_bgood builder_new bgood_new).
Qed.

Lemma recycle_bgood b nb : bgood b -> snap_recycle (b_snap b) = Ok nb -> bgood nb.
Proof.
  intros G H. destruct (bg_st _ G) as (ch & R & B).
  destruct (recycle_builder_state (b_snap b) ch (b_next b) (bg_raw _ G) R B (bg_next _ G)) as (b0 & E & G0 & _).
  rewrite E in H. injection H as <-. exact G0.
Qed.

Definition snap_items_list (sn : snap) : list hitem :=
  match @snap_items hrerr sn with Ok (_, l) => l | _ => [] end.

(* the reader's view of a snapshot that is `like` the writer's *)
Lemma snap_chunk_like b S' : bgood b -> like (b_snap b) S' -> snap_chunk S' = Ok (snap_items_list (b_snap b)).
Proof.
  intros G L. destruct (like_observables _ _ L) as (O1 & _).
  destruct (builder_consistent _ G) as [_ SG]. destruct (@snap_items_fine hrerr _ SG) as [[n l] E].
  unfold snap_chunk, snap_items_list. rewrite (O1 hrerr), E. reflexivity.
Qed.

(* the chunks the reader is expected to report for a history *)
Fixpoint expected (sz : osize) (w : hwriter) (ops : list hop) : list hchunk :=
  match ops with
  | [] => []
  | o :: r =>
    let w' := fst (fst (hstep sz w o)) in
    match o, snd (hstep sz w o) with
    | HSnap tick _, Ok _ => [HCTick tick; HCSnapshot (snap_items_list (hw_snap w'))]
    | HMsg e, Ok _ => [HCMessage (pad4 e)]
    | _, _ => []
    end ++ expected sz w' r
  end.

(* every call is accepted or is a refused tick *)
Definition accepted_res (r : res hwerr unit) : bool :=
  match r with Ok _ => true | Err HTooLowTickNumber => true | _ => false end.

Fixpoint accepted_run (sz : osize) (w : hwriter) (ops : list hop) : Prop :=
  match ops with
  | [] => True
  | o :: r => accepted_res (snd (hstep sz w o)) = true /\ accepted_run sz (fst (fst (hstep sz w o))) r
  end.

Lemma hdecode_app_ok sz : forall c1 last sn (out : list hchunk) c2,
  hdecode sz last c1 = (map (fun c => (c, [])) out, (Ok tt, [])) ->
  (* the snapshot kept after c1 *)
  (forall rest, hdecode sz last (c1 ++ rest) =
                let (l, e) := hdecode sz sn rest in (map (fun c => (c, [])) out ++ l, e)) ->
  hdecode sz last (c1 ++ c2) = let (l, e) := hdecode sz sn c2 in (map (fun c => (c, [])) out ++ l, e).
Proof. intros c1 last sn out c2 _ H. apply H. Qed.

Theorem typed_chain sz : forall ops w R cs,
  hinv w R -> forallb hop_typed_ok ops = true -> accepted_run sz w ops -> hist_shape sz w ops cs ->
  hdecode sz R (map pad4_chunk cs) = (map (fun c => (c, [])) (expected sz w ops), (Ok tt, [])).
Proof.
  induction ops as [|o ops IH]; intros w R cs I Hops Hacc Hsh.
  - cbn [hist_shape] in Hsh. subst cs. reflexivity.
  - cbn [forallb] in Hops. apply andb_true_iff in Hops as [Ho Hops].
    cbn [accepted_run] in Hacc. destruct Hacc as [Hr Hacc].
    cbn [hist_shape] in Hsh. destruct Hsh as (c1 & c2 & -> & Hst & Hsh2).
    cbn [expected].
    destruct (hstep sz w o) as [[w1 b1] r1] eqn:Es. cbn [fst snd] in *.
    rewrite map_app.
    destruct o as [tick its|e]; cbn [hop_typed_ok] in Ho.
    + (* write_snap *)
      apply andb_true_iff in Ho as [Htick Hits].
      destruct r1 as [[]|er|s|]; cbn [accepted_res] in Hr; try discriminate.
      * (* accepted *)
        cbn [step_shape] in Hst.
        destruct Hst as (b' & e & nb & Eadd & Henc & -> & Erec & Hs1 & Hb1 & Hbuf1 & _).
        rewrite (hi_buf _ _ I). cbn [app].
        pose proof (add_items_bgood its _ b' (hi_bld _ _ I) Hits Eadd) as Gb'.
        change (builder_finish b') with (b_snap b') in *.
        assert (Hdec : exists S', like (b_snap b') S' /\
                  decode_chunk sz R (if keyframe_rule w tick then CSnapshot e else CDelta e)
                  = (Ok (HCSnapshot (snap_items_list (b_snap b')), S'), [])).
        { destruct (keyframe_rule w tick).
          - (* key frame *)
            destruct (bgood_roundtrip b' Gb') as (l & bs & S' & El & Ebs & _ & Erd & L).
            unfold snap_encoding in Henc. rewrite El, Ebs in Henc. apply Ok_inj in Henc.
            assert (e = bs) by congruence. subst e.
            exists S'. split; [exact L|]. cbn [decode_chunk]. rewrite Erd. cbn [map].
            rewrite (snap_chunk_like b' S' Gb' L). reflexivity.
          - (* delta against the last written snapshot *)
            destruct Henc as (d & Ecr & Henc). destruct (hi_snap _ _ I) as (bA & GA & EA).
            assert (GAr : good (sn_raw (hw_snap w))) by (rewrite EA; apply (bg_raw _ GA)).
            destruct (delta_step sz (hw_snap w) R b' d e GAr (hi_like _ _ I) Gb' Ecr Henc) as (S' & Erd & Eap & L).
            exists S'. split; [exact L|]. cbn [decode_chunk]. rewrite Erd, Eap. cbn [map app].
            rewrite (snap_chunk_like b' S' Gb' L). reflexivity. }
        destruct Hdec as (S' & L & Hdec).
        assert (I1 : hinv w1 S').
        { split; [exact Hbuf1|rewrite Hb1; apply (recycle_bgood b' nb Gb' Erec)| |rewrite Hs1; exact L].
          exists b'. split; [exact Gb'|exact Hs1]. }
        cbn [map app pad4_chunk hdecode decode_chunk].
        replace (pad4_chunk (if keyframe_rule w tick then CSnapshot e else CDelta e))
          with (if keyframe_rule w tick then CSnapshot e else CDelta e) by (destruct (keyframe_rule w tick); reflexivity).
        rewrite Hdec. rewrite (IH w1 S' c2 I1 Hops Hacc Hsh2). rewrite ?Es. cbn [fst snd]. rewrite Hs1. reflexivity.
      * (* refused tick: nothing written, nothing changed *)
        destruct er; try discriminate. cbn [step_shape] in Hst. destruct Hst as [-> ->].
        rewrite ?Es. cbn [fst snd app map]. apply (IH w R c2 I Hops Hacc Hsh2).
    + (* write_msg *)
      destruct r1 as [[]|er|s|]; cbn [accepted_res] in Hr; try discriminate.
      * cbn [step_shape] in Hst. destruct Hst as (-> & Hs1 & Hb1 & Hbuf1 & _).
        rewrite (hi_buf _ _ I). cbn [app map pad4_chunk hdecode decode_chunk].
        assert (I1 : hinv w1 R).
        { split; [exact Hbuf1|rewrite Hb1; apply (hi_bld _ _ I)|rewrite Hs1; apply (hi_snap _ _ I)|rewrite Hs1; apply (hi_like _ _ I)]. }
        rewrite (IH w1 R c2 I1 Hops Hacc Hsh2). rewrite ?Es. cbn [fst snd]. reflexivity.
      * exfalso. cbn [hstep] in Es. unfold write_msg in Es.
        destruct (buf_append (hw_buf w) e) as [buf' [|]]; [destruct (write_message buf') as [mb|?|?|]|];
          injection Es as _ _ Hres; destruct er; discriminate.
Qed.

(* the results of hrun are the results of the steps *)
Lemma hrun_accepted sz : forall ops w w' b rs,
  hrun sz w ops = (w', b, rs) -> forallb accepted_res rs = true -> length rs = length ops -> accepted_run sz w ops.
Proof.
  induction ops as [|o ops IH]; intros w w' b rs H Hrs Hlen; [exact I|].
  cbn [hrun] in H. cbn [accepted_run]. destruct (hstep sz w o) as [[w1 b1] r1] eqn:Es. cbn [fst snd].
  destruct r1 as [[]|e|s|].
  - destruct (hrun sz w1 ops) as [[w2 b2] rs2] eqn:Er. injection H as <- <- <-.
    cbn [forallb] in Hrs. apply andb_true_iff in Hrs as [_ Hrs2]. cbn [length] in Hlen.
    split; [reflexivity|]. apply (IH w1 w2 b2 rs2 Er Hrs2). lia.
  - destruct (hrun sz w1 ops) as [[w2 b2] rs2] eqn:Er. injection H as <- <- <-.
    cbn [forallb] in Hrs. apply andb_true_iff in Hrs as [Hr1 Hrs2]. cbn [length] in Hlen.
    split; [exact Hr1|]. apply (IH w1 w2 b2 rs2 Er Hrs2). lia.
  - injection H as <- <- <-. cbn in Hrs. discriminate.
  - injection H as <- <- <-. cbn in Hrs. discriminate.
Qed.

Lemma accepted_no_failure rs : forallb accepted_res rs = true -> no_failure rs = true.
Proof.
  unfold no_failure. induction rs as [|r rs IH]; [reflexivity|]. cbn [forallb]. intros H.
  apply andb_true_iff in H as [Hr Hrs]. rewrite (IH Hrs). destruct r as [[]|e|s|]; try reflexivity; discriminate.
Qed.

Lemma hrun_length sz : forall ops w w' b rs, hrun sz w ops = (w', b, rs) -> no_failure rs = true -> length rs = length ops.
Proof.
  induction ops as [|o ops IH]; intros w w' b rs H Hrs; cbn [hrun] in H.
  - injection H as <- <- <-. reflexivity.
  - destruct (hstep sz w o) as [[w1 b1] r1]. destruct r1 as [[]|e|s|].
    + destruct (hrun sz w1 ops) as [[w2 b2] rs2] eqn:Er. injection H as <- <- <-.
      cbn [no_failure forallb] in Hrs. apply andb_true_iff in Hrs as [_ Hrs]. cbn [length]. f_equal. apply (IH w1 w2 b2 rs2 Er Hrs).
    + destruct (hrun sz w1 ops) as [[w2 b2] rs2] eqn:Er. injection H as <- <- <-.
      cbn [no_failure forallb] in Hrs. apply andb_true_iff in Hrs as [_ Hrs]. cbn [length]. f_equal. apply (IH w1 w2 b2 rs2 Er Hrs).
    + injection H as <- <- <-. cbn in Hrs. discriminate.
    + injection H as <- <- <-. cbn in Hrs. discriminate.
Qed.

(* ---------- C15_typed on the model ---------- *)
Theorem hl_typed sz i ops w b rs hb :
  winput_ok i = true -> forallb hop_typed_ok ops = true -> writer_new i = Ok hb ->
  hrun sz hwriter_new ops = (w, b, rs) -> forallb accepted_res rs = true ->
  exists h,
    hread_all sz (hb ++ b) = Ok (h, [], (map (fun c => (c, [])) (expected sz hwriter_new ops), (Ok tt, [])))
    /\ header_view h = expected_view i.
Proof.
  intros Hi Hops Hh Hrun Hrs.
  assert (Hops' : forallb hop_ok ops = true).
  { rewrite forallb_forall in *. intros o Ho. apply hop_typed_ok_hop_ok, Hops, Ho. }
  pose proof (accepted_no_failure rs Hrs) as Hnf.
  destruct (hl_transport sz i ops w b rs hb Hi Hops' Hh Hrun Hnf) as (h & cs & Hr & Hv & Hsh).
  exists h. split; [|exact Hv]. rewrite Hr.
  rewrite (typed_chain sz ops hwriter_new snap_empty cs hinv_new Hops
             (hrun_accepted sz ops _ _ _ _ Hrun Hrs (hrun_length sz ops _ _ _ _ Hrun Hnf)) Hsh).
  reflexivity.
Qed.

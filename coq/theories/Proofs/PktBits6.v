(* The bit-field leaf functions of net/src/protocol.rs (generated: Gen/Bits6.v) are
   mutually inverse: for every in-range field tuple and for every canonical bit pattern.
   Method: the bytes that are only passed through are split off by lifting lemmas, what
   remains depends on at most two bytes (or one small field and one 10-bit field) and is
   checked on every value by vm_compute (PktSweep.v). Nothing here is sampled. *)
From LibTw2 Require Import Base.Res Base.Bits Model.PacketBase Gen.Consts6 Gen.Bits6 Proofs.PktSweep.
From Coq Require Import ZArith Lia Bool List.
Open Scope Z_scope.

Definition byteb (b : Z) : bool := (0 <=? b) && (b <? 256).
Lemma byteb_iff b : byteb b = true <-> 0 <= b < 256.
Proof. unfold byteb. lia. Qed.

(* ================= ChunkHeader (2 bytes) ================= *)

(* canonical: the four padding bits of the second byte are clear (doc/packet.md) *)
Definition ch6_canonical (p : ChunkHeaderPacked6) : bool := chp6_padding_size p <? 16.
Definition ch6_in_range (h : ChunkHeader6) : bool :=
  (0 <=? ch6_flags h) && (ch6_flags h <? 4) && (0 <=? ch6_size h) && (ch6_size h <? 1024).
Definition chp6_bytes_ok (p : ChunkHeaderPacked6) : bool :=
  byteb (chp6_flags_size p) && byteb (chp6_padding_size p).

Definition chp6_eqb (a b : ChunkHeaderPacked6) : bool :=
  (chp6_flags_size a =? chp6_flags_size b) && (chp6_padding_size a =? chp6_padding_size b).
Lemma chp6_eqb_eq a b : chp6_eqb a b = true <-> a = b.
Proof.
  destruct a, b; unfold chp6_eqb; cbn. split.
  - intros H. apply andb_true_iff in H as [H1 H2]. apply Z.eqb_eq in H1, H2. subst. reflexivity.
  - intros H. injection H as -> ->. rewrite !Z.eqb_refl. reflexivity.
Qed.
Definition ch6_eqb (a b : ChunkHeader6) : bool :=
  (ch6_flags a =? ch6_flags b) && (ch6_size a =? ch6_size b).
Lemma ch6_eqb_eq a b : ch6_eqb a b = true <-> a = b.
Proof.
  destruct a, b; unfold ch6_eqb; cbn. split.
  - intros H. apply andb_true_iff in H as [H1 H2]. apply Z.eqb_eq in H1, H2. subst. reflexivity.
  - intros H. injection H as -> ->. rewrite !Z.eqb_refl. reflexivity.
Qed.

Definition ch6_chk_u (b0 b1 : Z) : bool :=
  let p := {| chp6_flags_size := b0; chp6_padding_size := b1 |} in
  let '(h, ws) := ChunkHeaderPacked6_unpack_warn p in
  ch6_in_range h &&
  match ChunkHeader6_pack h with
  | Ok p' => Bool.eqb (is_nil ws) (chp6_eqb p' p) && Bool.eqb (chp6_eqb p' p) (ch6_canonical p)
  | _ => false
  end.

Lemma ch6_chk_u_all b0 b1 : 0 <= b0 < 256 -> 0 <= b1 < 256 -> ch6_chk_u b0 b1 = true.
Proof. intros H0 H1. sweep2 b0 b1 H0 H1. Qed.

Definition ch6_chk_p (flags size : Z) : bool :=
  let h := {| ch6_flags := flags; ch6_size := size |} in
  match ChunkHeader6_pack h with
  | Ok p => chp6_bytes_ok p && ch6_canonical p
            && let '(h', ws) := ChunkHeaderPacked6_unpack_warn p in ch6_eqb h' h && is_nil ws
  | _ => false
  end.

Lemma ch6_chk_p_all flags size : 0 <= flags < 4 -> 0 <= size < 1024 -> ch6_chk_p flags size = true.
Proof. intros H0 H1. rsweep2 4%nat 1024%nat flags size H0 H1. Qed.

Lemma ch6_facts_u p : chp6_bytes_ok p = true ->
  exists h ws p', ChunkHeaderPacked6_unpack_warn p = (h, ws) /\ ch6_in_range h = true
    /\ ChunkHeader6_pack h = Ok p'
    /\ (ws = [] <-> p' = p) /\ (p' = p <-> ch6_canonical p = true).
Proof.
  destruct p as [b0 b1]. unfold chp6_bytes_ok. cbn [chp6_flags_size chp6_padding_size].
  intros H. apply andb_true_iff in H as [H0 H1]. apply byteb_iff in H0, H1.
  pose proof (ch6_chk_u_all b0 b1 H0 H1) as C. unfold ch6_chk_u in C.
  destruct (ChunkHeaderPacked6_unpack_warn _) as [h ws].
  apply andb_true_iff in C as [Cr C].
  destruct (ChunkHeader6_pack h) as [p'| | |] eqn:Ep; try discriminate.
  apply andb_true_iff in C as [C1 C2]. apply eqb_prop in C1, C2.
  exists h, ws, p'. split; [reflexivity|]. split; [exact Cr|]. split; [exact Ep|]. split.
  - split.
    + intros ->. apply chp6_eqb_eq. rewrite <- C1. reflexivity.
    + intros E. apply is_nil_true. rewrite C1. apply chp6_eqb_eq, E.
  - split.
    + intros E. rewrite <- C2. apply chp6_eqb_eq, E.
    + intros E. apply chp6_eqb_eq. rewrite C2. exact E.
Qed.

(* unpack then pack: every canonical bit pattern *)
Theorem ch6_unpack_pack p : chp6_bytes_ok p = true -> ch6_canonical p = true ->
  ChunkHeader6_pack (fst (ChunkHeaderPacked6_unpack_warn p)) = Ok p
  /\ snd (ChunkHeaderPacked6_unpack_warn p) = [].
Proof.
  intros Hb Hc. destruct (ch6_facts_u p Hb) as (h & ws & p' & E & _ & Ep & Hw & Hcn).
  rewrite E. cbn [fst snd]. apply Hcn in Hc. subst p'. split; [exact Ep|]. apply Hw. reflexivity.
Qed.

Theorem ch6_warn_iff p : chp6_bytes_ok p = true ->
  (snd (ChunkHeaderPacked6_unpack_warn p) = [] <-> ChunkHeader6_pack (fst (ChunkHeaderPacked6_unpack_warn p)) = Ok p)
  /\ (snd (ChunkHeaderPacked6_unpack_warn p) = [] <-> ch6_canonical p = true).
Proof.
  intros Hb. destruct (ch6_facts_u p Hb) as (h & ws & p' & E & _ & Ep & Hw & Hcn).
  rewrite E. cbn [fst snd]. rewrite Ep. split.
  - rewrite Hw. split; [intros ->; reflexivity|intros H; injection H as ->; reflexivity].
  - rewrite Hw. exact Hcn.
Qed.

Theorem ch6_unpack_in_range p : chp6_bytes_ok p = true ->
  ch6_in_range (fst (ChunkHeaderPacked6_unpack_warn p)) = true.
Proof.
  intros Hb. destruct (ch6_facts_u p Hb) as (h & ws & p' & E & Hr & _). rewrite E. exact Hr.
Qed.

(* pack then unpack: every in-range field tuple *)
Theorem ch6_pack_unpack h : ch6_in_range h = true ->
  exists p, ChunkHeader6_pack h = Ok p /\ ChunkHeaderPacked6_unpack_warn p = (h, [])
            /\ chp6_bytes_ok p = true /\ ch6_canonical p = true.
Proof.
  destruct h as [flags size]. unfold ch6_in_range. cbn [ch6_flags ch6_size]. intros H.
  assert (H0 : 0 <= flags < 4) by lia. assert (H1 : 0 <= size < 1024) by lia.
  pose proof (ch6_chk_p_all flags size H0 H1) as C. unfold ch6_chk_p in C.
  destruct (ChunkHeader6_pack _) as [p| | |]; try discriminate.
  apply andb_true_iff in C as [C C3]. apply andb_true_iff in C as [C1 C2].
  exists p. split; [reflexivity|].
  destruct (ChunkHeaderPacked6_unpack_warn p) as [h' ws].
  apply andb_true_iff in C3 as [C3 C4]. apply ch6_eqb_eq in C3. apply is_nil_true in C4. subst.
  split; [reflexivity|]. split; assumption.
Qed.

(* ================= PacketHeader (3 bytes; num_chunks is passed through) ================= *)

(* canonical: the two padding bits (bits 2 and 3 of the first byte) are clear *)
Definition ph6_canonical (p : PacketHeaderPacked6) : bool := (php6_flags_padding_ack p / 4) mod 4 =? 0.
(* the connless flag (bit 5 of the first byte) silences the padding warning *)
Definition ph6_connless_bit (p : PacketHeaderPacked6) : bool := (php6_flags_padding_ack p / 32) mod 2 =? 1.
Definition ph6_in_range (h : PacketHeader6) : bool :=
  (0 <=? ph6_flags h) && (ph6_flags h <? 16) && (0 <=? ph6_ack h) && (ph6_ack h <? 1024)
  && byteb (ph6_num_chunks h).
Definition php6_bytes_ok (p : PacketHeaderPacked6) : bool :=
  byteb (php6_flags_padding_ack p) && byteb (php6_ack p) && byteb (php6_num_chunks p).

Definition ph6_set_nc (h : PacketHeader6) (nc : Z) : PacketHeader6 :=
  {| ph6_flags := ph6_flags h; ph6_ack := ph6_ack h; ph6_num_chunks := nc |}.
Definition php6_set_nc (p : PacketHeaderPacked6) (nc : Z) : PacketHeaderPacked6 :=
  {| php6_flags_padding_ack := php6_flags_padding_ack p; php6_ack := php6_ack p; php6_num_chunks := nc |}.

Lemma ph6_unpack_lift b0 b1 b2 :
  PacketHeaderPacked6_unpack_warn {| php6_flags_padding_ack := b0; php6_ack := b1; php6_num_chunks := b2 |}
  = (ph6_set_nc (fst (PacketHeaderPacked6_unpack_warn {| php6_flags_padding_ack := b0; php6_ack := b1; php6_num_chunks := 0 |})) b2,
     snd (PacketHeaderPacked6_unpack_warn {| php6_flags_padding_ack := b0; php6_ack := b1; php6_num_chunks := 0 |})).
Proof. reflexivity. Qed.

Lemma ph6_pack_lift h nc :
  PacketHeader6_pack (ph6_set_nc h nc)
  = match PacketHeader6_pack (ph6_set_nc h 0) with
    | Ok p => Ok (php6_set_nc p nc)
    | Err e => Err e
    | Panic s => Panic s
    | OutOfFuel => OutOfFuel
    end.
Proof.
  unfold PacketHeader6_pack, ph6_set_nc, php6_set_nc. cbn [ph6_flags ph6_ack ph6_num_chunks].
  destruct (negb (Z.shiftr (ph6_flags h) PACKET_FLAGS_BITS =? 0)); [reflexivity|].
  destruct (negb (Z.shiftr (ph6_ack h) SEQUENCE_BITS =? 0)); reflexivity.
Qed.

Definition ph6_eqb01 (a b : PacketHeaderPacked6) : bool :=
  (php6_flags_padding_ack a =? php6_flags_padding_ack b) && (php6_ack a =? php6_ack b).

Definition ph6_chk_u (b0 b1 : Z) : bool :=
  let p := {| php6_flags_padding_ack := b0; php6_ack := b1; php6_num_chunks := 0 |} in
  let '(h, ws) := PacketHeaderPacked6_unpack_warn p in
  ph6_in_range h && (ph6_num_chunks h =? 0) &&
  match PacketHeader6_pack h with
  | Ok p' => Bool.eqb (ph6_eqb01 p' p) (ph6_canonical p)
             && Bool.eqb (is_nil ws) (ph6_canonical p || ph6_connless_bit p)
             && (php6_num_chunks p' =? 0)
  | _ => false
  end.

Lemma ph6_chk_u_all b0 b1 : 0 <= b0 < 256 -> 0 <= b1 < 256 -> ph6_chk_u b0 b1 = true.
Proof. intros H0 H1. sweep2 b0 b1 H0 H1. Qed.

Lemma ph6_facts_u p : php6_bytes_ok p = true ->
  exists h ws p', PacketHeaderPacked6_unpack_warn p = (h, ws) /\ ph6_in_range h = true
    /\ PacketHeader6_pack h = Ok p'
    /\ (p' = p <-> ph6_canonical p = true)
    /\ (ws = [] <-> (ph6_canonical p = true \/ ph6_connless_bit p = true))
    /\ ph6_num_chunks h = php6_num_chunks p.
Proof.
  destruct p as [b0 b1 b2]. unfold php6_bytes_ok. cbn [php6_flags_padding_ack php6_ack php6_num_chunks].
  intros H. apply andb_true_iff in H as [H H2]. apply andb_true_iff in H as [H0 H1].
  apply byteb_iff in H0, H1.
  pose proof (ph6_chk_u_all b0 b1 H0 H1) as C. unfold ph6_chk_u in C.
  rewrite ph6_unpack_lift.
  destruct (PacketHeaderPacked6_unpack_warn {| php6_flags_padding_ack := b0; php6_ack := b1; php6_num_chunks := 0 |}) as [h ws].
  cbn [fst snd].
  apply andb_true_iff in C as [Cr C]. apply andb_true_iff in Cr as [Cr Cn]. apply Z.eqb_eq in Cn.
  assert (Eh : ph6_set_nc h 0 = h) by (destruct h; unfold ph6_set_nc; cbn in *; subst; reflexivity).
  destruct (PacketHeader6_pack h) as [p0| | |] eqn:Ep; try discriminate.
  apply andb_true_iff in C as [C C3]. apply andb_true_iff in C as [C1 C2].
  apply eqb_prop in C1, C2. apply Z.eqb_eq in C3.
  exists (ph6_set_nc h b2), ws, (php6_set_nc p0 b2). split; [reflexivity|].
  split.
  { unfold ph6_in_range, ph6_set_nc in *. cbn [ph6_flags ph6_ack ph6_num_chunks] in *.
    apply andb_true_iff in Cr as [Cr _]. rewrite Cr, H2. reflexivity. }
  split.
  { rewrite ph6_pack_lift, Eh, Ep. reflexivity. }
  unfold ph6_canonical, ph6_connless_bit in *. cbn [php6_flags_padding_ack] in *.
  split; [|split].
  - rewrite <- C1. unfold ph6_eqb01, php6_set_nc. destruct p0 as [c0 c1 c2].
    cbn [php6_flags_padding_ack php6_ack php6_num_chunks]. split.
    + intros E. injection E as -> ->. rewrite !Z.eqb_refl. reflexivity.
    + intros E. apply andb_true_iff in E as [E0 E1]. apply Z.eqb_eq in E0, E1. subst. reflexivity.
  - split.
    + intros ->. cbn [is_nil] in C2. symmetry in C2. apply orb_true_iff in C2. exact C2.
    + intros E. apply is_nil_true. rewrite C2. apply orb_true_iff. exact E.
  - reflexivity.
Qed.

Theorem ph6_unpack_pack p : php6_bytes_ok p = true -> ph6_canonical p = true ->
  PacketHeader6_pack (fst (PacketHeaderPacked6_unpack_warn p)) = Ok p
  /\ snd (PacketHeaderPacked6_unpack_warn p) = [].
Proof.
  intros Hb Hc. destruct (ph6_facts_u p Hb) as (h & ws & p' & E & _ & Ep & Hcn & Hw & _).
  rewrite E. cbn [fst snd]. apply Hcn in Hc as Hc'. subst p'. split; [exact Ep|].
  apply Hw. left. exact Hc.
Qed.

(* the padding warning is silent exactly on the canonical patterns, except that a set
   connless bit silences it too (the reader then checks the whole first three bytes
   against ff ff ff: Warning::ConnlessPadding) *)
Theorem ph6_warn_iff p : php6_bytes_ok p = true ->
  (ph6_canonical p = true <-> PacketHeader6_pack (fst (PacketHeaderPacked6_unpack_warn p)) = Ok p)
  /\ (snd (PacketHeaderPacked6_unpack_warn p) = [] <-> (ph6_canonical p = true \/ ph6_connless_bit p = true)).
Proof.
  intros Hb. destruct (ph6_facts_u p Hb) as (h & ws & p' & E & _ & Ep & Hcn & Hw & _).
  rewrite E. cbn [fst snd]. rewrite Ep. split; [|exact Hw].
  rewrite <- Hcn. split; [intros ->; reflexivity|intros H; injection H as ->; reflexivity].
Qed.

Theorem ph6_unpack_in_range p : php6_bytes_ok p = true ->
  ph6_in_range (fst (PacketHeaderPacked6_unpack_warn p)) = true
  /\ ph6_num_chunks (fst (PacketHeaderPacked6_unpack_warn p)) = php6_num_chunks p.
Proof.
  intros Hb. destruct (ph6_facts_u p Hb) as (h & ws & p' & E & Hr & _ & _ & _ & Hn). rewrite E. split; assumption.
Qed.

Definition ph6_eqb01h (a b : PacketHeader6) : bool :=
  (ph6_flags a =? ph6_flags b) && (ph6_ack a =? ph6_ack b).

Definition ph6_chk_p (flags ack : Z) : bool :=
  let h := {| ph6_flags := flags; ph6_ack := ack; ph6_num_chunks := 0 |} in
  match PacketHeader6_pack h with
  | Ok p => byteb (php6_flags_padding_ack p) && byteb (php6_ack p) && (php6_num_chunks p =? 0) && ph6_canonical p
            && let '(h', ws) := PacketHeaderPacked6_unpack_warn p in ph6_eqb01h h' h && is_nil ws
  | _ => false
  end.

Lemma ph6_chk_p_all flags ack : 0 <= flags < 16 -> 0 <= ack < 1024 -> ph6_chk_p flags ack = true.
Proof. intros H0 H1. rsweep2 16%nat 1024%nat flags ack H0 H1. Qed.

Theorem ph6_pack_unpack h : ph6_in_range h = true ->
  exists p, PacketHeader6_pack h = Ok p /\ PacketHeaderPacked6_unpack_warn p = (h, [])
            /\ php6_bytes_ok p = true /\ ph6_canonical p = true.
Proof.
  destruct h as [flags ack nc]. unfold ph6_in_range. cbn [ph6_flags ph6_ack ph6_num_chunks]. intros H.
  assert (H0 : 0 <= flags < 16) by lia. assert (H1 : 0 <= ack < 1024) by lia.
  assert (H2 : byteb nc = true) by (apply andb_true_iff in H as [_ H]; exact H).
  pose proof (ph6_chk_p_all flags ack H0 H1) as C. unfold ph6_chk_p in C.
  change {| ph6_flags := flags; ph6_ack := ack; ph6_num_chunks := nc |}
    with (ph6_set_nc {| ph6_flags := flags; ph6_ack := ack; ph6_num_chunks := 0 |} nc).
  rewrite ph6_pack_lift.
  change (ph6_set_nc {| ph6_flags := flags; ph6_ack := ack; ph6_num_chunks := 0 |} 0)
    with {| ph6_flags := flags; ph6_ack := ack; ph6_num_chunks := 0 |}.
  destruct (PacketHeader6_pack _) as [p| | |]; try discriminate.
  destruct p as [c0 c1 c2]. cbn [php6_flags_padding_ack php6_ack php6_num_chunks] in C.
  apply andb_true_iff in C as [C C5]. apply andb_true_iff in C as [C C4].
  apply andb_true_iff in C as [C C3]. apply andb_true_iff in C as [C1 C2]. apply Z.eqb_eq in C3. subst c2.
  exists (php6_set_nc {| php6_flags_padding_ack := c0; php6_ack := c1; php6_num_chunks := 0 |} nc).
  split; [reflexivity|]. unfold php6_set_nc. cbn [php6_flags_padding_ack php6_ack php6_num_chunks].
  rewrite ph6_unpack_lift.
  destruct (PacketHeaderPacked6_unpack_warn {| php6_flags_padding_ack := c0; php6_ack := c1; php6_num_chunks := 0 |}) as [h' ws].
  apply andb_true_iff in C5 as [C5 C6]. apply is_nil_true in C6. subst ws.
  unfold ph6_eqb01h in C5. destruct h' as [f' a' n']. cbn [ph6_flags ph6_ack fst snd] in *.
  apply andb_true_iff in C5 as [E0 E1]. apply Z.eqb_eq in E0, E1. subst.
  repeat split.
  - unfold php6_bytes_ok. cbn [php6_flags_padding_ack php6_ack php6_num_chunks]. rewrite C1, C2, H2. reflexivity.
  - exact C4.
Qed.

(* ================= ChunkHeaderVital (3 bytes) ================= *)

(* canonical: the two sequence bits stored twice (bits 4,5 of the second byte and bits
   6,7 of the third byte) agree *)
Definition chv6_canonical (p : ChunkHeaderVitalPacked6) : bool :=
  (chvp6_sequence_size p / 16) mod 4 =? chvp6_sequence p / 64.
Definition chv6_in_range (h : ChunkHeaderVital6) : bool :=
  ch6_in_range (chv6_h h) && (0 <=? chv6_sequence h) && (chv6_sequence h <? 1024).
Definition chvp6_bytes_ok (p : ChunkHeaderVitalPacked6) : bool :=
  byteb (chvp6_flags_size p) && byteb (chvp6_sequence_size p) && byteb (chvp6_sequence p).

Lemma chvp6_eq_iff a0 a1 a2 b0 b1 b2 :
  {| chvp6_flags_size := a0; chvp6_sequence_size := a1; chvp6_sequence := a2 |}
  = {| chvp6_flags_size := b0; chvp6_sequence_size := b1; chvp6_sequence := b2 |}
  <-> a0 = b0 /\ ((a1 =? b1) && (a2 =? b2) = true).
Proof.
  split.
  - intros H. injection H as -> -> ->. rewrite !Z.eqb_refl. split; reflexivity.
  - intros [-> H]. apply andb_true_iff in H as [H1 H2]. apply Z.eqb_eq in H1, H2. subst. reflexivity.
Qed.

Lemma chv6_facts_u p : chvp6_bytes_ok p = true ->
  exists h ws p', ChunkHeaderVitalPacked6_unpack_warn p = (h, ws) /\ chv6_in_range h = true
    /\ ChunkHeaderVital6_pack h = Ok p'
    /\ (ws = [] <-> chv6_canonical p = true) /\ (p' = p <-> chv6_canonical p = true).
Proof.
  destruct p as [b0 b1 b2]. unfold chvp6_bytes_ok, chv6_canonical.
  cbn [chvp6_flags_size chvp6_sequence_size chvp6_sequence].
  intros H. apply andb_true_iff in H as [H H2]. apply andb_true_iff in H as [H0 H1].
  apply byteb_iff in H0, H1, H2.
  unfold ChunkHeaderVitalPacked6_unpack_warn. cbn [chvp6_flags_size chvp6_sequence_size chvp6_sequence].
  assert (Hq : chp6_bytes_ok {| chp6_flags_size := b0; chp6_padding_size := Z.land b1 15 |} = true).
  { unfold chp6_bytes_ok. cbn [chp6_flags_size chp6_padding_size]. apply andb_true_iff.
    split; [apply byteb_iff; exact H0|]. sweep1 b1 H1. }
  assert (Hqc : ch6_canonical {| chp6_flags_size := b0; chp6_padding_size := Z.land b1 15 |} = true).
  { unfold ch6_canonical. cbn [chp6_padding_size]. sweep1 b1 H1. }
  destruct (ch6_unpack_pack _ Hq Hqc) as [Ep Ew].
  pose proof (ch6_unpack_in_range _ Hq) as Hr.
  destruct (ChunkHeaderPacked6_unpack_warn {| chp6_flags_size := b0; chp6_padding_size := Z.land b1 15 |}) as [vh wsh].
  cbn [fst snd] in *. subst wsh.
  eexists. eexists. eexists. split; [reflexivity|].
  split.
  { unfold chv6_in_range. cbn [chv6_h chv6_sequence]. rewrite Hr. cbn [andb]. sweep2 b1 b2 H1 H2. }
  unfold ChunkHeaderVital6_pack. cbn [chv6_h chv6_sequence]. rewrite Ep.
  cbn [bind chp6_flags_size chp6_padding_size].
  match goal with
  | |- (if ?c then _ else Ok {| chvp6_flags_size := _; chvp6_sequence_size := ?e1; chvp6_sequence := ?e2 |}) = _ /\ _ =>
    assert (F1 : c = false) by (to_bool; sweep2 b1 b2 H1 H2);
    assert (F2 : Bool.eqb ((e1 =? b1) && (e2 =? b2)) ((b1 / 16) mod 4 =? b2 / 64) = true) by (sweep2 b1 b2 H1 H2)
  end.
  rewrite F1. split; [reflexivity|]. split.
  - rewrite app_nil_r.
    match goal with
    | |- ?w = [] <-> _ =>
      assert (F3 : Bool.eqb (is_nil w) ((b1 / 16) mod 4 =? b2 / 64) = true) by (sweep2 b1 b2 H1 H2)
    end.
    apply eqb_true_iff_l in F3. rewrite <- F3. split; [intros ->; reflexivity|apply is_nil_true].
  - rewrite chvp6_eq_iff. apply eqb_true_iff_l in F2. rewrite <- F2. intuition.
Qed.

Theorem chv6_unpack_pack p : chvp6_bytes_ok p = true -> chv6_canonical p = true ->
  ChunkHeaderVital6_pack (fst (ChunkHeaderVitalPacked6_unpack_warn p)) = Ok p
  /\ snd (ChunkHeaderVitalPacked6_unpack_warn p) = [].
Proof.
  intros Hb Hc. destruct (chv6_facts_u p Hb) as (h & ws & p' & E & _ & Ep & Hw & Hcn).
  rewrite E. cbn [fst snd]. apply Hcn in Hc as Hc'. subst p'. split; [exact Ep|]. apply Hw, Hc.
Qed.

Theorem chv6_warn_iff p : chvp6_bytes_ok p = true ->
  (snd (ChunkHeaderVitalPacked6_unpack_warn p) = [] <-> ChunkHeaderVital6_pack (fst (ChunkHeaderVitalPacked6_unpack_warn p)) = Ok p)
  /\ (snd (ChunkHeaderVitalPacked6_unpack_warn p) = [] <-> chv6_canonical p = true).
Proof.
  intros Hb. destruct (chv6_facts_u p Hb) as (h & ws & p' & E & _ & Ep & Hw & Hcn).
  rewrite E. cbn [fst snd]. rewrite Ep. split; [|exact Hw].
  rewrite Hw, <- Hcn. split; [intros ->; reflexivity|intros H; injection H as ->; reflexivity].
Qed.

Theorem chv6_unpack_in_range p : chvp6_bytes_ok p = true ->
  chv6_in_range (fst (ChunkHeaderVitalPacked6_unpack_warn p)) = true.
Proof.
  intros Hb. destruct (chv6_facts_u p Hb) as (h & ws & p' & E & Hr & _). rewrite E. exact Hr.
Qed.

Theorem chv6_pack_unpack h : chv6_in_range h = true ->
  exists p, ChunkHeaderVital6_pack h = Ok p /\ ChunkHeaderVitalPacked6_unpack_warn p = (h, [])
            /\ chvp6_bytes_ok p = true /\ chv6_canonical p = true.
Proof.
  destruct h as [hh seq]. unfold chv6_in_range. cbn [chv6_h chv6_sequence]. intros H.
  apply andb_true_iff in H as [H Hs2]. apply andb_true_iff in H as [Hh Hs1].
  assert (Hs : 0 <= seq < Z.of_nat 1024) by (change (Z.of_nat 1024) with 1024; lia).
  destruct (ch6_pack_unpack hh Hh) as (q & Eq & Uq & Bq & Cq).
  destruct q as [c0 c]. unfold chp6_bytes_ok, ch6_canonical in Bq, Cq.
  cbn [chp6_flags_size chp6_padding_size] in Bq, Cq.
  apply andb_true_iff in Bq as [B0 B1]. apply byteb_iff in B1.
  assert (Hc : 0 <= c < Z.of_nat 16) by (change (Z.of_nat 16) with 16; lia).
  unfold ChunkHeaderVital6_pack. cbn [chv6_h chv6_sequence]. rewrite Eq.
  cbn [bind chp6_flags_size chp6_padding_size].
  match goal with
  | |- exists p, (if ?a then _ else _) = _ /\ _ =>
    assert (F1 : a = false) by (to_bool; rsweep1 1024%nat seq Hs)
  end.
  rewrite F1. eexists. split; [reflexivity|].
  unfold ChunkHeaderVitalPacked6_unpack_warn, chvp6_bytes_ok, chv6_canonical.
  cbn [chvp6_flags_size chvp6_sequence_size chvp6_sequence].
  match goal with
  | |- context [ChunkHeaderPacked6_unpack_warn {| chp6_flags_size := c0; chp6_padding_size := ?e |}] =>
    assert (F2 : e = c) by (to_bool; rsweep2 16%nat 1024%nat c seq Hc Hs)
  end.
  rewrite F2, Uq.
  match goal with
  | |- ({| chv6_h := hh; chv6_sequence := ?s |}, ?w ++ []) = _ /\ _ =>
    assert (F3 : s = seq) by (to_bool; rsweep2 16%nat 1024%nat c seq Hc Hs);
    assert (F4 : w = []) by (to_bool; rsweep2 16%nat 1024%nat c seq Hc Hs)
  end.
  rewrite F3, F4. split; [reflexivity|]. rewrite B0. cbn [andb]. split.
  - unfold byteb. rsweep2 16%nat 1024%nat c seq Hc Hs.
  - rsweep2 16%nat 1024%nat c seq Hc Hs.
Qed.

(* The retry loop of the teehistorian Buffer does not see how the stream is cut:
   for prefix-stable parsers, everything a client of the buffer computes is a
   function of the logical stream (pending bytes ++ what the callback still delivers). *)
From LibTw2 Require Import Base.Res Model.Teehistorian.
From Coq Require Import List Lia Arith.
Import ListNotations.

Definition buf_ok (b : buffer) : Prop := (b_off b <= length (b_data b))%nat.

(* the bytes the reader has not consumed yet, in stream order *)
Definition frags (s : sched) : bytes := concat (map snd s).
Definition logical (b : buffer) (s : sched) : bytes := pending b ++ frags s.

Lemma buf_ok_empty : buf_ok empty_buffer.
Proof. unfold buf_ok; cbn; lia. Qed.

Lemma pending_compact b : pending (compact b) = pending b.
Proof. reflexivity. Qed.

Lemma skipn_app_le {A} n (l1 l2 : list A) : (n <= length l1)%nat -> skipn n (l1 ++ l2) = skipn n l1 ++ l2.
Proof.
  intros H. rewrite skipn_app. replace (n - length l1)%nat with 0%nat by lia. reflexivity.
Qed.

Lemma pending_read_more b c f : buf_ok b -> pending (read_more b c f) = pending b ++ f.
Proof.
  intros Hok. unfold read_more, pending. destruct c; cbn [compact b_off b_data pending].
  - reflexivity.
  - apply skipn_app_le. exact Hok.
Qed.

Lemma buf_ok_read_more b c f : buf_ok b -> buf_ok (read_more b c f).
Proof.
  unfold buf_ok, read_more. intros H. destruct c; cbn [compact b_off b_data]; rewrite app_length; lia.
Qed.

Lemma logical_read_more b c f s : buf_ok b -> logical (read_more b c f) s = logical b ((c, f) :: s).
Proof.
  intros H. unfold logical, frags. rewrite pending_read_more by exact H.
  cbn [map snd concat]. rewrite app_assoc. reflexivity.
Qed.

Lemma skipn_add {A} n m (l : list A) : skipn (m + n) l = skipn n (skipn m l).
Proof.
  revert l. induction m as [|m IH]; intros l; [reflexivity|].
  destruct l; cbn [Nat.add skipn]; [destruct n; reflexivity|apply IH].
Qed.

Lemma pending_advance b n : pending {| b_off := b_off b + n; b_data := b_data b |} = skipn n (pending b).
Proof. unfold pending. cbn [b_off b_data]. apply skipn_add. Qed.

Lemma pending_length b : buf_ok b -> length (pending b) = (length (b_data b) - b_off b)%nat.
Proof. intros _. unfold pending. apply skipn_length. Qed.

Section Generic.
  Variables (E : Type) (eof : E).
  Variables (P : Type) (X : P -> Type).
  Variable parse : forall p : P, bytes -> outcome (X p) E.

  (* an Ok answer is not changed by more input and does not claim more than it was given *)
  Hypothesis ok_stable : forall p bs a n q,
    parse p bs = POk a n -> (n <= length bs)%nat /\ parse p (bs ++ q) = POk a n.
  (* neither is a definite failure *)
  Hypothesis fail_stable : forall p bs e q,
    parse p bs = PFail e -> parse p (bs ++ q) = PFail e.

  (* the retry loop gives the answer of one attempt over the whole logical stream;
     "need more" on the whole stream is EOF *)
  Lemma retry_whole p : forall s b, buf_ok b ->
    match parse p (logical b s) with
    | POk a n => exists b' s', retry E eof (parse p) b s = (Ok a, b', s')
                   /\ buf_ok b' /\ logical b' s' = skipn n (logical b s)
    | PFail e => exists b' s', retry E eof (parse p) b s = (Err e, b', s')
    | PNeedMore => exists b' s', retry E eof (parse p) b s = (Err eof, b', s')
    end.
  Proof.
    induction s as [|[c f] s IH]; intros b Hok.
    - unfold logical, frags. cbn [map concat]. rewrite app_nil_r.
      cbn [retry]. replace (length (b_data b) <? b_off b)%nat with false
        by (symmetry; apply Nat.ltb_ge; exact Hok).
      destruct (parse p (pending b)) as [a n| |e] eqn:Ep.
      + destruct (ok_stable _ _ _ _ [] Ep) as [Hn _].
        eexists _, _. split; [reflexivity|]. split.
        * unfold buf_ok. cbn [b_off b_data]. rewrite pending_length in Hn by exact Hok. unfold buf_ok in Hok. lia.
        * unfold logical, frags. cbn [map concat]. rewrite !app_nil_r. apply pending_advance.
      + eexists _, _. reflexivity.
      + eexists _, _. reflexivity.
    - cbn [retry]. replace (length (b_data b) <? b_off b)%nat with false
        by (symmetry; apply Nat.ltb_ge; exact Hok).
      destruct (parse p (pending b)) as [a n| |e] eqn:Ep.
      + destruct (ok_stable _ _ _ _ (frags ((c, f) :: s)) Ep) as [Hn Hq].
        unfold logical at 1. rewrite Hq.
        eexists _, _. split; [reflexivity|]. split.
        * unfold buf_ok. cbn [b_off b_data]. rewrite pending_length in Hn by exact Hok. unfold buf_ok in Hok. lia.
        * unfold logical. rewrite pending_advance. symmetry. apply skipn_app_le. exact Hn.
      + rewrite <- logical_read_more by exact Hok.
        apply IH. apply buf_ok_read_more. exact Hok.
      + unfold logical at 1. rewrite (fail_stable _ _ _ (frags ((c, f) :: s)) Ep).
        eexists _, _. reflexivity.
  Qed.

  Lemma retry_ok_inv p b s a b' s' : buf_ok b -> retry E eof (parse p) b s = (Ok a, b', s') ->
    exists n, parse p (logical b s) = POk a n /\ buf_ok b' /\ logical b' s' = skipn n (logical b s).
  Proof.
    intros H Hr. pose proof (retry_whole p s b H) as Hw.
    destruct (parse p (logical b s)) as [a0 n| |e].
    - destruct Hw as [b1 [s1 [Hw [O L]]]]. rewrite Hw in Hr. injection Hr as <- <- <-.
      exists n. auto.
    - destruct Hw as [b1 [s1 Hw]]. rewrite Hw in Hr. discriminate.
    - destruct Hw as [b1 [s1 Hw]]. rewrite Hw in Hr. discriminate.
  Qed.

  (* two buffer/schedule states with the same logical stream are indistinguishable *)
  Definition same_io {R} (x y : res E R * buffer * sched) : Prop :=
    fst (fst x) = fst (fst y)
    /\ (is_ok (fst (fst x)) = true ->
        buf_ok (snd (fst x)) /\ buf_ok (snd (fst y))
        /\ logical (snd (fst x)) (snd x) = logical (snd (fst y)) (snd y)).

  Lemma retry_same p b1 s1 b2 s2 : buf_ok b1 -> buf_ok b2 -> logical b1 s1 = logical b2 s2 ->
    same_io (retry E eof (parse p) b1 s1) (retry E eof (parse p) b2 s2).
  Proof.
    intros H1 H2 HL. pose proof (retry_whole p s1 b1 H1) as R1. pose proof (retry_whole p s2 b2 H2) as R2.
    rewrite HL in R1. destruct (parse p (logical b2 s2)) as [a n| |e].
    - destruct R1 as [b1' [s1' [E1 [O1 L1]]]]. destruct R2 as [b2' [s2' [E2 [O2 L2]]]].
      rewrite E1, E2. split; [reflexivity|]. intros _. cbn [fst snd]. repeat split; try assumption. congruence.
    - destruct R1 as [b1' [s1' E1]]. destruct R2 as [b2' [s2' E2]]. rewrite E1, E2.
      split; [reflexivity|]. cbn. discriminate.
    - destruct R1 as [b1' [s1' E1]]. destruct R2 as [b2' [s2' E2]]. rewrite E1, E2.
      split; [reflexivity|]. cbn. discriminate.
  Qed.

  (* the retry loop never indexes out of bounds and always returns *)
  Lemma retry_no_panic p b s : buf_ok b ->
    match fst (fst (retry E eof (parse p) b s)) with Ok _ | Err _ => True | _ => False end.
  Proof.
    intros H. pose proof (retry_whole p s b H) as R.
    destruct (parse p (logical b s)).
    - destruct R as [b' [s' [R _]]]. rewrite R. exact I.
    - destruct R as [b' [s' R]]. rewrite R. exact I.
    - destruct R as [b' [s' R]]. rewrite R. exact I.
  Qed.

  Lemma run_same {R} (m : prog E P X R) : forall b1 s1 b2 s2,
    buf_ok b1 -> buf_ok b2 -> logical b1 s1 = logical b2 s2 ->
    same_io (run E eof P X parse m b1 s1) (run E eof P X parse m b2 s2).
  Proof.
    induction m as [r|e|p k IH]; intros b1 s1 b2 s2 H1 H2 HL.
    - cbn [run]. split; [reflexivity|]. intros _. cbn [fst snd]. auto.
    - cbn [run]. split; [reflexivity|]. cbn. discriminate.
    - cbn [run]. destruct (retry_same p b1 s1 b2 s2 H1 H2 HL) as [Hr Hio].
      destruct (retry E eof (parse p) b1 s1) as [[r1 b1'] s1'].
      destruct (retry E eof (parse p) b2 s2) as [[r2 b2'] s2'].
      cbn [fst snd] in Hr, Hio. subst r2.
      destruct r1 as [x|e|z|].
      + destruct (Hio eq_refl) as [O1 [O2 L]]. apply IH; assumption.
      + split; [reflexivity|]. cbn. discriminate.
      + split; [reflexivity|]. cbn. discriminate.
      + split; [reflexivity|]. cbn. discriminate.
  Qed.

  Lemma run_no_panic {R} (m : prog E P X R) : forall b s, buf_ok b ->
    match fst (fst (run E eof P X parse m b s)) with Ok _ | Err _ => True | _ => False end.
  Proof.
    induction m as [r|e|p k IH]; intros b s H; cbn [run fst]; try exact I.
    pose proof (retry_whole p s b H) as Hw.
    destruct (parse p (logical b s)).
    - destruct Hw as [b' [s' [Hw [O _]]]]. rewrite Hw. apply IH. exact O.
    - destruct Hw as [b' [s' Hw]]. rewrite Hw. exact I.
    - destruct Hw as [b' [s' Hw]]. rewrite Hw. exact I.
  Qed.

  Lemma run_ok_buf {R} (m : prog E P X R) : forall b s r b' s', buf_ok b ->
    run E eof P X parse m b s = (Ok r, b', s') -> buf_ok b'.
  Proof.
    induction m as [r0|e|p k IH]; intros b s r b' s' H Hr; cbn [run] in Hr.
    - injection Hr as _ <- _. exact H.
    - discriminate.
    - pose proof (retry_whole p s b H) as Hw.
      destruct (parse p (logical b s)).
      + destruct Hw as [b1 [s1 [Hw [O _]]]]. rewrite Hw in Hr. eapply IH; eassumption.
      + destruct Hw as [b1 [s1 Hw]]. rewrite Hw in Hr. discriminate.
      + destruct Hw as [b1 [s1 Hw]]. rewrite Hw in Hr. discriminate.
  Qed.

  Variables (St Item : Type).
  Variable body : St -> prog E P X (option Item * St).

  Notation loop' := (loop E eof P X parse St Item body).

  (* THE GENERIC THEOREM: the items (and the final outcome) of the caller's loop are
     the same for every two ways of delivering the same logical stream *)
  Theorem frag_independent_io : forall fuel st b1 s1 b2 s2,
    buf_ok b1 -> buf_ok b2 -> logical b1 s1 = logical b2 s2 ->
    loop' fuel st b1 s1 = loop' fuel st b2 s2.
  Proof.
    induction fuel as [|fuel IH]; intros st b1 s1 b2 s2 H1 H2 HL; [reflexivity|].
    cbn [loop]. destruct (run_same (body st) b1 s1 b2 s2 H1 H2 HL) as [Hr Hio].
    destruct (run E eof P X parse (body st) b1 s1) as [[r1 b1'] s1'].
    destruct (run E eof P X parse (body st) b2 s2) as [[r2 b2'] s2'].
    cbn [fst snd] in Hr, Hio. subst r2.
    destruct r1 as [[[it|] st']|e|z|]; try reflexivity.
    destruct (Hio eq_refl) as [O1 [O2 L]]. rewrite (IH st' b1' s1' b2' s2' O1 O2 L). reflexivity.
  Qed.

  Theorem frag_independent : forall fuel st (stream : bytes) (f1 f2 : sched),
    frags f1 = stream -> frags f2 = stream ->
    loop' fuel st empty_buffer f1 = loop' fuel st empty_buffer f2.
  Proof.
    intros fuel st stream f1 f2 E1 E2. apply frag_independent_io; try apply buf_ok_empty.
    unfold logical. cbn [pending empty_buffer b_off b_data skipn app]. congruence.
  Qed.

  (* the loop never panics; it can only stop for lack of fuel *)
  Lemma loop_no_panic : forall fuel st b s, buf_ok b ->
    match snd (loop' fuel st b s) with Panic _ => False | _ => True end.
  Proof.
    induction fuel as [|fuel IH]; intros st b s H; [exact I|].
    cbn [loop]. pose proof (run_no_panic (body st) b s H) as NP.
    destruct (run E eof P X parse (body st) b s) as [[r b'] s'] eqn:Er. cbn [fst] in NP.
    destruct r as [[[it|] st']|e|z|]; try exact I; try contradiction.
    pose proof (run_ok_buf _ _ _ _ _ _ H Er) as O.
    specialize (IH st' b' s' O). destruct (loop' fuel st' b' s') as [its fin]. exact IH.
  Qed.
End Generic.

(* where an error value can come from: EOF, a parser's failure, or the client program *)
Section Errors.
  Variables (E : Type) (eof : E).
  Variables (P : Type) (X : P -> Type).
  Variable parse : forall p : P, bytes -> outcome (X p) E.
  Variable good : E -> Prop.
  Hypothesis good_eof : good eof.
  Hypothesis good_parse : forall p bs e, parse p bs = PFail e -> good e.

  Lemma retry_err_good p : forall s b e b' s',
    retry E eof (parse p) b s = (Err e, b', s') -> good e.
  Proof.
    induction s as [|[c f] s IH]; intros b e b' s' H; cbn [retry] in H;
      destruct (length (b_data b) <? b_off b)%nat; try discriminate;
      destruct (parse p (pending b)) eqn:Ep; try discriminate.
    - injection H as <- _ _. exact good_eof.
    - injection H as <- _ _. eapply good_parse. exact Ep.
    - eapply IH. exact H.
    - injection H as <- _ _. eapply good_parse. exact Ep.
  Qed.

  Fixpoint prog_good {R} (m : prog E P X R) : Prop :=
    match m with
    | Ret _ => True
    | Bad e => good e
    | Read p k => forall x, prog_good (k x)
    end.

  Lemma run_err_good {R} (m : prog E P X R) : prog_good m -> forall b s e b' s',
    run E eof P X parse m b s = (Err e, b', s') -> good e.
  Proof.
    induction m as [r|e0|p k IH]; intros Hg b s e b' s' H; cbn [run] in H.
    - discriminate.
    - injection H as <- _ _. exact Hg.
    - destruct (retry E eof (parse p) b s) as [[r b1] s1] eqn:Er. destruct r as [x|e1|z|]; try discriminate.
      + eapply IH; [apply Hg|exact H].
      + injection H as <- _ _. eapply retry_err_good. exact Er.
  Qed.

  Variables (St Item : Type).
  Variable body : St -> prog E P X (option Item * St).
  Hypothesis body_good : forall st, prog_good (body st).

  Lemma loop_err_good : forall fuel st b s e,
    snd (loop E eof P X parse St Item body fuel st b s) = Err e -> good e.
  Proof.
    induction fuel as [|fuel IH]; intros st b s e H; cbn [loop] in H; [discriminate|].
    destruct (run E eof P X parse (body st) b s) as [[r b'] s'] eqn:Er.
    destruct r as [[[it|] st']|e1|z|]; cbn [snd] in H; try discriminate.
    - destruct (loop E eof P X parse St Item body fuel st' b' s') as [its fin] eqn:El.
      cbn [snd] in H. eapply IH. rewrite El. exact H.
    - injection H as <-. eapply run_err_good; [apply body_good|exact Er].
  Qed.
End Errors.

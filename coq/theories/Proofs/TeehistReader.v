(* The concrete reader: fragmentation independence (instance of the generic theorem),
   no panics, and the caller's loop terminates within fuel_for. *)
From LibTw2 Require Import Base.Res Model.Varint Model.Packer Model.Teehistorian
  Proofs.TeehistFrag Proofs.TeehistParsers.
From Coq Require Import List Lia Arith ZArith Bool.
Import ListNotations.
Open Scope Z_scope.

Notation eofT := (FErr EUnexpectedEnd).

Section WithHeader.
  Variable hdr : bytes -> hverdict.

  Notation parseT := (parse_at hdr).

  (* ---------------- fragmentation ---------------- *)

  Theorem loop_t_frag fuel r b1 s1 b2 s2 :
    buf_ok b1 -> buf_ok b2 -> logical b1 s1 = logical b2 s2 ->
    loop_t hdr fuel r b1 s1 = loop_t hdr fuel r b2 s2.
  Proof.
    apply (frag_independent_io pfailure eofT pidx pty parseT
             (parsers_ok_stable hdr) (parsers_fail_stable hdr) reader item reader_read).
  Qed.

  Theorem read_all_frag fuel (stream : bytes) (f1 f2 : sched) :
    frags f1 = stream -> frags f2 = stream -> read_all hdr fuel f1 = read_all hdr fuel f2.
  Proof.
    intros E1 E2. unfold read_all, run_t.
    assert (HL : logical empty_buffer f1 = logical empty_buffer f2).
    { unfold logical. cbn [pending empty_buffer b_off b_data skipn app]. congruence. }
    destruct (run_same pfailure eofT pidx pty parseT (parsers_ok_stable hdr) (parsers_fail_stable hdr)
                reader_new empty_buffer f1 empty_buffer f2 buf_ok_empty buf_ok_empty HL) as [Hr Hio].
    destruct (run pfailure (FErr EUnexpectedEnd) pidx pty parseT reader_new empty_buffer f1) as [[r1 b1] s1].
    destruct (run pfailure (FErr EUnexpectedEnd) pidx pty parseT reader_new empty_buffer f2) as [[r2 b2] s2].
    cbn [fst snd] in Hr, Hio. subst r2. destruct r1 as [r|e|z|]; try reflexivity.
    destruct (Hio eq_refl) as [O1 [O2 L]]. apply loop_t_frag; assumption.
  Qed.

  Lemma fuel_for_frags f1 f2 : frags f1 = frags f2 -> fuel_for f1 = fuel_for f2.
  Proof. unfold fuel_for, frags. intros ->. reflexivity. Qed.

  (* ---------------- no panic ---------------- *)

  Definition goodE (e : pfailure) : Prop := match e with FErr _ => True | FPanic _ => False end.

  Lemma good_parse p bs e : parseT p bs = PFail e -> goodE e.
  Proof.
    intros H. destruct e as [e|s]; [exact I|]. exfalso. exact (parsers_no_panic hdr _ _ _ H).
  Qed.

  Lemma after_item_res r f : match after_item r f with Ok _ | Err _ => True | _ => False end.
  Proof.
    unfold after_item. destruct f; cbn; try exact I.
    - match goal with |- context [aget ?c ?m] => destruct (aget c m) as [[x y]|] end;
        destruct (cid <? 0); exact I.
    - destruct (i32_max <? dt); [exact I|].
      destruct (checked_add _ 1); [|exact I]. destruct (checked_add _ dt); [|exact I].
      match goal with |- context [if ?c then _ else _] => destruct c end; exact I.
    - match goal with |- context [aget ?c ?m] => destruct (aget c m) end; destruct (cid <? 0); exact I.
    - match goal with |- context [aget ?c ?m] => destruct (aget c m) as [[x0 y0]|] end; destruct (cid <? 0); exact I.
    - match goal with |- context [aget ?c ?m] => destruct (aget c m) end; destruct (cid <? 0); exact I.
    - destruct (cid <? 0); exact I.
  Qed.

  Lemma reader_read_good r : prog_good pfailure pidx pty goodE (reader_read r).
  Proof.
    assert (Hgo : forall k, prog_good pfailure pidx pty goodE
      (match before_item (set_next None r) k with
       | PreEmit it r' => Ret (Some it, r')
       | PreErr e => Bad (FErr e)
       | PreRead r' =>
         Read (PItem k) (fun f =>
           match after_item r' f with
           | Ok x => Ret x
           | Err e => Bad (FErr e)
           | Panic s => Bad (FPanic s)
           | OutOfFuel => Bad (FPanic site_oof)
           end)
       end)).
    { intros k. destruct (before_item (set_next None r) k) as [it r'|e|r']; cbn; try exact I.
      intros f. pose proof (after_item_res r' f) as Ha. destruct (after_item r' f); cbn; try exact I; contradiction. }
    unfold reader_read. destruct (r_next r) as [k|]; [apply Hgo|].
    cbn [prog_good]. intros k. apply Hgo.
  Qed.

  Lemma reader_new_good : prog_good pfailure pidx pty goodE reader_new.
  Proof.
    unfold reader_new. cbn [prog_good]. intros v. destruct (v =? 1); [exact I|].
    destruct (v =? 2); exact I.
  Qed.

  Theorem read_all_no_panic fuel s :
    match snd (read_all hdr fuel s) with
    | Panic _ => False
    | Err (FPanic _) => False
    | _ => True
    end.
  Proof.
    unfold read_all, run_t.
    pose proof (run_no_panic pfailure eofT pidx pty parseT (parsers_ok_stable hdr) (parsers_fail_stable hdr)
                  reader_new empty_buffer s buf_ok_empty) as NP.
    destruct (run pfailure (FErr EUnexpectedEnd) pidx pty parseT reader_new empty_buffer s) as [[r b] s'] eqn:Er.
    cbn [fst] in NP. destruct r as [r|e|z|]; try contradiction.
    - pose proof (run_ok_buf pfailure eofT pidx pty parseT (parsers_ok_stable hdr) (parsers_fail_stable hdr)
                    _ _ _ _ _ _ buf_ok_empty Er) as O.
      pose proof (loop_no_panic pfailure eofT pidx pty parseT (parsers_ok_stable hdr) (parsers_fail_stable hdr)
                    reader item reader_read fuel r b s' O) as LP.
      unfold loop_t. 
      destruct (snd (loop pfailure eofT pidx pty parseT reader item reader_read fuel r b s')) as [x|e|z|] eqn:El;
        try exact I; try contradiction.
      pose proof (loop_err_good pfailure eofT pidx pty parseT goodE I good_parse reader item reader_read
                    reader_read_good fuel r b s' e El) as G.
      destruct e; [exact I|contradiction].
    - cbn [snd].
      pose proof (run_err_good pfailure eofT pidx pty parseT goodE I good_parse reader_new reader_new_good
                    _ _ _ _ _ Er) as G.
      destruct e; [exact I|contradiction].
  Qed.

  (* ---------------- termination: fuel_for is enough ---------------- *)

  Definition prevcond (r : reader) (k : ikind) : bool :=
    match player_cid k, r_prev r with
    | Some c, Some p => c <=? p
    | _, _ => false
    end.

  (* calls of Reader::read still needed for the item whose kind is known *)
  Definition ph_of (r : reader) (k : ikind) : nat :=
    if negb (is_tick_skip k) && negb (is_finish k) && negb (r_in_tick r)
    then (if prevcond r k then 4 else 2)
    else if prevcond r k then 3
    else if is_finish k && r_in_tick r then 2 else 1.

  Definition ph (r : reader) : nat :=
    match r_next r with None => 0 | Some k => ph_of (set_next None r) k end.

  Lemma before_item_emit r k it r' : before_item r k = PreEmit it r' ->
    r_next r' = Some k /\ (ph_of (set_next None r') k < ph_of r k)%nat.
  Proof.
    unfold before_item, ph_of, prevcond.
    destruct k; cbn [is_tick_skip is_finish player_cid negb andb];
      destruct (r_in_tick r) eqn:Eit; cbn [negb andb];
      try (destruct (r_prev r) as [p|] eqn:Ep; [destruct (cid <=? p) eqn:Ec|]);
      try (destruct (checked_add (r_tick r) 1));
      cbn beta iota; intros H; try discriminate.
    all: try (injection H as <- <-).
    all: cbn [set_next set_in_tick set_prev set_tick r_next r_in_tick r_prev negb andb].
    all: rewrite ?Ep, ?Ec; cbn beta iota; split; try reflexivity; try lia.
  Qed.

  Lemma before_item_read r k r' : before_item r k = PreRead r' -> r' = r.
  Proof.
    unfold before_item.
    destruct (negb (is_tick_skip k) && negb (is_finish k) && negb (r_in_tick r)); [discriminate|].
    destruct (player_cid k).
    - destruct (match r_prev r with Some p => z <=? p | None => false end).
      + destruct (checked_add (r_tick r) 1); discriminate.
      + intros H. injection H as <-. reflexivity.
    - destruct (is_finish k && r_in_tick r); [discriminate|]. intros H. injection H as <-. reflexivity.
  Qed.

  Lemma ph_of_pos r k : (1 <= ph_of r k <= 4)%nat.
  Proof.
    unfold ph_of. destruct (negb (is_tick_skip k) && negb (is_finish k) && negb (r_in_tick r));
      destruct (prevcond r k); try destruct (is_finish k && r_in_tick r); lia.
  Qed.

  Lemma after_item_next r f x r' : after_item r f = Ok (x, r') -> r_next r' = r_next r.
  Proof.
    unfold after_item.
    assert (Hm : r_next (match fitem_cid f with
                         | Some c => set_max_cid (Z.max (r_max_cid r) c) r
                         | None => r
                         end) = r_next r) by (destruct (fitem_cid f); reflexivity).
    revert Hm.
    generalize (match fitem_cid f with
                | Some c => set_max_cid (Z.max (r_max_cid r) c) r
                | None => r
                end) as r1.
    intros r1 Hm. destruct f; cbn beta iota zeta.
    all: repeat match goal with
         | |- context [aget ?c ?m] => destruct (aget c m) as [?|]
         | |- context [let (_, _) := ?p in _] => destruct p
         | |- context [if ?c then _ else _] => destruct c
         | |- context [match checked_add ?a ?b with _ => _ end] => destruct (checked_add a b)
         end; intros H; try discriminate; injection H as _ <-;
      cbn [set_tick set_players set_inputs set_max_cid set_prev set_next set_in_tick r_next]; exact Hm.
  Qed.

  (* an unpacked int takes at least one byte; kinds start with an int *)
  Lemma p_int_consumes bs v r : p_int bs = ROk v r -> (length r < length bs)%nat.
  Proof.
    unfold p_int, pbind, p_step. cbn [unpack_step].
    destruct (read_int bs) as [[[v' ws] r']| | |] eqn:Ei; try discriminate.
    unfold pret. intros H. injection H as _ <-.
    destruct (read_int_app _ _ _ _ Ei) as [[c [Hc Hl]] _]. subst bs. rewrite app_length. lia.
  Qed.

  Lemma pstable_suffix {A} (p : parser A) bs a r : pstable p -> p bs = ROk a r -> (length r <= length bs)%nat.
  Proof.
    intros Hp H. specialize (Hp bs). rewrite H in Hp. destruct Hp as [[c Hc] _]. subst bs.
    rewrite app_length. lia.
  Qed.

  Lemma decode_kind_consumes v bs k r : decode_kind v bs = ROk k r -> (length r < length bs)%nat.
  Proof.
    unfold decode_kind. unfold pbind at 1. destruct (p_int bs) as [i r1| | |] eqn:Ei; try discriminate.
    apply p_int_consumes in Ei. intros H.
    match type of H with ?g r1 = _ => assert (Hs : pstable g) by stab end.
    pose proof (pstable_suffix _ _ _ _ Hs H). lia.
  Qed.

  Definition measure (r : reader) (b : buffer) (s : sched) : nat := 5 * length (logical b s) + ph r.

  Notation runT := (run pfailure eofT pidx pty parseT).
  Notation retryT := (retry pfailure eofT).

  Lemma retry_inv p b s a b' s' : buf_ok b -> retryT (parseT p) b s = (Ok a, b', s') ->
    exists n, parseT p (logical b s) = POk a n /\ buf_ok b' /\ logical b' s' = skipn n (logical b s).
  Proof.
    apply (retry_ok_inv pfailure eofT pidx pty parseT (parsers_ok_stable hdr) (parsers_fail_stable hdr)).
  Qed.

  Lemma skipn_length_le {A} n (l : list A) : (length (skipn n l) <= length l)%nat.
  Proof. rewrite skipn_length. lia. Qed.

  (* the part of Reader::read after the kind is known *)
  Definition go (r : reader) (k : ikind) : tprog (option item * reader) :=
    match before_item (set_next None r) k with
    | PreEmit it r' => Ret (Some it, r')
    | PreErr e => Bad (FErr e)
    | PreRead r' =>
      Read (PItem k) (fun f =>
        match after_item r' f with
        | Ok x => Ret x
        | Err e => Bad (FErr e)
        | Panic s => Bad (FPanic s)
        | OutOfFuel => Bad (FPanic site_oof)
        end)
    end.

  Lemma reader_read_go r : reader_read r =
    match r_next r with Some k => go r k | None => Read (PKind (r_version r)) (go r) end.
  Proof. reflexivity. Qed.

  Lemma go_step r k b s it r' b' s' : buf_ok b ->
    runT (go r k) b s = (Ok (Some it, r'), b', s') ->
    buf_ok b' /\ (5 * length (logical b' s') + ph r' < 5 * length (logical b s) + ph_of (set_next None r) k)%nat.
  Proof.
    intros Hok H. unfold go in H.
    destruct (before_item (set_next None r) k) as [it0 r0|e|r0] eqn:Eb; cbn [run] in H.
    - injection H as <- <- <- <-. split; [exact Hok|].
      destruct (before_item_emit _ _ _ _ Eb) as [Hn Hlt]. unfold ph. rewrite Hn. lia.
    - discriminate.
    - apply before_item_read in Eb. subst r0.
      destruct (retryT (parseT (PItem k)) b s) as [[x b1] s1] eqn:Er.
      destruct x as [f|e|z|]; try discriminate.
      destruct (retry_inv _ _ _ _ _ _ Hok Er) as [n [_ [O L]]].
      destruct (after_item (set_next None r) f) as [[x r1]|e|z|] eqn:Ea; cbn [run] in H; try discriminate.
      injection H as -> <- <- <-. split; [exact O|].
      apply after_item_next in Ea. cbn [set_next r_next] in Ea. unfold ph. rewrite Ea.
      rewrite L. pose proof (skipn_length_le n (logical b s)). pose proof (ph_of_pos (set_next None r) k). lia.
  Qed.

  Lemma read_step r b s it r' b' s' : buf_ok b ->
    runT (reader_read r) b s = (Ok (Some it, r'), b', s') ->
    buf_ok b' /\ (measure r' b' s' < measure r b s)%nat.
  Proof.
    intros Hok H. rewrite reader_read_go in H. unfold measure.
    destruct (r_next r) as [k|] eqn:En.
    - destruct (go_step _ _ _ _ _ _ _ _ Hok H) as [O Hlt]. split; [exact O|].
      unfold ph at 2. rewrite En. exact Hlt.
    - cbn [run] in H.
      destruct (retryT (parseT (PKind (r_version r))) b s) as [[x b1] s1] eqn:Er.
      destruct x as [k|e|z|]; try discriminate.
      destruct (retry_inv _ _ _ _ _ _ Hok Er) as [n [Hp [O L]]].
      destruct (go_step _ _ _ _ _ _ _ _ O H) as [O' Hlt]. split; [exact O'|].
      cbn [parse_at] in Hp. unfold to_outcome in Hp.
      destruct (decode_kind (r_version r) (logical b s)) as [k' rest| | |] eqn:Ed; try discriminate.
      injection Hp as _ Hn. apply decode_kind_consumes in Ed.
      assert (Hl : (length (logical b1 s1) < length (logical b s))%nat).
      { rewrite L, skipn_length. lia. }
      pose proof (ph_of_pos (set_next None r) k). unfold ph at 2. rewrite En. lia.
  Qed.

  Lemma loop_fuel : forall fuel r b s, buf_ok b -> (measure r b s < fuel)%nat ->
    snd (loop_t hdr fuel r b s) <> OutOfFuel.
  Proof.
    induction fuel as [|fuel IH]; intros r b s Hok Hm; [lia|].
    unfold loop_t. cbn [loop]. 
    pose proof (run_no_panic pfailure eofT pidx pty parseT (parsers_ok_stable hdr) (parsers_fail_stable hdr)
                  (reader_read r) b s Hok) as NP.
    destruct (runT (reader_read r) b s) as [[x b'] s'] eqn:Er. cbn [fst] in NP.
    destruct x as [[[it|] r']|e|z|]; cbn [snd]; try discriminate; try contradiction.
    destruct (read_step _ _ _ _ _ _ _ Hok Er) as [O Hlt].
    specialize (IH r' b' s' O ltac:(lia)). unfold loop_t in IH. 
    destruct (loop pfailure eofT pidx pty parseT reader item reader_read fuel r' b' s') as [its fin].
    exact IH.
  Qed.

  Theorem read_all_terminates s : snd (read_all hdr (fuel_for s) s) <> OutOfFuel.
  Proof.
    unfold read_all, run_t. 
    pose proof (run_no_panic pfailure eofT pidx pty parseT (parsers_ok_stable hdr) (parsers_fail_stable hdr)
                  reader_new empty_buffer s buf_ok_empty) as NP.
    destruct (runT reader_new empty_buffer s) as [[x b] s'] eqn:Er. cbn [fst] in NP.
    destruct x as [r|e|z|]; cbn [snd]; try discriminate; try contradiction.
    unfold reader_new in Er. cbn [run] in Er.
    destruct (retryT (parseT PHeader) empty_buffer s) as [[x b1] s1] eqn:Ey.
    destruct x as [v|e|z|]; try discriminate.
    destruct (retry_inv _ _ _ _ _ _ buf_ok_empty Ey) as [n [_ [O L]]].
    assert (Hr : b = b1 /\ s' = s1 /\ ph r = 0%nat).
    { destruct (v =? 1); [cbn [run] in Er; injection Er as <- <- <-; auto|].
      destruct (v =? 2); [cbn [run] in Er; injection Er as <- <- <-; auto|]. discriminate. }
    destruct Hr as [-> [-> Hph]].
    apply loop_fuel; [exact O|]. unfold measure, fuel_for. rewrite Hph, L.
    pose proof (skipn_length_le n (logical empty_buffer s)).
    unfold logical in H at 2. cbn [pending empty_buffer b_off b_data skipn app] in H. unfold frags in H. lia.
  Qed.
End WithHeader.

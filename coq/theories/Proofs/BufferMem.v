(* Memory lemmas for Model/Buffer.v: set_nth / store_bytes / slice, stated
   pointwise (nth_error) so that framing conditions compose by arithmetic. *)
From LibTw2 Require Import Base.Res Model.Buffer.
From Coq Require Import List Arith Lia Bool ZArith.
Import ListNotations.
Open Scope nat_scope.

Lemma list_ext_nth_error {A} (l1 l2 : list A) :
  length l1 = length l2 ->
  (forall i, i < length l1 -> nth_error l1 i = nth_error l2 i) -> l1 = l2.
Proof.
  revert l2. induction l1 as [|a l1 IH]; intros [|b l2] Hl H; try discriminate; [reflexivity|].
  cbn [length] in Hl. f_equal.
  - specialize (H 0). cbn in H. assert (Some a = Some b) as E by (apply H; lia). congruence.
  - apply IH; [lia|]. intros i Hi. apply (H (S i)). cbn [length]. lia.
Qed.

Lemma set_nth_length b : forall m i m', set_nth i b m = Some m' -> length m' = length m.
Proof.
  induction m as [|h t IH]; intros i m' H; [destruct i; discriminate H|].
  destruct i as [|i]; cbn [set_nth] in H.
  - injection H as <-. reflexivity.
  - destruct (set_nth i b t) as [t'|] eqn:E; [|discriminate]. injection H as <-.
    cbn [length]. f_equal. apply (IH _ _ E).
Qed.

Lemma set_nth_some b : forall m i, i < length m -> exists m', set_nth i b m = Some m'.
Proof.
  induction m as [|h t IH]; intros i Hi; cbn [length] in Hi; [lia|].
  destruct i as [|i]; cbn [set_nth]; [eauto|].
  destruct (IH i) as [t' E]; [lia|]. rewrite E. eauto.
Qed.

Lemma set_nth_nth b : forall m i m' j, set_nth i b m = Some m' ->
  nth_error m' j = if j =? i then Some b else nth_error m j.
Proof.
  induction m as [|h t IH]; intros i m' j H; [destruct i; discriminate H|].
  destruct i as [|i]; cbn [set_nth] in H.
  - injection H as <-. destruct j; reflexivity.
  - destruct (set_nth i b t) as [t'|] eqn:E; [|discriminate]. injection H as <-.
    destruct j as [|j]; [reflexivity|]. cbn [nth_error]. rewrite (IH _ _ j E). reflexivity.
Qed.

(* store_bytes inside the memory succeeds, keeps the length, and changes exactly [at, at+|bs|) *)
Lemma store_bytes_spec : forall bs m at_, at_ + length bs <= length m ->
  exists m', store_bytes m at_ bs = Some m' /\ length m' = length m /\
    forall j, nth_error m' j =
      if (at_ <=? j) && (j <? at_ + length bs) then nth_error bs (j - at_) else nth_error m j.
Proof.
  induction bs as [|b bs IH]; intros m at_ H; cbn [store_bytes length] in *.
  - exists m. split; [reflexivity|]. split; [reflexivity|]. intros j.
    replace ((at_ <=? j) && (j <? at_ + 0)) with false; [reflexivity|].
    symmetry. apply andb_false_iff. destruct (Nat.leb_spec at_ j); [right|left; reflexivity].
    apply Nat.ltb_ge. lia.
  - destruct (set_nth_some b m at_) as [m1 E1]; [lia|]. rewrite E1.
    pose proof (set_nth_length _ _ _ _ E1) as L1.
    destruct (IH m1 (S at_)) as [m' [E' [L' N']]]; [lia|].
    exists m'. split; [exact E'|]. split; [lia|]. intros j. rewrite N'.
    rewrite (set_nth_nth _ _ _ _ j E1).
    destruct (Nat.leb_spec (S at_) j), (Nat.ltb_spec j (S at_ + length bs)),
      (Nat.leb_spec at_ j), (Nat.ltb_spec j (at_ + S (length bs))), (Nat.eqb_spec j at_);
      cbn [andb]; try lia; try reflexivity.
    + replace (j - at_) with (S (j - S at_)) by lia. reflexivity.
    + subst j. rewrite Nat.sub_diag. reflexivity.
Qed.

Lemma nth_error_firstn_lt {A} : forall n (l : list A) i, i < n -> nth_error (firstn n l) i = nth_error l i.
Proof.
  induction n as [|n IH]; intros l i Hi; [lia|].
  destruct l as [|h t]; [reflexivity|]. destruct i as [|i]; [reflexivity|].
  cbn [firstn nth_error]. apply IH. lia.
Qed.

Lemma nth_error_firstn_skipn {A} (m : list A) off n i : i < n ->
  nth_error (firstn n (skipn off m)) i = nth_error m (off + i).
Proof.
  intros Hi. rewrite nth_error_firstn_lt by exact Hi.
  revert m. induction off as [|off IH]; intros m; [reflexivity|].
  destruct m as [|h t]; [destruct i; reflexivity|]. cbn [skipn Nat.add nth_error]. apply IH.
Qed.

Lemma slice_some m off n : off + n <= length m -> slice m off n = Some (firstn n (skipn off m)).
Proof. intros H. unfold slice. apply Nat.leb_le in H. rewrite H. reflexivity. Qed.

Lemma slice_inv m off n l : slice m off n = Some l ->
  off + n <= length m /\ length l = n /\ forall i, i < n -> nth_error l i = nth_error m (off + i).
Proof.
  unfold slice. destruct (Nat.leb_spec (off + n) (length m)); [|discriminate].
  intros E. injection E as <-. split; [assumption|]. split.
  - rewrite firstn_length, skipn_length. lia.
  - intros i Hi. apply nth_error_firstn_skipn, Hi.
Qed.

(* a slice is determined by its pointwise content *)
Lemma slice_eq m off n l : off + n <= length m -> length l = n ->
  (forall i, i < n -> nth_error m (off + i) = nth_error l i) -> slice m off n = Some l.
Proof.
  intros H L N. rewrite slice_some by exact H. f_equal.
  apply list_ext_nth_error.
  - rewrite firstn_length, skipn_length. lia.
  - intros i Hi. rewrite firstn_length, skipn_length in Hi.
    rewrite nth_error_firstn_skipn by lia. apply N. lia.
Qed.

Lemma nth_error_app_l {A} (a b : list A) i : i < length a -> nth_error (a ++ b) i = nth_error a i.
Proof. intros H. apply nth_error_app1, H. Qed.

Lemma nth_error_app_r {A} (a b : list A) i : length a <= i -> nth_error (a ++ b) i = nth_error b (i - length a).
Proof. intros H. apply nth_error_app2, H. Qed.

(* What the readers build is never larger than what they were given (the model-level part of
   C11's allocation clause: every buffer the code grows is one of these, and it only grows). *)
From LibTw2 Require Import Base.Res Model.Varint Model.Packer Model.Snap Proofs.SnapBase Proofs.SnapRep Proofs.SnapDelta
  Proofs.SnapApply Proofs.SnapOk Proofs.SnapTotal Proofs.SnapTotal2.
From Coq Require Import ZArith List Lia Bool Permutation.
Import ListNotations.
Open Scope Z_scope.

(* words held by a snapshot: one map entry per item, plus the data *)
Definition held (S : rawsnap) : Z := Z.of_nat (length (rs_buf S)) + Z.of_nat (length (rs_offs S)).

Lemma rfi_item_held idata il prev off S S' : length idata = Z.to_nat il ->
  rfi_item idata il prev off S = Ok S' ->
  match prev with
  | Some p => 0 <= p -> held S' = held S + (off - p)
  | None => S' = S
  end.
Proof.
  intros Hl. unfold rfi_item. destruct prev as [p|].
  - destruct (Z.leb_spec off p); [discriminate|]. destruct (Z.ltb_spec il off); [discriminate|].
    destruct (nth_error idata (Z.to_nat p)) as [kk|]; [|discriminate].
    rewrite add_item_eq. destruct (aget _ (rs_offs S)) eqn:Hn; [discriminate|].
    destruct (_ <? _); [discriminate|]. destruct (_ <? _); [discriminate|]. cbn [lift_b]. intros [= <-] Hp.
    destruct (pushed_length S (key (key_to_raw_type_id kk) (key_to_id kk))
               (firstn (Z.to_nat (off - p - 1)) (skipn (Z.to_nat (p + 1)) idata)) Hn) as [L1 L2].
    unfold held. rewrite L1, L2, firstn_length, skipn_length. lia.
  - destruct (off =? 0); cbn [negb]; [intros [= <-]; reflexivity|discriminate].
Qed.

Lemma rfi_loop_held idata il : length idata = Z.to_nat il -> 0 <= il ->
  forall offs prev S S', (forall p, prev = Some p -> 0 <= p <= il) ->
  rfi_loop idata il offs prev S = Ok S' ->
  held S' <= held S + il - match prev with Some p => p | None => 0 end.
Proof.
  intros Hl Hil. induction offs as [|o offs IH]; intros prev S S' Hp E; cbn [rfi_loop] in E.
  - pose proof (rfi_item_held idata il prev il S S' Hl E) as Hh. destruct prev as [p|].
    + destruct (Hp p eq_refl). rewrite Hh by lia. lia.
    + subst S'. lia.
  - destruct (Z.ltb_spec o 0); [discriminate|]. destruct (o mod 4 =? 0); cbn [negb] in E; [|discriminate].
    destruct (rfi_item idata il prev (o / 4) S) as [S1| | |] eqn:E1; cbn [bind] in E; try discriminate.
    pose proof (rfi_item_held idata il prev (o / 4) S S1 Hl E1) as Hh.
    assert (Ho : 0 <= o / 4) by (apply Z.div_pos; lia).
    assert (Hoi : o / 4 <= il).
    { unfold rfi_item in E1. destruct prev as [p|].
      - destruct (Z.leb_spec (o / 4) p); [discriminate|]. destruct (Z.ltb_spec il (o / 4)); [discriminate|lia].
      - destruct (Z.eqb_spec (o / 4) 0); cbn [negb] in E1; [lia|discriminate]. }
    specialize (IH (Some (o / 4)) S1 S' (fun p0 Hp0 => ltac:(injection Hp0 as <-; lia)) E).
    destruct prev as [p|].
    + destruct (Hp p eq_refl). rewrite Hh in IH by lia. lia.
    + subst S1. unfold rfi_item in E1. destruct (Z.eqb_spec (o / 4) 0) as [E0|]; cbn [negb] in E1; [|discriminate]. rewrite E0 in IH. lia.
Qed.

Theorem read_from_ints_size ints S ws : raw_read_from_ints ints = (Ok S, ws) ->
  held S <= Z.of_nat (length ints).
Proof.
  unfold raw_read_from_ints. destruct ints as [|ds [|ni rest]]; try discriminate.
  - destruct (ds <? 0); discriminate.
  - destruct (Z.ltb_spec ds 0); [discriminate|]. destruct (Z.ltb_spec ni 0); [discriminate|].
    destruct (Z.ltb_spec (Z.of_nat (length rest)) ni); [discriminate|].
    destruct (ds mod 4 =? 0); cbn [negb]; [|discriminate].
    destruct (Z.ltb_spec (Z.of_nat (length rest)) (ni + ds / 4)); [discriminate|].
    assert (Hd : 0 <= ds / 4) by (apply Z.div_pos; lia).
    intros E.
    assert (E' : exists S0, rfi_loop (firstn (Z.to_nat (ds / 4)) (skipn (Z.to_nat ni) rest)) (ds / 4)
                   (firstn (Z.to_nat ni) rest) None raw_empty = Ok S0 /\ S0 = S).
    { destruct (ni + ds / 4 <? Z.of_nat (length rest)); unfold wbind, wwarn, wret, wlift in E;
        destruct (rfi_loop _ _ _ _ _) as [S0| | |]; try discriminate; injection E as <- _; eauto. }
    destruct E' as (S0 & E0 & <-).
    assert (Hlen : length (firstn (Z.to_nat (ds / 4)) (skipn (Z.to_nat ni) rest)) = Z.to_nat (ds / 4))
      by (rewrite firstn_length, skipn_length; lia).
    assert (Hnone : forall p : Z, @None Z = Some p -> 0 <= p <= ds / 4) by (intros p Hp; discriminate).
    pose proof (rfi_loop_held _ (ds / 4) Hlen Hd _ None raw_empty S0 Hnone E0) as Hh.
    unfold held in *. cbn [raw_empty rs_buf rs_offs length] in Hh. cbn [length]. lia.
Qed.

(* ---------- deltas ---------- *)
Definition dheld (d : delta) : Z :=
  Z.of_nat (length (d_buf d)) + Z.of_nat (length (d_upd d)) + Z.of_nat (length (d_del d)).

Lemma ains_length_le {V} k (v : V) l : (length (ains k v l) <= Datatypes.S (length l))%nat.
Proof.
  induction l as [|[k' v'] l IH]; cbn [ains length]; [lia|].
  destruct (k <? k'); [cbn [length]; lia|]. destruct (k =? k'); cbn [length]; lia.
Qed.
Lemma sins_length_le k l : (length (sins k l) <= Datatypes.S (length l))%nat.
Proof.
  induction l as [|k' l IH]; cbn [sins length]; [lia|].
  destruct (k <? k'); [cbn [length]; lia|]. destruct (k =? k'); cbn [length]; lia.
Qed.

(* a postcondition that only speaks about successful outcomes *)
Definition wsz {A} (P : A -> Prop) (r : wres A) : Prop := match fst r with Ok a => P a | _ => True end.
Lemma wsz_bind {A B} (Q : A -> Prop) (P : B -> Prop) (m : wres A) (f : A -> wres B) :
  wsz Q m -> (forall a, Q a -> wsz P (f a)) -> wsz P (wbind m f).
Proof.
  destruct m as [[a|e|s|] ws]; unfold wsz; cbn [fst wbind]; intros Hm Hf; try exact I.
  specialize (Hf a Hm). destruct (f a) as [r ws']. exact Hf.
Qed.
Lemma wsz_weaken {A} (Q P : A -> Prop) (r : wres A) : (forall a, Q a -> P a) -> wsz Q r -> wsz P r.
Proof. unfold wsz. destruct (fst r); auto. Qed.
Lemma wsz_ret {A} (P : A -> Prop) a : P a -> wsz P (wret a).
Proof. intros H. exact H. Qed.
Lemma wsz_err {A} (P : A -> Prop) e : wsz P (@werr A e).
Proof. exact I. Qed.
Lemma wsz_warn_if (c : bool) w : wsz (fun _ : unit => True) (if c then wwarn w else wret tt).
Proof. destruct c; exact I. Qed.

Section ReaderSize.
  Variable St : Type.
  Variable rd_empty : St -> bool.
  Variable rd_int : St -> res unit (Z * list pwarn * St).
  Variable rd_size : St -> nat.
  Variable okst : St -> Prop.
  (* every successful read uses up at least one unit of the input *)
  Hypothesis R2 : forall p v ws p', okst p -> rd_int p = Ok (v, ws, p') -> (rd_size p' < rd_size p)%nat /\ okst p'.

  Notation rie := (read_int_err St rd_int).

  Lemma rie_size p e : okst p -> wsz (fun vp => (rd_size (snd vp) < rd_size p)%nat /\ okst (snd vp)) (rie p e).
  Proof.
    intros Hp. unfold read_int_err.
    destruct (rd_int p) as [[[v ws] p']| | |] eqn:E; unfold wsz; cbn [fst snd]; try exact I.
    apply (R2 p v ws p' Hp E).
  Qed.

  Lemma read_deleted_size : forall fuel n p del, okst p ->
    wsz (fun pd => (length (snd pd) + rd_size (fst pd) <= length del + rd_size p)%nat /\ okst (fst pd))
          (read_deleted St rd_int fuel n p del).
  Proof.
    induction fuel as [|fuel IH]; intros n p del Hp; cbn [read_deleted].
    - destruct (n <=? 0); [apply wsz_ret; cbn; split; [lia|exact Hp]|exact I].
    - destruct (n <=? 0); [apply wsz_ret; cbn; split; [lia|exact Hp]|].
      eapply wsz_bind; [apply rie_size, Hp|]. intros [v p'] [H1 H1']. cbn [fst snd] in *.
      eapply wsz_weaken; [|apply (IH (n - 1) p' (sins v del) H1')].
      intros [p2 d2] [H2 H2']. cbn [fst snd] in *. pose proof (sins_length_le v del). split; [lia|exact H2'].
  Qed.

  Lemma read_data_size : forall fuel n p acc, okst p ->
    wsz (fun pd => (length (snd pd) + rd_size (fst pd) <= length acc + rd_size p)%nat /\ okst (fst pd))
          (read_data St rd_int fuel n p acc).
  Proof.
    induction fuel as [|fuel IH]; intros n p acc Hp; cbn [read_data].
    - destruct (n <=? 0); [apply wsz_ret; cbn [fst snd]; rewrite rev_length; split; [lia|exact Hp]|exact I].
    - destruct (n <=? 0); [apply wsz_ret; cbn [fst snd]; rewrite rev_length; split; [lia|exact Hp]|].
      eapply wsz_bind; [apply rie_size, Hp|]. intros [v p'] [H1 H1']. cbn [fst snd] in *.
      eapply wsz_weaken; [|apply (IH (n - 1) p' (v :: acc) H1')].
      intros [p2 d2] [H2 H2']. cbn [fst snd length] in *. split; [lia|exact H2'].
  Qed.

  Lemma read_updates_size sz : forall fuel p d num, okst p ->
    wsz (fun dn => dheld (fst dn) <= dheld d + Z.of_nat (rd_size p))
          (read_updates St rd_empty rd_int rd_size fuel sz p d num).
  Proof.
    induction fuel as [|fuel IH]; intros p d num Hp; cbn [read_updates].
    - destruct (rd_empty p); [apply wsz_ret; cbn [fst]; lia|exact I].
    - destruct (rd_empty p); [apply wsz_ret; cbn [fst]; lia|].
      eapply wsz_bind; [apply rie_size, Hp|]. intros [ty p1] [A1 A1']. cbn [fst snd] in *.
      eapply wsz_bind; [apply rie_size, A1'|]. intros [id p2] [B1 B1']. cbn [fst snd] in *.
      destruct (negb (is_u16 ty)); [apply wsz_err|]. destruct (negb (is_u16 id)); [apply wsz_err|].
      eapply (wsz_bind (fun sp => (rd_size (snd sp) <= rd_size p2)%nat /\ okst (snd sp))).
      { destruct (sz ty); [apply wsz_ret; cbn; split; [lia|exact B1']|].
        eapply wsz_bind; [apply rie_size, B1'|]. intros [s p3] [C1 C1']. cbn [fst snd] in *.
        destruct (s <? 0); [apply wsz_err|apply wsz_ret; cbn; split; [lia|exact C1']]. }
      intros [size p3] [D1 D1']. cbn [fst snd] in *.
      destruct (u32_max <? _); [apply wsz_err|]. destruct (u32_max <? _); [apply wsz_err|].
      eapply wsz_bind; [apply (read_data_size (rd_size p3) size p3 [] D1')|].
      intros [p4 data] [E1 E1']. cbn [fst snd length] in *.
      eapply (wsz_bind (fun _ : unit => True)); [destruct (aget (key ty id) (d_upd d)); exact I|]. intros _ _.
      eapply (wsz_bind (fun _ : unit => True)); [apply wsz_warn_if|]. intros _ _.
      destruct (num =? i32_max); [exact I|].
      eapply wsz_weaken; [|apply IH, E1']. intros [d' n'] H. cbn [fst] in *. unfold dheld in *. cbn [d_buf d_upd d_del] in H.
      rewrite app_length in H. match type of H with context [@length ?T (@ains ?V ?a ?b ?c)] => pose proof (@ains_length_le V a b c) end. unfold range in *. lia.
  Qed.

  Theorem read_delta_size sz p : okst p ->
    wsz (fun d => dheld d <= Z.of_nat (rd_size p)) (read_delta St rd_empty rd_int rd_size sz p).
  Proof.
    intros Hp. unfold read_delta, read_delta_header.
    eapply (wsz_bind (fun x => (rd_size (snd x) <= rd_size p)%nat /\ okst (snd x))).
    { eapply wsz_bind; [apply rie_size, Hp|]. intros [nd p1] [A1 A1']. cbn [fst snd] in *.
      destruct (nd <? 0); [apply wsz_err|].
      eapply wsz_bind; [apply rie_size, A1'|]. intros [nu p2] [B1 B1']. cbn [fst snd] in *.
      destruct (nu <? 0); [apply wsz_err|].
      eapply wsz_bind; [apply rie_size, B1'|]. intros [z p3] [C1 C1']. cbn [fst snd] in *.
      eapply (wsz_bind (fun _ : unit => True)); [apply wsz_warn_if|]. intros _ _. apply wsz_ret. cbn [snd]. split; [lia|exact C1']. }
    intros [[nd nu] p1] [A1 A1']. cbn [fst snd] in *.
    eapply wsz_bind; [apply (read_deleted_size (rd_size p1) nd p1 [] A1')|].
    intros [p2 del] [B1 B1']. cbn [fst snd length] in *.
    eapply (wsz_bind (fun _ : unit => True)); [apply wsz_warn_if|]. intros _ _.
    eapply wsz_bind; [apply (read_updates_size sz (rd_size p2) p2 {| d_del := del; d_upd := []; d_buf := [] |} 0 B1')|].
    intros [d num] Hd. cbn [fst] in Hd. unfold dheld in Hd at 2. cbn [d_buf d_upd d_del length] in Hd.
    eapply (wsz_bind (fun _ : unit => True)); [apply wsz_warn_if|]. intros _ _. apply wsz_ret. lia.
  Qed.
End ReaderSize.

Theorem delta_read_from_ints_size sz ints d ws : delta_read_from_ints sz ints = (Ok d, ws) ->
  dheld d <= Z.of_nat (length ints) + 1.
Proof.
  intros E. pose proof (read_delta_size (list Z) int_rd_empty int_rd_int (fun p => Datatypes.S (length p)) (fun _ => True)) as H.
  specialize (H ltac:(intros p v ws0 p' _ Hr; destruct p; [discriminate|injection Hr as _ _ <-; cbn [length]; split; [lia|exact I]]) sz ints I).
  unfold delta_read_from_ints in E. unfold wsz in H. rewrite E in H. cbn [fst] in H. lia.
Qed.

Theorem delta_read_bytes_size sz bs d ws : bytes_ok bs = true -> delta_read_bytes sz bs = (Ok d, ws) ->
  dheld d <= Z.of_nat (length bs) + 1.
Proof.
  intros Hok E.
  pose proof (read_delta_size bytes byte_rd_empty read_int (fun p => Datatypes.S (length p)) (fun p => bytes_ok p = true)) as H.
  specialize (H ltac:(intros p v ws0 p' Hp Hr; destruct (read_int_shrinks _ _ _ _ Hp Hr) as (H1 & _ & H3); split; [lia|exact H3]) sz bs Hok).
  unfold delta_read_bytes in E. unfold wsz in H. rewrite E in H. cbn [fst] in H. lia.
Qed.

(* bytes -> ints never yields more ints than bytes *)
Lemma bytes_to_ints_size : forall fuel bs acc ws ints ws', bytes_ok bs = true ->
  bytes_to_ints fuel bs acc ws = Ok (ints, ws') -> (length ints <= length acc + length bs)%nat.
Proof.
  induction fuel as [|fuel IH]; intros bs acc ws ints ws' Hok E.
  - destruct bs; [|discriminate]. cbn in E. injection E as <- _. rewrite rev_length. lia.
  - destruct bs as [|b bs']; [cbn in E; injection E as <- _; rewrite rev_length; lia|].
    cbn [bytes_to_ints] in E. destruct (read_int (b :: bs')) as [[[v pw] rest]| | |] eqn:Er; try discriminate.
    + destruct (read_int_shrinks _ _ _ _ Hok Er) as (Hl & _ & Hr). apply IH in E; [|exact Hr]. cbn [length] in *. lia.
    + injection E as <- _. rewrite rev_length. cbn [length]. lia.
Qed.

Theorem read_bytes_size bs S ws : bytes_ok bs = true -> raw_read_bytes bs = (Ok S, ws) ->
  held S <= Z.of_nat (length bs).
Proof.
  intros Hok E. unfold raw_read_bytes in E.
  destruct (bytes_to_ints (length bs) bs [] []) as [[ints ws1]| | |] eqn:Eb; try discriminate.
  pose proof (bytes_to_ints_size _ _ _ _ _ _ Hok Eb) as Hl. cbn [length] in Hl.
  destruct (raw_read_from_ints ints) as [r ws2] eqn:Er. injection E as -> _.
  pose proof (read_from_ints_size ints S ws2 Er). lia.
Qed.

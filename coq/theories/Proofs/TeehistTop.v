(* From any fragmentation of a stream to the message-level statements. *)
From LibTw2 Require Import Base.Res Model.Varint Model.Packer Model.Teehistorian
  Proofs.TeehistFrag Proofs.TeehistParsers Proofs.TeehistReader Proofs.TeehistMsgs Proofs.TeehistTicks.
From Coq Require Import List Lia Arith ZArith Bool.
Import ListNotations.
Open Scope Z_scope.

Section Top.
  Variable hdr : bytes -> hverdict.
  Notation parseT := (parse_at hdr).
  Notation eofT := (FErr EUnexpectedEnd).

  Lemma frags_one c (stream : bytes) : frags [(c, stream)] = stream.
  Proof. unfold frags. cbn [map snd concat]. apply app_nil_r. Qed.

  Lemma parse_header_nil : parse_header hdr [] = PNeedMore.
  Proof. reflexivity. Qed.

  (* a session that ends with Ok(None): the stream is header ++ records, and the items
     are what the message-level reader makes of the decoded records *)
  Theorem read_all_msgs s items rf : read_all hdr (fuel_for s) s = (items, Ok rf) ->
    exists vn n v ms,
      parse_header hdr (frags s) = POk vn n /\ version_of vn = Some v
      /\ decodes v (skipn n (frags s)) ms
      /\ mrun (reader_empty v) ms = (items, Some rf).
  Proof.
    intros H.
    rewrite (read_all_frag hdr (fuel_for s) (frags s) s [(false, frags s)] eq_refl (frags_one _ _)) in H.
    set (stream := frags s) in *. set (fuel := fuel_for s) in *. clearbody stream fuel.
    unfold read_all, run_t, reader_new in H. cbn [run] in H.
    set (b1 := {| b_off := 0; b_data := stream |}).
    assert (Hb1 : buf_ok b1) by (unfold buf_ok, b1; cbn; lia).
    assert (Hr : retry pfailure eofT (parseT PHeader) empty_buffer [(false, stream)]
                 = retry pfailure eofT (parseT PHeader) b1 []).
    { cbn [retry]. cbn [empty_buffer b_data b_off length Nat.ltb Nat.leb pending skipn parse_at].
      rewrite parse_header_nil. reflexivity. }
    rewrite Hr in H. rewrite retry_nil in H by exact Hb1.
    change (pending b1) with stream in H. cbn [parse_at] in H.
    destruct (parse_header hdr stream) as [vn n| |e] eqn:Eh; try discriminate.
    exists vn, n.
    destruct (parse_header_ok hdr stream vn n [] Eh) as [Hn _].
    assert (Hadv : buf_ok (adv b1 n) /\ pending (adv b1 n) = skipn n stream).
    { split; [unfold buf_ok, adv, b1; cbn; lia|]. unfold adv. rewrite pending_advance. reflexivity. }
    destruct Hadv as [Hok Hpend].
    unfold version_of.
    destruct (vn =? 1) eqn:E1; [|destruct (vn =? 2) eqn:E2]; cbn [run] in H; try discriminate.
    - exists V1. destruct (loop_mrun hdr V1 fuel (reader_empty V1) (adv b1 n) items rf eq_refl Hok H) as [ms [Hc Hm]].
      exists ms. unfold cur in Hc. cbn [reader_empty r_next] in Hc. rewrite Hpend in Hc. auto.
    - exists V2. destruct (loop_mrun hdr V2 fuel (reader_empty V2) (adv b1 n) items rf eq_refl Hok H) as [ms [Hc Hm]].
      exists ms. unfold cur in Hc. cbn [reader_empty r_next] in Hc. rewrite Hpend in Hc. auto.
  Qed.

  Theorem read_all_ticks s items rf : read_all hdr (fuel_for s) s = (items, Ok rf) ->
    exists vn n v ms,
      parse_header hdr (frags s) = POk vn n /\ version_of vn = Some v
      /\ decodes v (skipn n (frags s)) ms
      /\ nested None 0 items
      /\ item_ticks None items = map Some (doc_reported (map snd ms)).
  Proof.
    intros H. destruct (read_all_msgs _ _ _ H) as [vn [n [v [ms [Hh [Hv [Hd Hm]]]]]]].
    exists vn, n, v, ms. repeat split; try assumption.
    - eapply (mrun_ticks v _ ms Hd (reader_empty v) items rf None 0); [reflexivity|exact Hm|].
      unfold st_rel. cbn. split; [reflexivity|lia].
    - eapply (mrun_ticks v _ ms Hd (reader_empty v) items rf None 0); [reflexivity|exact Hm|].
      unfold st_rel. cbn. split; [reflexivity|lia].
  Qed.

  Theorem read_all_sums s items rf : read_all hdr (fuel_for s) s = (items, Ok rf) ->
    exists vn n v ms,
      parse_header hdr (frags s) = POk vn n /\ version_of vn = Some v
      /\ decodes v (skipn n (frags s)) ms
      /\ length (filter reported (map snd ms)) = length (payload items)
      /\ sums_ok (fun _ => None) (fun _ => None) (combine (filter reported (map snd ms)) (payload items)).
  Proof.
    intros H. destruct (read_all_msgs _ _ _ H) as [vn [n [v [ms [Hh [Hv [Hd Hm]]]]]]].
    exists vn, n, v, ms. repeat split; try assumption.
    - eapply (mrun_sums v _ ms Hd (reader_empty v) items rf); [exact Hm|reflexivity|reflexivity].
    - eapply (mrun_sums v _ ms Hd (reader_empty v) items rf); [exact Hm|reflexivity|reflexivity].
  Qed.
End Top.

(* Bit-level facts used by the Huffman proofs: bits_of / byte_bits as testbit lists,
   the byte <-> bit-list view of a byte string. *)
From LibTw2 Require Import Base.Res Base.Bits Model.Huffman.
From Coq Require Import ZArith List Lia Bool.
Import ListNotations.
Open Scope Z_scope.

(* all bits of a byte string, in decoder order *)
Definition bits_of_bytes (bs : bytes) : list bool := flat_map (byte_bits 8) bs.

Lemma bits_of_bytes_app a b : bits_of_bytes (a ++ b) = bits_of_bytes a ++ bits_of_bytes b.
Proof. unfold bits_of_bytes. apply flat_map_app. Qed.

Lemma bits_of_bytes_cons a b : bits_of_bytes (a :: b) = byte_bits 8 a ++ bits_of_bytes b.
Proof. reflexivity. Qed.

Lemma bits_of_length v off k : length (bits_of v off k) = k.
Proof. revert off. induction k; intros; cbn [bits_of length]; [reflexivity|]. now rewrite IHk. Qed.

Lemma bits_of_app v off a b :
  bits_of v off (a + b) = bits_of v off a ++ bits_of v (off + Z.of_nat a) b.
Proof.
  revert off. induction a; intros off.
  - cbn [Nat.add bits_of app]. f_equal. lia.
  - cbn [Nat.add bits_of app]. f_equal. rewrite IHa. f_equal. f_equal. lia.
Qed.

Lemma bits_of_ext v w off off' k :
  (forall i, 0 <= i < Z.of_nat k -> Z.testbit v (off + i) = Z.testbit w (off' + i)) ->
  bits_of v off k = bits_of w off' k.
Proof.
  revert off off'. induction k; intros off off' H; cbn [bits_of]; [reflexivity|].
  f_equal.
  - specialize (H 0). rewrite !Z.add_0_r in H. apply H. lia.
  - apply IHk. intros i Hi. specialize (H (i + 1)).
    replace (off + 1 + i) with (off + (i + 1)) by lia.
    replace (off' + 1 + i) with (off' + (i + 1)) by lia. apply H. lia.
Qed.

Lemma bits_of_false v off k :
  (forall i, 0 <= i < Z.of_nat k -> Z.testbit v (off + i) = false) ->
  bits_of v off k = repeat false k.
Proof.
  revert off. induction k; intros off H; cbn [bits_of repeat]; [reflexivity|].
  f_equal.
  - specialize (H 0). rewrite Z.add_0_r in H. apply H. lia.
  - apply IHk. intros i Hi. specialize (H (i + 1)).
    replace (off + 1 + i) with (off + (i + 1)) by lia. apply H. lia.
Qed.

Lemma land1_testbit v : negb (Z.land v 1 =? 0) = Z.testbit v 0.
Proof.
  change 1 with (Z.ones 1). rewrite Z.land_ones by lia. change (2 ^ 1) with 2.
  rewrite <- Z.bit0_mod. destruct (Z.testbit v 0); reflexivity.
Qed.

Lemma byte_bits_shift k v off : 0 <= off -> byte_bits k (Z.shiftr v off) = bits_of v off k.
Proof.
  revert off. induction k; intros off Hoff; cbn [byte_bits bits_of]; [reflexivity|].
  f_equal.
  - rewrite land1_testbit. rewrite Z.shiftr_spec by lia. f_equal.
  - rewrite Z.shiftr_shiftr by lia. apply IHk. lia.
Qed.

Lemma byte_bits_bits_of k v : byte_bits k v = bits_of v 0 k.
Proof. rewrite <- (byte_bits_shift k v 0) by lia. now rewrite Z.shiftr_0_r. Qed.

Lemma byte_bits_length k v : length (byte_bits k v) = k.
Proof. rewrite byte_bits_bits_of. apply bits_of_length. Qed.

Lemma bits_of_bytes_length bs : length (bits_of_bytes bs) = (8 * length bs)%nat.
Proof.
  induction bs; [reflexivity|]. rewrite bits_of_bytes_cons, app_length, byte_bits_length, IHbs.
  cbn [length]. lia.
Qed.

(* a value below 2^k has no bit at k or above *)
Lemma testbit_small v k i : 0 <= k -> 0 <= v < 2 ^ k -> k <= i -> Z.testbit v i = false.
Proof.
  intros Hk Hv Hi. destruct (Z.eq_dec v 0) as [->|Hne]; [apply Z.bits_0|].
  apply Z.bits_above_log2; [lia|]. apply Z.log2_lt_pow2; [lia|].
  assert (2 ^ k <= 2 ^ i) by (apply Z.pow_le_mono_r; lia). lia.
Qed.

Lemma testbit_255 i : 0 <= i -> Z.testbit 255 i = (i <? 8).
Proof.
  intros Hi. change 255 with (Z.ones 8).
  destruct (Z.ltb_spec i 8).
  - apply Z.ones_spec_low. lia.
  - apply Z.ones_spec_high. lia.
Qed.

(* (v >> off) as u8, seen as bits *)
Lemma testbit_shr_u8 v off i : 0 <= off -> 0 <= i ->
  Z.testbit (Z.land (Z.shiftr v off) 255) i = Z.testbit v (i + off) && (i <? 8).
Proof. intros. rewrite Z.land_spec, Z.shiftr_spec, testbit_255 by lia. reflexivity. Qed.

(* (v << nob) as u8, seen as bits *)
Lemma testbit_shl_u8 v nob i : 0 <= nob -> 0 <= i ->
  Z.testbit (Z.land (Z.shiftl v nob) 255) i = Z.testbit v (i - nob) && (i <? 8).
Proof. intros. rewrite Z.land_spec, Z.shiftl_spec, testbit_255 by lia. reflexivity. Qed.

Lemma land_255_range v : 0 <= Z.land v 255 < 256.
Proof.
  change 255 with (Z.ones 8). rewrite Z.land_ones by lia.
  change (2 ^ 8) with 256. apply Z.mod_pos_bound. lia.
Qed.

(* the low part of a value below 2^(a+b) shifted down by a is below 2^b *)
Lemma shr_u8_small v a b : 0 <= a -> 0 <= b -> 0 <= v < 2 ^ (a + b) ->
  0 <= Z.land (Z.shiftr v a) 255 < 2 ^ b.
Proof.
  intros Ha Hb Hv. change 255 with (Z.ones 8). rewrite Z.land_ones by lia.
  rewrite Z.shiftr_div_pow2 by lia.
  assert (H2 : 0 < 2 ^ a) by (apply Z.pow_pos_nonneg; lia).
  assert (Hq : 0 <= v / 2 ^ a < 2 ^ b).
  { split; [apply Z.div_pos; lia|]. apply Z.div_lt_upper_bound; [lia|].
    rewrite <- Z.pow_add_r by lia. lia. }
  pose proof (Z.mod_pos_bound (v / 2 ^ a) (2 ^ 8) ltac:(lia)).
  pose proof (Z.mod_le (v / 2 ^ a) (2 ^ 8) ltac:(lia) ltac:(lia)). lia.
Qed.

(* a non-negative value all of whose bits at k and above vanish is below 2^k *)
Lemma small_of_testbit v k : 0 <= k -> 0 <= v ->
  (forall i, k <= i -> Z.testbit v i = false) -> v < 2 ^ k.
Proof.
  intros Hk Hv H. destruct (Z.eq_dec v 0) as [->|Hne]; [apply Z.pow_pos_nonneg; lia|].
  destruct (Z_lt_le_dec v (2 ^ k)) as [|Hge]; [assumption|exfalso].
  assert (Hl : k <= Z.log2 v) by (apply Z.log2_le_pow2; lia).
  specialize (H (Z.log2 v) Hl). rewrite Z.bit_log2 in H by lia. discriminate.
Qed.

(* C20: the endpoint's invariant and what follows from it. Inside the API contract no call
   panics or spins (one remote address cannot take the endpoint down); live pids are distinct in
   every reachable state; a pid is gone after disconnect / reject / ignore / a Close from the
   peer; a datagram from an address without a peer changes the table only if it is a Connect on
   an accepting endpoint; the endpoint's deadline is the minimum of the per-address deadlines. *)
From LibTw2 Require Import Base.Res Model.PacketTypes Model.ConnCore Model.Conn6 Model.NetEndpoint
  Proofs.ConnCoreInv Proofs.Conn6Inv Proofs.NetEndpointSpec Proofs.NetEndpointSim.
From Coq Require Import ZArith Lia Bool List Permutation.
Open Scope Z_scope.

(* ================= facts about Conn6.step the endpoint relies on ================= *)

Lemma tick_action_shape c e out : tick_action c e = Ok out ->
  out_events out = [] /\ out_warns out = [] /\
  (c_state (out_conn out) = c_state c \/ exists o', c_state (out_conn out) = Online o').
Proof.
  unfold tick_action. destruct (c_state c) as [| |t|o|] eqn:Es.
  - intros H. injection H as <-. cbn. rewrite Es. auto.
  - destruct (send_control Connecting (Connect None)) as [d| | |]; cbn [bind]; try discriminate.
    intros H. injection H as <-. cbn. auto.
  - destruct (send_control (Pending t) ConnectAccept) as [d| | |]; cbn [bind]; try discriminate.
    intros H. injection H as <-. cbn. auto.
  - destruct (can_send o).
    + destruct (online_flush params6 o) as [[o' d]| | |]; cbn [bind]; try discriminate.
      intros H. injection H as <-. cbn. split; [reflexivity|]. split; [reflexivity|]. right. eexists; reflexivity.
    + destruct (send_control (Online o) KeepAlive) as [d| | |]; cbn [bind]; try discriminate.
      intros H. injection H as <-. cbn. auto.
  - intros H. injection H as <-. cbn. rewrite Es. auto.
Qed.

Lemma do_resend_state c e o c' ds : do_resend c e o = Ok (c', ds) -> exists o', c_state c' = Online o'.
Proof.
  unfold do_resend. destruct (online_resend params6 (e_now e) o) as [[[o' d] t]| | |]; cbn [bind]; try discriminate.
  intros H. injection H as <- _. eexists; reflexivity.
Qed.

Lemma feed_not_disc c e d out : feed c e d = Ok out -> c_state c <> Disconnected ->
  existsb is_disconnect (out_events out) = false -> c_state (out_conn out) <> Disconnected.
Proof.
  intros H Hn He. unfold feed in H.
  destruct d as [t1 t2 pl|tk ack ctl|tk ack rr nc cs].
  - injection H as <-. exact Hn.
  - cbn [dgram_tok dgram_ack] in H.
    destruct (match state_token (c_state c) with Some expected => negb (tok_eqb tk expected) | None => false end);
      [injection H as <-; exact Hn|].
    destruct ((ack <? 0) || (SEQ_MOD <=? ack)); [discriminate|].
    assert (Hst1 : match c_state c with Online o => Online (ack_chunks o ack) | s => s end <> Disconnected)
      by (destruct (c_state c); congruence).
    destruct ctl as [|resp| | |reason|resp].
    + injection H as <-. exact Hst1.
    + destruct (match c_state c with Online o => Online (ack_chunks o ack) | s => s end) eqn:E1;
        try (injection H as <-; cbn; congruence).
      destruct tk as [t|].
      * destruct (list_eq_dec Z.eq_dec t TOKEN_NONE).
        -- destruct (token_random (e_rand e)) as [[nt rnd']| | |]; cbn [bind] in H; try discriminate.
           apply tick_action_shape in H. destruct H as [_ [_ [H|[o' H]]]]; rewrite H; cbn; congruence.
        -- injection H as <-. cbn. congruence.
      * apply tick_action_shape in H. destruct H as [_ [_ [H|[o' H]]]]; rewrite H; cbn; congruence.
    + destruct (match c_state c with Online o => Online (ack_chunks o ack) | s => s end) eqn:E1;
        try (injection H as <-; cbn; congruence).
      destruct (send_control (Online (online_new tk tk)) Accept) as [s| | |]; cbn [bind] in H; try discriminate.
      injection H as <-. cbn. congruence.
    + injection H as <-. exact Hst1.
    + injection H as <-. cbn in He. discriminate.
    + injection H as <-. exact Hst1.
  - cbn [dgram_tok dgram_ack] in H.
    destruct (match state_token (c_state c) with Some expected => negb (tok_eqb tk expected) | None => false end);
      [injection H as <-; exact Hn|].
    destruct ((ack <? 0) || (SEQ_MOD <=? ack)); [discriminate|].
    destruct (c_state c) as [| |t|o|] eqn:Es; try (injection H as <-; cbn; congruence).
    + (* Pending -> Online *)
      cbn [c_state] in H.
      destruct rr.
      * destruct (do_resend {| c_state := Online (online_new t t); c_send := c_send c |} e (online_new t t)) as [[c3 sent]| | |] eqn:Er;
          cbn [bind] in H; try discriminate.
        destruct (do_resend_state _ _ _ _ _ Er) as [o3 Ho3]. rewrite Ho3 in H.
        destruct (recv_chunks (o_ack o3) (o_rr o3) cs) as [[[a' r'] evs]| | |]; cbn [bind] in H; try discriminate.
        injection H as <-. cbn. congruence.
      * cbn [bind c_state] in H.
        destruct (recv_chunks (o_ack (online_new t t)) (o_rr (online_new t t)) cs) as [[[a' r'] evs]| | |]; cbn [bind] in H; try discriminate.
        injection H as <-. cbn. congruence.
    + cbn [c_state] in H.
      destruct rr.
      * destruct (do_resend {| c_state := Online (ack_chunks o ack); c_send := c_send c |} e (ack_chunks o ack)) as [[c3 sent]| | |] eqn:Er;
          cbn [bind] in H; try discriminate.
        destruct (do_resend_state _ _ _ _ _ Er) as [o3 Ho3]. rewrite Ho3 in H.
        destruct (recv_chunks (o_ack o3) (o_rr o3) cs) as [[[a' r'] evs]| | |]; cbn [bind] in H; try discriminate.
        injection H as <-. cbn. congruence.
      * cbn [bind c_state] in H.
        destruct (recv_chunks (o_ack (ack_chunks o ack)) (o_rr (ack_chunks o ack)) cs) as [[[a' r'] evs]| | |]; cbn [bind] in H; try discriminate.
        injection H as <-. cbn. congruence.
Qed.

(* a connection leaves the live states only through disconnect() or a Close that is reported *)
Lemma step_not_disc c e o out : step c e o = Ok out -> c_state c <> Disconnected ->
  (forall r, o <> OpDisconnect r) -> existsb is_disconnect (out_events out) = false ->
  c_state (out_conn out) <> Disconnected.
Proof.
  intros H Hn Ho He. destruct o as [|data vital| | |reason|data|d| |]; unfold step in H.
  - destruct (c_state c); try discriminate.
    apply tick_action_shape in H. destruct H as [_ [_ [H|[o' H]]]]; rewrite H; cbn; congruence.
  - destruct (c_state c) as [| |t|o|]; try discriminate.
    destruct (online_send params6 (e_now e) o data vital) as [[[o' d] r]| | |]; cbn [bind] in H; try discriminate.
    injection H as <-. cbn. congruence.
  - destruct (c_state c) as [| |t|o|]; try discriminate.
    destruct (online_flush params6 o) as [[o' d]| | |]; cbn [bind] in H; try discriminate.
    injection H as <-. cbn. congruence.
  - destruct (match c_state c with
              | Online o => match queue_back (o_queue o) with Some rc => triggered (rc_next rc) (e_now e) | None => false end
              | _ => false end).
    + destruct (c_state c) as [| |t|o|] eqn:Es; try (injection H as <-; cbn; congruence).
      destruct (do_resend c e o) as [[c' d]| | |] eqn:Er; cbn [bind] in H; try discriminate.
      injection H as <-. cbn. destruct (do_resend_state _ _ _ _ _ Er) as [o3 Ho3]. congruence.
    + destruct (triggered (c_send c) (e_now e)).
      * apply tick_action_shape in H. destruct H as [_ [_ [H|[o' H]]]]; rewrite H; cbn; congruence.
      * injection H as <-. exact Hn.
  - exfalso. apply (Ho reason). reflexivity.
  - destruct (c_state c) as [| |t|o|] eqn:Es; try discriminate.
    destruct (MAX_PAYLOAD <? Z.of_nat (length data)); injection H as <-; cbn; congruence.
  - eapply feed_not_disc; eassumption.
  - injection H as <-. exact Hn.
  - destruct (c_state c); try discriminate. congruence.
Qed.

(* Net::accept: the canonical connect packet on a fresh connection *)
Lemma accept_feed c e tok : c_state c = Unconnected -> rand_ok e ->
  exists out, step c e (OpFeed (canonical_connect tok)) = Ok out /\
    out_events out = [] /\ out_warns out = [] /\ conn_ok6 (out_conn out) /\
    c_state (out_conn out) <> Disconnected /\ Forall (dgram_ok pp6) (out_sent out).
Proof.
  intros Hs Hr.
  assert (Hc : conn_ok6 c) by (unfold conn_ok6; rewrite Hs; exact I).
  assert (Hd : dgram_in_ok (canonical_connect tok)).
  { unfold canonical_connect, dgram_in_ok. split; [destruct tok; [reflexivity|exact I]|unfold SEQ_MOD; lia]. }
  destruct (feed_ok6 c e _ Hc Hd Hr) as [out [Hf [Hok Hds]]].
  exists out. unfold step. split; [exact Hf|].
  assert (Hshape : out_events out = [] /\ out_warns out = [] /\ c_state (out_conn out) <> Disconnected).
  { unfold feed, canonical_connect in Hf. cbn [dgram_tok dgram_ack] in Hf. rewrite Hs in Hf.
    cbn [state_token] in Hf. change ((0 <? 0) || (SEQ_MOD <=? 0)) with false in Hf. cbn iota in Hf.
    destruct tok.
    - destruct (list_eq_dec Z.eq_dec TOKEN_NONE TOKEN_NONE) as [_|Hne]; [|exfalso; apply Hne; reflexivity].
      destruct (token_random (e_rand e)) as [[nt rnd']| | |]; cbn [bind] in Hf; try discriminate.
      apply tick_action_shape in Hf. destruct Hf as [H1 [H2 [H|[o' H]]]]; (split; [exact H1|]; split; [exact H2|]); rewrite H; cbn; congruence.
    - apply tick_action_shape in Hf. destruct Hf as [H1 [H2 [H|[o' H]]]]; (split; [exact H1|]; split; [exact H2|]); rewrite H; cbn; congruence. }
  destruct Hshape as [H1 [H2 H3]]. repeat split; assumption.
Qed.

(* ================= Peers::new_peer terminates ================= *)
Lemma new_peer_loop_res fuel : forall ps next,
  (exists pid next', new_peer_loop fuel ps next = Ok (pid, next')) \/ new_peer_loop fuel ps next = OutOfFuel.
Proof.
  induction fuel as [|f IH]; intros ps next; cbn [new_peer_loop]; [right; reflexivity|].
  destruct (get_peer ps next); [apply IH|]. left. eexists _, _. reflexivity.
Qed.

Lemma new_peer_loop_next fuel : forall ps next pid next',
  new_peer_loop fuel ps next = Ok (pid, next') -> 0 <= next' < U32.
Proof.
  induction fuel as [|f IH]; intros ps next pid next'; cbn [new_peer_loop]; [discriminate|].
  destruct (get_peer ps next).
  - apply IH.
  - intros H. injection H as _ <-. apply Z.mod_pos_bound. unfold U32. lia.
Qed.

Lemma new_peer_loop_fail fuel : forall ps next, 0 <= next < U32 ->
  new_peer_loop fuel ps next = OutOfFuel ->
  forall i, (i < fuel)%nat -> In ((next + Z.of_nat i) mod U32) (pids ps).
Proof.
  induction fuel as [|f IH]; intros ps next Hr H i Hi; [lia|].
  cbn [new_peer_loop] in H. destruct (get_peer ps next) as [p|] eqn:Eg; [|discriminate].
  destruct i as [|i].
  - rewrite Z.add_0_r, Z.mod_small by exact Hr.
    apply get_peer_In in Eg. change next with (fst (next, p)). apply in_map, Eg.
  - assert (Hr' : 0 <= (next + 1) mod U32 < U32) by (apply Z.mod_pos_bound; unfold U32; lia).
    specialize (IH ps _ Hr' H i ltac:(lia)).
    replace ((next + Z.of_nat (S i)) mod U32) with (((next + 1) mod U32 + Z.of_nat i) mod U32); [exact IH|].
    rewrite Zplus_mod_idemp_l. f_equal. lia.
Qed.

Lemma NoDup_map_inj_in {A B} (f : A -> B) (l : list A) :
  (forall x y, In x l -> In y l -> f x = f y -> x = y) -> NoDup l -> NoDup (map f l).
Proof.
  induction l as [|x r IH]; intros Hinj Hnd; [constructor|].
  inversion Hnd as [|? ? Hni Hnd']; subst. cbn [map]. constructor.
  - intros Hin. apply in_map_iff in Hin as [y [Hfy Hy]].
    assert (y = x) by (apply Hinj; [right; exact Hy|left; reflexivity|exact Hfy]). subst y. contradiction.
  - apply IH; [|exact Hnd']. intros a b Ha Hb. apply Hinj; right; assumption.
Qed.

Lemma new_peer_loop_ok ps next : 0 <= next < U32 -> Z.of_nat (length ps) < U32 ->
  exists pid next', new_peer_loop (S (length ps)) ps next = Ok (pid, next').
Proof.
  intros Hr Hroom. destruct (new_peer_loop_res (S (length ps)) ps next) as [H|H]; [exact H|exfalso].
  pose proof (new_peer_loop_fail _ ps next Hr H) as Hall.
  set (f := fun i : nat => (next + Z.of_nat i) mod U32).
  assert (Hnd : NoDup (map f (seq 0 (S (length ps))))).
  { apply NoDup_map_inj_in; [|apply seq_NoDup].
    intros x y Hx Hy Hf. apply in_seq in Hx, Hy. unfold f, U32 in *.
    assert (Hx' : 0 <= Z.of_nat x < 4294967296) by lia.
    assert (Hy' : 0 <= Z.of_nat y < 4294967296) by lia.
    apply Nat2Z.inj. revert Hf. generalize (Z.of_nat x) (Z.of_nat y) Hx' Hy'. clear. intros a b Ha Hb Hf.
    pose proof (Z.div_mod (next + a) 4294967296 ltac:(lia)). pose proof (Z.div_mod (next + b) 4294967296 ltac:(lia)).
    pose proof (Z.mod_pos_bound (next + a) 4294967296 ltac:(lia)). lia. }
  assert (Hincl : incl (map f (seq 0 (S (length ps)))) (pids ps)).
  { intros z Hz. apply in_map_iff in Hz as [i [<- Hi]]. apply in_seq in Hi. apply Hall. lia. }
  pose proof (NoDup_incl_length Hnd Hincl) as Hlen.
  rewrite map_length, seq_length in Hlen. unfold pids in Hlen. rewrite map_length in Hlen. lia.
Qed.

(* ================= the invariant ================= *)
Definition peer_ok (p : peer) : Prop := conn_ok6 (p_conn p) /\ c_state (p_conn p) <> Disconnected.
Definition net_ok (n : net) : Prop :=
  tab_ok (n_peers n) /\ Forall (fun x => peer_ok (snd x)) (n_peers n) /\ 0 <= n_next n < U32.

Lemma net_new_ok acc : net_ok (net_new acc).
Proof. split; [split; constructor|]. split; [constructor|unfold U32; cbn; lia]. Qed.

Lemma forall_set_conn (P : Z * peer -> Prop) ps pid p c : NoDup (pids ps) -> get_peer ps pid = Some p ->
  Forall P ps -> P (pid, with_conn p c) -> Forall P (set_conn ps pid c).
Proof.
  intros Hnd Hg Hall Hp. apply Forall_forall. intros x Hx. apply (set_conn_In ps pid c p Hnd Hg) in Hx.
  destruct Hx as [->|[Hx _]]; [exact Hp|]. rewrite Forall_forall in Hall. apply Hall, Hx.
Qed.

Lemma forall_remove (P : Z * peer -> Prop) ps pid ps' p : get_peer ps pid = Some p -> swap_remove ps pid = Some ps' ->
  Forall P ps -> Forall P ps'.
Proof.
  intros Hg Hs Hall. destruct (swap_remove_perm ps pid p Hg) as [ps2 [Hs2 Hperm]]. rewrite Hs in Hs2. injection Hs2 as <-.
  pose proof (Permutation_Forall Hperm Hall) as H. inversion H; assumption.
Qed.

Definition sent_ok (l : list (addr * dgram)) : Prop := Forall (fun x => dgram_ok pp6 (snd x)) l.
Lemma sent_ok_to a ds : Forall (dgram_ok pp6) ds -> sent_ok (to_addr a ds).
Proof. intros H. unfold sent_ok, to_addr. apply Forall_map. exact H. Qed.

Lemma get_peer_ok n pid p : net_ok n -> get_peer (n_peers n) pid = Some p -> peer_ok p.
Proof. intros [_ [Hall _]] Hg. rewrite Forall_forall in Hall. exact (Hall _ (get_peer_In _ _ _ Hg)). Qed.

(* the result of a call into one peer's connection, stored back *)
Lemma store_ok n pid p c : net_ok n -> get_peer (n_peers n) pid = Some p -> conn_ok6 c -> c_state c <> Disconnected ->
  net_ok (with_peers n (set_conn (n_peers n) pid c)).
Proof.
  intros [Hok [Hall Hnx]] Hg Hc Hd. split; [exact (proj1 (upd_set_conn _ pid p c Hok Hg))|]. split; [|exact Hnx].
  cbn [with_peers n_peers]. apply (forall_set_conn _ _ pid p c (proj1 Hok) Hg Hall). split; assumption.
Qed.

Lemma drop_ok n pid p : net_ok n -> get_peer (n_peers n) pid = Some p ->
  exists n', remove_peer n pid = Ok n' /\ net_ok n' /\ get_peer (n_peers n') pid = None.
Proof.
  intros [Hok [Hall Hnx]] Hg. destruct (upd_remove _ pid p Hok Hg) as [ps' [Hs [Hu [Hgone _]]]].
  unfold remove_peer. rewrite Hs. eexists. split; [reflexivity|]. split; [|exact Hgone].
  split; [exact (proj1 Hu)|]. split; [|exact Hnx]. cbn [n_peers]. exact (forall_remove _ _ _ _ _ Hg Hs Hall).
Qed.

Lemma tick_all_ok e : forall ps, Forall (fun x => peer_ok (snd x)) ps ->
  exists ps' s, tick_all e ps = Ok (ps', s) /\ Forall (fun x => peer_ok (snd x)) ps' /\ sent_ok s.
Proof.
  induction ps as [|[pid p] r IH]; intros Hall.
  - eexists _, _. split; [reflexivity|]. split; constructor.
  - inversion Hall as [|? ? [Hc Hd] Hr]; subst. cbn [snd] in Hc, Hd.
    destruct (step_ok6 (p_conn p) e OpTick Hc I) as [out [Hs [Hc' Hds]]].
    destruct (IH Hr) as [r' [s' [Ht [Hr' Hs']]]].
    cbn [tick_all]. rewrite Hs. cbn [bind]. rewrite Ht. cbn [bind].
    eexists _, _. split; [reflexivity|]. split.
    + constructor; [|exact Hr']. cbn [snd with_conn p_conn]. split; [exact Hc'|].
      apply (step_not_disc _ _ _ _ Hs Hd); [discriminate|].
      unfold step in Hs.
      destruct (match c_state (p_conn p) with
                | Online o => match queue_back (o_queue o) with Some rc => triggered (rc_next rc) (e_now e) | None => false end
                | _ => false end).
      * destruct (c_state (p_conn p)); try (injection Hs as <-; reflexivity).
        destruct (do_resend (p_conn p) e o) as [[c' d]| | |]; cbn [bind] in Hs; try discriminate. injection Hs as <-. reflexivity.
      * destruct (triggered (c_send (p_conn p)) (e_now e)); [|injection Hs as <-; reflexivity].
        apply tick_action_shape in Hs. destruct Hs as [-> _]. reflexivity.
    + unfold sent_ok. apply Forall_app. split; [apply sent_ok_to, Hds|exact Hs'].
Qed.

(* no events from these calls: read off the model *)
Lemma no_events_of_step c e o out : step c e o = Ok out ->
  match o with OpFeed _ => False | _ => True end -> out_events out = [].
Proof.
  intros H Ho. destruct o as [|data vital| | |reason|data|d| |]; try contradiction; unfold step in H.
  - destruct (c_state c); try discriminate. apply tick_action_shape in H. apply H.
  - destruct (c_state c) as [| |t|o|]; try discriminate.
    destruct (online_send params6 (e_now e) o data vital) as [[[o' d] r]| | |]; cbn [bind] in H; try discriminate.
    injection H as <-. reflexivity.
  - destruct (c_state c) as [| |t|o|]; try discriminate.
    destruct (online_flush params6 o) as [[o' d]| | |]; cbn [bind] in H; try discriminate.
    injection H as <-. reflexivity.
  - destruct (match c_state c with
              | Online o => match queue_back (o_queue o) with Some rc => triggered (rc_next rc) (e_now e) | None => false end
              | _ => false end).
    + destruct (c_state c); try (injection H as <-; reflexivity).
      destruct (do_resend c e o) as [[c' d]| | |]; cbn [bind] in H; try discriminate. injection H as <-. reflexivity.
    + destruct (triggered (c_send c) (e_now e)); [|injection H as <-; reflexivity].
      apply tick_action_shape in H. apply H.
  - destruct (c_state c); try discriminate;
      (destruct (existsb (fun b => b =? 0) reason); [discriminate|]);
      match type of H with (let* d := ?s in _) = _ => destruct s; cbn [bind] in H; try discriminate end;
      injection H as <-; reflexivity.
  - destruct (c_state c); try discriminate.
    destruct (MAX_PAYLOAD <? Z.of_nat (length data)); injection H as <-; reflexivity.
  - injection H as <-. reflexivity.
  - destruct (c_state c); try discriminate. injection H as <-. reflexivity.
Qed.

(* ================= inside the contract no call panics ================= *)
Lemma stateless_ok n a0 known r : net_ok n -> room n -> (known = false -> view n a0 = None) ->
  exists out, feed_stateless n a0 known r = Ok out /\ net_ok (no_net out) /\ sent_ok (no_sent out).
Proof.
  intros Hn Hroom Hk. pose proof Hn as [Hok [Hall Hnx]]. unfold feed_stateless.
  assert (Hsame : forall evs ws, exists out, @Ok unit nout (nmk n [] evs ws ROk None) = Ok out /\ net_ok (no_net out) /\ sent_ok (no_sent out)).
  { intros. eexists. split; [reflexivity|]. split; [exact Hn|constructor]. }
  destruct (r None) as [dg|]; [|apply Hsame].
  destruct dg as [t1 t2 pl|tok ack ctl|tok ack rr nc cs]; try apply Hsame.
  destruct ctl as [|resp| | |reason|resp]; try apply Hsame.
  destruct known; [apply Hsame|]. destruct (n_accept n); [|apply Hsame].
  unfold new_peer. destruct (new_peer_loop_ok (n_peers n) (n_next n) Hnx Hroom) as [pid [nx' Hl]].
  rewrite Hl. cbn [bind]. eexists. split; [reflexivity|]. cbn [no_net no_sent nmk].
  split; [|constructor].
  pose proof (new_peer_loop_vacant _ _ _ _ _ Hl) as Hvac.
  split; [|split]; cbn [n_peers n_next].
  - exact (proj1 (upd_new _ pid a0 _ Hok (Hk eq_refl) Hvac)).
  - apply Forall_app. split; [exact Hall|]. constructor; [|constructor].
    cbn [snd]. split; [exact conn6_new_ok|cbn; discriminate].
  - eapply new_peer_loop_next, Hl.
Qed.

Lemma reason_forallb r : existsb (fun b => b =? 0) r = false -> forallb (fun b => negb (b =? 0)) r = true.
Proof.
  induction r as [|b r IH]; [reflexivity|]. cbn [existsb forallb]. intros H.
  apply orb_false_iff in H as [Hb Hr]. rewrite Hb, (IH Hr). reflexivity.
Qed.

Theorem net_step_ok n e o : net_ok n -> valid_nop n e o ->
  exists out, net_step n e o = Ok out /\ net_ok (no_net out) /\ sent_ok (no_sent out).
Proof.
  intros Hn Hv. pose proof Hn as [Hok [Hall Hnx]].
  destruct o as [a0 r|a0|pid|pid reason|pid reason|pid|pid d vital|pid|a0 d|]; cbn [valid_nop] in Hv; unfold net_step.
  - (* feed *)
    destruct Hv as [Hraw [Hrand Hroom]]. unfold net_feed.
    destruct (pid_from_addr (n_peers n) a0) as [[pid p]|] eqn:Ef.
    + destruct (pid_from_addr_In _ _ _ _ Ef) as [Hin Hpa].
      assert (Hg : get_peer (n_peers n) pid = Some p) by (apply In_get_peer; [exact (proj1 Hok)|exact Hin]).
      destruct (get_peer_ok _ _ _ Hn Hg) as [Hc Hd].
      destruct (is_unconnected (p_conn p)) eqn:Eu.
      * apply stateless_ok; [exact Hn|exact Hroom|discriminate].
      * unfold feed_peer.
        assert (Hfeed : exists o6, conn_feed_raw (p_conn p) e r = Ok o6 /\ conn_ok6 (out_conn o6) /\ Forall (dgram_ok pp6) (out_sent o6)
                                   /\ (existsb is_disconnect (out_events o6) = false -> c_state (out_conn o6) <> Disconnected)).
        { unfold conn_feed_raw. destruct (r (token_hint (p_conn p))) as [dg|] eqn:Er.
          - destruct (step_ok6 (p_conn p) e (OpFeed dg) Hc (conj (Hraw _ _ Er) Hrand)) as [o6 [Hs [Hc6 Hds]]].
            exists o6. split; [exact Hs|]. split; [exact Hc6|]. split; [exact Hds|]. intros He. apply (step_not_disc _ _ _ _ Hs Hd); [discriminate|exact He].
          - eexists. split; [reflexivity|]. cbn [out_conn out_sent out_events mk]. split; [exact Hc|]. split; [constructor|]. intros _. exact Hd. }
        destruct Hfeed as [o6 [Hf [Hc6 [Hds Hnd]]]]. rewrite Hf. cbn [bind].
        destruct (existsb is_disconnect (out_events o6)) eqn:Ed.
        -- (* the peer closed: dropped, whatever state the connection is in *)
           assert (Hn1 : tab_ok (set_conn (n_peers n) pid (out_conn o6)) /\
                         Forall (fun x => peer_ok (snd x)) ((fun l => l) (n_peers n))) by (split; [exact (proj1 (upd_set_conn _ pid p _ Hok Hg))|exact Hall]).
           pose proof (get_peer_set_conn _ _ (out_conn o6) _ Hg) as Hg1.
           destruct (upd_remove _ pid _ (proj1 Hn1) Hg1) as [ps' [Hs [Hu _]]].
           unfold remove_peer. cbn [with_peers n_peers]. rewrite Hs. cbn [bind]. eexists. split; [reflexivity|].
           cbn [no_net no_sent nmk]. split; [|apply sent_ok_to, Hds].
           split; [exact (proj1 Hu)|]. split; [|exact Hnx]. cbn [n_peers].
           (* every remaining entry is an old entry other than pid *)
           apply Forall_forall. intros x Hx.
           destruct (swap_remove_perm _ pid _ Hg1) as [ps2 [Hs2 Hperm]]. rewrite Hs in Hs2. injection Hs2 as <-.
           assert (Hx1 : In x (set_conn (n_peers n) pid (out_conn o6))) by (apply (Permutation_in _ (Permutation_sym Hperm)); right; exact Hx).
           apply (set_conn_In _ pid (out_conn o6) p (proj1 Hok) Hg) in Hx1. destruct Hx1 as [->|[Hx1 _]].
           ++ exfalso. pose proof (perm_tab_ok _ _ Hperm (proj1 Hn1)) as [Hp2 _]. cbn [pids map fst] in Hp2.
              inversion Hp2 as [|? ? Hni _]; subst. apply Hni. change pid with (fst (pid, with_conn p (out_conn o6))). apply in_map, Hx.
           ++ rewrite Forall_forall in Hall. apply Hall, Hx1.
        -- cbn [bind]. eexists. split; [reflexivity|]. cbn [no_net no_sent nmk].
           split; [apply (store_ok n pid p); [exact Hn|exact Hg|exact Hc6|apply Hnd; reflexivity]|apply sent_ok_to, Hds].
    + apply stateless_ok; [exact Hn|exact Hroom|]. intros _. unfold view, view_tab. rewrite Ef. reflexivity.
  - (* connect *)
    destruct Hv as [Hview Hroom].
    unfold new_peer. destruct (new_peer_loop_ok (n_peers n) (n_next n) Hnx Hroom) as [pid [nx' Hl]].
    rewrite Hl. cbn [bind].
    destruct (step_ok6 conn6_new e OpConnect conn6_new_ok eq_refl) as [o6 [Hs [Hc6 Hds]]]. rewrite Hs. cbn [bind].
    eexists. split; [reflexivity|]. cbn [no_net no_sent nmk with_peers n_peers]. split; [|apply sent_ok_to, Hds].
    pose proof (new_peer_loop_vacant _ _ _ _ _ Hl) as Hvac.
    set (n1 := {| n_peers := n_peers n ++ [(pid, peer_new a0 false)]; n_next := nx'; n_accept := n_accept n |}).
    assert (Hn1 : net_ok n1).
    { split; [exact (proj1 (upd_new _ pid a0 false Hok Hview Hvac))|]. split; cbn [n1 n_peers n_next].
      - apply Forall_app. split; [exact Hall|]. constructor; [|constructor]. cbn [snd]. split; [exact conn6_new_ok|cbn; discriminate].
      - eapply new_peer_loop_next, Hl. }
    assert (Hg1 : get_peer (n_peers n1) pid = Some (peer_new a0 false)).
    { cbn [n1 n_peers]. rewrite get_peer_app, Hvac, Z.eqb_refl. reflexivity. }
    apply (store_ok n1 pid _ (out_conn o6) Hn1 Hg1 Hc6).
    apply (step_not_disc _ _ _ _ Hs); [cbn; discriminate|discriminate|].
    rewrite (no_events_of_step _ _ _ _ Hs I). reflexivity.
  - (* accept *)
    destruct Hv as [p [Hg [Eu Hrand]]]. rewrite Hg, Eu. cbn [negb].
    assert (Hst : c_state (p_conn p) = Unconnected) by (unfold is_unconnected in Eu; destruct (c_state (p_conn p)); try discriminate; reflexivity).
    destruct (accept_feed (p_conn p) e (p_token p) Hst Hrand) as [o6 [Hs [He [Hw [Hc6 [Hd6 Hds]]]]]].
    unfold peer_call. rewrite Hs. cbn [bind no_warns no_events nmk]. rewrite He, Hw. cbn [conn_warns conn_events map].
    eexists. split; [reflexivity|]. cbn [no_net no_sent nmk].
    split; [apply (store_ok n pid p); assumption|apply sent_ok_to, Hds].
  - (* reject *)
    destruct Hv as [p [Hg [Eu [Hnul Hlen]]]]. rewrite Hg, Eu, Hnul. cbn [negb].
    assert (Hsz : control_size params6 None (Close reason) <= MAX_PACKETSIZE) by (apply control_small; [exact I|exact Hlen]).
    replace (MAX_PACKETSIZE <? control_size params6 None (Close reason)) with false by lia.
    destruct (drop_ok n pid p Hn Hg) as [n' [Hr [Hn' _]]]. rewrite Hr. cbn [bind].
    eexists. split; [reflexivity|]. cbn [no_net no_sent nmk]. split; [exact Hn'|].
    constructor; [|constructor]. cbn [snd]. unfold dgram_ok. split; [exact I|]. split; [unfold SEQ_MOD; lia|].
    split; [exact Hsz|]. split; [apply reason_forallb, Hnul|exact Hlen].
  - (* disconnect *)
    destruct Hv as [p [Hg [Eu [Hnul Hlen]]]]. rewrite Hg, Eu.
    destruct (get_peer_ok _ _ _ Hn Hg) as [Hc Hd].
    assert (Hvo : valid_op6 (p_conn p) e (OpDisconnect reason)).
    { cbn [valid_op6]. split; [|split; [exact Hd|split; assumption]].
      unfold is_unconnected in Eu. destruct (c_state (p_conn p)); try discriminate; discriminate. }
    destruct (step_ok6 _ e _ Hc Hvo) as [o6 [Hs [Hc6 Hds]]].
    unfold peer_call. rewrite Hs. cbn [bind no_net nmk].
    (* the connection is Disconnected now; the entry is dropped before anybody can look at it *)
    pose proof (upd_set_conn _ pid p (out_conn o6) Hok Hg) as Hu1.
    pose proof (get_peer_set_conn _ _ (out_conn o6) _ Hg) as Hg1.
    destruct (upd_remove _ pid _ (proj1 Hu1) Hg1) as [ps' [Hsr [Hu _]]].
    unfold remove_peer. cbn [with_peers n_peers]. rewrite Hsr. cbn [bind]. eexists. split; [reflexivity|].
    cbn [no_net no_sent nmk]. split; [|apply sent_ok_to, Hds].
    split; [exact (proj1 Hu)|]. split; [|exact Hnx]. cbn [n_peers].
    apply Forall_forall. intros x Hx.
    destruct (swap_remove_perm _ pid _ Hg1) as [ps2 [Hs2 Hperm]]. rewrite Hsr in Hs2. injection Hs2 as <-.
    assert (Hx1 : In x (set_conn (n_peers n) pid (out_conn o6))) by (apply (Permutation_in _ (Permutation_sym Hperm)); right; exact Hx).
    apply (set_conn_In _ pid (out_conn o6) p (proj1 Hok) Hg) in Hx1. destruct Hx1 as [->|[Hx1 _]].
    + exfalso. pose proof (perm_tab_ok _ _ Hperm (proj1 Hu1)) as [Hp2 _]. cbn [pids map fst] in Hp2.
      inversion Hp2 as [|? ? Hni _]; subst. apply Hni. change pid with (fst (pid, with_conn p (out_conn o6))). apply in_map, Hx.
    + rewrite Forall_forall in Hall. apply Hall, Hx1.
  - (* ignore *)
    destruct Hv as [p Hg]. destruct (drop_ok n pid p Hn Hg) as [n' [Hr [Hn' _]]]. rewrite Hr. cbn [bind].
    eexists. split; [reflexivity|]. split; [exact Hn'|constructor].
  - (* send *)
    destruct Hv as [p [on [Hg Hon]]]. rewrite Hg. destruct (get_peer_ok _ _ _ Hn Hg) as [Hc Hd].
    destruct (step_ok6 _ e (OpSend d vital) Hc (ex_intro _ on Hon)) as [o6 [Hs [Hc6 Hds]]].
    unfold peer_call. rewrite Hs. cbn [bind]. eexists. split; [reflexivity|]. cbn [no_net no_sent nmk].
    split; [|apply sent_ok_to, Hds]. apply (store_ok n pid p); try assumption.
    apply (step_not_disc _ _ _ _ Hs Hd); [discriminate|]. rewrite (no_events_of_step _ _ _ _ Hs I). reflexivity.
  - (* flush *)
    destruct Hv as [p [on [Hg Hon]]]. rewrite Hg. destruct (get_peer_ok _ _ _ Hn Hg) as [Hc Hd].
    destruct (step_ok6 _ e OpFlush Hc (ex_intro _ on Hon)) as [o6 [Hs [Hc6 Hds]]].
    unfold peer_call. rewrite Hs. cbn [bind]. eexists. split; [reflexivity|]. cbn [no_net no_sent nmk].
    split; [|apply sent_ok_to, Hds]. apply (store_ok n pid p); try assumption.
    apply (step_not_disc _ _ _ _ Hs Hd); [discriminate|]. rewrite (no_events_of_step _ _ _ _ Hs I). reflexivity.
  - (* send_connless *)
    destruct (MAX_PAYLOAD <? Z.of_nat (length d)) eqn:El; eexists; (split; [reflexivity|]); (split; [exact Hn|]); [constructor|].
    constructor; [|constructor]. cbn [snd]. unfold dgram_ok. lia.
  - (* tick *)
    destruct (tick_all_ok e _ Hall) as [ps' [s [Ht [Hall' Hs]]]]. rewrite Ht. cbn [bind].
    eexists. split; [reflexivity|]. cbn [no_net no_sent nmk]. split; [|exact Hs].
    destruct (tick_all_sim e _ _ _ Hok Ht) as [Hpe [Hae _]].
    split; [split; cbn [with_peers n_peers]; [rewrite Hpe|rewrite Hae]; apply Hok|]. split; [exact Hall'|exact Hnx].
Qed.

Theorem run_net_ok tr : forall n now, net_ok n -> valid_net_api n now tr ->
  exists n' now' recs, run_net n now tr = Ok (n', now', recs) /\ net_ok n' /\
    Forall (fun r => match nr_out r with Some out => sent_ok (no_sent out) | None => True end) recs.
Proof.
  induction tr as [|l tr IH]; intros n now Hn Hv.
  - eexists _, _, _. split; [reflexivity|]. split; [exact Hn|constructor].
  - destruct l as [dt|rnd o]; cbn [run_net valid_net_api] in *.
    + destruct (IH _ _ Hn Hv) as [n' [now' [recs [Hr [Hn' Hs]]]]]. rewrite Hr.
      eexists _, _, _. split; [reflexivity|]. split; [exact Hn'|]. constructor; [exact I|exact Hs].
    + destruct Hv as [Hvo Hvr]. destruct (net_step_ok n (mkenv now rnd) o Hn Hvo) as [out [Hs [Hn1 Hso]]].
      rewrite Hs in *. destruct (IH _ _ Hn1 Hvr) as [n' [now' [recs [Hr [Hn' Hsr]]]]]. rewrite Hr.
      eexists _, _, _. split; [reflexivity|]. split; [exact Hn'|]. constructor; [exact Hso|exact Hsr].
Qed.

(* ================= live pids are distinct, in every reachable state ================= *)
Lemma tick_all_pids e : forall ps ps' s, tick_all e ps = Ok (ps', s) -> pids ps' = pids ps.
Proof.
  induction ps as [|[pid p] r IH]; intros ps' s; cbn [tick_all].
  - intros H. injection H as <- _. reflexivity.
  - destruct (step (p_conn p) e OpTick) as [out| | |]; cbn [bind]; try discriminate.
    destruct (tick_all e r) as [[r' s']| | |] eqn:Er; cbn [bind]; try discriminate.
    intros H. injection H as <- _. cbn [pids map fst]. f_equal. exact (IH _ _ eq_refl).
Qed.

Lemma remove_pids ps pid ps' : NoDup (pids ps) -> swap_remove ps pid = Some ps' ->
  NoDup (pids ps') /\ ~ In pid (pids ps') /\ (forall q, In q (pids ps') -> In q (pids ps)).
Proof.
  intros Hnd Hs. destruct (get_peer ps pid) as [p|] eqn:Hg; [|rewrite (swap_remove_None _ _ Hg) in Hs; discriminate].
  destruct (swap_remove_perm ps pid p Hg) as [ps2 [Hs2 Hperm]]. rewrite Hs in Hs2. injection Hs2 as <-.
  pose proof (Permutation_NoDup (Permutation_map fst Hperm) Hnd) as H. cbn [map fst] in H.
  inversion H as [|? ? Hni Hnd']; subst. split; [exact Hnd'|]. split; [exact Hni|].
  intros q Hq. apply (Permutation_in _ (Permutation_sym (Permutation_map fst Hperm))). right. exact Hq.
Qed.

Lemma remove_peer_pids n pid n' : NoDup (pids (n_peers n)) -> remove_peer n pid = Ok n' ->
  NoDup (pids (n_peers n')) /\ pid_live n' pid = false.
Proof.
  intros Hnd Hr. unfold remove_peer in Hr. destruct (swap_remove (n_peers n) pid) as [ps'|] eqn:Es; [|discriminate].
  injection Hr as <-. destruct (remove_pids _ _ _ Hnd Es) as [H1 [H2 _]]. split; [exact H1|].
  unfold pid_live. cbn [n_peers]. apply get_peer_None in H2. rewrite H2. reflexivity.
Qed.

Lemma remove_after_set n pid c n2 : NoDup (pids (n_peers n)) ->
  remove_peer (with_peers n (set_conn (n_peers n) pid c)) pid = Ok n2 ->
  NoDup (pids (n_peers n2)) /\ pid_live n2 pid = false.
Proof.
  intros Hnd Hr.
  assert (H1 : NoDup (pids (n_peers (with_peers n (set_conn (n_peers n) pid c)))))
    by (cbn [with_peers n_peers]; rewrite set_conn_pids; exact Hnd).
  exact (remove_peer_pids _ _ _ H1 Hr).
Qed.

Lemma new_peer_pids n a tok n' pid : NoDup (pids (n_peers n)) -> new_peer n a tok = Ok (n', pid) -> NoDup (pids (n_peers n')).
Proof.
  intros Hnd Hn. destruct (new_peer_inv _ _ _ _ _ Hn) as [Hg [Hps _]]. rewrite Hps. unfold pids. rewrite map_app. cbn [map fst].
  apply (Permutation_NoDup (Permutation_cons_append _ _)). constructor; [apply get_peer_None, Hg|exact Hnd].
Qed.

Theorem step_pids n e o out : NoDup (pids (n_peers n)) -> net_step n e o = Ok out -> NoDup (pids (n_peers (no_net out))).
Proof.
  intros Hnd H. destruct o as [a0 r|a0|pid|pid reason|pid reason|pid|pid d vital|pid|a0 d|]; unfold net_step in H.
  - unfold net_feed in H.
    assert (Hst : forall known, feed_stateless n a0 known r = Ok out -> NoDup (pids (n_peers (no_net out)))).
    { intros known Hf. unfold feed_stateless in Hf.
      destruct (r None) as [dg|]; [|injection Hf as <-; exact Hnd].
      destruct dg as [t1 t2 pl|tok ack ctl|tok ack rr nc cs]; try (injection Hf as <-; exact Hnd).
      destruct ctl; try (injection Hf as <-; exact Hnd).
      destruct known; [injection Hf as <-; exact Hnd|]. destruct (n_accept n); [|injection Hf as <-; exact Hnd].
      destruct (new_peer n a0 (match tok with Some _ => true | None => false end)) as [[n' pid]| | |] eqn:En; cbn [bind] in Hf; try discriminate.
      injection Hf as <-. cbn [no_net nmk]. eapply new_peer_pids; eassumption. }
    destruct (pid_from_addr (n_peers n) a0) as [[pid p]|]; [|apply (Hst false), H].
    destruct (is_unconnected (p_conn p)); [apply (Hst true), H|].
    unfold feed_peer in H. destruct (conn_feed_raw (p_conn p) e r) as [o6| | |]; cbn [bind] in H; try discriminate.
    destruct (existsb is_disconnect (out_events o6)).
    + destruct (remove_peer (with_peers n (set_conn (n_peers n) pid (out_conn o6))) pid) as [n2| | |] eqn:Er; cbn [bind] in H; try discriminate.
      injection H as <-. cbn [no_net nmk]. apply (remove_after_set _ _ _ _ Hnd Er).
    + cbn [bind] in H. injection H as <-. cbn [no_net nmk with_peers n_peers]. rewrite set_conn_pids. exact Hnd.
  - destruct (new_peer n a0 false) as [[n1 pid]| | |] eqn:En; cbn [bind] in H; try discriminate.
    destruct (step conn6_new e OpConnect) as [o6| | |]; cbn [bind] in H; try discriminate.
    injection H as <-. cbn [no_net nmk with_peers n_peers]. rewrite set_conn_pids. eapply new_peer_pids; eassumption.
  - destruct (get_peer (n_peers n) pid) as [p|]; [|discriminate].
    destruct (negb (is_unconnected (p_conn p))); [discriminate|].
    destruct (peer_call n e pid p (OpFeed (canonical_connect (p_token p)))) as [o1| | |] eqn:Ep; cbn [bind] in H; try discriminate.
    destruct (peer_call_inv _ _ _ _ _ _ Ep) as [o6 [_ ->]]. cbn [no_warns no_events nmk] in H.
    destruct (conn_warns (p_addr p) pid (out_warns o6)); [|discriminate].
    destruct (conn_events (p_addr p) pid (out_events o6)); [|discriminate].
    injection H as <-. cbn [no_net nmk with_peers n_peers]. rewrite set_conn_pids. exact Hnd.
  - destruct (get_peer (n_peers n) pid) as [p|]; [|discriminate].
    destruct (negb (is_unconnected (p_conn p))); [discriminate|].
    destruct (existsb (fun b => b =? 0) reason); [discriminate|].
    destruct (MAX_PACKETSIZE <? control_size params6 None (Close reason)); [discriminate|].
    destruct (remove_peer n pid) as [n2| | |] eqn:Er; cbn [bind] in H; try discriminate.
    injection H as <-. apply (remove_peer_pids _ _ _ Hnd Er).
  - destruct (get_peer (n_peers n) pid) as [p|]; [|discriminate].
    destruct (is_unconnected (p_conn p)); [discriminate|].
    destruct (peer_call n e pid p (OpDisconnect reason)) as [o1| | |] eqn:Ep; cbn [bind] in H; try discriminate.
    destruct (peer_call_inv _ _ _ _ _ _ Ep) as [o6 [_ ->]]. cbn [no_net nmk] in H.
    destruct (remove_peer (with_peers n (set_conn (n_peers n) pid (out_conn o6))) pid) as [n2| | |] eqn:Er; cbn [bind] in H; try discriminate.
    injection H as <-. cbn [no_net nmk]. apply (remove_after_set _ _ _ _ Hnd Er).
  - destruct (remove_peer n pid) as [n2| | |] eqn:Er; cbn [bind] in H; try discriminate.
    injection H as <-. apply (remove_peer_pids _ _ _ Hnd Er).
  - destruct (get_peer (n_peers n) pid) as [p|]; [|discriminate].
    destruct (peer_call_inv _ _ _ _ _ _ H) as [o6 [_ ->]]. cbn [no_net nmk with_peers n_peers]. rewrite set_conn_pids. exact Hnd.
  - destruct (get_peer (n_peers n) pid) as [p|]; [|discriminate].
    destruct (peer_call_inv _ _ _ _ _ _ H) as [o6 [_ ->]]. cbn [no_net nmk with_peers n_peers]. rewrite set_conn_pids. exact Hnd.
  - destruct (MAX_PAYLOAD <? Z.of_nat (length d)); injection H as <-; exact Hnd.
  - destruct (tick_all e (n_peers n)) as [[ps' s]| | |] eqn:Et; cbn [bind] in H; try discriminate.
    injection H as <-. cbn [no_net nmk with_peers n_peers]. rewrite (tick_all_pids _ _ _ _ Et). exact Hnd.
Qed.

Theorem run_pids tr : forall n now n' now' recs, NoDup (pids (n_peers n)) ->
  run_net n now tr = Ok (n', now', recs) ->
  NoDup (pids (n_peers n')) /\ Forall (fun r => NoDup (pids (n_peers (nr_post r)))) recs.
Proof.
  induction tr as [|l tr IH]; intros n now n' now' recs Hnd H.
  - cbn [run_net] in H. injection H as <- _ <-. split; [exact Hnd|constructor].
  - destruct l as [dt|rnd o]; cbn [run_net] in H.
    + destruct (run_net n (now + dt) tr) as [[[n1 now1] recs1]| | |] eqn:Er; try discriminate.
      injection H as <- _ <-. destruct (IH _ _ _ _ _ Hnd Er) as [H1 H2]. split; [exact H1|]. constructor; [exact Hnd|exact H2].
    + destruct (net_step n (mkenv now rnd) o) as [out| | |] eqn:Es; try discriminate.
      destruct (run_net (no_net out) now tr) as [[[n1 now1] recs1]| | |] eqn:Er; try discriminate.
      injection H as <- _ <-. pose proof (step_pids _ _ _ _ Hnd Es) as Hnd1.
      destruct (IH _ _ _ _ _ Hnd1 Er) as [H1 H2]. split; [exact H1|]. constructor; [exact Hnd1|exact H2].
Qed.

(* ================= a peer is gone after it was disconnected by either side ================= *)
Theorem gone_after_call n e o out pid : NoDup (pids (n_peers n)) -> net_step n e o = Ok out ->
  (exists r, o = NDisconnect pid r) \/ (exists r, o = NReject pid r) \/ o = NIgnore pid ->
  pid_live (no_net out) pid = false.
Proof.
  intros Hnd H [[r ->]|[[r ->]| ->]]; unfold net_step in H.
  - destruct (get_peer (n_peers n) pid) as [p|]; [|discriminate].
    destruct (is_unconnected (p_conn p)); [discriminate|].
    destruct (peer_call n e pid p (OpDisconnect r)) as [o1| | |] eqn:Ep; cbn [bind] in H; try discriminate.
    destruct (peer_call_inv _ _ _ _ _ _ Ep) as [o6 [_ ->]]. cbn [no_net nmk] in H.
    destruct (remove_peer (with_peers n (set_conn (n_peers n) pid (out_conn o6))) pid) as [n2| | |] eqn:Er; cbn [bind] in H; try discriminate.
    injection H as <-. cbn [no_net nmk]. apply (remove_after_set _ _ _ _ Hnd Er).
  - destruct (get_peer (n_peers n) pid) as [p|]; [|discriminate].
    destruct (negb (is_unconnected (p_conn p))); [discriminate|].
    destruct (existsb (fun b => b =? 0) r); [discriminate|].
    destruct (MAX_PACKETSIZE <? control_size params6 None (Close r)); [discriminate|].
    destruct (remove_peer n pid) as [n2| | |] eqn:Er; cbn [bind] in H; try discriminate.
    injection H as <-. apply (remove_peer_pids _ _ _ Hnd Er).
  - destruct (remove_peer n pid) as [n2| | |] eqn:Er; cbn [bind] in H; try discriminate.
    injection H as <-. apply (remove_peer_pids _ _ _ Hnd Er).
Qed.

(* a Disconnect event (the peer's Close) names a pid that is gone when the call returns *)
Theorem gone_after_close n e a r out pid reason : NoDup (pids (n_peers n)) -> net_step n e (NFeed a r) = Ok out ->
  In {| ne_addr := a; ne_pid := Some pid; ne_kind := NKConn (EvDisconnect reason) |} (no_events out) ->
  pid_live (no_net out) pid = false.
Proof.
  intros Hnd H Hin. unfold net_step, net_feed in H.
  assert (Hst : forall known, feed_stateless n a known r = Ok out -> False).
  { intros known Hf. unfold feed_stateless in Hf.
    destruct (r None) as [dg|]; [|injection Hf as <-; exact Hin].
    destruct dg as [t1 t2 pl|tok ack ctl|tok ack rr nc cs]; try (injection Hf as <-; destruct Hin as [Hin|[]]; discriminate); try (injection Hf as <-; exact Hin).
    destruct ctl; try (injection Hf as <-; exact Hin).
    destruct known; [injection Hf as <-; exact Hin|]. destruct (n_accept n); [|injection Hf as <-; exact Hin].
    destruct (new_peer n a (match tok with Some _ => true | None => false end)) as [[n' q]| | |]; cbn [bind] in Hf; try discriminate.
    injection Hf as <-. destruct Hin as [Hin|[]]. discriminate. }
  destruct (pid_from_addr (n_peers n) a) as [[q p]|]; [|exfalso; apply (Hst false), H].
  destruct (is_unconnected (p_conn p)); [exfalso; apply (Hst true), H|].
  unfold feed_peer in H. destruct (conn_feed_raw (p_conn p) e r) as [o6| | |]; cbn [bind] in H; try discriminate.
  assert (Hq : q = pid /\ existsb is_disconnect (out_events o6) = true).
  { destruct (existsb is_disconnect (out_events o6)) eqn:Ed.
    - destruct (remove_peer (with_peers n (set_conn (n_peers n) q (out_conn o6))) q) as [n2| | |]; cbn [bind] in H; try discriminate.
      injection H as <-. cbn [no_events nmk] in Hin. unfold conn_events in Hin. apply in_map_iff in Hin as [ev [Hev _]].
      injection Hev as -> _. split; reflexivity.
    - cbn [bind] in H. injection H as <-. cbn [no_events nmk] in Hin. unfold conn_events in Hin. apply in_map_iff in Hin as [ev [Hev Hin]].
      injection Hev as _ ->. exfalso. assert (existsb is_disconnect (out_events o6) = true) by (apply existsb_exists; eexists; split; [exact Hin|reflexivity]). congruence. }
  destruct Hq as [-> Ed]. rewrite Ed in H.
  destruct (remove_peer (with_peers n (set_conn (n_peers n) pid (out_conn o6))) pid) as [n2| | |] eqn:Er; cbn [bind] in H; try discriminate.
  injection H as <-. cbn [no_net nmk]. apply (remove_after_set _ _ _ _ Hnd Er).
Qed.

(* ================= datagrams from addresses without a peer ================= *)
Definition is_connect (r : raw) : option bool :=        (* Some (token support announced?) *)
  match r None with
  | Some (DControl tok _ (Connect _)) => Some (match tok with Some _ => true | None => false end)
  | _ => None
  end.

Theorem unknown_addr n e a r out : view n a = None -> net_step n e (NFeed a r) = Ok out ->
  match is_connect r, n_accept n with
  | Some tok, true =>
    (* exactly one new peer: pending (its connection is untouched), under an unused pid, announced once *)
    exists pid, get_peer (n_peers n) pid = None /\
      n_peers (no_net out) = n_peers n ++ [(pid, peer_new a tok)] /\
      no_events out = [{| ne_addr := a; ne_pid := Some pid; ne_kind := NKConnect |}] /\ no_sent out = []
  | _, _ =>
    n_peers (no_net out) = n_peers n /\ no_sent out = [] /\
    forall ev, In ev (no_events out) -> exists payload, ev = {| ne_addr := a; ne_pid := None; ne_kind := NKConn (EvConnless payload) |}
  end.
Proof.
  intros Hv H. unfold net_step, net_feed in H. unfold view, view_tab in Hv.
  destruct (pid_from_addr (n_peers n) a) as [[q p]|]; [discriminate|].
  unfold feed_stateless in H. unfold is_connect.
  destruct (r None) as [dg|]; [|injection H as <-; destruct (n_accept n); cbn; repeat split; intros ev []].
  destruct dg as [t1 t2 pl|tok ack ctl|tok ack rr nc cs].
  - injection H as <-. cbn. repeat split. intros ev [<-|[]]. eexists; reflexivity.
  - destruct ctl as [|resp| | |reason|resp]; try (injection H as <-; cbn; repeat split; intros ev []).
    destruct (n_accept n); [|injection H as <-; cbn; repeat split; intros ev []].
    destruct (new_peer n a (match tok with Some _ => true | None => false end)) as [[n' pid]| | |] eqn:En; cbn [bind] in H; try discriminate.
    injection H as <-. destruct (new_peer_inv _ _ _ _ _ En) as [Hg [Hps _]]. exists pid. cbn. repeat split; assumption.
  - injection H as <-. cbn. repeat split; intros ev [].
Qed.

(* ================= the endpoint's deadline is the minimum of the per-address deadlines ================= *)
Theorem needs_tick_min ps : NoDup (addrs ps) ->
  table_needs_tick ps = fold_right tmin None (map (fun a => slot_tick (view_tab ps a)) (addrs ps)).
Proof.
  induction ps as [|[pid p] r IH]; intros Hnd; [reflexivity|].
  cbn [addrs map snd] in Hnd. inversion Hnd as [|? ? Hni Hnd']; subst.
  cbn [table_needs_tick addrs map snd fold_right]. f_equal.
  - unfold view_tab. cbn [pid_from_addr]. rewrite Z.eqb_refl. reflexivity.
  - rewrite (IH Hnd'). f_equal. apply map_ext_in. intros a Ha.
    unfold view_tab at 2. cbn [pid_from_addr]. destruct (p_addr p =? a) eqn:E; [|reflexivity].
    apply Z.eqb_eq in E. subst a. contradiction.
Qed.

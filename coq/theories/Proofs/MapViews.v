(* The generic item views of the map reader: from_slice_rest over the translated table
   never panics and hands out exactly mi_len words; get_index* stay inside their range. *)
From LibTw2 Require Import Base.Res Model.Datafile Model.MapReader
  Proofs.DatafileBase Proofs.DatafileParse Proofs.DatafileCheck.
From Coq Require Import ZArith List Lia Bool.
Import ListNotations.
Open Scope Z_scope.

(* every struct of the translated table has a non-negative offset and length *)
Definition mi_ok (mi : map_item) : Prop := 0 <= mi_offset mi /\ 0 <= mi_len mi.

Lemma all_map_items_ok : Forall mi_ok all_map_items.
Proof. repeat constructor; cbn; lia. Qed.

Lemma all_i32_firstn n ws : all_i32 ws -> all_i32 (firstn n ws).
Proof. intros H. unfold all_i32 in *. rewrite <- (firstn_skipn n ws) in H. apply Forall_app in H. tauto. Qed.
Lemma all_i32_skipn n ws : all_i32 ws -> all_i32 (skipn n ws).
Proof. intros H. unfold all_i32 in *. rewrite <- (firstn_skipn n ws) in H. apply Forall_app in H. tauto. Qed.

Section Views.
Context {E : Type}.

Definition view_ok (mi : map_item) (item : list Z) : Prop := zlen item = mi_len mi /\ all_i32 item.

Lemma from_slice_rest_spec mi s : mi_ok mi -> all_i32 s ->
  ok_with (@from_slice_rest E mi s)
    (fun f => match f with
              | FsSome item rest => view_ok mi item /\ all_i32 rest
              | FsNone => mi_ignore_version mi = false /\ 0 < zlen s
              | FsTooShort => True
              end).
Proof.
  intros [Ho Hl] Hs. unfold from_slice_rest. pose proof (zlen_nonneg s) as Hn.
  assert (Hearly : ok_with (if mi_ignore_version mi then Ok 0
                            else if zlen s =? 0 then Ok 1
                            else let* v0 := index s 0 site_map_index0 in Ok (if v0 <? mi_version mi then 2 else 0) : res E Z)
                     (fun e => (e = 0 \/ e = 1 \/ e = 2) /\ (e = 2 -> mi_ignore_version mi = false /\ 0 < zlen s))).
  { destruct (mi_ignore_version mi); [cbn; split; [auto|intros; discriminate]|].
    destruct (zlen s =? 0) eqn:E0; [cbn; split; [auto|intros; discriminate]|]. apply Z.eqb_neq in E0.
    destruct (index_ok (EE := E) s 0 site_map_index0) as (v0 & Hidx & _); [lia|]. rewrite Hidx. cbn [bind].
    destruct (v0 <? mi_version mi); cbn; split; auto; intros; try discriminate. split; [reflexivity|lia]. }
  eapply ok_with_bind; [exact Hearly|]. intros e _ [He He2].
  destruct (e =? 1) eqn:E1; [exact I|]. destruct (e =? 2) eqn:E2; [apply Z.eqb_eq in E2; cbn; auto|].
  destruct (zlen s <? mi_offset mi + mi_len mi) eqn:E3; [exact I|]. apply Z.ltb_ge in E3.
  rewrite slice_from_ok by lia. cbn [bind].
  assert (Hlen : zlen (skipn (Z.to_nat (mi_offset mi)) s) = zlen s - mi_offset mi).
  { rewrite zlen_skipn by (unfold zlen in *; lia). lia. }
  destruct (zlen (skipn (Z.to_nat (mi_offset mi)) s) <? mi_len mi) eqn:E4; [apply Z.ltb_lt in E4; lia|].
  assert (Hitem : zlen (firstn (Z.to_nat (mi_len mi)) (skipn (Z.to_nat (mi_offset mi)) s)) = mi_len mi).
  { rewrite zlen_firstn by (unfold zlen in *; lia). lia. }
  rewrite Hitem, Z.eqb_refl. cbn [negb ok_with]. split; [split; [exact Hitem|]|].
  - apply all_i32_firstn, all_i32_skipn, Hs.
  - apply all_i32_skipn, all_i32_skipn, Hs.
Qed.

Lemma optional_spec mi s ts : mi_ok mi -> all_i32 s ->
  ok_with (@optional E mi s ts)
    (fun o => match o with Some item => view_ok mi item | None => mi_ignore_version mi = false /\ 0 < zlen s end).
Proof.
  intros Hmi Hs. unfold optional. eapply ok_with_bind; [apply from_slice_rest_spec; assumption|].
  intros f _ Hf. destruct f; cbn; auto. tauto.
Qed.

Lemma mandatory_spec mi s ts iv : mi_ok mi -> all_i32 s -> ok_with (@mandatory E mi s ts iv) (view_ok mi).
Proof.
  intros Hmi Hs. unfold mandatory. eapply ok_with_bind; [apply optional_spec; assumption|].
  intros o _ Ho. destruct o; [exact Ho|]. destruct Ho as [_ Hn].
  destruct (index_ok (EE := E) s 0 site_map_index0) as (v0 & Hidx & _); [lia|]. rewrite Hidx. exact I.
Qed.

Lemma mandatory_rest_unreachable_spec mi s ts : mi_ok mi -> all_i32 s -> mi_ignore_version mi = true ->
  ok_with (@mandatory_rest_unreachable E mi s ts) (fun p => view_ok mi (fst p) /\ all_i32 (snd p)).
Proof.
  intros Hmi Hs Hig. unfold mandatory_rest_unreachable. eapply ok_with_bind; [apply from_slice_rest_spec; assumption|].
  intros f _ Hf. destruct f; cbn; auto. destruct Hf as [Hf _]. congruence.
Qed.

Lemma fld_spec item k : 0 <= k < zlen item -> all_i32 item ->
  ok_with (@fld E item k) (fun x => -2147483648 <= x <= 2147483647).
Proof.
  intros Hk Hi. unfold fld. destruct (index_ok (EE := E) item k site_map_field Hk) as (x & Hidx & Hz).
  rewrite Hidx. cbn. eapply all_i32_znth; eauto. lia.
Qed.

(* ranges handed to get_index: item type ranges and 0..num_data *)
Definition range_ok (rg : Z * Z) : Prop := 0 <= fst rg <= snd rg /\ snd rg <= 2147483647.

Lemma get_index_impl_spec idx rg : -2147483648 <= idx <= 2147483647 -> range_ok rg ->
  ok_with (@get_index_impl E idx rg) (fun o => match o with Some i => fst rg <= i < snd rg | None => True end).
Proof.
  intros Hi [Hr1 Hr2]. unfold get_index_impl. destruct (idx <? 0) eqn:E0; [exact I|]. apply Z.ltb_ge in E0.
  unfold musize_add. cbv zeta. destruct (idx + fst rg <? two64) eqn:E1; [|apply Z.ltb_ge in E1; unfold two64 in E1; lia].
  cbn [bind]. destruct (idx + fst rg <? snd rg) eqn:E2; cbn; [apply Z.ltb_lt in E2; lia|exact I].
Qed.

Lemma get_index_spec idx rg inv : -2147483648 <= idx <= 2147483647 -> range_ok rg ->
  ok_with (@get_index E idx rg inv) (fun i => fst rg <= i < snd rg).
Proof.
  intros Hi Hr. unfold get_index. eapply ok_with_bind; [apply get_index_impl_spec; assumption|].
  intros o _ Ho. destruct o; cbn; auto.
Qed.

Lemma get_index_opt_spec idx rg inv : -2147483648 <= idx <= 2147483647 -> range_ok rg ->
  ok_with (@get_index_opt E idx rg inv) (fun o => match o with Some i => fst rg <= i < snd rg | None => True end).
Proof.
  intros Hi Hr. unfold get_index_opt. destruct (idx =? -1); [exact I|].
  eapply ok_with_bind; [apply get_index_impl_spec; assumption|].
  intros o _ Ho. destruct o; cbn; auto.
Qed.

Lemma musize_add_spec a b : 0 <= a <= 4294967296 -> 0 <= b <= 4294967296 ->
  @musize_add E a b = Ok (a + b).
Proof.
  intros Ha Hb. unfold musize_add. cbv zeta. destruct (a + b <? two64) eqn:E1; [reflexivity|].
  apply Z.ltb_ge in E1. unfold two64 in E1. lia.
Qed.
End Views.

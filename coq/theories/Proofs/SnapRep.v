(* The representation invariant of RawSnap: the ranges of the key map tile the flat
   buffer.  `rep S ch` says that S stores the items `ch` (key, data) - listed in the
   order their storage lies in buf, i.e. insertion order - and every operation of the
   model is specified in terms of `ch`. *)
From LibTw2 Require Import Base.Res Model.Varint Model.Snap Proofs.SnapBase.
From Coq Require Import ZArith List Lia Bool Permutation.
Import ListNotations.
Open Scope Z_scope.

Definition items := list (Z * list Z).

Definition flat (ch : items) : list Z := flat_map snd ch.

Fixpoint ranges_of (pos : nat) (ch : items) : list (Z * range) :=
  match ch with
  | [] => []
  | (k, d) :: t => (k, (pos, (pos + length d)%nat)) :: ranges_of (pos + length d)%nat t
  end.

Record rep (S : rawsnap) (ch : items) : Prop := {
  rep_buf : rs_buf S = flat ch;
  rep_offs : Permutation (rs_offs S) (ranges_of 0 ch);
  rep_sorted : sortedb (map fst (rs_offs S)) = true
}.

(* ---------- flat / ranges_of ---------- *)
Lemma flat_app a b : flat (a ++ b) = flat a ++ flat b.
Proof. unfold flat. apply flat_map_app. Qed.

Lemma ranges_of_keys ch : forall p, map fst (ranges_of p ch) = map fst ch.
Proof. induction ch as [|[k d] t IH]; intros p; cbn [ranges_of map fst]; [reflexivity|]. f_equal. apply IH. Qed.

Lemma ranges_of_app a : forall b p,
  ranges_of p (a ++ b) = ranges_of p a ++ ranges_of (p + length (flat a))%nat b.
Proof.
  induction a as [|[k d] a IH]; intros b p; cbn [app ranges_of flat flat_map snd length].
  - rewrite Nat.add_0_r. reflexivity.
  - f_equal. rewrite IH. f_equal. f_equal. rewrite app_length. fold (flat a). lia.
Qed.

Lemma ranges_of_length ch : forall p, length (ranges_of p ch) = length ch.
Proof. induction ch as [|[k d] t IH]; intros p; cbn [ranges_of length]; [reflexivity|]. f_equal. apply IH. Qed.

Lemma in_ranges_split k r ch : forall p, In (k, r) (ranges_of p ch) ->
  exists pre d post, ch = pre ++ (k, d) :: post
    /\ r = ((p + length (flat pre))%nat, (p + length (flat pre) + length d)%nat).
Proof.
  induction ch as [|[k' d'] t IH]; intros p Hin; [destruct Hin|].
  cbn [ranges_of] in Hin. destruct Hin as [E|Hin].
  - injection E as -> <-. exists [], d', t. split; [reflexivity|]. cbn. f_equal; lia.
  - destruct (IH _ Hin) as (pre & d & post & -> & ->).
    exists ((k', d') :: pre), d, post. split; [reflexivity|].
    cbn [flat flat_map snd]. rewrite app_length. fold (flat pre). f_equal; lia.
Qed.

Lemma slice_mid {E} (pre d post : list Z) :
  @slice E (pre ++ d ++ post) (length pre, (length pre + length d)%nat) = Ok d.
Proof.
  unfold slice. cbn [fst snd].
  replace ((length pre <=? length pre + length d)%nat) with true by (symmetry; apply Nat.leb_le; lia).
  replace ((length pre + length d <=? length (pre ++ d ++ post))%nat) with true
    by (symmetry; apply Nat.leb_le; rewrite !app_length; lia).
  cbn [andb]. replace (length pre + length d - length pre)%nat with (length d) by lia.
  rewrite firstn_skipn_app_mid. reflexivity.
Qed.

Lemma slice_ok_length {E} buf r d : @slice E buf r = Ok d -> length d = range_len r.
Proof.
  unfold slice, range_len. destruct ((fst r <=? snd r)%nat && (snd r <=? length buf)%nat) eqn:C; [|discriminate].
  intros [= <-]. apply andb_true_iff in C. destruct C as [C1 C2]. apply Nat.leb_le in C1, C2.
  rewrite firstn_length, skipn_length. lia.
Qed.

(* ---------- what rep says about lookups ---------- *)
Lemma rep_keys S ch : rep S ch -> Permutation (map fst (rs_offs S)) (map fst ch).
Proof. intros [_ Hp _]. rewrite <- (ranges_of_keys ch 0%nat). apply Permutation_map, Hp. Qed.

Lemma rep_nodup_offs S ch : rep S ch -> NoDup (map fst (rs_offs S)).
Proof. intros H. apply sortedb_nodup, (rep_sorted _ _ H). Qed.

Lemma rep_nodup S ch : rep S ch -> NoDup (map fst ch).
Proof. intros H. eapply Permutation_NoDup; [apply rep_keys, H|apply rep_nodup_offs with ch, H]. Qed.

Lemma aget_mid {V} k (d : V) pre post :
  ~ In k (map fst pre) -> aget k (pre ++ (k, d) :: post) = Some d.
Proof.
  induction pre as [|[k' v'] pre IH]; intros Hni; cbn [app aget]; [rewrite Z.eqb_refl; reflexivity|].
  destruct (Z.eqb_spec k k'); [exfalso; apply Hni; left; subst; reflexivity|].
  apply IH. intros Hin. apply Hni. right. exact Hin.
Qed.

Lemma nodup_mid {V} (k : Z) (d : V) pre post :
  NoDup (map fst (pre ++ (k, d) :: post)) -> ~ In k (map fst pre) /\ ~ In k (map fst post).
Proof.
  rewrite map_app. cbn [map fst]. intros H. apply NoDup_remove_2 in H.
  split; intros Hin; apply H, in_or_app; [left|right]; exact Hin.
Qed.

(* a key of the map: its range holds exactly its data *)
Lemma rep_get S ch k r : rep S ch -> aget k (rs_offs S) = Some r ->
  exists pre d post, ch = pre ++ (k, d) :: post /\ aget k ch = Some d
    /\ r = (length (flat pre), (length (flat pre) + length d)%nat)
    /\ (forall E, @slice E (rs_buf S) r = Ok d).
Proof.
  intros H Hg. apply aget_in in Hg.
  apply (Permutation_in _ (rep_offs _ _ H)) in Hg.
  destruct (in_ranges_split _ _ _ _ Hg) as (pre & d & post & Hch & Hr).
  exists pre, d, post. split; [exact Hch|].
  pose proof (rep_nodup _ _ H) as Hnd. rewrite Hch in Hnd. destruct (nodup_mid _ _ _ _ Hnd) as [Hpre _].
  split; [rewrite Hch; apply aget_mid, Hpre|]. cbn [Nat.add] in Hr. split; [exact Hr|].
  intros E. rewrite (rep_buf _ _ H), Hch, flat_app, Hr. cbn [flat flat_map snd]. fold (flat post).
  apply slice_mid.
Qed.

Lemma rep_get_none S ch k : rep S ch -> (aget k (rs_offs S) = None <-> aget k ch = None).
Proof.
  intros H. rewrite !aget_none. pose proof (rep_keys _ _ H) as Hp. split; intros Hn Hin; apply Hn.
  - eapply Permutation_in; [apply Permutation_sym, Hp|exact Hin].
  - eapply Permutation_in; [apply Hp|exact Hin].
Qed.

Lemma rep_get_some S ch k d : rep S ch -> aget k ch = Some d ->
  exists r, aget k (rs_offs S) = Some r /\ range_len r = length d /\ (forall E, @slice E (rs_buf S) r = Ok d).
Proof.
  intros H Hd. destruct (aget k (rs_offs S)) as [r|] eqn:Hr.
  - destruct (rep_get _ _ _ _ H Hr) as (pre & d' & post & _ & Hd' & -> & Hs).
    rewrite Hd in Hd'. injection Hd' as <-. exists (length (flat pre), (length (flat pre) + length d)%nat).
    split; [reflexivity|]. split; [unfold range_len; cbn; lia|exact Hs].
  - apply (rep_get_none _ _ _ H) in Hr. congruence.
Qed.

Lemma raw_item_rep {E} S ch ty id : rep S ch -> @raw_item E S ty id = Ok (aget (key ty id) ch).
Proof.
  intros H. unfold raw_item. destruct (aget (key ty id) (rs_offs S)) as [r|] eqn:Hr.
  - destruct (rep_get _ _ _ _ H Hr) as (pre & d & post & _ & Hd & _ & Hs). rewrite Hs, Hd. reflexivity.
  - apply (rep_get_none _ _ _ H) in Hr. rewrite Hr. reflexivity.
Qed.

(* the items in key order *)
Definition data_of (ch : items) (k : Z) : list Z := match aget k ch with Some d => d | None => [] end.
Definition view (S : rawsnap) (ch : items) : items := map (fun kr => (fst kr, data_of ch (fst kr))) (rs_offs S).

Lemma items_of_rep {E} S ch : rep S ch -> forall l, incl l (rs_offs S) ->
  @items_of E (rs_buf S) l = Ok (map (fun kr => (fst kr, data_of ch (fst kr))) l).
Proof.
  intros H l. induction l as [|[k r] l IH]; intros Hincl; [reflexivity|].
  cbn [items_of map fst].
  assert (Hg : aget k (rs_offs S) = Some r).
  { apply in_aget; [apply rep_nodup_offs with ch, H|apply Hincl; left; reflexivity]. }
  destruct (rep_get _ _ _ _ H Hg) as (pre & d & post & _ & Hd & _ & Hs).
  rewrite Hs. cbn [bind]. rewrite IH by (intros x Hx; apply Hincl; right; exact Hx). cbn [bind].
  unfold data_of. rewrite Hd. reflexivity.
Qed.

Lemma raw_items_rep {E} S ch : rep S ch -> @raw_items E S = Ok (view S ch).
Proof. intros H. apply (items_of_rep S ch H). apply incl_refl. Qed.

Lemma view_keys S ch : map fst (view S ch) = map fst (rs_offs S).
Proof. unfold view. rewrite map_map. reflexivity. Qed.

Lemma aget_view S ch k : rep S ch -> aget k (view S ch) = aget k ch.
Proof.
  intros H. unfold view.
  assert (G : forall l, (forall k', In k' (map fst l) -> aget k' ch <> None) ->
          aget k (map (fun kr : Z * range => (fst kr, data_of ch (fst kr))) l)
          = if existsb (fun kr => k =? fst kr) l then aget k ch else None).
  { induction l as [|[k' r] l IH]; intros Hall; [reflexivity|]. cbn [map aget existsb fst].
    destruct (Z.eqb_spec k k').
    - subst k'. cbn [orb]. unfold data_of. destruct (aget k ch) eqn:E; [reflexivity|].
      exfalso. apply (Hall k); [left; reflexivity|exact E].
    - cbn [orb]. apply IH. intros k0 H0. apply Hall. right. exact H0. }
  rewrite G.
  - destruct (existsb (fun kr => k =? fst kr) (rs_offs S)) eqn:Ex; [reflexivity|].
    symmetry. apply (rep_get_none _ _ _ H). apply aget_none. intros Hin.
    apply in_map_iff in Hin. destruct Hin as [[k' r] [Hk Hin]]. cbn in Hk. subst k'.
    assert (existsb (fun kr : Z * range => k =? fst kr) (rs_offs S) = true).
    { apply existsb_exists. exists (k, r). split; [exact Hin|cbn; apply Z.eqb_refl]. }
    congruence.
  - intros k' Hin Hn. apply (rep_get_none _ _ _ H) in Hn. apply aget_none in Hn. contradiction.
Qed.

(* crc only depends on the multiset of items *)
Lemma zsum_flat_perm a b : Permutation a b -> zsum (flat a) = zsum (flat b).
Proof.
  induction 1 as [|x a b _ IH|x y a|a b c _ IH1 _ IH2]; [reflexivity| | |congruence].
  - cbn [flat flat_map]. fold (flat a) (flat b). rewrite !zsum_app. lia.
  - cbn [flat flat_map]. fold (flat a). rewrite !zsum_app. lia.
Qed.

(* ---------- empty ---------- *)
Lemma rep_empty : rep raw_empty [].
Proof. split; [reflexivity|apply Permutation_refl|reflexivity]. Qed.

(* ---------- add_item, in closed form ---------- *)
Lemma write_range_fresh {E} (buf data : list Z) n : length data = n ->
  @write_range E (buf ++ repeat 0%Z n) (length buf, (length buf + n)%nat) data = Ok (buf ++ data).
Proof.
  intros Hl. unfold write_range, range_len. cbn [fst snd].
  replace ((length buf <=? length buf + n)%nat) with true by (symmetry; apply Nat.leb_le; lia).
  replace ((length buf + n <=? length (buf ++ repeat 0%Z n))%nat) with true
    by (symmetry; apply Nat.leb_le; rewrite app_length, repeat_length; lia).
  cbn [andb]. replace ((length buf + n - length buf =? length data)%nat) with true
    by (symmetry; apply Nat.eqb_eq; lia).
  rewrite firstn_app, firstn_all, Nat.sub_diag. cbn [firstn]. rewrite app_nil_r.
  rewrite skipn_all2 by (rewrite app_length, repeat_length; lia). rewrite app_nil_r. reflexivity.
Qed.

Definition fits (S : rawsnap) (size : nat) : bool :=
  negb (MAX_SNAPSHOT_ITEMS <? Z.of_nat (length (rs_offs S)) + 1)
  && negb (MAX_SNAPSHOT_SIZE <? ser_size (Z.of_nat (length (rs_offs S)) + 1)
                                         (Z.of_nat (length (rs_buf S)) + Z.of_nat size)).

Definition pushed (S : rawsnap) (k : Z) (data : list Z) : rawsnap :=
  {| rs_offs := ains k (length (rs_buf S), (length (rs_buf S) + length data)%nat) (rs_offs S);
     rs_buf := rs_buf S ++ data |}.

Lemma add_item_eq S ty id data : add_item S ty id data =
  match aget (key ty id) (rs_offs S) with
  | Some _ => Err BDuplicateKey
  | None =>
    if MAX_SNAPSHOT_ITEMS <? Z.of_nat (length (rs_offs S)) + 1 then Err BTooManyItems
    else if MAX_SNAPSHOT_SIZE <? ser_size (Z.of_nat (length (rs_offs S)) + 1)
                                          (Z.of_nat (length (rs_buf S)) + Z.of_nat (length data))
    then Err BTooLongSnap
    else Ok (pushed S (key ty id) data)
  end.
Proof.
  unfold add_item, prepare_vacant. destruct (aget (key ty id) (rs_offs S)); [reflexivity|].
  destruct (MAX_SNAPSHOT_ITEMS <? _); [reflexivity|].
  destruct (MAX_SNAPSHOT_SIZE <? _); [reflexivity|].
  cbn [bind rs_buf rs_offs]. rewrite write_range_fresh by reflexivity. reflexivity.
Qed.

Lemma rep_pushed S ch k data : rep S ch -> aget k (rs_offs S) = None ->
  rep (pushed S k data) (ch ++ [(k, data)]).
Proof.
  intros H Hn. split; cbn [pushed rs_buf rs_offs].
  - rewrite (rep_buf _ _ H), flat_app. cbn. rewrite app_nil_r. reflexivity.
  - rewrite ranges_of_app. cbn [ranges_of Nat.add]. rewrite <- (rep_buf _ _ H).
    eapply Permutation_trans; [apply ains_perm, Hn|].
    eapply Permutation_trans; [apply perm_skip, (rep_offs _ _ H)|]. apply Permutation_cons_append.
  - apply ains_sorted, (rep_sorted _ _ H).
Qed.

Lemma pushed_length S k data : aget k (rs_offs S) = None ->
  length (rs_offs (pushed S k data)) = Datatypes.S (length (rs_offs S))
  /\ length (rs_buf (pushed S k data)) = (length (rs_buf S) + length data)%nat.
Proof. intros H. cbn [pushed rs_offs rs_buf]. rewrite app_length. split; [apply ains_length_new, H|reflexivity]. Qed.

(* ---------- overwriting the data of a present key (same length) ---------- *)
Definition aset (k : Z) (d : list Z) (ch : items) : items :=
  map (fun kd => if fst kd =? k then (k, d) else kd) ch.

Lemma aset_notin k d ch : ~ In k (map fst ch) -> aset k d ch = ch.
Proof.
  induction ch as [|[k' d'] ch IH]; intros Hni; [reflexivity|]. cbn [aset map fst].
  destruct (Z.eqb_spec k' k); [exfalso; apply Hni; left; cbn; auto|].
  f_equal. apply IH. intros Hin. apply Hni. right. exact Hin.
Qed.

Lemma aset_mid k d d0 pre post : ~ In k (map fst pre) -> ~ In k (map fst post) ->
  aset k d (pre ++ (k, d0) :: post) = pre ++ (k, d) :: post.
Proof.
  intros Hpre Hpost. unfold aset. rewrite map_app. cbn [map fst]. rewrite Z.eqb_refl.
  fold (aset k d pre) (aset k d post). rewrite !aset_notin by assumption. reflexivity.
Qed.

Lemma aset_keys k d ch : map fst (aset k d ch) = map fst ch.
Proof.
  unfold aset. rewrite map_map. apply map_ext_in. intros [k' d'] _. cbn [fst].
  destruct (Z.eqb_spec k' k); [subst; reflexivity|reflexivity].
Qed.

Lemma aget_aset_same k d ch : In k (map fst ch) -> aget k (aset k d ch) = Some d.
Proof.
  induction ch as [|[k' d'] ch IH]; intros Hin; [destruct Hin|]. cbn [aset map fst aget].
  destruct (Z.eqb_spec k' k).
  - subst. cbn [aget fst]. rewrite Z.eqb_refl. reflexivity.
  - cbn [aget]. destruct (Z.eqb_spec k k'); [congruence|]. apply IH. destruct Hin as [E|Hin]; [cbn in E; congruence|exact Hin].
Qed.

Lemma aget_aset_other k k0 d ch : k <> k0 -> aget k (aset k0 d ch) = aget k ch.
Proof.
  intros Hne. induction ch as [|[k' d'] ch IH]; [reflexivity|]. cbn [aset map fst aget].
  destruct (Z.eqb_spec k' k0).
  - subst. cbn [aget]. destruct (Z.eqb_spec k k0); [contradiction|exact IH].
  - cbn [aget]. destruct (Z.eqb_spec k k'); [reflexivity|exact IH].
Qed.

Lemma ranges_of_same_len k d d0 pre post p : length d = length d0 ->
  ranges_of p (pre ++ (k, d) :: post) = ranges_of p (pre ++ (k, d0) :: post).
Proof. intros Hl. rewrite !ranges_of_app. cbn [ranges_of]. rewrite Hl. reflexivity. Qed.

Lemma write_range_mid {E} (pre d0 post d : list Z) : length d = length d0 ->
  @write_range E (pre ++ d0 ++ post) (length pre, (length pre + length d0)%nat) d = Ok (pre ++ d ++ post).
Proof.
  intros Hl. unfold write_range, range_len. cbn [fst snd].
  replace ((length pre <=? length pre + length d0)%nat) with true by (symmetry; apply Nat.leb_le; lia).
  replace ((length pre + length d0 <=? length (pre ++ d0 ++ post))%nat) with true
    by (symmetry; apply Nat.leb_le; rewrite !app_length; lia).
  cbn [andb]. replace ((length pre + length d0 - length pre =? length d)%nat) with true
    by (symmetry; apply Nat.eqb_eq; lia).
  rewrite firstn_app, firstn_all, Nat.sub_diag. cbn [firstn]. rewrite app_nil_r.
  rewrite skipn_app, skipn_all2 by lia. cbn [app].
  replace (length pre + length d0 - length pre)%nat with (length d0) by lia.
  rewrite skipn_app, skipn_all, Nat.sub_diag. cbn [skipn app]. reflexivity.
Qed.

Lemma rep_write S ch k r d : rep S ch -> aget k (rs_offs S) = Some r -> length d = range_len r ->
  exists buf', (forall E, @write_range E (rs_buf S) r d = Ok buf')
    /\ rep {| rs_offs := rs_offs S; rs_buf := buf' |} (aset k d ch).
Proof.
  intros H Hg Hl. destruct (rep_get _ _ _ _ H Hg) as (pre & d0 & post & Hch & _ & Hr & _).
  pose proof (rep_nodup _ _ H) as Hnd. rewrite Hch in Hnd. destruct (nodup_mid _ _ _ _ Hnd) as [Hpre Hpost].
  assert (Hl' : length d = length d0) by (rewrite Hl, Hr; unfold range_len; cbn; lia).
  exists (flat pre ++ d ++ flat post). split.
  - intros E. rewrite (rep_buf _ _ H), Hch, flat_app, Hr. cbn [flat flat_map snd]. fold (flat post).
    apply write_range_mid, Hl'.
  - rewrite Hch, aset_mid by assumption. split; cbn [rs_buf rs_offs].
    + rewrite flat_app. reflexivity.
    + rewrite (ranges_of_same_len k d d0) by exact Hl'. rewrite <- Hch. apply (rep_offs _ _ H).
    + apply (rep_sorted _ _ H).
Qed.

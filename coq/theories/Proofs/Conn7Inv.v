(* 0.7: the same invariant theorems as Conn6Inv.v for net/src/connection7.rs. *)
From LibTw2 Require Import Base.Res Model.PacketTypes Model.ConnCore Model.Conn7 Proofs.ConnCoreInv.
From Coq Require Import ZArith Lia Bool List.
Open Scope Z_scope.

Notation pp7 := params7.
Lemma pp7_ok : pp_ok pp7. Proof. right; reflexivity. Qed.

Definition tlen (t : token) : Prop := length t = 4%nat.

Definition conn_ok7 (c : conn7) : Prop :=
  match c7_state c with
  | Unconnected7 | Disconnected7 => True
  | Token7 own => tlen own /\ own <> TOKEN_NONE /\ c7_send c <> None
  | PendingConnect7 own => tlen own /\ own <> TOKEN_NONE
  | Connecting7 own their => tlen own /\ tlen their /\ own <> TOKEN_NONE /\ c7_send c <> None
  | Pending7 own their => tlen own /\ tlen their /\ c7_send c <> None
  | Online7 o => online_ok pp7 o /\ (exists a, o_own o = Some a /\ tlen a) /\
                 (exists b, o_their o = Some b /\ tlen b) /\ c7_send c <> None
  end.

Definition dgram_in_ok7 (d : dgram) : Prop :=
  match d with
  | DConnless _ _ _ => True
  | DControl tok ack c => tok_ok tok /\ 0 <= ack < SEQ_MOD /\
      match c with Connect (Some r) | TokenMsg r => tlen r | _ => True end
  | DChunks tok ack _ _ cs => tok_ok tok /\ 0 <= ack < SEQ_MOD /\ Forall chunk_in_ok cs
  end.

Definition rand_ok7 (e : env) : Prop :=
  Forall tlen (e_rand e) /\ exists t r, token_random7 (e_rand e) = Ok (t, r).

Definition valid_op7 (c : conn7) (e : env) (o : op7) : Prop :=
  match o with
  | Op7Connect => c7_state c = Unconnected7 /\ rand_ok7 e
  | Op7Send _ _ | Op7Flush | Op7SendConnless _ => exists on, c7_state c = Online7 on
  | Op7Disconnect r =>
    c7_state c <> Disconnected7 /\ existsb (fun b => b =? 0) r = false /\ (length r <= 127)%nat
  | Op7Tick | Op7FeedGarbage => True
  | Op7Feed d => dgram_in_ok7 d /\ rand_ok7 e
  | Op7Reset => c7_state c = Disconnected7
  end.

Lemma tokb_false' a b : tokb a b = false <-> a <> b.
Proof. unfold tokb. destruct (list_eq_dec Z.eq_dec a b); split; intros; try reflexivity; try assumption; try discriminate. contradiction. Qed.

Lemma token_random7_spec rnd t r : Forall tlen rnd -> token_random7 rnd = Ok (t, r) ->
  tlen t /\ t <> TOKEN_NONE /\ Forall tlen r.
Proof.
  induction rnd as [|x rnd IH]; cbn [token_random7]; intros Hall H; [discriminate|].
  inversion Hall; subst. destruct (tokb x TOKEN_NONE) eqn:E; [apply IH; assumption|].
  injection H as <- <-. repeat split; try assumption. apply tokb_false', E.
Qed.

Lemma control_small7 tok c :
  match c with Close r => (length r <= 127)%nat | _ => True end ->
  control_size pp7 tok c <= MAX_PACKETSIZE.
Proof.
  intros Hc. unfold control_size, pp7, params7, MAX_PACKETSIZE. cbn [p_v7].
  destruct c; try lia. destruct tok as [t|]; [|lia]. destruct (list_eq_dec Z.eq_dec t TOKEN_NONE); lia.
Qed.

Lemma send_control_with7_ok st c tok :
  tlen tok ->
  match st with Online7 o => online_ok pp7 o | _ => True end ->
  match c with
  | Close r => (length r <= 127)%nat /\ existsb (fun b => b =? 0) r = false
  | Connect (Some r) | TokenMsg r => r <> TOKEN_NONE
  | _ => True
  end ->
  exists ds, send_control_with7 st c tok = Ok ds /\ Forall (dgram_ok pp7) ds.
Proof.
  intros Htl Hst Hc. unfold send_control_with7.
  assert (Hbad : match c with Connect (Some r) | TokenMsg r => tokb r TOKEN_NONE | _ => false end = false).
  { destruct c as [|[r|]| | |r|r]; try reflexivity; apply tokb_false', Hc. }
  rewrite Hbad.
  assert (Hsz : control_size pp7 (Some tok) c <= MAX_PACKETSIZE).
  { apply control_small7. destruct c; try exact I. apply Hc. }
  replace (MAX_PACKETSIZE <? control_size pp7 (Some tok) c) with false by lia.
  eexists. split; [reflexivity|]. constructor; [|constructor]. unfold dgram_ok.
  split; [exact Htl|]. split.
  { destruct st; try (unfold SEQ_MOD; lia). destruct Hst as [_ [_ [_ [_ [_ [Ha _]]]]]]. exact Ha. }
  split; [exact Hsz|]. destruct c; try exact I. destruct Hc as [Hl Hn]. split; [|exact Hl]. clear -Hn.
  induction reason as [|b r IH]; [reflexivity|]. cbn [existsb forallb] in *.
  apply orb_false_iff in Hn as [Hb Hr]. rewrite Hb, (IH Hr). reflexivity.
Qed.

Definition state_ok7 (st : state7) : Prop :=
  match st with
  | Token7 own => tlen own /\ own <> TOKEN_NONE
  | PendingConnect7 own => tlen own /\ own <> TOKEN_NONE
  | Connecting7 own their => tlen own /\ tlen their /\ own <> TOKEN_NONE
  | Pending7 own their => tlen own /\ tlen their
  | Online7 o => online_ok pp7 o /\ (exists a, o_own o = Some a /\ tlen a) /\
                 (exists b, o_their o = Some b /\ tlen b)
  | _ => True
  end.

Lemma conn_ok7_state c : conn_ok7 c -> state_ok7 (c7_state c).
Proof. unfold conn_ok7, state_ok7. destruct (c7_state c); tauto. Qed.

Lemma tick_action7_ok c e :
  state_ok7 (c7_state c) ->
  exists out, tick_action7 c e = Ok out /\ conn_ok7 (out7_conn out) /\ Forall (dgram_ok pp7) (out7_sent out)
              /\ out7_env out = e /\
              (match c7_state c with PendingConnect7 _ => out7_conn out = c | _ => True end).
Proof.
  intros Hst. unfold tick_action7, send_control7, state_ok7 in *.
  destruct (c7_state c) as [|own|own|own their|own their|o|] eqn:Es.
  - eexists. split; [reflexivity|]. cbn. unfold conn_ok7. cbn. rewrite Es. repeat split; constructor.
  - destruct Hst as [Hl Hn].
    destruct (send_control_with7_ok (Token7 own) (TokenMsg own) TOKEN_NONE eq_refl I Hn) as [ds [Hs Hds]].
    cbn [their_token]. rewrite Hs. cbn [bind]. eexists. split; [reflexivity|]. cbn. unfold conn_ok7, set_send7. cbn. rewrite Es.
    repeat split; try assumption; discriminate.
  - eexists. split; [reflexivity|]. cbn. unfold conn_ok7. rewrite Es. repeat split; try apply Hst; constructor.
  - destruct Hst as [Hl1 [Hl2 Hn]].
    destruct (send_control_with7_ok (Connecting7 own their) (Connect (Some own)) their Hl2 I Hn) as [ds [Hs Hds]].
    cbn [their_token]. rewrite Hs. cbn [bind]. eexists. split; [reflexivity|]. cbn. unfold conn_ok7, set_send7. cbn. rewrite Es.
    repeat split; try assumption; discriminate.
  - destruct Hst as [Hl1 Hl2].
    destruct (send_control_with7_ok (Pending7 own their) Accept their Hl2 I I) as [ds [Hs Hds]].
    cbn [their_token]. rewrite Hs. cbn [bind]. eexists. split; [reflexivity|]. cbn. unfold conn_ok7, set_send7. cbn. rewrite Es.
    repeat split; try assumption; discriminate.
  - destruct Hst as [Hon [[a [Ha Hla]] [b [Hb Hlb]]]]. destruct (can_send o) eqn:Ecs.
    + assert (Ht : tok_ok (o_their o)) by (rewrite Hb; exact Hlb).
      destruct (online_flush_ok pp7 o pp7_ok Hon Ht) as [o' [ds [Hf [Hok' [Hds [_ [_ [_ [Ho [Hth _]]]]]]]]]].
      rewrite Hf. cbn [bind]. eexists. split; [reflexivity|]. cbn. unfold conn_ok7. cbn.
      split; [|split; [exact Hds|split; [reflexivity|exact I]]].
      split; [exact Hok'|]. split; [exists a; rewrite Ho; split; assumption|].
      split; [exists b; rewrite Hth; split; assumption|discriminate].
    + destruct (send_control_with7_ok (Online7 o) KeepAlive b Hlb Hon I) as [ds [Hs Hds]].
      cbn [their_token]. rewrite Hb. rewrite Hs. cbn [bind]. eexists. split; [reflexivity|]. cbn.
      unfold conn_ok7, set_send7. cbn. rewrite Es.
      split; [|split; [exact Hds|split; [reflexivity|exact I]]].
      split; [exact Hon|]. split; [exists a; split; assumption|]. split; [exists b; split; assumption|discriminate].
  - eexists. split; [reflexivity|]. cbn. unfold conn_ok7. cbn. rewrite Es. repeat split; constructor.
Qed.

Lemma do_resend7_ok c e o :
  online_ok pp7 o -> (exists a, o_own o = Some a /\ tlen a) -> (exists b, o_their o = Some b /\ tlen b) ->
  c7_send c <> None ->
  exists c' ds, do_resend7 c e o = Ok (c', ds) /\ conn_ok7 c' /\ Forall (dgram_ok pp7) ds /\
    exists o', c7_state c' = Online7 o'.
Proof.
  intros Hon [a [Ha Hla]] [b [Hb Hlb]] Hs. unfold do_resend7.
  assert (Ht : tok_ok (o_their o)) by (rewrite Hb; exact Hlb).
  destruct (online_resend_ok pp7 (e_now e) o pp7_ok Hon Ht) as [o' [ds [ts [Hr [Hok' [Hds [Ho [Hth _]]]]]]]].
  rewrite Hr. cbn [bind]. eexists _, _. split; [reflexivity|]. split.
  - unfold conn_ok7. cbn. split; [exact Hok'|]. split; [exists a; rewrite Ho; split; assumption|].
    split; [exists b; rewrite Hth; split; assumption|]. destruct ts; [discriminate|exact Hs].
  - split; [exact Hds|]. eexists; reflexivity.
Qed.

Lemma state_ok7_conn c : state_ok7 (c7_state c) ->
  (match c7_state c with
   | Token7 _ | Connecting7 _ _ | Pending7 _ _ | Online7 _ => c7_send c <> None
   | _ => True end) -> conn_ok7 c.
Proof. unfold state_ok7, conn_ok7. destruct (c7_state c); tauto. Qed.

Lemma conn_ok7_send c : conn_ok7 c ->
  match c7_state c with
  | Token7 _ | Connecting7 _ _ | Pending7 _ _ | Online7 _ => c7_send c <> None
  | _ => True end.
Proof. unfold conn_ok7. destruct (c7_state c); tauto. Qed.

Lemma conn_ok7_same c st : c7_state c = st -> conn_ok7 c ->
  conn_ok7 {| c7_state := st; c7_send := c7_send c |}.
Proof. intros <- H. destruct c; exact H. Qed.

Theorem feed7_ok c e d :
  conn_ok7 c -> dgram_in_ok7 d -> rand_ok7 e ->
  exists out, feed7 c e d = Ok out /\ conn_ok7 (out7_conn out) /\ Forall (dgram_ok pp7) (out7_sent out).
Proof.
  intros Hc Hd [Hrl [rt [rr' Hrnd]]].
  pose proof (conn_ok7_state c Hc) as Hst. pose proof (conn_ok7_send c Hc) as Hsend.
  destruct d as [tk rs pl|tk ack ctl|tk ack rr n cs].
  { unfold feed7. destruct (negb (otokb tk (own_token (c7_state c)))).
    - eexists. split; [reflexivity|]. cbn. split; [exact Hc|constructor].
    - destruct (negb (otokb rs (their_token (c7_state c))));
        eexists; (split; [reflexivity|]); cbn; (split; [exact Hc|constructor]). }
  - (* control *)
    destruct Hd as [Htk [Hack Hresp]]. unfold feed7.
    match goal with |- context [if negb (tokb ?a ?b) then _ else _] => destruct (negb (tokb a b)) end.
    { eexists. split; [reflexivity|]. cbn. split; [exact Hc|constructor]. }
    replace ((ack <? 0) || (SEQ_MOD <=? ack)) with false by lia.
    set (st1 := match c7_state c with Online7 o => Online7 (ack_chunks o ack) | _ => c7_state c end).
    assert (Hst1 : state_ok7 st1).
    { unfold st1. destruct (c7_state c) as [|own|own|own their|own their|o|]; try exact Hst.
      destruct Hst as [Hon [[a [Ha Hla]] [b [Hb Hlb]]]]. destruct (ack_chunks_toks o ack) as [E1 E2].
      split; [apply ack_chunks_ok, Hon|]. split; [exists a; rewrite E1; split; assumption|exists b; rewrite E2; split; assumption]. }
    assert (Hc1 : conn_ok7 {| c7_state := st1; c7_send := c7_send c |}).
    { apply state_ok7_conn; cbn; [exact Hst1|]. unfold st1. destruct (c7_state c); exact Hsend. }
    destruct ctl as [|resp| | |reason|resp].
    + eexists. split; [reflexivity|]. cbn. split; [exact Hc1|constructor].
    + (* Connect *)
      destruct st1 as [|own|own|own their|own their|o|] eqn:Est;
        try (eexists; split; [reflexivity|]; cbn; split; [exact Hc1|constructor]).
      destruct resp as [t|]; [|eexists; split; [reflexivity|]; cbn; split; [exact Hc1|constructor]].
      destruct (tick_action7_ok {| c7_state := Pending7 own t; c7_send := c7_send c |} e) as [out [Ho [Hok [Hds _]]]].
      { cbn. destruct Hst1 as [Hl _]. split; [exact Hl|exact Hresp]. }
      exists out. split; [exact Ho|]. split; assumption.
    + eexists. split; [reflexivity|]. cbn. split; [exact Hc1|constructor].
    + (* Accept *)
      destruct st1 as [|own|own|own their|own their|o|] eqn:Est;
        try (eexists; split; [reflexivity|]; cbn; split; [exact Hc1|constructor]).
      eexists. split; [reflexivity|]. cbn. split; [|constructor].
      destruct Hst1 as [Hl1 [Hl2 Hn]]. unfold conn_ok7. cbn.
      split; [apply online_new_ok, pp7_ok|]. split; [exists own; split; [reflexivity|exact Hl1]|].
      split; [exists their; split; [reflexivity|exact Hl2]|].
      unfold conn_ok7 in Hc1. cbn in Hc1. apply Hc1.
    + eexists. split; [reflexivity|]. cbn. split; [exact I|constructor].
    + (* Token *)
      destruct st1 as [|own|own|own their|own their|o|] eqn:Est;
        try (eexists; split; [reflexivity|]; cbn; split; [exact Hc1|constructor]).
      * rewrite Hrnd. cbn [bind].
        destruct (token_random7_spec _ _ _ Hrl Hrnd) as [Hlt [Hnt _]].
        destruct (send_control_with7_ok (PendingConnect7 rt) (TokenMsg rt) resp Hresp I Hnt) as [ds [Hs Hds]].
        rewrite Hs. cbn [bind]. eexists. split; [reflexivity|]. cbn. split; [|exact Hds].
        unfold conn_ok7. cbn. split; assumption.
      * destruct Hst1 as [Hl Hn].
        destruct (tick_action7_ok {| c7_state := Connecting7 own resp; c7_send := c7_send c |} e) as [out [Ho [Hok [Hds _]]]].
        { cbn. split; [exact Hl|]. split; [exact Hresp|exact Hn]. }
        exists out. split; [exact Ho|]. split; assumption.
      * destruct Hst1 as [Hl Hn].
        destruct (send_control_with7_ok (PendingConnect7 own) (TokenMsg own) resp Hresp I Hn) as [ds [Hs Hds]].
        rewrite Hs. cbn [bind]. eexists. split; [reflexivity|]. cbn. split; [exact Hc1|exact Hds].
  - (* chunks *)
    destruct Hd as [Htk [Hack Hcs]]. unfold feed7.
    match goal with |- context [if negb (tokb ?a ?b) then _ else _] => destruct (negb (tokb a b)) end.
    { eexists. split; [reflexivity|]. cbn. split; [exact Hc|constructor]. }
    replace ((ack <? 0) || (SEQ_MOD <=? ack)) with false by lia.
    destruct (c7_state c) as [|own|own|own their|own their|o|] eqn:Es;
      try (eexists; split; [reflexivity|]; cbn [out7_conn out7_sent mk7]; split; [|constructor];
           apply conn_ok7_same; assumption).
    + (* Pending -> Online *)
      destruct Hst as [Hl1 Hl2]. cbn [c7_state].
      set (o0 := online_new (Some own) (Some their)).
      assert (Hon : online_ok pp7 o0) by (apply online_new_ok, pp7_ok).
      assert (Hrs : exists c3 sent, (if rr then do_resend7 {| c7_state := Online7 o0; c7_send := c7_send c |} e o0
                                     else Ok ({| c7_state := Online7 o0; c7_send := c7_send c |}, [])) = Ok (c3, sent)
                     /\ conn_ok7 c3 /\ Forall (dgram_ok pp7) sent /\ exists o3, c7_state c3 = Online7 o3).
      { destruct rr.
        - destruct (do_resend7_ok {| c7_state := Online7 o0; c7_send := c7_send c |} e o0 Hon)
            as [c3 [ds [H1 [H2 [H3 H4]]]]];
            [exists own; split; [reflexivity|exact Hl1]|exists their; split; [reflexivity|exact Hl2]|exact Hsend|].
          exists c3, ds. repeat split; assumption.
        - eexists _, _. split; [reflexivity|]. split; [|split; [constructor|eexists; reflexivity]].
          unfold conn_ok7. cbn. split; [exact Hon|]. split; [exists own; split; [reflexivity|exact Hl1]|].
          split; [exists their; split; [reflexivity|exact Hl2]|exact Hsend]. }
      destruct Hrs as [c3 [sent [Hr [Hc3 [Hsent [o3 Ho3]]]]]]. rewrite Hr. cbn [bind]. rewrite Ho3.
      unfold conn_ok7 in Hc3. rewrite Ho3 in Hc3. destruct Hc3 as [Hon3 [Ha3 [Hb3 Hs3]]].
      destruct (recv_chunks_ok cs (o_ack o3) (o_rr o3)) as [a' [r' [evs [Hrc Ha']]]];
        [destruct Hon3 as [_ [_ [_ [_ [_ [Ha _]]]]]]; exact Ha|exact Hcs|].
      rewrite Hrc. cbn [bind]. eexists. split; [reflexivity|]. cbn. split; [|exact Hsent].
      unfold conn_ok7. cbn. split; [apply o_set_ack_ok; assumption|]. split; [exact Ha3|]. split; [exact Hb3|exact Hs3].
    + (* Online *)
      destruct Hst as [Hon [[a [Ha Hla]] [b [Hb Hlb]]]]. cbn [c7_state].
      destruct (ack_chunks_toks o ack) as [E1 E2].
      assert (Hon1 : online_ok pp7 (ack_chunks o ack)) by (apply ack_chunks_ok, Hon).
      assert (HA : exists a0, o_own (ack_chunks o ack) = Some a0 /\ tlen a0) by (exists a; rewrite E1; split; assumption).
      assert (HB : exists b0, o_their (ack_chunks o ack) = Some b0 /\ tlen b0) by (exists b; rewrite E2; split; assumption).
      assert (Hrs : exists c3 sent, (if rr then do_resend7 {| c7_state := Online7 (ack_chunks o ack); c7_send := c7_send c |} e (ack_chunks o ack)
                                     else Ok ({| c7_state := Online7 (ack_chunks o ack); c7_send := c7_send c |}, [])) = Ok (c3, sent)
                     /\ conn_ok7 c3 /\ Forall (dgram_ok pp7) sent /\ exists o3, c7_state c3 = Online7 o3).
      { destruct rr.
        - destruct (do_resend7_ok {| c7_state := Online7 (ack_chunks o ack); c7_send := c7_send c |} e (ack_chunks o ack)
                      Hon1 HA HB Hsend) as [c3 [ds [H1 [H2 [H3 H4]]]]].
          exists c3, ds. repeat split; assumption.
        - eexists _, _. split; [reflexivity|]. split; [|split; [constructor|eexists; reflexivity]].
          unfold conn_ok7. cbn. split; [exact Hon1|]. split; [exact HA|]. split; [exact HB|exact Hsend]. }
      destruct Hrs as [c3 [sent [Hr [Hc3 [Hsent [o3 Ho3]]]]]]. rewrite Hr. cbn [bind]. rewrite Ho3.
      unfold conn_ok7 in Hc3. rewrite Ho3 in Hc3. destruct Hc3 as [Hon3 [Ha3 [Hb3 Hs3]]].
      destruct (recv_chunks_ok cs (o_ack o3) (o_rr o3)) as [a' [r' [evs [Hrc Ha']]]];
        [destruct Hon3 as [_ [_ [_ [_ [_ [Hx _]]]]]]; exact Hx|exact Hcs|].
      rewrite Hrc. cbn [bind]. eexists. split; [reflexivity|]. cbn. split; [|exact Hsent].
      unfold conn_ok7. cbn. split; [apply o_set_ack_ok; assumption|]. split; [exact Ha3|]. split; [exact Hb3|exact Hs3].
Qed.

Theorem step7_ok c e o :
  conn_ok7 c -> valid_op7 c e o ->
  exists out, step7 c e o = Ok out /\ conn_ok7 (out7_conn out) /\ Forall (dgram_ok pp7) (out7_sent out).
Proof.
  intros Hc Hv. pose proof (conn_ok7_state c Hc) as Hst. pose proof (conn_ok7_send c Hc) as Hsend.
  destruct o as [|data vital| | |reason|data|d| |]; cbn [valid_op7] in Hv; unfold step7.
  - (* connect *)
    destruct Hv as [Hu [Hrl [rt [rr' Hrnd]]]]. rewrite Hu, Hrnd. cbn [bind].
    destruct (token_random7_spec _ _ _ Hrl Hrnd) as [Hlt [Hnt _]].
    destruct (tick_action7_ok {| c7_state := Token7 rt; c7_send := c7_send c |} {| e_now := e_now e; e_rand := rr' |})
      as [out [Ho [Hok [Hds _]]]]; [cbn; split; assumption|].
    exists out. split; [exact Ho|]. split; assumption.
  - (* send *)
    destruct Hv as [on Hon]. rewrite Hon in *. destruct Hst as [Hok [[a [Ha Hla]] [b [Hb Hlb]]]].
    assert (Ht : tok_ok (o_their on)) by (rewrite Hb; exact Hlb).
    destruct (online_send_ok pp7 (e_now e) on data vital pp7_ok Hok Ht) as [o' [ds [r [Hsd [Hok' [Hds [Ho [Hth _]]]]]]]].
    rewrite Hsd. cbn [bind]. eexists. split; [reflexivity|]. cbn. split; [|exact Hds].
    unfold conn_ok7. cbn. split; [exact Hok'|]. split; [exists a; rewrite Ho; split; assumption|].
    split; [exists b; rewrite Hth; split; assumption|exact Hsend].
  - (* flush *)
    destruct Hv as [on Hon]. rewrite Hon in *. destruct Hst as [Hok [[a [Ha Hla]] [b [Hb Hlb]]]].
    assert (Ht : tok_ok (o_their on)) by (rewrite Hb; exact Hlb).
    destruct (online_flush_ok pp7 on pp7_ok Hok Ht) as [o' [ds [Hf [Hok' [Hds [_ [_ [_ [Ho [Hth _]]]]]]]]]].
    rewrite Hf. cbn [bind]. eexists. split; [reflexivity|]. cbn. split; [|exact Hds].
    unfold conn_ok7. cbn. split; [exact Hok'|]. split; [exists a; rewrite Ho; split; assumption|].
    split; [exists b; rewrite Hth; split; assumption|discriminate].
  - (* tick *)
    destruct (match c7_state c with
              | Online7 o => match queue_back (o_queue o) with Some rc => triggered (rc_next rc) (e_now e) | None => false end
              | _ => false end) eqn:Ers.
    + destruct (c7_state c) as [|own|own|own their|own their|on|] eqn:Es; try discriminate Ers.
      destruct Hst as [Hok [HA HB]].
      destruct (do_resend7_ok c e on Hok HA HB Hsend) as [c' [ds [Hr [Hc' [Hds _]]]]].
      rewrite Hr. cbn [bind]. eexists. split; [reflexivity|]. cbn. split; assumption.
    + destruct (triggered (c7_send c) (e_now e)).
      * destruct (tick_action7_ok {| c7_state := c7_state c; c7_send := None |} e) as [out [Ho [Hok [Hds _]]]];
          [cbn; exact Hst|].
        exists out. split; [exact Ho|]. split; assumption.
      * eexists. split; [reflexivity|]. cbn. split; [exact Hc|constructor].
  - (* disconnect *)
    destruct Hv as [H2 [Hn Hl]]. rewrite Hn.
    assert (Hcl : (length reason <= 127)%nat /\ existsb (fun b => b =? 0) reason = false) by (split; assumption).
    assert (Hfin : forall st tk, tlen tk -> match st with Online7 o => online_ok pp7 o | _ => True end ->
              exists out, (let* d := send_control_with7 st (Close reason) tk in
                           Ok (mk7 {| c7_state := Disconnected7; c7_send := c7_send c |} e d [] [] R7Ok)) = Ok out /\
                          conn_ok7 (out7_conn out) /\ Forall (dgram_ok pp7) (out7_sent out)).
    { intros st tk Htl Hs. destruct (send_control_with7_ok st (Close reason) tk Htl Hs Hcl) as [ds [Hsc Hds]].
      rewrite Hsc. cbn [bind]. eexists. split; [reflexivity|]. cbn. split; [exact I|exact Hds]. }
    destruct (c7_state c) as [|own|own|own their|own their|on|] eqn:Es; try contradiction; unfold send_control7; cbn [their_token].
    + apply Hfin; [reflexivity|exact I].
    + apply Hfin; [reflexivity|exact I].
    + apply Hfin; [reflexivity|exact I].
    + apply Hfin; [apply Hst|exact I].
    + apply Hfin; [apply Hst|exact I].
    + destruct Hst as [Hok [_ [b [Hb Hlb]]]]. rewrite Hb. apply Hfin; [exact Hlb|exact Hok].
  - (* connless *)
    destruct Hv as [on Hon]. rewrite Hon in *. destruct Hst as [Hok [HA HB]].
    destruct (MAX_PAYLOAD <? Z.of_nat (length data)) eqn:El.
    + eexists. split; [reflexivity|]. cbn. unfold conn_ok7, set_send7. cbn. rewrite Hon.
      split; [|constructor]. split; [exact Hok|]. split; [exact HA|]. split; [exact HB|discriminate].
    + eexists. split; [reflexivity|]. cbn. unfold conn_ok7, set_send7. cbn. rewrite Hon.
      split; [|constructor; [unfold dgram_ok; lia|constructor]].
      split; [exact Hok|]. split; [exact HA|]. split; [exact HB|discriminate].
  - destruct Hv as [Hd Hr]. apply feed7_ok; assumption.
  - eexists. split; [reflexivity|]. cbn. split; [exact Hc|constructor].
  - rewrite Hv. eexists. split; [reflexivity|]. cbn. split; [exact I|constructor].
Qed.

Theorem refusal7 c e on data vital :
  c7_state c = Online7 on -> MAX_PAYLOAD < Z.of_nat (length data) ->
  step7 c e (Op7Send data vital) = Ok (mk7 c e [] [] [] R7TooLongData).
Proof.
  intros Hon Hl. unfold step7. rewrite Hon. unfold online_send.
  replace ((MAX_PAYLOAD <? Z.of_nat (length data))
           || negb (p_v7 params7) && (2 ^ p_size_bits params7 <=? Z.of_nat (length data))) with true by lia.
  cbn [bind]. destruct c as [st sd]. cbn in Hon. subst st. reflexivity.
Qed.

Definition active7 (c : conn7) : Prop :=
  match c7_state c with Token7 _ | Connecting7 _ _ | Pending7 _ _ | Online7 _ => True | _ => False end.

Theorem deadline7 c : conn_ok7 c -> active7 c -> needs_tick7 c <> None.
Proof.
  intros Hc Ha. pose proof (conn_ok7_send c Hc) as Hs. unfold active7, needs_tick7 in *.
  destruct (c7_state c) as [|own|own|own their|own their|on|]; try contradiction;
    destruct (c7_send c) as [x|]; try contradiction; try discriminate.
  destruct (match queue_back (o_queue on) with Some rc => rc_next rc | None => None end); discriminate.
Qed.

Inductive label7 := L7Op (o : op7) | L7Clock (dt : Z).

Fixpoint run7 (c : conn7) (e : env) (ls : list label7) : res unit (conn7 * env * list dgram) :=
  match ls with
  | [] => Ok (c, e, [])
  | L7Clock dt :: r => run7 c {| e_now := e_now e + dt; e_rand := e_rand e |} r
  | L7Op o :: r =>
    match step7 c e o with
    | Ok out =>
      match run7 (out7_conn out) (out7_env out) r with
      | Ok (c', e', ds) => Ok (c', e', out7_sent out ++ ds)
      | x => x
      end
    | Err x => Err x | Panic s => Panic s | OutOfFuel => OutOfFuel
    end
  end.

Fixpoint valid_run7 (c : conn7) (e : env) (ls : list label7) : Prop :=
  match ls with
  | [] => True
  | L7Clock dt :: r => valid_run7 c {| e_now := e_now e + dt; e_rand := e_rand e |} r
  | L7Op o :: r =>
    valid_op7 c e o /\
    match step7 c e o with
    | Ok out => valid_run7 (out7_conn out) (out7_env out) r
    | _ => True
    end
  end.

Theorem run_ok7 ls : forall c e, conn_ok7 c -> valid_run7 c e ls ->
  exists c' e' ds, run7 c e ls = Ok (c', e', ds) /\ conn_ok7 c' /\ Forall (dgram_ok pp7) ds.
Proof.
  induction ls as [|l ls IH]; intros c e Hc Hv.
  - eexists _, _, _. split; [reflexivity|]. split; [exact Hc|constructor].
  - destruct l as [o|dt]; cbn [run7 valid_run7] in *.
    + destruct Hv as [Hvo Hvr].
      destruct (step7_ok c e o Hc Hvo) as [out [Hs [Hc' Hds]]]. rewrite Hs in *.
      destruct (IH _ _ Hc' Hvr) as [c2 [e2 [ds2 [Hr [Hc2 Hds2]]]]]. rewrite Hr.
      eexists _, _, _. split; [reflexivity|]. split; [exact Hc2|]. apply Forall_app. split; assumption.
    + apply IH; assumption.
Qed.

Lemma conn7_new_ok : conn_ok7 conn7_new.
Proof. exact I. Qed.

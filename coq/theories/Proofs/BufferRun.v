(* The main induction over programs: whatever a closure does with its view
   (and with views nested in it, capped or not, with early exits and panics of
   `advance`), the view's counter stays within its capacity, the initialized
   part of the memory is exactly the ghost log of accepted bytes, nothing
   outside the view's spare part changes, and none of the index / ghost checks
   fires. *)
From LibTw2 Require Import Base.Res Model.Buffer Proofs.BufferMem Proofs.BufferOps.
From Coq Require Import List Arith Lia Bool ZArith.
Import ListNotations.
Open Scope nat_scope.

(* the only panics left: the documented assertion of the unsafe fn `advance` *)
Definition safe_exit (x : exit) : Prop :=
  x = XOk \/ x = XErr \/ x = XPanic site_advance_overflow \/ x = XPanic site_advance_assert.

(* a report: (where the slice starts, the slice that was returned, the bytes accepted so far) *)
Definition report_ok (ra : nat * bytes * bytes) : Prop := snd (fst ra) = snd ra.

(* the reported slice lies in [lo, hi) and the memory m (still) holds it there *)
Definition report_held (m : bytes) (lo hi : nat) (ra : nat * bytes * bytes) : Prop :=
  lo <= fst (fst ra) /\ fst (fst ra) + length (snd (fst ra)) <= hi
  /\ forall i, i < length (snd (fst ra)) -> nth_error m (fst (fst ra) + i) = nth_error (snd (fst ra)) i.

Lemma held_mono m m' lo hi lo' hi' ra :
  report_held m lo hi ra -> (forall j, j < hi -> nth_error m' j = nth_error m j) ->
  lo' <= lo -> hi <= hi' -> report_held m' lo' hi' ra.
Proof.
  intros [H1 [H2 H3]] Hm Hlo Hhi. split; [lia|]. split; [lia|].
  intros i Hi. rewrite Hm by lia. apply H3, Hi.
Qed.

Lemma held_of_acc_ok m v acc : acc_ok m v acc ->
  report_held m (v_off v) (v_off v + v_init v) (v_off v, acc, acc).
Proof.
  intros [La Na]. unfold report_held. cbn [fst snd]. split; [lia|]. split; [lia|].
  intros i Hi. apply Na. lia.
Qed.

(* nothing outside [offset+initialized, offset+capacity) differs between m and m' *)
Definition frame (m m' : bytes) (v : view) : Prop :=
  forall j, j < v_off v + v_init v \/ v_off v + v_cap v <= j -> nth_error m' j = nth_error m j.

Record good (total : nat) (m : bytes) (v : view) (acc : bytes) (o : sout) : Prop := mk_good {
  g_len : length (s_mem o) = total;
  g_lo : v_init v <= s_init o;
  g_hi : s_init o <= v_cap v;
  g_acc : acc_ok (s_mem o) (with_init v (s_init o)) (s_acc o);
  g_ext : exists log, s_acc o = acc ++ log;
  g_frame : frame m (s_mem o) v;
  g_exit : safe_exit (s_exit o);
  g_views : Forall (view_ok total) (s_views o);
  g_reports : Forall report_ok (s_reports o);
  (* every slice handed out so far lies in the initialized part and is still intact *)
  g_held : Forall (report_held (s_mem o) (v_off v) (v_off v + s_init o)) (s_reports o) }.

Section Run.
Variable total : nat.

Lemma good_stop m v acc m' i' acc' evs x reps :
  length m' = total -> view_ok total v -> v_init v <= i' -> i' <= v_cap v ->
  acc_ok m' (with_init v i') acc' -> (exists l, acc' = acc ++ l) -> frame m m' v -> safe_exit x ->
  Forall report_ok reps -> Forall (report_held m' (v_off v) (v_off v + i')) reps ->
  good total m v acc (stop m' (with_init v i') acc' evs x reps).
Proof.
  intros Hl Hv Hlo Hhi Ha He Hf Hx Hr Hh. constructor; cbn [stop s_mem s_init s_acc s_exit s_views s_reports with_init v_init];
    try assumption.
  constructor; [|constructor]. apply with_init_ok; assumption.
Qed.

Lemma good_before m v acc o evs vs reps :
  good total m v acc o -> Forall (view_ok total) vs -> Forall report_ok reps ->
  Forall (report_held (s_mem o) (v_off v) (v_off v + s_init o)) reps ->
  good total m v acc (before evs vs reps o).
Proof.
  intros [] Hv Hr Hh. constructor; cbn [before s_mem s_init s_acc s_exit s_views s_reports]; try assumption.
  - apply Forall_app; split; assumption.
  - apply Forall_app; split; assumption.
  - apply Forall_app; split; assumption.
Qed.

(* the outcome of a continuation started from a later state of the same view *)
Lemma good_step m v acc m1 i1 acc1 o :
  v_init v <= i1 -> (exists l, acc1 = acc ++ l) -> frame m m1 v ->
  good total m1 (with_init v i1) acc1 o -> good total m v acc o.
Proof.
  intros Hlo [l1 ->] Hf []. cbn [with_init v_off v_cap v_init] in *.
  constructor; try assumption.
  - lia.
  - destruct g_ext0 as [l2 ->]. exists (l1 ++ l2). rewrite app_assoc. reflexivity.
  - intros j Hj. unfold frame in g_frame0. cbn [with_init v_off v_cap v_init] in g_frame0.
    rewrite g_frame0 by lia. apply Hf. exact Hj.
Qed.

(* data stored at the start of the spare part *)
Lemma spare_store m m' v acc data :
  view_ok total v -> acc_ok m v acc -> length data <= room v ->
  (forall j, nth_error m' j =
     if (v_off v + v_init v <=? j) && (j <? v_off v + v_init v + length data)
     then nth_error data (j - (v_off v + v_init v)) else nth_error m j) ->
  acc_ok m' (with_init v (v_init v + length data)) (acc ++ data) /\ frame m m' v /\ acc_ok m' v acc.
Proof.
  intros [Hi Ht] [La Na] Hd N. unfold room in Hd. split; [|split].
  - split; cbn [with_init v_off v_cap v_init]; [rewrite app_length; lia|].
    intros i Hi'. rewrite N.
    destruct (Nat.leb_spec (v_off v + v_init v) (v_off v + i)),
             (Nat.ltb_spec (v_off v + i) (v_off v + v_init v + length data)); cbn [andb]; try lia.
    + rewrite nth_error_app_r by lia. f_equal. lia.
    + rewrite nth_error_app_l by lia. apply Na. lia.
  - intros j Hj. rewrite N.
    destruct (Nat.leb_spec (v_off v + v_init v) j),
             (Nat.ltb_spec j (v_off v + v_init v + length data)); cbn [andb]; try lia; reflexivity.
  - split; [exact La|]. intros i Hi'. rewrite N.
    destruct (Nat.leb_spec (v_off v + v_init v) (v_off v + i)); cbn [andb]; try lia. apply Na, Hi'.
Qed.

(* extend, restated with the stored data = firstn (room v) bs *)
Lemma extend_store bs m v : view_ok (length m) v ->
  exists m', extend m v bs =
     (m', with_init v (v_init v + length (firstn (room v) bs)),
      Ok (length bs <=? room v, if length bs <=? room v then length bs else S (room v)))
   /\ length m' = length m
   /\ forall j, nth_error m' j =
        if (v_off v + v_init v <=? j) && (j <? v_off v + v_init v + length (firstn (room v) bs))
        then nth_error (firstn (room v) bs) (j - (v_off v + v_init v)) else nth_error m j.
Proof.
  intros Hok. destruct (extend_spec bs m v Hok) as [m' [E [L N]]]. exists m'.
  rewrite length_firstn_room. split; [exact E|]. split; [exact L|].
  intros j. rewrite N.
  destruct (Nat.leb_spec (v_off v + v_init v) j),
           (Nat.ltb_spec j (v_off v + v_init v + fit v bs)); cbn [andb]; try reflexivity.
  rewrite nth_error_firstn_lt; [reflexivity|]. pose proof (fit_le_room v bs). lia.
Qed.

Lemma safe_ok : safe_exit XOk. Proof. left; reflexivity. Qed.
Lemma safe_err : safe_exit XErr. Proof. right; left; reflexivity. Qed.
Lemma safe_adv s : s = site_advance_overflow \/ s = site_advance_assert -> safe_exit (XPanic s).
Proof. intros [->| ->]; [right; right; left|right; right; right]; reflexivity. Qed.

Lemma frame_refl m v : frame m m v.
Proof. intros j _. reflexivity. Qed.

Lemma acc_ok_same m v acc : acc_ok m v acc -> acc_ok m (with_init v (v_init v)) acc.
Proof. rewrite with_init_same. exact (fun H => H). Qed.

Ltac ext := first [ eexists; reflexivity | exists []; rewrite app_nil_r; reflexivity ].
Ltac gs :=
  try assumption; try lia; try ext; try apply frame_refl; try (apply acc_ok_same; assumption);
  try apply safe_ok; try apply safe_err; try (apply safe_adv; assumption);
  try (apply Forall_nil); try (apply Forall_cons; [reflexivity|apply Forall_nil]).

(* a closure that stops right here *)
Lemma good_here m v acc evs x reps :
  length m = total -> view_ok total v -> acc_ok m v acc -> safe_exit x -> Forall report_ok reps ->
  Forall (report_held m (v_off v) (v_off v + v_init v)) reps ->
  good total m v acc (stop m v acc evs x reps).
Proof.
  intros Hl Hv Ha Hx Hr Hh. pose proof Hv as [? ?]. rewrite <- (with_init_same v) at 2.
  apply good_stop; try assumption; try lia;
    first [apply acc_ok_same, Ha | exists []; rewrite app_nil_r; reflexivity | apply frame_refl].
Qed.

(* traits.rs read_buffer_ref *)
Lemma read_into_good m v acc fail src :
  length m = total -> view_ok total v -> acc_ok m v acc ->
  good total m v acc (read_into m v acc fail src).
Proof.
  intros Hl Hv Ha. pose proof Hv as [Hi Ht]. unfold read_into.
  replace (v_cap v <? v_init v) with false by (symmetry; apply Nat.ltb_ge; lia).
  destruct fail; [apply good_here; try assumption; [apply safe_err|constructor|constructor]|].
  set (got := firstn (room v) src).
  assert (Hg : length got <= room v) by (subst got; rewrite firstn_length; lia).
  destruct (store_bytes_spec got m (v_off v + v_init v)) as [m' [E [L N]]]; [unfold room in Hg; lia|].
  rewrite E.
  destruct (spare_store m m' v acc got Hv Ha Hg N) as [Ha' [Hf Ha0]].
  pose proof (advance_spec v (Z.of_nat (length got)) total Hv) as Hadv.
  destruct (advance v (Z.of_nat (length got))) as [v' [[]|e|s|]]; try contradiction.
  - destruct Hadv as [-> Hle]. rewrite Nat2Z.id in *.
    assert (Hv' : view_ok (length m') (with_init v (v_init v + length got)))
      by (rewrite L, Hl; apply with_init_ok; assumption).
    rewrite (initialized_spec m' _ (acc ++ got) Hv' Ha').
    apply good_stop; gs.
    constructor; [|constructor]. exact (held_of_acc_ok _ _ _ Ha').
  - destruct Hadv as [-> Hs]. rewrite <- (with_init_same v) at 2.
    apply good_stop; gs.
Qed.

(* after a nested with_buffer: the parent's counter has advanced by the child's *)
Lemma after_child_good m v acc q pre o c cont :
  length m = total -> view_ok total v -> acc_ok m v acc ->
  v_off c = v_off v + v_init v -> v_init c = 0 -> v_cap c <= room v ->
  good total m c [] o ->
  (forall m' v' acc', length m' = total -> view_ok total v' -> acc_ok m' v' acc' ->
     good total m' v' acc' (cont m' v' acc')) ->
  good total m v acc (after_child v acc q pre o cont).
Proof.
  intros Hl Hv Ha Hoff Hci Hcc Hgo Hcont. pose proof Hv as [Hi Ht]. destruct Hgo.
  unfold room in Hcc. rewrite Hci in *.
  (* the parent's state after the child's Drop *)
  assert (Hle : v_init v + s_init o <= v_cap v) by lia.
  assert (Ha' : acc_ok (s_mem o) (with_init v (v_init v + s_init o)) (acc ++ s_acc o)).
  { destruct Ha as [La Na]. destruct g_acc0 as [Lc Nc]. cbn [with_init v_off v_cap v_init] in *.
    split; cbn [with_init v_off v_cap v_init]; [rewrite app_length; lia|]. intros i Hi'.
    destruct (Nat.lt_ge_cases i (v_init v)).
    - rewrite nth_error_app_l by lia. rewrite g_frame0 by lia. apply Na. assumption.
    - rewrite nth_error_app_r by lia. rewrite <- Nc by lia. f_equal. lia. }
  assert (Hf : frame m (s_mem o) v).
  { intros j Hj. apply g_frame0. lia. }
  assert (Hvs : Forall (view_ok total) (v :: s_views o)) by (constructor; assumption).
  (* the child's reports, seen from the parent right after the Drop *)
  assert (Hh : Forall (report_held (s_mem o) (v_off v) (v_off v + (v_init v + s_init o))) (s_reports o)).
  { eapply Forall_impl; [|exact g_held0]. intros ra Hra.
    apply (held_mono _ _ _ _ _ _ _ Hra); [reflexivity|lia|lia]. }
  (* ... and after the parent has carried on *)
  assert (Hk : good total m v acc (cont (s_mem o) (with_init v (v_init v + s_init o)) (acc ++ s_acc o))
               /\ Forall (report_held (s_mem (cont (s_mem o) (with_init v (v_init v + s_init o)) (acc ++ s_acc o)))
                            (v_off v)
                            (v_off v + s_init (cont (s_mem o) (with_init v (v_init v + s_init o)) (acc ++ s_acc o))))
                         (s_reports o)).
  { assert (Gk : good total (s_mem o) (with_init v (v_init v + s_init o)) (acc ++ s_acc o)
                   (cont (s_mem o) (with_init v (v_init v + s_init o)) (acc ++ s_acc o)))
      by (apply Hcont; try assumption; apply with_init_ok; assumption).
    split.
    - apply (good_step m v acc (s_mem o) (v_init v + s_init o) (acc ++ s_acc o)); gs.
    - destruct Gk as [_ Klo _ _ _ Kf _ _ _ _]. cbn [with_init v_off v_cap v_init] in Klo.
      eapply Forall_impl; [|exact Hh]. intros ra Hra.
      apply (held_mono _ _ _ _ _ _ _ Hra); [|lia|lia].
      intros j Hj. apply Kf. cbn [with_init v_off v_cap v_init]. lia. }
  destruct Hk as [Hk1 Hk2].
  unfold after_child.
  destruct (s_exit o) as [| |s] eqn:Ex.
  - (* the closure returned Ok *)
    replace (v_cap v <? v_init (with_init v (v_init v + s_init o))) with false
      by (symmetry; apply Nat.ltb_ge; cbn; lia).
    cbn [andb]. apply good_before; assumption.
  - (* the closure returned Err *)
    replace (v_cap v <? v_init (with_init v (v_init v + s_init o))) with false
      by (symmetry; apply Nat.ltb_ge; cbn; lia).
    destruct q; cbn [andb].
    + apply good_before; try assumption; try exact Hh. apply good_stop; gs.
    + apply good_before; assumption.
  - (* unwinding *)
    apply good_before; try assumption; try exact Hh. apply good_stop; gs.
Qed.

Theorem run_good : forall p m v acc,
  length m = total -> view_ok total v -> acc_ok m v acc -> good total m v acc (run m v acc p).
Proof.
  induction p as [| |fail src|q bs k IHk|q bs k IHk|n k IHk|bs k IHk|k IHk|q caps sub IHsub k IHk|caps fail src k IHk];
    intros m v acc Hl Hv Ha; pose proof Hv as [Hi Ht]; cbn [run].
  - (* PEnd *) apply good_here; try assumption; [apply safe_ok|constructor|constructor].
  - (* PInit *)
    rewrite (initialized_spec m v acc) by (try rewrite Hl; assumption).
    apply good_here; try assumption; [apply safe_ok|constructor; [reflexivity|constructor]|].
    constructor; [|constructor]. exact (held_of_acc_ok _ _ _ Ha).
  - (* PReadInto *) apply read_into_good; assumption.
  - (* PWrite *)
    destruct (extend_store bs m v) as [m' [E [L N]]]; [rewrite Hl; exact Hv|]. rewrite E.
    assert (Hg : length (firstn (room v) bs) <= room v) by (rewrite firstn_length; lia).
    destruct (spare_store m m' v acc _ Hv Ha Hg N) as [Ha' [Hf _]].
    assert (Hle : v_init v + length (firstn (room v) bs) <= v_cap v)
      by (revert Hg; generalize (length (firstn (room v) bs)); unfold room; lia).
    destruct (negb (length bs <=? room v) && q).
    + apply good_before; [|constructor; [assumption|constructor]|constructor|constructor].
      apply good_stop; gs.
    + apply good_before; [|constructor; [assumption|constructor]|constructor|constructor].
      apply (good_step m v acc m' (v_init v + length (firstn (room v) bs)) (acc ++ firstn (room v) bs)); gs.
      apply IHk; gs. apply with_init_ok; [assumption|lia].
  - (* PExtend *)
    destruct (extend_store bs m v) as [m' [E [L N]]]; [rewrite Hl; exact Hv|]. rewrite E.
    assert (Hg : length (firstn (room v) bs) <= room v) by (rewrite firstn_length; lia).
    destruct (spare_store m m' v acc _ Hv Ha Hg N) as [Ha' [Hf _]].
    assert (Hle : v_init v + length (firstn (room v) bs) <= v_cap v)
      by (revert Hg; generalize (length (firstn (room v) bs)); unfold room; lia).
    destruct (negb (length bs <=? room v) && q).
    + apply good_before; [|constructor; [assumption|constructor]|constructor|constructor].
      apply good_stop; gs.
    + apply good_before; [|constructor; [assumption|constructor]|constructor|constructor].
      apply (good_step m v acc m' (v_init v + length (firstn (room v) bs)) (acc ++ firstn (room v) bs)); gs.
      apply IHk; gs. apply with_init_ok; [assumption|lia].
  - (* PAdvance *)
    pose proof (advance_spec v n total Hv) as Hadv.
    destruct (advance v n) as [v' [[]|e|s|]]; try contradiction.
    + destruct Hadv as [-> Hle].
      rewrite (slice_some m (v_off v + v_init v) (Z.to_nat n)) by lia.
      apply good_before; [|constructor; [assumption|constructor]|constructor|constructor].
      set (exposed := firstn (Z.to_nat n) (skipn (v_off v + v_init v) m)).
      assert (Le : length exposed = Z.to_nat n)
        by (subst exposed; rewrite firstn_length, skipn_length; lia).
      apply (good_step m v acc m (v_init v + Z.to_nat n) (acc ++ exposed)); try lia.
      { eexists; reflexivity. } { apply frame_refl. }
      apply IHk; try assumption. { apply with_init_ok; assumption. }
      destruct Ha as [La Na]. split; cbn [with_init v_off v_cap v_init]; [rewrite app_length; lia|].
      intros i Hi'. destruct (Nat.lt_ge_cases i (v_init v)).
      * rewrite nth_error_app_l by lia. apply Na. assumption.
      * rewrite nth_error_app_r by lia. subst exposed. rewrite nth_error_firstn_skipn by lia. f_equal. lia.
    + destruct Hadv as [-> Hs]. apply good_here; try assumption; [apply safe_adv, Hs|constructor|constructor].
  - (* PPoke *)
    replace (v_cap v <? v_init v) with false by (symmetry; apply Nat.ltb_ge; lia).
    assert (Hg : length (firstn (room v) bs) <= room v) by (rewrite firstn_length; lia).
    assert (Hle : v_init v + length (firstn (room v) bs) <= v_cap v)
      by (revert Hg; generalize (length (firstn (room v) bs)); unfold room; lia).
    destruct (store_bytes_spec (firstn (room v) bs) m (v_off v + v_init v)) as [m' [E [L N]]]; [lia|].
    rewrite E. destruct (spare_store m m' v acc _ Hv Ha Hg N) as [_ [Hf Ha0]].
    apply good_before; [|constructor; [assumption|constructor]|constructor|constructor].
    rewrite <- (with_init_same v) at 2.
    apply (good_step m v acc m' (v_init v) acc); try assumption; try lia.
    { exists []. rewrite app_nil_r. reflexivity. }
    rewrite with_init_same. apply IHk; try assumption; lia.
  - (* PRemaining *)
    rewrite (remaining_spec v total Hv).
    apply good_before; [|constructor; [assumption|constructor]|constructor|constructor].
    apply IHk; assumption.
  - (* PNested *)
    destruct (open_child_spec v caps total Hv) as [c [E [Ho [Hc0 [Hcc _]]]]]. rewrite E.
    apply (after_child_good m v acc q _ _ c); try assumption.
    apply IHsub; try assumption.
    + apply (child_ok v c total); assumption.
    + split; [cbn; lia|]. intros i Hi'. lia.
  - (* PRead *)
    destruct (open_child_spec v caps total Hv) as [c [E [Ho [Hc0 [Hcc _]]]]]. rewrite E.
    apply (after_child_good m v acc false _ _ c); try assumption.
    apply read_into_good; try assumption.
    + apply (child_ok v c total); assumption.
    + split; [cbn; lia|]. intros i Hi'. lia.
Qed.

End Run.

(* C13: the invariant of the link (sender Storage + channel + Manager) and its preservation by
   every label.  Every snapshot the receiving side stores or hands out for tick t is a copy
   (`like`) of the one the sender built for t; every message in flight belongs to a transfer the
   sender really made; a transfer in progress in the DeltaReceiver is such a transfer. *)
From LibTw2 Require Import Base.Res Model.Receiver Proofs.ReceiverBase Proofs.ReceiverChunks
  Proofs.ReceiverSteps Proofs.ReceiverXfer Proofs.ReceiverProofs Proofs.StorageRecv.
From LibTw2 Require Import Model.Varint Model.Packer Model.Snap Proofs.SnapBase Proofs.SnapRep Proofs.SnapDelta
  Proofs.SnapApply Proofs.SnapTotal Proofs.SnapTotal2 Proofs.SnapWire Proofs.SnapWireInst
  Proofs.SnapReg Proofs.SnapObs Proofs.SnapBuilder Proofs.SnapBuilder2 Proofs.SnapC10.
From LibTw2 Require Import Model.Storage Proofs.StorageSnap Proofs.StorageBase.
From Coq Require Import ZArith List Lia Bool ZifyBool ZifyNat.
Import ListNotations.
Open Scope Z_scope.

Section Inv.
Variable sz : osize.

Definition hist := list (Z * hrec).

(* the transfer the sender made for tick t *)
Definition x_of (t : Z) (e : hrec) : xfer :=
  {| x_tick := t; x_base := h_base e; x_crc := Snap.crc (sn_raw (h_snap e)); x_data := h_bytes e |}.

Definition genuine (h : hist) (x : xfer) : Prop :=
  exists e, aget (x_tick x) h = Some e /\ x = x_of (x_tick x) e.

Lemma genuine_uniq h x y : genuine h x -> genuine h y -> x_tick x = x_tick y -> x = y.
Proof. intros (e & He & ->) (e' & He' & ->) Ht. cbn [x_tick x_of] in *. rewrite Ht in He. congruence. Qed.

(* a snapshot the receiving side may hold for the base tick b *)
Definition base_like (h : hist) (b : Z) (A' : snap) : Prop :=
  (b = -1 /\ A' = snap_empty) \/ (0 <= b /\ exists eb, aget b h = Some eb /\ like (h_snap eb) A').

Record entry_ok (h : hist) (t : Z) (e : hrec) : Prop := {
  eo_tick : 0 <= t <= i32_max;
  eo_base : -1 <= h_base e < t;
  eo_built : built (h_snap e);
  eo_len : Z.of_nat (length (h_bytes e)) <= 65536;
  eo_ne : h_bytes e <> [];
  eo_apply : exists d, delta_read_bytes sz (h_bytes e) = (Ok d, [])
    /\ forall A', base_like h (h_base e) A' ->
         exists X, snap_read_with_delta A' d = (Ok X, []) /\ like (h_snap e) X
}.

Definition hist_ok (h : hist) : Prop :=
  forall t e, aget t h = Some e -> entry_ok h t e /\ t <= hist_last h.

Lemma aget_cons_other {V} k k' (v : V) l : k <> k' -> aget k ((k', v) :: l) = aget k l.
Proof. intros H. cbn [aget]. replace (k =? k') with false by lia. reflexivity. Qed.

Lemma aget_cons_same {V} k (v : V) l : aget k ((k, v) :: l) = Some v.
Proof. cbn [aget]. rewrite Z.eqb_refl. reflexivity. Qed.

Lemma hist_ok_nil : hist_ok [].
Proof. intros t e H. discriminate. Qed.

Lemma hist_ok_cons h t e : hist_ok h -> hist_last h < t -> entry_ok ((t, e) :: h) t e -> hist_ok ((t, e) :: h).
Proof.
  intros Hok Hlt He t' e' H. destruct (Z.eq_dec t' t) as [->|Hne].
  - rewrite aget_cons_same in H. injection H as <-. split; [exact He|cbn [hist_last]; lia].
  - rewrite aget_cons_other in H by exact Hne. destruct (Hok t' e' H) as [E Hle].
    split; [|cbn [hist_last]; lia].
    destruct E as [E1 E2 E3 E4 E5 (d & Ed & Hap)]. split; try assumption.
    exists d. split; [exact Ed|]. intros A' HB. apply Hap.
    destruct HB as [HB|(Hb & eb & Heb & Hl)]; [left; exact HB|right].
    split; [exact Hb|]. exists eb. split; [|exact Hl].
    rewrite aget_cons_other in Heb by lia. exact Heb.
Qed.

(* ---------- the sender ---------- *)
Record sinv (sd : sender) : Prop := {
  si_hist : hist_ok (sd_hist sd);
  si_snaps : forall t X, In (t, X) (st_snaps (sd_store sd)) ->
               exists e, aget t (sd_hist sd) = Some e /\ h_snap e = X;
  si_free : forall f, In f (st_free (sd_store sd)) -> exists X, f = FClean X /\ built X;
  si_dtick : forall d, st_dtick (sd_store sd) = Some d ->
               0 <= d /\ exists X, last_opt (st_snaps (sd_store sd)) = Some (d, X)
}.

Lemma sinv_init t0 : sinv (sender_init t0).
Proof.
  split; cbn [sender_init sd_hist sd_store storage_new st_snaps st_free st_dtick].
  - apply hist_ok_nil.
  - intros t X [].
  - intros f [].
  - intros d H. discriminate.
Qed.

Lemma sinv_snap_built sd t X : sinv sd -> In (t, X) (st_snaps (sd_store sd)) -> built X.
Proof.
  intros I Hin. destruct (si_snaps _ I t X Hin) as (e & He & <-).
  destruct (si_hist _ I t e He) as [E _]. apply (eo_built _ _ _ E).
Qed.

(* an acknowledgement - any i32 - reaches the sender *)
Lemma set_delta_tick_sinv sd v : sinv sd ->
  sinv {| sd_store := fst (set_delta_tick (sd_store sd) v); sd_tick := sd_tick sd; sd_world := sd_world sd;
          sd_hist := sd_hist sd |}.
Proof.
  intros I. unfold set_delta_tick. destruct (v <? 0) eqn:Hneg.
  - cbn [fst]. split; cbn [sd_store sd_hist st_snaps st_free st_dtick]; try apply I. intros d H. discriminate.
  - destruct (split_old v (st_snaps (sd_store sd))) as [kept old] eqn:Es.
    destruct (split_old_incl _ _ _ _ Es) as [Hk Ho].
    assert (Hfree : forall f, In f (push_free old (st_free (sd_store sd))) -> exists X, f = FClean X /\ built X).
    { intros f Hf. apply push_free_In in Hf. destruct Hf as [Hf|(t & X & Hin & ->)]; [apply (si_free _ I f Hf)|].
      exists X. split; [reflexivity|]. apply (sinv_snap_built sd t X I). apply Ho, Hin. }
    assert (Hsn : forall t X, In (t, X) kept -> exists e, aget t (sd_hist sd) = Some e /\ h_snap e = X).
    { intros t X Hin. apply (si_snaps _ I). apply Hk, Hin. }
    destruct (last_opt kept) as [[t X]|] eqn:El; [destruct (t =? v) eqn:Et|]; cbn [fst];
      split; cbn [sd_store sd_hist st_snaps st_free st_dtick]; try apply I; try assumption; try (intros d H; discriminate).
    intros d [= <-]. split; [lia|]. exists X. replace v with t by lia. exact El.
Qed.

Lemma new_builder_sinv sd : sinv sd ->
  exists st1 b0, new_builder (sd_store sd) = (st1, Ok b0) /\ bgood b0
    /\ st_snaps st1 = st_snaps (sd_store sd) /\ st_dtick st1 = st_dtick (sd_store sd)
    /\ incl (st_free st1) (st_free (sd_store sd)).
Proof.
  intros I. unfold new_builder. destruct (st_free (sd_store sd)) as [|f fr] eqn:Ef.
  - destruct (built_recycle snap_empty built_empty) as (b & Eb & Gb). rewrite Eb.
    exists (sd_store sd), b. split; [reflexivity|]. split; [exact Gb|]. split; [reflexivity|]. split; [reflexivity|].
    intros z Hz. rewrite Ef in Hz. destruct Hz.
  - destruct (si_free _ I f) as (X & -> & HX); [rewrite Ef; left; reflexivity|].
    destruct (built_recycle X HX) as (b & Eb & Gb). rewrite Eb.
    eexists _, b. split; [reflexivity|]. cbn [st_snaps st_dtick st_free].
    split; [exact Gb|]. split; [reflexivity|]. split; [reflexivity|].
    intros z Hz. right. exact Hz.
Qed.

Lemma delta_write_bytes_len d cap bs : delta_write_bytes sz d cap = Ok bs -> (length bs <= cap)%nat.
Proof.
  unfold delta_write_bytes. destruct (delta_ints sz d) as [l| | |]; try discriminate.
  destruct (ints_to_bytes l) as [b| | |]; try discriminate.
  destruct (cap <? length b)%nat eqn:E; [discriminate|]. intros [= <-]. lia.
Qed.

(* send_snapshots: under the caller's obligations it succeeds, and what it sends is a transfer every
   receiver holding a copy of the announced base turns into a copy of the new snapshot *)
Theorem sender_send_ok sd : sinv sd -> send_api_ok sz sd = true ->
  exists st' x,
    sender_send sz (sd_store sd) (sd_tick sd) (sd_world sd) = Ok (st', x)
    /\ sn_tick x = sd_tick sd
    /\ hist_last (sd_hist sd) < sd_tick sd
    /\ let e := {| h_snap := sn_snap x; h_base := sn_base x; h_bytes := sn_bytes x |} in
       sn_msgs x = x_msgs (x_of (sd_tick sd) e)
       /\ sinv {| sd_store := st'; sd_tick := sd_tick sd; sd_world := sd_world sd;
                  sd_hist := (sd_tick sd, e) :: sd_hist sd |}.
Proof.
  intros I Hapi. unfold send_api_ok in Hapi.
  destruct (new_builder_sinv sd I) as (st1 & b0 & Enb & Gb0 & Esn & Edt & Hfr).
  rewrite Enb in Hapi.
  apply andb_true_iff in Hapi. destruct Hapi as [Hapi Hrest].
  apply andb_true_iff in Hapi. destruct Hapi as [Hapi Hitems].
  assert (Hlast : hist_last (sd_hist sd) < sd_tick sd) by lia.
  assert (Ht0 : 0 <= sd_tick sd <= i32_max) by lia. clear Hapi.
  pose proof (build_world_bgood (sd_world sd) b0 Gb0 Hitems) as Hbw.
  destruct (build_world b0 (sd_world sd)) as [b|eb|sb|] eqn:Ebw; try contradiction; [|discriminate].
  set (X := builder_finish b) in *.
  assert (HX : built X) by (exists b; split; [exact Hbw|reflexivity]).
  destruct (built_facts X HX) as (GX & _ & EcX).
  apply andb_true_iff in Hrest. destruct Hrest as [Hsizes Hrest].
  (* the base *)
  set (bt := match st_dtick st1 with Some t => t | None => -1 end).
  assert (Hbase : exists base, sender_base st1 = Some base /\ built base
            /\ ((bt = -1 /\ base = snap_empty /\ st_dtick st1 = None)
                \/ (0 <= bt /\ st_dtick st1 = Some bt /\ st_snaps st1 <> []
                    /\ last_opt (st_snaps st1) = Some (bt, base)
                    /\ exists eb, aget bt (sd_hist sd) = Some eb /\ h_snap eb = base))).
  { unfold sender_base, bt. rewrite Edt, Esn. destruct (st_dtick (sd_store sd)) as [d|] eqn:Ed.
    - destruct (si_dtick _ I d Ed) as (Hd0 & Xb & El).
      pose proof (last_opt_In _ _ El) as Hin. rewrite El. exists Xb.
      split; [reflexivity|]. split; [apply (sinv_snap_built sd d Xb I Hin)|]. right.
      split; [exact Hd0|]. split; [reflexivity|]. split; [intros E0; rewrite E0 in Hin; destruct Hin|].
      split; [reflexivity|]. apply (si_snaps _ I d Xb Hin).
    - exists snap_empty. split; [reflexivity|]. split; [apply built_empty|]. left. auto. }
  destruct Hbase as (base & Esb & Hbb & Hcase). rewrite Esb in Hrest.
  destruct (built_facts base Hbb) as (Gbase & _ & _).
  apply andb_true_iff in Hrest. destruct Hrest as [Hk09 Hfit]. apply negb_true_iff in Hk09.
  destruct (send_recv_core sz base X base Gbase GX EcX Hk09 Hsizes (like_refl base Gbase))
    as (d & l & Ecr & Edi & Hli & Hl3 & Eib & Erd & _).
  rewrite Ecr in Hfit.
  pose proof (delta_write_bytes_fine sz d l SENDER_BUFFER Edi Eib) as Hwf.
  destruct (delta_write_bytes sz d SENDER_BUFFER) as [bs|ew|sw|] eqn:Ew; try contradiction; [|discriminate].
  pose proof (delta_write_bytes_inv sz d l _ _ Edi Eib Ew) as Ebs.
  pose proof (delta_write_bytes_len d _ _ Ew) as Hlen. unfold SENDER_BUFFER, GEN_SENDER_BUFFER_BYTES in Hlen.
  assert (Hlen' : Z.of_nat (length bs) <= 65536) by lia.
  assert (Hne : bs <> []).
  { intros E0. pose proof (enc_length l Hli) as Hel. rewrite <- Ebs, E0 in Hel. cbn [length] in Hel. lia. }
  (* bt < tick *)
  assert (Hbt : -1 <= bt < sd_tick sd).
  { destruct Hcase as [(-> & _)|(Hb0 & _ & _ & _ & eb & Heb & _)]; [lia|].
    destruct (si_hist _ I bt eb Heb) as [_ Hle]. lia. }
  (* add_snap *)
  assert (Eas : add_snap st1 (sd_tick sd) X
                = Ok ({| st_snaps := (sd_tick sd, X) :: st_snaps st1; st_free := st_free st1; st_ack := st_ack st1;
                         st_dtick := st_dtick st1 |}, d)).
  { unfold add_snap. destruct Hcase as [(_ & -> & ->)|(_ & -> & Hnn & El & _)].
    - cbn [bind]. rewrite Ecr. reflexivity.
    - rewrite last_opt_cons by exact Hnn. rewrite El. cbn [bind]. rewrite Ecr. reflexivity. }
  assert (Enp : Z.of_nat (nparts bs) <= i32_max).
  { assert (HP : PACK = 900%nat) by reflexivity. pose proof (nparts_le bs 100) as Hnl. rewrite HP in Hnl.
    unfold i32_max. lia. }
  eexists _, _. split.
  { unfold sender_send. rewrite Enb. cbn [bind]. rewrite Ebw. cbn [bind]. fold X.
    replace (negb ((0 <=? sd_tick sd) && (sd_tick sd <=? i32_max))) with false by lia.
    rewrite Eas. cbn [bind]. rewrite Ew. cbn [bind].
    rewrite (delta_chunks_spec _ _ _ _ Enp). cbn [bind]. fold bt. reflexivity. }
  cbn [sn_tick sn_snap sn_base sn_bytes sn_msgs].
  split; [reflexivity|]. split; [exact Hlast|]. split; [reflexivity|].
  set (e := {| h_snap := X; h_base := bt; h_bytes := bs |}).
  assert (Hentry : entry_ok ((sd_tick sd, e) :: sd_hist sd) (sd_tick sd) e).
  { split; cbn [e h_snap h_base h_bytes]; try assumption.
    exists d. split; [rewrite Ebs; exact Erd|]. intros A' HB.
    assert (HL : like base A').
    { destruct HB as [(Hb1 & ->)|(Hb0 & eb' & Heb' & HL)].
      - destruct Hcase as [(_ & -> & _)|(Hb0 & _)]; [apply like_empty|lia].
      - destruct Hcase as [(Hb1 & _)|(_ & _ & _ & _ & eb & Heb & <-)]; [lia|].
        rewrite aget_cons_other in Heb' by lia. rewrite Heb in Heb'. injection Heb' as <-. exact HL. }
    destruct (send_recv_core sz base X A' Gbase GX EcX Hk09 Hsizes HL) as (d' & _ & Ecr' & _ & _ & _ & _ & _ & X' & Eap & HLX).
    rewrite Ecr in Ecr'. injection Ecr' as <-. exists X'. split; assumption. }
  split; cbn [sd_store sd_hist st_snaps st_free st_dtick].
  - apply hist_ok_cons; [apply I|exact Hlast|exact Hentry].
  - intros t Y [[= <- <-]|Hin].
    + exists e. split; [apply aget_cons_same|reflexivity].
    + rewrite Esn in Hin. destruct (si_snaps _ I t Y Hin) as (e' & He' & HY).
      exists e'. split; [|exact HY]. destruct (si_hist _ I t e' He') as [_ Hle].
      rewrite aget_cons_other by lia. exact He'.
  - intros f Hf. apply (si_free _ I). apply Hfr, Hf.
  - intros dd Hd. rewrite Edt in Hd. destruct (si_dtick _ I dd Hd) as (H0 & Y & El). split; [exact H0|].
    exists Y. rewrite Esn. rewrite last_opt_cons; [exact El|]. intros E0. rewrite E0 in El. discriminate.
Qed.

(* ---------- the receiving Manager ---------- *)
Definition snaps_like (h : hist) (l : list (Z * snap)) : Prop :=
  forall t X, In (t, X) l -> exists e, aget t h = Some e /\ like (h_snap e) X.

Record minv (h : hist) (mg : manager) : Prop := {
  mi_recv : rinv (genuine h) (m_recv mg);
  mi_snaps : snaps_like h (st_snaps (m_store mg));
  mi_seen : forall t, newest_seen (m_recv mg) = Some t -> t <= hist_last h
}.

Lemma minv_init h : minv h manager_new.
Proof. split; [apply rinv_new|intros t X []|intros t H; discriminate]. Qed.

Definition fine_out {E A} (r : res E A) : Prop := match r with Ok _ | Err _ => True | _ => False end.

(* Storage::add_delta on the delta of a genuine transfer *)
Lemma add_delta_genuine h st t e d :
  hist_ok h -> snaps_like h (st_snaps st) -> aget t h = Some e ->
  delta_read_bytes sz (h_bytes e) = (Ok d, []) ->
  let r := add_delta st (Some (Snap.crc (sn_raw (h_snap e)))) (h_base e) t d in
  snaps_like h (st_snaps (fst r))
  /\ fine_out (fst (snd r))
  /\ (forall X, fst (snd r) = Ok X -> like (h_snap e) X)
  /\ (forall e', fst (snd r) = Err e' -> e' = SOldDelta \/ e' = SUnknownSnap)
  /\ snd (snd r) = [].
Proof.
  intros Hok Hsn He Ed. destruct (Hok t e He) as [E _].
  destruct (eo_apply _ _ _ E) as (d' & Ed' & Hap). rewrite Ed in Ed'. injection Ed' as <-.
  pose proof (eo_base _ _ _ E) as Hb.
  cbv zeta. unfold add_delta.
  destruct (t <=? front_tick st).
  { cbn [fst snd]. split; [exact Hsn|]. split; [exact I|]. split; [intros X H; discriminate|].
    split; [intros e' [= <-]; left; reflexivity|reflexivity]. }
  assert (Hws0 : (if (h_base e <? 0) && negb (h_base e =? -1) then [SWeirdNegativeDeltaTick] else []) = []).
  { destruct (h_base e <? 0) eqn:E0; [|reflexivity]. replace (h_base e =? -1) with true by lia. reflexivity. }
  rewrite Hws0.
  (* the base the storage finds *)
  set (pick := fun kept : list (Z * snap) =>
         match last_opt kept with Some (t0, s) => if t0 =? h_base e then Some s else None | None => None end).
  destruct (0 <=? h_base e) eqn:Hb0.
  - destruct (split_old (h_base e) (st_snaps st)) as [kept old] eqn:Es.
    destruct (split_old_incl _ _ _ _ Es) as [Hk _].
    assert (Hkl : snaps_like h kept) by (intros t0 X0 Hin; apply Hsn, Hk, Hin).
    fold (pick kept). destruct (pick kept) as [b|] eqn:Ep.
    2:{ cbn [fst snd st_snaps]. split; [exact Hkl|]. split; [exact I|]. split; [intros X H; discriminate|].
        split; [intros e' [= <-]; right; reflexivity|reflexivity]. }
    assert (HBL : base_like h (h_base e) b).
    { right. split; [lia|]. unfold pick in Ep. destruct (last_opt kept) as [[t0 s0]|] eqn:El; [|discriminate].
      destruct (t0 =? h_base e) eqn:Et; [|discriminate]. injection Ep as ->.
      apply last_opt_In in El. replace (h_base e) with t0 by lia. apply Hkl, El. }
    destruct (Hap b HBL) as (X & Eap & HL).
    destruct (like_same _ _ HL) as (_ & _ & Hcrc & _).
    destruct (match push_free old (st_free st) with [] => [FClean snap_empty] | _ :: _ => push_free old (st_free st) end)
      as [|f0 fr] eqn:Ef.
    { destruct (push_free old (st_free st)); discriminate. }
    rewrite Eap. rewrite Hcrc, Z.eqb_refl. cbn [negb].
    assert (Hnew : snaps_like h ((t, X) :: kept)).
    { intros t0 X0 [[= <- <-]|Hin]; [exists e; split; assumption|apply Hkl, Hin]. }
    destruct (MAX_STORED_SNAPSHOT <? zlen ((t, X) :: kept)).
    + destruct (last_opt_some ((t, X) :: kept) ltac:(discriminate)) as [[tl sl] El]. rewrite El.
      cbn [fst snd st_snaps map app]. split; [|split; [exact I|split; [intros X0 [= <-]; exact HL|split; [intros e' H; discriminate|reflexivity]]]].
      intros t0 X0 Hin. apply Hnew. apply (remove_last_incl _ _ Hin).
    + cbn [fst snd st_snaps map app]. split; [exact Hnew|]. split; [exact I|]. split; [intros X0 [= <-]; exact HL|].
      split; [intros e' H; discriminate|reflexivity].
  - assert (HBL : base_like h (h_base e) snap_empty) by (left; split; [lia|reflexivity]).
    destruct (Hap snap_empty HBL) as (X & Eap & HL).
    destruct (like_same _ _ HL) as (_ & _ & Hcrc & _).
    destruct (match st_free st with [] => [FClean snap_empty] | _ :: _ => st_free st end) as [|f0 fr] eqn:Ef.
    { destruct (st_free st); discriminate. }
    rewrite Eap. rewrite Hcrc, Z.eqb_refl. cbn [negb].
    assert (Hnew : snaps_like h ((t, X) :: st_snaps st)).
    { intros t0 X0 [[= <- <-]|Hin]; [exists e; split; assumption|apply Hsn, Hin]. }
    destruct (MAX_STORED_SNAPSHOT <? zlen ((t, X) :: st_snaps st)).
    + destruct (last_opt_some ((t, X) :: st_snaps st) ltac:(discriminate)) as [[tl sl] El]. rewrite El.
      cbn [fst snd st_snaps map app]. split; [|split; [exact I|split; [intros X0 [= <-]; exact HL|split; [intros e' H; discriminate|reflexivity]]]].
      intros t0 X0 Hin. apply Hnew. apply (remove_last_incl _ _ Hin).
    + cbn [fst snd st_snaps map app]. split; [exact Hnew|]. split; [exact I|]. split; [intros X0 [= <-]; exact HL|].
      split; [intros e' H; discriminate|reflexivity].
Qed.

(* the only ways a message the sender made can be refused: it is old, a duplicate part, part of a
   transfer of more than 32 parts, or its base is not (any longer) held - never a checksum failure,
   never a delta that does not parse or apply *)
Definition refusal (e : merr) : bool :=
  match e with
  | MReceiver OldDelta | MReceiver DuplicatePart | MReceiver InvalidNumParts
  | MStorage SOldDelta | MStorage SUnknownSnap => true
  | _ => false
  end.

Definition only_receiver_warnings (ws : list mwarn) : bool :=
  forallb (fun w => match w with MWReceiver _ => true | _ => false end) ws.

(* one message of a genuine transfer reaches the Manager *)
Theorem manager_feed_genuine h mg x m :
  hist_ok h -> minv h mg -> genuine h x -> In m (x_msgs x) ->
  let r := manager_feed sz mg m in
  minv h (fst r)
  /\ fine_out (fst (snd r))
  /\ msg_tick m = x_tick x
  /\ (forall X, fst (snd r) = Ok (Some X) -> exists e, aget (x_tick x) h = Some e /\ like (h_snap e) X)
  /\ (forall e, fst (snd r) = Err e -> refusal e = true)
  /\ only_receiver_warnings (snd (snd r)) = true.
Proof.
  intros Hok [Hr Hs Hseen] Hg Hin. pose proof Hg as (e & He & Ex).
  destruct (Hok _ e He) as [E Hle].
  assert (Hb32 : is_i32 (x_base x) = true).
  { rewrite Ex. cbn [x_base x_of]. pose proof (eo_base _ _ _ E). pose proof (eo_tick _ _ _ E).
    unfold is_i32, i32_min, i32_max in *. lia. }
  assert (Hlen : Z.of_nat (length (x_data x)) <= 65536) by (rewrite Ex; cbn [x_data x_of]; apply (eo_len _ _ _ E)).
  destruct (recv_genuine (genuine h) (genuine_uniq h) (m_recv mg) x m Hr Hg Hb32 Hlen Hin) as (Hr' & Hnp & Hrd & Hre).
  assert (Hrw : forall rws : list rwarn, only_receiver_warnings (map MWReceiver rws) = true).
  { intros rws. unfold only_receiver_warnings. rewrite forallb_forall. intros w Hw. apply in_map_iff in Hw.
    destruct Hw as (w0 & <- & _). reflexivity. }
  assert (Htick : msg_tick m = x_tick x).
  { unfold x_msgs, xfer_msgs in Hin. destruct (nparts (x_data x)) as [|[|k]].
    - destruct Hin as [<-|[]]. reflexivity.
    - destruct Hin as [<-|[]]. reflexivity.
    - unfold multi_msgs in Hin. apply in_map_iff in Hin. destruct Hin as [i [<- _]]. reflexivity. }
  assert (Hseen' : forall t, newest_seen (fst (recv_step (m_recv mg) m)) = Some t -> t <= hist_last h).
  { intros t Ht. destruct (newest_seen_step (m_recv mg) m) as [Hn|Hn]; rewrite Hn in Ht.
    - apply Hseen, Ht.
    - injection Ht as <-. rewrite Htick. exact Hle. }
  cbv zeta. unfold manager_feed.
  pose proof (recv_no_fuel (m_recv mg) m) as Hnf.
  destruct (recv_step (m_recv mg) m) as [r' [res rws]]. cbn [fst snd] in Hr', Hnp, Hrd, Hnf, Hre, Hseen'.
  destruct res as [[rd|]|e0|s0|]; try discriminate; try (exfalso; apply Hnf; reflexivity).
  - (* the receiver hands a complete delta to the storage *)
    specialize (Hrd rd eq_refl). subst rd.
    unfold mgr_add_delta, x_rd, delivered. cbn [rd_data_and_crc rd_delta_tick rd_tick].
    rewrite Ex. cbn [x_data x_of x_crc x_base x_tick].
    destruct (h_bytes e) as [|b0 bs0] eqn:Eb; [exfalso; apply (eo_ne _ _ _ E), Eb|]. rewrite <- Eb.
    destruct (eo_apply _ _ _ E) as (d & Ed & _). rewrite Ed.
    destruct (add_delta_genuine h (m_store mg) (x_tick x) e d Hok Hs He Ed) as (Hs' & Hf & HX & HE & HW).
    destruct (add_delta (m_store mg) (Some (Snap.crc (sn_raw (h_snap e)))) (h_base e) (x_tick x) d) as [st' [r2 ws2]].
    cbn [fst snd] in *. subst ws2. cbn [map app]. rewrite app_nil_r.
    split; [split; [exact Hr'|exact Hs'|exact Hseen']|].
    destruct r2 as [X|e2|s2|]; cbn [lift_st fst snd]; try contradiction.
    + split; [exact I|]. split; [exact Htick|].
      split; [intros X0 [= <-]; exists e; split; [exact He|apply HX; reflexivity]|].
      split; [intros e0 H; discriminate|apply Hrw].
    + split; [exact I|]. split; [exact Htick|]. split; [intros X0 H; discriminate|].
      split; [|apply Hrw]. intros e0 [= <-]. destruct (HE e2 eq_refl) as [-> | ->]; reflexivity.
  - cbn [fst snd]. split; [split; assumption|]. split; [exact I|]. split; [exact Htick|].
    split; [intros X0 H; discriminate|]. split; [intros e1 H; discriminate|apply Hrw].
  - cbn [fst snd]. split; [split; assumption|]. split; [exact I|]. split; [exact Htick|].
    split; [intros X0 H; discriminate|]. split; [|apply Hrw].
    intros e1 [= <-]. destruct (Hre e0 eq_refl) as [->|[->|[-> _]]]; reflexivity.
Qed.

(* ---------- the link ---------- *)
Record linv (s : link) : Prop := {
  li_sender : sinv (l_sender s);
  li_mgr : minv (sd_hist (l_sender s)) (l_mgr s);
  li_chan : forall m, In m (l_chan s) -> exists x, genuine (sd_hist (l_sender s)) x /\ In m (x_msgs x);
  li_acc : snaps_like (sd_hist (l_sender s)) (l_accepted s)
}.

Lemma linv_init t0 : linv (link_init t0).
Proof.
  split; cbn [link_init l_sender l_mgr l_chan l_accepted].
  - apply sinv_init.
  - apply minv_init.
  - intros m [].
  - intros t X [].
Qed.

(* the history only grows, at the front, with a larger tick *)
Lemma genuine_cons h t e x : hist_ok h -> hist_last h < t -> genuine h x -> genuine ((t, e) :: h) x.
Proof.
  intros Hok Hlt (e' & He' & Ex). exists e'. split; [|exact Ex].
  destruct (Hok _ _ He') as [_ Hle]. rewrite aget_cons_other by lia. exact He'.
Qed.

Lemma snaps_like_cons h t e l : hist_ok h -> hist_last h < t -> snaps_like h l -> snaps_like ((t, e) :: h) l.
Proof.
  intros Hok Hlt Hl t0 X Hin. destruct (Hl t0 X Hin) as (e' & He' & HL). exists e'. split; [|exact HL].
  destruct (Hok _ _ He') as [_ Hle]. rewrite aget_cons_other by lia. exact He'.
Qed.

Theorem lstep_linv s l : linv s -> api_ok sz s l = true ->
  exists s' o, lstep sz s l = Ok (s', o) /\ linv s'.
Proof.
  intros [Is Im Ic Ia] Hapi. destruct l as [w| |k|k| |k|k|v| |mi]; cbn [lstep api_ok] in *; [| | | | | | | | |discriminate].
  - (* World *)
    eexists _, _. split; [reflexivity|]. split; cbn [l_sender l_mgr l_chan l_accepted sd_hist]; try assumption.
    split; cbn [sd_hist sd_store]; apply Is.
  - (* SendTick *)
    destruct (sender_send_ok (l_sender s) Is Hapi) as (st' & x & Es & Ht & Hlt & Hm & Is').
    rewrite Es. cbn [bind]. eexists _, _. split; [reflexivity|].
    pose proof (si_hist _ Is) as Hok.
    rewrite Ht. split; cbn [l_sender l_mgr l_chan l_accepted sd_hist].
    + exact Is'.
    + destruct Im as [Hr Hsn Hseen]. split.
      * apply (rinv_mono (genuine (sd_hist (l_sender s)))); [|exact Hr]. intros y Hy. apply genuine_cons; assumption.
      * apply snaps_like_cons; assumption.
      * intros t Hnt. specialize (Hseen t Hnt). cbn [hist_last]. lia.
    + intros m Hin. apply in_app_or in Hin. destruct Hin as [Hin|Hin].
      * destruct (Ic m Hin) as (y & Hy & Hmy). exists y. split; [apply genuine_cons; assumption|exact Hmy].
      * rewrite Hm in Hin. eexists. split; [|exact Hin].
        eexists. cbn [x_tick x_of]. split; [apply aget_cons_same|reflexivity].
    + apply snaps_like_cons; assumption.
  - (* Deliver *)
    destruct (nth_error (l_chan s) k) as [m|] eqn:En.
    2:{ eexists _, _. split; [reflexivity|]. split; assumption. }
    apply nth_error_In in En. destruct (Ic m En) as (x & Hg & Hmx).
    destruct (manager_feed_genuine _ (l_mgr s) x m (si_hist _ Is) Im Hg Hmx) as (Im' & Hf & Htick & HX & _).
    unfold deliver.
    destruct (manager_feed sz (l_mgr s) m) as [mg' [r ws]]. cbn [fst snd] in *.
    destruct r as [[X|]|e0|s0|]; try contradiction; eexists _, _; (split; [reflexivity|]);
      split; cbn [l_sender l_mgr l_chan l_accepted]; try assumption.
    intros t0 X0 [[= <- <-]|Hin]; [|apply Ia, Hin]. rewrite Htick. apply HX. reflexivity.
  - (* Drop *)
    eexists _, _. split; [reflexivity|]. split; cbn [l_sender l_mgr l_chan l_accepted]; try assumption.
    intros m Hin. apply Ic. apply (remove_nth_incl _ _ _ Hin).
  - (* SendAck *)
    eexists _, _. split; [reflexivity|]. split; assumption.
  - (* DeliverAck *)
    destruct (nth_error (l_acks s) k) as [v|] eqn:En.
    2:{ eexists _, _. split; [reflexivity|]. split; assumption. }
    pose proof (set_delta_tick_sinv (l_sender s) v Is) as Is'.
    destruct (set_delta_tick (sd_store (l_sender s)) v) as [st' [r weird]]. cbn [fst] in Is'.
    eexists _, _. split; [reflexivity|]. split; cbn [l_sender l_mgr l_chan l_accepted sd_hist]; assumption.
  - (* DropAck *)
    eexists _, _. split; [reflexivity|]. split; assumption.
  - (* ForgeAck *)
    eexists _, _. split; [reflexivity|]. split; assumption.
  - (* ResetMgr *)
    eexists _, _. split; [reflexivity|]. split; cbn [l_sender l_mgr l_chan l_accepted]; try assumption.
    destruct Im as [[Hwf _] _ _]. split; cbn [manager_reset m_recv m_store storage_reset st_snaps].
    + apply rinv_idle; reflexivity.
    + intros t X [].
    + intros t H. discriminate.
Qed.

(* what a Deliver can answer in a state of the invariant *)
Theorem deliver_refusals s k s' tick r ws ack : linv s ->
  lstep sz s (Deliver k) = Ok (s', ODeliver tick (r, ws) ack) ->
  (forall e, r = Err e -> refusal e = true) /\ only_receiver_warnings ws = true.
Proof.
  intros [Is Im Ic Ia]. cbn [lstep]. destruct (nth_error (l_chan s) k) as [m|] eqn:En; [|discriminate].
  apply nth_error_In in En. destruct (Ic m En) as (x & Hg & Hmx).
  destruct (manager_feed_genuine _ (l_mgr s) x m (si_hist _ Is) Im Hg Hmx) as (_ & _ & _ & _ & HE & HW).
  unfold deliver. destruct (manager_feed sz (l_mgr s) m) as [mg' [r0 ws0]]. cbn [fst snd] in *.
  destruct r0 as [[X|]|e0|s0|]; try discriminate; intros [= _ _ <- <- _]; split; assumption.
Qed.


(* ---------- progress: a full snapshot that fits one message is accepted ---------- *)
Lemma add_delta_full st crc tick d X : front_tick st < tick ->
  snap_read_with_delta snap_empty d = (Ok X, []) -> crc = Snap.crc (sn_raw X) ->
  exists st', add_delta st (Some crc) (-1) tick d = (st', (Ok X, [])) /\ st_ack st' = Some tick.
Proof.
  intros Hf Eap ->. unfold add_delta. replace (tick <=? front_tick st) with false by lia.
  replace (0 <=? -1) with false by reflexivity.
  replace ((-1 <? 0) && negb (-1 =? -1)) with false by reflexivity.
  destruct (match st_free st with [] => [FClean snap_empty] | _ :: _ => st_free st end) as [|f0 fr] eqn:Ef.
  { destruct (st_free st); discriminate. }
  rewrite Eap, Z.eqb_refl. cbn [negb app map].
  destruct (MAX_STORED_SNAPSHOT <? zlen ((tick, X) :: st_snaps st)).
  - destruct (last_opt_some ((tick, X) :: st_snaps st) ltac:(discriminate)) as [[tl sl] El]. rewrite El.
    eexists. split; reflexivity.
  - eexists. split; reflexivity.
Qed.

Lemma nparts_one data : data <> [] -> (length data <= 900)%nat -> nparts data = 1%nat.
Proof.
  intros Hne Hlen. assert (HP : PACK = 900%nat) by reflexivity.
  pose proof (nparts_le data 1) as H1. rewrite HP in H1.
  assert (nparts data <> 0%nat) by (intros E0; apply nparts_zero in E0; contradiction). lia.
Qed.

Lemma seen_can_receive r t T : (forall t0, newest_seen r = Some t0 -> t0 <= t) -> t < T -> can_receive r T = true.
Proof.
  intros Hs Hlt. unfold can_receive, newest_seen in *. destruct (r_cur r) as [c|].
  - specialize (Hs _ eq_refl). lia.
  - destruct (r_prev r) as [p|]; [specialize (Hs _ eq_refl); lia|reflexivity].
Qed.

(* after a SendTick whose delta is taken against the empty snapshot (the client acknowledged nothing,
   or its acknowledgement was cleared and -1 came through) and fits one message: delivering that
   message - whatever else has happened on the link - makes the Manager accept the snapshot and
   acknowledge its tick *)
Theorem fresh_single_accepted s s1 x :
  linv s -> api_ok sz s SendTick = true -> lstep sz s SendTick = Ok (s1, OSent x) ->
  sn_base x = -1 -> (length (sn_bytes x) <= 900)%nat ->
  exists s2 X ws,
    lstep sz s1 (Deliver (length (l_chan s))) = Ok (s2, ODeliver (sn_tick x) (Ok (Some X), ws) (Some (sn_tick x)))
    /\ like (sn_snap x) X.
Proof.
  intros [Is Im Ic Ia] Hapi Hstep Hbase Hlen. cbn [api_ok] in Hapi.
  destruct (sender_send_ok (l_sender s) Is Hapi) as (st' & x' & Es & Ht & Hlt & Hm & Is').
  cbn [lstep] in Hstep. rewrite Es in Hstep. cbn [bind] in Hstep. injection Hstep as <- <-.
  set (e := {| h_snap := sn_snap x'; h_base := sn_base x'; h_bytes := sn_bytes x' |}) in *.
  set (T := sd_tick (l_sender s)) in *.
  destruct (si_hist _ Is' T e (aget_cons_same _ _ _)) as [E _]. cbn [sd_hist] in E.
  pose proof (eo_ne _ _ _ E) as Hne. cbn [e h_bytes] in Hne.
  pose proof (eo_tick _ _ _ E) as HT.
  destruct (eo_apply _ _ _ E) as (d & Ed & Hap). cbn [e h_bytes h_base h_snap] in Ed, Hap.
  destruct (Hap snap_empty (or_introl (conj Hbase eq_refl))) as (X & Eap & HL).
  destruct (like_same _ _ HL) as (_ & _ & Hcrc & _).
  (* the one message *)
  assert (Hmsg : sn_msgs x' = [MSnapSingle T (wrap32 (T - -1)) (Snap.crc (sn_raw (sn_snap x'))) (sn_bytes x')]).
  { rewrite Hm. unfold x_msgs, xfer_msgs, x_of, x_dt. cbn [x_tick x_base x_crc x_data e h_base h_snap h_bytes].
    rewrite (nparts_one _ Hne Hlen), Hbase. reflexivity. }
  cbn [lstep l_chan]. rewrite Hmsg.
  rewrite nth_error_app2 by lia. rewrite Nat.sub_diag. cbn [nth_error].
  (* the receiver takes it *)
  assert (Hcan : can_receive (m_recv (l_mgr s)) T = true).
  { apply (seen_can_receive _ (hist_last (sd_hist (l_sender s)))); [apply (mi_seen _ _ Im)|exact Hlt]. }
  (* the storage takes it *)
  assert (Hfront : front_tick (m_store (l_mgr s)) < T).
  { unfold front_tick. destruct (st_snaps (m_store (l_mgr s))) as [|[t0 X0] r] eqn:Esn; [lia|].
    destruct (mi_snaps _ _ Im t0 X0) as (e0 & He0 & _); [rewrite Esn; left; reflexivity|].
    destruct (si_hist _ Is t0 e0 He0) as [_ Hle]. lia. }
  destruct (add_delta_full (m_store (l_mgr s)) (Snap.crc (sn_raw (sn_snap x'))) T d X Hfront Eap (eq_sym Hcrc)) as (st2 & Ead & Hack).
  unfold deliver, manager_feed. cbn [l_mgr recv_step]. unfold Receiver.snap_single. rewrite Hcan. cbn [negb].
  unfold mgr_add_delta. cbn [rd_data_and_crc rd_delta_tick rd_tick set_result finish_delta init_delta r_result app].
  rewrite Ed. rewrite wrap32_sub_sub by reflexivity. rewrite Ead. cbn [lift_st msg_tick].
  eexists _, X, _. split; [|exact HL]. rewrite Ht. unfold manager_ack. cbn [m_store]. rewrite Hack. reflexivity.
Qed.

Theorem lrun_linv tr : forall s, linv s -> follows_api sz s tr = true ->
  exists s', lrun sz s tr = Ok s' /\ linv s'.
Proof.
  induction tr as [|l tr IH]; intros s I Hf; [exists s; split; [reflexivity|exact I]|].
  cbn [follows_api] in Hf. apply andb_true_iff in Hf. destruct Hf as [Hapi Hf].
  destruct (lstep_linv s l I Hapi) as (s1 & o & Es & I1). rewrite Es in Hf.
  cbn [lrun]. rewrite Es. cbn [bind]. apply IH; assumption.
Qed.

End Inv.

(* 0.6 reader on arbitrary input: Packet::read never panics (given a scratch buffer of at
   least MAX_PACKETSIZE bytes), every view it returns lies inside the input or inside the
   scratch buffer, and whatever it accepts is a value inside the writer's size limits
   (expressible6), hence can be written again and is read back as the same value. *)
From LibTw2 Require Import Base.Res Base.Bits Model.PacketTypes Model.PacketBase Gen.Consts6 Gen.Bits6
  Model.Packet6 Proofs.PktSweep Proofs.PktBits6 Proofs.Packet6Write Proofs.Packet6Read Proofs.Packet6Chunks.
From Coq Require Import ZArith Lia Bool List.
Open Scope Z_scope.

Definition ok_or_err {E A} (r : res E A) : Prop :=
  match r with Ok _ | Err _ => True | Panic _ | OutOfFuel => False end.

(* where a view may point *)
(* cap = Some c: the scratch buffer has c bytes; None: no claim about the scratch buffer *)
Definition in_buf (nbytes : nat) (cap : option nat) (src : source) (n : nat) : Prop :=
  match src with
  | Input => (n <= nbytes)%nat
  | Scratch => match cap with Some c => (n <= c)%nat | None => True end
  end.
Definition view_ok (nbytes : nat) (cap : option nat) (v : view) : Prop :=
  in_buf nbytes cap (v_src v) (v_off v + v_len v).
(* with a claim about the scratch buffer (cap = Some _) comes the claim that slices hold bytes *)
Definition slice_ok (nbytes : nat) (cap : option nat) (s : slice) : Prop :=
  in_buf nbytes cap (s_src s) (s_off s + length (s_data s))
  /\ (cap = None \/ bytes_ok (s_data s) = true).

Lemma in_buf_le nb cap src n m : in_buf nb cap src n -> (m <= n)%nat -> in_buf nb cap src m.
Proof. unfold in_buf. destruct src; [|destruct cap]; intros; try exact I; lia. Qed.

Lemma slice_take_ok nb cap n s : slice_ok nb cap s -> slice_ok nb cap (slice_take n s).
Proof.
  unfold slice_ok, slice_take. cbn [s_src s_off s_data]. intros [H Hb]. split.
  - apply (in_buf_le _ _ _ _ _ H). rewrite firstn_length. lia.
  - destruct Hb as [Hb|Hb]; [left; exact Hb|right; apply bytes_ok_firstn, Hb].
Qed.
Lemma slice_skip_ok nb cap n s : slice_ok nb cap s -> (n <= length (s_data s))%nat ->
  slice_ok nb cap (slice_skip n s).
Proof.
  unfold slice_ok, slice_skip. cbn [s_src s_off s_data]. intros [H Hb] Hn. split.
  - apply (in_buf_le _ _ _ _ _ H). rewrite skipn_length. lia.
  - destruct Hb as [Hb|Hb]; [left; exact Hb|right; apply bytes_ok_skipn, Hb].
Qed.
Lemma view_of_ok nb cap s : slice_ok nb cap s -> view_ok nb cap (view_of s).
Proof. unfold slice_ok, view_ok, view_of. cbn [v_src v_off v_len]. exact (fun H => proj1 H). Qed.

Lemma bytes_ok_cons b bs : bytes_ok (b :: bs) = true -> byteb b = true /\ bytes_ok bs = true.
Proof. unfold bytes_ok. cbn [forallb]. intros H. apply andb_true_iff in H. exact H. Qed.

(* the header of a well-formed datagram unpacks to in-range fields *)
Lemma header_of6_ok bs h ws payload : bytes_ok bs = true -> header_of6 bs = Some (h, ws, payload) ->
  ph6_in_range h = true /\ length bs = (3 + length payload)%nat
  /\ exists hp, PacketHeaderPacked6_unpack_warn hp = (h, ws) /\ php6_bytes_ok hp = true
                /\ bs = PacketHeaderPacked6_as_bytes hp ++ payload.
Proof.
  intros Hb. unfold header_of6. destruct bs as [|b0 [|b1 [|b2 r]]]; cbn [PacketHeaderPacked6_of_bytes]; try discriminate.
  apply bytes_ok_cons in Hb as [H0 Hb]. apply bytes_ok_cons in Hb as [H1 Hb]. apply bytes_ok_cons in Hb as [H2 Hb].
  set (hp := {| php6_flags_padding_ack := b0; php6_ack := b1; php6_num_chunks := b2 |}).
  assert (Hp : php6_bytes_ok hp = true) by (unfold php6_bytes_ok, hp; cbn; rewrite H0, H1, H2; reflexivity).
  destruct (ph6_unpack_in_range hp Hp) as [Hr _].
  destruct (PacketHeaderPacked6_unpack_warn hp) as [h' ws'] eqn:E. intros H. injection H as <- <- <-.
  split; [exact Hr|]. split; [reflexivity|]. exists hp. repeat split; assumption.
Qed.

Lemma ph6_in_range_facts h : ph6_in_range h = true ->
  0 <= ph6_flags h < 16 /\ 0 <= ph6_ack h < 1024 /\ 0 <= ph6_num_chunks h < 256.
Proof.
  unfold ph6_in_range. intros H. apply andb_true_iff in H as [H H5]. apply byteb_iff in H5.
  apply andb_true_iff in H as [H H4]. apply andb_true_iff in H as [H H3]. apply andb_true_iff in H as [H1 H2].
  lia.
Qed.

Lemma fake_flags_range f : 0 <= f < 16 -> 0 <= Z.land f (Z.lxor PACKETFLAG_COMPRESSION 255) < 16.
Proof.
  intros H. assert (Hf : 0 <= f < Z.of_nat 16) by (change (Z.of_nat 16) with 16; lia).
  assert (E : (0 <=? Z.land f (Z.lxor PACKETFLAG_COMPRESSION 255)) && (Z.land f (Z.lxor PACKETFLAG_COMPRESSION 255) <? 16) = true)
    by (rsweep1 16%nat f Hf).
  lia.
Qed.

Section Total.
Variable decomp : HuffC.

(* Packet::decompress never panics on a compressed, connected datagram: it fails exactly
   when the Huffman decoder reports a capacity error *)
Lemma decompress6_spec bs h ws payload cap :
  bytes_ok bs = true -> header_of6 bs = Some (h, ws, payload) ->
  land_ne0 (ph6_flags h) PACKETFLAG_CONNLESS = false ->
  land_ne0 (ph6_flags h) PACKETFLAG_COMPRESSION = true ->
  Z.of_nat (length bs) >? MAX_PACKETSIZE = false -> (1400 <= cap)%nat ->
  exists hb, length hb = 3%nat
    /\ decompress6 decomp bs cap
       = match decomp payload (cap - 3)%nat with None => Err tt | Some d => Ok (hb ++ d) end
    /\ (forall d, PacketHeaderPacked6_of_bytes (hb ++ d) = match PacketHeaderPacked6_of_bytes hb with
                                                          | Some (p, _) => Some (p, d) | None => None end)
    /\ PacketHeaderPacked6_of_bytes hb <> None.
Proof.
  intros Hb Eh Fc Fz Hlen Hcap. destruct (header_of6_ok bs h ws payload Hb Eh) as (Hr & _ & _).
  unfold decompress6, needs_decompression6.
  replace (Z.of_nat cap <? MAX_PACKETSIZE) with false by (symmetry; apply Z.ltb_ge; unfold MAX_PACKETSIZE; lia).
  rewrite Hlen, Eh, Fc, Fz. cbn [negb andb].
  assert (Hr2 : ph6_in_range {| ph6_flags := Z.land (ph6_flags h) (Z.lxor PACKETFLAG_COMPRESSION 255);
                                ph6_ack := ph6_ack h; ph6_num_chunks := ph6_num_chunks h |} = true).
  { destruct (ph6_in_range_facts h Hr) as (R1 & R2 & R3).
    pose proof (fake_flags_range (ph6_flags h) R1).
    unfold ph6_in_range, byteb. cbn [ph6_flags ph6_ack ph6_num_chunks]. lia. }
  destruct (ph6_pack_unpack _ Hr2) as (fp & Efp & _). rewrite Efp.
  destruct fp as [a b c]. cbn [PacketHeaderPacked6_as_bytes php6_flags_padding_ack php6_ack php6_num_chunks app length].
  replace (cap <? 3)%nat with false by (symmetry; apply Nat.ltb_ge; lia).
  exists [a; b; c]. split; [reflexivity|]. split; [reflexivity|]. split; [reflexivity|discriminate].
Qed.

Lemma payload_slice6_spec bs h ws payload cap ocap :
  bytes_ok bs = true -> header_of6 bs = Some (h, ws, payload) ->
  land_ne0 (ph6_flags h) PACKETFLAG_CONNLESS = false ->
  Z.of_nat (length bs) >? MAX_PACKETSIZE = false -> (1400 <= cap)%nat ->
  match ocap with
  | Some c0 => c0 = cap /\ (forall y c d, decomp y c = Some d -> (length d <= c)%nat /\ bytes_ok d = true)
  | None => True
  end ->
  match payload_slice6 decomp bs (Some cap) (ph6_flags h) payload with
  | Ok p => slice_ok (length bs) ocap p /\ s_off p = 3%nat
  | Err e => e = E6Compression
  | _ => False
  end.
Proof.
  intros Hb Eh Fc Hlen Hcap Hd. destruct (header_of6_ok bs h ws payload Hb Eh) as (_ & Hl & hp0 & _ & _ & Ebs).
  assert (Hpb : bytes_ok payload = true).
  { rewrite Ebs, bytes_ok_app in Hb. apply andb_true_iff in Hb as [_ Hb]. exact Hb. }
  unfold payload_slice6. destruct (land_ne0 (ph6_flags h) PACKETFLAG_COMPRESSION) eqn:Fz.
  - destruct (decompress6_spec bs h ws payload cap Hb Eh Fc Fz Hlen Hcap) as (hb & Hhb & E & Hof & Hnn).
    rewrite E. destruct (decomp payload (cap - 3)%nat) as [d|] eqn:Ed; [|reflexivity].
    cbv beta iota. rewrite Hof. destruct (PacketHeaderPacked6_of_bytes hb) as [[p0 r0]|]; [|contradiction].
    unfold slice_ok, in_buf. cbn [s_src s_off s_data]. change (Z.to_nat HEADER_SIZE) with 3%nat.
    split; [|reflexivity]. destruct ocap as [c0|]; [|split; [exact I|left; reflexivity]].
    destruct Hd as [-> Hd]. apply Hd in Ed as [Ed1 Ed2]. split; [lia|right; exact Ed2].
  - unfold slice_ok, in_buf. cbn [s_src s_off s_data]. change (Z.to_nat HEADER_SIZE) with 3%nat.
    split; [|reflexivity]. split; [lia|right; exact Hpb].
Qed.

Lemma has_nul_firstn rest : forall n, (n <= find_nul rest)%nat -> has_nul (firstn n rest) = false.
Proof.
  induction rest as [|b r IH]; intros n Hn; [destruct n; reflexivity|].
  cbn [find_nul] in Hn. destruct n as [|n]; [reflexivity|].
  destruct (b =? 0) eqn:Eb; [lia|].
  cbn [firstn has_nul existsb]. rewrite Eb. cbn [orb]. apply IH. lia.
Qed.

Lemma find_nul_le rest : (find_nul rest <= length rest)%nat.
Proof. induction rest as [|b r IH]; cbn [find_nul length]; [lia|]. destruct (b =? 0); lia. Qed.

(* what the reader returns: nothing, an error, or a value inside the size limits whose
   views lie inside the buffers *)
Definition good_result6 (nb : nat) (cap : option nat) (r : rres6) : Prop :=
  match snd r with
  | Ok (pk, vs) => expressible6 pk = true /\ Forall (view_ok nb cap) vs
                   /\ (cap = None \/ packet_bytes_ok6 pk = true)
  | Err _ => True
  | _ => False
  end.

Lemma expressible6_connected ack (tok : option token) ty :
  (0 <=? ack) && (ack <? 1024) = true ->
  match tok with Some t => token_ok t | None => true end = true ->
  match ty with
  | P6Chunks _ n payload =>
    (0 <=? n) && (n <? 256)
    && (Z.of_nat (length payload) + (match tok with Some _ => TOKEN_SIZE | None => 0 end)
        <=? MAX_PACKETSIZE - HEADER_SIZE)
  | P6Control (C6Close reason) =>
    negb (has_nul reason) && (Z.of_nat (length reason) <=? CTRLMSG_CLOSE_REASON_LENGTH)
  | P6Control _ => true
  end = true ->
  expressible6 (P6Connected ack tok ty) = true.
Proof.
  intros Ha Ht Hy. cbn [expressible6]. rewrite Ha. destruct tok as [t|]; [rewrite Ht|]; cbn [andb]; exact Hy.
Qed.

Lemma read_control6_spec ws h (tok : option token) ack p nb cap :
  slice_ok nb cap p -> (0 <=? ack) && (ack <? 1024) = true ->
  match tok with Some t => token_ok t | None => true end = true ->
  (cap = None \/ match tok with Some t => bytes_ok t | None => true end = true) ->
  good_result6 nb cap (read_control6 ws h tok ack p).
Proof.
  intros Hs Hack Htok Htb. unfold read_control6, good_result6.
  destruct (s_data p) as [|control rest] eqn:Ed; [exact I|].
  assert (Hex : forall c, match c with C6Close _ => False | _ => True end ->
            expressible6 (P6Connected ack tok (P6Control c)) = true).
  { intros c Hc. apply expressible6_connected; [exact Hack|exact Htok|]. destruct c; try reflexivity. contradiction. }
  assert (Hbx : forall c, match c with C6Close _ => False | _ => True end ->
            cap = None \/ packet_bytes_ok6 (P6Connected ack tok (P6Control c)) = true).
  { intros c Hc. destruct Htb as [Htb|Htb]; [left; exact Htb|right]. cbn [packet_bytes_ok6].
    rewrite Htb. destruct c; try reflexivity. contradiction. }
  destruct (control =? CTRLMSG_KEEPALIVE); [cbn [snd]; split; [apply Hex; exact I|split; [constructor|apply Hbx; exact I]]|].
  destruct (control =? CTRLMSG_CONNECT); [cbn [snd]; split; [apply Hex; exact I|split; [constructor|apply Hbx; exact I]]|].
  destruct (control =? CTRLMSG_CONNECTACCEPT); [cbn [snd]; split; [apply Hex; exact I|split; [constructor|apply Hbx; exact I]]|].
  destruct (control =? CTRLMSG_ACCEPT); [cbn [snd]; split; [apply Hex; exact I|split; [constructor|apply Hbx; exact I]]|].
  destruct (control =? CTRLMSG_CLOSE); [|exact I].
  cbn [snd]. change (Z.to_nat CTRLMSG_CLOSE_REASON_LENGTH) with 127%nat.
  set (nul := Nat.min (find_nul rest) 127).
  assert (Hskip : s_data (slice_skip 1 p) = rest) by (unfold slice_skip; cbn [s_data]; rewrite Ed; reflexivity).
  split.
  - apply expressible6_connected; [exact Hack|exact Htok|]. unfold slice_take. cbn [s_data]. rewrite Hskip.
    rewrite has_nul_firstn by (unfold nul; lia). cbn [negb andb].
    apply Z.leb_le. rewrite firstn_length. unfold nul, CTRLMSG_CLOSE_REASON_LENGTH. lia.
  - assert (Hrs : slice_ok nb cap (slice_take nul (slice_skip 1 p))).
    { apply slice_take_ok, slice_skip_ok; [exact Hs|]. rewrite Ed. cbn [length]. lia. }
    split; [constructor; [apply view_of_ok, Hrs|constructor]|].
    destruct Hrs as [_ [Hn|Hrb]]; [left; exact Hn|].
    destruct Htb as [Htb|Htb]; [left; exact Htb|right]. cbn [packet_bytes_ok6]. rewrite Htb. cbn [andb]. exact Hrb.
Qed.

Lemma read_payload6_spec ws h hint p nb cap :
  ph6_in_range h = true -> slice_ok nb cap p ->
  good_result6 nb cap (read_payload6 ws h hint p).
Proof.
  intros Hr Hs. destruct (ph6_in_range_facts h Hr) as (R1 & R2 & R3).
  unfold read_payload6.
  destruct (Z.of_nat (length (s_data p)) >? MAX_PACKETSIZE - HEADER_SIZE) eqn:El; [exact I|].
  rewrite Z.gtb_ltb in El. apply Z.ltb_ge in El. unfold MAX_PACKETSIZE, HEADER_SIZE in El.
  assert (Hht : exists b, match hint with
                          | Some b => Ok b
                          | None => has_token_heuristic6 (land_ne0 (ph6_flags h) PACKETFLAG_CONTROL) (ph6_num_chunks h) (s_data p)
                          end = Ok b).
  { destruct hint as [b|]; [exists b; reflexivity|]. apply has_token_heuristic6_total; lia. }
  destruct Hht as [has_token Eht]. rewrite Eht.
  destruct (has_token && (Z.of_nat (length (s_data p)) <? TOKEN_SIZE)) eqn:Etm; [exact I|].
  assert (Hack : (0 <=? ph6_ack h) && (ph6_ack h <? 1024) = true) by lia.
  change (Z.to_nat TOKEN_SIZE) with 4%nat.
  set (p' := if has_token then slice_take (length (s_data p) - 4) p else p).
  set (tok := if has_token then Some (skipn (length (s_data p) - 4) (s_data p)) else None).
  assert (Hp' : slice_ok nb cap p') by (unfold p'; destruct has_token; [apply slice_take_ok|]; exact Hs).
  assert (Htok : match tok with Some t => token_ok t | None => true end = true).
  { unfold tok. destruct has_token; [|reflexivity]. cbn [andb] in Etm. apply Z.ltb_ge in Etm. unfold TOKEN_SIZE in Etm.
    unfold token_ok. apply Nat.eqb_eq. rewrite skipn_length. lia. }
  assert (Htb : cap = None \/ match tok with Some t => bytes_ok t | None => true end = true).
  { destruct Hs as [_ [Hc|Hsb]]; [left; exact Hc|right]. unfold tok. destruct has_token; [|reflexivity].
    apply bytes_ok_skipn, Hsb. }
  destruct (land_ne0 (ph6_flags h) PACKETFLAG_CONTROL).
  - apply read_control6_spec; assumption.
  - unfold good_result6. cbn [snd]. split; [|split; [constructor; [apply view_of_ok, Hp'|constructor]|]].
    2:{ destruct Hp' as [_ [Hc|Hpb]]; [left; exact Hc|].
        destruct Htb as [Htb|Htb]; [left; exact Htb|right]. cbn [packet_bytes_ok6].
        apply andb_true_iff. split; [exact Htb|exact Hpb]. }
    apply expressible6_connected; [exact Hack|exact Htok|].
    assert (Hl' : Z.of_nat (length (s_data p')) + (match tok with Some _ => TOKEN_SIZE | None => 0 end) <= 1397).
    { unfold p', tok, TOKEN_SIZE. destruct has_token.
      - cbn [andb] in Etm. apply Z.ltb_ge in Etm. unfold TOKEN_SIZE in Etm.
        unfold slice_take. cbn [s_data]. rewrite firstn_length. lia.
      - lia. }
    unfold MAX_PACKETSIZE, HEADER_SIZE.
    apply andb_true_iff; split; [apply andb_true_iff; split; [apply Z.leb_le|apply Z.ltb_lt]|apply Z.leb_le]; try lia.
    exact Hl'.
Qed.

(* C06: the reader is total, its views are in bounds, its values are inside the size limits *)
Theorem read6_good bs hint cap ocap : bytes_ok bs = true -> (1400 <= cap)%nat ->
  match ocap with
  | Some c0 => c0 = cap /\ (forall y c d, decomp y c = Some d -> (length d <= c)%nat /\ bytes_ok d = true)
  | None => True
  end ->
  good_result6 (length bs) ocap (read6 decomp bs hint cap).
Proof.
  intros Hb Hcap Hd. unfold read6, read_impl6.
  replace (Z.of_nat cap <? MAX_PACKETSIZE) with false by (symmetry; apply Z.ltb_ge; unfold MAX_PACKETSIZE; lia).
  destruct (Z.of_nat (length bs) >? MAX_PACKETSIZE) eqn:Elen; [exact I|].
  destruct (header_of6 bs) as [[[h ws] payload]|] eqn:Eh; [|exact I].
  destruct (header_of6_ok bs h ws payload Hb Eh) as (Hr & Hl & hp0 & _ & _ & Ebs).
  assert (Hpb : bytes_ok payload = true).
  { rewrite Ebs, bytes_ok_app in Hb. apply andb_true_iff in Hb as [_ Hb']. exact Hb'. }
  destruct (land_ne0 (ph6_flags h) PACKETFLAG_CONNLESS) eqn:Fc.
  - unfold read_connless6. destruct (Z.of_nat (length payload) <? PADDING_SIZE_CONNLESS) eqn:Ep; [exact I|].
    apply Z.ltb_ge in Ep. unfold PADDING_SIZE_CONNLESS in Ep.
    rewrite Z.gtb_ltb in Elen. apply Z.ltb_ge in Elen. unfold MAX_PACKETSIZE in Elen.
    unfold good_result6. cbn [snd s_data]. change (Z.to_nat PADDING_SIZE_CONNLESS) with 3%nat.
    change (Z.to_nat HEADER_SIZE) with 3%nat. split.
    + cbn [expressible6]. apply Z.leb_le. rewrite skipn_length. unfold MAX_PACKETSIZE, HEADER_SIZE, PADDING_SIZE_CONNLESS. lia.
    + split; [constructor; [|constructor]|].
      * unfold view_ok, view_of, in_buf. cbn [v_src v_off v_len s_src s_off s_data]. rewrite skipn_length. lia.
      * right. cbn [packet_bytes_ok6]. apply bytes_ok_skipn, Hpb.
  - pose proof (payload_slice6_spec bs h ws payload cap ocap Hb Eh Fc Elen Hcap Hd) as Hps.
    destruct (payload_slice6 decomp bs (Some cap) (ph6_flags h) payload) as [p|e|s|]; try contradiction.
    + destruct Hps as [Hs _]. apply read_payload6_spec; assumption.
    + exact I.
Qed.

(* Packet::decompress_if_needed never panics either (scratch >= MAX_PACKETSIZE) *)
Theorem decompress_if_needed6_total bs cap : bytes_ok bs = true -> (1400 <= cap)%nat ->
  ok_or_err (decompress_if_needed6 decomp bs cap).
Proof.
  intros Hb Hcap. unfold decompress_if_needed6.
  replace (Z.of_nat cap <? MAX_PACKETSIZE) with false by (symmetry; apply Z.ltb_ge; unfold MAX_PACKETSIZE; lia).
  destruct (needs_decompression6 bs) eqn:En; [|exact I]. cbn [negb].
  unfold needs_decompression6 in En.
  destruct (Z.of_nat (length bs) >? MAX_PACKETSIZE) eqn:Elen; [discriminate|].
  destruct (header_of6 bs) as [[[h ws] payload]|] eqn:Eh; [|discriminate].
  apply andb_true_iff in En as [Fc Fz]. apply negb_true_iff in Fc.
  destruct (decompress6_spec bs h ws payload cap Hb Eh Fc Fz Elen Hcap) as (hb & _ & E & _).
  rewrite E. destruct (decomp payload (cap - 3)%nat); exact I.
Qed.

(* read_panic_on_decompression: its documented panic on a compressed packet, and nothing else *)
Theorem read_nodecomp6_spec bs hint : bytes_ok bs = true ->
  match snd (read_nodecomp6 bs hint) with
  | Panic s => s = site6_read_no_buffer /\ needs_decompression6 bs = true
  | OutOfFuel => False
  | _ => True
  end.
Proof.
  intros Hb. unfold read_nodecomp6, read_impl6.
  destruct (Z.of_nat (length bs) >? MAX_PACKETSIZE) eqn:Elen; [exact I|].
  destruct (header_of6 bs) as [[[h ws] payload]|] eqn:Eh; [|exact I].
  destruct (header_of6_ok bs h ws payload Hb Eh) as (Hr & Hl & hp0 & _ & _ & Ebs).
  destruct (land_ne0 (ph6_flags h) PACKETFLAG_CONNLESS) eqn:Fc.
  - unfold read_connless6. destruct (Z.of_nat (length payload) <? PADDING_SIZE_CONNLESS); exact I.
  - unfold payload_slice6. destruct (land_ne0 (ph6_flags h) PACKETFLAG_COMPRESSION) eqn:Fz.
    + cbn [snd]. split; [reflexivity|]. unfold needs_decompression6. rewrite Elen, Eh, Fc, Fz. reflexivity.
    + assert (Hs : slice_ok (length bs) None {| s_src := Input; s_off := Z.to_nat HEADER_SIZE; s_data := payload |}).
      { unfold slice_ok, in_buf. cbn [s_src s_off s_data]. change (Z.to_nat HEADER_SIZE) with 3%nat. split; [lia|left; reflexivity]. }
      pose proof (read_payload6_spec ws h hint _ (length bs) None Hr Hs) as Hg.
      unfold good_result6 in Hg.
      destruct (snd (read_payload6 ws h hint {| s_src := Input; s_off := Z.to_nat HEADER_SIZE; s_data := payload |})) as [[pk vs]|e|s|]; auto; contradiction.
Qed.

End Total.

Section Rewrite.
Variables comp decomp : HuffC.
Hypothesis huff_rt : forall x c y, bytes_ok x = true -> comp x c = Some y ->
  forall c', (length x <= c')%nat -> decomp y c' = Some x.
(* the decoder stays within its capacity and produces bytes *)
Hypothesis decomp_ok : forall y c d, decomp y c = Some d -> (length d <= c)%nat /\ bytes_ok d = true.

(* whatever read accepts (outside class K06) is written again and read back as the same value *)
Theorem accept_rewrite6 bs hint cap ws p vs : bytes_ok bs = true -> (1400 <= cap)%nat ->
  read6 decomp bs hint cap = (ws, Ok (p, vs)) -> K06_6 p = false ->
  forall cap', (1400 <= cap')%nat ->
  exists out, write6 comp p cap' = Ok out /\ (length out <= 1400)%nat
    /\ exists ws' vs', read6 decomp out (true_hint6 p) cap = (ws', Ok (p, vs')).
Proof.
  intros Hb Hcap Er Hk cap' Hcap'.
  pose proof (read6_good decomp bs hint cap (Some cap) Hb Hcap (conj eq_refl decomp_ok)) as Hg.
  rewrite Er in Hg. unfold good_result6 in Hg. cbn [snd] in Hg. destruct Hg as (Hx & _ & [Hn|Hpb]); [discriminate Hn|].
  destruct (write6_ok comp p cap' Hx Hk Hcap') as [Ew Hl].
  exists (encoding6 comp p). split; [exact Ew|]. split; [exact Hl|].
  eexists. eexists. apply (read_encoding6 comp decomp huff_rt p cap Hx Hpb Hcap).
Qed.

(* class K06: such a value is refused by the writer *)
Theorem K06_refused6 p cap : K06_6 p = true -> write6 comp p cap = Err WE6TooLongData.
Proof.
  destruct p as [payload|ack tok ty]; cbn [K06_6]; [|discriminate].
  intros H. unfold write6, write6_full, write_connless6. rewrite H. reflexivity.
Qed.

End Rewrite.

(* and the reader does accept such values: 1391 payload bytes behind ff ff ff ff ff ff *)
Lemma K06_accepted6 : exists bs p ws vs,
  bytes_ok bs = true /\ read6 (fun _ _ => None) bs None 1400 = (ws, Ok (p, vs)) /\ K06_6 p = true.
Proof.
  exists (repeat 255 6 ++ repeat 1 1391). eexists. eexists. eexists.
  split; [vm_compute; reflexivity|]. split; [vm_compute; reflexivity|vm_compute; reflexivity].
Qed.

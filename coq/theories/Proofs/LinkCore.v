(* The sender-side and receiver-side halves of the C01 invariant, proved for the functions
   of the shared online core (so for 0.6 and 0.7 at once). *)
From LibTw2 Require Import Base.Res Model.PacketTypes Model.ConnCore Model.LinkGhost
  Proofs.ConnCoreInv Proofs.LinkArith.
From Coq Require Import ZArith Lia Bool List.
Open Scope Z_scope.

(* ---------- chunks in packets ---------- *)
Lemma chunk_is_mono c n n' sl sl' sub sub' nvs nvs' :
  chunk_is c n sl sub nvs -> n <= n' -> n' - n + sl <= sl' -> n <= zlen sub ->
  (forall i, 1 <= i <= zlen sub -> subn sub' i = subn sub i) -> incl nvs nvs' ->
  chunk_is c n' sl' sub' nvs'.
Proof.
  unfold chunk_is. intros H Hn Hs Hl Hsub Hnv. destruct (ch_vital c) as [[s r]|].
  - destruct H as [i [H1 [H2 [H3 H4]]]]. exists i. repeat split; try lia; try assumption.
    rewrite Hsub by lia. exact H4.
  - apply Hnv, H.
Qed.

Lemma pk_ok_snoc cs : forall c n n' sub sub' nvs nvs',
  pk_ok cs n sub nvs -> chunk_is c n' 512 sub' nvs' ->
  n <= n' <= n + 1 -> n <= zlen sub ->
  (forall i, 1 <= i <= zlen sub -> subn sub' i = subn sub i) -> incl nvs nvs' ->
  pk_ok (cs ++ [c]) n' sub' nvs'.
Proof.
  induction cs as [|x cs IH]; intros c n n' sub sub' nvs nvs' H Hc Hn Hl Hsub Hnv; cbn [app pk_ok] in *.
  - split; [|exact I]. unfold zlen. cbn. replace (512 + 0) with 512 by lia. exact Hc.
  - destruct H as [Hx Hr]. split.
    + apply (chunk_is_mono x n n' (512 + zlen cs) (512 + zlen (cs ++ [c])) sub sub' nvs nvs');
        try assumption; try lia.
      rewrite zlen_app. unfold zlen at 3. cbn [length]. lia.
    + eapply IH; eassumption.
Qed.

Lemma pk_ok_nonvital cs n sub nvs :
  nonvital_only cs -> Forall (fun c => In (ch_data c) nvs) cs -> pk_ok cs n sub nvs.
Proof.
  induction cs as [|c cs IH]; intros H1 H2; cbn [pk_ok]; [exact I|].
  inversion H1; subst. inversion H2; subst. split; [|apply IH; assumption].
  unfold chunk_is. rewrite H3. assumption.
Qed.

Lemma pk_ok_flight cs n sub nvs : pk_ok cs n sub nvs -> (length cs <= 255)%nat -> n <= zlen sub ->
  Forall (fun c => chunk_is c n 1024 sub nvs) cs.
Proof.
  induction cs as [|c cs IH]; intros H Hl Hn; [constructor|].
  cbn [pk_ok] in H. destruct H as [Hc Hr]. cbn [length] in Hl. constructor.
  - eapply chunk_is_mono; try eassumption; try lia; try (intros; reflexivity); try apply incl_refl.
    unfold zlen. lia.
  - apply IH; try assumption. lia.
Qed.

Lemma pk_ok_mono cs : forall n n' sub sub' nvs nvs',
  pk_ok cs n sub nvs -> n = n' -> n <= zlen sub ->
  (forall i, 1 <= i <= zlen sub -> subn sub' i = subn sub i) -> incl nvs nvs' ->
  pk_ok cs n' sub' nvs'.
Proof.
  induction cs as [|c cs IH]; intros n n' sub sub' nvs nvs' H Hn Hl Hsub Hnv; cbn [pk_ok] in *; [exact I|].
  destruct H as [Hc Hr]. split; [eapply chunk_is_mono; try eassumption; lia|eapply IH; eassumption].
Qed.

(* ---------- the sender side ---------- *)
Record snd_inv (o : online) (sub nvs : list bytes) (a : Z) : Prop := {
  si_seq : o_seq o = seqof (zlen sub);
  si_queue : queue_is (o_queue o) a (zlen sub) sub;
  si_a : 0 <= a;
  si_win : zlen sub - a < 512;
  si_pk : pk_ok (pc_chunks (o_packet o)) (zlen sub) sub nvs;
  si_nv1 : nonvital_only (pc_chunks (o_packet_nv o));
  si_nv2 : Forall (fun c => In (ch_data c) nvs) (pc_chunks (o_packet_nv o));
}.

Definition mk_flight (n dc : Z) (d : dgram) : flight := {| f_d := d; f_n := n; f_c := dc |}.

Definition pk_count_ok (p : pcontents) : Prop := pc_num p = zlen (pc_chunks p) /\ pc_num p <= 255.
Lemma pc_ok_count pp p : pc_ok pp p -> pk_count_ok p.
Proof. intros [H1 [H2 _]]. split; assumption. Qed.

Lemma flush_link pp o o' ds sub nvs a dc :
  online_flush pp o = Ok (o', ds) -> pk_count_ok (o_packet o) ->
  snd_inv o sub nvs a -> o_ack o = seqof dc -> 0 <= dc ->
  snd_inv o' sub nvs a /\ o_ack o' = o_ack o /\ pk_count_ok (o_packet o') /\ o_queue o' = o_queue o /\
  Forall (fun d => flight_ok (mk_flight (zlen sub) dc d) (zlen sub) dc sub nvs) ds.
Proof.
  intros Hf Hpc Hs Hack Hdc. unfold online_flush in Hf.
  destruct (can_send o); cbn [negb] in Hf.
  2:{ injection Hf as <- <-. split; [exact Hs|]. split; [reflexivity|]. split; [exact Hpc|]. split; [reflexivity|constructor]. }
  destruct (MAX_PACKETSIZE <? _) in Hf; [discriminate|]. injection Hf as <- <-.
  destruct Hs as [H1 H2 H3 H4 H5 H6 H7]. split; [|split; [reflexivity|split; [|split; [reflexivity|]]]].
  - constructor; cbn; try assumption; try constructor.
  - unfold pk_count_ok, o_clear, pc_empty, zlen. cbn. lia.
  - constructor; [|constructor]. unfold flight_ok, mk_flight. cbn.
    pose proof (zlen_nonneg sub). destruct Hpc as [Hn Hle].
    repeat split; try lia.
    + intros x Hx. injection Hx as <-. exact Hack.
    + unfold zlen in Hn. lia.
    + apply pk_ok_flight; try assumption; [unfold zlen in *; lia|lia].
Qed.

Lemma seq_next_o o (sub : list bytes) : o_seq o = seqof (zlen sub) -> seq_next (o_seq o) = seqof (zlen sub + 1).
Proof. intros ->. apply seq_next_seqof. Qed.

Lemma queue_link pp now o o' data vital sub nvs a :
  online_queue pp now o data vital = Ok o' -> snd_inv o sub nvs a ->
  (vital = true -> zlen (o_queue o) < 511) ->
  (if vital then snd_inv o' (sub ++ [data]) nvs a else snd_inv o' sub (data :: nvs) a) /\ o_ack o' = o_ack o.
Proof.
  intros Hq Hs Hw. destruct Hs as [H1 H2 H3 H4 H5 H6 H7]. unfold online_queue in Hq.
  pose proof (queue_is_len _ _ _ _ H2) as Hlen. pose proof (zlen_nonneg sub) as Hnn.
  destruct vital.
  - destruct (2048 <? Z.of_nat (length data)); [discriminate|].
    destruct (pc_write_chunk pp (o_packet o) data (Some (seq_next (o_seq o), false))) as [p| | |] eqn:Ew; try discriminate.
    injection Hq as <-. split; [|reflexivity].
    unfold pc_write_chunk in Ew. destruct (2 ^ p_size_bits pp <=? _) in Ew; [discriminate|].
    destruct (2048 <? _) in Ew; [discriminate|]. destruct (255 <=? _) in Ew; [discriminate|]. injection Ew as <-.
    assert (Hsub : forall i, 1 <= i <= zlen sub -> subn (sub ++ [data]) i = subn sub i)
      by (intros; apply subn_app_old; assumption).
    rewrite (seq_next_o o sub H1) in *.
    assert (Hz : zlen (sub ++ [data]) = zlen sub + 1) by (rewrite zlen_app; reflexivity).
    constructor; cbn [o_seq o_queue o_packet o_packet_nv pc_chunks]; rewrite ?Hz.
    + reflexivity.
    + apply queue_is_push; assumption.
    + assumption.
    + specialize (Hw eq_refl). lia.
    + eapply pk_ok_snoc; try eassumption; try lia; try apply incl_refl.
      unfold chunk_is. cbn. exists (zlen sub + 1). repeat split; try lia.
      symmetry. apply subn_app_new.
    + assumption.
    + assumption.
  - destruct (pc_write_chunk pp (o_packet_nv o) data None) as [nv| | |] eqn:Ew1; try discriminate.
    destruct (pc_write_chunk pp (o_packet o) data None) as [p| | |] eqn:Ew2; try discriminate.
    injection Hq as <-. split; [|reflexivity].
    unfold pc_write_chunk in Ew1, Ew2.
    destruct (2 ^ p_size_bits pp <=? _) in Ew1, Ew2; [discriminate|].
    destruct (2048 <? _) in Ew1; [discriminate|]. destruct (255 <=? _) in Ew1; [discriminate|]. injection Ew1 as <-.
    destruct (2048 <? _) in Ew2; [discriminate|]. destruct (255 <=? _) in Ew2; [discriminate|]. injection Ew2 as <-.
    assert (Hincl : incl nvs (data :: nvs)) by (apply incl_tl, incl_refl).
    constructor; unfold o_set_packets; cbn; try assumption.
    + eapply pk_ok_snoc; try eassumption; try lia; try (intros; reflexivity).
      unfold chunk_is. cbn. left. reflexivity.
    + apply Forall_app. split; [exact H6|]. constructor; [reflexivity|constructor].
    + apply Forall_app. split.
      * eapply Forall_impl; [|exact H7]. intros c Hc. right. exact Hc.
      * constructor; [left; reflexivity|constructor].
Qed.

(* ---------- send = optional flush + queue ---------- *)
Lemma send_link pp now o o' ds r data vital sub nvs a dc :
  online_send pp now o data vital = Ok (o', ds, r) -> pk_count_ok (o_packet o) ->
  snd_inv o sub nvs a -> o_ack o = seqof dc -> 0 <= dc ->
  (vital = true -> zlen (o_queue o) < 511) ->
  o_ack o' = o_ack o /\
  Forall (fun d => flight_ok (mk_flight (zlen sub) dc d) (zlen sub) dc sub nvs) ds /\
  match r with
  | SendTooLong => o' = o /\ ds = []
  | SendOk => if vital then snd_inv o' (sub ++ [data]) nvs a else snd_inv o' sub (data :: nvs) a
  end.
Proof.
  intros Hs Hpc Hinv Hack Hdc Hw. unfold online_send in Hs.
  destruct ((MAX_PAYLOAD <? Z.of_nat (length data)) || _) in Hs.
  { injection Hs as <- <- <-. split; [reflexivity|]. split; [constructor|]. split; reflexivity. }
  destruct (negb (can_fit_chunk pp (o_packet o) (Z.of_nat (length data)) vital)).
  - destruct (online_flush pp o) as [[o1 d1]| | |] eqn:Ef; cbn [bind] in Hs; try discriminate.
    destruct (flush_link pp o o1 d1 sub nvs a dc Ef Hpc Hinv Hack Hdc) as [Hi1 [Ha1 [_ [Hq1 Hfl]]]].
    destruct (online_queue pp now o1 data vital) as [o2| | |] eqn:Eq; cbn [bind] in Hs; try discriminate.
    injection Hs as <- <- <-.
    destruct (queue_link pp now o1 o2 data vital sub nvs a Eq Hi1) as [Hi2 Ha2].
    { rewrite Hq1. exact Hw. }
    split; [congruence|]. split; [exact Hfl|exact Hi2].
  - cbn [bind] in Hs.
    destruct (online_queue pp now o data vital) as [o2| | |] eqn:Eq; cbn [bind] in Hs; try discriminate.
    injection Hs as <- <- <-.
    destruct (queue_link pp now o o2 data vital sub nvs a Eq Hinv Hw) as [Hi2 Ha2].
    split; [exact Ha2|]. split; [constructor|exact Hi2].
Qed.


Lemma send_count pp now o o' ds r data vital :
  online_send pp now o data vital = Ok (o', ds, r) -> pk_count_ok (o_packet o) -> pk_count_ok (o_packet o').
Proof.
  intros Hs Hc. unfold online_send in Hs.
  destruct ((MAX_PAYLOAD <? Z.of_nat (length data)) || _) in Hs; [injection Hs as <- _ _; exact Hc|].
  assert (Hq : forall o1 o2, online_queue pp now o1 data vital = Ok o2 -> pk_count_ok (o_packet o1) -> pk_count_ok (o_packet o2)).
  { intros o1 o2 Hq [H1 H2]. unfold online_queue in Hq.
    assert (Hw : forall p v p', pc_write_chunk pp p data v = Ok p' -> pc_num p = zlen (pc_chunks p) -> pk_count_ok p').
    { intros p v p' Hw Hn. unfold pc_write_chunk in Hw. destruct (2 ^ p_size_bits pp <=? _) in Hw; [discriminate|].
      destruct (2048 <? _) in Hw; [discriminate|]. destruct (255 <=? pc_num p) eqn:E in Hw; [discriminate|].
      injection Hw as <-. unfold pk_count_ok. cbn. rewrite zlen_app. unfold zlen at 2. cbn. lia. }
    destruct vital.
    - destruct (2048 <? _) in Hq; [discriminate|].
      destruct (pc_write_chunk pp (o_packet o1) data _) as [p| | |] eqn:E; try discriminate.
      injection Hq as <-. cbn. eapply Hw; eassumption.
    - destruct (pc_write_chunk pp (o_packet_nv o1) data None) as [nv| | |]; try discriminate.
      destruct (pc_write_chunk pp (o_packet o1) data None) as [p| | |] eqn:E; try discriminate.
      injection Hq as <-. cbn. eapply Hw; eassumption. }
  destruct (negb (can_fit_chunk pp (o_packet o) (Z.of_nat (length data)) vital)).
  - destruct (online_flush pp o) as [[o1 d1]| | |] eqn:Ef; cbn [bind] in Hs; try discriminate.
    destruct (online_queue pp now o1 data vital) as [o2| | |] eqn:Eq; cbn [bind] in Hs; try discriminate.
    injection Hs as <- _ _. apply (Hq o1 o2 Eq).
    unfold online_flush in Ef. destruct (negb (can_send o)); [injection Ef as <- _; exact Hc|].
    destruct (MAX_PACKETSIZE <? _) in Ef; [discriminate|]. injection Ef as <- _.
    unfold pk_count_ok, o_clear, pc_empty, zlen. cbn. lia.
  - cbn [bind] in Hs. destruct (online_queue pp now o data vital) as [o2| | |] eqn:Eq; cbn [bind] in Hs; try discriminate.
    injection Hs as <- _ _. apply (Hq o o2 Eq Hc).
Qed.

(* ---------- resend ---------- *)
(* todo = the not yet re-queued chunks k, k+1, ... of the history, all inside the window (a, n] *)
Definition todo_is (todo : list rchunk) (k a : Z) (sub : list bytes) : Prop :=
  forall j c, nth_error todo j = Some c ->
    rc_seq c = seqof (k + Z.of_nat j) /\ rc_data c = subn sub (k + Z.of_nat j) /\
    a < k + Z.of_nat j <= zlen sub.

Lemma todo_is_tail c rest k a sub : todo_is (c :: rest) k a sub -> todo_is rest (k + 1) a sub.
Proof.
  intros H j x Hj. specialize (H (S j) x Hj). replace (k + 1 + Z.of_nat j) with (k + Z.of_nat (S j)) by lia. exact H.
Qed.

Lemma resend_loop_link pp : forall todo fuel o out ts o' out' ts' sub nvs a dc k,
  resend_loop pp fuel o todo out ts = Ok (o', out', ts') ->
  todo_is todo k a sub -> pk_count_ok (o_packet o) ->
  snd_inv o sub nvs a -> o_ack o = seqof dc -> 0 <= dc ->
  Forall (fun d => flight_ok (mk_flight (zlen sub) dc d) (zlen sub) dc sub nvs) out ->
  snd_inv o' sub nvs a /\ o_ack o' = o_ack o /\ pk_count_ok (o_packet o') /\ o_queue o' = o_queue o /\
  Forall (fun d => flight_ok (mk_flight (zlen sub) dc d) (zlen sub) dc sub nvs) out'.
Proof.
  induction todo as [|c rest IH].
  - intros fuel o out ts o' out' ts' sub nvs a dc k H _ Hc Hinv Hack Hdc Hout.
    destruct fuel; cbn [resend_loop] in H; injection H as <- <- <-;
      (split; [exact Hinv|]; split; [reflexivity|]; split; [exact Hc|]; split; [reflexivity|exact Hout]).
  - induction fuel as [|fuel IHf]; intros o out ts o' out' ts' sub nvs a dc k H Htodo Hc Hinv Hack Hdc Hout;
      cbn [resend_loop] in H; [discriminate|].
    destruct (can_fit_chunk pp (o_packet o) (Z.of_nat (length (rc_data c))) true).
    + destruct (pc_write_chunk pp (o_packet o) (rc_data c) (Some (rc_seq c, true))) as [p| | |] eqn:Ew; try discriminate.
      destruct (Htodo 0%nat c eq_refl) as [Hs0 [Hd0 Hr0]]. replace (k + Z.of_nat 0) with k in * by lia.
      unfold pc_write_chunk in Ew. destruct (2 ^ p_size_bits pp <=? _) in Ew; [discriminate|].
      destruct (2048 <? _) in Ew; [discriminate|]. destruct (255 <=? pc_num (o_packet o)) eqn:E3 in Ew; [discriminate|].
      injection Ew as <-.
      destruct Hinv as [H1 H2 H3 H4 H5 H6 H7]. destruct Hc as [Hc1 Hc2].
      destruct (IH fuel _ out ts o' out' ts' sub nvs a dc (k + 1) H) as [A [B [C [D E]]]].
      * eapply todo_is_tail, Htodo.
      * unfold pk_count_ok, o_set_packets. cbn. rewrite zlen_app. unfold zlen at 2. cbn. lia.
      * constructor; unfold o_set_packets; cbn; try assumption.
        eapply pk_ok_snoc; try eassumption; try lia; try (intros; reflexivity); try apply incl_refl.
        unfold chunk_is. cbn. exists k. repeat split; try lia; assumption.
      * exact Hack.
      * exact Hdc.
      * exact Hout.
      * split; [exact A|]. split; [exact B|]. split; [exact C|]. split; [exact D|exact E].
    + destruct (online_flush pp o) as [[o1 d1]| | |] eqn:Ef; try discriminate.
      destruct (flush_link pp o o1 d1 sub nvs a dc Ef Hc Hinv Hack Hdc) as [Hi1 [Ha1 [Hc1 [Hq1 Hfl]]]].
      destruct (IHf o1 (out ++ d1) true o' out' ts' sub nvs a dc k H Htodo Hc1 Hi1) as [A [B [C [D E]]]].
      * congruence.
      * exact Hdc.
      * apply Forall_app. split; assumption.
      * split; [exact A|]. split; [congruence|]. split; [exact C|]. split; [congruence|exact E].
Qed.

Lemma resend_link pp now o o' ds ts sub nvs a dc :
  online_resend pp now o = Ok (o', ds, ts) ->
  pk_count_ok (o_packet o) -> pk_count_ok (o_packet_nv o) ->
  snd_inv o sub nvs a -> o_ack o = seqof dc -> 0 <= dc ->
  snd_inv o' sub nvs a /\ o_ack o' = o_ack o /\ pk_count_ok (o_packet o') /\
  Forall (fun d => flight_ok (mk_flight (zlen sub) dc d) (zlen sub) dc sub nvs) ds.
Proof.
  intros Hr Hc Hcnv Hinv Hack Hdc. unfold online_resend in Hr.
  destruct (o_queue o) as [|c0 q0] eqn:Eq.
  { injection Hr as <- <- <-. split; [exact Hinv|]. split; [reflexivity|]. split; [exact Hc|constructor]. }
  rewrite <- Eq in Hr. destruct Hinv as [H1 H2 H3 H4 H5 H6 H7].
  set (q' := restart_timers now (o_queue o)) in *.
  set (o1 := {| o_own := o_own o; o_their := o_their o; o_ack := o_ack o; o_seq := o_seq o;
                o_rr := o_rr o; o_packet := o_packet_nv o; o_packet_nv := o_packet_nv o; o_queue := q' |}) in *.
  assert (Hq' : queue_is q' a (zlen sub) sub) by (apply queue_is_restart, H2).
  assert (Hinv1 : snd_inv o1 sub nvs a).
  { constructor; cbn; try assumption. apply pk_ok_nonvital; assumption. }
  assert (Htodo : todo_is (rev q') (a + 1) a sub).
  { intros j c Hj. destruct (queue_is_rev _ _ _ _ Hq' j c Hj) as [A [B C]]. repeat split; try assumption; lia. }
  destruct (resend_loop_link pp (rev q') (resend_fuel o) o1 [] false o' ds ts sub nvs a dc (a + 1) Hr Htodo
              Hcnv Hinv1 Hack Hdc (Forall_nil _)) as [A [B [C [D E]]]].
  split; [exact A|]. split; [exact B|]. split; [exact C|exact E].
Qed.

(* ---------- acknowledgements ---------- *)
Lemma ack_link o sub nvs a c :
  snd_inv o sub nvs a -> 0 <= c <= zlen sub -> zlen sub - c < 1024 ->
  snd_inv (ack_chunks o (seqof c)) sub nvs (Z.max a c).
Proof.
  intros [H1 H2 H3 H4 H5 H6 H7] Hc Hd. unfold ack_chunks.
  destruct (take_until_ack _ _ _ _ c H2 H4 Hc Hd) as [T1 T2].
  destruct (Z_lt_le_dec a c) as [Hlt|Hge].
  - destruct (T1 Hlt) as [q' [Hq Hq']]. rewrite Hq. replace (Z.max a c) with c by lia.
    constructor; cbn; try assumption; lia.
  - rewrite (T2 Hge). replace (Z.max a c) with a by lia. constructor; assumption.
Qed.

Lemma ack_chunks_same o ack :
  o_seq (ack_chunks o ack) = o_seq o /\ o_ack (ack_chunks o ack) = o_ack o /\
  o_packet (ack_chunks o ack) = o_packet o /\ o_packet_nv (ack_chunks o ack) = o_packet_nv o /\
  o_rr (ack_chunks o ack) = o_rr o.
Proof. unfold ack_chunks. destruct (take_until_seq (o_queue o) ack); repeat split. Qed.

(* ---------- the receiving side ---------- *)
(* cs: chunks of a datagram emitted when its sender had submitted fn chunks; d chunks delivered so far *)
Lemma recv_link cs : forall d rr fn sub nvs ack' rr' evs (k : Z),
  recv_chunks (seqof d) rr cs = Ok (ack', rr', evs) ->
  Forall (fun c => chunk_is c fn 1024 sub nvs) cs ->
  0 <= d <= zlen sub -> fn <= zlen sub -> zlen sub - d <= 511 ->
  zlen cs + k <= 255 -> 0 <= k ->
  (forall c s r, In c cs -> ch_vital c = Some (s, r) -> d - idx_of fn s < 768 + k) ->
  exists d', ack' = seqof d' /\ d <= d' <= zlen sub /\ d' <= d + zlen cs /\
    firstn (Z.to_nat d) sub ++ vital_payloads evs = firstn (Z.to_nat d') sub /\
    d' = d + zlen (vital_payloads evs) /\ incl (nonvital_payloads evs) nvs.
Proof.
  induction cs as [|c cs IH]; intros d rr fn sub nvs ack' rr' evs k H Hall Hd Hfn Hg Hlen Hk Hold.
  - cbn [recv_chunks] in H. injection H as <- <- <-. exists d.
    cbn [vital_payloads nonvital_payloads flat_map]. rewrite app_nil_r.
    unfold zlen in *. cbn [length] in *. repeat split; try lia; try reflexivity; try (intros x Hx; destruct Hx).
  - inversion Hall as [|c' cs' Hc Hrest]; subst. rewrite zlen_cons in Hlen. cbn [recv_chunks] in H.
    pose proof (zlen_nonneg cs) as Hcsnn.
    unfold chunk_is in Hc. destruct (ch_vital c) as [[s r]|] eqn:Ev.
    + destruct Hc as [i [Hi1 [Hi2 [Hi3 Hi4]]]].
      destruct ((s <? 0) || (SEQ_MOD <=? s)); [discriminate|].
      assert (Hidx : idx_of fn s = i) by (apply idx_of_spec; [lia|exact Hi3]).
      pose proof (Hold c s r (or_introl eq_refl) Ev) as Hold0. rewrite Hidx in Hold0.
      destruct (Z.eq_dec i (d + 1)) as [->|Hne].
      * (* the next chunk *)
        rewrite Hi3, seq_update_hit in H by reflexivity.
        destruct (recv_chunks (seqof (d + 1)) rr cs) as [[[a2 r2] e2]| | |] eqn:Er; try discriminate.
        injection H as <- <- <-.
        destruct (IH (d + 1) rr fn sub nvs a2 r2 e2 (k + 1) Er Hrest) as [d' [A [B [C [D [E F]]]]]]; try lia.
        { intros c0 s0 r0 Hin Hv0. specialize (Hold c0 s0 r0 (or_intror Hin) Hv0). lia. }
        exists d'. cbn [vital_payloads flat_map app]. fold (vital_payloads e2). rewrite !zlen_cons.
        split; [exact A|]. split; [lia|]. split; [lia|]. split.
        -- rewrite <- D. rewrite <- firstn_snoc by lia. rewrite <- app_assoc. rewrite Hi4. reflexivity.
        -- split; [lia|]. cbn [nonvital_payloads flat_map app]. exact F.
      * (* not the next chunk: its sequence number is not ack+1 either *)
        assert (Hs : s <> seqof (d + 1)).
        { rewrite Hi3. intros Heq. apply Hne. apply seqof_inj; [exact Heq|]. lia. }
        destruct (seq_update_miss d s Hs) as [o [Hu Ho]]. rewrite Hu in H.
        assert (H' : recv_chunks (seqof d) true cs = Ok (ack', rr', evs)) by (destruct o; try contradiction; exact H).
        destruct (IH d true fn sub nvs ack' rr' evs (k + 1) H' Hrest) as [d' [A [B [C [D [E F]]]]]]; try lia.
        { intros c0 s0 r0 Hin Hv0. specialize (Hold c0 s0 r0 (or_intror Hin) Hv0). lia. }
        exists d'. rewrite zlen_cons. repeat split; try assumption; lia.
    + destruct (recv_chunks (seqof d) rr cs) as [[[a2 r2] e2]| | |] eqn:Er; try discriminate.
      injection H as <- <- <-.
      destruct (IH d rr fn sub nvs a2 r2 e2 (k + 1) Er Hrest) as [d' [A [B [C [D [E F]]]]]]; try lia.
      { intros c0 s0 r0 Hin Hv0. specialize (Hold c0 s0 r0 (or_intror Hin) Hv0). lia. }
      exists d'. cbn [vital_payloads nonvital_payloads flat_map app]. fold (vital_payloads e2). fold (nonvital_payloads e2).
      rewrite zlen_cons. repeat split; try assumption; try lia.
      intros x [<-|Hx]; [exact Hc|apply F, Hx].
Qed.

(* 0.7 reader applied to what the writer produces (twin of Packet6Read.v). *)
From LibTw2 Require Import Base.Res Base.Bits Model.PacketTypes Model.PacketBase Gen.Consts7 Gen.Bits7
  Model.Packet7 Proofs.PktSweep Proofs.PktBits6 Proofs.PktBits7 Proofs.Packet7Write.
From Coq Require Import ZArith Lia Bool List.
Open Scope Z_scope.

Lemma header_of7_enc hp body : length (php7_token hp) = 4%nat ->
  header_of7 (PacketHeaderPacked7_as_bytes hp ++ body)
  = (let (h, ws) := PacketHeaderPacked7_unpack_warn hp in Some (h, ws, body)).
Proof.
  destruct hp as [a b c t]. cbn [php7_token]. intros Ht.
  destruct t as [|t0 [|t1 [|t2 [|t3 [|t4 t]]]]]; try discriminate. reflexivity.
Qed.

Lemma of_bytes7_enc hp body : length (php7_token hp) = 4%nat ->
  PacketHeaderPacked7_of_bytes (PacketHeaderPacked7_as_bytes hp ++ body) = Some (hp, body).
Proof.
  destruct hp as [a b c t]. cbn [php7_token]. intros Ht.
  destruct t as [|t0 [|t1 [|t2 [|t3 [|t4 t]]]]]; try discriminate. reflexivity.
Qed.

Lemma find_nul_app_nul m rest : has_nul m = false -> find_nul (m ++ 0 :: rest) = length m.
Proof.
  induction m as [|b m IH]; cbn [has_nul existsb app find_nul length]; intros H.
  - reflexivity.
  - apply orb_false_iff in H as [Hb Hm]. rewrite Hb. f_equal. apply IH. exact Hm.
Qed.

Section Read.
Variables comp decomp : HuffC7.
Hypothesis huff_rt : forall x c y, bytes_ok x = true -> comp x c = Some y ->
  forall c', (length x <= c')%nat -> decomp y c' = Some x.

Definition views_of7 (p : packet7) (compressed : bool) : list view :=
  match p with
  | P7Connless payload _ _ => [{| v_src := Input; v_off := 9; v_len := length payload |}]
  | P7Connected _ _ (P7Chunks _ _ payload) =>
    [{| v_src := if compressed then Scratch else Input; v_off := 7; v_len := length payload |}]
  | P7Connected _ _ (P7Control (C7Close reason)) => [{| v_src := Input; v_off := 8; v_len := length reason |}]
  | P7Connected _ _ (P7Control _) => []
  end.

Definition enc_compressed7 (p : packet7) : bool :=
  match p with
  | P7Connected _ _ (P7Chunks _ _ payload) => chunks_compressed7 comp payload
  | _ => false
  end.

Definition k05_warnings7 (p : packet7) : list warning7 := if K05_7 p then [W7ChunksNoChunks] else [].

Lemma chunk_flags_facts7 resend c :
  let f := Z.lor (bool_flag resend PACKETFLAG_REQUEST_RESEND) (bool_flag c PACKETFLAG_COMPRESSION) in
  land_ne0 f PACKETFLAG_CONNLESS = false /\ land_ne0 f PACKETFLAG_COMPRESSION = c
  /\ land_ne0 f PACKETFLAG_CONTROL = false /\ land_ne0 f PACKETFLAG_REQUEST_RESEND = resend
  /\ Z.land f (Z.lxor PACKETFLAG_COMPRESSION 255) = bool_flag resend PACKETFLAG_REQUEST_RESEND.
Proof. destruct resend, c; vm_compute; repeat split. Qed.

Lemma read_chunks_enc7 ack tok resend nc payload cap :
  expressible7 (P7Connected ack tok (P7Chunks resend nc payload)) = true ->
  packet_bytes_ok7 (P7Connected ack tok (P7Chunks resend nc payload)) = true -> (1400 <= cap)%nat ->
  let p := P7Connected ack tok (P7Chunks resend nc payload) in
  read7 decomp (encoding7 comp p) cap
  = (k05_warnings7 p, Ok (p, views_of7 p (enc_compressed7 p))).
Proof.
  intros Hx Hbok Hcap p. cbn [expressible7] in Hx.
  apply andb_true_iff in Hx as [Hx Hty]. apply andb_true_iff in Hx as [Hack Htok].
  apply andb_true_iff in Hty as [Hnc Hlen]. apply Z.leb_le in Hlen.
  unfold token_ok in Htok. apply Nat.eqb_eq in Htok.
  assert (Hplok : bytes_ok payload = true) by (cbn [packet_bytes_ok7] in Hbok; apply andb_true_iff in Hbok as [_ Hp]; exact Hp).
  unfold p, encoding7, enc_compressed7.
  unfold chunks_flags7, chunks_body7. set (c := chunks_compressed7 comp payload).
  destruct (chunk_flags_facts7 resend c) as (F1 & F2 & F3 & F4 & F5).
  set (f := Z.lor (bool_flag resend PACKETFLAG_REQUEST_RESEND) (bool_flag c PACKETFLAG_COMPRESSION)) in *.
  assert (Hf : 0 <= f < 16) by (unfold f; destruct resend, c; vm_compute; split; congruence).
  assert (Hr : ph7_in_range {| ph7_flags := f; ph7_ack := ack; ph7_num_chunks := nc; ph7_token := tok |} = true).
  { unfold ph7_in_range, byteb. cbn [ph7_flags ph7_ack ph7_num_chunks]. lia. }
  destruct (hdr_bytes7_ok _ Hr) as (hp & Ep & Eh & Eu & Hl7). rewrite Eh.
  cbn [ph7_token] in Hl7. rewrite Htok in Hl7.
  assert (Htk : length (php7_token hp) = 4%nat).
  { destruct (ph7_pack_unpack _ Hr) as (hp' & Ep' & _ & _ & _ & Et). rewrite Ep in Ep'. injection Ep' as <-.
    rewrite Et. exact Htok. }
  set (body := if c then opt_bytes (comp payload ARRAYVEC_CAP7) else payload).
  assert (Hbody : (length body <= length payload)%nat) by (apply (chunks_body7_len comp payload)).
  unfold MAX_PACKETSIZE, HEADER_SIZE in Hlen.
  assert (Hl7' : length (PacketHeaderPacked7_as_bytes hp) = 7%nat) by (rewrite <- Eh; exact Hl7).
  unfold read7, read_impl7.
  replace (Z.of_nat cap <? MAX_PACKETSIZE) with false by (symmetry; apply Z.ltb_ge; unfold MAX_PACKETSIZE; lia).
  replace (Z.of_nat (length (PacketHeaderPacked7_as_bytes hp ++ body)) >? MAX_PACKETSIZE) with false
    by (symmetry; rewrite Z.gtb_ltb; apply Z.ltb_ge; rewrite app_length; unfold MAX_PACKETSIZE; lia).
  rewrite header_of7_enc by exact Htk. rewrite Eu. cbn [ph7_flags]. rewrite F1.
  assert (Eslice : payload_slice7 decomp (PacketHeaderPacked7_as_bytes hp ++ body) (Some cap) f body
                   = Ok {| s_src := if c then Scratch else Input; s_off := 7; s_data := payload |}).
  { unfold payload_slice7. rewrite F2. destruct c eqn:Ec; [|reflexivity].
    unfold body, c, chunks_compressed7 in *. destruct (comp payload ARRAYVEC_CAP7) as [s|] eqn:Es; [|discriminate].
    cbn [opt_bytes] in *.
    unfold decompress7.
    replace (Z.of_nat cap <? MAX_PACKETSIZE) with false by (symmetry; apply Z.ltb_ge; unfold MAX_PACKETSIZE; lia).
    unfold needs_decompression7.
    replace (Z.of_nat (length (PacketHeaderPacked7_as_bytes hp ++ s)) >? MAX_PACKETSIZE) with false
      by (symmetry; rewrite Z.gtb_ltb; apply Z.ltb_ge; rewrite app_length; unfold MAX_PACKETSIZE; lia).
    rewrite header_of7_enc by exact Htk. rewrite Eu. cbn [ph7_flags ph7_ack ph7_num_chunks ph7_token]. rewrite F1, F2. cbn [negb andb].
    rewrite F5.
    assert (Hr2 : ph7_in_range {| ph7_flags := bool_flag resend PACKETFLAG_REQUEST_RESEND; ph7_ack := ack; ph7_num_chunks := nc; ph7_token := tok |} = true).
    { unfold ph7_in_range, byteb. cbn [ph7_flags ph7_ack ph7_num_chunks]. destruct resend; cbn [bool_flag]; unfold PACKETFLAG_REQUEST_RESEND; lia. }
    destruct (ph7_pack_unpack _ Hr2) as (fp & Efp & _ & _ & _ & Eft). rewrite Efp. cbn [ph7_token] in Eft.
    assert (Hfl : length (PacketHeaderPacked7_as_bytes fp) = 7%nat).
    { destruct fp as [a b c0 t]. cbn [php7_token] in Eft. subst t. unfold PacketHeaderPacked7_as_bytes.
      cbn [php7_padding_flags_ack php7_ack php7_num_chunks php7_token app length]. rewrite Htok. reflexivity. }
    rewrite Hfl. replace (cap <? 7)%nat with false by (symmetry; apply Nat.ltb_ge; lia).
    rewrite (huff_rt payload ARRAYVEC_CAP7 s Hplok Es (cap - 7)%nat) by lia.
    rewrite of_bytes7_enc by (rewrite Eft; exact Htok). reflexivity. }
  rewrite Eslice. unfold read_payload7. cbn [s_data ph7_flags ph7_ack ph7_num_chunks ph7_token].
  replace (Z.of_nat (length payload) >? MAX_PACKETSIZE - HEADER_SIZE) with false
    by (symmetry; rewrite Z.gtb_ltb; apply Z.ltb_ge; unfold MAX_PACKETSIZE, HEADER_SIZE; lia).
  rewrite F3, F4. unfold k05_warnings7, K05_7, views_of7, view_of. cbn [s_data s_src s_off app].
  destruct resend; destruct (nc =? 0); reflexivity.
Qed.

Lemma read_control_enc7 ack tok c cap :
  expressible7 (P7Connected ack tok (P7Control c)) = true -> K06T_7 (P7Connected ack tok (P7Control c)) = false ->
  (1400 <= cap)%nat ->
  let p := P7Connected ack tok (P7Control c) in
  read7 decomp (encoding7 comp p) cap = ([], Ok (p, views_of7 p false)).
Proof.
  intros Hx Hkt Hcap p. cbn [expressible7] in Hx.
  apply andb_true_iff in Hx as [Hx Hty]. apply andb_true_iff in Hx as [Hack Htok].
  unfold token_ok in Htok. apply Nat.eqb_eq in Htok.
  assert (Hr : ph7_in_range {| ph7_flags := PACKETFLAG_CONTROL; ph7_ack := ack; ph7_num_chunks := 0; ph7_token := tok |} = true).
  { unfold ph7_in_range, byteb, PACKETFLAG_CONTROL. cbn [ph7_flags ph7_ack ph7_num_chunks]. lia. }
  destruct (hdr_bytes7_ok _ Hr) as (hp & Ep & Eh & Eu & Hl7). cbn [ph7_token] in Hl7. rewrite Htok in Hl7.
  assert (Htk : length (php7_token hp) = 4%nat).
  { destruct (ph7_pack_unpack _ Hr) as (hp' & Ep' & _ & _ & _ & Et). rewrite Ep in Ep'. injection Ep' as <-.
    rewrite Et. exact Htok. }
  assert (Hl7' : length (PacketHeaderPacked7_as_bytes hp) = 7%nat) by (rewrite <- Eh; exact Hl7).
  unfold p, encoding7. rewrite Eh.
  set (body := control_body7 c tok).
  assert (Hbl : (1 <= length body <= 1 + 4 + 507)%nat).
  { unfold body, control_body7, token_ok, CTRLMSG_CLOSE_REASON_LENGTH in *.
    change (Z.to_nat TOKEN_REQUEST_ADDITIONAL) with 507%nat.
    destruct c as [|rt| |m|rt]; try apply Nat.eqb_eq in Hty; try (apply andb_true_iff in Hty as [_ Hml]);
    try destruct (bytes_eqb tok TOKEN_NONE);
    repeat (progress (rewrite ?app_length, ?repeat_length; cbn [length])); lia. }
  unfold read7, read_impl7.
  replace (Z.of_nat cap <? MAX_PACKETSIZE) with false by (symmetry; apply Z.ltb_ge; unfold MAX_PACKETSIZE; lia).
  replace (Z.of_nat (length (PacketHeaderPacked7_as_bytes hp ++ body)) >? MAX_PACKETSIZE) with false
    by (symmetry; rewrite Z.gtb_ltb; apply Z.ltb_ge; rewrite app_length; unfold MAX_PACKETSIZE; lia).
  rewrite header_of7_enc by exact Htk. rewrite Eu. cbn [ph7_flags].
  change (land_ne0 PACKETFLAG_CONTROL PACKETFLAG_CONNLESS) with false. cbv iota.
  unfold payload_slice7. change (land_ne0 PACKETFLAG_CONTROL PACKETFLAG_COMPRESSION) with false. cbv iota.
  unfold read_payload7. cbn [s_data ph7_flags].
  replace (Z.of_nat (length body) >? MAX_PACKETSIZE - HEADER_SIZE) with false
    by (symmetry; rewrite Z.gtb_ltb; apply Z.ltb_ge; unfold MAX_PACKETSIZE, HEADER_SIZE; lia).
  change (land_ne0 PACKETFLAG_CONTROL PACKETFLAG_CONTROL) with true. cbv iota.
  unfold read_control7. cbn [ph7_flags ph7_ack ph7_num_chunks ph7_token s_data].
  change (land_ne0 PACKETFLAG_CONTROL PACKETFLAG_COMPRESSION) with false.
  change (land_ne0 PACKETFLAG_CONTROL PACKETFLAG_REQUEST_RESEND) with false.
  cbn [Z.eqb negb orb app]. cbv iota.
  unfold views_of7. rewrite app_length, Hl7'.
  unfold body, control_body7, CTRLMSG_CLOSE_REASON_LENGTH in *. cbn [K06T_7] in Hkt.
  destruct c as [|rt| |m|rt]; cbn [ctrl_magic7 app].
  - reflexivity.
  - unfold token_ok in Hty. apply Nat.eqb_eq in Hty.
    destruct rt as [|r0 [|r1 [|r2 [|r3 [|r4 rt]]]]]; try discriminate. reflexivity.
  - reflexivity.
  - apply andb_true_iff in Hty as [Hn Hml]. apply negb_true_iff in Hn. apply Z.leb_le in Hml.
    change (CTRLMSG_CLOSE =? CTRLMSG_KEEPALIVE) with false. change (CTRLMSG_CLOSE =? CTRLMSG_CONNECT) with false.
    change (CTRLMSG_CLOSE =? CTRLMSG_ACCEPT) with false. change (CTRLMSG_CLOSE =? CTRLMSG_CLOSE) with true.
    cbv iota.
    rewrite find_nul_app_nul by exact Hn.
    change (Z.to_nat 127) with 127%nat. rewrite Nat.min_l by lia.
    rewrite app_length. cbn [length].
    replace (length m + 1 =? 0)%nat with false by (symmetry; apply Nat.eqb_neq; lia).
    replace (length m + 1 =? length m + 1)%nat with true by (symmetry; apply Nat.eqb_refl).
    cbn [negb andb app]. unfold slice_take, slice_skip, view_of. cbn [s_data s_src s_off skipn].
    rewrite firstn_app_exact. reflexivity.
  - unfold token_ok in Hty. apply Nat.eqb_eq in Hty.
    change (CTRLMSG_TOKEN =? CTRLMSG_KEEPALIVE) with false. change (CTRLMSG_TOKEN =? CTRLMSG_CONNECT) with false.
    change (CTRLMSG_TOKEN =? CTRLMSG_ACCEPT) with false. change (CTRLMSG_TOKEN =? CTRLMSG_CLOSE) with false.
    change (CTRLMSG_TOKEN =? CTRLMSG_TOKEN) with true. cbv iota.
    destruct rt as [|r0 [|r1 [|r2 [|r3 [|r4 rt]]]]]; try discriminate.
    destruct (bytes_eqb tok TOKEN_NONE) eqn:Etn.
    + change (Z.to_nat TOKEN_REQUEST_ADDITIONAL) with 507%nat.
      cbn [app length]. rewrite repeat_length.
      change (Z.of_nat (7 + S (S (S (S (S 507))))) <? TOKEN_REQUEST_PACKET_SIZE) with false.
      cbn [andb negb firstn]. reflexivity.
    + cbn [andb negb app length firstn Nat.ltb Nat.leb Nat.eqb]. reflexivity.
Qed.

Lemma read_connless_enc7 payload tok rtok cap :
  expressible7 (P7Connless payload tok rtok) = true -> (1400 <= cap)%nat ->
  read7 decomp (encoding7 comp (P7Connless payload tok rtok)) cap
  = ([], Ok (P7Connless payload tok rtok, views_of7 (P7Connless payload tok rtok) false)).
Proof.
  intros Hx Hcap. cbn [expressible7] in Hx. apply andb_true_iff in Hx as [Hx Hrt]. apply andb_true_iff in Hx as [Hl Ht].
  apply Z.leb_le in Hl. unfold MAX_PACKETSIZE, HEADER_SIZE_CONNLESS in Hl.
  unfold token_ok in Ht, Hrt. apply Nat.eqb_eq in Ht, Hrt.
  destruct tok as [|t0 [|t1 [|t2 [|t3 [|t4 tok]]]]]; try discriminate.
  destruct rtok as [|r0 [|r1 [|r2 [|r3 [|r4 rtok]]]]]; try discriminate.
  unfold encoding7, hdrc_bytes7.
  change (PacketHeaderConnless7_pack {| phc7_flags := PACKETFLAG_CONNLESS; phc7_version := CONNLESS_VERSION;
            phc7_token := [t0; t1; t2; t3]; phc7_response_token := [r0; r1; r2; r3] |})
    with (@Ok Empty_set _ {| phcp7_padding_flags_version := 33; phcp7_token := [t0; t1; t2; t3]; phcp7_response_token := [r0; r1; r2; r3] |}).
  unfold PacketHeaderConnlessPacked7_as_bytes. cbn [phcp7_padding_flags_version phcp7_token phcp7_response_token app].
  unfold read7, read_impl7.
  replace (Z.of_nat cap <? MAX_PACKETSIZE) with false by (symmetry; apply Z.ltb_ge; unfold MAX_PACKETSIZE; lia).
  cbn [length].
  replace (Z.of_nat (S (S (S (S (S (S (S (S (S (length payload)))))))))) >? MAX_PACKETSIZE) with false
    by (symmetry; rewrite Z.gtb_ltb; apply Z.ltb_ge; unfold MAX_PACKETSIZE; lia).
  unfold header_of7. cbn [PacketHeaderPacked7_of_bytes].
  unfold PacketHeaderPacked7_unpack_warn. cbn [php7_padding_flags_ack php7_ack php7_num_chunks php7_token ph7_flags].
  change (negb (Z.land 33 192 =? 0)) with false. cbv iota.
  change (land_ne0 (Z.shiftr (Z.land 33 60) 2) PACKETFLAG_CONNLESS) with true. cbv iota.
  unfold read_connless7. cbn [PacketHeaderConnlessPacked7_of_bytes].
  unfold PacketHeaderConnlessPacked7_unpack_warn.
  cbn [phcp7_padding_flags_version phcp7_token phcp7_response_token phc7_version phc7_flags phc7_token phc7_response_token].
  change (negb (Z.land 33 192 =? 0)) with false. cbv iota.
  change (negb (Z.land 33 3 =? CONNLESS_VERSION)) with false. cbv iota.
  change (land_ne0 (Z.shiftr (Z.land 33 60) 2) PACKETFLAG_COMPRESSION) with false.
  change (land_ne0 (Z.shiftr (Z.land 33 60) 2) PACKETFLAG_REQUEST_RESEND) with false.
  change (land_ne0 (Z.shiftr (Z.land 33 60) 2) PACKETFLAG_CONTROL) with false.
  cbn [orb app]. reflexivity.
Qed.

Theorem read_encoding7 p cap : expressible7 p = true -> packet_bytes_ok7 p = true -> K06T_7 p = false -> (1400 <= cap)%nat ->
  read7 decomp (encoding7 comp p) cap
  = (k05_warnings7 p, Ok (p, views_of7 p (enc_compressed7 p))).
Proof.
  intros Hx Hbok Hkt Hcap. destruct p as [payload tok rtok|ack tok [resend nc payload|c]].
  - apply read_connless_enc7; assumption.
  - apply read_chunks_enc7; assumption.
  - apply (read_control_enc7 ack tok c cap Hx Hkt Hcap).
Qed.

End Read.

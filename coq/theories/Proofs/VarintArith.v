(* Arithmetic characterisation of the bit-level varint model:
   read_int = read_int_a on byte strings, write_int = Ok (write_int_a) on i32. *)
From LibTw2 Require Import Base.Res Base.Bits Model.Varint.
From Coq Require Import ZArith Lia Bool List ZifyBool.
Open Scope Z_scope.

Ltac Zify.zify_post_hook ::= Z.div_mod_to_equations.

(* ---- byte-level facts (bit ops on one byte, by arithmetic lemmas or a 256-sweep) ---- *)

Lemma land127 b : Z.land b 127 = b mod 128.
Proof. exact (land_pow2_mask b 7 ltac:(lia)). Qed.
Lemma land63 b : Z.land b 63 = b mod 64.
Proof. exact (land_pow2_mask b 6 ltac:(lia)). Qed.

Lemma land128_sweep : forallb (fun b => Bool.eqb (Z.land b 128 =? 0) (b <? 128)) all_bytes = true.
Proof. vm_compute. reflexivity. Qed.
Lemma land128 b : 0 <= b < 256 -> (Z.land b 128 =? 0) = (b <? 128).
Proof. intros H. apply eqb_prop. exact (byte_sweep _ land128_sweep b H). Qed.

Lemma land240_sweep : forallb (fun b => Bool.eqb (Z.land b 240 =? 0) (b <? 16)) all_bytes = true.
Proof. vm_compute. reflexivity. Qed.
Lemma land240 b : 0 <= b < 256 -> (Z.land b 240 =? 0) = (b <? 16).
Proof. intros H. apply eqb_prop. exact (byte_sweep _ land240_sweep b H). Qed.

Lemma signbit_sweep : forallb (fun b => Z.land (Z.shiftr b 6) 1 =? (b / 64) mod 2) all_bytes = true.
Proof. vm_compute. reflexivity. Qed.
Lemma signbit b : 0 <= b < 256 -> Z.land (Z.shiftr b 6) 1 = (b / 64) mod 2.
Proof. intros H. apply Z.eqb_eq. exact (byte_sweep _ signbit_sweep b H). Qed.

(* the shifted piece of continuation byte number i (0-based), as arithmetic *)
Lemma piece_low b i : 0 <= b < 256 -> 0 <= i <= 2 ->
  u32_of (Z.shiftl (Z.land b 127) (6 + 7 * i)) = (b mod 128) * 2 ^ (6 + 7 * i).
Proof.
  intros Hb Hi. rewrite land127, shiftl_mul by lia. unfold u32_of, two32.
  assert (Hc : i = 0 \/ i = 1 \/ i = 2) by lia.
  destruct Hc as [-> | [-> | ->]]; [change (2 ^ (6 + 7 * 0)) with 64|change (2 ^ (6 + 7 * 1)) with 8192|change (2 ^ (6 + 7 * 2)) with 1048576]; lia.
Qed.
Lemma piece_high b : 0 <= b < 256 ->
  u32_of (Z.shiftl (Z.land b 127) (6 + 7 * 3)) = (b mod 32) * 134217728.
Proof.
  intros Hb. rewrite land127, shiftl_mul by lia. unfold u32_of, two32.
  change (2 ^ (6 + 7 * 3)) with 134217728. lia.
Qed.

(* ---- read_int, arithmetic form ---- *)

Definition fin (sign : Z) (m : Z) : Z :=
  i32_of (if sign =? 1 then all_ones32 - m else m).

Definition ovl (last : Z) (ws : list pwarn) : list pwarn :=
  if last =? 0 then ws ++ [OverlongIntEncoding] else ws.

Definition read_int_a (bs : bytes) : res unit (Z * list pwarn * bytes) :=
  match bs with
  | [] => Err tt
  | b0 :: r0 =>
    let s := (b0 / 64) mod 2 in
    let m1 := b0 mod 64 in
    if b0 <? 128 then Ok (fin s m1, [], r0) else
    match r0 with [] => Err tt | b1 :: r1 =>
    let m2 := m1 + (b1 mod 128) * 64 in
    if b1 <? 128 then Ok (fin s m2, ovl b1 [], r1) else
    match r1 with [] => Err tt | b2 :: r2 =>
    let m3 := m2 + (b2 mod 128) * 8192 in
    if b2 <? 128 then Ok (fin s m3, ovl b2 [], r2) else
    match r2 with [] => Err tt | b3 :: r3 =>
    let m4 := m3 + (b3 mod 128) * 1048576 in
    if b3 <? 128 then Ok (fin s m4, ovl b3 [], r3) else
    match r3 with [] => Err tt | b4 :: r4 =>
    let m5 := m4 + (b4 mod 32) * 134217728 in
    Ok (fin s m5, ovl b4 (if b4 <? 16 then [] else [NonZeroIntPadding]), r4)
    end end end end
  end.

Lemma lor_add_field acc x k : 0 <= k -> 0 <= acc < 2 ^ k -> Z.lor acc (x * 2 ^ k) = acc + x * 2 ^ k.
Proof. intros. apply lor_low_high; assumption. Qed.

Lemma lxor_mask s m : 0 <= m < two32 ->
  Z.lxor m (if s =? 1 then all_ones32 else 0) = if s =? 1 then all_ones32 - m else m.
Proof.
  intros Hm. destruct (s =? 1).
  - change all_ones32 with (2 ^ 32 - 1). apply lxor_ones_compl; [lia|exact Hm].
  - apply Z.lxor_0_r.
Qed.

Lemma bytes_ok_cons b bs : bytes_ok (b :: bs) = true -> 0 <= b < 256 /\ bytes_ok bs = true.
Proof.
  unfold bytes_ok. cbn [forallb]. intros H. apply andb_true_iff in H. destruct H as [Hb Hr].
  split; [unfold byte_ok in Hb; lia|exact Hr].
Qed.

Theorem read_int_arith bs : bytes_ok bs = true -> read_int bs = read_int_a bs.
Proof.
  intros Hok. destruct bs as [|b0 r0]; [reflexivity|].
  apply bytes_ok_cons in Hok as [H0 Hok].
  unfold read_int, read_int_a. rewrite signbit by exact H0. rewrite land63.
  cbn [read_loop r_src r_acc r_len r_ws r_rest].
  rewrite land128 by exact H0.
  destruct (b0 <? 128) eqn:E0.
  { cbn [r_src r_acc r_len r_ws r_rest]. rewrite lxor_mask by (unfold two32; lia).
    change (1 <? 1) with false. cbn [andb]. reflexivity. }
  destruct r0 as [|b1 r1]; [reflexivity|].
  apply bytes_ok_cons in Hok as [H1 Hok].
  change (0 =? 3) with false. cbn [andb].
  rewrite piece_low by lia. change (2 ^ (6 + 7 * 0)) with (2 ^ 6).
  rewrite lor_add_field by lia. change (2 ^ 6) with 64.
  cbn [read_loop r_src r_acc r_len r_ws r_rest].
  rewrite land128 by exact H1.
  destruct (b1 <? 128) eqn:E1.
  { cbn [r_src r_acc r_len r_ws r_rest]. rewrite lxor_mask by (unfold two32; lia).
    change (1 <? 1 + 1) with true. cbn [andb]. unfold ovl. destruct (b1 =? 0); reflexivity. }
  destruct r1 as [|b2 r2]; [reflexivity|].
  apply bytes_ok_cons in Hok as [H2 Hok].
  change (0 + 1 =? 3) with false. cbn [andb].
  rewrite piece_low by lia. change (2 ^ (6 + 7 * (0 + 1))) with (2 ^ 13).
  rewrite lor_add_field by lia. change (2 ^ 13) with 8192.
  cbn [read_loop r_src r_acc r_len r_ws r_rest].
  rewrite land128 by exact H2.
  destruct (b2 <? 128) eqn:E2.
  { cbn [r_src r_acc r_len r_ws r_rest]. rewrite lxor_mask by (unfold two32; lia).
    change (1 <? 1 + 1 + 1) with true. cbn [andb]. unfold ovl. destruct (b2 =? 0); reflexivity. }
  destruct r2 as [|b3 r3]; [reflexivity|].
  apply bytes_ok_cons in Hok as [H3 Hok].
  change (0 + 1 + 1 =? 3) with false. cbn [andb].
  rewrite piece_low by lia. change (2 ^ (6 + 7 * (0 + 1 + 1))) with (2 ^ 20).
  rewrite lor_add_field by lia. change (2 ^ 20) with 1048576.
  cbn [read_loop r_src r_acc r_len r_ws r_rest].
  rewrite land128 by exact H3.
  destruct (b3 <? 128) eqn:E3.
  { cbn [r_src r_acc r_len r_ws r_rest]. rewrite lxor_mask by (unfold two32; lia).
    change (1 <? 1 + 1 + 1 + 1) with true. cbn [andb]. unfold ovl. destruct (b3 =? 0); reflexivity. }
  destruct r3 as [|b4 r4]; [reflexivity|].
  apply bytes_ok_cons in Hok as [H4 Hok].
  change (0 + 1 + 1 + 1 =? 3) with true. cbn [andb].
  change (6 + 7 * (0 + 1 + 1 + 1)) with (6 + 7 * 3).
  rewrite piece_high by lia. change 134217728 with (2 ^ 27).
  rewrite lor_add_field by lia. change (2 ^ 27) with 134217728.
  cbn [read_loop r_src r_acc r_len r_ws r_rest].
  rewrite lxor_mask by (unfold two32; lia).
  change (1 <? 1 + 1 + 1 + 1 + 1) with true. cbn [andb].
  rewrite land240 by exact H4. unfold ovl.
  destruct (b4 <? 16); destruct (b4 =? 0); reflexivity.
Qed.

(* ---- write_int, arithmetic form ---- *)

Definition mag (v : Z) : Z := if v <? 0 then - v - 1 else v.
Definition sgn (v : Z) : Z := if v <? 0 then 1 else 0.

Definition write_int_a (v : Z) : bytes :=
  let p := mag v in let s := sgn v in
  if p <? 64 then [64 * s + p]
  else if p <? 8192 then [128 + 64 * s + p mod 64; p / 64]
  else if p <? 1048576 then [128 + 64 * s + p mod 64; 128 + (p / 64) mod 128; p / 8192]
  else if p <? 134217728 then
    [128 + 64 * s + p mod 64; 128 + (p / 64) mod 128; 128 + (p / 8192) mod 128; p / 1048576]
  else [128 + 64 * s + p mod 64; 128 + (p / 64) mod 128; 128 + (p / 8192) mod 128;
        128 + (p / 1048576) mod 128; p / 134217728].

Lemma pattern_mag v : is_i32 v = true ->
  Z.lxor (u32_of v) (if v <? 0 then all_ones32 else 0) = mag v.
Proof.
  unfold is_i32, i32_min, i32_max, mag, u32_of, two32. intros H.
  destruct (v <? 0) eqn:E.
  - change all_ones32 with (2 ^ 32 - 1). rewrite lxor_ones_compl by lia.
    change (2 ^ 32) with 4294967296. lia.
  - rewrite Z.lxor_0_r. lia.
Qed.

Lemma lor_flag7 (e : bool) next : 0 <= next < 128 ->
  Z.lor (to_bit e 7) next = (if e then 128 else 0) + next.
Proof.
  intros H. destruct e; unfold to_bit.
  - change (Z.shiftl 1 7) with (1 * 2 ^ 7). rewrite Z.lor_comm.
    rewrite lor_low_high by lia. lia.
  - rewrite Z.lor_0_l. lia.
Qed.

Lemma lor_flags76 (e s : bool) next : 0 <= next < 64 ->
  Z.lor (Z.lor (to_bit e 7) (to_bit s 6)) next
  = (if e then 128 else 0) + (if s then 64 else 0) + next.
Proof.
  intros H. unfold to_bit. change (Z.shiftl 1 7) with 128. change (Z.shiftl 1 6) with 64.
  destruct e, s; rewrite ?Z.lor_0_l, ?Z.lor_0_r.
  - change (Z.lor 128 64) with (3 * 2 ^ 6). rewrite Z.lor_comm, lor_low_high by lia. lia.
  - change 128 with (2 * 2 ^ 6). rewrite Z.lor_comm, lor_low_high by lia. lia.
  - change 64 with (1 * 2 ^ 6). rewrite Z.lor_comm, lor_low_high by lia. lia.
  - lia.
Qed.

(* one iteration of the while loop *)
Lemma write_loop_step room p : 0 < p ->
  write_loop (S room) p =
  match write_loop room (p / 128) with
  | Ok tl => Ok ((if p / 128 =? 0 then 0 else 128) + p mod 128 :: tl)
  | r => r
  end.
Proof.
  intros Hp. cbn [write_loop]. replace (p =? 0) with false by lia.
  rewrite land127, shiftr_div by lia. change (2 ^ 7) with 128.
  destruct (write_loop room (p / 128)); try reflexivity.
  rewrite lor_flag7 by lia. destruct (p / 128 =? 0); reflexivity.
Qed.
Lemma write_loop_zero room : write_loop room 0 = Ok [].
Proof. destruct room; reflexivity. Qed.

Theorem write_int_arith v : is_i32 v = true -> write_int v = Ok (write_int_a v).
Proof.
  intros Hv. unfold write_int. rewrite pattern_mag by exact Hv.
  assert (Hm : 0 <= mag v < 2147483648).
  { unfold is_i32, i32_min, i32_max in Hv. unfold mag. destruct (v <? 0) eqn:E; lia. }
  rewrite land63, shiftr_div by lia. change (2 ^ 6) with 64.
  unfold write_int_a. set (p := mag v) in *. unfold sgn.
  destruct (p <? 64) eqn:E1.
  { replace (p / 64) with 0 by lia. rewrite write_loop_zero.
    rewrite lor_flags76 by lia. cbn [Z.eqb negb]. destruct (v <? 0); f_equal; f_equal; lia. }
  rewrite write_loop_step by lia.
  destruct (p <? 8192) eqn:E2.
  { replace (p / 64 / 128) with 0 by lia. rewrite write_loop_zero.
    rewrite lor_flags76 by lia. replace (p / 64 =? 0) with false by lia. cbn [Z.eqb negb].
    destruct (v <? 0); f_equal; f_equal; try lia; f_equal; lia. }
  rewrite write_loop_step by lia.
  destruct (p <? 1048576) eqn:E3.
  { replace (p / 64 / 128 / 128) with 0 by lia. rewrite write_loop_zero.
    rewrite lor_flags76 by lia. replace (p / 64 =? 0) with false by lia.
    replace (p / 64 / 128 =? 0) with false by lia. cbn [Z.eqb negb].
    destruct (v <? 0); f_equal; f_equal; try lia; f_equal; try lia; f_equal; lia. }
  rewrite write_loop_step by lia.
  destruct (p <? 134217728) eqn:E4.
  { replace (p / 64 / 128 / 128 / 128) with 0 by lia. rewrite write_loop_zero.
    rewrite lor_flags76 by lia. replace (p / 64 =? 0) with false by lia.
    replace (p / 64 / 128 =? 0) with false by lia.
    replace (p / 64 / 128 / 128 =? 0) with false by lia. cbn [Z.eqb negb].
    destruct (v <? 0); f_equal; f_equal; try lia; f_equal; try lia; f_equal; try lia; f_equal; lia. }
  rewrite write_loop_step by lia.
  replace (p / 64 / 128 / 128 / 128 / 128) with 0 by lia. rewrite write_loop_zero.
  rewrite lor_flags76 by lia. replace (p / 64 =? 0) with false by lia.
  replace (p / 64 / 128 =? 0) with false by lia.
  replace (p / 64 / 128 / 128 =? 0) with false by lia.
  replace (p / 64 / 128 / 128 / 128 =? 0) with false by lia. cbn [Z.eqb negb].
  destruct (v <? 0); f_equal; f_equal; try lia; f_equal; try lia; f_equal; try lia; f_equal; try lia;
    f_equal; lia.
Qed.

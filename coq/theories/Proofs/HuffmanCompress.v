(* The compressor of Model/Huffman.v against its bit-level specification:
   the bytes written, read back as bits, are the code words of the symbols followed by
   zero padding; the number of bytes is the predicted one; the capacity error occurs
   exactly when the buffer is shorter than that. *)
From LibTw2 Require Import Base.Res Base.Bits Model.Huffman Proofs.HuffmanBits.
From Coq Require Import ZArith List Lia Bool.
Import ListNotations.
Open Scope Z_scope.

(* ---------- what a well-formed table provides ---------- *)

Definition sym_repr (t : table) (s : Z) : Z * Z :=
  match lookup t s with Some nd => to_symbol_repr nd | None => (0, 0) end.
Definition code (t : table) (s : Z) : list bool := code_of (sym_repr t s).
Definition codes (t : table) (syms : list Z) : list bool := flat_map (code t) syms.
(* the bit stream of an input: its code words, then the code word of EOF *)
Definition encode_bits (t : table) (x : bytes) : list bool := codes t (x ++ [EOF]).

Definition sym_range (s : Z) : Prop := 0 <= s <= 256.

Lemma in_all_symbols s : sym_range s -> In s all_symbols.
Proof.
  intros H. unfold all_symbols. apply in_map_iff. exists (Z.to_nat s). split; [unfold sym_range in H; lia|].
  apply in_seq. unfold sym_range in H. lia.
Qed.

Lemma wf_sym t s : wf_table t = true -> sym_range s ->
  exists nd, lookup t s = Some nd
    /\ 1 <= snd (to_symbol_repr nd) <= 24
    /\ 0 <= fst (to_symbol_repr nd) < 2 ^ snd (to_symbol_repr nd)
    /\ walk t (code_of (to_symbol_repr nd)) ROOT_IDX = Some s.
Proof.
  intros Hwf Hs. unfold wf_table in Hwf. apply andb_prop in Hwf as [_ Hall].
  rewrite forallb_forall in Hall. specialize (Hall s (in_all_symbols s Hs)).
  unfold sym_ok in Hall. destruct (lookup t s) as [nd|]; [|discriminate].
  exists nd. split; [reflexivity|].
  repeat (apply andb_prop in Hall as [Hall ?]).
  destruct (walk t (code_of (to_symbol_repr nd)) ROOT_IDX) as [r|]; [|discriminate].
  repeat split; try lia. f_equal. lia.
Qed.

Lemma wf_get_symbol t s : wf_table t = true -> sym_range s ->
  get_symbol t s = Ok (sym_repr t s)
  /\ 1 <= snd (sym_repr t s) <= 24 /\ 0 <= fst (sym_repr t s) < 2 ^ snd (sym_repr t s).
Proof.
  intros Hwf Hs. destruct (wf_sym t s Hwf Hs) as (nd & Hl & Hn & Hb & _).
  unfold get_symbol, get_node, sym_repr. rewrite Hl.
  unfold sym_range, NUM_SYMBOLS in *. destruct (Z.leb_spec 257 s); [lia|]. auto.
Qed.

Lemma code_length t s : length (code t s) = Z.to_nat (snd (sym_repr t s)).
Proof. unfold code, code_of. apply bits_of_length. Qed.

(* ---------- the while loop writing whole bytes of one symbol ---------- *)

Lemma byte_of_shr bits bw : 0 <= bw ->
  byte_bits 8 (Z.land (Z.shiftr bits bw) 255) = bits_of bits bw 8.
Proof.
  intros. rewrite byte_bits_bits_of. apply bits_of_ext. intros i Hi.
  rewrite testbit_shr_u8 by lia. replace (0 + i + bw) with (bw + i) by lia.
  destruct (Z.ltb_spec (0 + i) 8); [apply andb_true_r|lia].
Qed.

(* the bytes the loop writes: k whole bytes of `bits` starting at bit bw *)
Fixpoint loop_bytes (bits bw : Z) (k : nat) : bytes :=
  match k with
  | O => []
  | S k' => Z.land (Z.shiftr bits bw) 255 :: loop_bytes bits (bw + 8) k'
  end.

Lemma loop_bytes_length bits bw k : length (loop_bytes bits bw k) = k.
Proof. revert bw. induction k; intros; cbn [loop_bytes length]; [reflexivity|]. now rewrite IHk. Qed.

Lemma loop_bytes_bits bits bw k : 0 <= bw ->
  bits_of_bytes (loop_bytes bits bw k) = bits_of bits bw (8 * k).
Proof.
  revert bw. induction k; intros bw Hbw; [reflexivity|].
  cbn [loop_bytes]. rewrite bits_of_bytes_cons, byte_of_shr, IHk by lia.
  replace (8 * S k)%nat with (8 + 8 * k)%nat by lia. rewrite bits_of_app. reflexivity.
Qed.

Lemma sym_loop_spec bits n : 0 <= n <= 24 -> forall fuel bw room,
  0 <= bw <= n -> (n - bw) / 8 < Z.of_nat fuel ->
  let k := Z.to_nat ((n - bw) / 8) in
  ((k <= room)%nat ->
     sym_loop fuel bits n bw room = Ok (loop_bytes bits bw k, bw + 8 * ((n - bw) / 8), (room - k)%nat))
  /\ ((room < k)%nat -> sym_loop fuel bits n bw room = Err tt).
Proof.
  intros Hn. induction fuel as [|f IH]; intros bw room Hbw Hf k; subst k.
  - assert (n - bw < 8) by (apply Z.nle_gt; intros Hc;
      assert (1 <= (n - bw) / 8) by (apply Z.div_le_lower_bound; lia); lia).
    cbn [sym_loop]. destruct (Z.ltb_spec (n - bw) 8); [|lia].
    rewrite Z.div_small by lia. cbn [Z.to_nat loop_bytes]. split.
    + intros _. do 2 f_equal; [f_equal; lia|lia].
    + intros Hc. inversion Hc.
  - cbn [sym_loop]. destruct (Z.ltb_spec (n - bw) 8) as [Hlt|Hge].
    + rewrite Z.div_small by lia. cbn [Z.to_nat loop_bytes]. split.
      * intros _. do 2 f_equal; [f_equal; lia|lia].
      * intros Hc. inversion Hc.
    + destruct (Z.leb_spec 32 bw); [lia|].
      assert (Hq : (n - bw) / 8 = (n - (bw + 8)) / 8 + 1).
      { replace (n - bw) with ((n - (bw + 8)) + 1 * 8) by lia. rewrite Z.div_add by lia. reflexivity. }
      assert (Hq0 : 0 <= (n - (bw + 8)) / 8) by (apply Z.div_pos; lia).
      replace (Z.to_nat ((n - bw) / 8)) with (S (Z.to_nat ((n - (bw + 8)) / 8))) by lia.
      cbn [loop_bytes].
      destruct room as [|r].
      * split; [intros Hc; inversion Hc|reflexivity].
      * destruct (IH (bw + 8) r ltac:(lia) ltac:(lia)) as [Hok Herr]. split.
        -- intros Hc. rewrite Hok by lia. do 2 f_equal. f_equal. lia.
        -- intros Hc. rewrite Herr by lia. reflexivity.
Qed.

(* ---------- one symbol ---------- *)

(* output_byte | (bits << nob) as u8, as bits: the old low bits, then the new ones *)
Lemma lor_shl_bits byte bits nob k : 0 <= nob -> 0 <= byte < 2 ^ nob -> (Z.to_nat nob + k <= 8)%nat ->
  bits_of (Z.lor byte (Z.land (Z.shiftl bits nob) 255)) 0 (Z.to_nat nob + k)
  = bits_of byte 0 (Z.to_nat nob) ++ bits_of bits 0 k.
Proof.
  intros Hnob Hbyte Hk. rewrite bits_of_app. f_equal.
  - apply bits_of_ext. intros i Hi. rewrite Z.lor_spec, testbit_shl_u8 by lia.
    rewrite (Z.testbit_neg_r bits) by lia. cbn [andb]. apply orb_false_r.
  - apply bits_of_ext. intros i Hi. rewrite Z.lor_spec, testbit_shl_u8 by lia.
    rewrite (testbit_small byte nob) by lia. cbn [orb].
    replace (0 + Z.of_nat (Z.to_nat nob) + i - nob) with (0 + i) by lia.
    destruct (Z.ltb_spec (0 + Z.of_nat (Z.to_nat nob) + i) 8); [apply andb_true_r|lia].
Qed.

Lemma lor_shl_small byte bits nob n : 0 <= nob -> 0 <= n -> nob + n <= 8 ->
  0 <= byte < 2 ^ nob -> 0 <= bits < 2 ^ n ->
  0 <= Z.lor byte (Z.land (Z.shiftl bits nob) 255) < 2 ^ (nob + n).
Proof.
  intros Hnob Hn Hs Hbyte Hbits.
  pose proof (land_255_range (Z.shiftl bits nob)) as Hr.
  assert (H0 : 0 <= Z.lor byte (Z.land (Z.shiftl bits nob) 255)) by (apply Z.lor_nonneg; lia).
  split; [exact H0|]. apply small_of_testbit; [lia|exact H0|].
  intros i Hi. rewrite Z.lor_spec, testbit_shl_u8 by lia.
  rewrite (testbit_small byte nob) by lia. rewrite (testbit_small bits n) by lia. reflexivity.
Qed.

Lemma byte_ok_land v : byte_ok (Z.land v 255) = true.
Proof. pose proof (land_255_range v). unfold byte_ok. apply andb_true_intro. split; [apply Z.leb_le|apply Z.ltb_lt]; lia. Qed.

Lemma byte_ok_lor byte x nob : 0 <= nob <= 8 -> 0 <= byte < 2 ^ nob ->
  byte_ok (Z.lor byte (Z.land x 255)) = true.
Proof.
  intros Hnob Hbyte. pose proof (land_255_range x) as Hr.
  assert (H0 : 0 <= Z.lor byte (Z.land x 255)) by (apply Z.lor_nonneg; lia).
  assert (Z.lor byte (Z.land x 255) < 2 ^ 8).
  { apply small_of_testbit; [lia|exact H0|]. intros i Hi.
    rewrite Z.lor_spec, Z.land_spec, testbit_255 by lia.
    rewrite (testbit_small byte nob) by lia.
    destruct (Z.ltb_spec i 8); [lia|]. now rewrite andb_false_r. }
  unfold byte_ok. apply andb_true_intro. split; [apply Z.leb_le|apply Z.ltb_lt]; lia.
Qed.

Lemma loop_bytes_ok bits bw k : bytes_ok (loop_bytes bits bw k) = true.
Proof.
  revert bw. induction k; intros bw; [reflexivity|]. cbn [loop_bytes bytes_ok forallb].
  rewrite byte_ok_land. apply IHk.
Qed.

Lemma write_symbol_spec bits n byte nob :
  0 <= n <= 24 -> 0 <= bits < 2 ^ n -> 0 <= nob < 8 -> 0 <= byte < 2 ^ nob ->
  exists em byte',
    length em = Z.to_nat ((nob + n) / 8)
    /\ bytes_ok em = true
    /\ 0 <= byte' < 2 ^ ((nob + n) mod 8)
    /\ bits_of_bytes em ++ bits_of byte' 0 (Z.to_nat ((nob + n) mod 8))
       = bits_of byte 0 (Z.to_nat nob) ++ bits_of bits 0 (Z.to_nat n)
    /\ (forall room, (length em <= room)%nat ->
          write_symbol bits n byte nob room = Ok (em, byte', (nob + n) mod 8, (room - length em)%nat))
    /\ (forall room, (room < length em)%nat -> write_symbol bits n byte nob room = Err tt).
Proof.
  intros Hn Hbits Hnob Hbyte. unfold write_symbol.
  destruct (Z.leb_spec (8 - nob) n) as [Hge|Hlt].
  - (* the symbol completes at least one byte *)
    assert (Hq : (nob + n) / 8 = (n - (8 - nob)) / 8 + 1).
    { replace (nob + n) with ((n - (8 - nob)) + 1 * 8) by lia. rewrite Z.div_add by lia. reflexivity. }
    assert (Hm : (nob + n) mod 8 = (n - (8 - nob)) mod 8).
    { replace (nob + n) with ((n - (8 - nob)) + 1 * 8) by lia. apply Z.mod_add. lia. }
    assert (Hq0 : 0 <= (n - (8 - nob)) / 8) by (apply Z.div_pos; lia).
    assert (Hq3 : (n - (8 - nob)) / 8 <= 3) by (apply Z.div_le_upper_bound; lia).
    set (kz := (n - (8 - nob)) / 8) in *.
    set (k := Z.to_nat kz).
    set (bw := 8 - nob + 8 * kz).
    assert (Hbw : n - bw = (n - (8 - nob)) mod 8).
    { unfold bw, kz. pose proof (Z.div_mod (n - (8 - nob)) 8 ltac:(lia)). lia. }
    pose proof (Z.mod_pos_bound (n - (8 - nob)) 8 ltac:(lia)) as Hmb.
    exists (Z.lor byte (Z.land (Z.shiftl bits nob) 255) :: loop_bytes bits (8 - nob) k),
           (Z.land (Z.shiftr bits bw) 255).
    cbn [length]. rewrite loop_bytes_length.
    split; [rewrite Hq; unfold k; lia|]. split.
    { cbn [bytes_ok forallb]. rewrite (byte_ok_lor byte _ nob) by lia. apply loop_bytes_ok. }
    split.
    { rewrite Hm, <- Hbw. apply shr_u8_small; try lia. replace (bw + (n - bw)) with n by lia. exact Hbits. }
    split.
    { rewrite bits_of_bytes_cons, loop_bytes_bits, byte_bits_bits_of by lia.
      replace 8%nat with (Z.to_nat nob + Z.to_nat (8 - nob))%nat at 1 by lia.
      rewrite lor_shl_bits by lia. rewrite <- !app_assoc. f_equal.
      rewrite Hm, <- Hbw.
      replace (bits_of (Z.land (Z.shiftr bits bw) 255) 0 (Z.to_nat (n - bw))) with (bits_of bits bw (Z.to_nat (n - bw))).
      2:{ apply bits_of_ext. intros i Hi. rewrite testbit_shr_u8 by lia.
          replace (0 + i + bw) with (bw + i) by lia.
          destruct (Z.ltb_spec (0 + i) 8); [symmetry; apply andb_true_r|lia]. }
      replace (Z.to_nat n) with (Z.to_nat (8 - nob) + (8 * k + Z.to_nat (n - bw)))%nat by (unfold k; lia).
      rewrite !bits_of_app. f_equal.
      replace (0 + Z.of_nat (Z.to_nat (8 - nob))) with (8 - nob) by lia. f_equal.
      f_equal. unfold bw, k. lia. }
    split.
    + intros room Hroom. destruct room as [|r]; [lia|].
      destruct (sym_loop_spec bits n Hn 40 (8 - nob) r ltac:(lia) ltac:(fold kz; lia)) as [Hok _].
      fold kz in Hok. fold k in Hok. rewrite Hok by lia. fold bw.
      destruct (Z.leb_spec 32 bw); [lia|].
      replace ((nob + n) mod 8) with (n - bw) by lia. reflexivity.
    + intros room Hroom. destruct room as [|r]; [reflexivity|].
      destruct (sym_loop_spec bits n Hn 40 (8 - nob) r ltac:(lia) ltac:(fold kz; lia)) as [_ Herr].
      fold kz in Herr. fold k in Herr. rewrite Herr; [reflexivity|lia].
  - (* the symbol fits into the current byte *)
    assert (Hq : (nob + n) / 8 = 0) by (apply Z.div_small; lia).
    assert (Hm : (nob + n) mod 8 = nob + n) by (apply Z.mod_small; lia).
    exists [], (Z.lor byte (Z.land (Z.shiftl bits nob) 255)).
    rewrite Hq, Hm. cbn [length app bits_of_bytes flat_map]. split; [reflexivity|].
    split; [reflexivity|]. split.
    { apply lor_shl_small; lia. }
    split.
    { replace (Z.to_nat (nob + n)) with (Z.to_nat nob + Z.to_nat n)%nat by lia.
      apply lor_shl_bits; lia. }
    split.
    + intros room _. do 2 f_equal. lia.
    + intros room Hc. inversion Hc.
Qed.

(* ---------- the whole symbol sequence ---------- *)

(* bytes needed for `total` bits: a last partial byte, or the extra byte of the reference *)
Definition bytes_needed (total : Z) (bug : bool) : Z :=
  total / 8 + (if (0 <? total mod 8) || bug then 1 else 0).

Lemma codes_cons t s rest : codes t (s :: rest) = code t s ++ codes t rest.
Proof. reflexivity. Qed.

Lemma comp_syms_spec t bug : wf_table t = true -> forall syms byte nob,
  Forall sym_range syms -> 0 <= nob < 8 -> 0 <= byte < 2 ^ nob ->
  exists out,
    Z.of_nat (length out) = bytes_needed (nob + Z.of_nat (length (codes t syms))) bug
    /\ bytes_ok out = true
    /\ bits_of_bytes out
       = bits_of byte 0 (Z.to_nat nob) ++ codes t syms
         ++ repeat false (Z.to_nat (8 * bytes_needed (nob + Z.of_nat (length (codes t syms))) bug
                                    - (nob + Z.of_nat (length (codes t syms)))))
    /\ (forall room, (length out <= room)%nat -> comp_syms t syms byte nob room bug = Ok out)
    /\ (forall room, (room < length out)%nat -> comp_syms t syms byte nob room bug = Err tt).
Proof.
  intros Hwf. induction syms as [|s rest IH]; intros byte nob Hall Hnob Hbyte.
  - cbn [codes flat_map length comp_syms app]. rewrite Z.add_0_r.
    unfold bytes_needed. rewrite Z.div_small, Z.mod_small by lia.
    destruct ((0 <? nob) || bug) eqn:Hc.
    + exists [byte]. cbn [length]. split; [reflexivity|]. split.
      { cbn [bytes_ok forallb]. rewrite andb_true_r. unfold byte_ok.
        assert (2 ^ nob <= 2 ^ 8) by (apply Z.pow_le_mono_r; lia).
        apply andb_true_intro. split; [apply Z.leb_le|apply Z.ltb_lt]; lia. }
      split.
      { unfold bits_of_bytes. cbn [flat_map]. rewrite app_nil_r, byte_bits_bits_of.
        replace 8%nat with (Z.to_nat nob + Z.to_nat (8 - nob))%nat at 1 by lia.
        rewrite bits_of_app. f_equal.
        replace (Z.to_nat (8 * (0 + 1) - nob)) with (Z.to_nat (8 - nob)) by lia.
        apply bits_of_false. intros i Hi. apply (testbit_small byte nob); lia. }
      split.
      * intros room Hr. destruct room; [lia|reflexivity].
      * intros room Hr. destruct room; [reflexivity|lia].
    + apply orb_false_elim in Hc as [Hc _]. destruct (Z.ltb_spec 0 nob); [discriminate|].
      assert (nob = 0) as -> by lia.
      exists []. cbn. repeat split; intros; try reflexivity. lia.
  - inversion Hall as [|? ? Hs Hrest]; subst.
    destruct (wf_get_symbol t s Hwf Hs) as (Hget & Hn & Hb).
    destruct (sym_repr t s) as [bits n] eqn:Hsr. cbn [fst snd] in *.
    destruct (write_symbol_spec bits n byte nob ltac:(lia) Hb Hnob Hbyte)
      as (em & byte' & Hlen & Hemok & Hbyte' & Hbits & Hok & Herr).
    pose proof (Z.mod_pos_bound (nob + n) 8 ltac:(lia)) as Hmb.
    destruct (IH byte' ((nob + n) mod 8) Hrest Hmb Hbyte') as (out' & Hlen' & Houtok' & Hbits' & Hok' & Herr').
    assert (Hcl : Z.of_nat (length (code t s)) = n).
    { rewrite code_length, Hsr. cbn [snd]. lia. }
    rewrite codes_cons, app_length, Nat2Z.inj_add, Hcl.
    set (L := Z.of_nat (length (codes t rest))) in *.
    assert (Hdiv : (nob + (n + L)) / 8 = (nob + n) / 8 + ((nob + n) mod 8 + L) / 8
                   /\ (nob + (n + L)) mod 8 = ((nob + n) mod 8 + L) mod 8).
    { assert (HL : 0 <= L) by (unfold L; lia). clear - HL Hnob Hn. Z.div_mod_to_equations. lia. }
    destruct Hdiv as [Hdiv Hmod].
    assert (Hneed : bytes_needed (nob + (n + L)) bug
                    = (nob + n) / 8 + bytes_needed ((nob + n) mod 8 + L) bug).
    { unfold bytes_needed. rewrite Hdiv, Hmod. lia. }
    assert (Hk0 : 0 <= (nob + n) / 8) by (apply Z.div_pos; lia).
    exists (em ++ out'). rewrite app_length, Nat2Z.inj_add, Hlen', Hneed. split; [lia|]. split.
    { unfold bytes_ok in *. rewrite forallb_app, Hemok, Houtok'. reflexivity. }
    split.
    { rewrite bits_of_bytes_app, Hbits'. rewrite app_assoc, Hbits.
      unfold code at 1. rewrite Hsr. unfold code_of. cbn [fst snd].
      rewrite <- !app_assoc. do 3 f_equal. f_equal.
      pose proof (Z.div_mod (nob + n) 8 ltac:(lia)). lia. }
    split.
    + intros room Hroom. cbn [comp_syms]. rewrite Hget, Hok by lia.
      rewrite Hok' by lia. reflexivity.
    + intros room Hroom. cbn [comp_syms]. rewrite Hget.
      destruct (Nat.lt_ge_cases room (length em)) as [Hlt|Hge].
      * rewrite Herr by lia. reflexivity.
      * rewrite Hok by lia. rewrite Herr' by lia. reflexivity.
Qed.

(* ---------- compress, compressed_len, compressed_len_bug ---------- *)

Lemma input_syms_range x : bytes_ok x = true -> Forall sym_range (x ++ [EOF]).
Proof.
  intros H. apply Forall_app. split.
  - apply Forall_forall. intros b Hb. unfold bytes_ok in H. rewrite forallb_forall in H.
    specialize (H b Hb). unfold byte_ok in H. apply andb_prop in H as [H1 H2].
    unfold sym_range. lia.
  - constructor; [unfold sym_range, EOF; lia|constructor].
Qed.

(* number of bits of the code words of x and EOF *)
Definition bit_len (t : table) (x : bytes) : Z := Z.of_nat (length (encode_bits t x)).

Lemma bytes_needed_false L : bytes_needed L false = (L + 7) / 8.
Proof. unfold bytes_needed. rewrite orb_false_r. destruct (Z.ltb_spec 0 (L mod 8)); Z.div_mod_to_equations; lia. Qed.
Lemma bytes_needed_true L : bytes_needed L true = L / 8 + 1.
Proof. unfold bytes_needed. now rewrite orb_true_r. Qed.

Theorem compress_spec t x bug : wf_table t = true -> bytes_ok x = true ->
  exists out,
    Z.of_nat (length out) = bytes_needed (bit_len t x) bug
    /\ bytes_ok out = true
    /\ bits_of_bytes out
       = encode_bits t x ++ repeat false (Z.to_nat (8 * bytes_needed (bit_len t x) bug - bit_len t x))
    /\ forall cap, compress t x bug cap = if (length out <=? cap)%nat then Ok out else Err tt.
Proof.
  intros Hwf Hx.
  destruct (comp_syms_spec t bug Hwf (x ++ [EOF]) 0 0 (input_syms_range x Hx) ltac:(lia) ltac:(cbn; lia))
    as (out & Hlen & Hok & Hbits & Hfit & Hcap).
  exists out. unfold bit_len, encode_bits. rewrite Z.add_0_l in *. cbn [Z.to_nat bits_of app] in Hbits.
  repeat split; try assumption. intros cap. unfold compress.
  destruct (Nat.leb_spec (length out) cap); [apply Hfit|apply Hcap]; assumption.
Qed.

Lemma bit_len_syms_spec t syms : wf_table t = true -> Forall sym_range syms ->
  bit_len_syms t syms = Ok (Z.of_nat (length (codes t syms))).
Proof.
  intros Hwf. induction syms as [|s rest IH]; intros Hall; [reflexivity|].
  inversion Hall as [|? ? Hs Hrest]; subst. cbn [bit_len_syms].
  destruct (wf_get_symbol t s Hwf Hs) as (Hget & Hn & _). rewrite Hget.
  destruct (sym_repr t s) as [bits n] eqn:Hsr. rewrite (IH Hrest). f_equal.
  rewrite codes_cons, app_length, code_length, Hsr. cbn [snd] in *. lia.
Qed.

Theorem compressed_len_spec t x : wf_table t = true -> bytes_ok x = true ->
  compressed_len t x = Ok (bytes_needed (bit_len t x) false)
  /\ compressed_len_bug t x = Ok (bytes_needed (bit_len t x) true).
Proof.
  intros Hwf Hx. unfold compressed_len, compressed_len_bug, compressed_bit_len.
  rewrite (bit_len_syms_spec t _ Hwf (input_syms_range x Hx)).
  rewrite bytes_needed_false, bytes_needed_true. split; reflexivity.
Qed.

(* every code word has between 1 and 24 bits *)
Lemma bit_len_bounds t x : wf_table t = true -> bytes_ok x = true ->
  Z.of_nat (length x) + 1 <= bit_len t x <= 24 * (Z.of_nat (length x) + 1).
Proof.
  intros Hwf Hx. unfold bit_len, encode_bits.
  assert (H : forall syms, Forall sym_range syms ->
            Z.of_nat (length syms) <= Z.of_nat (length (codes t syms)) <= 24 * Z.of_nat (length syms)).
  { induction syms as [|s rest IH]; intros Hall; [cbn; lia|].
    inversion Hall as [|? ? Hs Hrest]; subst. specialize (IH Hrest).
    destruct (wf_get_symbol t s Hwf Hs) as (_ & Hn & _).
    rewrite codes_cons, app_length, code_length. cbn [length]. lia. }
  specialize (H _ (input_syms_range x Hx)). rewrite app_length in H. cbn [length] in H. lia.
Qed.

(* compress_into_vec: the capacity 3 * len + 3 always suffices, the unwrap never panics *)
Theorem compress_into_vec_spec t x : wf_table t = true -> bytes_ok x = true ->
  exists out, compress_into_vec t x = Ok out /\ forall cap, (length out <= cap)%nat -> compress t x false cap = Ok out.
Proof.
  intros Hwf Hx. destruct (compress_spec t x false Hwf Hx) as (out & Hlen & _ & _ & Hc).
  pose proof (bit_len_bounds t x Hwf Hx) as Hb. rewrite bytes_needed_false in Hlen.
  assert (Hfit : (length out <= length x * 3 + 3)%nat).
  { assert ((bit_len t x + 7) / 8 <= 3 * Z.of_nat (length x) + 3) by (Z.div_mod_to_equations; lia). lia. }
  exists out. unfold compress_into_vec. rewrite Hc.
  destruct (Nat.leb_spec (length out) (length x * 3 + 3)); [|lia]. split; [reflexivity|].
  intros cap Hcap. rewrite Hc. destruct (Nat.leb_spec (length out) cap); [reflexivity|lia].
Qed.

(* the output as a bit stream: the code words, then fewer than 8 zero bits, or exactly 8 in
   the reference-compatible form when the code words end on a byte boundary *)
Theorem compress_bits t x bug ccap c : wf_table t = true -> bytes_ok x = true ->
  compress t x bug ccap = Ok c ->
  bytes_ok c = true
  /\ exists pad : nat, bits_of_bytes c = encode_bits t x ++ repeat false pad
       /\ (pad < 8 \/ (bug = true /\ pad = 8))%nat.
Proof.
  intros Hwf Hx Hc. destruct (compress_spec t x bug Hwf Hx) as (out & Hlen & Hok & Hbits & Hcomp).
  rewrite Hcomp in Hc. destruct (length out <=? ccap)%nat; [|discriminate]. injection Hc as <-.
  split; [exact Hok|]. eexists. split; [exact Hbits|].
  pose proof (bit_len_bounds t x Hwf Hx) as Hb.
  unfold bytes_needed. destruct bug; rewrite ?orb_true_r, ?orb_false_r.
  - destruct (Z.eq_dec (bit_len t x mod 8) 0); [right|left]; Z.div_mod_to_equations; lia.
  - left. destruct (Z.ltb_spec 0 (bit_len t x mod 8)); Z.div_mod_to_equations; lia.
Qed.

Theorem len_exact t x (bug : bool) : wf_table t = true -> bytes_ok x = true ->
  exists n : nat,
    (if bug then compressed_len_bug t x else compressed_len t x) = Ok (Z.of_nat n)
    /\ (forall cap, (n <= cap)%nat -> exists c, compress t x bug cap = Ok c /\ length c = n)
    /\ (forall cap, (cap < n)%nat -> compress t x bug cap = Err tt)
    /\ (n <= 3 * length x + 4)%nat.
Proof.
  intros Hwf Hx. destruct (compress_spec t x bug Hwf Hx) as (out & Hlen & _ & _ & Hcomp).
  destruct (compressed_len_spec t x Hwf Hx) as [Hl Hlb].
  pose proof (bit_len_bounds t x Hwf Hx) as Hb.
  exists (length out). split; [|split; [|split]].
  - rewrite Hlen. destruct bug; assumption.
  - intros cap Hcap. exists out. rewrite Hcomp. destruct (Nat.leb_spec (length out) cap); [auto|lia].
  - intros cap Hcap. rewrite Hcomp. destruct (Nat.leb_spec (length out) cap); [lia|reflexivity].
  - destruct bug; rewrite ?bytes_needed_true, ?bytes_needed_false in Hlen;
      Z.div_mod_to_equations; lia.
Qed.

(* Snap::build_from_raw (the UUID registry) in terms of the stored items. *)
From LibTw2 Require Import Base.Res Model.Varint Model.Packer Model.Snap Proofs.SnapBase Proofs.SnapRep Proofs.SnapDelta
  Proofs.SnapApply Proofs.SnapOk Proofs.SnapTotal Proofs.SnapTotal2 Proofs.SnapC09.
From Coq Require Import ZArith List Lia Bool Permutation.
Import ListNotations.
Open Scope Z_scope.

Definition reg_ok (t : Z) : bool := (OFFSET_EXTENDED_TYPE_ID <=? t) && (t <? MAX_EXTENDED_TYPE_ID).

(* bfr_loop over (key, data) pairs; `has` tells whether a key is in the snapshot *)
Fixpoint bfr_abs (has : Z -> bool) (v : items) (ext : list (Z * Z)) (prev : option Z) : wres (list (Z * Z)) :=
  match v with
  | [] => wret ext
  | (k, data) :: t =>
    let ty := key_to_raw_type_id k in
    if ty =? TYPE_ID_EX then
      let (ou, ws) := item_data_to_uuid data in
      let+ _ := ((Ok tt, ws) : wres unit) in
      match ou with
      | None => werr InvalidUuidType
      | Some u =>
        if negb (reg_ok (key_to_id k)) then werr InvalidUuidType else
        match aget u ext with
        | Some _ => werr DuplicateUuidType
        | None => bfr_abs has t (ains u (key_to_id k) ext) prev
        end
      end
    else if OFFSET_EXTENDED_TYPE_ID <=? ty then
      if match prev with Some p => p =? ty | None => false end then bfr_abs has t ext prev
      else if has (key TYPE_ID_EX ty) then bfr_abs has t ext (Some ty) else werr MissingUuidType
    else bfr_abs has t ext prev
  end.

Definition has_key (S : rawsnap) (k : Z) : bool :=
  match aget k (rs_offs S) with Some _ => true | None => false end.

Lemma bfr_loop_abs S ch : rep S ch -> forall l ext prev, incl l (rs_offs S) ->
  bfr_loop S l ext prev = bfr_abs (has_key S) (map (fun kr => (fst kr, data_of ch (fst kr))) l) ext prev.
Proof.
  intros R. induction l as [|[k r] l IH]; intros ext prev Hincl; [reflexivity|].
  assert (Hincl' : incl l (rs_offs S)) by (intros x Hx; apply Hincl; right; exact Hx).
  cbn [bfr_loop map fst bfr_abs]. destruct (key_to_raw_type_id k =? TYPE_ID_EX).
  - assert (Hg : aget k (rs_offs S) = Some r).
    { apply in_aget; [apply rep_nodup_offs with ch, R|apply Hincl; left; reflexivity]. }
    destruct (rep_get _ _ _ _ R Hg) as (pre & d & post & _ & Hd & _ & Hs).
    rewrite Hs. unfold wlift. rewrite wbind_ok'. unfold data_of. rewrite Hd.
    unfold registered_type_id, reg_ok.
    destruct (item_data_to_uuid d) as [[u|] ws]; [|reflexivity].
    destruct ((OFFSET_EXTENDED_TYPE_ID <=? key_to_id k) && (key_to_id k <? MAX_EXTENDED_TYPE_ID)); cbn [negb]; [|reflexivity].
    destruct (aget u ext); [reflexivity|]. rewrite IH by exact Hincl'. reflexivity.
  - destruct (OFFSET_EXTENDED_TYPE_ID <=? key_to_raw_type_id k); [|apply IH, Hincl'].
    destruct (match prev with Some p => p =? key_to_raw_type_id k | None => false end); [apply IH, Hincl'|].
    unfold has_key. destruct (aget (key TYPE_ID_EX (key_to_raw_type_id k)) (rs_offs S)); [apply IH, Hincl'|reflexivity].
Qed.

Lemma build_from_raw_abs S ch : rep S ch ->
  build_from_raw S = (let+ ext := bfr_abs (has_key S) (view S ch) [] None in wret {| sn_raw := S; sn_ext := ext |}).
Proof. intros R. unfold build_from_raw. rewrite (bfr_loop_abs S ch R) by apply incl_refl. reflexivity. Qed.

Lemma has_key_lookup S ch k : rep S ch -> has_key S k = match aget k ch with Some _ => true | None => false end.
Proof.
  intros R. unfold has_key. destruct (aget k (rs_offs S)) eqn:E.
  - destruct (rep_get _ _ _ _ R E) as (_ & d & _ & _ & Hd & _). rewrite Hd. reflexivity.
  - apply (rep_get_none _ _ _ R) in E. rewrite E. reflexivity.
Qed.

(* the registry only depends on what the snapshot holds *)
Theorem build_from_raw_congr S ch S' ch' : rep S ch -> rep S' ch' -> (forall k, aget k ch = aget k ch') ->
  match build_from_raw S, build_from_raw S' with
  | (Ok X, ws), (Ok X', ws') => sn_ext X = sn_ext X' /\ ws = ws' /\ sn_raw X = S /\ sn_raw X' = S'
  | (Err e, ws), (Err e', ws') => e = e' /\ ws = ws'
  | (Panic _, _), _ | (OutOfFuel, _), _ => False
  | _, _ => False
  end.
Proof.
  intros R R' Heq. rewrite (build_from_raw_abs S ch R), (build_from_raw_abs S' ch' R').
  destruct (same_lookups _ _ _ _ R R' Heq) as (Hv & _ & _). rewrite <- Hv.
  assert (Hh : forall l ext prev, bfr_abs (has_key S) l ext prev = bfr_abs (has_key S') l ext prev).
  { induction l as [|[k d] l IH]; intros ext prev; [reflexivity|]. cbn [bfr_abs].
    rewrite (has_key_lookup S ch _ R), (has_key_lookup S' ch' _ R'), Heq.
    destruct (key_to_raw_type_id k =? TYPE_ID_EX).
    - destruct (item_data_to_uuid d) as [[u|] ws]; [|reflexivity]. destruct (negb (reg_ok (key_to_id k))); [reflexivity|].
      destruct (aget u ext); [reflexivity|]. rewrite IH. reflexivity.
    - destruct (OFFSET_EXTENDED_TYPE_ID <=? key_to_raw_type_id k); [|apply IH].
      destruct (match prev with Some p => p =? key_to_raw_type_id k | None => false end); [apply IH|].
      destruct (aget (key TYPE_ID_EX (key_to_raw_type_id k)) ch'); [apply IH|reflexivity]. }
  rewrite <- Hh.
  assert (Hf : forall l ext prev, match fst (bfr_abs (has_key S) l ext prev) with Panic _ | OutOfFuel => False | _ => True end).
  { induction l as [|[k d] l IH]; intros ext prev; [exact I|]. cbn [bfr_abs].
    destruct (key_to_raw_type_id k =? TYPE_ID_EX).
    - destruct (item_data_to_uuid d) as [[u|] ws]; [|exact I]. unfold wbind at 1.
      destruct (negb (reg_ok (key_to_id k))); [exact I|]. destruct (aget u ext); [exact I|].
      specialize (IH (ains u (key_to_id k) ext) prev). destruct (bfr_abs _ l _ prev) as [r w]. exact IH.
    - destruct (OFFSET_EXTENDED_TYPE_ID <=? key_to_raw_type_id k); [|apply IH].
      destruct (match prev with Some p => p =? key_to_raw_type_id k | None => false end); [apply IH|].
      destruct (has_key S (key TYPE_ID_EX (key_to_raw_type_id k))); [apply IH|exact I]. }
  specialize (Hf (view S ch) [] None).
  destruct (bfr_abs (has_key S) (view S ch) [] None) as [[ext|e|s|] ws]; cbn [fst] in Hf; try contradiction;
    unfold wbind, wret; cbn; auto.
Qed.

(* ---------- what a successful build_from_raw establishes ---------- *)
Definition uuid_of (d : list Z) : option Z := fst (item_data_to_uuid d).

Record ext_ok (ch : items) (ext : list (Z * Z)) : Prop := {
  eo_sorted : sortedb (map fst ext) = true;
  (* every entry is the registry item of its number *)
  eo_entry : forall u t, aget u ext = Some t ->
    reg_ok t = true /\ exists d, aget (key TYPE_ID_EX t) ch = Some d /\ uuid_of d = Some u /\ (4 <= length d)%nat;
  (* numbers are not shared *)
  eo_inj : forall u u' t, aget u ext = Some t -> aget u' ext = Some t -> u = u'
}.

Definition item_ok (ch : items) (ext : list (Z * Z)) (k : Z) (d : list Z) : Prop :=
  (key_to_raw_type_id k = TYPE_ID_EX -> exists u, uuid_of d = Some u /\ aget u ext = Some (key_to_id k))
  /\ (OFFSET_EXTENDED_TYPE_ID <= key_to_raw_type_id k -> aget (key TYPE_ID_EX (key_to_raw_type_id k)) ch <> None).

Definition is_reg (kd : Z * list Z) : bool := key_to_raw_type_id (fst kd) =? TYPE_ID_EX.
Definition count0 (v : items) : nat := length (filter is_reg v).

Lemma uuid_of_len d u : uuid_of d = Some u -> (4 <= length d)%nat.
Proof.
  unfold uuid_of, item_data_to_uuid. destruct d as [|a [|b [|c [|e r]]]]; cbn; try discriminate. intros _. lia.
Qed.

Lemma bfr_abs_post ch has : (forall k, has k = match aget k ch with Some _ => true | None => false end) ->
  forall v ext prev,
  (forall k d, In (k, d) v -> aget k ch = Some d /\ is_i32 k = true) -> NoDup (map fst v) ->
  ext_ok ch ext ->
  (forall u t, aget u ext = Some t -> ~ In (key TYPE_ID_EX t) (map fst v)) ->
  (forall p, prev = Some p -> aget (key TYPE_ID_EX p) ch <> None) ->
  wpost (fun ext' => ext_ok ch ext'
           /\ (forall u t, aget u ext = Some t -> aget u ext' = Some t)
           /\ (forall k d, In (k, d) v -> item_ok ch ext' k d)
           /\ (length ext' = length ext + count0 v)%nat)
        (bfr_abs has v ext prev).
Proof.
  intros Hhas. induction v as [|[k d] v IH]; intros ext prev Hv Hnd Hext Hfresh Hprev.
  - apply wpost_ret. split; [exact Hext|]. split; [auto|]. split; [intros ? ? []|]. cbn. lia.
  - inversion Hnd as [|? ? Hk Hnd']; subst.
    assert (Hv' : forall k0 d0, In (k0, d0) v -> aget k0 ch = Some d0 /\ is_i32 k0 = true) by (intros; apply Hv; right; assumption).
    destruct (Hv k d (or_introl eq_refl)) as [Hkd Hki].
    pose proof (key_to_ty_range k) as Rt. pose proof (key_to_id_range k) as Ri.
    assert (Hfresh' : forall ext1, (forall u t, aget u ext1 = Some t -> aget u ext = Some t) ->
              forall u t, aget u ext1 = Some t -> ~ In (key TYPE_ID_EX t) (map fst v)).
    { intros ext1 Hsub u t Hu Hin. apply (Hfresh u t (Hsub u t Hu)). right. exact Hin. }
    cbn [bfr_abs]. unfold count0. cbn [filter]. unfold is_reg at 1. cbn [fst]. fold (count0 v).
    destruct (Z.eqb_spec (key_to_raw_type_id k) TYPE_ID_EX) as [Ht|Ht].
    + (* a registry item *)
      assert (Hk0 : key TYPE_ID_EX (key_to_id k) = k) by (rewrite <- Ht; apply key_split, Hki).
      destruct (item_data_to_uuid d) as [ou ws] eqn:Eu.
      eapply (wpost_bind (fun _ : unit => True)); [exact I|]. intros _ _.
      destruct ou as [u|]; [|apply wpost_err].
      destruct (reg_ok (key_to_id k)) eqn:Hreg; cbn [negb]; [|apply wpost_err].
      destruct (aget u ext) as [t0|] eqn:Hu; [apply wpost_err|].
      assert (Hud : uuid_of d = Some u) by (unfold uuid_of; rewrite Eu; reflexivity).
      eapply wpost_weaken; [|apply (IH (ains u (key_to_id k) ext) prev Hv' Hnd')].
      * intros ext' (E1 & E2 & E3 & E4). split; [exact E1|]. split; [|split].
        -- intros u' t' Hu'. apply E2. destruct (Z.eq_dec u' u) as [->|Hne]; [congruence|].
           rewrite aget_ains_other by exact Hne. exact Hu'.
        -- intros k' d' [E|Hin]; [|apply E3, Hin]. injection E as <- <-. split.
           ++ intros _. exists u. split; [exact Hud|]. apply E2, aget_ains_same.
           ++ intros Hge. unfold TYPE_ID_EX, OFFSET_EXTENDED_TYPE_ID in *. lia.
        -- rewrite E4. cbn [length]. rewrite ains_length_new by exact Hu. unfold count0. lia.
      * split.
        -- apply ains_sorted, (eo_sorted _ _ Hext).
        -- intros u' t' Hu'. destruct (Z.eq_dec u' u) as [->|Hne].
           ++ rewrite aget_ains_same in Hu'. injection Hu' as <-. split; [exact Hreg|].
              exists d. rewrite Hk0. split; [exact Hkd|split; [exact Hud|apply (uuid_of_len d u Hud)]].
           ++ rewrite aget_ains_other in Hu' by exact Hne. apply (eo_entry _ _ Hext u' t' Hu').
        -- intros u1 u2 t Hu1 Hu2.
           destruct (Z.eq_dec u1 u) as [->|N1]; destruct (Z.eq_dec u2 u) as [->|N2]; try reflexivity.
           ++ rewrite aget_ains_same in Hu1. injection Hu1 as <-. rewrite aget_ains_other in Hu2 by exact N2.
              exfalso. apply (Hfresh u2 _ Hu2). left. cbn [fst]. symmetry. exact Hk0.
           ++ rewrite aget_ains_same in Hu2. injection Hu2 as <-. rewrite aget_ains_other in Hu1 by exact N1.
              exfalso. apply (Hfresh u1 _ Hu1). left. cbn [fst]. symmetry. exact Hk0.
           ++ rewrite aget_ains_other in Hu1 by exact N1. rewrite aget_ains_other in Hu2 by exact N2.
              apply (eo_inj _ _ Hext u1 u2 t Hu1 Hu2).
      * intros u' t' Hu' Hin. destruct (Z.eq_dec u' u) as [->|Hne].
        -- rewrite aget_ains_same in Hu'. injection Hu' as <-. apply Hk. rewrite Hk0 in Hin. exact Hin.
        -- rewrite aget_ains_other in Hu' by exact Hne. apply (Hfresh u' t' Hu'). right. exact Hin.
      * exact Hprev.
    + (* not a registry item: the state only changes in `prev` *)
      assert (Hrest : forall prev', (forall p, prev' = Some p -> aget (key TYPE_ID_EX p) ch <> None) ->
                (OFFSET_EXTENDED_TYPE_ID <= key_to_raw_type_id k -> aget (key TYPE_ID_EX (key_to_raw_type_id k)) ch <> None) ->
                wpost (fun ext' => ext_ok ch ext'
                   /\ (forall u t, aget u ext = Some t -> aget u ext' = Some t)
                   /\ (forall k0 d0, In (k0, d0) ((k, d) :: v) -> item_ok ch ext' k0 d0)
                   /\ (length ext' = length ext + count0 v)%nat)
                  (bfr_abs has v ext prev')).
      { intros prev' Hp' Hreg. eapply wpost_weaken; [|apply (IH ext prev' Hv' Hnd' Hext)].
        - intros ext' (E1 & E2 & E3 & E4). split; [exact E1|]. split; [exact E2|]. split; [|exact E4].
          intros k' d' [E|Hin]; [|apply E3, Hin]. injection E as <- <-. split; [intros H0; contradiction|exact Hreg].
        - intros u t Hu Hin. apply (Hfresh u t Hu). right. exact Hin.
        - exact Hp'. }
      destruct (Z.leb_spec OFFSET_EXTENDED_TYPE_ID (key_to_raw_type_id k)) as [Hge|Hlt].
      * destruct prev as [p|].
        -- destruct (Z.eqb_spec p (key_to_raw_type_id k)) as [->|Hne].
           ++ apply Hrest; [exact Hprev|]. intros _. apply (Hprev _ eq_refl).
           ++ rewrite Hhas. destruct (aget (key TYPE_ID_EX (key_to_raw_type_id k)) ch) eqn:Hreg; [|apply wpost_err].
              apply Hrest; [intros p0 [= <-]; congruence|intros _; congruence].
        -- rewrite Hhas. destruct (aget (key TYPE_ID_EX (key_to_raw_type_id k)) ch) eqn:Hreg; [|apply wpost_err].
           apply Hrest; [intros p0 [= <-]; congruence|intros _; congruence].
      * apply Hrest; [exact Hprev|]. intros Hge. lia.
Qed.

(* ---------- the state invariant of Snap ---------- *)
Record sgood (S : snap) : Prop := {
  sg_raw : good (sn_raw S);
  sg_ext : exists ch, rep (sn_raw S) ch /\ ext_ok ch (sn_ext S)
             /\ (forall k d, aget k ch = Some d -> item_ok ch (sn_ext S) k d)
             /\ length (sn_ext S) = count0 ch
}.

Lemma count0_perm a b : Permutation a b -> count0 a = count0 b.
Proof.
  unfold count0. induction 1 as [|x a b _ IH|x y a|a b c _ IH1 _ IH2]; [reflexivity| | |congruence].
  - cbn [filter]. destruct (is_reg x); cbn [length]; lia.
  - cbn [filter]. destruct (is_reg x); destruct (is_reg y); reflexivity.
Qed.

Lemma ext_ok_nil ch : ext_ok ch [].
Proof. split; [reflexivity|intros ? ? H; discriminate|intros ? ? ? H; discriminate]. Qed.

Theorem build_from_raw_good R : good R -> wpost sgood (build_from_raw R).
Proof.
  intros G. destruct (g_rep _ G) as [ch HR]. rewrite (build_from_raw_abs R ch HR).
  eapply wpost_bind.
  - apply (bfr_abs_post ch (has_key R) (fun k => has_key_lookup R ch k HR) (view R ch) [] None).
    + intros k d Hin. split; [apply (in_view R ch k d HR Hin)|apply (view_i32 R ch (g_keys _ G) (k, d) Hin)].
    + rewrite view_keys. apply rep_nodup_offs with ch, HR.
    + apply ext_ok_nil.
    + intros ? ? H; discriminate.
    + intros ? H; discriminate.
  - intros ext (E1 & _ & E3 & E4). apply wpost_ret. split; cbn [sn_raw sn_ext]; [exact G|].
    exists ch. split; [exact HR|]. split; [exact E1|]. split.
    + intros k d Hd. apply E3. rewrite <- (aget_view R ch k HR) in Hd. apply aget_in, Hd.
    + rewrite E4. cbn [length Nat.add]. apply count0_perm, view_perm, HR.
Qed.

Theorem snap_read_from_ints_good ints : forallb is_i32 ints = true -> wpost sgood (snap_read_from_ints ints).
Proof.
  intros Hi. unfold snap_read_from_ints. eapply (wpost_bind good).
  - pose proof (read_from_ints_good ints Hi) as H. unfold wpost. destruct (raw_read_from_ints ints) as [[R| | |] ws]; exact H.
  - intros R G. apply build_from_raw_good, G.
Qed.

Theorem snap_read_bytes_good bs : bytes_ok bs = true -> wpost sgood (snap_read_bytes bs).
Proof.
  intros Hok. unfold snap_read_bytes. eapply (wpost_bind good).
  - pose proof (read_bytes_good bs Hok) as H. unfold wpost. destruct (raw_read_bytes bs) as [[R| | |] ws]; exact H.
  - intros R G. apply build_from_raw_good, G.
Qed.

Theorem snap_read_with_delta_good S d : sgood S -> dgood d -> wpost sgood (snap_read_with_delta S d).
Proof.
  intros G D. unfold snap_read_with_delta. eapply (wpost_bind good).
  - apply read_with_delta_good; [apply (sg_raw _ G)|exact D].
  - intros R GR. apply build_from_raw_good, GR.
Qed.

Lemma sgood_empty : sgood snap_empty.
Proof.
  split; [apply good_empty|]. exists []. split; [apply rep_empty|]. split; [apply ext_ok_nil|].
  split; [intros ? ? H; discriminate|reflexivity].
Qed.

(* ---------- the observers never panic on a good Snap ---------- *)
Lemma snap_type_id_good {E} S ch k d : rep (sn_raw S) ch -> ext_ok ch (sn_ext S) ->
  (forall k d, aget k ch = Some d -> item_ok ch (sn_ext S) k d) -> aget k ch = Some d ->
  exists ot, @snap_type_id E S (key_to_raw_type_id k) = Ok ot
    /\ (ot = None <-> key_to_raw_type_id k = TYPE_ID_EX).
Proof.
  intros R Hext Hitems Hk. unfold snap_type_id. pose proof (key_to_ty_range k) as Rt.
  destruct (Z.eqb_spec (key_to_raw_type_id k) TYPE_ID_EX) as [Ht|Ht]; [exists None; split; [reflexivity|tauto]|].
  destruct (Z.ltb_spec (key_to_raw_type_id k) OFFSET_EXTENDED_TYPE_ID) as [Hlt|Hge].
  - eexists. split; [reflexivity|]. split; [discriminate|contradiction].
  - rewrite (raw_item_rep (sn_raw S) ch _ _ R). cbn [bind].
    destruct (Hitems k d Hk) as [_ Hreg]. specialize (Hreg Hge).
    destruct (aget (key TYPE_ID_EX (key_to_raw_type_id k)) ch) as [rd|] eqn:Hrd; [|contradiction].
    destruct (Hitems _ rd Hrd) as [Hu _].
    destruct Hu as (u & Hu & _); [apply key_to_ty_key; [unfold TYPE_ID_EX; lia|exact Rt]|].
    unfold uuid_of in Hu. rewrite Hu. eexists. split; [reflexivity|]. split; [discriminate|contradiction].
Qed.

Theorem snap_items_fine {E} S : sgood S -> exists r, @snap_items E S = Ok r.
Proof.
  intros G. destruct (sg_ext _ G) as (ch & R & Hext & Hitems & Hlen).
  unfold snap_items. destruct (rep_lengths _ _ R) as [L1 _].
  assert (Hc : (count0 ch <= length ch)%nat) by (unfold count0; apply filter_length_le').
  replace (Z.of_nat (length (rs_offs (sn_raw S))) <? Z.of_nat (length (sn_ext S))) with false
    by (symmetry; apply Z.ltb_ge; lia).
  rewrite (raw_items_rep (sn_raw S) ch R). cbn [bind].
  assert (Gl : forall l rem, (forall k d, In (k, d) l -> aget k ch = Some d) ->
             Z.of_nat (length l) - Z.of_nat (count0 l) <= rem ->
             exists r, @items_loop E S l rem = Ok r).
  { induction l as [|[k d] l IH]; intros rem Hl Hrem; [eexists; reflexivity|].
    cbn [items_loop].
    destruct (@snap_type_id_good E S ch k d R Hext Hitems (Hl k d (or_introl eq_refl))) as (ot & Eo & Hot).
    rewrite Eo. cbn [bind]. unfold count0 in Hrem. cbn [filter length] in Hrem. unfold is_reg at 1 in Hrem. cbn [fst] in Hrem.
    destruct ot as [ty|].
    - assert (Hne : key_to_raw_type_id k <> TYPE_ID_EX) by (intros H0; apply Hot in H0; discriminate).
      apply Z.eqb_neq in Hne. rewrite Hne in Hrem. fold (count0 l) in Hrem.
      assert (Hcl : (count0 l <= length l)%nat) by (unfold count0; apply filter_length_le').
      replace (rem <=? 0) with false by (symmetry; apply Z.leb_gt; lia).
      destruct (IH (rem - 1)) as [r Er]; [intros; apply Hl; right; assumption|lia|].
      rewrite Er. eexists. reflexivity.
    - assert (He : key_to_raw_type_id k = TYPE_ID_EX) by (apply Hot; reflexivity).
      apply Z.eqb_eq in He. rewrite He in Hrem. cbn [length] in Hrem. fold (count0 l) in Hrem.
      apply IH; [intros; apply Hl; right; assumption|lia]. }
  destruct (Gl (view (sn_raw S) ch) (Z.of_nat (length (rs_offs (sn_raw S))) - Z.of_nat (length (sn_ext S)))) as [r Er].
  - intros k d Hin. apply (in_view _ ch k d R Hin).
  - rewrite (count0_perm _ _ (view_perm _ ch R)), (Permutation_length (view_perm _ ch R)). lia.
  - rewrite Er. eexists. reflexivity.
Qed.

Theorem snap_item_fine {E} S t id : sgood S ->
  (forall o, t = Ordinal o -> 0 < o < OFFSET_EXTENDED_TYPE_ID) -> exists r, @snap_item E S t id = Ok r.
Proof.
  intros G Ho. destruct (sg_ext _ G) as (ch & R & _). unfold snap_item, snap_raw_type_id. destruct t as [o|u].
  - specialize (Ho o eq_refl). replace ((0 <? o) && (o <? OFFSET_EXTENDED_TYPE_ID)) with true
      by (symmetry; apply andb_true_iff; split; apply Z.ltb_lt; lia).
    cbn [bind]. rewrite (raw_item_rep _ ch _ _ R). eexists. reflexivity.
  - cbn [bind]. destruct (aget u (sn_ext S)); [rewrite (raw_item_rep _ ch _ _ R)|]; eexists; reflexivity.
Qed.

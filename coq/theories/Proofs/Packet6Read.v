(* 0.6 reader applied to what the writer produces: read (encoding p) = p, no warnings
   (except the deliberate ChunksNoChunks of class K05), in both compression branches.
   The Huffman coder is a Section parameter with the round-trip property as hypothesis. *)
From LibTw2 Require Import Base.Res Base.Bits Model.PacketTypes Model.PacketBase Gen.Consts6 Gen.Bits6
  Model.Packet6 Proofs.PktSweep Proofs.PktBits6 Proofs.Packet6Write.
From Coq Require Import ZArith Lia Bool List.
Open Scope Z_scope.

Lemma header_of6_enc hp body :
  header_of6 (PacketHeaderPacked6_as_bytes hp ++ body)
  = (let (h, ws) := PacketHeaderPacked6_unpack_warn hp in Some (h, ws, body)).
Proof. destruct hp; reflexivity. Qed.

Lemma of_bytes6_enc hp body :
  PacketHeaderPacked6_of_bytes (PacketHeaderPacked6_as_bytes hp ++ body) = Some (hp, body).
Proof. destruct hp; reflexivity. Qed.

Lemma find_nul_app_nul m rest : has_nul m = false -> find_nul (m ++ 0 :: rest) = length m.
Proof.
  induction m as [|b m IH]; cbn [has_nul existsb app find_nul length]; intros H.
  - reflexivity.
  - apply orb_false_iff in H as [Hb Hm]. rewrite Hb. f_equal. apply IH. exact Hm.
Qed.


Section Read.
Variables comp decomp : HuffC.
(* C07's round trip, as a hypothesis about the coder handed to the packet layer *)
Hypothesis huff_rt : forall x c y, bytes_ok x = true -> comp x c = Some y ->
  forall c', (length x <= c')%nat -> decomp y c' = Some x.

(* the views a value is returned with when it is read from its own encoding *)
Definition views_of6 (p : packet6) (compressed : bool) : list view :=
  match p with
  | P6Connless payload => [{| v_src := Input; v_off := 6; v_len := length payload |}]
  | P6Connected _ _ (P6Chunks _ _ payload) =>
    [{| v_src := if compressed then Scratch else Input; v_off := 3; v_len := length payload |}]
  | P6Connected _ _ (P6Control (C6Close reason)) => [{| v_src := Input; v_off := 4; v_len := length reason |}]
  | P6Connected _ _ (P6Control _) => []
  end.

Definition enc_compressed6 (p : packet6) : bool :=
  match p with
  | P6Connected _ tok (P6Chunks _ _ payload) => chunks_compressed6 comp (chunks_payload6 tok payload)
  | _ => false
  end.

Definition k05_warnings6 (p : packet6) : list warning6 := if K05_6 p then [W6ChunksNoChunks] else [].

(* flag facts for the four chunk-header flag values *)
Lemma chunk_flags_facts resend c :
  let f := Z.lor (bool_flag resend PACKETFLAG_REQUEST_RESEND) (bool_flag c PACKETFLAG_COMPRESSION) in
  land_ne0 f PACKETFLAG_CONNLESS = false /\ land_ne0 f PACKETFLAG_COMPRESSION = c
  /\ land_ne0 f PACKETFLAG_CONTROL = false /\ land_ne0 f PACKETFLAG_REQUEST_RESEND = resend
  /\ Z.land f (Z.lxor PACKETFLAG_COMPRESSION 255) = bool_flag resend PACKETFLAG_REQUEST_RESEND.
Proof. destruct resend, c; vm_compute; repeat split. Qed.

Lemma read_chunks_enc ack tok resend nc payload cap :
  expressible6 (P6Connected ack tok (P6Chunks resend nc payload)) = true ->
  packet_bytes_ok6 (P6Connected ack tok (P6Chunks resend nc payload)) = true -> (1400 <= cap)%nat ->
  let p := P6Connected ack tok (P6Chunks resend nc payload) in
  read6 decomp (encoding6 comp p) (true_hint6 p) cap
  = (k05_warnings6 p, Ok (p, views_of6 p (enc_compressed6 p))).
Proof.
  intros Hx Hbok Hcap p. cbn [expressible6] in Hx.
  apply andb_true_iff in Hx as [Hx Hty]. apply andb_true_iff in Hx as [Hack Htok].
  apply andb_true_iff in Hty as [Hnc Hlen]. apply Z.leb_le in Hlen.
  destruct (chunks_payload6_expr tok payload Hlen Htok) as [Epl Hpl].
  assert (Hplok : bytes_ok (chunks_payload6 tok payload) = true).
  { rewrite Epl. cbn [packet_bytes_ok6] in Hbok. apply andb_true_iff in Hbok as [Ht Hp].
    unfold bytes_ok in *. rewrite forallb_app, Hp. destruct tok; cbn [opt_bytes forallb]; [exact Ht|reflexivity]. }
  unfold p, encoding6, enc_compressed6. set (pl' := chunks_payload6 tok payload) in *.
  unfold chunks_flags6, chunks_body6. set (c := chunks_compressed6 comp pl').
  destruct (chunk_flags_facts resend c) as (F1 & F2 & F3 & F4 & F5).
  set (f := Z.lor (bool_flag resend PACKETFLAG_REQUEST_RESEND) (bool_flag c PACKETFLAG_COMPRESSION)) in *.
  assert (Hf : 0 <= f < 16) by (unfold f; destruct resend, c; vm_compute; split; congruence).
  assert (Hr : ph6_in_range {| ph6_flags := f; ph6_ack := ack; ph6_num_chunks := nc |} = true).
  { unfold ph6_in_range, byteb. cbn [ph6_flags ph6_ack ph6_num_chunks]. lia. }
  destruct (hdr_bytes6_ok _ Hr) as (hp & Ep & Eh & Eu & Hl3). rewrite Eh.
  set (body := if c then opt_bytes (comp pl' ARRAYVEC_CAP) else pl').
  assert (Hbody : (length body <= length pl')%nat) by (apply (chunks_body6_len comp pl')).
  unfold MAX_PACKETSIZE, HEADER_SIZE in Hpl.
  assert (Hl3' : length (PacketHeaderPacked6_as_bytes hp) = 3%nat) by (rewrite <- Eh; exact Hl3).
  unfold read6, read_impl6.
  replace (Z.of_nat cap <? MAX_PACKETSIZE) with false by (symmetry; apply Z.ltb_ge; unfold MAX_PACKETSIZE; lia).
  replace (Z.of_nat (length (PacketHeaderPacked6_as_bytes hp ++ body)) >? MAX_PACKETSIZE) with false
    by (symmetry; rewrite Z.gtb_ltb; apply Z.ltb_ge; rewrite app_length; unfold MAX_PACKETSIZE; lia).
  rewrite header_of6_enc, Eu. cbn [ph6_flags]. rewrite F1.
  (* where the payload lives *)
  assert (Eslice : payload_slice6 decomp (PacketHeaderPacked6_as_bytes hp ++ body) (Some cap) f body
                   = Ok {| s_src := if c then Scratch else Input; s_off := 3; s_data := pl' |}).
  { unfold payload_slice6. rewrite F2. destruct c eqn:Ec; [|reflexivity].
    (* compressed: body is the compressor's output, shorter than pl' *)
    unfold body, c, chunks_compressed6 in *. destruct (comp pl' ARRAYVEC_CAP) as [s|] eqn:Es; [|discriminate].
    cbn [opt_bytes] in *.
    unfold decompress6.
    replace (Z.of_nat cap <? MAX_PACKETSIZE) with false by (symmetry; apply Z.ltb_ge; unfold MAX_PACKETSIZE; lia).
    unfold needs_decompression6.
    replace (Z.of_nat (length (PacketHeaderPacked6_as_bytes hp ++ s)) >? MAX_PACKETSIZE) with false
      by (symmetry; rewrite Z.gtb_ltb; apply Z.ltb_ge; rewrite app_length; unfold MAX_PACKETSIZE; lia).
    rewrite header_of6_enc, Eu. cbn [ph6_flags ph6_ack ph6_num_chunks]. rewrite F1, F2. cbn [negb andb].
    rewrite F5.
    assert (Hr2 : ph6_in_range {| ph6_flags := bool_flag resend PACKETFLAG_REQUEST_RESEND; ph6_ack := ack; ph6_num_chunks := nc |} = true).
    { unfold ph6_in_range, byteb. cbn [ph6_flags ph6_ack ph6_num_chunks]. destruct resend; cbn [bool_flag]; unfold PACKETFLAG_REQUEST_RESEND; lia. }
    destruct (ph6_pack_unpack _ Hr2) as (fp & Efp & _). rewrite Efp.
    assert (Hfl : length (PacketHeaderPacked6_as_bytes fp) = 3%nat) by (destruct fp; reflexivity).
    rewrite Hfl. replace (cap <? 3)%nat with false by (symmetry; apply Nat.ltb_ge; lia).
    rewrite (huff_rt pl' ARRAYVEC_CAP s Hplok Es (cap - 3)%nat) by lia.
    rewrite of_bytes6_enc. reflexivity. }
  rewrite Eslice. unfold read_payload6. cbn [s_data ph6_flags ph6_ack ph6_num_chunks].
  replace (Z.of_nat (length pl') >? MAX_PACKETSIZE - HEADER_SIZE) with false
    by (symmetry; rewrite Z.gtb_ltb; apply Z.ltb_ge; unfold MAX_PACKETSIZE, HEADER_SIZE; lia).
  rewrite F3, F4. unfold k05_warnings6, K05_6, views_of6, true_hint6.
  destruct tok as [tk|]; cbn [opt_bytes] in Epl.
  - (* token present: stripped from the end *)
    unfold token_ok in Htok. apply Nat.eqb_eq in Htok.
    cbn [andb]. rewrite Epl, app_length, Htok.
    replace (Z.of_nat (length payload + 4) <? TOKEN_SIZE) with false by (symmetry; apply Z.ltb_ge; unfold TOKEN_SIZE; lia).
    change (Z.to_nat TOKEN_SIZE) with 4%nat. replace (length payload + 4 - 4)%nat with (length payload) by lia.
    unfold slice_take, view_of. cbn [s_data s_src s_off]. rewrite firstn_app_exact, skipn_app_exact.
    cbn [app]. destruct resend; destruct (nc =? 0); reflexivity.
  - cbn [andb]. rewrite app_nil_r in Epl. rewrite Epl. unfold view_of. cbn [s_data s_src s_off app].
    destruct resend; destruct (nc =? 0); reflexivity.
Qed.

Ltac strip_tok6 Hstrip pre tk Htok :=
  match goal with |- context [length ?b] =>
    replace b with (pre ++ tk) by (cbn [app]; reflexivity);
    let S1 := fresh "S" in let S2 := fresh "S" in let S3 := fresh "S" in
    destruct (Hstrip pre tk Htok) as (S1 & S2 & S3);
    rewrite ?S1; unfold slice_take; cbn [s_data s_src s_off];
    rewrite ?S2, ?S3; reflexivity
  end.

Lemma read_control_enc ack tok c cap :
  expressible6 (P6Connected ack tok (P6Control c)) = true -> (1400 <= cap)%nat ->
  let p := P6Connected ack tok (P6Control c) in
  read6 decomp (encoding6 comp p) (true_hint6 p) cap = ([], Ok (p, views_of6 p false)).
Proof.
  intros Hx Hcap p. cbn [expressible6] in Hx.
  apply andb_true_iff in Hx as [Hx Hty]. apply andb_true_iff in Hx as [Hack Htok].
  assert (Hr : ph6_in_range {| ph6_flags := PACKETFLAG_CONTROL; ph6_ack := ack; ph6_num_chunks := 0 |} = true).
  { unfold ph6_in_range, byteb, PACKETFLAG_CONTROL. cbn [ph6_flags ph6_ack ph6_num_chunks]. lia. }
  destruct (hdr_bytes6_ok _ Hr) as (hp & Ep & Eh & Eu & Hl3).
  assert (Hl3' : length (PacketHeaderPacked6_as_bytes hp) = 3%nat) by (rewrite <- Eh; exact Hl3).
  unfold p, encoding6. rewrite Eh.
  set (body := control_body6 c tok).
  assert (Hbl : (length body <= 1 + 4 + 128 + 4)%nat).
  { unfold body, control_body6, token_ok, CTRLMSG_CLOSE_REASON_LENGTH in *.
    destruct c as [| | | |m]; destruct tok as [tk|]; cbn [is_connect6 andb is_some opt_bytes] in *;
    try (apply andb_true_iff in Hty as [_ Hml]); try apply Nat.eqb_eq in Htok; unfold CTRLMSG_TOKEN_MAGIC;
    repeat (progress (rewrite ?app_length; cbn [length])); lia. }
  unfold read6, read_impl6.
  replace (Z.of_nat cap <? MAX_PACKETSIZE) with false by (symmetry; apply Z.ltb_ge; unfold MAX_PACKETSIZE; lia).
  replace (Z.of_nat (length (PacketHeaderPacked6_as_bytes hp ++ body)) >? MAX_PACKETSIZE) with false
    by (symmetry; rewrite Z.gtb_ltb; apply Z.ltb_ge; rewrite app_length; unfold MAX_PACKETSIZE; lia).
  rewrite header_of6_enc, Eu. cbn [ph6_flags].
  change (land_ne0 PACKETFLAG_CONTROL PACKETFLAG_CONNLESS) with false. cbv iota.
  unfold payload_slice6. change (land_ne0 PACKETFLAG_CONTROL PACKETFLAG_COMPRESSION) with false. cbv iota.
  unfold read_payload6. cbn [s_data ph6_flags ph6_ack ph6_num_chunks].
  replace (Z.of_nat (length body) >? MAX_PACKETSIZE - HEADER_SIZE) with false
    by (symmetry; rewrite Z.gtb_ltb; apply Z.ltb_ge; unfold MAX_PACKETSIZE, HEADER_SIZE; lia).
  change (land_ne0 PACKETFLAG_CONTROL PACKETFLAG_CONTROL) with true. cbv iota.
  unfold true_hint6, views_of6.
  (* strip the token, then dispatch on the control byte *)
  assert (Hstrip : forall pre tk : bytes, length tk = 4%nat ->
            Z.of_nat (length (pre ++ tk)) <? TOKEN_SIZE = false
            /\ firstn (length (pre ++ tk) - Z.to_nat TOKEN_SIZE) (pre ++ tk) = pre
            /\ skipn (length (pre ++ tk) - Z.to_nat TOKEN_SIZE) (pre ++ tk) = tk).
  { intros pre tk Hl. rewrite app_length, Hl. change (Z.to_nat TOKEN_SIZE) with 4%nat.
    replace (length pre + 4 - 4)%nat with (length pre) by lia.
    rewrite firstn_app_exact, skipn_app_exact. split; [apply Z.ltb_ge; unfold TOKEN_SIZE; lia|split; reflexivity]. }
  unfold body, control_body6, token_ok, CTRLMSG_CLOSE_REASON_LENGTH in *.
  destruct tok as [tk|]; cbn [is_some andb opt_bytes].
  - apply Nat.eqb_eq in Htok.
    destruct c as [| | | |m]; cbn [is_connect6 andb ctrl_magic6].
    + strip_tok6 Hstrip [CTRLMSG_KEEPALIVE] tk Htok.
    + strip_tok6 Hstrip (CTRLMSG_CONNECT :: CTRLMSG_TOKEN_MAGIC) tk Htok.
    + strip_tok6 Hstrip (CTRLMSG_CONNECTACCEPT :: CTRLMSG_TOKEN_MAGIC) tk Htok.
    + strip_tok6 Hstrip [CTRLMSG_ACCEPT] tk Htok.
    + idtac.
    apply andb_true_iff in Hty as [Hn Hml]. apply negb_true_iff in Hn. apply Z.leb_le in Hml.
    rewrite ?app_nil_l.
    replace ([CTRLMSG_CLOSE] ++ (m ++ [0]) ++ tk) with ((CTRLMSG_CLOSE :: m ++ [0]) ++ tk)
      by (cbn [app]; rewrite <- app_assoc; reflexivity).
    destruct (Hstrip (CTRLMSG_CLOSE :: m ++ [0]) tk Htok) as (S1 & S2 & S3).
    rewrite S1. unfold slice_take. cbn [s_data s_src s_off andb]. rewrite S2, S3.
    unfold read_control6. cbn [ph6_flags ph6_num_chunks s_data].
    change (land_ne0 PACKETFLAG_CONTROL PACKETFLAG_COMPRESSION) with false.
    change (land_ne0 PACKETFLAG_CONTROL PACKETFLAG_REQUEST_RESEND) with false.
    change (CTRLMSG_CLOSE =? CTRLMSG_CONNECT) with false. change (CTRLMSG_CLOSE =? CTRLMSG_CONNECTACCEPT) with false.
    change (CTRLMSG_CLOSE =? CTRLMSG_CLOSE) with true. change (CTRLMSG_CLOSE =? CTRLMSG_KEEPALIVE) with false.
    change (CTRLMSG_CLOSE =? CTRLMSG_ACCEPT) with false.
    cbn [negb orb app Z.eqb]. cbv iota.
    rewrite find_nul_app_nul by exact Hn.
    change (Z.to_nat CTRLMSG_CLOSE_REASON_LENGTH) with 127%nat. rewrite Nat.min_l by lia.
    rewrite app_length. cbn [length].
    replace (length m + 1 =? 0)%nat with false by (symmetry; apply Nat.eqb_neq; lia).
    replace (length m + 1 =? length m + 1)%nat with true by (symmetry; apply Nat.eqb_refl).
    cbn [negb andb app]. unfold slice_take, slice_skip, view_of. cbn [s_data s_src s_off skipn].
    rewrite firstn_app_exact. reflexivity.
  - destruct c as [| | | |m]; cbn [is_connect6 andb ctrl_magic6 app]; try reflexivity.
    apply andb_true_iff in Hty as [Hn Hml]. apply negb_true_iff in Hn. apply Z.leb_le in Hml.
    rewrite app_nil_r. cbn [andb].
    unfold read_control6. cbn [ph6_flags ph6_num_chunks s_data].
    change (land_ne0 PACKETFLAG_CONTROL PACKETFLAG_COMPRESSION) with false.
    change (land_ne0 PACKETFLAG_CONTROL PACKETFLAG_REQUEST_RESEND) with false.
    change (CTRLMSG_CLOSE =? CTRLMSG_CONNECT) with false. change (CTRLMSG_CLOSE =? CTRLMSG_CONNECTACCEPT) with false.
    change (CTRLMSG_CLOSE =? CTRLMSG_CLOSE) with true. change (CTRLMSG_CLOSE =? CTRLMSG_KEEPALIVE) with false.
    change (CTRLMSG_CLOSE =? CTRLMSG_ACCEPT) with false.
    cbn [negb orb app Z.eqb]. cbv iota.
    rewrite find_nul_app_nul by exact Hn.
    change (Z.to_nat CTRLMSG_CLOSE_REASON_LENGTH) with 127%nat. rewrite Nat.min_l by lia.
    rewrite app_length. cbn [length].
    replace (length m + 1 =? 0)%nat with false by (symmetry; apply Nat.eqb_neq; lia).
    replace (length m + 1 =? length m + 1)%nat with true by (symmetry; apply Nat.eqb_refl).
    cbn [negb andb app]. unfold slice_take, slice_skip, view_of. cbn [s_data s_src s_off skipn].
    rewrite firstn_app_exact. reflexivity.
Qed.

Lemma read_connless_enc payload cap :
  expressible6 (P6Connless payload) = true -> (1400 <= cap)%nat ->
  read6 decomp (encoding6 comp (P6Connless payload)) (Some false) cap
  = ([], Ok (P6Connless payload, views_of6 (P6Connless payload) false)).
Proof.
  intros Hx Hcap. cbn [expressible6] in Hx. apply Z.leb_le in Hx.
  unfold MAX_PACKETSIZE, HEADER_SIZE, PADDING_SIZE_CONNLESS in Hx.
  unfold encoding6, read6, read_impl6.
  replace (Z.of_nat cap <? MAX_PACKETSIZE) with false by (symmetry; apply Z.ltb_ge; unfold MAX_PACKETSIZE; lia).
  replace (Z.of_nat (length (repeat 255 6 ++ payload)) >? MAX_PACKETSIZE) with false
    by (symmetry; rewrite Z.gtb_ltb; apply Z.ltb_ge; rewrite app_length; cbn [repeat length]; unfold MAX_PACKETSIZE; lia).
  cbn [repeat app]. unfold header_of6. cbn [PacketHeaderPacked6_of_bytes].
  change (PacketHeaderPacked6_unpack_warn {| php6_flags_padding_ack := 255; php6_ack := 255; php6_num_chunks := 255 |})
    with ({| ph6_flags := 15; ph6_ack := 1023; ph6_num_chunks := 255 |}, @nil warning6).
  cbn [ph6_flags]. change (land_ne0 15 PACKETFLAG_CONNLESS) with true. cbv iota.
  unfold read_connless6. cbn [length].
  replace (Z.of_nat (S (S (S (length payload)))) <? PADDING_SIZE_CONNLESS) with false
    by (symmetry; apply Z.ltb_ge; unfold PADDING_SIZE_CONNLESS; lia).
  change (Z.to_nat PADDING_SIZE_CONNLESS) with 3%nat. change (Z.to_nat HEADER_SIZE) with 3%nat.
  cbn [firstn skipn all_ff forallb Z.eqb Pos.eqb andb negb orb app]. unfold view_of. cbn [s_data s_src s_off].
  reflexivity.
Qed.

(* the reader inverts the writer's encoding *)
Theorem read_encoding6 p cap : expressible6 p = true -> packet_bytes_ok6 p = true -> (1400 <= cap)%nat ->
  read6 decomp (encoding6 comp p) (true_hint6 p) cap
  = (k05_warnings6 p, Ok (p, views_of6 p (enc_compressed6 p))).
Proof.
  intros Hx Hbok Hcap. destruct p as [payload|ack tok [resend nc payload|c]].
  - apply read_connless_enc; assumption.
  - apply read_chunks_enc; assumption.
  - apply (read_control_enc ack tok c cap Hx Hcap).
Qed.

End Read.

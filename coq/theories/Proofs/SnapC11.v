(* C11 assembled: the values the readers accept, and what holds for them. *)
From LibTw2 Require Import Base.Res Model.Varint Model.Packer Model.Snap Proofs.SnapBase Proofs.SnapRep Proofs.SnapDelta
  Proofs.SnapApply Proofs.SnapOk Proofs.SnapTotal Proofs.SnapTotal2 Proofs.SnapWire Proofs.SnapWireInst Proofs.SnapC09
  Proofs.SnapSer Proofs.SnapReg Proofs.SnapObs Proofs.SnapBuilder Proofs.SnapBuilder2 Proofs.SnapBuilder3 Proofs.SnapC10.
From Coq Require Import ZArith List Lia Bool Permutation.
Import ListNotations.
Open Scope Z_scope.

(* every Delta / Snap value a program can obtain from the readers (and from Delta::create on
   accepted snapshots) *)
Inductive delta_accepted : delta -> Prop :=
| dacc_ints sz ints ws d : forallb is_i32 ints = true -> Z.of_nat (length ints) < i32_max ->
    delta_read_from_ints sz ints = (Ok d, ws) -> delta_accepted d
| dacc_bytes sz bs ws d : bytes_ok bs = true -> Z.of_nat (length bs) < i32_max ->
    delta_read_bytes sz bs = (Ok d, ws) -> delta_accepted d
| dacc_create A B d : snap_accepted A -> snap_accepted B -> create_raw (sn_raw A) (sn_raw B) = Ok d -> delta_accepted d
with snap_accepted : snap -> Prop :=
| sacc_empty : snap_accepted snap_empty
| sacc_ints ints ws S : forallb is_i32 ints = true -> snap_read_from_ints ints = (Ok S, ws) -> snap_accepted S
| sacc_bytes bs ws S : bytes_ok bs = true -> snap_read_bytes bs = (Ok S, ws) -> snap_accepted S
| sacc_delta S0 d ws S : snap_accepted S0 -> delta_accepted d -> snap_read_with_delta S0 d = (Ok S, ws) -> snap_accepted S.

Scheme delta_acc_ind := Induction for delta_accepted Sort Prop
  with snap_acc_ind := Induction for snap_accepted Sort Prop.
Combined Scheme acc_mutind from delta_acc_ind, snap_acc_ind.

Lemma wpost_ok {A} (P : A -> Prop) (m : wres A) a ws : wpost P m -> m = (Ok a, ws) -> P a.
Proof. intros H ->. exact H. Qed.

Lemma consistent_empty : consistent snap_empty.
Proof. exists []. reflexivity. Qed.

(* create on good snapshots, outside K09 (the proof of SnapC09.c09_main, from `good`) *)
Lemma create_good A B : good A -> good B -> k09 A B = false ->
  exists d, create_raw A B = Ok d /\ dgood d.
Proof.
  intros GA GB Hk. destruct (g_rep _ GA) as [chA HA]. destruct (g_rep _ GB) as [chB HB].
  exists (created A B chA chB). split.
  - apply create_raw_spec; try assumption; [apply (g_keys _ GA)|apply (g_keys _ GB)|apply (k09_false _ _ _ _ HA HB Hk)].
  - apply dgood_created; [exact HA|exact HB|apply (g_buf _ GB)].
Qed.

Lemma create_fine_or_k09 A B : good A -> good B ->
  (k09 A B = false -> exists d, create_raw A B = Ok d /\ dgood d)
  /\ (k09 A B = true -> exists s, create_raw A B = Panic s).
Proof.
  intros GA GB. split; [apply create_good; assumption|]. intros Hk.
  destruct (g_rep _ GA) as [chA HA]. destruct (g_rep _ GB) as [chB HB].
  apply (create_raw_k09 A B chA chB HA HB (g_keys _ GA) (g_keys _ GB) Hk).
Qed.

Theorem accepted_good :
  (forall d, delta_accepted d -> dgood d) /\ (forall S, snap_accepted S -> sgood S /\ consistent S).
Proof.
  apply acc_mutind.
  - intros sz ints ws d Hi Hn E. apply (wpost_ok _ _ _ _ (delta_read_from_ints_post sz ints Hi Hn) E).
  - intros sz bs ws d Hb Hn E. apply (wpost_ok _ _ _ _ (delta_read_bytes_post sz bs Hb Hn) E).
  - intros A B d _ [GA _] _ [GB _] E.
    destruct (k09 (sn_raw A) (sn_raw B)) eqn:Hk.
    + destruct (proj2 (create_fine_or_k09 _ _ (sg_raw _ GA) (sg_raw _ GB)) Hk) as [s Es]. congruence.
    + destruct (create_good _ _ (sg_raw _ GA) (sg_raw _ GB) Hk) as (d' & E' & D). congruence.
  - split; [apply sgood_empty|apply consistent_empty].
  - intros ints ws S Hi E. split; [apply (wpost_ok _ _ _ _ (snap_read_from_ints_good ints Hi) E)|].
    apply (accepted_consistent _ _ _ E).
  - intros bs ws S Hb E. split; [apply (wpost_ok _ _ _ _ (snap_read_bytes_good bs Hb) E)|].
    apply (accepted_consistent _ _ _ E).
  - intros S0 d ws S _ [G0 _] _ D E. split; [apply (wpost_ok _ _ _ _ (snap_read_with_delta_good S0 d G0 D) E)|].
    apply (accepted_consistent _ _ _ E).
Qed.

Lemma wpost_fine {A} (P : A -> Prop) (m : wres A) : wpost P m -> fine (fst m).
Proof. unfold wpost, fine. destruct (fst m); auto. Qed.

(* the delta between two accepted snapshots (outside K09), applied: the target again, with exactly
   the warnings the target's own registry check gives *)
Theorem accepted_after_delta S S2 : snap_accepted S -> snap_accepted S2 ->
  k09 (sn_raw S) (sn_raw S2) = false ->
  exists d S' ws, create_raw (sn_raw S) (sn_raw S2) = Ok d /\ snap_read_with_delta S d = (Ok S', ws)
    /\ build_from_raw (sn_raw S2) = (Ok S2, ws) /\ like S2 S'.
Proof.
  intros HS HS2 Hk. destruct (proj2 accepted_good S HS) as [G _]. destruct (proj2 accepted_good S2 HS2) as [G2 [ws Ec]].
  pose proof (sg_raw _ G) as GRA. pose proof (sg_raw _ G2) as GRB.
  destruct (g_rep _ GRA) as [chA HA]. destruct (g_rep _ GRB) as [chB HB].
  pose proof (k09_false _ _ _ _ HA HB Hk) as Hsl.
  destruct (apply_created (sn_raw S) (sn_raw S2) chA chB HA HB (g_keys _ GRA) (g_keys _ GRB) (g_buf _ GRA) (g_buf _ GRB)
              (good_lim _ _ GRB HB) Hsl) as (B' & ch' & Eap & R' & Hlook).
  pose proof (build_from_raw_congr B' ch' (sn_raw S2) chB R' HB Hlook) as Hcg. rewrite Ec in Hcg.
  destruct (build_from_raw B') as [[S1| | |] ws1] eqn:Eb; try contradiction.
  destruct Hcg as (Hext & Hws & Hr1 & _). subst ws1.
  exists (created (sn_raw S) (sn_raw S2) chA chB), S1, ws.
  split; [apply create_raw_spec; try assumption; [apply (g_keys _ GRA)|apply (g_keys _ GRB)]|].
  split; [unfold snap_read_with_delta; rewrite Eap, wbind_ok'; exact Eb|]. split; [exact Ec|].
  split; [exact Hext|]. split.
  - rewrite Hr1. pose proof (read_with_delta_good (sn_raw S) (created (sn_raw S) (sn_raw S2) chA chB) GRA
                               (dgood_created _ _ chA chB HA HB (g_buf _ GRB))) as W.
    unfold wpost in W. rewrite Eap in W. exact W.
  - exists chB, ch'. split; [exact HB|]. split; [rewrite Hr1; exact R'|exact Hlook].
Qed.

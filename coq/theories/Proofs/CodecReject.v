(* C14: a value that violates a described constraint is rejected, with the error of the
   first violated member; an input that ends in front of a required member, or inside a
   fixed-size raw member, is rejected with UnexpectedEnd *)
From LibTw2 Require Import Base.Res Model.Varint Model.Packer Model.Codec
  Proofs.VarintArith Proofs.VarintProofs Proofs.PackerProofs Proofs.CodecStr Proofs.CodecDecode.
From Coq Require Import ZArith Lia Bool List ZifyBool.
Open Scope Z_scope.

(* the bytes of a value that has the right shape but not necessarily the described content *)
Definition raw_value (m : mop) (v : value) : bytes :=
  match m, v with
  | MIntStr, VBytes s => s ++ [0]
  | _, _ => enc_value m v
  end.

(* the constraint of member m that value v breaks *)
Definition violation (m : mop) (v : value) : option gerr :=
  match m, v with
  | MI i, VInt x => if is_i32 x then match check_int i x with Err e => Some e | _ => None end else None
  | MStrStrict, VBytes s => if str_ok s && has_cc s then Some ControlCharacters else None
  | MIntStr, VBytes s =>
    if str_ok s then match parse_int s with None => Some InvalidIntString | Some _ => None end else None
  | _, _ => None
  end.

Lemma decode_op_violation demo m v e rest : violation m v = Some e -> bytes_ok rest = true ->
  decode_op demo m (raw_value m v ++ rest) = (rest, Err e, []).
Proof.
  intros Hv Hr. destruct m; cbn [violation] in Hv; try discriminate; destruct v; try discriminate.
  - destruct (is_i32 v) eqn:Hi; [|discriminate]. destruct (check_int i v) eqn:Hc; try discriminate.
    injection Hv as <-. unfold raw_value. cbn [enc_value decode_op]. unfold step_int.
    rewrite rd_int by assumption. cbn [int_of]. rewrite Hc. reflexivity.
  - destruct (str_ok s && has_cc s) eqn:E; [|discriminate]. injection Hv as <-.
    apply andb_true_iff in E as [Hs Hc]. unfold str_ok in Hs. apply andb_true_iff in Hs as [Hn Hs].
    apply negb_true_iff in Hn. unfold raw_value. cbn [enc_value decode_op]. unfold step_bytes.
    rewrite rd_str by assumption. cbn [payload]. rewrite Hc. reflexivity.
  - destruct (str_ok s) eqn:Hs; [|discriminate]. destruct (parse_int s) eqn:Hp; [discriminate|].
    injection Hv as <-. unfold str_ok in Hs. apply andb_true_iff in Hs as [Hn Hs]. apply negb_true_iff in Hn.
    unfold raw_value. cbn [decode_op]. unfold step_bytes.
    rewrite rd_str by assumption. cbn [payload]. rewrite Hp. reflexivity.
Qed.

Definition no_rest (ms : list mop) : bool := forallb (fun m => negb (takes_rest m)) ms.

Lemma decode_ops_prefix demo pre : forall vs ms rest,
  forallb mop_ok pre = true -> no_rest pre = true -> well_typed pre vs = true -> bytes_ok rest = true ->
  decode_ops demo (pre ++ ms) (enc_values pre vs ++ rest) =
  match decode_ops demo ms rest with
  | (r, Ok vs', ws) => (r, Ok (vs ++ vs'), ws)
  | other => other
  end.
Proof.
  unfold no_rest. induction pre as [|m pre IH]; intros [|v vs] ms rest Hm Hn Ht Hr;
    cbn [well_typed] in Ht; try discriminate.
  - cbn [app enc_values]. destruct (decode_ops demo ms rest) as [[r [vs'| | |]] ws]; reflexivity.
  - cbn [forallb] in Hm, Hn. apply andb_true_iff in Hm as [Hm1 Hm2]. apply andb_true_iff in Hn as [Hn1 Hn2].
    apply andb_true_iff in Ht as [Ht1 Ht2]. apply negb_true_iff in Hn1.
    cbn [app enc_values decode_ops]. rewrite <- app_assoc.
    rewrite decode_op_canon; [|assumption|assumption|assumption|].
    2:{ apply bytes_ok_app; [apply enc_values_ok; assumption|exact Hr]. }
    rewrite IH by assumption.
    destruct (decode_ops demo ms rest) as [[r [vs'| | |]] ws]; reflexivity.
Qed.

Theorem rejects_ops demo pre m post vs v e tail :
  forallb mop_ok pre = true -> no_rest pre = true -> well_typed pre vs = true ->
  violation m v = Some e -> bytes_ok tail = true ->
  decode_ops demo (pre ++ m :: post) (enc_values pre vs ++ raw_value m v ++ tail) = (tail, Err e, []).
Proof.
  intros Hm Hn Ht Hv Hr.
  assert (Hraw : bytes_ok (raw_value m v ++ tail) = true).
  { apply bytes_ok_app; [|exact Hr].
    destruct m; cbn [violation] in Hv; try discriminate; destruct v; try discriminate; unfold raw_value.
    - destruct (is_i32 v) eqn:Hi; [|discriminate]. cbn [enc_value]. unfold write_int_bytes.
      rewrite write_int_arith by exact Hi. apply write_int_a_bytes_ok, Hi.
    - destruct (str_ok s && has_cc s) eqn:E; [|discriminate]. apply andb_true_iff in E as [Hs _].
      unfold str_ok in Hs. apply andb_true_iff in Hs as [_ Hs]. cbn [enc_value]. apply bytes_ok_app; [exact Hs|reflexivity].
    - destruct (str_ok s) eqn:Hs; [|discriminate]. unfold str_ok in Hs. apply andb_true_iff in Hs as [_ Hs].
      apply bytes_ok_app; [exact Hs|reflexivity]. }
  rewrite decode_ops_prefix by assumption.
  cbn [decode_ops]. rewrite (decode_op_violation demo m v e) by assumption. reflexivity.
Qed.

Theorem rejects c demo pre m post vs v e tail : c_dec c = pre ++ m :: post ->
  forallb mop_ok pre = true -> no_rest pre = true -> well_typed pre vs = true ->
  violation m v = Some e -> bytes_ok tail = true ->
  decode c demo (enc_values pre vs ++ raw_value m v ++ tail) = Err e.
Proof.
  intros Hc Hm Hn Ht Hv Hr. unfold decode, decode_w, decode_body. rewrite Hc.
  rewrite (rejects_ops demo pre m post vs v e tail) by assumption. reflexivity.
Qed.

(* ---- input that ends too early ---- *)

(* members that must read at least one byte *)
Definition must_read (m : mop) : bool :=
  match m with
  | MOptInt | MOptStr | MRest | MClients | MAddrs | MFinish => false
  | _ => true
  end.

Definition raw_size (m : mop) : option nat :=
  match m with
  | MUuid n | MSha256 n => Some n
  | MU8 => Some 1%nat
  | MBe16 => Some 2%nat
  | _ => None
  end.

Definition short_for (m : mop) (r : bytes) : bool :=
  (must_read m && match r with [] => true | _ => false end)
  || match raw_size m with Some n => (length r <? n)%nat | None => false end.

Lemma decode_op_short demo m r : mop_ok m = true -> short_for m r = true ->
  decode_op demo m r = ([], Err UnexpectedEnd, []).
Proof.
  intros Hm Hs. unfold short_for in Hs. apply orb_true_iff in Hs as [Hs|Hs].
  - apply andb_true_iff in Hs as [Hr He]. destruct r; [|discriminate].
    destruct m; cbn [must_read] in Hr; try discriminate; cbn [mop_ok] in Hm; try reflexivity.
    + apply Nat.eqb_eq in Hm. subst n. reflexivity.
    + apply Nat.eqb_eq in Hm. subst n. reflexivity.
  - destruct m; cbn [raw_size] in Hs; try discriminate; cbn [decode_op]; unfold step_bytes; cbn [unpack_step];
      rewrite Hs; reflexivity.
Qed.

Theorem rejects_short c demo pre m post vs r : c_dec c = pre ++ m :: post ->
  forallb mop_ok pre = true -> no_rest pre = true -> well_typed pre vs = true -> mop_ok m = true ->
  short_for m r = true -> bytes_ok r = true ->
  decode c demo (enc_values pre vs ++ r) = Err UnexpectedEnd.
Proof.
  intros Hc Hm Hn Ht Hmm Hs Hr. unfold decode, decode_w, decode_body. rewrite Hc.
  rewrite decode_ops_prefix by assumption. cbn [decode_ops].
  rewrite decode_op_short by assumption. reflexivity.
Qed.

(* C01 for 0.6: the invariant of the two-endpoint link and its preservation by every
   admissible label. *)
From LibTw2 Require Import Base.Res Model.PacketTypes Model.ConnCore Model.Conn6 Model.LinkGhost Model.Link6
  Proofs.ConnCoreInv Proofs.Conn6Inv Proofs.LinkArith Proofs.LinkCore.
From Coq Require Import ZArith Lia Bool List.
Open Scope Z_scope.

Definition never_online (st : state6) : Prop :=
  match st with Unconnected | Connecting | Pending _ => True | _ => False end.

(* what holds of one side, relative to the peer's histories *)
Record side_inv (x : lside) (subY delY nvsY : list bytes) (ansY : bool) : Prop := {
  sv_conn : conn_ok6 (l_conn x);
  sv_fresh : never_online (c_state (l_conn x)) ->
             l_sub x = [] /\ l_del x = [] /\ l_nvs x = [] /\ l_ready x = 0;
  sv_online : forall o, c_state (l_conn x) = Online o ->
      exists a, snd_inv o (l_sub x) (l_nvs x) a /\ a <= zlen delY /\ o_ack o = seqof (zlen (l_del x));
  sv_prefix : l_del x = firstn (Z.to_nat (zlen (l_del x))) subY;
  sv_dle : zlen (l_del x) <= zlen subY;
  sv_gap : zlen (l_sub x) - zlen delY <= 511;
  sv_nvr : incl (l_nvr x) nvsY;
  sv_ready : 0 <= l_ready x <= 1;
  sv_ready_conn : c_state (l_conn x) = Connecting -> l_ready x = 0;
  sv_ans : 1 <= l_ready x -> ansY = true;
}.

Definition flight_inv (x : lside) (f : flight) : Prop :=
  flight_ok f (zlen (l_sub x)) (zlen (l_del x)) (l_sub x) (l_nvs x) /\
  dgram_in_ok (f_d f) /\
  (is_connect_accept (f_d f) = true -> l_answered x = true).
Definition bag_inv (fl : list flight) (x : lside) : Prop := Forall (flight_inv x) fl.

Definition link_inv (w : link) : Prop :=
  side_inv (k_a w) (l_sub (k_b w)) (l_del (k_b w)) (l_nvs (k_b w)) (l_answered (k_b w)) /\
  side_inv (k_b w) (l_sub (k_a w)) (l_del (k_a w)) (l_nvs (k_a w)) (l_answered (k_a w)) /\
  bag_inv (k_ab w) (k_a w) /\ bag_inv (k_ba w) (k_b w).

(* how the ghost histories of a side evolve *)
Definition grows (x x' : lside) : Prop :=
  (exists e, l_sub x' = l_sub x ++ e) /\ (exists e, l_del x' = l_del x ++ e) /\
  incl (l_nvs x) (l_nvs x') /\ (l_answered x = true -> l_answered x' = true).

Lemma grows_refl x : grows x x.
Proof.
  repeat split; try (exists []; rewrite app_nil_r; reflexivity); try apply incl_refl. auto.
Qed.

Lemma firstn_app_le' {A} (l m : list A) k : (k <= length l)%nat -> firstn k (l ++ m) = firstn k l.
Proof.
  intros H. rewrite firstn_app. replace (k - length l)%nat with 0%nat by lia. cbn. apply app_nil_r.
Qed.

(* the peer's histories grew: what held of x still holds *)
Lemma side_inv_mono x y y' ans' :
  side_inv x (l_sub y) (l_del y) (l_nvs y) (l_answered y) -> grows y y' ->
  ans' = l_answered y' ->
  side_inv x (l_sub y') (l_del y') (l_nvs y') ans'.
Proof.
  intros [C F O P D G N R RC A] [[es Hs] [[ed Hd] [Hn Ha]]] ->.
  constructor; try assumption.
  - intros o Ho. destruct (O o Ho) as [a [H1 [H2 H3]]]. exists a. split; [exact H1|]. split; [|exact H3].
    rewrite Hd, zlen_app. pose proof (zlen_nonneg ed). lia.
  - rewrite Hs. rewrite firstn_app_le'; [exact P|]. unfold zlen in *. lia.
  - rewrite Hs, zlen_app. pose proof (zlen_nonneg es). lia.
  - rewrite Hd, zlen_app. pose proof (zlen_nonneg ed). lia.
  - intros z Hz. apply Hn, N, Hz.
  - intros H. apply Ha, A, H.
Qed.

Lemma chunk_is_grow c n sl sub nvs sub' nvs' e :
  chunk_is c n sl sub nvs -> n <= zlen sub -> sub' = sub ++ e -> incl nvs nvs' -> chunk_is c n sl sub' nvs'.
Proof.
  intros H Hn -> Hi. eapply chunk_is_mono; try eassumption; try lia.
  intros i Hi'. apply subn_app_old. exact Hi'.
Qed.

Lemma flight_inv_mono x x' f : flight_inv x f -> grows x x' -> flight_inv x' f.
Proof.
  intros [[H1 [H2 [H3 [H4 H5]]]] [Hin Hca]] [[es Hs] [[ed Hd] [Hn Ha]]].
  split; [|split; [exact Hin|intros H; apply Ha, Hca, H]].
  unfold flight_ok. rewrite Hs, Hd, !zlen_app. pose proof (zlen_nonneg es). pose proof (zlen_nonneg ed).
  split; [lia|]. split; [lia|]. split; [exact H3|]. split; [exact H4|].
  eapply Forall_impl; [|exact H5]. intros c Hc.
  apply (chunk_is_grow c (f_n f) 1024 (l_sub x) (l_nvs x) (l_sub x ++ es) (l_nvs x') es Hc); [lia|reflexivity|exact Hn].
Qed.

Lemma bag_inv_mono fl x x' : bag_inv fl x -> grows x x' -> bag_inv fl x'.
Proof. intros H Hg. eapply Forall_impl; [|exact H]. intros f Hf. eapply flight_inv_mono; eassumption. Qed.

(* a control datagram carrying the current acknowledgement *)
Lemma control_flight x tok ack c :
  ack = seqof (zlen (l_del x)) -> tok_ok tok ->
  (c = ConnectAccept -> l_answered x = true) ->
  flight_inv x {| f_d := DControl tok ack c; f_n := zlen (l_sub x); f_c := zlen (l_del x) |}.
Proof.
  intros Hack Htok Hca. pose proof (zlen_nonneg (l_sub x)). pose proof (zlen_nonneg (l_del x)).
  split; [|split].
  - unfold flight_ok. cbn. repeat split; try lia.
    + intros a Ha. injection Ha as <-. exact Hack.
    + constructor.
  - cbn. split; [exact Htok|]. subst ack. apply seqof_range.
  - cbn. destruct c; try discriminate. intros _. apply Hca. reflexivity.
Qed.

(* ---------- bookkeeping ---------- *)
Definition after (x : lside) (o : op) (out : outcome) : lside :=
  {| l_conn := out_conn out; l_rand := e_rand (out_env out);
     l_sub := match o, out_res out with OpSend d true, ROk => l_sub x ++ [d] | _, _ => l_sub x end;
     l_del := l_del x ++ vital_payloads (out_events out);
     l_nvs := match o, out_res out with OpSend d false, ROk => d :: l_nvs x | _, _ => l_nvs x end;
     l_nvr := l_nvr x ++ nonvital_payloads (out_events out);
     l_ready := l_ready x + ready_events (out_events out);
     l_answered := l_answered x || existsb is_connect_accept (out_sent out) |}.

Definition flights_of (x : lside) (out : outcome) : list flight :=
  map (fun d => {| f_d := d; f_n := zlen (l_sub x); f_c := zlen (l_del x) |}) (out_sent out).

Lemma side_step_unfold now x o out :
  step (l_conn x) {| e_now := now; e_rand := l_rand x |} o = Ok out ->
  side_step now x o = Ok (after x o out, flights_of x out).
Proof. intros H. unfold side_step. rewrite H. reflexivity. Qed.

(* a call that touches no history: everything about the histories carries over *)
Lemma side_inv_keep x x' subY delY nvsY ansY :
  side_inv x subY delY nvsY ansY ->
  l_sub x' = l_sub x -> l_del x' = l_del x -> l_nvs x' = l_nvs x -> l_nvr x' = l_nvr x ->
  l_ready x' = l_ready x ->
  conn_ok6 (l_conn x') ->
  (never_online (c_state (l_conn x')) -> never_online (c_state (l_conn x))) ->
  (forall o', c_state (l_conn x') = Online o' ->
     exists a, snd_inv o' (l_sub x) (l_nvs x) a /\ a <= zlen delY /\ o_ack o' = seqof (zlen (l_del x))) ->
  (c_state (l_conn x') = Connecting -> l_ready x = 0) ->
  side_inv x' subY delY nvsY ansY.
Proof.
  intros [C F O P D G N R RC A] Hs Hd Hn Hr Hy Hc Hnev Hon Hcon.
  constructor; rewrite ?Hs, ?Hd, ?Hn, ?Hr, ?Hy; try assumption.
  intros H. apply F, Hnev, H.
Qed.

Lemma flights_inv x' x out :
  Forall (fun d => flight_inv x' {| f_d := d; f_n := zlen (l_sub x); f_c := zlen (l_del x) |}) (out_sent out) ->
  bag_inv (flights_of x out) x'.
Proof.
  intros H. unfold bag_inv, flights_of. apply Forall_map. exact H.
Qed.

Lemma flight_ok_inv x' d n dc :
  flight_ok (mk_flight n dc d) (zlen (l_sub x')) (zlen (l_del x')) (l_sub x') (l_nvs x') ->
  dgram_in_ok d -> is_connect_accept d = false ->
  flight_inv x' {| f_d := d; f_n := n; f_c := dc |}.
Proof.
  intros H1 H2 H3. split; [exact H1|]. split; [exact H2|]. cbn. rewrite H3. discriminate.
Qed.

(* emitted chunk datagrams are acceptable input for the peer *)
Lemma dgram_ok_in pp d : dgram_ok pp d -> dgram_in_ok d.
Proof.
  destruct d as [t r p|t a c|t a rr n cs]; cbn; [exact (fun _ => I)| |].
  - intros [H1 [H2 _]]. split; assumption.
  - intros [H1 [H2 [_ [_ [H5 _]]]]]. split; [exact H1|]. split; [exact H2|].
    eapply Forall_impl; [|exact H5]. intros c [_ Hc]. exact Hc.
Qed.

Lemma online_parts x subY delY nvsY ansY on :
  side_inv x subY delY nvsY ansY -> c_state (l_conn x) = Online on ->
  online_ok pp6 on /\ pk_count_ok (o_packet on) /\ pk_count_ok (o_packet_nv on) /\
  exists a, snd_inv on (l_sub x) (l_nvs x) a /\ a <= zlen delY /\ o_ack on = seqof (zlen (l_del x)).
Proof.
  intros Hi Hon. pose proof (sv_conn _ _ _ _ _ Hi) as Hc. unfold conn_ok6 in Hc. rewrite Hon in Hc.
  destruct Hc as [Hok _]. split; [exact Hok|]. pose proof Hok as [Hp [Hnv _]].
  split; [eapply pc_ok_count, Hp|]. split; [eapply pc_ok_count, Hnv|]. apply (sv_online _ _ _ _ _ Hi), Hon.
Qed.

Lemma chunk_flights x' x ds :
  Forall (fun d => flight_ok (mk_flight (zlen (l_sub x)) (zlen (l_del x)) d)
                     (zlen (l_sub x)) (zlen (l_del x)) (l_sub x) (l_nvs x)) ds ->
  Forall (dgram_ok pp6) ds -> Forall (fun d => is_connect_accept d = false) ds ->
  grows x x' ->
  Forall (fun d => flight_inv x' {| f_d := d; f_n := zlen (l_sub x); f_c := zlen (l_del x) |}) ds.
Proof.
  intros H1 H2 H3 Hg. induction ds as [|d ds IH]; [constructor|].
  inversion H1; inversion H2; inversion H3; subst. constructor; [|apply IH; assumption].
  apply (flight_inv_mono x x'); [|exact Hg]. apply flight_ok_inv; try assumption. eapply dgram_ok_in; eassumption.
Qed.

Lemma flush_not_ca pp o o' ds : online_flush pp o = Ok (o', ds) -> Forall (fun d => is_connect_accept d = false) ds.
Proof.
  unfold online_flush. destruct (negb (can_send o)); [intros H; injection H as <- <-; constructor|].
  destruct (MAX_PACKETSIZE <? _); [discriminate|]. intros H; injection H as <- <-. constructor; [reflexivity|constructor].
Qed.

Lemma resend_loop_not_ca pp : forall todo fuel o out ts o' out' ts',
  resend_loop pp fuel o todo out ts = Ok (o', out', ts') ->
  Forall (fun d => is_connect_accept d = false) out -> Forall (fun d => is_connect_accept d = false) out'.
Proof.
  induction todo as [|c rest IH].
  - intros fuel o out ts o' out' ts' H Ho. destruct fuel; cbn in H; injection H as <- <- <-; exact Ho.
  - induction fuel as [|fuel IHf]; intros o out ts o' out' ts' H Ho; cbn [resend_loop] in H; [discriminate|].
    destruct (can_fit_chunk _ _ _ _).
    + destruct (pc_write_chunk _ _ _ _) as [p| | |]; try discriminate. eapply IH; eassumption.
    + destruct (online_flush pp o) as [[o1 d1]| | |] eqn:Ef; try discriminate.
      eapply IHf; [eassumption|]. apply Forall_app. split; [exact Ho|eapply flush_not_ca, Ef].
Qed.

Lemma resend_not_ca pp now o o' ds ts : online_resend pp now o = Ok (o', ds, ts) ->
  Forall (fun d => is_connect_accept d = false) ds.
Proof.
  unfold online_resend. destruct (o_queue o); [intros H; injection H as <- <- <-; constructor|].
  intros H. eapply resend_loop_not_ca; [exact H|constructor].
Qed.

Lemma online_keep x x' subY delY nvsY ansY on o' :
  side_inv x subY delY nvsY ansY ->
  c_state (l_conn x) = Online on -> c_state (l_conn x') = Online o' ->
  l_sub x' = l_sub x -> l_del x' = l_del x -> l_nvs x' = l_nvs x -> l_nvr x' = l_nvr x ->
  l_ready x' = l_ready x -> conn_ok6 (l_conn x') ->
  (forall a, snd_inv on (l_sub x) (l_nvs x) a -> snd_inv o' (l_sub x) (l_nvs x) a) ->
  o_ack o' = o_ack on ->
  side_inv x' subY delY nvsY ansY.
Proof.
  intros Hi Hon Hon' Hs Hd Hn Hr Hy Hc Hsnd Hack.
  eapply side_inv_keep; try eassumption.
  - rewrite Hon'. intros [].
  - intros o2 Ho2. rewrite Hon' in Ho2. injection Ho2 as <-.
    destruct (sv_online _ _ _ _ _ Hi on Hon) as [a [H1 [H2 H3]]]. exists a.
    split; [apply Hsnd, H1|]. split; [exact H2|congruence].
  - rewrite Hon'. discriminate.
Qed.

Ltac same_ghosts := cbn [after l_sub l_del l_nvs l_nvr l_ready out_events out_res out_conn mk vital_payloads
                         nonvital_payloads flat_map filter]; rewrite ?app_nil_r; try reflexivity;
  try (change (ready_events []) with 0; lia).

Lemma after_noev_grows x o out :
  out_events out = [] -> (forall d v, o <> OpSend d v) -> grows x (after x o out).
Proof.
  intros He Ho. unfold grows, after. cbn. rewrite He. cbn.
  assert (Hs : match o, out_res out with OpSend d true, ROk => l_sub x ++ [d] | _, _ => l_sub x end = l_sub x).
  { destruct o; try reflexivity. exfalso. eapply Ho. reflexivity. }
  assert (Hn : match o, out_res out with OpSend d false, ROk => d :: l_nvs x | _, _ => l_nvs x end = l_nvs x).
  { destruct o; try reflexivity. exfalso. eapply Ho. reflexivity. }
  rewrite Hs, Hn. split; [exists []; rewrite app_nil_r; reflexivity|].
  split; [exists []; reflexivity|]. split; [apply incl_refl|]. intros ->. reflexivity.
Qed.


(* a call that emits one control datagram and leaves the online record (if any) untouched *)
Lemma control_step x subY delY nvsY ansY o c' e' tok ack ctl :
  side_inv x subY delY nvsY ansY -> (forall d v, o <> OpSend d v) ->
  conn_ok6 c' -> dgram_ok pp6 (DControl tok ack ctl) ->
  (never_online (c_state c') -> never_online (c_state (l_conn x))) ->
  (forall o', c_state c' = Online o' -> c_state (l_conn x) = Online o') ->
  (c_state c' = Connecting -> l_ready x = 0) ->
  (match c_state (l_conn x) with Online on => ack = o_ack on | _ => ack = 0 end) ->
  c_state (l_conn x) <> Disconnected ->
  let out := mk c' e' [DControl tok ack ctl] [] [] ROk in
  side_inv (after x o out) subY delY nvsY ansY /\ bag_inv (flights_of x out) (after x o out) /\
  grows x (after x o out).
Proof.
  intros Hi Ho Hc' Hds Hnev Hon Hcon Hack Hnd out.
  assert (Hg : grows x (after x o out)) by (apply after_noev_grows; [reflexivity|exact Ho]).
  assert (Hs : l_sub (after x o out) = l_sub x).
  { cbn. destruct o; try reflexivity. exfalso. eapply Ho. reflexivity. }
  assert (Hn : l_nvs (after x o out) = l_nvs x).
  { cbn. destruct o; try reflexivity. exfalso. eapply Ho. reflexivity. }
  assert (Hd : l_del (after x o out) = l_del x) by (cbn; apply app_nil_r).
  split; [|split; [|exact Hg]].
  - assert (Hr : l_nvr (after x o out) = l_nvr x) by (cbn; apply app_nil_r).
    assert (Hy : l_ready (after x o out) = l_ready x) by (cbn; change (ready_events []) with 0; lia).
    eapply side_inv_keep; [exact Hi|exact Hs|exact Hd|exact Hn|exact Hr|exact Hy|exact Hc'|exact Hnev| |exact Hcon].
    intros o' Ho'. apply (sv_online _ _ _ _ _ Hi), Hon, Ho'.
  - apply flights_inv. cbn [out_sent out mk]. constructor; [|constructor].
    assert (Hack0 : ack = seqof (zlen (l_del x))).
    { destruct (c_state (l_conn x)) as [| |t|on|] eqn:Es; try contradiction; subst ack.
      - destruct (sv_fresh _ _ _ _ _ Hi) as [_ [-> _]]; [rewrite Es; exact I|reflexivity].
      - destruct (sv_fresh _ _ _ _ _ Hi) as [_ [-> _]]; [rewrite Es; exact I|reflexivity].
      - destruct (sv_fresh _ _ _ _ _ Hi) as [_ [-> _]]; [rewrite Es; exact I|reflexivity].
      - destruct (sv_online _ _ _ _ _ Hi on Es) as [a [_ [_ H]]]. exact H. }
    rewrite <- Hs, <- Hd. apply control_flight.
    + rewrite Hd. exact Hack0.
    + apply Hds.
    + intros ->. cbn. apply orb_true_r.
Qed.


Lemma send_control_shape st c ds : send_control st c = Ok ds ->
  exists tok, ds = [DControl tok (match st with Online o => o_ack o | _ => 0 end) c].
Proof.
  unfold send_control. destruct st as [| |t|o|]; try discriminate;
    (destruct (MAX_PACKETSIZE <? _); [discriminate|]); intros H; injection H as <-; eexists; reflexivity.
Qed.

(* a call that emits nothing, raises no event and keeps the state (the send timer may change) *)
Lemma noop_step x subY delY nvsY ansY o c' e' r :
  side_inv x subY delY nvsY ansY -> (forall d v, o <> OpSend d v) ->
  conn_ok6 c' -> c_state c' = c_state (l_conn x) ->
  let out := mk c' e' [] [] [] r in
  side_inv (after x o out) subY delY nvsY ansY /\ bag_inv (flights_of x out) (after x o out) /\
  grows x (after x o out).
Proof.
  intros Hi Ho Hc' Hst out.
  assert (Hg : grows x (after x o out)) by (apply after_noev_grows; [reflexivity|exact Ho]).
  assert (Hs : l_sub (after x o out) = l_sub x).
  { cbn. destruct o; try reflexivity. exfalso. eapply Ho. reflexivity. }
  assert (Hn : l_nvs (after x o out) = l_nvs x).
  { cbn. destruct o; try reflexivity. exfalso. eapply Ho. reflexivity. }
  assert (Hd : l_del (after x o out) = l_del x) by (cbn; apply app_nil_r).
  assert (Hr : l_nvr (after x o out) = l_nvr x) by (cbn; apply app_nil_r).
  assert (Hy : l_ready (after x o out) = l_ready x) by (cbn; change (ready_events []) with 0; lia).
  split; [|split; [constructor|exact Hg]].
  eapply side_inv_keep; [exact Hi|exact Hs|exact Hd|exact Hn|exact Hr|exact Hy|exact Hc'| | |].
  - cbn [after l_conn out out_conn mk]. rewrite Hst. auto.
  - cbn [after l_conn out out_conn mk]. rewrite Hst. apply (sv_online _ _ _ _ _ Hi).
  - cbn [after l_conn out out_conn mk]. rewrite Hst. apply (sv_ready_conn _ _ _ _ _ Hi).
Qed.

(* an online call that rebuilds / flushes packets: histories untouched, chunk datagrams emitted *)
Lemma online_step x subY delY nvsY ansY o on o' snd ds e' :
  side_inv x subY delY nvsY ansY -> (forall d v, o <> OpSend d v) ->
  c_state (l_conn x) = Online on ->
  conn_ok6 {| c_state := Online o'; c_send := snd |} -> Forall (dgram_ok pp6) ds ->
  (forall a, snd_inv on (l_sub x) (l_nvs x) a -> snd_inv o' (l_sub x) (l_nvs x) a) ->
  o_ack o' = o_ack on ->
  Forall (fun d => flight_ok (mk_flight (zlen (l_sub x)) (zlen (l_del x)) d)
                     (zlen (l_sub x)) (zlen (l_del x)) (l_sub x) (l_nvs x)) ds ->
  Forall (fun d => is_connect_accept d = false) ds ->
  let out := mk {| c_state := Online o'; c_send := snd |} e' ds [] [] ROk in
  side_inv (after x o out) subY delY nvsY ansY /\ bag_inv (flights_of x out) (after x o out) /\
  grows x (after x o out).
Proof.
  intros Hi Ho Hon Hc' Hds Hsnd Hack Hfl Hca out.
  assert (Hg : grows x (after x o out)) by (apply after_noev_grows; [reflexivity|exact Ho]).
  assert (Hs : l_sub (after x o out) = l_sub x).
  { cbn. destruct o; try reflexivity. exfalso. eapply Ho. reflexivity. }
  assert (Hn : l_nvs (after x o out) = l_nvs x).
  { cbn. destruct o; try reflexivity. exfalso. eapply Ho. reflexivity. }
  assert (Hd : l_del (after x o out) = l_del x) by (cbn; apply app_nil_r).
  assert (Hr : l_nvr (after x o out) = l_nvr x) by (cbn; apply app_nil_r).
  assert (Hy : l_ready (after x o out) = l_ready x) by (cbn; change (ready_events []) with 0; lia).
  split; [|split; [|exact Hg]].
  - eapply (online_keep x _ _ _ _ _ on o'); [exact Hi|exact Hon|reflexivity|exact Hs|exact Hd|exact Hn|exact Hr|exact Hy|exact Hc'|exact Hsnd|exact Hack].
  - apply flights_inv. cbn [out_sent out mk]. eapply chunk_flights; eassumption.
Qed.

(* ---------- application calls ---------- *)
Theorem app_step_inv now x subY delY nvsY ansY o :
  side_inv x subY delY nvsY ansY -> app_op o ->
  valid_op6 (l_conn x) {| e_now := now; e_rand := l_rand x |} o -> window_ok x o ->
  exists x' fl, side_step now x o = Ok (x', fl) /\ side_inv x' subY delY nvsY ansY /\
                bag_inv fl x' /\ grows x x'.
Proof.
  intros Hi Happ Hv Hw. pose proof (sv_conn _ _ _ _ _ Hi) as Hc.
  destruct (step_ok6 _ _ _ Hc Hv) as [out [Hstep [Hc' Hds]]].
  exists (after x o out), (flights_of x out). split; [apply side_step_unfold, Hstep|].
  destruct o as [|data vital| | |reason|data|d| |]; try contradiction; cbn [valid_op6] in Hv; unfold step in Hstep; cbn [e_now e_rand] in Hstep.
  - (* connect *)
    rewrite Hv in Hstep. unfold tick_action in Hstep. cbn [c_state send_control] in Hstep.
    change (MAX_PACKETSIZE <? control_size params6 (Some TOKEN_NONE) (Connect None)) with false in Hstep.
    cbn [bind] in Hstep. injection Hstep as <-.
    assert (Hnev : never_online (c_state (l_conn x))) by (rewrite Hv; exact I).
    destruct (sv_fresh _ _ _ _ _ Hi Hnev) as [Hs0 [Hd0 [Hn0 Hr0]]].
    assert (Hg : grows x (after x OpConnect (mk {| c_state := Connecting; c_send := Some (now + ms 500) |}
                   {| e_now := now; e_rand := l_rand x |} [DControl (Some TOKEN_NONE) 0 (Connect None)] [] [] ROk)))
      by (apply after_noev_grows; [reflexivity|discriminate]).
    split; [|split; [|exact Hg]].
    + eapply side_inv_keep; try exact Hi; same_ghosts.
      * exact Hc'.
      * intros _. exact Hnev.
      * intros o' Ho'. discriminate Ho'.
    + apply flights_inv. cbn [out_sent mk]. constructor; [|constructor].
      apply (flight_inv_mono x); [|exact Hg].
      apply control_flight; [rewrite Hd0; reflexivity|reflexivity|discriminate].
  - (* send *)
    destruct Hv as [on Hon]. rewrite Hon in Hstep.
    destruct (online_parts _ _ _ _ _ _ Hi Hon) as [Hok [Hcp [Hcnv [a [Hsnd [Ha Hack]]]]]].
    destruct (online_send params6 now on data vital) as [[[o' ds] r]| | |] eqn:Es; cbn [bind] in Hstep; try discriminate.
    injection Hstep as <-.
    assert (Hwin : vital = true -> zlen (o_queue on) < 511).
    { intros ->. unfold window_ok in Hw. rewrite Hon in Hw. exact Hw. }
    destruct (send_link params6 now on o' ds r data vital (l_sub x) (l_nvs x) a (zlen (l_del x)) Es Hcp Hsnd Hack
                (zlen_nonneg _) Hwin) as [Hack' [Hfl Hres]].
    set (out := mk {| c_state := Online o'; c_send := c_send (l_conn x) |} {| e_now := now; e_rand := l_rand x |} ds [] []
                   match r with SendOk => ROk | SendTooLong => RTooLongData end) in *.
    assert (Hg : grows x (after x (OpSend data vital) out)).
    { unfold grows, after, out. cbn. rewrite app_nil_r. destruct r, vital; cbn.
      all: repeat split; try (eexists; reflexivity); try (exists []; rewrite app_nil_r; reflexivity);
        try apply incl_refl; try (apply incl_tl, incl_refl); try (intros ->; reflexivity). }
    split; [|split; [|exact Hg]].
    + destruct Hi as [C F O P D G N R RC A].
      assert (Hdel : l_del (after x (OpSend data vital) out) = l_del x) by (cbn; apply app_nil_r).
      assert (Hnvr : l_nvr (after x (OpSend data vital) out) = l_nvr x) by (cbn; apply app_nil_r).
      assert (Hrdy : l_ready (after x (OpSend data vital) out) = l_ready x) by (cbn; change (ready_events []) with 0; lia).
      constructor; rewrite ?Hdel, ?Hnvr, ?Hrdy; try assumption.
      * cbn. intros [].
      * intros o2 Ho2. cbn in Ho2. injection Ho2 as <-. exists a. cbn [after l_sub l_nvs out out_res mk].
        destruct r.
        -- destruct vital; (split; [exact Hres|]); (split; [exact Ha|congruence]).
        -- destruct Hres as [-> _]. split; [destruct vital; exact Hsnd|]. split; [exact Ha|exact Hack].
      * (* the gap: (W) keeps the sender less than 512 chunks ahead of what the peer has delivered *)
        cbn [after l_sub out out_res mk].
        destruct r; [|destruct vital; exact G]. destruct vital; [|exact G].
        rewrite zlen_app. unfold zlen at 2. cbn [length].
        destruct Hsnd as [_ Hq _ _ _ _ _]. pose proof (queue_is_len _ _ _ _ Hq). specialize (Hwin eq_refl). lia.
      * cbn. discriminate.
    + apply flights_inv. cbn [out_sent out mk]. eapply chunk_flights; try eassumption.
      unfold online_send in Es. destruct (_ || _) in Es; [injection Es as _ <- _; constructor|].
      destruct (negb (can_fit_chunk _ _ _ _)) in Es.
      * destruct (online_flush params6 on) as [[o1 d1]| | |] eqn:Ef; cbn [bind] in Es; try discriminate.
        destruct (online_queue _ _ _ _ _) in Es; cbn [bind] in Es; try discriminate.
        injection Es as _ <- _. eapply flush_not_ca, Ef.
      * cbn [bind] in Es. destruct (online_queue _ _ _ _ _) in Es; cbn [bind] in Es; try discriminate.
        injection Es as _ <- _. constructor.
  - (* flush *)
    destruct Hv as [on Hon]. rewrite Hon in Hstep.
    destruct (online_parts _ _ _ _ _ _ Hi Hon) as [Hok [Hcp [Hcnv [a [Hsnd [Ha Hack]]]]]].
    destruct (online_flush params6 on) as [[o' ds]| | |] eqn:Ef; cbn [bind] in Hstep; try discriminate.
    injection Hstep as <-.
    assert (Hg : grows x (after x OpFlush (mk {| c_state := Online o'; c_send := Some (now + ms 500) |}
                   {| e_now := now; e_rand := l_rand x |} ds [] [] ROk)))
      by (apply after_noev_grows; [reflexivity|discriminate]).
    split; [|split; [|exact Hg]].
    + eapply (online_keep x _ _ _ _ _ on o'); try exact Hi; try exact Hon; same_ghosts.
      * exact Hc'.
      * intros a0 Ha0. eapply (flush_link params6 on o' ds _ _ a0 (zlen (l_del x)) Ef Hcp Ha0 Hack (zlen_nonneg _)).
      * eapply (flush_link params6 on o' ds _ _ a (zlen (l_del x)) Ef Hcp Hsnd Hack (zlen_nonneg _)).
    + apply flights_inv. cbn [out_sent mk]. eapply chunk_flights; try eassumption.
      * eapply (flush_link params6 on o' ds _ _ a (zlen (l_del x)) Ef Hcp Hsnd Hack (zlen_nonneg _)).
      * eapply flush_not_ca, Ef.
  - (* tick *)
    destruct (c_state (l_conn x)) as [| |t|on|] eqn:Est.
    + (* unconnected *)
      cbn [negb] in Hstep.
      destruct (triggered (c_send (l_conn x)) now); unfold tick_action in Hstep; cbn [c_state] in Hstep;
        injection Hstep as <-; apply noop_step; try assumption; try discriminate; try (cbn; congruence).
    + (* connecting: the Connect is repeated *)
      destruct (triggered (c_send (l_conn x)) now).
      * unfold tick_action in Hstep. cbn [c_state send_control] in Hstep.
        change (MAX_PACKETSIZE <? control_size params6 (Some TOKEN_NONE) (Connect None)) with false in Hstep.
        cbn [bind] in Hstep. injection Hstep as <-.
        apply control_step; try assumption; try discriminate.
        -- inversion Hds; assumption.
        -- rewrite Est. auto.
        -- intros _. apply (sv_ready_conn _ _ _ _ _ Hi), Est.
        -- rewrite Est. reflexivity.
        -- rewrite Est. discriminate.
      * injection Hstep as <-. apply noop_step; try assumption; try discriminate; try (cbn; congruence).
    + (* pending: the ConnectAccept is repeated *)
      destruct (triggered (c_send (l_conn x)) now).
      * unfold tick_action in Hstep. cbn [c_state] in Hstep.
        destruct (send_control (Pending t) ConnectAccept) as [ds| | |] eqn:Esc; cbn [bind] in Hstep; try discriminate.
        destruct (send_control_shape _ _ _ Esc) as [tok ->]. injection Hstep as <-.
        apply control_step; try assumption; try discriminate.
        -- inversion Hds; assumption.
        -- rewrite Est. auto.
        -- rewrite Est. reflexivity.
        -- rewrite Est. discriminate.
      * injection Hstep as <-. apply noop_step; try assumption; try discriminate; try (cbn; congruence).
    + (* online *)
      destruct (online_parts _ _ _ _ _ _ Hi Est) as [Hok [Hcp [Hcnv [a [Hsnd [Ha Hack]]]]]].
      destruct (match queue_back (o_queue on) with Some rc => triggered (rc_next rc) now | None => false end).
      * (* the resend deadline has passed *)
        unfold do_resend in Hstep. cbn [e_now] in Hstep.
        destruct (online_resend params6 now on) as [[[o' ds] ts]| | |] eqn:Er; cbn [bind] in Hstep; try discriminate.
        injection Hstep as <-.
        apply (online_step x subY delY nvsY ansY OpTick on o'); try assumption; try discriminate.
        -- intros a0 Ha0. eapply (resend_link params6 now on o' ds ts _ _ a0 (zlen (l_del x)) Er Hcp Hcnv Ha0 Hack (zlen_nonneg _)).
        -- eapply (resend_link params6 now on o' ds ts _ _ a (zlen (l_del x)) Er Hcp Hcnv Hsnd Hack (zlen_nonneg _)).
        -- eapply (resend_link params6 now on o' ds ts _ _ a (zlen (l_del x)) Er Hcp Hcnv Hsnd Hack (zlen_nonneg _)).
        -- eapply resend_not_ca, Er.
      * destruct (triggered (c_send (l_conn x)) now).
        -- unfold tick_action in Hstep. cbn [c_state c_send] in Hstep. destruct (can_send on).
           ++ destruct (online_flush params6 on) as [[o' ds]| | |] eqn:Ef; cbn [bind] in Hstep; try discriminate.
              injection Hstep as <-.
              apply (online_step x subY delY nvsY ansY OpTick on o'); try assumption; try discriminate.
              ** intros a0 Ha0. eapply (flush_link params6 on o' ds _ _ a0 (zlen (l_del x)) Ef Hcp Ha0 Hack (zlen_nonneg _)).
              ** eapply (flush_link params6 on o' ds _ _ a (zlen (l_del x)) Ef Hcp Hsnd Hack (zlen_nonneg _)).
              ** eapply (flush_link params6 on o' ds _ _ a (zlen (l_del x)) Ef Hcp Hsnd Hack (zlen_nonneg _)).
              ** eapply flush_not_ca, Ef.
           ++ destruct (send_control (Online on) KeepAlive) as [ds| | |] eqn:Esc; cbn [bind] in Hstep; try discriminate.
              destruct (send_control_shape _ _ _ Esc) as [tok ->]. injection Hstep as <-.
              apply control_step; try assumption; try discriminate.
              ** inversion Hds; assumption.
              ** rewrite Est. auto.
              ** cbn. intros o' Ho'. rewrite Est. exact Ho'.
              ** rewrite Est. reflexivity.
              ** rewrite Est. discriminate.
        -- injection Hstep as <-. apply noop_step; try assumption; try discriminate; try (cbn; congruence).
    + (* disconnected *)
      cbn [negb] in Hstep.
      destruct (triggered (c_send (l_conn x)) now); unfold tick_action in Hstep; cbn [c_state] in Hstep;
        injection Hstep as <-; apply noop_step; try assumption; try discriminate; try (cbn; congruence).
  - (* disconnect *)
    destruct Hv as [H1 [H2 [Hn Hl]]]. rewrite Hn in Hstep.
    destruct (c_state (l_conn x)) as [| |t|on|] eqn:Est; try contradiction.
    all: match type of Hstep with context [send_control ?st ?c] =>
           destruct (send_control st c) as [ds| | |] eqn:Esc; cbn [bind] in Hstep; try discriminate;
           destruct (send_control_shape _ _ _ Esc) as [tok ->]; injection Hstep as <-;
           apply control_step; try assumption; try discriminate;
           [inversion Hds; assumption | cbn; intros [] | rewrite Est; reflexivity | rewrite Est; discriminate]
         end.
  - (* connless *)
    destruct Hv as [on Hon]. rewrite Hon in Hstep.
    destruct (online_parts _ _ _ _ _ _ Hi Hon) as [Hok [Hcp [Hcnv [a [Hsnd [Ha Hack]]]]]].
    destruct (MAX_PAYLOAD <? Z.of_nat (length data)); injection Hstep as <-.
    + assert (Hk := noop_step x subY delY nvsY ansY (OpSendConnless data)
                      {| c_state := Online on; c_send := Some (now + ms 500) |} {| e_now := now; e_rand := l_rand x |} RTooLongData Hi).
      apply Hk; try discriminate; [exact Hc'|cbn; congruence].
    + apply (online_step x subY delY nvsY ansY (OpSendConnless data) on on); try assumption; try discriminate; try auto.
      * constructor; [|constructor]. unfold flight_ok, mk_flight. cbn.
        pose proof (zlen_nonneg (l_sub x)). pose proof (zlen_nonneg (l_del x)).
        repeat split; try lia; try discriminate. constructor.
Qed.

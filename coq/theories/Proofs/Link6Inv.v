(* C01 for 0.6: the invariant of the two-endpoint link and its preservation by every
   admissible label. *)
From LibTw2 Require Import Base.Res Model.PacketTypes Model.ConnCore Model.Conn6 Model.LinkGhost Model.Link6
  Proofs.ConnCoreInv Proofs.Conn6Inv Proofs.LinkArith Proofs.LinkCore.
From Coq Require Import ZArith Lia Bool List.
Open Scope Z_scope.

Definition never_online (st : state6) : Prop :=
  match st with Unconnected | Connecting | Pending _ => True | _ => False end.

(* what holds of one side, relative to the peer's histories *)
Record side_inv (x : lside) (subY delY nvsY : list bytes) (ansY : bool) : Prop := {
  sv_conn : conn_ok6 (l_conn x);
  sv_fresh : never_online (c_state (l_conn x)) ->
             l_sub x = [] /\ l_del x = [] /\ l_nvs x = [] /\ l_ready x = 0;
  sv_online : forall o, c_state (l_conn x) = Online o ->
      exists a, snd_inv o (l_sub x) (l_nvs x) a /\ a <= zlen delY /\ o_ack o = seqof (zlen (l_del x));
  sv_prefix : l_del x = firstn (Z.to_nat (zlen (l_del x))) subY;
  sv_dle : zlen (l_del x) <= zlen subY;
  sv_gap : zlen (l_sub x) - zlen delY <= 511;
  sv_nvr : incl (l_nvr x) nvsY;
  sv_ready : 0 <= l_ready x <= 1;
  sv_ready_conn : c_state (l_conn x) = Connecting -> l_ready x = 0;
  sv_ans : 1 <= l_ready x -> ansY = true;
}.

Definition flight_inv (x : lside) (f : flight) : Prop :=
  flight_ok f (zlen (l_sub x)) (zlen (l_del x)) (l_sub x) (l_nvs x) /\
  dgram_in_ok (f_d f) /\
  (is_connect_accept (f_d f) = true -> l_answered x = true).
Definition bag_inv (fl : list flight) (x : lside) : Prop := Forall (flight_inv x) fl.

Definition link_inv (w : link) : Prop :=
  side_inv (k_a w) (l_sub (k_b w)) (l_del (k_b w)) (l_nvs (k_b w)) (l_answered (k_b w)) /\
  side_inv (k_b w) (l_sub (k_a w)) (l_del (k_a w)) (l_nvs (k_a w)) (l_answered (k_a w)) /\
  bag_inv (k_ab w) (k_a w) /\ bag_inv (k_ba w) (k_b w).

(* how the ghost histories of a side evolve *)
Definition grows (x x' : lside) : Prop :=
  (exists e, l_sub x' = l_sub x ++ e) /\ (exists e, l_del x' = l_del x ++ e) /\
  incl (l_nvs x) (l_nvs x') /\ (l_answered x = true -> l_answered x' = true).

Lemma grows_refl x : grows x x.
Proof.
  repeat split; try (exists []; rewrite app_nil_r; reflexivity); try apply incl_refl. auto.
Qed.

Lemma firstn_app_le' {A} (l m : list A) k : (k <= length l)%nat -> firstn k (l ++ m) = firstn k l.
Proof.
  intros H. rewrite firstn_app. replace (k - length l)%nat with 0%nat by lia. cbn. apply app_nil_r.
Qed.

(* the peer's histories grew: what held of x still holds *)
Lemma side_inv_mono x y y' ans' :
  side_inv x (l_sub y) (l_del y) (l_nvs y) (l_answered y) -> grows y y' ->
  ans' = l_answered y' ->
  side_inv x (l_sub y') (l_del y') (l_nvs y') ans'.
Proof.
  intros [C F O P D G N R RC A] [[es Hs] [[ed Hd] [Hn Ha]]] ->.
  constructor; try assumption.
  - intros o Ho. destruct (O o Ho) as [a [H1 [H2 H3]]]. exists a. split; [exact H1|]. split; [|exact H3].
    rewrite Hd, zlen_app. pose proof (zlen_nonneg ed). lia.
  - rewrite Hs. rewrite firstn_app_le'; [exact P|]. unfold zlen in *. lia.
  - rewrite Hs, zlen_app. pose proof (zlen_nonneg es). lia.
  - rewrite Hd, zlen_app. pose proof (zlen_nonneg ed). lia.
  - intros z Hz. apply Hn, N, Hz.
  - intros H. apply Ha, A, H.
Qed.

Lemma chunk_is_grow c n sl sub nvs sub' nvs' e :
  chunk_is c n sl sub nvs -> n <= zlen sub -> sub' = sub ++ e -> incl nvs nvs' -> chunk_is c n sl sub' nvs'.
Proof.
  intros H Hn -> Hi. eapply chunk_is_mono; try eassumption; try lia.
  intros i Hi'. apply subn_app_old. exact Hi'.
Qed.

Lemma flight_inv_mono x x' f : flight_inv x f -> grows x x' -> flight_inv x' f.
Proof.
  intros [[H1 [H2 [H3 [H4 H5]]]] [Hin Hca]] [[es Hs] [[ed Hd] [Hn Ha]]].
  split; [|split; [exact Hin|intros H; apply Ha, Hca, H]].
  unfold flight_ok. rewrite Hs, Hd, !zlen_app. pose proof (zlen_nonneg es). pose proof (zlen_nonneg ed).
  split; [lia|]. split; [lia|]. split; [exact H3|]. split; [exact H4|].
  eapply Forall_impl; [|exact H5]. intros c Hc.
  apply (chunk_is_grow c (f_n f) 1024 (l_sub x) (l_nvs x) (l_sub x ++ es) (l_nvs x') es Hc); [lia|reflexivity|exact Hn].
Qed.

Lemma bag_inv_mono fl x x' : bag_inv fl x -> grows x x' -> bag_inv fl x'.
Proof. intros H Hg. eapply Forall_impl; [|exact H]. intros f Hf. eapply flight_inv_mono; eassumption. Qed.

(* a control datagram carrying the current acknowledgement *)
Lemma control_flight x tok ack c :
  ack = seqof (zlen (l_del x)) -> tok_ok tok ->
  (c = ConnectAccept -> l_answered x = true) ->
  flight_inv x {| f_d := DControl tok ack c; f_n := zlen (l_sub x); f_c := zlen (l_del x) |}.
Proof.
  intros Hack Htok Hca. pose proof (zlen_nonneg (l_sub x)). pose proof (zlen_nonneg (l_del x)).
  split; [|split].
  - unfold flight_ok. cbn. repeat split; try lia.
    + intros a Ha. injection Ha as <-. exact Hack.
    + constructor.
  - cbn. split; [exact Htok|]. subst ack. apply seqof_range.
  - cbn. destruct c; try discriminate. intros _. apply Hca. reflexivity.
Qed.

(* ---------- bookkeeping ---------- *)
Definition after (x : lside) (o : op) (out : outcome) : lside :=
  {| l_conn := out_conn out; l_rand := e_rand (out_env out);
     l_sub := match o, out_res out with OpSend d true, ROk => l_sub x ++ [d] | _, _ => l_sub x end;
     l_del := l_del x ++ vital_payloads (out_events out);
     l_nvs := match o, out_res out with OpSend d false, ROk => d :: l_nvs x | _, _ => l_nvs x end;
     l_nvr := l_nvr x ++ nonvital_payloads (out_events out);
     l_ready := l_ready x + ready_events (out_events out);
     l_answered := l_answered x || existsb is_connect_accept (out_sent out) |}.

Definition flights_of (x : lside) (out : outcome) : list flight :=
  map (fun d => {| f_d := d; f_n := zlen (l_sub x); f_c := zlen (l_del x) |}) (out_sent out).

Lemma side_step_unfold now x o out :
  step (l_conn x) {| e_now := now; e_rand := l_rand x |} o = Ok out ->
  side_step now x o = Ok (after x o out, flights_of x out).
Proof. intros H. unfold side_step. rewrite H. reflexivity. Qed.

(* a call that touches no history: everything about the histories carries over *)
Lemma side_inv_keep x x' subY delY nvsY ansY :
  side_inv x subY delY nvsY ansY ->
  l_sub x' = l_sub x -> l_del x' = l_del x -> l_nvs x' = l_nvs x -> l_nvr x' = l_nvr x ->
  l_ready x' = l_ready x ->
  conn_ok6 (l_conn x') ->
  (never_online (c_state (l_conn x')) -> never_online (c_state (l_conn x))) ->
  (forall o', c_state (l_conn x') = Online o' ->
     exists a, snd_inv o' (l_sub x) (l_nvs x) a /\ a <= zlen delY /\ o_ack o' = seqof (zlen (l_del x))) ->
  (c_state (l_conn x') = Connecting -> l_ready x = 0) ->
  side_inv x' subY delY nvsY ansY.
Proof.
  intros [C F O P D G N R RC A] Hs Hd Hn Hr Hy Hc Hnev Hon Hcon.
  constructor; rewrite ?Hs, ?Hd, ?Hn, ?Hr, ?Hy; try assumption.
  intros H. apply F, Hnev, H.
Qed.

Lemma flights_inv x' x out :
  Forall (fun d => flight_inv x' {| f_d := d; f_n := zlen (l_sub x); f_c := zlen (l_del x) |}) (out_sent out) ->
  bag_inv (flights_of x out) x'.
Proof.
  intros H. unfold bag_inv, flights_of. apply Forall_map. exact H.
Qed.

Lemma flight_ok_inv x' d n dc :
  flight_ok (mk_flight n dc d) (zlen (l_sub x')) (zlen (l_del x')) (l_sub x') (l_nvs x') ->
  dgram_in_ok d -> is_connect_accept d = false ->
  flight_inv x' {| f_d := d; f_n := n; f_c := dc |}.
Proof.
  intros H1 H2 H3. split; [exact H1|]. split; [exact H2|]. cbn. rewrite H3. discriminate.
Qed.

(* emitted chunk datagrams are acceptable input for the peer *)
Lemma dgram_ok_in pp d : dgram_ok pp d -> dgram_in_ok d.
Proof.
  destruct d as [t r p|t a c|t a rr n cs]; cbn; [exact (fun _ => I)| |].
  - intros [H1 [H2 _]]. split; assumption.
  - intros [H1 [H2 [_ [_ [H5 _]]]]]. split; [exact H1|]. split; [exact H2|].
    eapply Forall_impl; [|exact H5]. intros c [_ Hc]. exact Hc.
Qed.

Lemma online_parts x subY delY nvsY ansY on :
  side_inv x subY delY nvsY ansY -> c_state (l_conn x) = Online on ->
  online_ok pp6 on /\ pk_count_ok (o_packet on) /\ pk_count_ok (o_packet_nv on) /\
  exists a, snd_inv on (l_sub x) (l_nvs x) a /\ a <= zlen delY /\ o_ack on = seqof (zlen (l_del x)).
Proof.
  intros Hi Hon. pose proof (sv_conn _ _ _ _ _ Hi) as Hc. unfold conn_ok6 in Hc. rewrite Hon in Hc.
  destruct Hc as [Hok _]. split; [exact Hok|]. pose proof Hok as [Hp [Hnv _]].
  split; [eapply pc_ok_count, Hp|]. split; [eapply pc_ok_count, Hnv|]. apply (sv_online _ _ _ _ _ Hi), Hon.
Qed.

Lemma chunk_flights x' x ds :
  Forall (fun d => flight_ok (mk_flight (zlen (l_sub x)) (zlen (l_del x)) d)
                     (zlen (l_sub x)) (zlen (l_del x)) (l_sub x) (l_nvs x)) ds ->
  Forall (dgram_ok pp6) ds -> Forall (fun d => is_connect_accept d = false) ds ->
  grows x x' ->
  Forall (fun d => flight_inv x' {| f_d := d; f_n := zlen (l_sub x); f_c := zlen (l_del x) |}) ds.
Proof.
  intros H1 H2 H3 Hg. induction ds as [|d ds IH]; [constructor|].
  inversion H1; inversion H2; inversion H3; subst. constructor; [|apply IH; assumption].
  apply (flight_inv_mono x x'); [|exact Hg]. apply flight_ok_inv; try assumption. eapply dgram_ok_in; eassumption.
Qed.

Lemma flush_not_ca pp o o' ds : online_flush pp o = Ok (o', ds) -> Forall (fun d => is_connect_accept d = false) ds.
Proof.
  unfold online_flush. destruct (negb (can_send o)); [intros H; injection H as <- <-; constructor|].
  destruct (MAX_PACKETSIZE <? _); [discriminate|]. intros H; injection H as <- <-. constructor; [reflexivity|constructor].
Qed.

Lemma resend_loop_not_ca pp : forall todo fuel o out ts o' out' ts',
  resend_loop pp fuel o todo out ts = Ok (o', out', ts') ->
  Forall (fun d => is_connect_accept d = false) out -> Forall (fun d => is_connect_accept d = false) out'.
Proof.
  induction todo as [|c rest IH].
  - intros fuel o out ts o' out' ts' H Ho. destruct fuel; cbn in H; injection H as <- <- <-; exact Ho.
  - induction fuel as [|fuel IHf]; intros o out ts o' out' ts' H Ho; cbn [resend_loop] in H; [discriminate|].
    destruct (can_fit_chunk _ _ _ _).
    + destruct (pc_write_chunk _ _ _ _) as [p| | |]; try discriminate. eapply IH; eassumption.
    + destruct (online_flush pp o) as [[o1 d1]| | |] eqn:Ef; try discriminate.
      eapply IHf; [eassumption|]. apply Forall_app. split; [exact Ho|eapply flush_not_ca, Ef].
Qed.

Lemma resend_not_ca pp now o o' ds ts : online_resend pp now o = Ok (o', ds, ts) ->
  Forall (fun d => is_connect_accept d = false) ds.
Proof.
  unfold online_resend. destruct (o_queue o); [intros H; injection H as <- <- <-; constructor|].
  intros H. eapply resend_loop_not_ca; [exact H|constructor].
Qed.

Lemma online_keep x x' subY delY nvsY ansY on o' :
  side_inv x subY delY nvsY ansY ->
  c_state (l_conn x) = Online on -> c_state (l_conn x') = Online o' ->
  l_sub x' = l_sub x -> l_del x' = l_del x -> l_nvs x' = l_nvs x -> l_nvr x' = l_nvr x ->
  l_ready x' = l_ready x -> conn_ok6 (l_conn x') ->
  (forall a, snd_inv on (l_sub x) (l_nvs x) a -> snd_inv o' (l_sub x) (l_nvs x) a) ->
  o_ack o' = o_ack on ->
  side_inv x' subY delY nvsY ansY.
Proof.
  intros Hi Hon Hon' Hs Hd Hn Hr Hy Hc Hsnd Hack.
  eapply side_inv_keep; try eassumption.
  - rewrite Hon'. intros [].
  - intros o2 Ho2. rewrite Hon' in Ho2. injection Ho2 as <-.
    destruct (sv_online _ _ _ _ _ Hi on Hon) as [a [H1 [H2 H3]]]. exists a.
    split; [apply Hsnd, H1|]. split; [exact H2|congruence].
  - rewrite Hon'. discriminate.
Qed.

Ltac same_ghosts := repeat match goal with o := mk _ _ _ _ _ _ |- _ => subst o end; cbn [after l_sub l_del l_nvs l_nvr l_ready out_events out_res out_conn mk vital_payloads
                         nonvital_payloads flat_map filter]; rewrite ?app_nil_r; try reflexivity;
  try (match goal with |- context [ready_events ?l] =>
         let v := eval compute in (ready_events l) in change (ready_events l) with v end; lia);
  try lia.

Lemma after_noev_grows x o out :
  out_events out = [] -> (forall d v, o <> OpSend d v) -> grows x (after x o out).
Proof.
  intros He Ho. unfold grows, after. cbn. rewrite He. cbn.
  assert (Hs : match o, out_res out with OpSend d true, ROk => l_sub x ++ [d] | _, _ => l_sub x end = l_sub x).
  { destruct o; try reflexivity. exfalso. eapply Ho. reflexivity. }
  assert (Hn : match o, out_res out with OpSend d false, ROk => d :: l_nvs x | _, _ => l_nvs x end = l_nvs x).
  { destruct o; try reflexivity. exfalso. eapply Ho. reflexivity. }
  rewrite Hs, Hn. split; [exists []; rewrite app_nil_r; reflexivity|].
  split; [exists []; reflexivity|]. split; [apply incl_refl|]. intros ->. reflexivity.
Qed.


(* a call that emits one control datagram and leaves the online record (if any) untouched *)
Lemma control_step x subY delY nvsY ansY o c' e' tok ack ctl :
  side_inv x subY delY nvsY ansY -> (forall d v, o <> OpSend d v) ->
  conn_ok6 c' -> dgram_ok pp6 (DControl tok ack ctl) ->
  (never_online (c_state c') -> never_online (c_state (l_conn x))) ->
  (forall o', c_state c' = Online o' -> c_state (l_conn x) = Online o') ->
  (c_state c' = Connecting -> l_ready x = 0) ->
  (match c_state (l_conn x) with Online on => ack = o_ack on | _ => ack = 0 end) ->
  c_state (l_conn x) <> Disconnected ->
  let out := mk c' e' [DControl tok ack ctl] [] [] ROk in
  side_inv (after x o out) subY delY nvsY ansY /\ bag_inv (flights_of x out) (after x o out) /\
  grows x (after x o out).
Proof.
  intros Hi Ho Hc' Hds Hnev Hon Hcon Hack Hnd out.
  assert (Hg : grows x (after x o out)) by (apply after_noev_grows; [reflexivity|exact Ho]).
  assert (Hs : l_sub (after x o out) = l_sub x).
  { cbn. destruct o; try reflexivity. exfalso. eapply Ho. reflexivity. }
  assert (Hn : l_nvs (after x o out) = l_nvs x).
  { cbn. destruct o; try reflexivity. exfalso. eapply Ho. reflexivity. }
  assert (Hd : l_del (after x o out) = l_del x) by (cbn; apply app_nil_r).
  split; [|split; [|exact Hg]].
  - assert (Hr : l_nvr (after x o out) = l_nvr x) by (cbn; apply app_nil_r).
    assert (Hy : l_ready (after x o out) = l_ready x) by (cbn; change (ready_events []) with 0; lia).
    eapply side_inv_keep; [exact Hi|exact Hs|exact Hd|exact Hn|exact Hr|exact Hy|exact Hc'|exact Hnev| |exact Hcon].
    intros o' Ho'. apply (sv_online _ _ _ _ _ Hi), Hon, Ho'.
  - apply flights_inv. cbn [out_sent out mk]. constructor; [|constructor].
    assert (Hack0 : ack = seqof (zlen (l_del x))).
    { destruct (c_state (l_conn x)) as [| |t|on|] eqn:Es; try contradiction; subst ack.
      - destruct (sv_fresh _ _ _ _ _ Hi) as [_ [-> _]]; [rewrite Es; exact I|reflexivity].
      - destruct (sv_fresh _ _ _ _ _ Hi) as [_ [-> _]]; [rewrite Es; exact I|reflexivity].
      - destruct (sv_fresh _ _ _ _ _ Hi) as [_ [-> _]]; [rewrite Es; exact I|reflexivity].
      - destruct (sv_online _ _ _ _ _ Hi on Es) as [a [_ [_ H]]]. exact H. }
    rewrite <- Hs, <- Hd. apply control_flight.
    + rewrite Hd. exact Hack0.
    + apply Hds.
    + intros ->. cbn. apply orb_true_r.
Qed.


Lemma send_control_shape st c ds : send_control st c = Ok ds ->
  exists tok, ds = [DControl tok (match st with Online o => o_ack o | _ => 0 end) c].
Proof.
  unfold send_control. destruct st as [| |t|o|]; try discriminate;
    (destruct (MAX_PACKETSIZE <? _); [discriminate|]); intros H; injection H as <-; eexists; reflexivity.
Qed.

(* a call that emits nothing, raises no event and keeps the state (the send timer may change) *)
Lemma noop_step x subY delY nvsY ansY o c' e' r :
  side_inv x subY delY nvsY ansY -> (forall d v, o <> OpSend d v) ->
  conn_ok6 c' -> c_state c' = c_state (l_conn x) ->
  let out := mk c' e' [] [] [] r in
  side_inv (after x o out) subY delY nvsY ansY /\ bag_inv (flights_of x out) (after x o out) /\
  grows x (after x o out).
Proof.
  intros Hi Ho Hc' Hst out.
  assert (Hg : grows x (after x o out)) by (apply after_noev_grows; [reflexivity|exact Ho]).
  assert (Hs : l_sub (after x o out) = l_sub x).
  { cbn. destruct o; try reflexivity. exfalso. eapply Ho. reflexivity. }
  assert (Hn : l_nvs (after x o out) = l_nvs x).
  { cbn. destruct o; try reflexivity. exfalso. eapply Ho. reflexivity. }
  assert (Hd : l_del (after x o out) = l_del x) by (cbn; apply app_nil_r).
  assert (Hr : l_nvr (after x o out) = l_nvr x) by (cbn; apply app_nil_r).
  assert (Hy : l_ready (after x o out) = l_ready x) by (cbn; change (ready_events []) with 0; lia).
  split; [|split; [constructor|exact Hg]].
  eapply side_inv_keep; [exact Hi|exact Hs|exact Hd|exact Hn|exact Hr|exact Hy|exact Hc'| | |].
  - cbn [after l_conn out out_conn mk]. rewrite Hst. auto.
  - cbn [after l_conn out out_conn mk]. rewrite Hst. apply (sv_online _ _ _ _ _ Hi).
  - cbn [after l_conn out out_conn mk]. rewrite Hst. apply (sv_ready_conn _ _ _ _ _ Hi).
Qed.

(* an online call that rebuilds / flushes packets: histories untouched, chunk datagrams emitted *)
Lemma online_step x subY delY nvsY ansY o on o' snd ds e' :
  side_inv x subY delY nvsY ansY -> (forall d v, o <> OpSend d v) ->
  c_state (l_conn x) = Online on ->
  conn_ok6 {| c_state := Online o'; c_send := snd |} -> Forall (dgram_ok pp6) ds ->
  (forall a, snd_inv on (l_sub x) (l_nvs x) a -> snd_inv o' (l_sub x) (l_nvs x) a) ->
  o_ack o' = o_ack on ->
  Forall (fun d => flight_ok (mk_flight (zlen (l_sub x)) (zlen (l_del x)) d)
                     (zlen (l_sub x)) (zlen (l_del x)) (l_sub x) (l_nvs x)) ds ->
  Forall (fun d => is_connect_accept d = false) ds ->
  let out := mk {| c_state := Online o'; c_send := snd |} e' ds [] [] ROk in
  side_inv (after x o out) subY delY nvsY ansY /\ bag_inv (flights_of x out) (after x o out) /\
  grows x (after x o out).
Proof.
  intros Hi Ho Hon Hc' Hds Hsnd Hack Hfl Hca out.
  assert (Hg : grows x (after x o out)) by (apply after_noev_grows; [reflexivity|exact Ho]).
  assert (Hs : l_sub (after x o out) = l_sub x).
  { cbn. destruct o; try reflexivity. exfalso. eapply Ho. reflexivity. }
  assert (Hn : l_nvs (after x o out) = l_nvs x).
  { cbn. destruct o; try reflexivity. exfalso. eapply Ho. reflexivity. }
  assert (Hd : l_del (after x o out) = l_del x) by (cbn; apply app_nil_r).
  assert (Hr : l_nvr (after x o out) = l_nvr x) by (cbn; apply app_nil_r).
  assert (Hy : l_ready (after x o out) = l_ready x) by (cbn; change (ready_events []) with 0; lia).
  split; [|split; [|exact Hg]].
  - eapply (online_keep x _ _ _ _ _ on o'); [exact Hi|exact Hon|reflexivity|exact Hs|exact Hd|exact Hn|exact Hr|exact Hy|exact Hc'|exact Hsnd|exact Hack].
  - apply flights_inv. cbn [out_sent out mk]. eapply chunk_flights; eassumption.
Qed.

(* ---------- application calls ---------- *)
Theorem app_step_inv now x subY delY nvsY ansY o :
  side_inv x subY delY nvsY ansY -> app_op o ->
  valid_op6 (l_conn x) {| e_now := now; e_rand := l_rand x |} o -> window_ok x o ->
  exists x' fl, side_step now x o = Ok (x', fl) /\ side_inv x' subY delY nvsY ansY /\
                bag_inv fl x' /\ grows x x'.
Proof.
  intros Hi Happ Hv Hw. pose proof (sv_conn _ _ _ _ _ Hi) as Hc.
  destruct (step_ok6 _ _ _ Hc Hv) as [out [Hstep [Hc' Hds]]].
  exists (after x o out), (flights_of x out). split; [apply side_step_unfold, Hstep|].
  destruct o as [|data vital| | |reason|data|d| |]; try contradiction; cbn [valid_op6] in Hv; unfold step in Hstep; cbn [e_now e_rand] in Hstep.
  - (* connect *)
    rewrite Hv in Hstep. unfold tick_action in Hstep. cbn [c_state send_control] in Hstep.
    change (MAX_PACKETSIZE <? control_size params6 (Some TOKEN_NONE) (Connect None)) with false in Hstep.
    cbn [bind] in Hstep. injection Hstep as <-.
    assert (Hnev : never_online (c_state (l_conn x))) by (rewrite Hv; exact I).
    destruct (sv_fresh _ _ _ _ _ Hi Hnev) as [Hs0 [Hd0 [Hn0 Hr0]]].
    assert (Hg : grows x (after x OpConnect (mk {| c_state := Connecting; c_send := Some (now + ms 500) |}
                   {| e_now := now; e_rand := l_rand x |} [DControl (Some TOKEN_NONE) 0 (Connect None)] [] [] ROk)))
      by (apply after_noev_grows; [reflexivity|discriminate]).
    split; [|split; [|exact Hg]].
    + eapply side_inv_keep; try exact Hi; same_ghosts.
      * exact Hc'.
      * intros _. exact Hnev.
      * intros o' Ho'. discriminate Ho'.
    + apply flights_inv. cbn [out_sent mk]. constructor; [|constructor].
      apply (flight_inv_mono x); [|exact Hg].
      apply control_flight; [rewrite Hd0; reflexivity|reflexivity|discriminate].
  - (* send *)
    destruct Hv as [on Hon]. rewrite Hon in Hstep.
    destruct (online_parts _ _ _ _ _ _ Hi Hon) as [Hok [Hcp [Hcnv [a [Hsnd [Ha Hack]]]]]].
    destruct (online_send params6 now on data vital) as [[[o' ds] r]| | |] eqn:Es; cbn [bind] in Hstep; try discriminate.
    injection Hstep as <-.
    assert (Hwin : vital = true -> zlen (o_queue on) < 511).
    { intros ->. unfold window_ok in Hw. rewrite Hon in Hw. exact Hw. }
    destruct (send_link params6 now on o' ds r data vital (l_sub x) (l_nvs x) a (zlen (l_del x)) Es Hcp Hsnd Hack
                (zlen_nonneg _) Hwin) as [Hack' [Hfl Hres]].
    set (out := mk {| c_state := Online o'; c_send := c_send (l_conn x) |} {| e_now := now; e_rand := l_rand x |} ds [] []
                   match r with SendOk => ROk | SendTooLong => RTooLongData end) in *.
    assert (Hg : grows x (after x (OpSend data vital) out)).
    { unfold grows, after, out. cbn. rewrite app_nil_r. destruct r, vital; cbn.
      all: repeat split; try (eexists; reflexivity); try (exists []; rewrite app_nil_r; reflexivity);
        try apply incl_refl; try (apply incl_tl, incl_refl); try (intros ->; reflexivity). }
    split; [|split; [|exact Hg]].
    + destruct Hi as [C F O P D G N R RC A].
      assert (Hdel : l_del (after x (OpSend data vital) out) = l_del x) by (cbn; apply app_nil_r).
      assert (Hnvr : l_nvr (after x (OpSend data vital) out) = l_nvr x) by (cbn; apply app_nil_r).
      assert (Hrdy : l_ready (after x (OpSend data vital) out) = l_ready x) by (cbn; change (ready_events []) with 0; lia).
      constructor; rewrite ?Hdel, ?Hnvr, ?Hrdy; try assumption.
      * cbn. intros [].
      * intros o2 Ho2. cbn in Ho2. injection Ho2 as <-. exists a. cbn [after l_sub l_nvs out out_res mk].
        destruct r.
        -- destruct vital; (split; [exact Hres|]); (split; [exact Ha|congruence]).
        -- destruct Hres as [-> _]. split; [destruct vital; exact Hsnd|]. split; [exact Ha|exact Hack].
      * (* the gap: (W) keeps the sender less than 512 chunks ahead of what the peer has delivered *)
        cbn [after l_sub out out_res mk].
        destruct r; [|destruct vital; exact G]. destruct vital; [|exact G].
        rewrite zlen_app. unfold zlen at 2. cbn [length].
        destruct Hsnd as [_ Hq _ _ _ _ _]. pose proof (queue_is_len _ _ _ _ Hq). specialize (Hwin eq_refl). lia.
      * cbn. discriminate.
    + apply flights_inv. cbn [out_sent out mk]. eapply chunk_flights; try eassumption.
      unfold online_send in Es. destruct (_ || _) in Es; [injection Es as _ <- _; constructor|].
      destruct (negb (can_fit_chunk _ _ _ _)) in Es.
      * destruct (online_flush params6 on) as [[o1 d1]| | |] eqn:Ef; cbn [bind] in Es; try discriminate.
        destruct (online_queue _ _ _ _ _) in Es; cbn [bind] in Es; try discriminate.
        injection Es as _ <- _. eapply flush_not_ca, Ef.
      * cbn [bind] in Es. destruct (online_queue _ _ _ _ _) in Es; cbn [bind] in Es; try discriminate.
        injection Es as _ <- _. constructor.
  - (* flush *)
    destruct Hv as [on Hon]. rewrite Hon in Hstep.
    destruct (online_parts _ _ _ _ _ _ Hi Hon) as [Hok [Hcp [Hcnv [a [Hsnd [Ha Hack]]]]]].
    destruct (online_flush params6 on) as [[o' ds]| | |] eqn:Ef; cbn [bind] in Hstep; try discriminate.
    injection Hstep as <-.
    assert (Hg : grows x (after x OpFlush (mk {| c_state := Online o'; c_send := Some (now + ms 500) |}
                   {| e_now := now; e_rand := l_rand x |} ds [] [] ROk)))
      by (apply after_noev_grows; [reflexivity|discriminate]).
    split; [|split; [|exact Hg]].
    + eapply (online_keep x _ _ _ _ _ on o'); try exact Hi; try exact Hon; same_ghosts.
      * exact Hc'.
      * intros a0 Ha0. eapply (flush_link params6 on o' ds _ _ a0 (zlen (l_del x)) Ef Hcp Ha0 Hack (zlen_nonneg _)).
      * eapply (flush_link params6 on o' ds _ _ a (zlen (l_del x)) Ef Hcp Hsnd Hack (zlen_nonneg _)).
    + apply flights_inv. cbn [out_sent mk]. eapply chunk_flights; try eassumption.
      * eapply (flush_link params6 on o' ds _ _ a (zlen (l_del x)) Ef Hcp Hsnd Hack (zlen_nonneg _)).
      * eapply flush_not_ca, Ef.
  - (* tick *)
    destruct (c_state (l_conn x)) as [| |t|on|] eqn:Est.
    + (* unconnected *)
      cbn [negb] in Hstep.
      destruct (triggered (c_send (l_conn x)) now); unfold tick_action in Hstep; cbn [c_state] in Hstep;
        injection Hstep as <-; apply noop_step; try assumption; try discriminate; try (cbn; congruence).
    + (* connecting: the Connect is repeated *)
      destruct (triggered (c_send (l_conn x)) now).
      * unfold tick_action in Hstep. cbn [c_state send_control] in Hstep.
        change (MAX_PACKETSIZE <? control_size params6 (Some TOKEN_NONE) (Connect None)) with false in Hstep.
        cbn [bind] in Hstep. injection Hstep as <-.
        apply control_step; try assumption; try discriminate.
        -- inversion Hds; assumption.
        -- rewrite Est. auto.
        -- intros _. apply (sv_ready_conn _ _ _ _ _ Hi), Est.
        -- rewrite Est. reflexivity.
        -- rewrite Est. discriminate.
      * injection Hstep as <-. apply noop_step; try assumption; try discriminate; try (cbn; congruence).
    + (* pending: the ConnectAccept is repeated *)
      destruct (triggered (c_send (l_conn x)) now).
      * unfold tick_action in Hstep. cbn [c_state] in Hstep.
        destruct (send_control (Pending t) ConnectAccept) as [ds| | |] eqn:Esc; cbn [bind] in Hstep; try discriminate.
        destruct (send_control_shape _ _ _ Esc) as [tok ->]. injection Hstep as <-.
        apply control_step; try assumption; try discriminate.
        -- inversion Hds; assumption.
        -- rewrite Est. auto.
        -- rewrite Est. reflexivity.
        -- rewrite Est. discriminate.
      * injection Hstep as <-. apply noop_step; try assumption; try discriminate; try (cbn; congruence).
    + (* online *)
      destruct (online_parts _ _ _ _ _ _ Hi Est) as [Hok [Hcp [Hcnv [a [Hsnd [Ha Hack]]]]]].
      destruct (match queue_back (o_queue on) with Some rc => triggered (rc_next rc) now | None => false end).
      * (* the resend deadline has passed *)
        unfold do_resend in Hstep. cbn [e_now] in Hstep.
        destruct (online_resend params6 now on) as [[[o' ds] ts]| | |] eqn:Er; cbn [bind] in Hstep; try discriminate.
        injection Hstep as <-.
        apply (online_step x subY delY nvsY ansY OpTick on o'); try assumption; try discriminate.
        -- intros a0 Ha0. eapply (resend_link params6 now on o' ds ts _ _ a0 (zlen (l_del x)) Er Hcp Hcnv Ha0 Hack (zlen_nonneg _)).
        -- eapply (resend_link params6 now on o' ds ts _ _ a (zlen (l_del x)) Er Hcp Hcnv Hsnd Hack (zlen_nonneg _)).
        -- eapply (resend_link params6 now on o' ds ts _ _ a (zlen (l_del x)) Er Hcp Hcnv Hsnd Hack (zlen_nonneg _)).
        -- eapply resend_not_ca, Er.
      * destruct (triggered (c_send (l_conn x)) now).
        -- unfold tick_action in Hstep. cbn [c_state c_send] in Hstep. destruct (can_send on).
           ++ destruct (online_flush params6 on) as [[o' ds]| | |] eqn:Ef; cbn [bind] in Hstep; try discriminate.
              injection Hstep as <-.
              apply (online_step x subY delY nvsY ansY OpTick on o'); try assumption; try discriminate.
              ** intros a0 Ha0. eapply (flush_link params6 on o' ds _ _ a0 (zlen (l_del x)) Ef Hcp Ha0 Hack (zlen_nonneg _)).
              ** eapply (flush_link params6 on o' ds _ _ a (zlen (l_del x)) Ef Hcp Hsnd Hack (zlen_nonneg _)).
              ** eapply (flush_link params6 on o' ds _ _ a (zlen (l_del x)) Ef Hcp Hsnd Hack (zlen_nonneg _)).
              ** eapply flush_not_ca, Ef.
           ++ destruct (send_control (Online on) KeepAlive) as [ds| | |] eqn:Esc; cbn [bind] in Hstep; try discriminate.
              destruct (send_control_shape _ _ _ Esc) as [tok ->]. injection Hstep as <-.
              apply control_step; try assumption; try discriminate.
              ** inversion Hds; assumption.
              ** rewrite Est. auto.
              ** cbn. intros o' Ho'. rewrite Est. exact Ho'.
              ** rewrite Est. reflexivity.
              ** rewrite Est. discriminate.
        -- injection Hstep as <-. apply noop_step; try assumption; try discriminate; try (cbn; congruence).
    + (* disconnected *)
      cbn [negb] in Hstep.
      destruct (triggered (c_send (l_conn x)) now); unfold tick_action in Hstep; cbn [c_state] in Hstep;
        injection Hstep as <-; apply noop_step; try assumption; try discriminate; try (cbn; congruence).
  - (* disconnect *)
    destruct Hv as [H1 [H2 [Hn Hl]]]. rewrite Hn in Hstep.
    destruct (c_state (l_conn x)) as [| |t|on|] eqn:Est; try contradiction.
    all: match type of Hstep with context [send_control ?st ?c] =>
           destruct (send_control st c) as [ds| | |] eqn:Esc; cbn [bind] in Hstep; try discriminate;
           destruct (send_control_shape _ _ _ Esc) as [tok ->]; injection Hstep as <-;
           apply control_step; try assumption; try discriminate;
           [inversion Hds; assumption | cbn; intros [] | rewrite Est; reflexivity | rewrite Est; discriminate]
         end.
  - (* connless *)
    destruct Hv as [on Hon]. rewrite Hon in Hstep.
    destruct (online_parts _ _ _ _ _ _ Hi Hon) as [Hok [Hcp [Hcnv [a [Hsnd [Ha Hack]]]]]].
    destruct (MAX_PAYLOAD <? Z.of_nat (length data)); injection Hstep as <-.
    + assert (Hk := noop_step x subY delY nvsY ansY (OpSendConnless data)
                      {| c_state := Online on; c_send := Some (now + ms 500) |} {| e_now := now; e_rand := l_rand x |} RTooLongData Hi).
      apply Hk; try discriminate; [exact Hc'|cbn; congruence].
    + apply (online_step x subY delY nvsY ansY (OpSendConnless data) on on); try assumption; try discriminate; try auto.
      * constructor; [|constructor]. unfold flight_ok, mk_flight. cbn.
        pose proof (zlen_nonneg (l_sub x)). pose proof (zlen_nonneg (l_del x)).
        repeat split; try lia; try discriminate. constructor.
Qed.

(* ---------- datagrams arriving ---------- *)

(* events that touch no history *)
Definition quiet (evs : list ev) : Prop :=
  vital_payloads evs = [] /\ nonvital_payloads evs = [] /\ ready_events evs = 0.

Lemma quiet_step x subY delY nvsY ansY o c' e' evs ws r :
  side_inv x subY delY nvsY ansY -> (forall d v, o <> OpSend d v) -> quiet evs ->
  conn_ok6 c' -> c_state c' = c_state (l_conn x) ->
  let out := mk c' e' [] evs ws r in
  side_inv (after x o out) subY delY nvsY ansY /\ bag_inv (flights_of x out) (after x o out) /\
  grows x (after x o out).
Proof.
  intros Hi Ho [Q1 [Q2 Q3]] Hc' Hst out.
  assert (Hs : l_sub (after x o out) = l_sub x).
  { cbn. destruct o; try reflexivity. exfalso. eapply Ho. reflexivity. }
  assert (Hn : l_nvs (after x o out) = l_nvs x).
  { cbn. destruct o; try reflexivity. exfalso. eapply Ho. reflexivity. }
  assert (Hd : l_del (after x o out) = l_del x) by (unfold out, after; cbn [l_del out_events mk]; rewrite Q1; apply app_nil_r).
  assert (Hr : l_nvr (after x o out) = l_nvr x) by (unfold out, after; cbn [l_nvr out_events mk]; rewrite Q2; apply app_nil_r).
  assert (Hy : l_ready (after x o out) = l_ready x) by (unfold out, after; cbn [l_ready out_events mk]; rewrite Q3; lia).
  assert (Hg : grows x (after x o out)).
  { unfold grows. rewrite Hs, Hd, Hn. split; [exists []; rewrite app_nil_r; reflexivity|].
    split; [exists []; rewrite app_nil_r; reflexivity|]. split; [apply incl_refl|].
    cbn. intros ->. reflexivity. }
  split; [|split; [constructor|exact Hg]].
  eapply side_inv_keep; [exact Hi|exact Hs|exact Hd|exact Hn|exact Hr|exact Hy|exact Hc'| | |].
  - cbn [after l_conn out out_conn mk]. rewrite Hst. auto.
  - cbn [after l_conn out out_conn mk]. rewrite Hst. apply (sv_online _ _ _ _ _ Hi).
  - cbn [after l_conn out out_conn mk]. rewrite Hst. apply (sv_ready_conn _ _ _ _ _ Hi).
Qed.

Lemma quiet_nil : quiet [].
Proof. repeat split. Qed.

(* the acknowledgement carried by a datagram of the peer: the resend queue shrinks, nothing else *)
Lemma ack_side x y on c :
  side_inv x (l_sub y) (l_del y) (l_nvs y) (l_answered y) ->
  c_state (l_conn x) = Online on ->
  0 <= c <= zlen (l_del y) -> zlen (l_sub x) - c < 1024 -> zlen (l_del y) <= zlen (l_sub x) ->
  exists a', snd_inv (ack_chunks on (seqof c)) (l_sub x) (l_nvs x) a' /\ a' <= zlen (l_del y) /\
             o_ack (ack_chunks on (seqof c)) = seqof (zlen (l_del x)).
Proof.
  intros Hi Hon Hc Hf Hle. destruct (sv_online _ _ _ _ _ Hi on Hon) as [a [Hs [Ha Hack]]].
  exists (Z.max a c). split; [apply ack_link; [exact Hs|lia|exact Hf]|]. split; [lia|].
  destruct (ack_chunks_same on (seqof c)) as [_ [E _]]. congruence.
Qed.

Lemma recv_events_quiet_ready cs : forall ack rr ack' rr' evs,
  recv_chunks ack rr cs = Ok (ack', rr', evs) -> ready_events evs = 0.
Proof.
  induction cs as [|c cs IH]; intros ack rr ack' rr' evs H; cbn [recv_chunks] in H.
  - injection H as <- <- <-. reflexivity.
  - destruct (ch_vital c) as [[s r]|].
    + destruct ((s <? 0) || (SEQ_MOD <=? s)); [discriminate|].
      destruct (seq_update ack s) as [a' o]. destruct o.
      * eapply IH, H.
      * destruct (recv_chunks a' rr cs) as [[[a2 r2] e2]| | |] eqn:E; try discriminate.
        injection H as <- <- <-. apply (IH _ _ _ _ _ E).
      * eapply IH, H.
    + destruct (recv_chunks ack rr cs) as [[[a2 r2] e2]| | |] eqn:E; try discriminate.
      injection H as <- <- <-. apply (IH _ _ _ _ _ E).
Qed.

Lemma snd_inv_new : snd_inv (online_new None None) [] [] 0 /\ forall t, snd_inv (online_new t t) [] [] 0.
Proof.
  assert (H : forall t, snd_inv (online_new t t) [] [] 0).
  { intros t. constructor; cbn; try reflexivity; try lia; try constructor. }
  split; [apply H|exact H].
Qed.

Lemma o_set_ack_snd o a r sub nvs k : snd_inv o sub nvs k -> snd_inv (o_set_ack o a r) sub nvs k.
Proof. intros [H1 H2 H3 H4 H5 H6 H7]. constructor; assumption. Qed.

(* the chunk datagram case, once the receiver is online with record o3 (after the ack and a possible resend) *)
Lemma chunks_arrive x y f o3 snd sent e' a3 cs ack' rr' evs :
  side_inv x (l_sub y) (l_del y) (l_nvs y) (l_answered y) ->
  flight_ok f (zlen (l_sub y)) (zlen (l_del y)) (l_sub y) (l_nvs y) -> dgram_chunks (f_d f) = cs ->
  fresh f x -> zlen (l_sub y) - zlen (l_del x) <= 511 ->
  snd_inv o3 (l_sub x) (l_nvs x) a3 -> a3 <= zlen (l_del y) -> o_ack o3 = seqof (zlen (l_del x)) ->
  recv_chunks (o_ack o3) (o_rr o3) cs = Ok (ack', rr', evs) ->
  conn_ok6 {| c_state := Online (o_set_ack o3 ack' rr'); c_send := snd |} ->
  Forall (dgram_ok pp6) sent ->
  Forall (fun d => flight_ok (mk_flight (zlen (l_sub x)) (zlen (l_del x)) d)
                     (zlen (l_sub x)) (zlen (l_del x)) (l_sub x) (l_nvs x)) sent ->
  Forall (fun d => is_connect_accept d = false) sent ->
  (never_online (c_state (l_conn x)) \/ exists on, c_state (l_conn x) = Online on) ->
  let out := mk {| c_state := Online (o_set_ack o3 ack' rr'); c_send := snd |} e' sent evs [] ROk in
  side_inv (after x (OpFeed (f_d f)) out) (l_sub y) (l_del y) (l_nvs y) (l_answered y) /\
  bag_inv (flights_of x out) (after x (OpFeed (f_d f)) out) /\ grows x (after x (OpFeed (f_d f)) out).
Proof.
  intros Hi Hf Hcs [Hfa Hfb] Hgap Hs3 Ha3 Hack3 Hrc Hc' Hds Hfl Hca Hstate out.
  destruct Hf as [Hfn [Hfc [Hfack [Hflen Hfch]]]]. rewrite Hcs in *.
  pose proof (sv_prefix _ _ _ _ _ Hi) as Hpre. pose proof (sv_dle _ _ _ _ _ Hi) as Hdle.
  rewrite Hack3 in Hrc.
  destruct (recv_link cs (zlen (l_del x)) (o_rr o3) (f_n f) (l_sub y) (l_nvs y) ack' rr' evs 0 Hrc Hfch)
    as [d' [Hd1 [Hd2 [Hd3 [Hd4 [Hd5 Hd6]]]]]].
  { split; [apply zlen_nonneg|exact Hdle]. }
  { lia. }
  { exact Hgap. }
  { unfold zlen. lia. }
  { lia. }
  { intros c s r Hin Hv. specialize (Hfb c s r Hin Hv). lia. }
  assert (Hrdy : ready_events evs = 0) by (eapply recv_events_quiet_ready, Hrc).
  assert (Hdel' : l_del (after x (OpFeed (f_d f)) out) = l_del x ++ vital_payloads evs) by reflexivity.
  assert (Hz : zlen (l_del x ++ vital_payloads evs) = d') by (rewrite zlen_app; lia).
  assert (Hg : grows x (after x (OpFeed (f_d f)) out)).
  { unfold grows. cbn. split; [exists []; rewrite app_nil_r; reflexivity|]. split; [eexists; reflexivity|].
    split; [apply incl_refl|]. intros ->. reflexivity. }
  split; [|split; [|exact Hg]].
  - constructor.
    + exact Hc'.
    + cbn. intros [].
    + intros o2 Ho2. cbn in Ho2. injection Ho2 as <-. exists a3. cbn [after l_sub l_nvs l_del out out_events out_res mk].
      split; [apply o_set_ack_snd, Hs3|]. split; [exact Ha3|]. cbn. rewrite Hz. exact Hd1.
    + rewrite Hdel', Hz. rewrite Hpre at 1. exact Hd4.
    + rewrite Hdel', Hz. lia.
    + cbn [after l_sub]. exact (sv_gap _ _ _ _ _ Hi).
    + cbn [after l_nvr out out_events mk]. apply incl_app; [exact (sv_nvr _ _ _ _ _ Hi)|exact Hd6].
    + cbn [after l_ready out out_events mk]. rewrite Hrdy. pose proof (sv_ready _ _ _ _ _ Hi). lia.
    + cbn. discriminate.
    + cbn [after l_ready out out_events mk]. rewrite Hrdy. replace (l_ready x + 0) with (l_ready x) by lia.
      exact (sv_ans _ _ _ _ _ Hi).
  - apply flights_inv. cbn [out_sent out mk]. eapply chunk_flights; eassumption.
Qed.

Lemma online_replace x x' subY delY nvsY ansY on o' :
  side_inv x subY delY nvsY ansY ->
  c_state (l_conn x) = Online on -> c_state (l_conn x') = Online o' ->
  l_sub x' = l_sub x -> l_del x' = l_del x -> l_nvs x' = l_nvs x -> l_nvr x' = l_nvr x ->
  l_ready x' = l_ready x -> conn_ok6 (l_conn x') ->
  (exists a', snd_inv o' (l_sub x) (l_nvs x) a' /\ a' <= zlen delY /\ o_ack o' = seqof (zlen (l_del x))) ->
  side_inv x' subY delY nvsY ansY.
Proof.
  intros Hi Hon Hon' Hs Hd Hn Hr Hy Hc Hex.
  eapply side_inv_keep; try eassumption.
  - rewrite Hon'. intros [].
  - intros o2 Ho2. rewrite Hon' in Ho2. injection Ho2 as <-. exact Hex.
  - rewrite Hon'. discriminate.
Qed.

(* an arriving datagram whose only effect is its acknowledgement *)
Lemma ack_step x subY delY nvsY ansY d on o' snd e' :
  side_inv x subY delY nvsY ansY -> c_state (l_conn x) = Online on ->
  conn_ok6 {| c_state := Online o'; c_send := snd |} ->
  (exists a', snd_inv o' (l_sub x) (l_nvs x) a' /\ a' <= zlen delY /\ o_ack o' = seqof (zlen (l_del x))) ->
  let out := mk {| c_state := Online o'; c_send := snd |} e' [] [] [] ROk in
  side_inv (after x (OpFeed d) out) subY delY nvsY ansY /\ bag_inv (flights_of x out) (after x (OpFeed d) out) /\
  grows x (after x (OpFeed d) out).
Proof.
  intros Hi Hon Hc' Hex out.
  assert (Hg : grows x (after x (OpFeed d) out)) by (apply after_noev_grows; [reflexivity|discriminate]).
  split; [|split; [constructor|exact Hg]].
  eapply (online_replace x _ _ _ _ _ on o'); try exact Hi; try exact Hon; try exact Hex; try exact Hc'; same_ghosts.
Qed.

(* the peer closes the connection *)
Lemma close_step x subY delY nvsY ansY d snd e' reason :
  side_inv x subY delY nvsY ansY ->
  let out := mk {| c_state := Disconnected; c_send := snd |} e' [] [EvDisconnect reason] [] ROk in
  side_inv (after x (OpFeed d) out) subY delY nvsY ansY /\ bag_inv (flights_of x out) (after x (OpFeed d) out) /\
  grows x (after x (OpFeed d) out).
Proof.
  intros Hi out.
  assert (Hg : grows x (after x (OpFeed d) out)).
  { unfold grows. cbn. rewrite app_nil_r. split; [exists []; rewrite app_nil_r; reflexivity|].
    split; [exists []; rewrite app_nil_r; reflexivity|]. split; [apply incl_refl|]. intros ->. reflexivity. }
  split; [|split; [constructor|exact Hg]].
  eapply side_inv_keep; try exact Hi; same_ghosts.
  - cbn. intros [].
  - cbn. intros o' Ho'. discriminate Ho'.
  - cbn. discriminate.
Qed.

Ltac quiet_tac :=
  apply quiet_step;
  [assumption | discriminate | first [apply quiet_nil | repeat split] | assumption
  | first [reflexivity | (cbn; congruence) | (destruct (l_conn _); reflexivity)]].

Theorem feed_step_inv now x y f :
  side_inv x (l_sub y) (l_del y) (l_nvs y) (l_answered y) ->
  side_inv y (l_sub x) (l_del x) (l_nvs x) (l_answered x) ->
  flight_inv y f -> fresh f x -> rand_ok {| e_now := now; e_rand := l_rand x |} ->
  exists x' fl, side_step now x (OpFeed (f_d f)) = Ok (x', fl) /\
                side_inv x' (l_sub y) (l_del y) (l_nvs y) (l_answered y) /\
                bag_inv fl x' /\ grows x x'.
Proof.
  intros Hi Hy [Hf [Hin Hans]] Hfresh Hrand. pose proof (sv_conn _ _ _ _ _ Hi) as Hc.
  assert (Hv : valid_op6 (l_conn x) {| e_now := now; e_rand := l_rand x |} (OpFeed (f_d f))) by (split; assumption).
  destruct (step_ok6 _ _ _ Hc Hv) as [out [Hstep [Hc' Hds]]].
  exists (after x (OpFeed (f_d f)) out), (flights_of x out). split; [apply side_step_unfold, Hstep|].
  pose proof (sv_dle _ _ _ _ _ Hy) as Hdley. pose proof (sv_gap _ _ _ _ _ Hy) as Hgapy.
  pose proof Hf as Hf0. destruct Hf0 as [Hfn [Hfc [Hfack [Hflen Hfch]]]]. destruct Hfresh as [Hfa Hfb].
  unfold step, feed in Hstep. cbn [e_now e_rand] in Hstep.
  destruct (f_d f) as [tk rs pl|tk ack ctl|tk ack rr n cs] eqn:Efd.
  - (* connectionless *)
    injection Hstep as <-. quiet_tac.
  - (* control *)
    cbn [dgram_tok dgram_ack] in Hstep.
    destruct (match state_token (c_state (l_conn x)) with Some expected => negb (tok_eqb tk expected) | None => false end).
    { injection Hstep as <-. quiet_tac. }
    destruct Hin as [Htk Hack]. replace ((ack <? 0) || (SEQ_MOD <=? ack)) with false in Hstep by lia.
    assert (Hackc : ack = seqof (f_c f)) by (apply Hfack; reflexivity).
    destruct (c_state (l_conn x)) as [| |t|on|] eqn:Est.
    + (* unconnected *)
      destruct ctl as [|resp| | |reason|resp];
        try (injection Hstep as <-; quiet_tac).
      * (* Connect: the acceptor answers *)
        assert (Hfin : forall t e', tick_action {| c_state := Pending t; c_send := c_send (l_conn x) |} e' = Ok out ->
                  side_inv (after x (OpFeed (DControl tk ack (Connect resp))) out) (l_sub y) (l_del y) (l_nvs y) (l_answered y) /\
                  bag_inv (flights_of x out) (after x (OpFeed (DControl tk ack (Connect resp))) out) /\
                  grows x (after x (OpFeed (DControl tk ack (Connect resp))) out)).
        { intros t e' Ht. unfold tick_action in Ht. cbn [c_state] in Ht.
          destruct (send_control (Pending t) ConnectAccept) as [ds| | |] eqn:Esc; cbn [bind] in Ht; try discriminate.
          destruct (send_control_shape _ _ _ Esc) as [tok ->]. injection Ht as <-.
          apply control_step; try assumption; try discriminate.
          - inversion Hds; assumption.
          - rewrite Est. auto.
          - rewrite Est. reflexivity.
          - rewrite Est. discriminate. }
        destruct tk as [tk|].
        -- destruct (list_eq_dec Z.eq_dec tk TOKEN_NONE).
           ++ destruct (token_random (l_rand x)) as [[nt rnd']| | |]; cbn [bind] in Hstep; try discriminate.
              eapply Hfin, Hstep.
           ++ injection Hstep as <-. quiet_tac.
        -- eapply Hfin, Hstep.
      * (* Close *)
        injection Hstep as <-. apply close_step; assumption.
    + (* connecting *)
      destruct ctl as [|resp| | |reason|resp];
        try (injection Hstep as <-; quiet_tac).
      * (* ConnectAccept: online, Ready *)
        destruct (send_control (Online (online_new tk tk)) Accept) as [ds| | |] eqn:Esc; cbn [bind] in Hstep; try discriminate.
        destruct (send_control_shape _ _ _ Esc) as [tok ->]. injection Hstep as <-.
        assert (Hnev : never_online (c_state (l_conn x))) by (rewrite Est; exact I).
        destruct (sv_fresh _ _ _ _ _ Hi Hnev) as [Hs0 [Hd0 [Hn0 Hr0]]].
        set (out := mk {| c_state := Online (online_new tk tk); c_send := c_send (l_conn x) |}
                       {| e_now := now; e_rand := l_rand x |} [DControl tok (o_ack (online_new tk tk)) Accept] [EvReady] [] ROk).
        assert (Hg : grows x (after x (OpFeed (DControl tk ack ConnectAccept)) out)).
        { unfold grows. cbn. rewrite app_nil_r. split; [exists []; rewrite app_nil_r; reflexivity|].
          split; [exists []; rewrite app_nil_r; reflexivity|]. split; [apply incl_refl|]. intros ->. reflexivity. }
        split; [|split; [|exact Hg]].
        -- constructor.
           ++ exact Hc'.
           ++ cbn. intros [].
           ++ intros o2 Ho2. cbn in Ho2. injection Ho2 as <-. exists 0. cbn [after l_sub l_nvs l_del out out_events out_res mk vital_payloads flat_map].
              rewrite Hs0, Hn0, Hd0. split; [apply snd_inv_new|]. split; [apply zlen_nonneg|reflexivity].
           ++ cbn. rewrite Hd0. reflexivity.
           ++ cbn. rewrite Hd0. apply zlen_nonneg.
           ++ cbn. rewrite Hs0. pose proof (zlen_nonneg (l_del y)). unfold zlen at 1. cbn. lia.
           ++ cbn. rewrite app_nil_r. exact (sv_nvr _ _ _ _ _ Hi).
           ++ cbn. rewrite Hr0. change (ready_events [EvReady]) with 1. lia.
           ++ cbn. discriminate.
           ++ intros _. apply Hans. reflexivity.
        -- apply flights_inv. cbn [out_sent out mk]. constructor; [|constructor].
           assert (Hs : l_sub (after x (OpFeed (DControl tk ack ConnectAccept)) out) = l_sub x) by reflexivity.
           assert (Hd : l_del (after x (OpFeed (DControl tk ack ConnectAccept)) out) = l_del x) by (cbn; apply app_nil_r).
           rewrite <- Hs, <- Hd. apply control_flight.
           ++ rewrite Hd, Hd0. reflexivity.
           ++ inversion Hds as [|d0 ds0 Hd1 _]. apply Hd1.
           ++ discriminate.
      * injection Hstep as <-. apply close_step; assumption.
    + (* pending *)
      destruct ctl as [|resp| | |reason|resp];
        try (injection Hstep as <-; quiet_tac).
      injection Hstep as <-. apply close_step; assumption.
    + (* online: the acknowledgement is processed first *)
      assert (Hex : exists a', snd_inv (ack_chunks on ack) (l_sub x) (l_nvs x) a' /\ a' <= zlen (l_del y) /\
                               o_ack (ack_chunks on ack) = seqof (zlen (l_del x))).
      { rewrite Hackc. apply (ack_side x y on (f_c f)); try assumption; lia. }
      destruct ctl as [|resp| | |reason|resp];
        try (injection Hstep as <-; apply (ack_step x _ _ _ _ _ on); assumption).
      injection Hstep as <-. apply close_step; assumption.
    + (* disconnected *)
      destruct ctl as [|resp| | |reason|resp]; injection Hstep as <-; quiet_tac.
  - (* chunks *)
    cbn [dgram_tok dgram_ack] in Hstep.
    destruct (match state_token (c_state (l_conn x)) with Some expected => negb (tok_eqb tk expected) | None => false end).
    { injection Hstep as <-. quiet_tac. }
    destruct Hin as [Htk [Hack Hcsin]]. replace ((ack <? 0) || (SEQ_MOD <=? ack)) with false in Hstep by lia.
    assert (Hackc : ack = seqof (f_c f)) by (apply Hfack; reflexivity).
    assert (Hfresh' : fresh f x) by (split; [exact Hfa|rewrite Efd; exact Hfb]).
    assert (Hcs : dgram_chunks (f_d f) = cs) by (rewrite Efd; reflexivity).
    destruct (c_state (l_conn x)) as [| |t|on|] eqn:Est.
    + injection Hstep as <-. quiet_tac.
    + injection Hstep as <-. quiet_tac.
    + (* pending: the first chunk datagram takes the acceptor online *)
      cbn [c_state] in Hstep.
      assert (Hnev : never_online (c_state (l_conn x))) by (rewrite Est; exact I).
      destruct (sv_fresh _ _ _ _ _ Hi Hnev) as [Hs0 [Hd0 [Hn0 Hr0]]].
      assert (Hrs : (if rr then do_resend {| c_state := Online (online_new t t); c_send := c_send (l_conn x) |}
                                   {| e_now := now; e_rand := l_rand x |} (online_new t t)
                     else Ok ({| c_state := Online (online_new t t); c_send := c_send (l_conn x) |}, []))
                    = Ok ({| c_state := Online (online_new t t); c_send := c_send (l_conn x) |}, [])).
      { destruct rr; reflexivity. }
      rewrite Hrs in Hstep. cbn [bind c_state c_send] in Hstep.
      destruct (recv_chunks (o_ack (online_new t t)) (o_rr (online_new t t)) cs) as [[[ack' rr'] evs]| | |] eqn:Erc;
        cbn [bind] in Hstep; try discriminate.
      injection Hstep as <-. rewrite <- Efd.
      assert (Hs3 : snd_inv (online_new t t) (l_sub x) (l_nvs x) 0) by (rewrite Hs0, Hn0; apply snd_inv_new).
      assert (Hack3 : o_ack (online_new t t) = seqof (zlen (l_del x))) by (rewrite Hd0; reflexivity).
      exact (chunks_arrive x y f (online_new t t) (c_send (l_conn x)) [] {| e_now := now; e_rand := l_rand x |} 0 cs
               ack' rr' evs Hi Hf Hcs Hfresh' Hgapy Hs3 (zlen_nonneg _) Hack3 Erc Hc' Hds (Forall_nil _) (Forall_nil _)
               (or_introl Hnev)).
    + (* online *)
      cbn [c_state] in Hstep.
      assert (Hex : exists a', snd_inv (ack_chunks on ack) (l_sub x) (l_nvs x) a' /\ a' <= zlen (l_del y) /\
                               o_ack (ack_chunks on ack) = seqof (zlen (l_del x))).
      { rewrite Hackc. apply (ack_side x y on (f_c f)); try assumption; lia. }
      destruct Hex as [a1 [Hs1 [Ha1 Hack1]]].
      destruct (online_parts _ _ _ _ _ _ Hi Est) as [Hok [Hcp [Hcnv _]]].
      destruct (ack_chunks_same on ack) as [_ [_ [Ep [Env _]]]].
      destruct rr.
      * unfold do_resend in Hstep. cbn [e_now] in Hstep.
        destruct (online_resend params6 now (ack_chunks on ack)) as [[[o3 sent] ts]| | |] eqn:Er; cbn [bind] in Hstep; try discriminate.
        cbn [c_state c_send] in Hstep.
        destruct (recv_chunks (o_ack o3) (o_rr o3) cs) as [[[ack' rr'] evs]| | |] eqn:Erc; cbn [bind] in Hstep; try discriminate.
        injection Hstep as <-. rewrite <- Efd.
        assert (Hcp1 : pk_count_ok (o_packet (ack_chunks on ack))) by (rewrite Ep; exact Hcp).
        assert (Hcnv1 : pk_count_ok (o_packet_nv (ack_chunks on ack))) by (rewrite Env; exact Hcnv).
        destruct (resend_link params6 now _ o3 sent ts _ _ a1 (zlen (l_del x)) Er Hcp1 Hcnv1 Hs1 Hack1 (zlen_nonneg _))
          as [Hs3 [Hack3 [_ Hfl3]]].
        assert (Hack3' : o_ack o3 = seqof (zlen (l_del x))) by congruence.
        exact (chunks_arrive x y f o3 _ sent {| e_now := now; e_rand := l_rand x |} a1 cs ack' rr' evs
                 Hi Hf Hcs Hfresh' Hgapy Hs3 Ha1 Hack3' Erc Hc' Hds Hfl3 (resend_not_ca _ _ _ _ _ _ Er)
                 (or_intror (ex_intro _ on Est))).
      * cbn [bind c_state c_send] in Hstep.
        destruct (recv_chunks (o_ack (ack_chunks on ack)) (o_rr (ack_chunks on ack)) cs) as [[[ack' rr'] evs]| | |] eqn:Erc;
          cbn [bind] in Hstep; try discriminate.
        injection Hstep as <-. rewrite <- Efd.
        exact (chunks_arrive x y f (ack_chunks on ack) _ [] {| e_now := now; e_rand := l_rand x |} a1 cs ack' rr' evs
                 Hi Hf Hcs Hfresh' Hgapy Hs1 Ha1 Hack1 Erc Hc' Hds (Forall_nil _) (Forall_nil _)
                 (or_intror (ex_intro _ on Est))).
    + injection Hstep as <-. quiet_tac.
Qed.

(* ---------- the whole link ---------- *)
Definition admissible (w : link) (l : llabel) : Prop :=
  match l with
  | LApp s o =>
    app_op o /\ valid_op6 (l_conn (get w s)) {| e_now := k_now w; e_rand := l_rand (get w s) |} o /\
    window_ok (get w s) o
  | LTime _ => True
  | LDeliver from k =>
    match nth_error (bag w from) k with
    | Some f => fresh f (get w (other from)) /\
                rand_ok {| e_now := k_now w; e_rand := l_rand (get w (other from)) |}
    | None => True
    end
  | LDrop _ _ => True
  end.

Fixpoint admissible_run (w : link) (ls : list llabel) : Prop :=
  match ls with
  | [] => True
  | l :: r => admissible w l /\ match link_step w l with Ok w' => admissible_run w' r | _ => True end
  end.

Lemma link_inv_sym w :
  link_inv w ->
  side_inv (k_b w) (l_sub (k_a w)) (l_del (k_a w)) (l_nvs (k_a w)) (l_answered (k_a w)).
Proof. intros [_ [H _]]. exact H. Qed.

Lemma remove_nth_forall {A} (P : A -> Prop) k l : Forall P l -> Forall P (remove_nth k l).
Proof.
  revert k. induction l as [|x l IH]; intros k H; destruct k; cbn; try constructor; inversion H; subst; try assumption.
  apply IH; assumption.
Qed.

Theorem link_step_inv w l : link_inv w -> admissible w l ->
  exists w', link_step w l = Ok w' /\ link_inv w'.
Proof.
  intros [Ha [Hb [Hab Hba]]] Hadm. destruct l as [s o|dt|from k|from k]; cbn [link_step admissible] in *.
  - destruct Hadm as [Happ [Hv Hw]]. destruct s; cbn [get] in *.
    + destruct (app_step_inv _ _ _ _ _ _ _ Ha Happ Hv Hw) as [x' [fl [Hs [Hi' [Hfl Hg]]]]].
      rewrite Hs. eexists. split; [reflexivity|]. unfold link_inv, set_side. cbn.
      split; [exact Hi'|]. split; [eapply side_inv_mono; [exact Hb|exact Hg|reflexivity]|].
      split; [|exact Hba]. apply Forall_app. split; [eapply bag_inv_mono; eassumption|exact Hfl].
    + destruct (app_step_inv _ _ _ _ _ _ _ Hb Happ Hv Hw) as [x' [fl [Hs [Hi' [Hfl Hg]]]]].
      rewrite Hs. eexists. split; [reflexivity|]. unfold link_inv, set_side. cbn.
      split; [eapply side_inv_mono; [exact Ha|exact Hg|reflexivity]|]. split; [exact Hi'|].
      split; [exact Hab|]. apply Forall_app. split; [eapply bag_inv_mono; eassumption|exact Hfl].
  - eexists. split; [reflexivity|]. exact (conj Ha (conj Hb (conj Hab Hba))).
  - destruct (nth_error (bag w from) k) as [f|] eqn:Ek.
    2:{ eexists. split; [reflexivity|]. exact (conj Ha (conj Hb (conj Hab Hba))). }
    destruct Hadm as [Hfresh Hrand].
    destruct from; cbn [bag other get] in *.
    + (* A -> B *)
      assert (Hf : flight_inv (k_a w) f).
      { unfold bag_inv in Hab. rewrite Forall_forall in Hab. apply Hab. eapply nth_error_In, Ek. }
      destruct (feed_step_inv (k_now w) (k_b w) (k_a w) f Hb Ha Hf Hfresh Hrand) as [x' [fl [Hs [Hi' [Hfl Hg]]]]].
      rewrite Hs. eexists. split; [reflexivity|]. unfold link_inv, set_side. cbn.
      split; [eapply side_inv_mono; [exact Ha|exact Hg|reflexivity]|]. split; [exact Hi'|].
      split; [exact Hab|]. apply Forall_app. split; [eapply bag_inv_mono; eassumption|exact Hfl].
    + assert (Hf : flight_inv (k_b w) f).
      { unfold bag_inv in Hba. rewrite Forall_forall in Hba. apply Hba. eapply nth_error_In, Ek. }
      destruct (feed_step_inv (k_now w) (k_a w) (k_b w) f Ha Hb Hf Hfresh Hrand) as [x' [fl [Hs [Hi' [Hfl Hg]]]]].
      rewrite Hs. eexists. split; [reflexivity|]. unfold link_inv, set_side. cbn.
      split; [exact Hi'|]. split; [eapply side_inv_mono; [exact Hb|exact Hg|reflexivity]|].
      split; [|exact Hba]. apply Forall_app. split; [eapply bag_inv_mono; eassumption|exact Hfl].
  - eexists. split; [reflexivity|]. unfold link_inv. destruct from; cbn.
    + split; [exact Ha|]. split; [exact Hb|]. split; [apply remove_nth_forall, Hab|exact Hba].
    + split; [exact Ha|]. split; [exact Hb|]. split; [exact Hab|apply remove_nth_forall, Hba].
Qed.

Theorem link_run_inv ls : forall w, link_inv w -> admissible_run w ls ->
  exists w', link_run w ls = Ok w' /\ link_inv w'.
Proof.
  induction ls as [|l ls IH]; intros w Hi Ha; cbn [link_run admissible_run] in *.
  - exists w. split; [reflexivity|exact Hi].
  - destruct Ha as [Ha1 Ha2]. destruct (link_step_inv w l Hi Ha1) as [w1 [Hs Hi1]]. rewrite Hs in *.
    apply IH; assumption.
Qed.

Lemma link_new_inv ra rb : link_inv (link_new ra rb).
Proof.
  assert (H : forall r subY delY nvsY ansY, side_inv (lside_new r) subY delY nvsY ansY).
  { intros. constructor; cbn; try reflexivity; try discriminate; try lia; try exact I.
    - intros _. repeat split.
    - apply zlen_nonneg.
    - pose proof (zlen_nonneg delY). unfold zlen at 1. cbn. lia.
    - intros z []. }
  unfold link_inv, link_new. cbn. repeat split; try apply H; constructor.
Qed.

(* ---------- an executable version of the assumptions (used for concrete traces) ---------- *)
Definition rand_okb (rnd : list token) : bool :=
  forallb (fun t => Nat.eqb (length t) 4) rnd && match token_random rnd with Ok _ => true | _ => false end.

Definition valid_appb (x : lside) (o : op) : bool :=
  match o with
  | OpConnect => match c_state (l_conn x) with Unconnected => true | _ => false end
  | OpSend _ vital =>
    match c_state (l_conn x) with
    | Online on => if vital then zlen (o_queue on) <? 511 else true
    | _ => false
    end
  | OpFlush | OpSendConnless _ => match c_state (l_conn x) with Online _ => true | _ => false end
  | OpDisconnect r =>
    match c_state (l_conn x) with Unconnected | Disconnected => false | _ => true end
    && negb (existsb (fun b => b =? 0) r) && (length r <=? 127)%nat
  | OpTick => true
  | _ => false
  end.

Definition freshb (f : flight) (rcv : lside) : bool :=
  (zlen (l_sub rcv) - f_c f <? 1024) &&
  forallb (fun c => match ch_vital c with
                    | Some (s, _) => zlen (l_del rcv) - idx_of (f_n f) s <? 768
                    | None => true
                    end) (dgram_chunks (f_d f)).

Definition admissibleb (w : link) (l : llabel) : bool :=
  match l with
  | LApp s o => valid_appb (get w s) o
  | LTime _ | LDrop _ _ => true
  | LDeliver from k =>
    match nth_error (bag w from) k with
    | Some f => freshb f (get w (other from)) && rand_okb (l_rand (get w (other from)))
    | None => true
    end
  end.

Fixpoint admissible_runb (w : link) (ls : list llabel) : bool :=
  match ls with
  | [] => true
  | l :: r => admissibleb w l && match link_step w l with Ok w' => admissible_runb w' r | _ => true end
  end.

Lemma rand_okb_ok now rnd : rand_okb rnd = true -> rand_ok {| e_now := now; e_rand := rnd |}.
Proof.
  unfold rand_okb, rand_ok. cbn. intros H. apply andb_true_iff in H as [H1 H2]. split.
  - rewrite forallb_forall in H1. apply Forall_forall. intros t Ht. apply Nat.eqb_eq, H1, Ht.
  - destruct (token_random rnd) as [[t r]| | |]; try discriminate. eexists _, _. reflexivity.
Qed.

Lemma admissibleb_ok w l : admissibleb w l = true -> admissible w l.
Proof.
  destruct l as [s o|dt|from k|from k]; cbn [admissibleb admissible]; try (intros _; exact I).
  - intros H. unfold valid_appb in H.
    destruct o as [|data vital| | |reason|data|d| |]; try discriminate; cbn [app_op valid_op6 window_ok].
    + destruct (c_state (l_conn (get w s))); try discriminate. repeat split.
    + destruct (c_state (l_conn (get w s))) as [| |t|on|] eqn:E; try discriminate.
      split; [exact I|]. split; [eexists; reflexivity|]. destruct vital; [lia|exact I].
    + destruct (c_state (l_conn (get w s))) eqn:E; try discriminate. split; [exact I|]. split; [eexists; reflexivity|exact I].
    + repeat split.
    + apply andb_true_iff in H as [H H3]. apply andb_true_iff in H as [H1 H2].
      split; [exact I|]. split; [|exact I]. repeat split.
      * intros E. rewrite E in H1. discriminate.
      * intros E. rewrite E in H1. discriminate.
      * apply negb_true_iff, H2.
      * apply Nat.leb_le, H3.
    + destruct (c_state (l_conn (get w s))) eqn:E; try discriminate. split; [exact I|]. split; [eexists; reflexivity|exact I].
  - destruct (nth_error (bag w from) k) as [f|]; [|intros _; exact I].
    intros H. apply andb_true_iff in H as [H1 H2]. split; [|apply rand_okb_ok, H2].
    unfold freshb in H1. apply andb_true_iff in H1 as [Ha Hb]. split; [lia|].
    intros c s r Hin Hv. rewrite forallb_forall in Hb. specialize (Hb c Hin). rewrite Hv in Hb. lia.
Qed.

Lemma admissible_runb_ok ls : forall w, admissible_runb w ls = true -> admissible_run w ls.
Proof.
  induction ls as [|l ls IH]; intros w H; cbn [admissible_runb admissible_run] in *; [exact I|].
  apply andb_true_iff in H as [H1 H2]. split; [apply admissibleb_ok, H1|].
  destruct (link_step w l); try exact I. apply IH, H2.
Qed.

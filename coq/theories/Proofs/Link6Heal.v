(* C02 for 0.6 at the level of the link: from every state of the two-endpoint link in which both
   ends are online there is a finite "healing schedule" -- the applications only flush and tick,
   the network loses what was in flight and from then on delivers every datagram exactly once and
   in order -- that ends in the quiescent state: everything submitted is delivered, every resend
   queue and every packet under construction is empty, nothing is in flight; three ticks. *)
From LibTw2 Require Import Base.Res Model.PacketTypes Model.ConnCore Model.Conn6 Model.LinkGhost Model.Link6
  Proofs.ConnCoreInv Proofs.Conn6Inv Proofs.LinkArith Proofs.LinkCore Proofs.Link6Inv Proofs.ConnProgress.
From Coq Require Import ZArith Lia Bool List.
Open Scope Z_scope.

(* ================= part 1: the online core ================= *)

(* the acknowledgement number after a list of chunks has been received: recv_chunks without the
   events and the request_resend flag *)
Fixpoint ack_after (a : Z) (cs : list chunk) : Z :=
  match cs with
  | [] => a
  | c :: r => match ch_vital c with
              | Some (s, _) => ack_after (fst (seq_update a s)) r
              | None => ack_after a r
              end
  end.

Lemma seq_update_fst a s x o : seq_update a s = (x, o) -> o <> Current -> x = a.
Proof.
  unfold seq_update. destruct (seq_compare (seq_next a) s); intros H Ho; injection H as <- <-;
    try reflexivity. exfalso. apply Ho. reflexivity.
Qed.

Lemma recv_ack_after cs : forall a rr a' rr' evs,
  recv_chunks a rr cs = Ok (a', rr', evs) -> a' = ack_after a cs.
Proof.
  induction cs as [|c cs IH]; intros a rr a' rr' evs H; cbn [recv_chunks ack_after] in *.
  - injection H as <- _ _. reflexivity.
  - destruct (ch_vital c) as [[s r]|].
    + destruct ((s <? 0) || (SEQ_MOD <=? s)); [discriminate|].
      destruct (seq_update a s) as [x o] eqn:E. cbn [fst]. destruct o.
      * rewrite (seq_update_fst _ _ _ _ E) by discriminate. eapply IH, H.
      * destruct (recv_chunks x rr cs) as [[[a2 r2] e2]| | |] eqn:E2; try discriminate.
        injection H as <- _ _. eapply IH, E2.
      * rewrite (seq_update_fst _ _ _ _ E) by discriminate. eapply IH, H.
    + destruct (recv_chunks a rr cs) as [[[a2 r2] e2]| | |] eqn:E2; try discriminate.
      injection H as <- _ _. eapply IH, E2.
Qed.

Lemma ack_after_app l1 : forall a l2, ack_after a (l1 ++ l2) = ack_after (ack_after a l1) l2.
Proof.
  induction l1 as [|c l1 IH]; intros a l2; cbn [app ack_after]; [reflexivity|].
  destruct (ch_vital c) as [[s r]|]; apply IH.
Qed.

(* vital chunks of a datagram are less than 767 chunks behind the sender's history: a packet under
   construction holds chunks of the last 512 + (at most 254 chunks written after it) *)
Definition tight (n : Z) (cs : list chunk) : Prop :=
  forall c s r, In c cs -> ch_vital c = Some (s, r) -> exists i, n - 767 < i <= n /\ s = seqof i.

Lemma pk_ok_tight cs : forall n sub nvs, pk_ok cs n sub nvs -> (length cs <= 255)%nat -> tight n cs.
Proof.
  induction cs as [|c cs IH]; intros n sub nvs H Hl x s r Hin Hv; [destruct Hin|].
  cbn [pk_ok] in H. destruct H as [Hc Hr]. cbn [length] in Hl. destruct Hin as [<-|Hin].
  - unfold chunk_is in Hc. rewrite Hv in Hc. destruct Hc as [i [H1 [H2 [H3 _]]]].
    exists i. unfold zlen in H2. split; [lia|exact H3].
  - eapply (IH n sub nvs Hr); [lia|exact Hin|exact Hv].
Qed.

Lemma tight_nil n : tight n [].
Proof. intros c s r []. Qed.

Lemma tight_flat n ds : tight n (flat ds) -> Forall (fun d => tight n (dgram_chunks d)) ds.
Proof.
  intros H. apply Forall_forall. intros d Hd c s r Hin Hv. apply (H c s r); [|exact Hv].
  unfold flat. apply in_flat_map. exists d. split; assumption.
Qed.

Lemma resend_tight pp now o o' ds ts sub nvs a :
  online_resend pp now o = Ok (o', ds, ts) -> snd_inv o sub nvs a -> pk_count_ok (o_packet_nv o) ->
  tight (zlen sub) (flat ds).
Proof.
  intros Hr Hs Hc. destruct (o_queue o) as [|c0 q0] eqn:Eq.
  { unfold online_resend in Hr. rewrite Eq in Hr. injection Hr as _ <- _. apply tight_nil. }
  assert (Hq : o_queue o <> []) by (rewrite Eq; discriminate).
  destruct (resend_flat pp now o o' ds ts Hr Hc Hq) as [Hflat _].
  intros c s r Hin Hv.
  assert (Hin' : In c (pc_chunks (o_packet_nv o) ++ map rchunk_chunk (rev (restart_timers now (o_queue o))))).
  { rewrite <- Hflat. apply in_or_app. left. exact Hin. }
  destruct Hs as [H1 H2 H3 H4 H5 H6 H7].
  apply in_app_or in Hin' as [Hnv|Hq'].
  - unfold nonvital_only in H6. rewrite Forall_forall in H6. rewrite (H6 c Hnv) in Hv. discriminate.
  - apply in_map_iff in Hq' as [e [<- He]]. apply In_nth_error in He as [k Hk].
    destruct (queue_is_rev _ _ _ _ (queue_is_restart now _ _ _ _ H2) k e Hk) as [A [B C]].
    cbn in Hv. injection Hv as <- _. exists (a + 1 + Z.of_nat k). split; [lia|exact A].
Qed.

(* what the emitting functions put on a datagram *)
Definition dgram_rr (d : dgram) : bool := match d with DChunks _ _ rr _ _ => rr | _ => false end.
Definition benign (d : dgram) : Prop :=
  match d with DChunks _ _ _ _ _ => True | DControl _ _ KeepAlive => True | _ => False end.
Definition dg_ok (tok : option token) (rr0 : bool) (d : dgram) : Prop :=
  benign d /\ dgram_tok d = tok /\ (rr0 = false -> dgram_rr d = false).

Lemma flush_shape pp o o' ds : online_flush pp o = Ok (o', ds) -> pk_count_ok (o_packet o) ->
  pc_chunks (o_packet o') = [] /\ o_rr o' = false /\ o_queue o' = o_queue o /\ o_ack o' = o_ack o /\
  o_own o' = o_own o /\ o_their o' = o_their o /\
  Forall (dg_ok (o_their o) (o_rr o)) ds /\
  (ds = [] \/ ds = [DChunks (o_their o) (o_ack o) (o_rr o) (pc_num (o_packet o)) (pc_chunks (o_packet o))]) /\
  (can_send o = true -> ds <> []).
Proof.
  intros H Hc. unfold online_flush in H. destruct (can_send o) eqn:E; cbn [negb] in H.
  - destruct (MAX_PACKETSIZE <? _) in H; [discriminate|]. injection H as <- <-.
    cbn [o_clear o_packet pc_empty pc_chunks o_rr o_queue o_ack o_own o_their].
    do 6 (split; [reflexivity|]). split; [|split; [right; reflexivity|intros _; discriminate]].
    constructor; [|constructor]. split; [exact I|]. split; [reflexivity|]. intros Hr. exact Hr.
  - injection H as <- <-. unfold can_send in E. apply orb_false_iff in E as [E1 E2].
    split; [apply count_zero_nil; [exact Hc|lia]|]. split; [exact E2|].
    do 4 (split; [reflexivity|]). split; [constructor|]. split; [left; reflexivity|discriminate].
Qed.

Lemma resend_loop_emits pp : forall todo fuel o out ts o' out' ts' tok rr0,
  resend_loop pp fuel o todo out ts = Ok (o', out', ts') ->
  o_their o = tok -> (rr0 = false -> o_rr o = false) ->
  Forall (dg_ok tok rr0) out -> Forall (dg_ok tok rr0) out' /\ (rr0 = false -> o_rr o' = false).
Proof.
  induction todo as [|c rest IH].
  - intros fuel o out ts o' out' ts' tok rr0 H _ Hrr Ho. destruct fuel; cbn in H; injection H as <- <- _; split; assumption.
  - induction fuel as [|fuel IHf]; intros o out ts o' out' ts' tok rr0 H Ht Hrr Ho; cbn [resend_loop] in H; [discriminate|].
    destruct (can_fit_chunk _ _ _ _).
    + destruct (pc_write_chunk _ _ _ _) as [p| | |]; try discriminate.
      eapply IH; [exact H|exact Ht|exact Hrr|exact Ho].
    + destruct (online_flush pp o) as [[o1 d1]| | |] eqn:Ef; try discriminate.
      unfold online_flush in Ef. destruct (negb (can_send o)).
      * injection Ef as <- <-. eapply IHf; [exact H|exact Ht|exact Hrr|]. rewrite app_nil_r. exact Ho.
      * destruct (MAX_PACKETSIZE <? _) in Ef; [discriminate|]. injection Ef as <- <-.
        eapply IHf; [exact H|exact Ht| |].
        -- intros _. reflexivity.
        -- apply Forall_app. split; [exact Ho|]. constructor; [|constructor].
           split; [exact I|]. split; [exact Ht|]. exact Hrr.
Qed.

Lemma resend_emits pp now o o' ds ts : online_resend pp now o = Ok (o', ds, ts) ->
  Forall (dg_ok (o_their o) (o_rr o)) ds /\ (o_rr o = false -> o_rr o' = false).
Proof.
  unfold online_resend. destruct (o_queue o).
  - intros H; injection H as <- <- _. split; [constructor|intros E; exact E].
  - intros H. eapply resend_loop_emits; [exact H|reflexivity| |constructor]. intros E. exact E.
Qed.

Lemma resend_empty pp now o : o_queue o = [] -> online_resend pp now o = Ok (o, [], false).
Proof. intros H. unfold online_resend. rewrite H. reflexivity. Qed.

(* acknowledging everything empties the queue *)
Lemma queue_is_nil q n sub : queue_is q n n sub -> q = [].
Proof. destruct q as [|c q]; [reflexivity|]. cbn. intros [H _]. lia. Qed.

Lemma ack_all o sub nvs a : snd_inv o sub nvs a -> o_queue (ack_chunks o (seqof (zlen sub))) = [].
Proof.
  intros Hs. pose proof (zlen_nonneg sub) as Hn.
  pose proof (queue_is_len _ _ _ _ (si_queue _ _ _ _ Hs)) as Hl. pose proof (zlen_nonneg (o_queue o)).
  assert (H2 : snd_inv (ack_chunks o (seqof (zlen sub))) sub nvs (Z.max a (zlen sub))).
  { apply ack_link; [exact Hs|lia|lia]. }
  replace (Z.max a (zlen sub)) with (zlen sub) in H2 by lia.
  eapply queue_is_nil, (si_queue _ _ _ _ H2).
Qed.

Lemma ack_empty o ack : o_queue o = [] -> ack_chunks o ack = o.
Proof. intros H. unfold ack_chunks. rewrite H. reflexivity. Qed.

(* the queue's oldest entry *)
Lemma queue_back_some q : q <> [] -> exists rc, queue_back q = Some rc /\ In rc q.
Proof.
  induction q as [|c q IH]; [contradiction|]. intros _. destruct q as [|c' q].
  - exists c. split; [reflexivity|left; reflexivity].
  - destruct IH as [rc [H1 H2]]; [discriminate|]. exists rc. split; [exact H1|right; exact H2].
Qed.

(* ================= part 2: one endpoint ================= *)
Definition tval (t : timeout) : Z := match t with Some x => x | None => 0 end.
(* the time by which both the send timer and the oldest resend timer have run out *)
Definition due (c : conn6) : Z :=
  match c_state c with
  | Online o => Z.max (tval (c_send c))
                      (match queue_back (o_queue o) with Some rc => tval (rc_next rc) | None => 0 end)
  | _ => 0
  end.

Definition mkf (x : lside) (d : dgram) : flight := {| f_d := d; f_n := zlen (l_sub x); f_c := zlen (l_del x) |}.

Lemma side_step_inv now x op x' fl : side_step now x op = Ok (x', fl) ->
  exists out, step (l_conn x) {| e_now := now; e_rand := l_rand x |} op = Ok out /\
              x' = after x op out /\ fl = map (mkf x) (out_sent out).
Proof.
  unfold side_step. destruct (step _ _ _) as [out| | |]; try discriminate.
  intros H. injection H as <- <-. exists out. repeat split.
Qed.

Lemma step_flush_eq c e o : c_state c = Online o ->
  step c e OpFlush = (let* (o', d) := online_flush params6 o in
                      Ok (mk {| c_state := Online o'; c_send := Some (e_now e + ms 500) |} e d [] [] ROk)).
Proof. intros H. unfold step. rewrite H. reflexivity. Qed.

Lemma step_tick_resend c e o : c_state c = Online o -> conn_ok6 c -> o_queue o <> [] -> due c <= e_now e ->
  step c e OpTick = (let* (c', d) := do_resend c e o in Ok (mk c' e d [] [] ROk)).
Proof.
  intros H Hc Hq Hd. unfold step. rewrite H.
  destruct (queue_back_some _ Hq) as [rc [Hb Hin]]. rewrite Hb.
  unfold conn_ok6 in Hc. rewrite H in Hc. destruct Hc as [[_ [_ [_ [_ [Hqk _]]]]] _].
  rewrite Forall_forall in Hqk. destruct (Hqk rc Hin) as [_ [_ Hn]].
  unfold due in Hd. rewrite H, Hb in Hd.
  assert (Ht : triggered (rc_next rc) (e_now e) = true).
  { destruct (rc_next rc) as [t|]; [|contradiction]. cbn in *. lia. }
  rewrite Ht. reflexivity.
Qed.

Lemma step_tick_idle c e o : c_state c = Online o -> conn_ok6 c -> o_queue o = [] -> due c <= e_now e ->
  step c e OpTick =
  if can_send o then
    let* (o', d) := online_flush params6 o in
    Ok (mk {| c_state := Online o'; c_send := Some (e_now e + ms 500) |} e d [] [] ROk)
  else Ok (mk {| c_state := Online o; c_send := Some (e_now e + ms 500) |} e
              [DControl (o_their o) (o_ack o) KeepAlive] [] [] ROk).
Proof.
  intros H Hc Hq Hd. unfold step. rewrite H, Hq. cbn [queue_back map last].
  unfold conn_ok6 in Hc. rewrite H in Hc. destruct Hc as [_ [_ [_ Hs]]].
  unfold due in Hd. rewrite H, Hq in Hd. cbn [queue_back map last] in Hd.
  assert (Ht : triggered (c_send c) (e_now e) = true).
  { destruct (c_send c) as [t|]; [|contradiction]. cbn in *. lia. }
  rewrite Ht. unfold tick_action. cbn [c_state c_send]. destruct (can_send o); [reflexivity|].
  unfold send_control.
  assert (Hsz : (MAX_PACKETSIZE <? control_size params6 (o_their o) KeepAlive) = false).
  { unfold control_size, params6, MAX_PACKETSIZE, tok_size6. cbn [p_v7]. destruct (o_their o); reflexivity. }
  rewrite Hsz. reflexivity.
Qed.

Lemma tok_eqb_refl t : tok_eqb t t = true.
Proof. destruct t as [x|]; cbn; [|reflexivity]. destruct (list_eq_dec Z.eq_dec x x); [reflexivity|contradiction]. Qed.

Lemma flush_tight pp o o' ds sub nvs a : online_flush pp o = Ok (o', ds) -> snd_inv o sub nvs a ->
  pk_count_ok (o_packet o) -> Forall (fun d => tight (zlen sub) (dgram_chunks d)) ds.
Proof.
  intros H Hs Hc. destruct (flush_shape pp o o' ds H Hc) as [_ [_ [_ [_ [_ [_ [_ [[->| ->] _]]]]]]]]; constructor; [|constructor].
  cbn [dgram_chunks]. eapply pk_ok_tight; [exact (si_pk _ _ _ _ Hs)|].
  destruct Hc as [H1 H2]. unfold zlen in H1. lia.
Qed.

(* a datagram arrives at an online endpoint and provokes no answer: either it does not ask for a
   resend, or its acknowledgement empties the queue first *)
Lemma feed_side now y oy d y' fl :
  c_state (l_conn y) = Online oy -> benign d -> dgram_tok d = o_own oy ->
  (dgram_rr d = false \/ o_queue (ack_chunks oy (dgram_ack d)) = []) ->
  side_step now y (OpFeed d) = Ok (y', fl) ->
  fl = [] /\ exists oy', c_state (l_conn y') = Online oy' /\ c_send (l_conn y') = c_send (l_conn y) /\
    l_sub y' = l_sub y /\ l_rand y' = l_rand y /\
    o_own oy' = o_own oy /\ o_their oy' = o_their oy /\ o_packet oy' = o_packet oy /\
    o_queue oy' = o_queue (ack_chunks oy (dgram_ack d)) /\
    o_ack oy' = ack_after (o_ack oy) (dgram_chunks d) /\
    (dgram_chunks d = [] -> o_rr oy' = o_rr oy).
Proof.
  intros Hon Hb Htok Hnr H. apply side_step_inv in H as [out [Hs [-> ->]]].
  unfold step, feed in Hs.
  destruct d as [t1 t2 pl|tok ack ctl|tok ack rr n cs]; cbn [benign] in Hb; try contradiction.
  - destruct ctl; try contradiction. cbn [dgram_tok dgram_ack dgram_chunks dgram_rr] in *.
    rewrite Hon in Hs. cbn [state_token] in Hs. rewrite Htok, tok_eqb_refl in Hs. cbn [negb] in Hs.
    destruct ((ack <? 0) || (SEQ_MOD <=? ack)); [discriminate|]. injection Hs as <-.
    split; [reflexivity|]. exists (ack_chunks oy ack).
    destruct (ack_chunks_toks oy ack) as [T1 T2]. destruct (ack_chunks_same oy ack) as [S1 [S2 [S3 [S4 S5]]]].
    cbn. repeat split; try reflexivity; try assumption. intros _. exact S5.
  - cbn [dgram_tok dgram_ack dgram_chunks dgram_rr] in *.
    rewrite Hon in Hs. cbn [state_token] in Hs. rewrite Htok, tok_eqb_refl in Hs. cbn [negb] in Hs.
    destruct ((ack <? 0) || (SEQ_MOD <=? ack)); [discriminate|]. cbn [c_state] in Hs.
    destruct (ack_chunks_toks oy ack) as [T1 T2]. destruct (ack_chunks_same oy ack) as [S1 [S2 [S3 [S4 S5]]]].
    assert (Hrs : (if rr then do_resend {| c_state := Online (ack_chunks oy ack); c_send := c_send (l_conn y) |}
                                 {| e_now := now; e_rand := l_rand y |} (ack_chunks oy ack)
                   else Ok ({| c_state := Online (ack_chunks oy ack); c_send := c_send (l_conn y) |}, []))
                  = Ok ({| c_state := Online (ack_chunks oy ack); c_send := c_send (l_conn y) |}, [])).
    { destruct rr; [|reflexivity]. destruct Hnr as [Hx|Hq]; [discriminate|].
      unfold do_resend. rewrite (resend_empty _ _ _ Hq). reflexivity. }
    rewrite Hrs in Hs. cbn [bind c_state c_send] in Hs.
    destruct (recv_chunks (o_ack (ack_chunks oy ack)) (o_rr (ack_chunks oy ack)) cs) as [[[ack' rr'] evs]| | |] eqn:Erc;
      cbn [bind] in Hs; try discriminate.
    injection Hs as <-. split; [reflexivity|]. exists (o_set_ack (ack_chunks oy ack) ack' rr').
    cbn. repeat split; try reflexivity; try assumption.
    + rewrite <- S2. eapply recv_ack_after, Erc.
    + intros ->. cbn in Erc. injection Erc as _ <- _. exact S5.
Qed.

Lemma flush_side now x o x' fl :
  c_state (l_conn x) = Online o -> side_step now x OpFlush = Ok (x', fl) ->
  exists o' ds, online_flush params6 o = Ok (o', ds) /\
    l_conn x' = {| c_state := Online o'; c_send := Some (now + ms 500) |} /\ fl = map (mkf x) ds /\
    l_sub x' = l_sub x /\ l_del x' = l_del x /\ l_nvs x' = l_nvs x /\ l_rand x' = l_rand x.
Proof.
  intros Hon H. apply side_step_inv in H as [out [Hs [-> ->]]].
  rewrite (step_flush_eq _ _ o Hon) in Hs.
  destruct (online_flush params6 o) as [[o' ds]| | |]; cbn [bind] in Hs; try discriminate.
  injection Hs as <-. exists o', ds. cbn. rewrite app_nil_r. repeat split.
Qed.

Lemma tick_side now x o x' fl :
  c_state (l_conn x) = Online o -> conn_ok6 (l_conn x) -> due (l_conn x) <= now ->
  side_step now x OpTick = Ok (x', fl) ->
  l_sub x' = l_sub x /\ l_del x' = l_del x /\ l_nvs x' = l_nvs x /\ l_rand x' = l_rand x /\
  exists o' ds, c_state (l_conn x') = Online o' /\ fl = map (mkf x) ds /\
   ((o_queue o <> [] /\ exists ts, online_resend params6 now o = Ok (o', ds, ts)) \/
    (o_queue o = [] /\ can_send o = true /\ online_flush params6 o = Ok (o', ds)) \/
    (o_queue o = [] /\ can_send o = false /\ o' = o /\ ds = [DControl (o_their o) (o_ack o) KeepAlive])).
Proof.
  intros Hon Hc Hd H. apply side_step_inv in H as [out [Hs [-> ->]]].
  destruct (o_queue o) as [|c0 q0] eqn:Eq.
  - rewrite (step_tick_idle _ {| e_now := now; e_rand := l_rand x |} o Hon Hc Eq Hd) in Hs. cbn [e_now] in Hs. destruct (can_send o) eqn:Ecs.
    + destruct (online_flush params6 o) as [[o' ds]| | |] eqn:Ef; cbn [bind] in Hs; try discriminate.
      injection Hs as <-. cbn. rewrite app_nil_r. do 4 (split; [reflexivity|]).
      exists o', ds. split; [reflexivity|]. split; [reflexivity|]. right. left. repeat split.
    + injection Hs as <-. cbn. rewrite app_nil_r. do 4 (split; [reflexivity|]).
      exists o, [DControl (o_their o) (o_ack o) KeepAlive]. split; [reflexivity|]. split; [reflexivity|].
      right. right. repeat split.
  - assert (Hq : o_queue o <> []) by (rewrite Eq; discriminate).
    rewrite (step_tick_resend _ {| e_now := now; e_rand := l_rand x |} o Hon Hc Hq Hd) in Hs. unfold do_resend in Hs. cbn [e_now] in Hs.
    destruct (online_resend params6 now o) as [[[o' ds] ts]| | |] eqn:Er; cbn [bind] in Hs; try discriminate.
    injection Hs as <-. cbn. rewrite app_nil_r. do 4 (split; [reflexivity|]).
    exists o', ds. split; [reflexivity|]. split; [reflexivity|]. left. split; [discriminate|]. exists ts. reflexivity.
Qed.

(* a tick after both deadlines, then a flush: what the endpoint emits and the state it is left in *)
Lemma speak_side now x o a x1 fl1 x2 fl2 :
  c_state (l_conn x) = Online o -> conn_ok6 (l_conn x) -> snd_inv o (l_sub x) (l_nvs x) a ->
  o_ack o = seqof (zlen (l_del x)) -> due (l_conn x) <= now ->
  side_step now x OpTick = Ok (x1, fl1) -> side_step now x1 OpFlush = Ok (x2, fl2) ->
  exists o2 ds,
    l_conn x2 = {| c_state := Online o2; c_send := Some (now + ms 500) |} /\ fl1 ++ fl2 = map (mkf x) ds /\
    l_sub x2 = l_sub x /\ l_del x2 = l_del x /\ l_rand x2 = l_rand x /\
    o_own o2 = o_own o /\ o_their o2 = o_their o /\
    pc_chunks (o_packet o2) = [] /\ o_rr o2 = false /\ (o_queue o = [] -> o_queue o2 = []) /\
    ds <> [] /\ Forall (dg_ok (o_their o) (o_rr o)) ds /\
    Forall (fun d => tight (zlen (l_sub x)) (dgram_chunks d)) ds /\
    (o_queue o <> [] -> forall d, a <= d <= zlen (l_sub x) ->
       ack_after (seqof d) (flat ds) = seqof (zlen (l_sub x))) /\
    (o_queue o = [] -> pc_chunks (o_packet o) = [] -> Forall (fun d => dgram_chunks d = []) ds).
Proof.
  intros Hon Hc Hsnd Hack Hdue H1 H2.
  assert (Hok : online_ok pp6 o /\ o_own o = o_their o /\ tok_ok (o_their o)).
  { pose proof Hc as Hc'. unfold conn_ok6 in Hc'. rewrite Hon in Hc'. destruct Hc' as [A [B [C _]]].
    split; [exact A|split; [exact B|exact C]]. }
  destruct Hok as [Hok [Hot Htok]].
  assert (Hcp : pk_count_ok (o_packet o)) by (eapply pc_ok_count, Hok).
  assert (Hcnv : pk_count_ok (o_packet_nv o)) by (eapply pc_ok_count, Hok).
  destruct (tick_side now x o x1 fl1 Hon Hc Hdue H1) as [Es1 [Ed1 [En1 [Er1 [o1 [ds1 [Hon1 [-> Hcase]]]]]]]].
  destruct (flush_side now x1 o1 x2 fl2 Hon1 H2) as [o2 [ds2 [Ef [Hconn2 [-> [Es2 [Ed2 [En2 Er2]]]]]]]].
  assert (Hmk : map (mkf x) ds1 ++ map (mkf x1) ds2 = map (mkf x) (ds1 ++ ds2)).
  { rewrite map_app. f_equal. apply map_ext. intros d. unfold mkf. rewrite Es1, Ed1. reflexivity. }
  exists o2, (ds1 ++ ds2). split; [exact Hconn2|]. split; [exact Hmk|].
  split; [congruence|]. split; [congruence|]. split; [congruence|].
  destruct Hcase as [[Hq [ts Er]]|[[Hq [Ecs Ef1]]|[Hq [Ecs [-> ->]]]]].
  - (* the resend queue is not empty: resend, then flush *)
    destruct (resend_link params6 now o o1 ds1 ts _ _ a (zlen (l_del x)) Er Hcp Hcnv Hsnd Hack (zlen_nonneg _))
      as [Hs1 [Ha1 [Hc1 _]]].
    destruct (online_resend_ok pp6 now o pp6_ok Hok Htok) as [o1' [ds' [ts' [Er' [_ [_ [Eo [Et _]]]]]]]].
    rewrite Er in Er'. injection Er' as <- <- <-.
    destruct (resend_emits params6 now o o1 ds1 ts Er) as [Hem1 Hrr1].
    destruct (flush_shape params6 o1 o2 ds2 Ef Hc1) as [F1 [F2 [F3 [F4 [F5 [F6 [F7 _]]]]]]].
    assert (Hcatch : forall d, a <= d <= zlen (l_sub x) ->
               ack_after (seqof d) (flat (ds1 ++ ds2)) = seqof (zlen (l_sub x))).
    { intros d Hd. destruct (catch_up params6 now o _ _ a d false o1 ds1 ts o2 ds2 Hsnd Hcnv Hq Hd Er Ef) as [rr' [evs [E _]]].
      symmetry. eapply recv_ack_after, E. }
    split; [congruence|]. split; [congruence|]. split; [exact F1|]. split; [exact F2|].
    split; [intros E; contradiction|].
    split.
    { (* something is emitted: otherwise a = |sub| and the queue would be empty *)
      intros E. pose proof (queue_is_len _ _ _ _ (si_queue _ _ _ _ Hsnd)) as Hl.
      pose proof (si_win _ _ _ _ Hsnd) as Hw. pose proof (zlen_nonneg (o_queue o)) as Hn.
      assert (Ha : a <= a <= zlen (l_sub x)) by lia.
      specialize (Hcatch a Ha). rewrite E in Hcatch. cbn in Hcatch.
      apply seqof_inj in Hcatch; [|lia]. apply Hq. destruct (o_queue o); [reflexivity|].
      rewrite zlen_cons in Hl. pose proof (zlen_nonneg l). lia. }
    split.
    { apply Forall_app. split; [exact Hem1|]. eapply Forall_impl; [|exact F7].
      intros d [D1 [D2 D3]]. split; [exact D1|]. split; [congruence|]. intros E. apply D3, Hrr1, E. }
    split.
    { apply Forall_app. split.
      - apply tight_flat. eapply resend_tight; eassumption.
      - eapply flush_tight; [exact Ef|exact Hs1|exact Hc1]. }
    split; [intros _; exact Hcatch|]. intros E. contradiction.
  - (* nothing to resend, something to flush *)
    destruct (flush_shape params6 o o1 ds1 Ef1 Hcp) as [G1 [G2 [G3 [G4 [G5 [G6 [G7 [G8 G9]]]]]]]].
    destruct (flush_link params6 o o1 ds1 _ _ a (zlen (l_del x)) Ef1 Hcp Hsnd Hack (zlen_nonneg _)) as [Hs1 [_ [Hc1 _]]].
    destruct (flush_shape params6 o1 o2 ds2 Ef Hc1) as [F1 [F2 [F3 [F4 [F5 [F6 [F7 _]]]]]]].
    split; [congruence|]. split; [congruence|]. split; [exact F1|]. split; [exact F2|].
    split; [intros _; congruence|].
    split; [intros E; apply app_eq_nil in E as [E _]; exact (G9 Ecs E)|].
    split.
    { apply Forall_app. split; [exact G7|]. eapply Forall_impl; [|exact F7].
      intros d [D1 [D2 D3]]. split; [exact D1|]. split; [congruence|]. intros E. apply D3. congruence. }
    split.
    { apply Forall_app. split; [eapply flush_tight; eassumption|eapply flush_tight; eassumption]. }
    split; [intros E; contradiction|].
    intros _ Hpe. apply Forall_app. split.
    + destruct G8 as [->| ->]; constructor; [|constructor]. cbn. exact Hpe.
    + destruct (flush_shape params6 o1 o2 ds2 Ef Hc1) as [_ [_ [_ [_ [_ [_ [_ [[->| ->] _]]]]]]]]; constructor; [|constructor].
      cbn. exact G1.
  - (* nothing to resend, nothing to flush: a keep-alive *)
    destruct (flush_shape params6 o o2 ds2 Ef Hcp) as [F1 [F2 [F3 [F4 [F5 [F6 [F7 [F8 _]]]]]]]].
    assert (Hds2 : ds2 = []).
    { unfold online_flush in Ef. rewrite Ecs in Ef. cbn in Ef. injection Ef as _ <-. reflexivity. }
    subst ds2.
    split; [exact F5|]. split; [exact F6|]. split; [exact F1|]. split; [exact F2|].
    split; [intros _; congruence|].
    split; [discriminate|].
    split; [constructor; [|constructor]; split; [exact I|]; split; [reflexivity|intros _; reflexivity]|].
    split; [constructor; [|constructor]; apply tight_nil|].
    split; [intros E; contradiction|].
    intros _ _. constructor; [reflexivity|constructor].
Qed.

(* ================= part 3: the link ================= *)
Definition sched (w : link) (ls : list llabel) (w' : link) : Prop :=
  admissible_run w ls /\ link_run w ls = Ok w'.

Lemma sched_nil w : sched w [] w.
Proof. split; [exact I|reflexivity]. Qed.

Lemma sched_cons w l w1 ls w' : admissible w l -> link_step w l = Ok w1 -> sched w1 ls w' -> sched w (l :: ls) w'.
Proof. intros Ha Hs [H1 H2]. split; cbn [admissible_run link_run]; rewrite Hs; [split; assumption|exact H2]. Qed.

Lemma sched_app l1 : forall w w1 l2 w2, sched w l1 w1 -> sched w1 l2 w2 -> sched w (l1 ++ l2) w2.
Proof.
  induction l1 as [|l l1 IH]; intros w w1 l2 w2 [A1 R1] H2; cbn [app].
  - cbn in R1. injection R1 as <-. exact H2.
  - cbn [admissible_run link_run] in A1, R1. destruct A1 as [Al A1].
    destruct (link_step w l) as [wm| | |] eqn:E; try discriminate.
    eapply sched_cons; [exact Al|exact E|]. eapply IH; [split; eassumption|exact H2].
Qed.

Lemma other_other s : other (other s) = s.
Proof. destruct s; reflexivity. Qed.

Lemma linv_side w s : link_inv w ->
  side_inv (get w s) (l_sub (get w (other s))) (l_del (get w (other s))) (l_nvs (get w (other s)))
           (l_answered (get w (other s))).
Proof. intros [A [B _]]. destruct s; assumption. Qed.

Lemma linv_bag w s : link_inv w -> bag_inv (bag w s) (get w s).
Proof. intros [_ [_ [A B]]]. destruct s; assumption. Qed.

Definition side_good (x : lside) (tok : option token) (sub : list bytes) (rnd : list token) : Prop :=
  exists o, c_state (l_conn x) = Online o /\ o_own o = tok /\ o_their o = tok /\ l_sub x = sub /\ l_rand x = rnd.

Definition good (w : link) (tok : option token) (subs : side -> list bytes) (rnds : side -> list token) : Prop :=
  link_inv w /\ forall s, side_good (get w s) tok (subs s) (rnds s).

Lemma good_update w w' tok subs rnds s :
  good w tok subs rnds -> link_inv w' -> side_good (get w' s) tok (subs s) (rnds s) ->
  get w' (other s) = get w (other s) -> good w' tok subs rnds.
Proof.
  intros [_ G] Hi Hs Ho. split; [exact Hi|]. intros t.
  destruct s, t; cbn [other] in *; try exact Hs; rewrite Ho; apply G.
Qed.

Lemma lapp_step w s op : link_inv w -> admissible w (LApp s op) ->
  exists x' fl, side_step (k_now w) (get w s) op = Ok (x', fl) /\
    link_step w (LApp s op) = Ok (set_side w s x' fl) /\ link_inv (set_side w s x' fl).
Proof.
  intros Hi Ha. destruct (link_step_inv w _ Hi Ha) as [w' [Hs Hi']]. cbn [link_step] in Hs.
  destruct (side_step (k_now w) (get w s) op) as [[x' fl]| | |] eqn:E; try discriminate.
  injection Hs as <-. exists x', fl. split; [reflexivity|]. split; [|exact Hi'].
  cbn [link_step]. rewrite E. reflexivity.
Qed.

Lemma ldeliver_step w s f rest : link_inv w -> bag w s = f :: rest ->
  fresh f (get w (other s)) -> rand_ok {| e_now := k_now w; e_rand := l_rand (get w (other s)) |} ->
  admissible w (LDeliver s 0) /\
  exists y' fl, side_step (k_now w) (get w (other s)) (OpFeed (f_d f)) = Ok (y', fl) /\
    link_step w (LDeliver s 0) = Ok (set_side w (other s) y' fl) /\ link_inv (set_side w (other s) y' fl).
Proof.
  intros Hi Hb Hf Hr.
  assert (Ha : admissible w (LDeliver s 0)).
  { cbn [admissible]. rewrite Hb. cbn [nth_error]. split; assumption. }
  split; [exact Ha|].
  destruct (link_step_inv w _ Hi Ha) as [w' [Hs Hi']]. cbn [link_step] in Hs. rewrite Hb in Hs. cbn [nth_error] in Hs.
  destruct (side_step (k_now w) (get w (other s)) (OpFeed (f_d f))) as [[y' fl]| | |] eqn:E; try discriminate.
  injection Hs as <-. exists y', fl. split; [reflexivity|]. split; [|exact Hi'].
  cbn [link_step]. rewrite Hb. cbn [nth_error]. rewrite E. reflexivity.
Qed.

Lemma ldrop_step w s : exists w1, link_step w (LDrop s 0) = Ok w1 /\ (forall t, get w1 t = get w t) /\
  bag w1 s = tl (bag w s) /\ bag w1 (other s) = bag w (other s) /\ k_now w1 = k_now w /\
  (link_inv w -> link_inv w1).
Proof.
  destruct s; (eexists; split; [reflexivity|]); cbn [get bag other k_now k_a k_b k_ab k_ba].
  - split; [intros []; reflexivity|]. split; [destruct (k_ab w); reflexivity|]. split; [reflexivity|]. split; [reflexivity|].
    intros [A [B [C D]]]. unfold link_inv. cbn [k_a k_b k_ab k_ba].
    split; [exact A|]. split; [exact B|]. split; [apply remove_nth_forall, C|exact D].
  - split; [intros []; reflexivity|]. split; [destruct (k_ba w); reflexivity|]. split; [reflexivity|]. split; [reflexivity|].
    intros [A [B [C D]]]. unfold link_inv. cbn [k_a k_b k_ab k_ba].
    split; [exact A|]. split; [exact B|]. split; [exact C|apply remove_nth_forall, D].
Qed.

Lemma ltime_step w dt : exists w1, link_step w (LTime dt) = Ok w1 /\ (forall t, get w1 t = get w t) /\
  (forall t, bag w1 t = bag w t) /\ k_now w1 = k_now w + dt /\ (link_inv w -> link_inv w1).
Proof.
  eexists. split; [reflexivity|]. cbn. split; [intros []; reflexivity|]. split; [intros []; reflexivity|].
  split; [reflexivity|]. intros H. exact H.
Qed.

Lemma get_set_same w s x fl : get (set_side w s x fl) s = x.
Proof. destruct s; reflexivity. Qed.
Lemma get_set_other w s x fl : get (set_side w s x fl) (other s) = get w (other s).
Proof. destruct s; reflexivity. Qed.
Lemma bag_set_same w s x fl : bag (set_side w s x fl) s = bag w s ++ fl.
Proof. destruct s; reflexivity. Qed.
Lemma bag_set_other w s x fl : bag (set_side w s x fl) (other s) = bag w (other s).
Proof. destruct s; reflexivity. Qed.
Lemma now_set w s x fl : k_now (set_side w s x fl) = k_now w.
Proof. destruct s; reflexivity. Qed.

(* the three schedules the healing is made of *)
Definition speak (s : side) (dt : Z) : list llabel := [LTime dt; LApp s OpTick; LApp s OpFlush].
Fixpoint drain (s : side) (n : nat) : list llabel :=
  match n with O => [] | S k => LDeliver s 0 :: LDrop s 0 :: drain s k end.
Definition drops (s : side) (n : nat) : list llabel := repeat (LDrop s 0) n.

(* the network loses everything that is in flight from s *)
Lemma drop_all s : forall n w, length (bag w s) = n -> link_inv w ->
  exists w', sched w (drops s n) w' /\ link_inv w' /\ (forall t, get w' t = get w t) /\
    bag w' s = [] /\ bag w' (other s) = bag w (other s) /\ k_now w' = k_now w.
Proof.
  induction n as [|n IH]; intros w Hl Hi.
  - exists w. split; [apply sched_nil|]. split; [exact Hi|]. split; [reflexivity|].
    split; [apply length_zero_iff_nil, Hl|]. split; reflexivity.
  - destruct (ldrop_step w s) as [w1 [S1 [G1 [B1 [O1 [N1 I1]]]]]].
    destruct (IH w1) as [w' [Hs [Hi' [G' [B' [O' N']]]]]].
    { rewrite B1. destruct (bag w s); [discriminate|]. cbn in *. lia. }
    { apply I1, Hi. }
    exists w'. split; [eapply sched_cons; [exact I|exact S1|exact Hs]|]. split; [exact Hi'|].
    split; [intros t; rewrite G', G1; reflexivity|]. split; [exact B'|]. split; congruence.
Qed.

Lemma get_set_other' w s x fl : get (set_side w (other s) x fl) s = get w s.
Proof. destruct s; reflexivity. Qed.
Lemma bag_set_other' w s x fl : bag (set_side w (other s) x fl) s = bag w s.
Proof. destruct s; reflexivity. Qed.

(* side s lets both its deadlines pass, ticks and flushes *)
Lemma speak_link w s tok subs rnds o :
  good w tok subs rnds -> c_state (l_conn (get w s)) = Online o ->
  exists w' ds o2,
    sched w (speak s (Z.max 0 (due (l_conn (get w s)) - k_now w))) w' /\ good w' tok subs rnds /\
    bag w' s = bag w s ++ map (mkf (get w s)) ds /\ bag w' (other s) = bag w (other s) /\
    get w' (other s) = get w (other s) /\ l_del (get w' s) = l_del (get w s) /\
    c_state (l_conn (get w' s)) = Online o2 /\
    pc_chunks (o_packet o2) = [] /\ o_rr o2 = false /\ (o_queue o = [] -> o_queue o2 = []) /\
    ds <> [] /\ Forall (dg_ok tok (o_rr o)) ds /\
    Forall (fun d => tight (zlen (subs s)) (dgram_chunks d)) ds /\
    (o_queue o <> [] -> ack_after (seqof (zlen (l_del (get w (other s))))) (flat ds) = seqof (zlen (subs s))) /\
    (o_queue o = [] -> pc_chunks (o_packet o) = [] -> Forall (fun d => dgram_chunks d = []) ds).
Proof.
  intros [Hi G] Hon. remember (get w s) as x eqn:Ex.
  set (dt := Z.max 0 (due (l_conn x) - k_now w)).
  destruct (G s) as [o' [Hon' [Town [Ttheir [Hsub Hrnd]]]]]. rewrite <- Ex in Hon', Hsub, Hrnd.
  rewrite Hon in Hon'. injection Hon' as <-.
  pose proof (linv_side w s Hi) as Hsx. rewrite <- Ex in Hsx.
  pose proof (sv_conn _ _ _ _ _ Hsx) as Hc.
  destruct (sv_online _ _ _ _ _ Hsx o Hon) as [a [Hsnd [Ha Hack]]].
  pose proof (sv_dle _ _ _ _ _ (linv_side w (other s) Hi)) as Hdle. rewrite other_other, <- Ex in Hdle.
  destruct (ltime_step w dt) as [w1 [S1 [G1 [B1 [N1 I1]]]]]. specialize (I1 Hi).
  assert (A2 : admissible w1 (LApp s OpTick)) by (cbn; repeat split).
  destruct (lapp_step w1 s OpTick I1 A2) as [x1 [fl1 [T1 [L1 I2]]]]. rewrite G1, <- Ex in T1.
  assert (Hdue : due (l_conn x) <= k_now w1) by (rewrite N1; unfold dt; lia).
  destruct (tick_side _ x o x1 fl1 Hon Hc Hdue T1) as [_ [_ [_ [_ [o1 [ds1 [Hon1 _]]]]]]].
  assert (A3 : admissible (set_side w1 s x1 fl1) (LApp s OpFlush)).
  { cbn [admissible]. rewrite get_set_same. split; [exact I|]. split; [exists o1; exact Hon1|exact I]. }
  destruct (lapp_step _ s OpFlush I2 A3) as [x2 [fl2 [T2 [L2 I3]]]].
  rewrite get_set_same, now_set in T2.
  destruct (speak_side _ x o a x1 fl1 x2 fl2 Hon Hc Hsnd Hack Hdue T1 T2)
    as [o2 [ds [Hconn2 [Hfl [Es [Ed [Er [To [Tt [P1 [P2 [P3 [P4 [P5 [P6 [P7 P8]]]]]]]]]]]]]]]].
  exists (set_side (set_side w1 s x1 fl1) s x2 fl2), ds, o2.
  split.
  { eapply sched_cons; [exact I|exact S1|]. eapply sched_cons; [exact A2|exact L1|].
    eapply sched_cons; [exact A3|exact L2|apply sched_nil]. }
  split.
  { eapply (good_update w _ tok subs rnds s); [split; assumption|exact I3| |].
    - rewrite get_set_same. exists o2. rewrite Hconn2. cbn [c_state].
      split; [reflexivity|]. split; [congruence|]. split; [congruence|]. split; congruence.
    - rewrite !get_set_other. apply G1. }
  split. { rewrite !bag_set_same, B1, <- app_assoc, Hfl. reflexivity. }
  split. { rewrite !bag_set_other. apply B1. }
  split. { rewrite !get_set_other. apply G1. }
  rewrite get_set_same. split; [exact Ed|]. split; [rewrite Hconn2; reflexivity|].
  split; [exact P1|]. split; [exact P2|]. split; [exact P3|]. split; [exact P4|].
  split; [rewrite <- Ttheir; exact P5|]. split; [rewrite <- Hsub; exact P6|].
  split; [|exact P8].
  intros Hq. rewrite <- Hsub. apply P7; [exact Hq|]. split; [exact Ha|exact Hdle].
Qed.

(* a datagram in flight during the healing *)
Definition fl_ok (tok : option token) (nX nY : Z) (f : flight) : Prop :=
  f_n f = nX /\ nY - f_c f <= 511 /\ tight nX (dgram_chunks (f_d f)) /\ benign (f_d f) /\
  dgram_tok (f_d f) = tok /\ (dgram_rr (f_d f) = false \/ f_c f = nY).

(* the oldest datagram from s arrives and is gone *)
Lemma deliver_one w s tok subs rnds f rest oy :
  good w tok subs rnds -> (forall now, rand_ok {| e_now := now; e_rand := rnds (other s) |}) ->
  bag w s = f :: rest -> fl_ok tok (zlen (subs s)) (zlen (subs (other s))) f ->
  c_state (l_conn (get w (other s))) = Online oy ->
  exists w' oy', sched w (drain s 1) w' /\ good w' tok subs rnds /\
    bag w' s = rest /\ bag w' (other s) = bag w (other s) /\ get w' s = get w s /\ k_now w' = k_now w /\
    c_state (l_conn (get w' (other s))) = Online oy' /\
    c_send (l_conn (get w' (other s))) = c_send (l_conn (get w (other s))) /\
    o_packet oy' = o_packet oy /\ o_ack oy' = ack_after (o_ack oy) (dgram_chunks (f_d f)) /\
    (f_c f = zlen (subs (other s)) -> o_queue oy' = []) /\ (o_queue oy = [] -> o_queue oy' = []) /\
    (dgram_chunks (f_d f) = [] -> o_rr oy' = o_rr oy).
Proof.
  intros [Hi G] Hrnd Hb [F1 [F2 [F3 [F4 [F5 F6]]]]] Hony.
  remember (get w (other s)) as y eqn:Ey.
  destruct (G (other s)) as [oy0 [Hon0 [Town [Ttheir [Hsuby Hrndy]]]]]. rewrite <- Ey in Hon0, Hsuby, Hrndy.
  rewrite Hony in Hon0. injection Hon0 as <-.
  destruct (G s) as [ox [Honx [_ [_ [Hsubx _]]]]].
  pose proof (linv_side w (other s) Hi) as Hsy. rewrite other_other, <- Ey in Hsy.
  destruct (sv_online _ _ _ _ _ Hsy oy Hony) as [a [Hsnd [Ha Hack]]].
  pose proof (sv_dle _ _ _ _ _ Hsy) as Hdle. rewrite Hsubx in Hdle.
  pose proof (linv_bag w s Hi) as Hbag. rewrite Hb in Hbag. inversion Hbag as [|f' r' Hfi _]; subst f' r'.
  destruct Hfi as [[_ [_ [Hfack _]]] _].
  assert (Hfresh : fresh f y).
  { split; [rewrite Hsuby; lia|]. intros c sq r Hin Hv. destruct (F3 c sq r Hin Hv) as [i [Hi1 ->]].
    rewrite F1. rewrite (idx_of_spec (zlen (subs s)) (seqof i) i); [|lia|reflexivity]. lia. }
  destruct (ldeliver_step w s f rest Hi Hb) as [A1 [y' [fl [T1 [L1 I1]]]]].
  { rewrite <- Ey. exact Hfresh. }
  { rewrite <- Ey, Hrndy. apply Hrnd. }
  rewrite <- Ey in T1.
  assert (Hnr : dgram_rr (f_d f) = false \/ o_queue (ack_chunks oy (dgram_ack (f_d f))) = []).
  { destruct F6 as [E|E]; [left; exact E|]. right.
    assert (Hak : dgram_ack (f_d f) = seqof (zlen (l_sub y))).
    { rewrite Hsuby, <- E. revert Hfack F4. destruct (f_d f) as [t1 t2 p|tk ak ctl|tk ak rr n cs]; intros Hfack F4;
        cbn in F4; try contradiction; cbn [dgram_ack]; apply Hfack; reflexivity. }
    rewrite Hak. eapply ack_all, Hsnd. }
  destruct (feed_side _ y oy (f_d f) y' fl Hony F4 (eq_trans F5 (eq_sym Town)) Hnr T1)
    as [-> [oy' [Hon' [Hcs [Hs' [Hr' [To' [Tt' [Hp' [Hq' [Hak' Hrr']]]]]]]]]]].
  destruct (ldrop_step (set_side w (other s) y' []) s) as [w2 [S2 [G2 [B2 [O2 [N2 I2]]]]]].
  specialize (I2 I1).
  exists w2, oy'.
  split. { eapply sched_cons; [exact A1|exact L1|]. eapply sched_cons; [exact I|exact S2|apply sched_nil]. }
  split.
  { eapply (good_update w _ tok subs rnds (other s)); [split; assumption|exact I2| |].
    - rewrite G2, get_set_same. exists oy'. split; [exact Hon'|]. split; [congruence|]. split; [congruence|].
      split; congruence.
    - rewrite other_other, G2, get_set_other'. reflexivity. }
  split. { rewrite B2, bag_set_other', Hb. reflexivity. }
  split. { rewrite O2, bag_set_same, app_nil_r. reflexivity. }
  split. { rewrite G2, get_set_other'. reflexivity. }
  split. { rewrite N2, now_set. reflexivity. }
  rewrite G2, get_set_same.
  split; [exact Hon'|]. split; [exact Hcs|]. split; [exact Hp'|]. split; [exact Hak'|].
  split.
  { intros E. rewrite Hq'.
    assert (Hak : dgram_ack (f_d f) = seqof (zlen (l_sub y))).
    { rewrite Hsuby, <- E. revert Hfack F4. destruct (f_d f) as [t1 t2 p|tk ak ctl|tk ak rr n cs]; intros Hfack F4;
        cbn in F4; try contradiction; cbn [dgram_ack]; apply Hfack; reflexivity. }
    rewrite Hak. eapply ack_all, Hsnd. }
  split; [|exact Hrr'].
  intros E. rewrite Hq', (ack_empty _ _ E). exact E.
Qed.

(* every datagram in flight from s arrives, oldest first, each exactly once *)
Lemma drain_all s tok subs rnds :
  (forall now, rand_ok {| e_now := now; e_rand := rnds (other s) |}) ->
  forall F w oy, good w tok subs rnds -> bag w s = F ->
  Forall (fl_ok tok (zlen (subs s)) (zlen (subs (other s)))) F ->
  c_state (l_conn (get w (other s))) = Online oy ->
  exists w' oy', sched w (drain s (length F)) w' /\ good w' tok subs rnds /\
    bag w' s = [] /\ bag w' (other s) = bag w (other s) /\ get w' s = get w s /\ k_now w' = k_now w /\
    c_state (l_conn (get w' (other s))) = Online oy' /\
    c_send (l_conn (get w' (other s))) = c_send (l_conn (get w (other s))) /\
    o_packet oy' = o_packet oy /\ o_ack oy' = ack_after (o_ack oy) (flat (map f_d F)) /\
    (F <> [] -> Forall (fun f => f_c f = zlen (subs (other s))) F -> o_queue oy' = []) /\
    (o_queue oy = [] -> o_queue oy' = []) /\
    (Forall (fun f => dgram_chunks (f_d f) = []) F -> o_rr oy' = o_rr oy).
Proof.
  intros Hrnd. induction F as [|f rest IH]; intros w oy Hg Hb Hall Hony.
  - exists w, oy. split; [apply sched_nil|]. split; [exact Hg|]. split; [exact Hb|].
    do 3 (split; [reflexivity|]). split; [exact Hony|]. do 3 (split; [reflexivity|]). split; [intros H; contradiction|].
    split; [intros H; exact H|reflexivity].
  - inversion Hall as [|f' r' Hf Hrest]; subst f' r'.
    destruct (deliver_one w s tok subs rnds f rest oy Hg Hrnd Hb Hf Hony)
      as [w1 [oy1 [S1 [G1 [B1 [O1 [X1 [N1 [On1 [Cs1 [P1 [A1 [Q1 [Q1' R1]]]]]]]]]]]]]].
    destruct (IH w1 oy1 G1 B1 Hrest On1)
      as [w2 [oy2 [S2 [G2 [B2 [O2 [X2 [N2 [On2 [Cs2 [P2 [A2 [Q2 [Q2' R2]]]]]]]]]]]]]].
    exists w2, oy2.
    split; [exact (sched_app (drain s 1) w w1 (drain s (length rest)) w2 S1 S2)|].
    split; [exact G2|]. split; [exact B2|]. split; [congruence|]. split; [congruence|]. split; [congruence|].
    split; [exact On2|]. split; [congruence|]. split; [congruence|].
    split.
    { rewrite A2, A1. unfold flat. cbn [map flat_map]. rewrite ack_after_app. reflexivity. }
    split.
    { intros _ Hc. inversion Hc as [|f' r' Hcf Hcr]; subst f' r'. apply Q2', Q1, Hcf. }
    split; [intros E; apply Q2', Q1', E|].
    intros He. inversion He as [|f' r' Hef Her]; subst f' r'. rewrite (R2 Her). apply R1, Hef.
Qed.

(* what the invariant says once a queue is empty / an acknowledgement is complete *)
Lemma firstn_zlen {A} (l : list A) : firstn (Z.to_nat (zlen l)) l = l.
Proof. unfold zlen. rewrite Nat2Z.id. apply firstn_all. Qed.

Lemma queue_empty_del w s o : link_inv w -> c_state (l_conn (get w s)) = Online o -> o_queue o = [] ->
  l_del (get w (other s)) = l_sub (get w s).
Proof.
  intros Hi Hon Hq. pose proof (linv_side w s Hi) as Hx. pose proof (linv_side w (other s) Hi) as Hy.
  rewrite other_other in Hy.
  destruct (sv_online _ _ _ _ _ Hx o Hon) as [a [Hs [Ha _]]].
  pose proof (si_queue _ _ _ _ Hs) as Hqi. rewrite Hq in Hqi. cbn in Hqi.
  pose proof (sv_dle _ _ _ _ _ Hy) as Hdle. pose proof (sv_prefix _ _ _ _ _ Hy) as Hp.
  assert (E : zlen (l_del (get w (other s))) = zlen (l_sub (get w s))) by lia.
  rewrite E in Hp. rewrite Hp. apply firstn_zlen.
Qed.

Lemma ack_del w s oy : link_inv w -> c_state (l_conn (get w (other s))) = Online oy ->
  o_ack oy = seqof (zlen (l_sub (get w s))) -> l_del (get w (other s)) = l_sub (get w s).
Proof.
  intros Hi Hon Hak. pose proof (linv_side w s Hi) as Hx. pose proof (linv_side w (other s) Hi) as Hy.
  rewrite other_other in Hy.
  destruct (sv_online _ _ _ _ _ Hy oy Hon) as [a [_ [_ Hack]]].
  pose proof (sv_dle _ _ _ _ _ Hy) as Hdle. pose proof (sv_prefix _ _ _ _ _ Hy) as Hp.
  pose proof (sv_gap _ _ _ _ _ Hx) as Hgap.
  assert (E : zlen (l_del (get w (other s))) = zlen (l_sub (get w s))).
  { apply seqof_inj; [congruence|lia]. }
  rewrite E in Hp. rewrite Hp. apply firstn_zlen.
Qed.

Lemma good_same w w' tok subs rnds : good w tok subs rnds -> link_inv w' -> (forall t, get w' t = get w t) ->
  good w' tok subs rnds.
Proof. intros [_ G] Hi He. split; [exact Hi|]. intros t. rewrite He. apply G. Qed.

Lemma fl_ok_map tok x nX nY rr0 ds :
  zlen (l_sub x) = nX -> nY - zlen (l_del x) <= 511 ->
  Forall (dg_ok tok rr0) ds -> Forall (fun d => tight nX (dgram_chunks d)) ds ->
  (rr0 = false \/ zlen (l_del x) = nY) ->
  Forall (fl_ok tok nX nY) (map (mkf x) ds).
Proof.
  intros Hn Hg Hd Ht Hr. apply Forall_map. rewrite Forall_forall in *. intros d Hin.
  destruct (Hd d Hin) as [D1 [D2 D3]]. unfold fl_ok, mkf. cbn [f_d f_n f_c].
  split; [exact Hn|]. split; [exact Hg|]. split; [apply Ht, Hin|]. split; [exact D1|]. split; [exact D2|].
  destruct Hr as [E|E]; [left; apply D3, E|right; exact E].
Qed.

Lemma map_fd_mkf x ds : map f_d (map (mkf x) ds) = ds.
Proof. rewrite map_map. cbn. apply map_id. Qed.

(* the healing schedule: A flushes; everything in flight is lost; A speaks, its datagrams arrive;
   B speaks, its datagrams arrive; A speaks once more, its datagrams arrive *)
Definition heal_schedule (na nb : nat) (dt1 : Z) (n1 : nat) (dt2 : Z) (n2 : nat) (dt3 : Z) (n3 : nat) : list llabel :=
  [LApp SA OpFlush] ++ drops SA na ++ drops SB nb ++
  speak SA dt1 ++ drain SA n1 ++ speak SB dt2 ++ drain SB n2 ++ speak SA dt3 ++ drain SA n3.

Theorem heal_link w oa ob :
  link_inv w -> c_state (l_conn (k_a w)) = Online oa -> c_state (l_conn (k_b w)) = Online ob ->
  o_own oa = o_own ob ->
  rand_ok {| e_now := k_now w; e_rand := l_rand (k_a w) |} ->
  rand_ok {| e_now := k_now w; e_rand := l_rand (k_b w) |} ->
  exists na nb dt1 n1 dt2 n2 dt3 n3 w' oa' ob',
    0 <= dt1 /\ 0 <= dt2 /\ 0 <= dt3 /\
    admissible_run w (heal_schedule na nb dt1 n1 dt2 n2 dt3 n3) /\
    link_run w (heal_schedule na nb dt1 n1 dt2 n2 dt3 n3) = Ok w' /\ link_inv w' /\
    l_sub (k_a w') = l_sub (k_a w) /\ l_sub (k_b w') = l_sub (k_b w) /\
    l_del (k_b w') = l_sub (k_a w') /\ l_del (k_a w') = l_sub (k_b w') /\
    c_state (l_conn (k_a w')) = Online oa' /\ c_state (l_conn (k_b w')) = Online ob' /\
    o_queue oa' = [] /\ o_queue ob' = [] /\
    pc_chunks (o_packet oa') = [] /\ pc_chunks (o_packet ob') = [] /\
    o_rr oa' = false /\ o_rr ob' = false /\ k_ab w' = [] /\ k_ba w' = [].
Proof.
  intros Hi Hoa Hob Htok HrA HrB.
  set (tok := o_own oa).
  set (subs := fun s => l_sub (get w s)). set (rnds := fun s => l_rand (get w s)).
  assert (HrndA : forall now, rand_ok {| e_now := now; e_rand := rnds SA |}) by (intros now; exact HrA).
  assert (HrndB : forall now, rand_ok {| e_now := now; e_rand := rnds SB |}) by (intros now; exact HrB).
  pose proof (sv_conn _ _ _ _ _ (linv_side w SA Hi)) as HcA. pose proof (sv_conn _ _ _ _ _ (linv_side w SB Hi)) as HcB.
  cbn [get] in HcA, HcB.
  assert (HokA : online_ok pp6 oa /\ o_own oa = o_their oa).
  { unfold conn_ok6 in HcA. rewrite Hoa in HcA. destruct HcA as [A [B _]]. split; assumption. }
  assert (HokB : online_ok pp6 ob /\ o_own ob = o_their ob).
  { unfold conn_ok6 in HcB. rewrite Hob in HcB. destruct HcB as [A [B _]]. split; assumption. }
  destruct HokA as [HokA HtA]. destruct HokB as [HokB HtB].
  assert (G0 : good w tok subs rnds).
  { split; [exact Hi|]. intros [|]; cbn [get].
    - exists oa. split; [exact Hoa|]. split; [reflexivity|]. split; [symmetry; exact HtA|]. split; reflexivity.
    - exists ob. split; [exact Hob|]. split; [symmetry; exact Htok|]. split; [unfold tok; congruence|]. split; reflexivity. }
  (* A flushes *)
  assert (A0 : admissible w (LApp SA OpFlush)).
  { cbn [admissible get]. split; [exact I|]. split; [exists oa; exact Hoa|exact I]. }
  destruct (lapp_step w SA OpFlush Hi A0) as [xa1 [fl0 [T0 [L0 I1]]]]. cbn [get] in T0.
  destruct (flush_side _ _ oa xa1 fl0 Hoa T0) as [oa1 [ds0 [Ef0 [Hconn1 [_ [Es1 [Ed1 [En1 Er1]]]]]]]].
  destruct (flush_shape params6 oa oa1 ds0 Ef0 (pc_ok_count _ _ (proj1 HokA))) as [P1 [R1 [Q1 [_ [To1 [Tt1 _]]]]]].
  set (w1 := set_side w SA xa1 fl0) in *.
  assert (Hoa1 : c_state (l_conn (get w1 SA)) = Online oa1) by (unfold w1; cbn [get set_side k_a]; rewrite Hconn1; reflexivity).
  assert (G1 : good w1 tok subs rnds).
  { eapply (good_update w w1 tok subs rnds SA); [exact G0|exact I1| |reflexivity].
    exists oa1. split; [exact Hoa1|]. unfold w1. cbn [get set_side k_a]. unfold tok, subs, rnds. cbn [get].
    split; [congruence|]. split; [congruence|]. split; congruence. }
  (* everything in flight is lost *)
  destruct (drop_all SA _ w1 eq_refl I1) as [w2 [S2 [I2 [E2 [B2 [O2 N2]]]]]].
  destruct (drop_all SB _ w2 eq_refl I2) as [w3 [S3 [I3 [E3 [B3 [O3 N3]]]]]]. cbn [other] in O2, O3.
  assert (E31 : forall t, get w3 t = get w1 t) by (intros t; rewrite E3, E2; reflexivity).
  assert (G3 : good w3 tok subs rnds) by (eapply good_same; [exact G1|exact I3|exact E31]).
  assert (B3A : bag w3 SA = []) by (rewrite O3; exact B2).
  (* A speaks *)
  assert (Hoa3 : c_state (l_conn (get w3 SA)) = Online oa1) by (rewrite E31; exact Hoa1).
  destruct (speak_link w3 SA tok subs rnds oa1 G3 Hoa3)
    as [w4 [dsA [oa2 [S4 [G4 [B4 [O4 [X4 [D4 [Hoa4 [P4 [R4 [Q4 [Ne4 [Dg4 [Ti4 [Ca4 _]]]]]]]]]]]]]]]]].
  cbn [other] in O4, X4, Ca4. rewrite B3A in B4. cbn [app] in B4. rewrite B3 in O4.
  (* ... and is heard *)
  pose proof (proj1 G3) as I3'. pose proof (proj1 G4) as I4.
  assert (Hob4 : c_state (l_conn (get w4 SB)) = Online ob).
  { rewrite X4, E31. unfold w1. cbn [get set_side k_b]. exact Hob. }
  destruct (proj2 G3 SA) as [oa3' [Hoa3' [_ [_ [HsubA3 _]]]]].
  destruct (proj2 G3 SB) as [ob3' [Hob3' [_ [_ [HsubB3 _]]]]].
  assert (F4 : Forall (fl_ok tok (zlen (subs SA)) (zlen (subs SB))) (map (mkf (get w3 SA)) dsA)).
  { eapply fl_ok_map; [rewrite HsubA3; reflexivity| |exact Dg4|exact Ti4|left; exact R1].
    pose proof (sv_gap _ _ _ _ _ (linv_side w3 SB I3')) as Hg. cbn [other] in Hg. rewrite HsubB3 in Hg. exact Hg. }
  destruct (drain_all SA tok subs rnds HrndB _ w4 ob G4 B4 F4 Hob4)
    as [w5 [ob5 [S5 [G5 [B5 [O5 [X5 [N5 [Hob5 [_ [Pk5 [Ak5 [_ [Qe5 _]]]]]]]]]]]]]].
  cbn [other] in O5, Hob5. rewrite O4 in O5. rewrite map_fd_mkf in Ak5.
  pose proof (proj1 G5) as I5.
  destruct (proj2 G5 SA) as [oa5' [Hoa5' [_ [_ [HsubA5 _]]]]].
  destruct (proj2 G5 SB) as [ob5' [Hob5' [_ [_ [HsubB5 _]]]]].
  assert (Hoa5 : c_state (l_conn (get w5 SA)) = Online oa2) by (rewrite X5; exact Hoa4).
  assert (DelB5 : l_del (get w5 SB) = l_sub (get w5 SA)).
  { destruct (o_queue oa1) as [|c0 q0] eqn:Eq.
    - apply (queue_empty_del w5 SA oa2 I5 Hoa5). apply Q4. reflexivity.
    - apply (ack_del w5 SA ob5 I5 Hob5). rewrite Ak5, HsubA5.
      destruct (sv_online _ _ _ _ _ (linv_side w3 SB I3') ob) as [a [_ [_ Hk]]].
      { rewrite E31. unfold w1. cbn [get set_side k_b]. exact Hob. }
      rewrite Hk. apply Ca4. discriminate. }
  (* B speaks *)
  destruct (speak_link w5 SB tok subs rnds ob5 G5 Hob5)
    as [w6 [dsB [ob6 [S6 [G6 [B6 [O6 [X6 [D6 [Hob6 [P6 [R6 [Q6 [Ne6 [Dg6 [Ti6 [Ca6 _]]]]]]]]]]]]]]]]].
  cbn [other] in O6, X6, Ca6. rewrite O5 in B6. cbn [app] in B6. rewrite B5 in O6.
  pose proof (proj1 G6) as I6.
  assert (Hoa6 : c_state (l_conn (get w6 SA)) = Online oa2) by (rewrite X6; exact Hoa5).
  assert (F6 : Forall (fl_ok tok (zlen (subs SB)) (zlen (subs SA))) (map (mkf (get w5 SB)) dsB)).
  { assert (Hz : zlen (l_del (get w5 SB)) = zlen (subs SA)) by (rewrite DelB5, HsubA5; reflexivity).
    eapply fl_ok_map; [rewrite HsubB5; reflexivity|rewrite Hz; lia|exact Dg6|exact Ti6|right; exact Hz]. }
  destruct (drain_all SB tok subs rnds HrndA _ w6 oa2 G6 B6 F6 Hoa6)
    as [w7 [oa7 [S7 [G7 [B7 [O7 [X7 [N7 [Hoa7 [_ [Pk7 [Ak7 [Qf7 [_ _]]]]]]]]]]]]]].
  cbn [other] in O7, Hoa7. rewrite O6 in O7. rewrite map_fd_mkf in Ak7.
  pose proof (proj1 G7) as I7.
  destruct (proj2 G7 SA) as [oa7' [Hoa7' [_ [_ [HsubA7 _]]]]].
  destruct (proj2 G7 SB) as [ob7' [Hob7' [_ [_ [HsubB7 _]]]]].
  assert (Hob7 : c_state (l_conn (get w7 SB)) = Online ob6) by (rewrite X7; exact Hob6).
  assert (Qa7 : o_queue oa7 = []).
  { apply Qf7.
    - intros E. apply map_eq_nil in E. exact (Ne6 E).
    - apply Forall_map, Forall_forall. intros d _. cbn [mkf f_c]. rewrite DelB5, HsubA5. reflexivity. }
  assert (DelA7 : l_del (get w7 SA) = l_sub (get w7 SB)).
  { destruct (o_queue ob5) as [|c0 q0] eqn:Eq.
    - apply (queue_empty_del w7 SB ob6 I7 Hob7). apply Q6. reflexivity.
    - apply (ack_del w7 SB oa7 I7 Hoa7). rewrite Ak7, HsubB7.
      destruct (sv_online _ _ _ _ _ (linv_side w5 SA I5) oa2 Hoa5) as [a [_ [_ Hk]]].
      rewrite Hk. apply Ca6. discriminate. }
  (* A speaks once more: its acknowledgement reaches B *)
  destruct (speak_link w7 SA tok subs rnds oa7 G7 Hoa7)
    as [w8 [dsA2 [oa8 [S8 [G8 [B8 [O8 [X8 [D8 [Hoa8 [P8 [R8 [Q8 [Ne8 [Dg8 [Ti8 [_ Em8]]]]]]]]]]]]]]]]].
  cbn [other] in O8, X8. rewrite O7 in B8. cbn [app] in B8. rewrite B7 in O8.
  pose proof (proj1 G8) as I8.
  assert (Hob8 : c_state (l_conn (get w8 SB)) = Online ob6) by (rewrite X8; exact Hob7).
  assert (F8 : Forall (fl_ok tok (zlen (subs SA)) (zlen (subs SB))) (map (mkf (get w7 SA)) dsA2)).
  { assert (Hz : zlen (l_del (get w7 SA)) = zlen (subs SB)) by (rewrite DelA7, HsubB7; reflexivity).
    eapply fl_ok_map; [rewrite HsubA7; reflexivity|rewrite Hz; lia|exact Dg8|exact Ti8|right; exact Hz]. }
  destruct (drain_all SA tok subs rnds HrndB _ w8 ob6 G8 B8 F8 Hob8)
    as [w9 [ob9 [S9 [G9 [B9 [O9 [X9 [N9 [Hob9 [_ [Pk9 [_ [Qf9 [_ Rr9]]]]]]]]]]]]]].
  cbn [other] in O9, Hob9. rewrite O8 in O9.
  pose proof (proj1 G9) as I9.
  destruct (proj2 G9 SA) as [oa9' [Hoa9' [_ [_ [HsubA9 _]]]]].
  destruct (proj2 G9 SB) as [ob9' [Hob9' [_ [_ [HsubB9 _]]]]].
  assert (Hoa9 : c_state (l_conn (get w9 SA)) = Online oa8) by (rewrite X9; exact Hoa8).
  assert (Hem : Forall (fun d => dgram_chunks d = []) dsA2) by (apply Em8; [exact Qa7|rewrite Pk7; exact P4]).
  assert (Qb9 : o_queue ob9 = []).
  { apply Qf9.
    - intros E. apply map_eq_nil in E. exact (Ne8 E).
    - apply Forall_map, Forall_forall. intros d _. cbn [mkf f_c]. rewrite DelA7, HsubB7. reflexivity. }
  assert (Rb9 : o_rr ob9 = false).
  { rewrite Rr9; [exact R6|]. apply Forall_map. eapply Forall_impl; [|exact Hem]. intros d E. exact E. }
  exists (length (bag w1 SA)), (length (bag w2 SB)),
    (Z.max 0 (due (l_conn (get w3 SA)) - k_now w3)), (length (map (mkf (get w3 SA)) dsA)),
    (Z.max 0 (due (l_conn (get w5 SB)) - k_now w5)), (length (map (mkf (get w5 SB)) dsB)),
    (Z.max 0 (due (l_conn (get w7 SA)) - k_now w7)), (length (map (mkf (get w7 SA)) dsA2)),
    w9, oa8, ob9.
  split; [lia|]. split; [lia|]. split; [lia|].
  assert (Sall : sched w (heal_schedule (length (bag w1 SA)) (length (bag w2 SB))
    (Z.max 0 (due (l_conn (get w3 SA)) - k_now w3)) (length (map (mkf (get w3 SA)) dsA))
    (Z.max 0 (due (l_conn (get w5 SB)) - k_now w5)) (length (map (mkf (get w5 SB)) dsB))
    (Z.max 0 (due (l_conn (get w7 SA)) - k_now w7)) (length (map (mkf (get w7 SA)) dsA2))) w9).
  { unfold heal_schedule.
    eapply sched_app; [eapply sched_cons; [exact A0|exact L0|apply sched_nil]|].
    eapply sched_app; [exact S2|]. eapply sched_app; [exact S3|]. eapply sched_app; [exact S4|].
    eapply sched_app; [exact S5|]. eapply sched_app; [exact S6|]. eapply sched_app; [exact S7|].
    eapply sched_app; [exact S8|exact S9]. }
  destruct Sall as [Sa Sr]. split; [exact Sa|]. split; [exact Sr|]. split; [exact I9|].
  change (k_a w9) with (get w9 SA). change (k_b w9) with (get w9 SB).
  change (k_ab w9) with (bag w9 SA). change (k_ba w9) with (bag w9 SB).
  split; [exact HsubA9|]. split; [exact HsubB9|].
  split; [exact (queue_empty_del w9 SA oa8 I9 Hoa9 (Q8 Qa7))|].
  split; [exact (queue_empty_del w9 SB ob9 I9 Hob9 Qb9)|].
  split; [exact Hoa9|]. split; [exact Hob9|]. split; [exact (Q8 Qa7)|]. split; [exact Qb9|].
  split; [exact P8|]. split; [rewrite Pk9; exact P6|]. split; [exact R8|]. split; [exact Rb9|].
  split; [exact B9|exact O9].
Qed.

(* ---------- the shape of the schedule ---------- *)
Definition is_tick (l : llabel) : bool := match l with LApp _ OpTick => true | _ => false end.
Definition ticks (ls : list llabel) : nat := length (filter is_tick ls).

Lemma ticks_app a b : ticks (a ++ b) = (ticks a + ticks b)%nat.
Proof. unfold ticks. rewrite filter_app, app_length. reflexivity. Qed.
Lemma ticks_drops s n : ticks (drops s n) = 0%nat.
Proof. induction n as [|n IH]; [reflexivity|exact IH]. Qed.
Lemma ticks_drain s n : ticks (drain s n) = 0%nat.
Proof. induction n as [|n IH]; [reflexivity|exact IH]. Qed.

Lemma ticks_heal na nb dt1 n1 dt2 n2 dt3 n3 : ticks (heal_schedule na nb dt1 n1 dt2 n2 dt3 n3) = 3%nat.
Proof.
  unfold heal_schedule. rewrite !ticks_app, !ticks_drops, !ticks_drain. reflexivity.
Qed.

(* the applications only tick and flush, time does not run backwards *)
Definition heal_label (l : llabel) : Prop :=
  match l with
  | LApp _ OpTick | LApp _ OpFlush => True
  | LApp _ _ => False
  | LTime dt => 0 <= dt
  | LDeliver _ _ | LDrop _ _ => True
  end.

Lemma heal_labels na nb dt1 n1 dt2 n2 dt3 n3 : 0 <= dt1 -> 0 <= dt2 -> 0 <= dt3 ->
  Forall heal_label (heal_schedule na nb dt1 n1 dt2 n2 dt3 n3).
Proof.
  intros H1 H2 H3.
  assert (Hd : forall s n, Forall heal_label (drops s n)).
  { intros s n. induction n as [|n IH]; [constructor|]. constructor; [exact I|exact IH]. }
  assert (Hr : forall s n, Forall heal_label (drain s n)).
  { intros s n. induction n as [|n IH]; [constructor|]. constructor; [exact I|]. constructor; [exact I|exact IH]. }
  assert (Hs : forall s dt, 0 <= dt -> Forall heal_label (speak s dt)).
  { intros s dt H. repeat constructor. exact H. }
  unfold heal_schedule. repeat (apply Forall_app; split); auto. repeat constructor.
Qed.

(* network losses happen only in the prefix; afterwards a datagram leaves the network only by being
   delivered: every LDrop of the second part directly follows the LDeliver of the same datagram *)
Fixpoint orderly (ls : list llabel) : Prop :=
  match ls with
  | [] => True
  | LDeliver s O :: LDrop s' O :: r => s = s' /\ orderly r
  | LDeliver _ _ :: _ => False
  | LDrop _ _ :: _ => False
  | _ :: r => orderly r
  end.

Lemma orderly_app_aux n : forall a b, (length a <= n)%nat -> orderly a -> orderly b -> orderly (a ++ b).
Proof.
  induction n as [|n IH]; intros a b Hl Ha Hb; (destruct a as [|l a]; [exact Hb|]); cbn [length] in Hl; [lia|].
  destruct l as [s o|dt|s k|s k]; cbn [app orderly] in *.
  - apply IH; [lia|exact Ha|exact Hb].
  - apply IH; [lia|exact Ha|exact Hb].
  - destruct k; [|contradiction]. destruct a as [|l2 a]; [contradiction|].
    destruct l2 as [s2 o2|dt2|s2 k2|s2 k2]; try contradiction. destruct k2; [|contradiction].
    destruct Ha as [E Ha]. cbn [app length] in *. split; [exact E|]. apply IH; [lia|exact Ha|exact Hb].
  - contradiction.
Qed.

Lemma orderly_app a b : orderly a -> orderly b -> orderly (a ++ b).
Proof. apply (orderly_app_aux (length a)). lia. Qed.

Lemma orderly_drain s n : orderly (drain s n).
Proof. induction n as [|n IH]; [exact I|]. cbn. split; [reflexivity|exact IH]. Qed.

Lemma heal_schedule_shape na nb dt1 n1 dt2 n2 dt3 n3 :
  exists post, heal_schedule na nb dt1 n1 dt2 n2 dt3 n3 = [LApp SA OpFlush] ++ drops SA na ++ drops SB nb ++ post /\
               orderly post.
Proof.
  eexists. split; [reflexivity|].
  repeat (apply orderly_app; [first [apply orderly_drain | exact I]|]). apply orderly_drain.
Qed.

(* Arithmetic of the 10-bit sequence space and the shape lemmas for queues and packets. *)
From LibTw2 Require Import Base.Res Model.PacketTypes Model.ConnCore Model.LinkGhost.
From Coq Require Import ZArith Lia Bool List.
Open Scope Z_scope.
Ltac Zify.zify_post_hook ::= Z.div_mod_to_equations.

Lemma seqof_range i : 0 <= seqof i < SEQ_MOD.
Proof. unfold seqof, SEQ_MOD. apply Z.mod_pos_bound. lia. Qed.

Lemma seq_next_seqof n : seq_next (seqof n) = seqof (n + 1).
Proof. unfold seq_next, seqof, SEQ_MOD. lia. Qed.

(* no aliasing inside a window shorter than the sequence space *)
Lemma seqof_inj i j : seqof i = seqof j -> -1024 < i - j < 1024 -> i = j.
Proof. unfold seqof, SEQ_MOD. lia. Qed.

Lemma seq_compare_current x y : seq_compare x y = Current <-> x = y.
Proof.
  unfold seq_compare. destruct (x <? y) eqn:E1.
  - destruct (y - x <? SEQ_MOD / 2); split; intros H; try discriminate; lia.
  - destruct (y <? x) eqn:E2.
    + destruct (SEQ_MOD / 2 <? x - y); split; intros H; try discriminate; lia.
    + split; intros; [lia|reflexivity].
Qed.

Lemma seq_update_hit d i : seqof i = seqof (d + 1) -> seq_update (seqof d) (seqof i) = (seqof (d + 1), Current).
Proof.
  intros H. unfold seq_update. rewrite seq_next_seqof, H.
  assert (Hc : seq_compare (seqof (d + 1)) (seqof (d + 1)) = Current) by (apply seq_compare_current; reflexivity).
  rewrite Hc. reflexivity.
Qed.

Lemma seq_update_miss d s : s <> seqof (d + 1) ->
  exists o, seq_update (seqof d) s = (seqof d, o) /\ o <> Current.
Proof.
  intros H. unfold seq_update. rewrite seq_next_seqof.
  destruct (seq_compare (seqof (d + 1)) s) eqn:E.
  - eexists. split; [reflexivity|discriminate].
  - apply seq_compare_current in E. symmetry in E. contradiction.
  - eexists. split; [reflexivity|discriminate].
Qed.

(* the index a sequence number denotes inside the window (fn - 1024, fn] *)
Lemma idx_of_spec fn s i : fn - 1024 < i <= fn -> s = seqof i -> idx_of fn s = i.
Proof. unfold idx_of, seqof, SEQ_MOD. intros H ->. lia. Qed.

(* ---------- histories ---------- *)
Lemma zlen_app {A} (a b : list A) : zlen (a ++ b) = zlen a + zlen b.
Proof. unfold zlen. rewrite app_length. lia. Qed.
Lemma zlen_nonneg {A} (l : list A) : 0 <= zlen l.
Proof. unfold zlen. lia. Qed.
Lemma zlen_cons {A} (x : A) l : zlen (x :: l) = zlen l + 1.
Proof. unfold zlen. cbn [length]. lia. Qed.

Lemma subn_app_old sub x i : 1 <= i <= zlen sub -> subn (sub ++ x) i = subn sub i.
Proof.
  unfold subn, zlen. intros H. apply app_nth1. lia.
Qed.
Lemma subn_app_new sub x : subn (sub ++ [x]) (zlen sub + 1) = x.
Proof.
  unfold subn, zlen. replace (Z.to_nat (Z.of_nat (length sub) + 1 - 1)) with (length sub) by lia.
  rewrite app_nth2 by lia. rewrite Nat.sub_diag. reflexivity.
Qed.

Lemma firstn_snoc sub d : 0 <= d < zlen sub ->
  firstn (Z.to_nat d) sub ++ [subn sub (d + 1)] = firstn (Z.to_nat (d + 1)) sub.
Proof.
  unfold subn, zlen. intros H. replace (d + 1 - 1) with d by lia.
  replace (Z.to_nat (d + 1)) with (S (Z.to_nat d)) by lia.
  remember (Z.to_nat d) as k eqn:Ek. assert (Hk : (k < length sub)%nat) by lia. clear -Hk.
  revert k Hk. induction sub as [|x sub IH]; intros k Hk; [cbn in Hk; lia|].
  destruct k; cbn [firstn nth app]; [destruct sub; reflexivity|].
  f_equal. apply IH. cbn in Hk. lia.
Qed.

(* ---------- the resend queue ---------- *)
Lemma queue_is_len q : forall a n sub, queue_is q a n sub -> zlen q = n - a.
Proof.
  induction q as [|c q IH]; intros a n sub H; cbn [queue_is] in H.
  - subst. unfold zlen. cbn. lia.
  - destruct H as [_ [_ [_ H]]]. apply IH in H. rewrite zlen_cons. lia.
Qed.

Lemma queue_is_ext q : forall a n sub x, 0 <= a -> n <= zlen sub -> queue_is q a n sub -> queue_is q a n (sub ++ x).
Proof.
  induction q as [|c q IH]; intros a n sub x Ha Hn H; cbn [queue_is] in *; [exact H|].
  destruct H as [H1 [H2 [H3 H4]]]. repeat split; try assumption.
  - rewrite subn_app_old by lia. exact H3.
  - apply IH; try assumption; lia.
Qed.

Lemma queue_is_push q a sub x now : 0 <= a -> queue_is q a (zlen sub) sub ->
  queue_is ({| rc_next := now; rc_seq := seqof (zlen sub + 1); rc_data := x |} :: q) a (zlen sub + 1) (sub ++ [x]).
Proof.
  intros Ha H. cbn [queue_is rc_seq rc_data]. pose proof (queue_is_len _ _ _ _ H). pose proof (zlen_nonneg q).
  repeat split; try lia.
  - symmetry. apply subn_app_new.
  - replace (zlen sub + 1 - 1) with (zlen sub) by lia. apply queue_is_ext; try assumption; lia.
Qed.

Lemma queue_is_restart now q : forall a n sub, queue_is q a n sub -> queue_is (restart_timers now q) a n sub.
Proof.
  induction q as [|c q IH]; intros a n sub H; cbn [restart_timers map queue_is] in *; [exact H|].
  destruct H as [H1 [H2 [H3 H4]]]. cbn [rc_seq rc_data]. repeat split; try assumption. apply IH, H4.
Qed.

(* acknowledging chunk number c: everything up to c leaves the queue; an ack that is not in the
   window (already acknowledged) changes nothing *)
Lemma take_until_ack q : forall a n sub c,
  queue_is q a n sub -> n - a < 512 -> 0 <= c <= n -> n - c < 1024 ->
  (a < c -> exists q', take_until_seq q (seqof c) = Some q' /\ queue_is q' c n sub) /\
  (c <= a -> take_until_seq q (seqof c) = None).
Proof.
  induction q as [|e q IH]; intros a n sub c H Hw Hc Hd; cbn [queue_is take_until_seq] in *.
  - subst. split; [lia|reflexivity].
  - destruct H as [H1 [H2 [H3 H4]]]. rewrite H2.
    destruct (seqof n =? seqof c) eqn:E.
    + assert (n = c) by (apply seqof_inj; lia). subst c. split; [|lia].
      intros _. exists []. split; [reflexivity|]. cbn. reflexivity.
    + assert (Hne : n <> c) by (intros ->; lia).
      destruct (IH a (n - 1) sub c H4) as [IH1 IH2]; try lia.
      split.
      * intros Hac. destruct (IH1 Hac) as [q' [Hq Hq']]. rewrite Hq. eexists. split; [reflexivity|].
        cbn [queue_is]. repeat split; try assumption; lia.
      * intros Hca. rewrite (IH2 Hca). reflexivity.
Qed.

(* the queue read from the back: chunks a+1, a+2, ..., n *)
Lemma queue_is_rev q : forall a n sub, queue_is q a n sub ->
  forall k c, nth_error (rev q) k = Some c ->
  rc_seq c = seqof (a + 1 + Z.of_nat k) /\ rc_data c = subn sub (a + 1 + Z.of_nat k) /\ a + 1 + Z.of_nat k <= n.
Proof.
  induction q as [|e q IH]; intros a n sub H k c Hk; cbn [rev] in Hk.
  - destruct k; discriminate.
  - cbn [queue_is] in H. destruct H as [H1 [H2 [H3 H4]]].
    pose proof (queue_is_len _ _ _ _ H4) as Hl. unfold zlen in Hl.
    destruct (Nat.lt_ge_cases k (length (rev q))) as [Hlt|Hge].
    + rewrite nth_error_app1 in Hk by exact Hlt. destruct (IH _ _ _ H4 k c Hk) as [A [B C]].
      repeat split; try assumption; lia.
    + rewrite nth_error_app2 in Hk by exact Hge. rewrite rev_length in *.
      destruct (k - length q)%nat eqn:Ek; [|destruct n0; discriminate].
      cbn in Hk. injection Hk as <-. assert (Z.of_nat k = n - 1 - a) by lia.
      replace (a + 1 + Z.of_nat k) with n by lia. repeat split; try assumption; lia.
Qed.

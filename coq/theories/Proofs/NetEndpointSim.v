(* C20: every call of the endpoint is, for each address, one step (or a stutter) of that
   address's isolated slot; by induction, the projection of any history. *)
From LibTw2 Require Import Base.Res Model.PacketTypes Model.ConnCore Model.Conn6 Model.NetEndpoint
  Proofs.ConnCoreInv Proofs.Conn6Inv Proofs.NetEndpointSpec.
From Coq Require Import ZArith Lia Bool List Permutation.
Open Scope Z_scope.

(* ---------- composing table updates ---------- *)
Lemma tab_upd_refl ps a0 : tab_ok ps -> tab_upd ps ps a0 (view_tab ps a0).
Proof. intros H. split; [exact H|]. split; [reflexivity|]. intros; reflexivity. Qed.

Lemma tab_upd_trans ps ps1 ps2 a0 s1 s2 :
  tab_upd ps ps1 a0 s1 -> tab_upd ps1 ps2 a0 s2 -> tab_upd ps ps2 a0 s2.
Proof.
  intros [_ [_ H1]] [Hok [Hv H2]]. split; [exact Hok|]. split; [exact Hv|].
  intros a Hne. rewrite (H2 a Hne). apply H1, Hne.
Qed.

Lemma view_of_get ps pid p : tab_ok ps -> get_peer ps pid = Some p -> view_tab ps (p_addr p) = Some (p_conn p, p_token p).
Proof. intros [_ Ha] Hg. apply (view_tab_In ps pid p Ha), get_peer_In, Hg. Qed.

Lemma new_peer_loop_vacant fuel : forall ps next pid next',
  new_peer_loop fuel ps next = Ok (pid, next') -> get_peer ps pid = None.
Proof.
  induction fuel as [|f IH]; intros ps next pid next'; cbn [new_peer_loop]; [discriminate|].
  destruct (get_peer ps next) eqn:E.
  - apply IH.
  - intros H. injection H as <- _. exact E.
Qed.

Lemma new_peer_inv n a tok n' pid : new_peer n a tok = Ok (n', pid) ->
  get_peer (n_peers n) pid = None /\ n_peers n' = n_peers n ++ [(pid, peer_new a tok)] /\ n_accept n' = n_accept n.
Proof.
  unfold new_peer. destruct (new_peer_loop (S (length (n_peers n))) (n_peers n) (n_next n)) as [[q nx]| | |] eqn:E;
    cbn [bind]; try discriminate.
  intros H. injection H as <- <-. split; [eapply new_peer_loop_vacant, E|]. split; reflexivity.
Qed.

Lemma remove_peer_inv n pid n' : remove_peer n pid = Ok n' ->
  exists p ps', get_peer (n_peers n) pid = Some p /\ swap_remove (n_peers n) pid = Some ps' /\ n' = with_peers n ps'.
Proof.
  unfold remove_peer. destruct (swap_remove (n_peers n) pid) as [ps'|] eqn:E; [|discriminate].
  intros H. injection H as <-. destruct (get_peer (n_peers n) pid) as [p|] eqn:Eg.
  - exists p, ps'. repeat split.
  - rewrite (swap_remove_None _ _ Eg) in E. discriminate.
Qed.

Lemma peer_call_inv n e pid p o o1 : peer_call n e pid p o = Ok o1 ->
  exists out, step (p_conn p) e o = Ok out /\ o1 = nmk (with_peers n (set_conn (n_peers n) pid (out_conn out)))
      (to_addr (p_addr p) (out_sent out)) (conn_events (p_addr p) pid (out_events out))
      (conn_warns (p_addr p) pid (out_warns out)) (out_res out) None.
Proof.
  unfold peer_call. destruct (step (p_conn p) e o) as [out| | |]; cbn [bind]; try discriminate.
  intros H. injection H as <-. exists out. split; reflexivity.
Qed.

(* ---------- what one step must show, per address ---------- *)
Definition sim_at (n : net) (e : env) (o : nop) (out : nout) (a : addr) : Prop :=
  match proj_op n a o with
  | Some ao => exists aout, astep (n_accept n) (view n a) e ao = Ok aout /\
                 ao_slot aout = view (no_net out) a /\ ao_sent aout = sent_to a (no_sent out) /\
                 ao_events aout = events_of a (no_events out) /\ ao_warns aout = warns_of a (no_warns out) /\
                 ao_res aout = no_res out
  | None => view (no_net out) a = view n a /\ sent_to a (no_sent out) = [] /\
            events_of a (no_events out) = [] /\ warns_of a (no_warns out) = []
  end.

(* a call that concerns exactly one address *)
Lemma conclude n e o out a0 ao aout :
  (forall a, proj_op n a o = if a0 =? a then Some ao else None) ->
  astep (n_accept n) (view n a0) e ao = Ok aout ->
  tab_upd (n_peers n) (n_peers (no_net out)) a0 (ao_slot aout) ->
  sent_to a0 (no_sent out) = ao_sent aout -> (forall a, a0 <> a -> sent_to a (no_sent out) = []) ->
  events_of a0 (no_events out) = ao_events aout -> (forall a, a0 <> a -> events_of a (no_events out) = []) ->
  warns_of a0 (no_warns out) = ao_warns aout -> (forall a, a0 <> a -> warns_of a (no_warns out) = []) ->
  ao_res aout = no_res out ->
  tab_ok (n_peers (no_net out)) /\ forall a, sim_at n e o out a.
Proof.
  intros Hp Hs [Hok [Hv Ho]] S1 S2 E1 E2 W1 W2 R. split; [exact Hok|].
  intros a. unfold sim_at. rewrite Hp. destruct (a0 =? a) eqn:E.
  - apply Z.eqb_eq in E. subst a. exists aout. split; [exact Hs|]. unfold view at 1. rewrite Hv.
    repeat split; try (symmetry; assumption); assumption.
  - apply Z.eqb_neq in E. unfold view. split; [apply Ho; congruence|]. split; [apply S2, E|]. split; [apply E2, E|apply W2, E].
Qed.

Lemma pid_op_eq n pid p ao : get_peer (n_peers n) pid = Some p ->
  forall a, pid_op n a pid ao = if p_addr p =? a then Some ao else None.
Proof. intros Hg a. unfold pid_op. rewrite Hg. reflexivity. Qed.

Lemma one_event_same a pid k : events_of a [{| ne_addr := a; ne_pid := pid; ne_kind := k |}] = [k].
Proof. unfold events_of. cbn [filter ne_addr]. rewrite Z.eqb_refl. reflexivity. Qed.
Lemma one_event_other a b pid k : b <> a -> events_of a [{| ne_addr := b; ne_pid := pid; ne_kind := k |}] = [].
Proof. intros H. unfold events_of. cbn [filter ne_addr]. replace (b =? a) with false by (symmetry; apply Z.eqb_neq; exact H). reflexivity. Qed.
Lemma one_warn_same a w : warns_of a [NWConnless a w] = [(false, w)].
Proof. unfold warns_of. cbn [filter nwarn_addr]. rewrite Z.eqb_refl. reflexivity. Qed.
Lemma one_warn_other a b w : b <> a -> warns_of a [NWConnless b w] = [].
Proof. intros H. unfold warns_of. cbn [filter nwarn_addr]. replace (b =? a) with false by (symmetry; apply Z.eqb_neq; exact H). reflexivity. Qed.
Lemma one_sent_same a d : sent_to a [(a, d)] = [d].
Proof. unfold sent_to. cbn [filter fst]. rewrite Z.eqb_refl. reflexivity. Qed.
Lemma one_sent_other a b d : b <> a -> sent_to a [(b, d)] = [].
Proof. intros H. unfold sent_to. cbn [filter fst]. replace (b =? a) with false by (symmetry; apply Z.eqb_neq; exact H). reflexivity. Qed.

(* ---------- the stateless front door ---------- *)
Ltac nothing Hrefl :=
  split; [exact Hrefl|]; split; [reflexivity|];
  repeat (split; [first [reflexivity | intros; reflexivity]|]); reflexivity.
Lemma stateless_sim n a0 r known out :
  tab_ok (n_peers n) ->
  known = (match view n a0 with Some _ => true | None => false end) ->
  feed_stateless n a0 known r = Ok out ->
  exists aout, a_stateless (n_accept n) (view n a0) r = Ok aout /\
    tab_upd (n_peers n) (n_peers (no_net out)) a0 (ao_slot aout) /\ n_accept (no_net out) = n_accept n /\
    sent_to a0 (no_sent out) = ao_sent aout /\ (forall a, a0 <> a -> sent_to a (no_sent out) = []) /\
    events_of a0 (no_events out) = ao_events aout /\ (forall a, a0 <> a -> events_of a (no_events out) = []) /\
    warns_of a0 (no_warns out) = ao_warns aout /\ (forall a, a0 <> a -> warns_of a (no_warns out) = []) /\
    ao_res aout = no_res out.
Proof.
  intros Hok Hk. unfold feed_stateless, a_stateless.
  assert (Hrefl : tab_upd (n_peers n) (n_peers n) a0 (view n a0)) by (apply tab_upd_refl, Hok).
  destruct (r None) as [d|].
  2:{ intros H. injection H as <-. eexists. split; [reflexivity|]. cbn [no_net no_sent no_events no_warns no_res nmk ao_slot ao_sent ao_events ao_warns ao_res amk]. nothing Hrefl. }
  destruct d as [t1 t2 payload|tok ack ctl|tok ack rr nc cs].
  - intros H. injection H as <-. eexists. split; [reflexivity|]. cbn [no_net no_sent no_events no_warns no_res nmk ao_slot ao_sent ao_events ao_warns ao_res amk].
    split; [exact Hrefl|]. split; [reflexivity|]. split; [reflexivity|]. split; [reflexivity|].
    split; [apply one_event_same|]. split; [intros a Ha; apply one_event_other, Ha|]. repeat split; reflexivity.
  - destruct ctl as [|resp| | |reason|resp];
      try (intros H; injection H as <-; eexists; split; [reflexivity|];
           cbn [no_net no_sent no_events no_warns no_res nmk ao_slot ao_sent ao_events ao_warns ao_res amk];
           split; [exact Hrefl|]; split; [reflexivity|]; split; [reflexivity|]; split; [reflexivity|];
           split; [reflexivity|]; split; [reflexivity|];
           split; [apply one_warn_same|]; split; [intros a Ha; apply one_warn_other, Ha|reflexivity]).
    (* Connect *)
    subst known. destruct (view n a0) as [sl|] eqn:Ev.
    + intros H. injection H as <-. eexists. split; [reflexivity|]. cbn [no_net no_sent no_events no_warns no_res nmk ao_slot ao_sent ao_events ao_warns ao_res amk]. nothing Hrefl.
    + destruct (n_accept n) eqn:Ea.
      * destruct (new_peer n a0 (match tok with Some _ => true | None => false end)) as [[n' pid]| | |] eqn:En;
          cbn [bind]; try discriminate.
        intros H. injection H as <-. destruct (new_peer_inv _ _ _ _ _ En) as [Hg [Hps Hacc]].
        eexists. split; [reflexivity|].
        cbn [no_net no_sent no_events no_warns no_res nmk ao_slot ao_sent ao_events ao_warns ao_res amk].
        split; [rewrite Hps; apply upd_new; [exact Hok|exact Ev|exact Hg]|].
        split; [congruence|]. split; [reflexivity|]. split; [reflexivity|].
        split; [apply one_event_same|]. split; [intros a Ha; apply one_event_other, Ha|]. repeat split; reflexivity.
      * intros H. injection H as <-. eexists. split; [reflexivity|].
        cbn [no_net no_sent no_events no_warns no_res nmk ao_slot ao_sent ao_events ao_warns ao_res amk].
        split; [exact Hrefl|]. split; [exact Ea|]. split; [reflexivity|]. split; [reflexivity|].
        split; [reflexivity|]. split; [reflexivity|].
        split; [apply one_warn_same|]. split; [intros a Ha; apply one_warn_other, Ha|reflexivity].
  - intros H. injection H as <-. eexists. split; [reflexivity|].
    cbn [no_net no_sent no_events no_warns no_res nmk ao_slot ao_sent ao_events ao_warns ao_res amk].
    split; [exact Hrefl|]. split; [reflexivity|]. split; [reflexivity|]. split; [reflexivity|].
    split; [reflexivity|]. split; [reflexivity|].
    split; [apply one_warn_same|]. split; [intros a Ha; apply one_warn_other, Ha|reflexivity].
Qed.

(* ---------- Net::tick ---------- *)
Lemma tick_all_sim e : forall ps ps' s, tab_ok ps -> tick_all e ps = Ok (ps', s) ->
  pids ps' = pids ps /\ addrs ps' = addrs ps /\
  forall a, match view_tab ps a with
            | Some (c, tok) => exists out, step c e OpTick = Ok out /\
                                 view_tab ps' a = Some (out_conn out, tok) /\ sent_to a s = out_sent out
            | None => view_tab ps' a = None /\ sent_to a s = []
            end.
Proof.
  induction ps as [|[pid p] r IH]; intros ps' s Hok; cbn [tick_all].
  - intros H. injection H as <- <-. repeat split.
  - destruct (step (p_conn p) e OpTick) as [out| | |] eqn:Es; cbn [bind]; try discriminate.
    destruct (tick_all e r) as [[r' s']| | |] eqn:Er; cbn [bind]; try discriminate.
    intros H. injection H as <- <-.
    destruct Hok as [Hp Ha]. cbn [pids addrs map fst snd] in Hp, Ha.
    inversion Hp as [|? ? Hnip Hp']; subst. inversion Ha as [|? ? Hnia Ha']; subst.
    destruct (IH r' s' (conj Hp' Ha') eq_refl) as [Hpe [Hae Hv]].
    split; [cbn [pids map fst]; f_equal; exact Hpe|]. split; [cbn [addrs map snd with_conn p_addr]; f_equal; exact Hae|].
    intros a. unfold view_tab. cbn [pid_from_addr with_conn p_addr p_conn p_token].
    rewrite sent_to_app. destruct (p_addr p =? a) eqn:E.
    + apply Z.eqb_eq in E. subst a. exists out. split; [exact Es|]. split; [reflexivity|].
      rewrite sent_to_same.
      assert (Hn : view_tab r (p_addr p) = None) by (apply view_tab_None; exact Hnia).
      specialize (Hv (p_addr p)). rewrite Hn in Hv. destruct Hv as [_ Hs]. rewrite Hs. apply app_nil_r.
    + apply Z.eqb_neq in E. rewrite (sent_to_other a (p_addr p) _ E). cbn [app]. exact (Hv a).
Qed.

(* ---------- one call ---------- *)
Theorem step_sim n e o out :
  tab_ok (n_peers n) -> connect_ok n o -> net_step n e o = Ok out ->
  tab_ok (n_peers (no_net out)) /\ n_accept (no_net out) = n_accept n /\ forall a, sim_at n e o out a.
Proof.
  intros Hok Hc H.
  enough (n_accept (no_net out) = n_accept n /\ (tab_ok (n_peers (no_net out)) /\ forall a, sim_at n e o out a)) by tauto.
  destruct o as [a0 r|a0|pid|pid reason|pid reason|pid|pid d vital|pid|a0 d|]; unfold net_step in H.
  - (* feed *)
    unfold net_feed in H. destruct (pid_from_addr (n_peers n) a0) as [[pid p]|] eqn:Ef.
    + destruct (pid_from_addr_In _ _ _ _ Ef) as [Hin Hpa]. subst a0.
      assert (Hg : get_peer (n_peers n) pid = Some p) by (apply In_get_peer; [exact (proj1 Hok)|exact Hin]).
      assert (Hview : view n (p_addr p) = Some (p_conn p, p_token p)) by (unfold view, view_tab; rewrite Ef; reflexivity).
      destruct (is_unconnected (p_conn p)) eqn:Eu.
      * destruct (stateless_sim n (p_addr p) r true out Hok) as [aout [Hs [Hu [Hacc [S1 [S2 [E1 [E2 [W1 [W2 R]]]]]]]]]];
          [rewrite Hview; reflexivity|exact H|].
        split; [exact Hacc|].
        apply (conclude n e (NFeed (p_addr p) r) out (p_addr p) (AFeed r) aout); try assumption.
        -- intros a. reflexivity.
        -- unfold astep. rewrite Hview in Hs |- *. rewrite Eu. exact Hs.
      * unfold feed_peer in H. destruct (conn_feed_raw (p_conn p) e r) as [o6| | |] eqn:Ec; cbn [bind] in H; try discriminate.
        pose proof (upd_set_conn (n_peers n) pid p (out_conn o6) Hok Hg) as Hu1.
        assert (Hast : astep (n_accept n) (view n (p_addr p)) e (AFeed r) =
                       Ok (of_conn (p_token p) o6 (existsb is_disconnect (out_events o6)) ROk)).
        { unfold astep. rewrite Hview, Eu, Ec. reflexivity. }
        destruct (existsb is_disconnect (out_events o6)) eqn:Ed.
        -- destruct (remove_peer (with_peers n (set_conn (n_peers n) pid (out_conn o6))) pid) as [n2| | |] eqn:Er;
             cbn [bind] in H; try discriminate.
           injection H as <-. destruct (remove_peer_inv _ _ _ Er) as [p1 [ps2 [Hg1 [Hs2 ->]]]].
           cbn [with_peers n_peers] in Hg1, Hs2.
           rewrite (get_peer_set_conn _ _ _ _ Hg) in Hg1. injection Hg1 as <-.
           destruct (upd_remove _ pid _ (proj1 Hu1) (get_peer_set_conn _ _ (out_conn o6) _ Hg)) as [ps2' [Hs2' [Hu2 _]]].
           rewrite Hs2 in Hs2'. injection Hs2' as <-. cbn [with_conn p_addr] in Hu2.
           split; [reflexivity|].
           apply (conclude n e (NFeed (p_addr p) r) _ (p_addr p) (AFeed r) _ (fun a => eq_refl) Hast);
             cbn [no_net no_sent no_events no_warns no_res nmk with_peers n_peers of_conn ao_slot ao_sent ao_events ao_warns ao_res amk].
           ++ eapply tab_upd_trans; [exact Hu1|exact Hu2].
           ++ apply sent_to_same.
           ++ intros a Ha. apply sent_to_other, Ha.
           ++ apply events_of_same.
           ++ intros a Ha. apply events_of_other, Ha.
           ++ apply warns_of_same.
           ++ intros a Ha. apply warns_of_other, Ha.
           ++ reflexivity.
        -- cbn [bind] in H. injection H as <-. split; [reflexivity|].
           apply (conclude n e (NFeed (p_addr p) r) _ (p_addr p) (AFeed r) _ (fun a => eq_refl) Hast);
             cbn [no_net no_sent no_events no_warns no_res nmk with_peers n_peers of_conn ao_slot ao_sent ao_events ao_warns ao_res amk].
           ++ exact Hu1.
           ++ apply sent_to_same.
           ++ intros a Ha. apply sent_to_other, Ha.
           ++ apply events_of_same.
           ++ intros a Ha. apply events_of_other, Ha.
           ++ apply warns_of_same.
           ++ intros a Ha. apply warns_of_other, Ha.
           ++ reflexivity.
    + assert (Hview : view n a0 = None) by (unfold view, view_tab; rewrite Ef; reflexivity).
      destruct (stateless_sim n a0 r false out Hok) as [aout [Hs [Hu [Hacc [S1 [S2 [E1 [E2 [W1 [W2 R]]]]]]]]]];
        [rewrite Hview; reflexivity|exact H|].
      split; [exact Hacc|].
      apply (conclude n e (NFeed a0 r) out a0 (AFeed r) aout); try assumption.
      * intros a. reflexivity.
      * unfold astep. rewrite Hview in Hs |- *. exact Hs.
  - (* connect *)
    cbn [connect_ok] in Hc.
    destruct (new_peer n a0 false) as [[n1 pid]| | |] eqn:En; cbn [bind] in H; try discriminate.
    destruct (step conn6_new e OpConnect) as [o6| | |] eqn:Es; cbn [bind] in H; try discriminate.
    injection H as <-. destruct (new_peer_inv _ _ _ _ _ En) as [Hg [Hps Hacc]].
    split; [exact Hacc|].
    pose proof (upd_new (n_peers n) pid a0 false Hok Hc Hg) as Hu1. rewrite <- Hps in Hu1.
    assert (Hg1 : get_peer (n_peers n1) pid = Some (peer_new a0 false)).
    { rewrite Hps, get_peer_app, Hg, Z.eqb_refl. reflexivity. }
    pose proof (upd_set_conn (n_peers n1) pid _ (out_conn o6) (proj1 Hu1) Hg1) as Hu2. cbn [peer_new p_addr p_token] in Hu2.
    assert (Hast : astep (n_accept n) (view n a0) e AConnect = Ok (amk (Some (out_conn o6, false)) (out_sent o6) [] [] ROk)).
    { unfold astep. rewrite Hc, Es. reflexivity. }
    apply (conclude n e (NConnect a0) _ a0 AConnect _ (fun a => eq_refl) Hast);
      cbn [no_net no_sent no_events no_warns no_res nmk with_peers n_peers ao_slot ao_sent ao_events ao_warns ao_res amk].
    + eapply tab_upd_trans; [exact Hu1|exact Hu2].
    + apply sent_to_same.
    + intros a Ha. apply sent_to_other, Ha.
    + reflexivity.
    + reflexivity.
    + reflexivity.
    + reflexivity.
    + reflexivity.
  - (* accept *)
    destruct (get_peer (n_peers n) pid) as [p|] eqn:Hg; [|discriminate].
    destruct (is_unconnected (p_conn p)) eqn:Eu; cbn [negb] in H; [|discriminate].
    destruct (peer_call n e pid p (OpFeed (canonical_connect (p_token p)))) as [o1| | |] eqn:Ep; cbn [bind] in H; try discriminate.
    destruct (peer_call_inv _ _ _ _ _ _ Ep) as [o6 [Es ->]].
    cbn [no_warns no_events nmk] in H.
    destruct (out_warns o6) as [|w ws] eqn:Ew; cbn [conn_warns map] in H; [|discriminate].
    destruct (out_events o6) as [|ev evs] eqn:Ee; cbn [conn_events map] in H; [|discriminate].
    injection H as <-. split; [reflexivity|].
    pose proof (view_of_get _ _ _ Hok Hg) as Hview.
    assert (Hast : astep (n_accept n) (view n (p_addr p)) e AAccept = Ok (of_conn (p_token p) o6 false (out_res o6))).
    { unfold astep, view. rewrite Hview, Eu. cbn [negb]. rewrite Es. cbn [bind]. rewrite Ew, Ee. reflexivity. }
    apply (conclude n e (NAccept pid) _ (p_addr p) AAccept _ (pid_op_eq n pid p AAccept Hg) Hast);
      cbn [no_net no_sent no_events no_warns no_res nmk with_peers n_peers of_conn ao_slot ao_sent ao_events ao_warns ao_res amk].
    + apply upd_set_conn; assumption.
    + apply sent_to_same.
    + intros a Ha. apply sent_to_other, Ha.
    + rewrite Ee. reflexivity.
    + reflexivity.
    + rewrite Ew. reflexivity.
    + reflexivity.
    + reflexivity.
  - (* reject *)
    destruct (get_peer (n_peers n) pid) as [p|] eqn:Hg; [|discriminate].
    destruct (is_unconnected (p_conn p)) eqn:Eu; cbn [negb] in H; [|discriminate].
    destruct (existsb (fun b => b =? 0) reason) eqn:En; [discriminate|].
    destruct (MAX_PACKETSIZE <? control_size params6 None (Close reason)) eqn:El; [discriminate|].
    destruct (remove_peer n pid) as [n2| | |] eqn:Er; cbn [bind] in H; try discriminate.
    injection H as <-. destruct (remove_peer_inv _ _ _ Er) as [p1 [ps2 [Hg1 [Hs2 ->]]]].
    split; [reflexivity|].
    destruct (upd_remove _ pid _ Hok Hg) as [ps2' [Hs2' [Hu2 _]]]. rewrite Hs2 in Hs2'. injection Hs2' as <-.
    pose proof (view_of_get _ _ _ Hok Hg) as Hview.
    assert (Hast : astep (n_accept n) (view n (p_addr p)) e (AReject reason) = Ok (amk None [DControl None 0 (Close reason)] [] [] ROk)).
    { unfold astep, view. rewrite Hview, Eu. cbn [negb]. rewrite En, El. reflexivity. }
    apply (conclude n e (NReject pid reason) _ (p_addr p) (AReject reason) _ (pid_op_eq n pid p _ Hg) Hast);
      cbn [no_net no_sent no_events no_warns no_res nmk with_peers n_peers ao_slot ao_sent ao_events ao_warns ao_res amk].
    + exact Hu2.
    + apply one_sent_same.
    + intros a Ha. apply one_sent_other, Ha.
    + reflexivity.
    + reflexivity.
    + reflexivity.
    + reflexivity.
    + reflexivity.
  - (* disconnect *)
    destruct (get_peer (n_peers n) pid) as [p|] eqn:Hg; [|discriminate].
    destruct (is_unconnected (p_conn p)) eqn:Eu; [discriminate|].
    destruct (peer_call n e pid p (OpDisconnect reason)) as [o1| | |] eqn:Ep; cbn [bind] in H; try discriminate.
    destruct (peer_call_inv _ _ _ _ _ _ Ep) as [o6 [Es ->]].
    cbn [no_net nmk] in H.
    destruct (remove_peer (with_peers n (set_conn (n_peers n) pid (out_conn o6))) pid) as [n2| | |] eqn:Er;
      cbn [bind] in H; try discriminate.
    injection H as <-. destruct (remove_peer_inv _ _ _ Er) as [p1 [ps2 [Hg1 [Hs2 ->]]]].
    cbn [with_peers n_peers] in Hg1, Hs2.
    pose proof (upd_set_conn (n_peers n) pid p (out_conn o6) Hok Hg) as Hu1.
    destruct (upd_remove _ pid _ (proj1 Hu1) (get_peer_set_conn _ _ (out_conn o6) _ Hg)) as [ps2' [Hs2' [Hu2 _]]].
    rewrite Hs2 in Hs2'. injection Hs2' as <-. cbn [with_conn p_addr] in Hu2.
    split; [reflexivity|].
    pose proof (view_of_get _ _ _ Hok Hg) as Hview.
    assert (Hast : astep (n_accept n) (view n (p_addr p)) e (ADisconnect reason) = Ok (amk None (out_sent o6) [] [] ROk)).
    { unfold astep, view. rewrite Hview, Eu, Es. reflexivity. }
    apply (conclude n e (NDisconnect pid reason) _ (p_addr p) (ADisconnect reason) _ (pid_op_eq n pid p _ Hg) Hast);
      cbn [no_net no_sent no_events no_warns no_res nmk with_peers n_peers ao_slot ao_sent ao_events ao_warns ao_res amk].
    + eapply tab_upd_trans; [exact Hu1|exact Hu2].
    + apply sent_to_same.
    + intros a Ha. apply sent_to_other, Ha.
    + reflexivity.
    + reflexivity.
    + reflexivity.
    + reflexivity.
    + reflexivity.
  - (* ignore *)
    destruct (remove_peer n pid) as [n2| | |] eqn:Er; cbn [bind] in H; try discriminate.
    injection H as <-. destruct (remove_peer_inv _ _ _ Er) as [p [ps2 [Hg [Hs2 ->]]]].
    split; [reflexivity|].
    destruct (upd_remove _ pid _ Hok Hg) as [ps2' [Hs2' [Hu2 _]]]. rewrite Hs2 in Hs2'. injection Hs2' as <-.
    pose proof (view_of_get _ _ _ Hok Hg) as Hview.
    assert (Hast : astep (n_accept n) (view n (p_addr p)) e AIgnore = Ok (amk None [] [] [] ROk)).
    { unfold astep, view. rewrite Hview. reflexivity. }
    apply (conclude n e (NIgnore pid) _ (p_addr p) AIgnore _ (pid_op_eq n pid p _ Hg) Hast);
      cbn [no_net no_sent no_events no_warns no_res nmk with_peers n_peers ao_slot ao_sent ao_events ao_warns ao_res amk];
      try reflexivity. exact Hu2.
  - (* send *)
    destruct (get_peer (n_peers n) pid) as [p|] eqn:Hg; [|discriminate].
    destruct (peer_call_inv _ _ _ _ _ _ H) as [o6 [Es ->]].
    split; [reflexivity|].
    pose proof (view_of_get _ _ _ Hok Hg) as Hview.
    assert (Hast : astep (n_accept n) (view n (p_addr p)) e (ASend d vital) = Ok (of_conn (p_token p) o6 false (out_res o6))).
    { unfold astep, view. rewrite Hview, Es. reflexivity. }
    apply (conclude n e (NSend pid d vital) _ (p_addr p) (ASend d vital) _ (pid_op_eq n pid p _ Hg) Hast);
      cbn [no_net no_sent no_events no_warns no_res nmk with_peers n_peers of_conn ao_slot ao_sent ao_events ao_warns ao_res amk].
    + apply upd_set_conn; assumption.
    + apply sent_to_same.
    + intros a Ha. apply sent_to_other, Ha.
    + apply events_of_same.
    + intros a Ha. apply events_of_other, Ha.
    + apply warns_of_same.
    + intros a Ha. apply warns_of_other, Ha.
    + reflexivity.
  - (* flush *)
    destruct (get_peer (n_peers n) pid) as [p|] eqn:Hg; [|discriminate].
    destruct (peer_call_inv _ _ _ _ _ _ H) as [o6 [Es ->]].
    split; [reflexivity|].
    pose proof (view_of_get _ _ _ Hok Hg) as Hview.
    assert (Hast : astep (n_accept n) (view n (p_addr p)) e AFlush = Ok (of_conn (p_token p) o6 false (out_res o6))).
    { unfold astep, view. rewrite Hview, Es. reflexivity. }
    apply (conclude n e (NFlush pid) _ (p_addr p) AFlush _ (pid_op_eq n pid p _ Hg) Hast);
      cbn [no_net no_sent no_events no_warns no_res nmk with_peers n_peers of_conn ao_slot ao_sent ao_events ao_warns ao_res amk].
    + apply upd_set_conn; assumption.
    + apply sent_to_same.
    + intros a Ha. apply sent_to_other, Ha.
    + apply events_of_same.
    + intros a Ha. apply events_of_other, Ha.
    + apply warns_of_same.
    + intros a Ha. apply warns_of_other, Ha.
    + reflexivity.
  - (* send_connless *)
    destruct (MAX_PAYLOAD <? Z.of_nat (length d)) eqn:El; injection H as <-; (split; [reflexivity|]).
    + assert (Hast : astep (n_accept n) (view n a0) e (ASendConnless d) = Ok (amk (view n a0) [] [] [] RTooLongData)).
      { unfold astep. rewrite El. reflexivity. }
      apply (conclude n e (NSendConnless a0 d) _ a0 (ASendConnless d) _ (fun a => eq_refl) Hast);
        cbn [no_net no_sent no_events no_warns no_res nmk ao_slot ao_sent ao_events ao_warns ao_res amk]; try reflexivity.
      apply tab_upd_refl, Hok.
    + assert (Hast : astep (n_accept n) (view n a0) e (ASendConnless d) = Ok (amk (view n a0) [DConnless None None d] [] [] ROk)).
      { unfold astep. rewrite El. reflexivity. }
      apply (conclude n e (NSendConnless a0 d) _ a0 (ASendConnless d) _ (fun a => eq_refl) Hast);
        cbn [no_net no_sent no_events no_warns no_res nmk ao_slot ao_sent ao_events ao_warns ao_res amk]; try reflexivity.
      * apply tab_upd_refl, Hok.
      * apply one_sent_same.
      * intros a Ha. apply one_sent_other, Ha.
  - (* tick *)
    destruct (tick_all e (n_peers n)) as [[ps' s]| | |] eqn:Et; cbn [bind] in H; try discriminate.
    injection H as <-. split; [reflexivity|].
    destruct (tick_all_sim e _ _ _ Hok Et) as [Hpe [Hae Hv]].
    split; [split; cbn [no_net nmk with_peers n_peers]; [rewrite Hpe|rewrite Hae]; apply Hok|].
    intros a. unfold sim_at. cbn [proj_op no_net no_sent no_events no_warns no_res nmk with_peers].
    specialize (Hv a). unfold view. cbn [n_peers]. unfold astep.
    destruct (view_tab (n_peers n) a) as [[c tok]|].
    + destruct Hv as [o6 [Es [Hv' Hs]]]. rewrite Es. cbn [bind]. eexists. split; [reflexivity|].
      cbn [ao_slot ao_sent ao_events ao_warns ao_res amk]. repeat split; try reflexivity; symmetry; assumption.
    + destruct Hv as [Hv' Hs]. eexists. split; [reflexivity|].
      cbn [ao_slot ao_sent ao_events ao_warns ao_res amk]. repeat split; try reflexivity; symmetry; assumption.
Qed.

(* ---------- every history ---------- *)
Theorem run_sim tr : forall n now n' now' recs a,
  tab_ok (n_peers n) -> one_peer_per_addr n now tr ->
  run_net n now tr = Ok (n', now', recs) ->
  tab_ok (n_peers n') /\ n_accept n' = n_accept n /\
  run_addr (n_accept n) (view n a) now (map (label_for a) recs) = Ok (view n' a, now', map (obs_for a) recs).
Proof.
  induction tr as [|l tr IH]; intros n now n' now' recs a Hok Hv H.
  - cbn [run_net] in H. injection H as <- <- <-. split; [exact Hok|]. split; reflexivity.
  - destruct l as [dt|rnd o]; cbn [run_net one_peer_per_addr] in H, Hv.
    + destruct (run_net n (now + dt) tr) as [[[n1 now1] recs1]| | |] eqn:Er; try discriminate.
      injection H as <- <- <-. destruct (IH _ _ _ _ _ a Hok Hv Er) as [Hok' [Hacc Hr]].
      split; [exact Hok'|]. split; [exact Hacc|].
      cbn [map label_for nr_label run_addr]. rewrite Hr. reflexivity.
    + destruct Hv as [Hc Hv].
      destruct (net_step n (mkenv now rnd) o) as [out| | |] eqn:Es; try discriminate.
      destruct (run_net (no_net out) now tr) as [[[n1 now1] recs1]| | |] eqn:Er; try discriminate.
      injection H as <- <- <-.
      destruct (step_sim n (mkenv now rnd) o out Hok Hc Es) as [Hok1 [Hacc1 Hsim]].
      destruct (IH _ _ _ _ _ a Hok1 Hv Er) as [Hok' [Hacc Hr]].
      split; [exact Hok'|]. split; [congruence|].
      cbn [map]. unfold label_for at 1, obs_for at 1. cbn [nr_label nr_pre nr_out nr_post].
      specialize (Hsim a). unfold sim_at in Hsim. rewrite Hacc1 in Hr.
      destruct (proj_op n a o) as [ao|].
      * destruct Hsim as [aout [Ha [Hsl [Hse [Hev [Hw Hre]]]]]].
        cbn [run_addr]. rewrite Ha, Hsl, Hr. rewrite <- Hse, <- Hev, <- Hw, <- Hre, <- Hsl. reflexivity.
      * destruct Hsim as [Hvw [Hse [Hev Hw]]].
        cbn [run_addr]. rewrite <- Hvw, Hr. rewrite Hse, Hev, Hw, Hvw. reflexivity.
Qed.

(* C18: what the three partial parsers (Info664Response, Info6ExResponse, Info6ExMoreResponse)
   hand to merge meets the per-part conditions of same_info, whatever the datagram:
   multi-part version, a part with an empty mask has no client, the main part of an extended
   info has mask 1, a `more` part has the single bit of its packet number (1..63), is not a
   main part and has the default header with its token. *)
From LibTw2 Require Import Base.Res Model.Varint Model.Packer Model.ServerBrowse
  Proofs.ServerBrowseTotal Proofs.ServerBrowseMerge.
From Coq Require Import ZArith Lia Bool List Arith.
Open Scope Z_scope.

(* take a `let*` chain that ended in Ok apart *)
Ltac split_pairs x :=
  lazymatch type of x with
  | prod _ _ => let a := fresh "v" in let b := fresh "v" in destruct x as [a b]; split_pairs a
  | _ => idtac
  end.
Ltac inv_bind H :=
  repeat match type of H with
  | bind ?m _ = Ok _ =>
    let x := fresh "x" in
    destruct m as [x|?|?|] eqn:?; cbn [bind] in H; try discriminate H; split_pairs x
  end.

Lemma shl1_inv site n b : shl1_u64 site n = Ok b -> 0 <= n < 64 /\ b = Z.shiftl 1 n.
Proof.
  unfold shl1_u64. destruct ((0 <=? n) && (n <? 64)) eqn:E; [|discriminate].
  intros H. injection H as <-. split; [lia|reflexivity].
Qed.

Lemma shiftl1_nonzero n : 0 <= n -> Z.shiftl 1 n <> 0.
Proof. intros Hn H. apply Z.shiftl_eq_0_iff in H; [discriminate|exact Hn]. Qed.

(* the mask bits of the client loop: none unless 64-player legacy, and then one per client kept *)
Lemma clients_loop_bits version ri : forall fuel j rest cs rv,
  clients_loop fuel version ri j rest = Ok (cs, rv) ->
  (siv_eqb version V664 = false -> rv = 0)
  /\ (siv_eqb version V664 = true -> cs <> [] -> rv <> 0).
Proof.
  induction fuel as [|fuel IH]; intros j rest cs rv H; [discriminate|].
  cbn [clients_loop] in H.
  destruct (u32_max <=? j); [discriminate|].
  destruct (read_str rest) as [[n r]|].
  2:{ injection H as <- <-. split; [reflexivity|]. intros _ K. contradiction K; reflexivity. }
  destruct version; cbn [has_extended_player_info has_full_client_flags siv_eqb] in H |- *;
    inv_bind H;
    try (destruct (MAX_CLIENTS_6_64 <=? j); [exact (IH _ _ _ _ H)|]; inv_bind H);
    injection H as <- <-;
    match goal with
    | E : clients_loop _ _ _ _ _ = Ok _ |- _ => destruct (IH _ _ _ _ E) as [I0 I1]
    end;
    (split; [intros K; try discriminate K; apply I0; reflexivity|intros K; try discriminate K]).
  intros _ Hz. apply Z.lor_eq_0_iff in Hz as [Hz _].
  match goal with E : shl1_u64 _ _ = Ok _ |- _ => apply shl1_inv in E as [Hr ->] end.
  exact (shiftl1_nonzero _ (proj1 Hr) Hz).
Qed.

Lemma parse_header_inv version ri token bs info off r :
  parse_header version ri token bs = Ok (info, off, r) ->
  i_version info = version /\ i_token info = token /\ i_clients info = [].
Proof.
  unfold parse_header. intros H.
  destruct version;
    cbn [has_hostname has_extended_map_info has_progression has_skill_level
         has_extended_player_info has_offset max_clients_of] in H;
    inv_bind H;
    repeat match type of H with
    | (if ?c then _ else _) = Ok _ => destruct c; try discriminate H
    | bind _ _ = Ok _ => inv_bind H
    end;
    injection H as <- _ _; cbn; auto.
Qed.

Definition more_hdr (token : Z) : sinfo :=
  {| i_version := V6Ex; i_token := token; i_ver := []; i_name := []; i_hostname := None; i_map := [];
     i_map_crc := None; i_map_size := None; i_game_type := []; i_flags := 0; i_progression := None;
     i_skill_level := None; i_num_players := 0; i_max_players := 0; i_num_clients := 0; i_max_clients := 0;
     i_clients := [] |}.

Theorem parsed_part_wf k bs p : is_partial_kind k = true -> parse_info k bs = Ok p ->
  is_multipart (ver p) = true /\ part_wf p = true
  /\ match k with
     | K664 => ver p = V664 /\ is_main p = false
     | K6Ex => ver p = V6Ex /\ p_received p = 1 /\ is_main p = true
     | K6ExMore => ver p = V6Ex /\ is_main p = false /\ hdr p = more_hdr (tok p)
                   /\ exists n, 1 <= n < 64 /\ p_received p = Z.shiftl 1 n
     | _ => True
     end.
Proof.
  intros Hk H. unfold parse_info in H. rewrite Hk in H.
  destruct (parse_server_info (ikind_reader k) (ikind_rsiv k) bs) as [p'| | |] eqn:E; cbn [bind] in H; try discriminate.
  injection H as ->. unfold parse_server_info in E.
  destruct k; try discriminate Hk; cbn [ikind_rsiv ikind_reader rsiv_version siv_eqb] in E; inv_bind E.
  - (* 64-player legacy *)
    injection E as <-. inv_bind Heqr0. injection Heqr0 as <- _ <- <-.
    match goal with H : parse_header _ _ _ _ = Ok _ |- _ => apply parse_header_inv in H as (Hv & Ht & Hc) end.
    match goal with H : clients_loop _ _ _ _ _ = Ok _ |- _ => destruct (clients_loop_bits _ _ _ _ _ _ _ H) as [_ Hb] end.
    unfold ver, part_wf, cl, is_main, ver. cbn [p_info p_received i_version i_clients set_clients].
    rewrite Hv. cbn [is_multipart siv_eqb andb]. rewrite ?Z.lor_0_l.
    split; [reflexivity|]. split; [|split; reflexivity].
    match goal with |- context [match ?l with [] => true | _ :: _ => false end] => destruct l as [|c l'] end;
      [apply orb_true_r|].
    specialize (Hb eq_refl ltac:(discriminate)). apply Z.eqb_neq in Hb. rewrite Hb. reflexivity.
  - (* extended, main part *)
    injection E as <-. inv_bind Heqr0. injection Heqr0 as <- <- <- <-.
    match goal with H : parse_header _ _ _ _ = Ok _ |- _ => apply parse_header_inv in H as (Hv & Ht & Hc) end.
    match goal with H : clients_loop _ _ _ _ _ = Ok _ |- _ => destruct (clients_loop_bits _ _ _ _ _ _ _ H) as [Hb _] end.
    match goal with H : shl1_u64 _ _ = Ok _ |- _ => apply shl1_inv in H as [_ ->] end.
    rewrite (Hb eq_refl).
    unfold ver, part_wf, cl, is_main, bit0, ver. cbn [p_info p_received i_version i_clients set_clients].
    rewrite Hv. cbn. auto.
  - (* extended, `more` part *)
    injection E as <-. inv_bind Heqr0.
    match type of Heqr0 with (if ?c then _ else _) = Ok _ => destruct c eqn:Ec; [discriminate Heqr0|] end.
    injection Heqr0 as <- <- <- <-.
    match goal with H : clients_loop _ _ _ _ _ = Ok _ |- _ => destruct (clients_loop_bits _ _ _ _ _ _ _ H) as [Hb _] end.
    match goal with H : shl1_u64 _ _ = Ok _ |- _ => apply shl1_inv in H as [Hr ->] end.
    rewrite (Hb eq_refl), Z.lor_0_r.
    match goal with |- context [Z.shiftl 1 ?n] => set (pn := n) in * end.
    assert (Hn : 1 <= pn < 64) by lia.
    assert (Hbit : Z.land (Z.shiftl 1 pn) 1 = 0).
    { apply Z.bits_inj. intros n. rewrite Z.land_spec, Z.bits_0.
      destruct (Z.eq_dec n 0) as [->|Hn0].
      - rewrite Z.shiftl_spec_low by lia. reflexivity.
      - replace (Z.testbit 1 n) with false; [apply andb_false_r|].
        symmetry. destruct (Z_lt_le_dec n 0); [apply Z.testbit_neg_r; lia|].
        apply (Z.bits_above_log2 1 n); cbn; lia. }
    unfold ver, part_wf, cl, is_main, bit0, ver, hdr, tok.
    cbn [p_info p_received i_version i_clients i_token set_clients is_multipart siv_eqb andb].
    rewrite Hbit. cbn [Z.eqb negb].
    split; [reflexivity|]. split.
    + pose proof (shiftl1_nonzero pn ltac:(lia)) as Hz. apply Z.eqb_neq in Hz. rewrite Hz. reflexivity.
    + split; [reflexivity|]. split; [reflexivity|]. split; [reflexivity|]. exists pn. split; [exact Hn|reflexivity].
Qed.

(* C14: decidable equality of codec descriptions, and a comparison of two codec
   tables that names the entries that differ (so that a failing
   `vm_compute; reflexivity` shows the message name). *)
From LibTw2 Require Import Base.Res Model.Varint Model.Packer Model.Codec.
From Coq Require Import ZArith List Bool String.
Open Scope Z_scope.

Definition bytes_eq_dec : forall a b : bytes, {a = b} + {a <> b} := list_eq_dec Z.eq_dec.

Definition etbl_eq_dec : forall a b : etbl, {a = b} + {a <> b}.
Proof. apply list_eq_dec. decide equality; try apply Z.eq_dec. decide equality; apply Z.eq_dec. Defined.

Definition iop_eq_dec : forall a b : iop, {a = b} + {a <> b}.
Proof. decide equality; try apply Z.eq_dec. apply etbl_eq_dec. Defined.

Definition mop_eq_dec : forall a b : mop, {a = b} + {a <> b}.
Proof. decide equality; try apply iop_eq_dec; apply Nat.eq_dec. Defined.

Definition aop_eq_dec : forall a b : aop, {a = b} + {a <> b}.
Proof. decide equality; apply Z.eq_dec. Defined.

Definition wop_eq_dec : forall a b : wop, {a = b} + {a <> b}.
Proof. decide equality. Defined.

Definition eop_eq_dec : forall a b : eop, {a = b} + {a <> b}.
Proof. decide equality; try apply Nat.eq_dec; try apply aop_eq_dec; apply wop_eq_dec. Defined.

Definition ckind_eq_dec : forall a b : ckind, {a = b} + {a <> b}.
Proof. decide equality. Defined.

Definition msgid_eq_dec : forall a b : msgid, {a = b} + {a <> b}.
Proof. decide equality; try apply Z.eq_dec; apply bytes_eq_dec. Defined.

Definition codec_eq_dec : forall a b : codec, {a = b} + {a <> b}.
Proof.
  decide equality.
  - apply (list_eq_dec eop_eq_dec).
  - apply (list_eq_dec mop_eq_dec).
  - apply msgid_eq_dec.
  - apply msgid_eq_dec.
  - apply ckind_eq_dec.
Defined.

Definition fty_eq_dec : forall a b : fty, {a = b} + {a <> b}.
Proof. decide equality. Defined.

Definition ocodec_eq_dec : forall a b : ocodec, {a = b} + {a <> b}.
Proof.
  decide equality.
  - apply list_eq_dec. decide equality; [apply fty_eq_dec|apply Nat.eq_dec].
  - apply list_eq_dec. decide equality; [apply aop_eq_dec|apply Nat.eq_dec].
  - apply (list_eq_dec iop_eq_dec).
  - decide equality. apply Z.eq_dec.
  - apply msgid_eq_dec.
  - apply msgid_eq_dec.
Defined.

Section Mismatch.
  Context {A : Type} (dec : forall a b : A, {a = b} + {a <> b}).

  (* the names of the positions at which two tables differ *)
  Fixpoint mismatches (names : list string) (xs ys : list A) : list string :=
    match xs, ys with
    | [], [] => []
    | x :: xs', y :: ys' =>
      let n := match names with n :: _ => n | [] => "(unnamed)"%string end in
      let rest := mismatches (tl names) xs' ys' in
      if dec x y then rest else n :: rest
    | _, _ => ["(tables of different length)"%string]
    end.

  Lemma mismatches_nil names xs : forall ys, mismatches names xs ys = [] -> xs = ys.
  Proof.
    revert names. induction xs as [|x xs IH]; intros names [|y ys]; cbn [mismatches]; intros H;
      try reflexivity; try discriminate.
    destruct (dec x y) as [->|]; [|discriminate]. f_equal. exact (IH _ _ H).
  Qed.
End Mismatch.

(* both tables, and their names, agree *)
Definition tables_match (names1 names2 : list string) (c1 c2 : list codec)
                        (onames1 onames2 : list string) (o1 o2 : list ocodec) : list string :=
  mismatches codec_eq_dec names1 c1 c2 ++ mismatches ocodec_eq_dec onames1 o1 o2
  ++ mismatches string_dec names1 names1 names2 ++ mismatches string_dec onames1 onames1 onames2.

Lemma tables_match_nil n1 n2 c1 c2 on1 on2 o1 o2 :
  tables_match n1 n2 c1 c2 on1 on2 o1 o2 = [] -> c1 = c2 /\ o1 = o2 /\ n1 = n2 /\ on1 = on2.
Proof.
  unfold tables_match. intros H.
  apply app_eq_nil in H as [H1 H]. apply app_eq_nil in H as [H2 H]. apply app_eq_nil in H as [H3 H4].
  repeat split; eapply mismatches_nil; eassumption.
Qed.

(* C02, progress: a resend followed by a flush, delivered in order, brings the receiver
   up to date with everything the sender has submitted (shared online core, 0.6 and 0.7). *)
From LibTw2 Require Import Base.Res Model.PacketTypes Model.ConnCore Model.LinkGhost
  Proofs.ConnCoreInv Proofs.LinkArith Proofs.LinkCore.
From Coq Require Import ZArith Lia Bool List.
Open Scope Z_scope.

Definition rchunk_chunk (c : rchunk) : chunk := {| ch_data := rc_data c; ch_vital := Some (rc_seq c, true) |}.
Definition flat (ds : list dgram) : list chunk := flat_map dgram_chunks ds.

Lemma flat_app a b : flat (a ++ b) = flat a ++ flat b.
Proof. unfold flat. apply flat_map_app. Qed.

Lemma count_zero_nil p : pk_count_ok p -> pc_num p = 0 -> pc_chunks p = [].
Proof.
  intros [H _] Hz. rewrite Hz in H. unfold zlen in H. destruct (pc_chunks p); [reflexivity|cbn in H; lia].
Qed.

(* what a flush emits is exactly the packet under construction *)
Lemma flush_flat pp o o' ds : online_flush pp o = Ok (o', ds) -> pk_count_ok (o_packet o) ->
  flat ds ++ pc_chunks (o_packet o') = pc_chunks (o_packet o) /\ pk_count_ok (o_packet o') /\
  o_packet_nv o' = (if can_send o then pc_empty else o_packet_nv o) /\ o_queue o' = o_queue o /\
  (ds = [] \/ pc_chunks (o_packet o') = []).
Proof.
  intros H Hc. unfold online_flush in H. destruct (can_send o) eqn:E; cbn [negb] in H.
  - destruct (MAX_PACKETSIZE <? _) in H; [discriminate|]. injection H as <- <-.
    cbn. rewrite ?app_nil_r. split; [reflexivity|]. split; [unfold pk_count_ok, zlen; cbn; lia|].
    split; [reflexivity|]. split; [reflexivity|right; reflexivity].
  - injection H as <- <-. cbn. split; [reflexivity|]. split; [exact Hc|]. split; [reflexivity|]. split; [reflexivity|left; reflexivity].
Qed.

(* the resend loop moves the remaining queue entries, in order, behind what is already packed *)
Lemma resend_loop_flat pp : forall todo fuel o out ts o' out' ts',
  resend_loop pp fuel o todo out ts = Ok (o', out', ts') -> pk_count_ok (o_packet o) ->
  flat out' ++ pc_chunks (o_packet o') = flat out ++ pc_chunks (o_packet o) ++ map rchunk_chunk todo /\
  pk_count_ok (o_packet o').
Proof.
  induction todo as [|c rest IH].
  - intros fuel o out ts o' out' ts' H Hc. destruct fuel; cbn in H; injection H as <- <- <-;
      (split; [cbn; rewrite app_nil_r; reflexivity|exact Hc]).
  - induction fuel as [|fuel IHf]; intros o out ts o' out' ts' H Hc; cbn [resend_loop] in H; [discriminate|].
    destruct (can_fit_chunk _ _ _ _).
    + destruct (pc_write_chunk pp (o_packet o) (rc_data c) (Some (rc_seq c, true))) as [p| | |] eqn:Ew; try discriminate.
      unfold pc_write_chunk in Ew. destruct (2 ^ p_size_bits pp <=? _) in Ew; [discriminate|].
      destruct (2048 <? _) in Ew; [discriminate|]. destruct (255 <=? pc_num (o_packet o)) eqn:E3 in Ew; [discriminate|].
      injection Ew as <-. destruct Hc as [Hc1 Hc2].
      destruct (IH fuel _ out ts o' out' ts' H) as [A B].
      { unfold pk_count_ok, o_set_packets. cbn. rewrite zlen_app. unfold zlen at 2. cbn. lia. }
      split; [|exact B]. rewrite A. unfold o_set_packets. cbn [o_packet pc_chunks map].
      rewrite <- !app_assoc. reflexivity.
    + destruct (online_flush pp o) as [[o1 d1]| | |] eqn:Ef; try discriminate.
      destruct (flush_flat pp o o1 d1 Ef Hc) as [F1 [F2 _]].
      destruct (IHf o1 (out ++ d1) true o' out' ts' H F2) as [A B].
      split; [|exact B]. rewrite A, flat_app, <- F1. rewrite <- !app_assoc. reflexivity.
Qed.

Lemma resend_flat pp now o o' ds ts : online_resend pp now o = Ok (o', ds, ts) ->
  pk_count_ok (o_packet_nv o) -> o_queue o <> [] ->
  flat ds ++ pc_chunks (o_packet o') =
  pc_chunks (o_packet_nv o) ++ map rchunk_chunk (rev (restart_timers now (o_queue o))) /\
  pk_count_ok (o_packet o').
Proof.
  intros H Hc Hq. unfold online_resend in H. destruct (o_queue o) as [|c0 q0] eqn:Eq; [contradiction|].
  rewrite <- Eq in *. eapply resend_loop_flat in H; [|cbn; exact Hc]. exact H.
Qed.

(* ---------- the receiving side catches up ---------- *)
(* L: chunks whose vital members are numbers k, k+1, ..., n of the history, in order *)
Inductive consecutive (sub : list bytes) : Z -> Z -> list chunk -> Prop :=
| cons_nil k : consecutive sub k (k - 1) []
| cons_nv k n c r : ch_vital c = None -> consecutive sub k n r -> consecutive sub k n (c :: r)
| cons_v k n c r f : ch_vital c = Some (seqof k, f) -> consecutive sub (k + 1) n r -> k <= n ->
                     consecutive sub k n (c :: r).

Lemma consecutive_range sub k n l : consecutive sub k n l -> k - 1 <= n.
Proof. induction 1; lia. Qed.

Lemma recv_catch_up sub : forall l k n d rr, consecutive sub k n l ->
  0 <= d -> k - 1 <= d -> d - k < 511 ->
  exists rr' evs, recv_chunks (seqof d) rr l = Ok (seqof (Z.max d n), rr', evs).
Proof.
  intros l k n d rr H. revert d rr. induction H as [k|k n c r Hv Hr IH|k n c r f Hv Hr IH Hkn]; intros d rr Hd Hk Hw.
  - cbn. replace (Z.max d (k - 1)) with d by lia. eexists _, _. reflexivity.
  - cbn [recv_chunks]. rewrite Hv. destruct (IH d rr Hd Hk Hw) as [rr' [evs E]]. rewrite E. eexists _, _. reflexivity.
  - cbn [recv_chunks]. rewrite Hv. pose proof (seqof_range k) as Hsr.
    replace ((seqof k <? 0) || (SEQ_MOD <=? seqof k)) with false by lia.
    pose proof (consecutive_range _ _ _ _ Hr) as Hrng.
    destruct (Z.eq_dec k (d + 1)) as [->|Hne].
    + rewrite seq_update_hit by reflexivity.
      destruct (IH (d + 1) rr) as [rr' [evs E]]; try lia. rewrite E.
      replace (Z.max (d + 1) n) with (Z.max d n) by lia. eexists _, _. reflexivity.
    + assert (Hs : seqof k <> seqof (d + 1)).
      { intros Heq. apply Hne. apply seqof_inj; [exact Heq|lia]. }
      destruct (seq_update_miss d (seqof k) Hs) as [o [Hu Ho]]. rewrite Hu.
      destruct (IH d true) as [rr' [evs E]]; try lia.
      exists rr', evs. destruct o; try contradiction; exact E.
Qed.

Lemma consecutive_app sub k m n a b : consecutive sub k m a -> consecutive sub (m + 1) n b -> consecutive sub k n (a ++ b).
Proof.
  intros Ha Hb. induction Ha as [k|k m c r Hv Hr IH|k m c r f Hv Hr IH Hkm]; cbn [app].
  - replace (k - 1 + 1) with k in Hb by lia. exact Hb.
  - apply cons_nv; [exact Hv|apply IH, Hb].
  - eapply cons_v; [exact Hv|apply IH, Hb|]. pose proof (consecutive_range _ _ _ _ Hb). lia.
Qed.

Lemma consecutive_nonvital sub k l : nonvital_only l -> consecutive sub k (k - 1) l.
Proof. induction 1 as [|c l Hc Hl IH]; [constructor|apply cons_nv; assumption]. Qed.

(* the queue read from the back is consecutive from a+1 to n *)
Lemma queue_consecutive sub q : forall a n, queue_is q a n sub ->
  consecutive sub (a + 1) n (map rchunk_chunk (rev q)).
Proof.
  induction q as [|e q IH]; intros a n H; cbn [queue_is] in H.
  - subst. cbn. replace a with (a + 1 - 1) at 2 by lia. constructor.
  - destruct H as [H1 [H2 [H3 H4]]]. cbn [rev]. rewrite map_app.
    eapply (consecutive_app sub (a + 1) (n - 1) n); [apply IH, H4|].
    replace (n - 1 + 1) with n by lia. cbn [map]. eapply cons_v; [cbn; rewrite H2; reflexivity| |lia].
    replace n with (n + 1 - 1) at 2 by lia. constructor.
Qed.

(* ---------- one resend + one flush, delivered in order ---------- *)
(* the sender has submitted n = |sub| chunks and still holds a+1..n; the receiver has been given d of
   them (a <= d <= n). The sender's resend deadline passes (online_resend), then its packet is
   flushed (online_flush: the next flush / tick_action). Whatever these two calls emit, delivered in
   order, leaves the receiver with acknowledgement number n: everything submitted is delivered. *)
Theorem catch_up pp now o sub nvs a d rr o1 ds ts o2 ds2 :
  snd_inv o sub nvs a -> pk_count_ok (o_packet_nv o) -> o_queue o <> [] ->
  a <= d <= zlen sub ->
  online_resend pp now o = Ok (o1, ds, ts) ->
  online_flush pp o1 = Ok (o2, ds2) ->
  exists rr' evs, recv_chunks (seqof d) rr (flat (ds ++ ds2)) = Ok (seqof (zlen sub), rr', evs)
                  /\ pc_chunks (o_packet o2) = [].
Proof.
  intros Hinv Hcnv Hq Hd Hr Hf. destruct Hinv as [H1 H2 H3 H4 H5 H6 H7].
  destruct (resend_flat pp now o o1 ds ts Hr Hcnv Hq) as [Hflat Hc1].
  destruct (flush_flat pp o1 o2 ds2 Hf Hc1) as [F1 [_ [_ [_ F5]]]].
  (* after the flush the packet is empty: the resend put at least one chunk into it or emitted it *)
  assert (Hempty : pc_chunks (o_packet o2) = []).
  { destruct F5 as [->|E]; [|exact E]. cbn in F1. unfold online_flush in Hf.
    destruct (can_send o1) eqn:Ecs; cbn [negb] in Hf.
    - destruct (MAX_PACKETSIZE <? _) in Hf; [discriminate|]. injection Hf as _ Hx. discriminate Hx.
    - injection Hf as <-. unfold can_send in Ecs. apply orb_false_iff in Ecs as [E _].
      apply count_zero_nil; [exact Hc1|lia]. }
  assert (Hall : flat (ds ++ ds2) = pc_chunks (o_packet_nv o) ++ map rchunk_chunk (rev (restart_timers now (o_queue o)))).
  { rewrite flat_app, <- Hflat, <- F1, Hempty, app_nil_r. reflexivity. }
  rewrite Hall.
  assert (Hcons : consecutive sub (a + 1) (zlen sub)
            (pc_chunks (o_packet_nv o) ++ map rchunk_chunk (rev (restart_timers now (o_queue o))))).
  { eapply (consecutive_app sub (a + 1) a (zlen sub)).
    - replace a with (a + 1 - 1) at 2 by lia. apply consecutive_nonvital, H6.
    - apply queue_consecutive, queue_is_restart, H2. }
  destruct (recv_catch_up sub _ (a + 1) (zlen sub) d rr Hcons) as [rr' [evs E]]; try lia.
  exists rr', evs. split; [|exact Hempty]. replace (Z.max d (zlen sub)) with (zlen sub) in E by lia. exact E.
Qed.

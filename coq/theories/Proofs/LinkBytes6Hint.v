(* The 0.6 reader applied to what the writer produces, when the reader is NOT told whether the
   packet carries a DDNet token (token hint None: Connection::feed in the states Unconnected,
   Connecting, Disconnected): has_token_heuristic recognises the token of every packet the
   connection layer emits with one, and a connectionless packet is read without looking at the
   hint at all. So the hint-less read of such a packet equals the read that is told the truth
   (Proofs/Packet6Read.v). The Huffman coder is a Section parameter as there. *)
From LibTw2 Require Import Base.Res Base.Bits Model.PacketTypes Model.PacketBase Gen.Consts6 Gen.Bits6
  Model.Packet6 Proofs.PktSweep Proofs.PktBits6 Proofs.Packet6Write Proofs.Packet6Read Proofs.Packet6Chunks.
From Coq Require Import ZArith Lia Bool List.
Open Scope Z_scope.

(* the heuristic's answer is all the hint-less reader needs *)
Lemma read_payload6_heur ws h p b :
  has_token_heuristic6 (land_ne0 (ph6_flags h) PACKETFLAG_CONTROL) (ph6_num_chunks h) (s_data p) = Ok b ->
  read_payload6 ws h None p = read_payload6 ws h (Some b) p.
Proof. intros H. unfold read_payload6. rewrite H. reflexivity. Qed.

(* ---------- the heuristic on control packets ---------- *)
Lemma heur_control_enc c tk :
  length tk = 4%nat -> match c with C6Close m => has_nul m = false | _ => True end ->
  has_token_heuristic6 true 0 (control_body6 c (Some tk)) = Ok true.
Proof.
  intros Hl Hc. destruct tk as [|t0 [|t1 [|t2 [|t3 [|t4 tk]]]]]; try discriminate Hl.
  destruct c as [| | | |m]; try reflexivity.
  unfold control_body6. cbn [ctrl_magic6 is_connect6 andb is_some opt_bytes app].
  unfold has_token_heuristic6.
  change ((CTRLMSG_CLOSE =? CTRLMSG_CONNECT) || (CTRLMSG_CLOSE =? CTRLMSG_CONNECTACCEPT)) with false.
  change (CTRLMSG_CLOSE =? CTRLMSG_CLOSE) with true. cbv iota.
  rewrite <- app_assoc. cbn [app].
  rewrite find_nul_app_nul by exact Hc.
  rewrite app_length. cbn [length].
  replace (length m + 5 =? 4)%nat with false by (symmetry; apply Nat.eqb_neq; lia).
  cbn [andb]. f_equal. apply Nat.leb_le. change (Z.to_nat TOKEN_SIZE) with 4%nat. rewrite app_length. cbn [length]. lia.
Qed.

(* ---------- the heuristic on chunk packets: num_chunks well-formed chunks, then the token ---------- *)
Lemma heur_chunks6_enc : forall cs k it rest, forallb chunk_wf6 cs = true ->
  ci6_data it = flat_map chunk_enc6 cs ++ rest -> (length cs <= k)%nat ->
  i32_min <= ci6_remaining it - Z.of_nat (length cs) ->
  heur_chunks6 k (Z.of_nat (length cs)) it = Ok (Some (ci6_pos it + length (flat_map chunk_enc6 cs))%nat).
Proof.
  induction cs as [|c cs IH]; intros k it rest Hwf Ed Hk Hrem.
  - cbn [length flat_map]. rewrite Nat.add_0_r. destruct k; reflexivity.
  - destruct k as [|k]; [cbn [length] in Hk; lia|].
    cbn [forallb] in Hwf. apply andb_true_iff in Hwf as [Hc Hcs].
    cbn [flat_map] in Ed. rewrite <- app_assoc in Ed. cbn [length] in Hk, Hrem.
    cbn [heur_chunks6].
    replace (Z.of_nat (length (c :: cs)) <=? 0) with false by (symmetry; apply Z.leb_gt; cbn [length]; lia).
    destruct (chunks_next6_enc c (flat_map chunk_enc6 cs ++ rest) it Hc Ed) as [v E]; [lia|].
    rewrite E.
    replace (Z.of_nat (length (c :: cs)) - 1) with (Z.of_nat (length cs)) by (cbn [length]; lia).
    rewrite (IH k _ rest Hcs); cbn [ci6_data ci6_pos ci6_remaining]; try reflexivity; try lia.
    cbn [flat_map]. rewrite app_length. f_equal. f_equal. lia.
Qed.

Lemma heur_chunks_enc cs tk :
  forallb chunk_wf6 cs = true -> length tk = 4%nat -> Z.of_nat (length cs) < 2147483648 ->
  has_token_heuristic6 false (Z.of_nat (length cs)) (flat_map chunk_enc6 cs ++ tk) = Ok true.
Proof.
  intros Hwf Hl Hn. unfold has_token_heuristic6.
  rewrite (heur_chunks6_enc cs _ _ tk Hwf).
  - cbn [chunks_new6 ci6_pos Nat.add]. f_equal. apply Nat.leb_le.
    change (Z.to_nat TOKEN_SIZE) with 4%nat. rewrite app_length. lia.
  - reflexivity.
  - rewrite Nat.div2_div. pose proof (flat_enc6_len cs Hwf) as H2.
    apply Nat.lt_succ_r. apply Nat.lt_succ_r. apply Nat.lt_succ_r.
    assert (length cs <= length (flat_map chunk_enc6 cs ++ tk) / 2)%nat.
    { apply Nat.div_le_lower_bound; [lia|]. rewrite app_length. lia. }
    lia.
  - cbn [chunks_new6 ci6_remaining]. unfold i32_min. lia.
Qed.

Section Hint.
Variables comp decomp : HuffC.
Hypothesis huff_rt : forall x c y, bytes_ok x = true -> comp x c = Some y ->
  forall c', (length x <= c')%nat -> decomp y c' = Some x.

(* the reader up to the point where the hint is looked at: control packets *)
Lemma read_control_pre ack tok c cap hint :
  expressible6 (P6Connected ack tok (P6Control c)) = true -> (1400 <= cap)%nat ->
  read6 decomp (encoding6 comp (P6Connected ack tok (P6Control c))) hint cap
  = read_payload6 [] {| ph6_flags := PACKETFLAG_CONTROL; ph6_ack := ack; ph6_num_chunks := 0 |} hint
      {| s_src := Input; s_off := Z.to_nat HEADER_SIZE; s_data := control_body6 c tok |}.
Proof.
  intros Hx Hcap. cbn [expressible6] in Hx.
  apply andb_true_iff in Hx as [Hx Hty]. apply andb_true_iff in Hx as [Hack Htok].
  assert (Hr : ph6_in_range {| ph6_flags := PACKETFLAG_CONTROL; ph6_ack := ack; ph6_num_chunks := 0 |} = true).
  { unfold ph6_in_range, byteb, PACKETFLAG_CONTROL. cbn [ph6_flags ph6_ack ph6_num_chunks]. lia. }
  destruct (hdr_bytes6_ok _ Hr) as (hp & Ep & Eh & Eu & Hl3).
  assert (Hl3' : length (PacketHeaderPacked6_as_bytes hp) = 3%nat) by (rewrite <- Eh; exact Hl3).
  unfold encoding6. rewrite Eh.
  set (body := control_body6 c tok).
  assert (Hbl : (length body <= 1 + 4 + 128 + 4)%nat).
  { unfold body, control_body6, token_ok, CTRLMSG_CLOSE_REASON_LENGTH in *.
    destruct c as [| | | |m]; destruct tok as [tk|]; cbn [is_connect6 andb is_some opt_bytes] in *;
    try (apply andb_true_iff in Hty as [_ Hml]); try apply Nat.eqb_eq in Htok; unfold CTRLMSG_TOKEN_MAGIC;
    repeat (progress (rewrite ?app_length; cbn [length])); lia. }
  unfold read6, read_impl6.
  replace (Z.of_nat cap <? MAX_PACKETSIZE) with false by (symmetry; apply Z.ltb_ge; unfold MAX_PACKETSIZE; lia).
  replace (Z.of_nat (length (PacketHeaderPacked6_as_bytes hp ++ body)) >? MAX_PACKETSIZE) with false
    by (symmetry; rewrite Z.gtb_ltb; apply Z.ltb_ge; rewrite app_length; unfold MAX_PACKETSIZE; lia).
  rewrite header_of6_enc, Eu. cbn [ph6_flags].
  change (land_ne0 PACKETFLAG_CONTROL PACKETFLAG_CONNLESS) with false. cbv iota.
  unfold payload_slice6. change (land_ne0 PACKETFLAG_CONTROL PACKETFLAG_COMPRESSION) with false. cbv iota.
  reflexivity.
Qed.

(* ... chunk packets (this is where a compressed payload is decompressed) *)
Lemma read_chunks_pre ack tok resend nc payload cap :
  expressible6 (P6Connected ack tok (P6Chunks resend nc payload)) = true ->
  packet_bytes_ok6 (P6Connected ack tok (P6Chunks resend nc payload)) = true -> (1400 <= cap)%nat ->
  exists f src,
    land_ne0 f PACKETFLAG_CONTROL = false /\ forall hint,
    read6 decomp (encoding6 comp (P6Connected ack tok (P6Chunks resend nc payload))) hint cap
    = read_payload6 [] {| ph6_flags := f; ph6_ack := ack; ph6_num_chunks := nc |} hint
        {| s_src := src; s_off := 3; s_data := payload ++ opt_bytes tok |}.
Proof.
  intros Hx Hbok Hcap. cbn [expressible6] in Hx.
  apply andb_true_iff in Hx as [Hx Hty]. apply andb_true_iff in Hx as [Hack Htok].
  apply andb_true_iff in Hty as [Hnc Hlen]. apply Z.leb_le in Hlen.
  destruct (chunks_payload6_expr tok payload Hlen Htok) as [Epl Hpl].
  assert (Hplok : bytes_ok (chunks_payload6 tok payload) = true).
  { rewrite Epl. cbn [packet_bytes_ok6] in Hbok. apply andb_true_iff in Hbok as [Ht Hp].
    unfold bytes_ok in *. rewrite forallb_app, Hp. destruct tok; cbn [opt_bytes forallb]; [exact Ht|reflexivity]. }
  unfold encoding6. rewrite <- Epl. set (pl' := chunks_payload6 tok payload) in *.
  unfold chunks_flags6, chunks_body6. set (c := chunks_compressed6 comp pl').
  destruct (chunk_flags_facts resend c) as (F1 & F2 & F3 & F4 & F5).
  set (f := Z.lor (bool_flag resend PACKETFLAG_REQUEST_RESEND) (bool_flag c PACKETFLAG_COMPRESSION)) in *.
  exists f, (if c then Scratch else Input). split; [exact F3|]. intros hint.
  assert (Hf : 0 <= f < 16) by (unfold f; destruct resend, c; vm_compute; split; congruence).
  assert (Hr : ph6_in_range {| ph6_flags := f; ph6_ack := ack; ph6_num_chunks := nc |} = true).
  { unfold ph6_in_range, byteb. cbn [ph6_flags ph6_ack ph6_num_chunks]. lia. }
  destruct (hdr_bytes6_ok _ Hr) as (hp & Ep & Eh & Eu & Hl3). rewrite Eh.
  set (body := if c then opt_bytes (comp pl' ARRAYVEC_CAP) else pl').
  assert (Hbody : (length body <= length pl')%nat) by (apply (chunks_body6_len comp pl')).
  unfold MAX_PACKETSIZE, HEADER_SIZE in Hpl.
  assert (Hl3' : length (PacketHeaderPacked6_as_bytes hp) = 3%nat) by (rewrite <- Eh; exact Hl3).
  unfold read6, read_impl6.
  replace (Z.of_nat cap <? MAX_PACKETSIZE) with false by (symmetry; apply Z.ltb_ge; unfold MAX_PACKETSIZE; lia).
  replace (Z.of_nat (length (PacketHeaderPacked6_as_bytes hp ++ body)) >? MAX_PACKETSIZE) with false
    by (symmetry; rewrite Z.gtb_ltb; apply Z.ltb_ge; rewrite app_length; unfold MAX_PACKETSIZE; lia).
  rewrite header_of6_enc, Eu. cbn [ph6_flags]. rewrite F1.
  assert (Eslice : payload_slice6 decomp (PacketHeaderPacked6_as_bytes hp ++ body) (Some cap) f body
                   = Ok {| s_src := if c then Scratch else Input; s_off := 3; s_data := pl' |}).
  { unfold payload_slice6. rewrite F2. destruct c eqn:Ec; [|reflexivity].
    unfold body, c, chunks_compressed6 in *. destruct (comp pl' ARRAYVEC_CAP) as [s|] eqn:Es; [|discriminate].
    cbn [opt_bytes] in *.
    unfold decompress6.
    replace (Z.of_nat cap <? MAX_PACKETSIZE) with false by (symmetry; apply Z.ltb_ge; unfold MAX_PACKETSIZE; lia).
    unfold needs_decompression6.
    replace (Z.of_nat (length (PacketHeaderPacked6_as_bytes hp ++ s)) >? MAX_PACKETSIZE) with false
      by (symmetry; rewrite Z.gtb_ltb; apply Z.ltb_ge; rewrite app_length; unfold MAX_PACKETSIZE; lia).
    rewrite header_of6_enc, Eu. cbn [ph6_flags ph6_ack ph6_num_chunks]. rewrite F1, F2. cbn [negb andb].
    rewrite F5.
    assert (Hr2 : ph6_in_range {| ph6_flags := bool_flag resend PACKETFLAG_REQUEST_RESEND; ph6_ack := ack; ph6_num_chunks := nc |} = true).
    { unfold ph6_in_range, byteb. cbn [ph6_flags ph6_ack ph6_num_chunks]. destruct resend; cbn [bool_flag]; unfold PACKETFLAG_REQUEST_RESEND; lia. }
    destruct (ph6_pack_unpack _ Hr2) as (fp & Efp & _). rewrite Efp.
    assert (Hfl : length (PacketHeaderPacked6_as_bytes fp) = 3%nat) by (destruct fp; reflexivity).
    rewrite Hfl. replace (cap <? 3)%nat with false by (symmetry; apply Nat.ltb_ge; lia).
    rewrite (huff_rt pl' ARRAYVEC_CAP s Hplok Es (cap - 3)%nat) by lia.
    rewrite of_bytes6_enc. reflexivity. }
  rewrite Eslice. reflexivity.
Qed.

(* a connectionless packet: the hint is never looked at *)
Lemma read_connless_enc_any payload cap hint :
  expressible6 (P6Connless payload) = true -> (1400 <= cap)%nat ->
  read6 decomp (encoding6 comp (P6Connless payload)) hint cap
  = ([], Ok (P6Connless payload, views_of6 (P6Connless payload) false)).
Proof.
  intros Hx Hcap. cbn [expressible6] in Hx. apply Z.leb_le in Hx.
  unfold MAX_PACKETSIZE, HEADER_SIZE, PADDING_SIZE_CONNLESS in Hx.
  unfold encoding6, read6, read_impl6.
  replace (Z.of_nat cap <? MAX_PACKETSIZE) with false by (symmetry; apply Z.ltb_ge; unfold MAX_PACKETSIZE; lia).
  replace (Z.of_nat (length (repeat 255 6 ++ payload)) >? MAX_PACKETSIZE) with false
    by (symmetry; rewrite Z.gtb_ltb; apply Z.ltb_ge; rewrite app_length; cbn [repeat length]; unfold MAX_PACKETSIZE; lia).
  cbn [repeat app]. unfold header_of6. cbn [PacketHeaderPacked6_of_bytes].
  change (PacketHeaderPacked6_unpack_warn {| php6_flags_padding_ack := 255; php6_ack := 255; php6_num_chunks := 255 |})
    with ({| ph6_flags := 15; ph6_ack := 1023; ph6_num_chunks := 255 |}, @nil warning6).
  cbn [ph6_flags]. change (land_ne0 15 PACKETFLAG_CONNLESS) with true. cbv iota.
  unfold read_connless6. cbn [length].
  replace (Z.of_nat (S (S (S (length payload)))) <? PADDING_SIZE_CONNLESS) with false
    by (symmetry; apply Z.ltb_ge; unfold PADDING_SIZE_CONNLESS; lia).
  change (Z.to_nat PADDING_SIZE_CONNLESS) with 3%nat. change (Z.to_nat HEADER_SIZE) with 3%nat.
  cbn [firstn skipn all_ff forallb Z.eqb Pos.eqb andb negb orb app]. unfold view_of. cbn [s_data s_src s_off].
  reflexivity.
Qed.

(* the packets for which the hint-less reader is shown to find the truth: connectionless ones, and
   connected ones WITH a token whose chunk payload is `num_chunks` chunks written by write_chunk
   (what PacketContents holds) *)
Definition hintless_ok6 (p : packet6) : Prop :=
  match p with
  | P6Connless _ => True
  | P6Connected _ tok ty =>
    tok <> None /\
    match ty with
    | P6Chunks _ nc payload =>
      exists cs, forallb chunk_wf6 cs = true /\ payload = flat_map chunk_enc6 cs /\ nc = Z.of_nat (length cs)
    | P6Control _ => True
    end
  end.

Theorem read_encoding6_nohint p cap :
  expressible6 p = true -> packet_bytes_ok6 p = true -> (1400 <= cap)%nat -> hintless_ok6 p ->
  read6 decomp (encoding6 comp p) None cap = read6 decomp (encoding6 comp p) (true_hint6 p) cap.
Proof.
  intros Hx Hbok Hcap Hh. destruct p as [payload|ack tok [resend nc payload|c]].
  - rewrite !read_connless_enc_any by assumption. reflexivity.
  - destruct Hh as [Htk (cs & Hwf & -> & ->)]. destruct tok as [tk|]; [|contradiction Htk; reflexivity].
    assert (Hl : length tk = 4%nat).
    { cbn [expressible6] in Hx. apply andb_true_iff in Hx as [Hx _]. apply andb_true_iff in Hx as [_ Ht].
      apply Nat.eqb_eq, Ht. }
    assert (Hn : Z.of_nat (length cs) < 256).
    { cbn [expressible6] in Hx. apply andb_true_iff in Hx as [_ Hx]. apply andb_true_iff in Hx as [Hx _]. lia. }
    destruct (read_chunks_pre ack (Some tk) resend _ _ cap Hx Hbok Hcap) as (f & src & Hf & E).
    cbn [true_hint6]. rewrite !E. apply read_payload6_heur. cbn [ph6_flags ph6_num_chunks s_data opt_bytes].
    rewrite Hf. apply heur_chunks_enc; [exact Hwf|exact Hl|lia].
  - destruct Hh as [Htk _]. destruct tok as [tk|]; [|contradiction Htk; reflexivity].
    assert (Hl : length tk = 4%nat).
    { cbn [expressible6] in Hx. apply andb_true_iff in Hx as [Hx _]. apply andb_true_iff in Hx as [_ Ht].
      apply Nat.eqb_eq, Ht. }
    cbn [true_hint6]. rewrite !read_control_pre by assumption. apply read_payload6_heur.
    cbn [ph6_flags ph6_num_chunks s_data].
    change (land_ne0 PACKETFLAG_CONTROL PACKETFLAG_CONTROL) with true.
    apply heur_control_enc; [exact Hl|].
    destruct c as [| | | |m]; try exact I.
    cbn [expressible6] in Hx. apply andb_true_iff in Hx as [_ Hx]. apply andb_true_iff in Hx as [Hn _].
    apply negb_true_iff, Hn.
Qed.

End Hint.

(* A toy coder (run-length on all-zero strings) that satisfies the hypotheses the packet
   theorems make about the Huffman coder: used only to show that those hypotheses are
   satisfiable and that BOTH compression branches of the writer are covered by the theorems. *)
From LibTw2 Require Import Base.Res Model.PacketBase.
From Coq Require Import ZArith Lia Bool List.
Open Scope Z_scope.

Definition toy_comp (x : bytes) (cap : nat) : option bytes :=
  if forallb (fun b => b =? 0) x && (1 <=? cap)%nat then Some [Z.of_nat (length x)] else None.

Definition toy_decomp (y : bytes) (cap : nat) : option bytes :=
  match y with
  | [n] => if (0 <=? n) && (n <=? Z.of_nat cap) then Some (repeat 0 (Z.to_nat n)) else None
  | _ => None
  end.

Lemma all_zero_repeat x : forallb (fun b => b =? 0) x = true -> x = repeat 0 (length x).
Proof.
  induction x as [|b x IH]; cbn [forallb length repeat]; intros H; [reflexivity|].
  apply andb_true_iff in H as [Hb Hx]. apply Z.eqb_eq in Hb. subst b. f_equal. apply IH, Hx.
Qed.

Lemma toy_rt : forall x c y, toy_comp x c = Some y ->
  forall c', (length x <= c')%nat -> toy_decomp y c' = Some x.
Proof.
  intros x c y H c' Hc. unfold toy_comp in H.
  destruct (forallb (fun b => b =? 0) x) eqn:Ez; cbn [andb] in H; [|discriminate].
  destruct (1 <=? c)%nat; [|discriminate]. injection H as <-.
  unfold toy_decomp. replace ((0 <=? Z.of_nat (length x)) && (Z.of_nat (length x) <=? Z.of_nat c')) with true
    by (symmetry; apply andb_true_iff; split; [apply Z.leb_le|apply Z.leb_le]; lia).
  rewrite Nat2Z.id. f_equal. symmetry. apply all_zero_repeat, Ez.
Qed.

Lemma toy_len : forall y c d, toy_decomp y c = Some d -> (length d <= c)%nat.
Proof.
  intros y c d. unfold toy_decomp. destruct y as [|n [|? ?]]; try discriminate.
  destruct ((0 <=? n) && (n <=? Z.of_nat c)) eqn:E; [|discriminate].
  intros H. injection H as <-. rewrite repeat_length. apply andb_true_iff in E as [E1 E2]. lia.
Qed.

Lemma toy_ok : forall y c d, toy_decomp y c = Some d -> (length d <= c)%nat /\ bytes_ok d = true.
Proof.
  intros y c d H. split; [exact (toy_len y c d H)|].
  unfold toy_decomp in H. destruct y as [|n [|? ?]]; try discriminate.
  destruct ((0 <=? n) && (n <=? Z.of_nat c)); [|discriminate]. injection H as <-.
  induction (Z.to_nat n); [reflexivity|]. cbn [repeat]. unfold bytes_ok in *. cbn [forallb]. exact IHn0.
Qed.

(* Basic facts about the pieces of Model/Receiver.v: lengths and slices in Z,
   wrap32, the part map, strictly ascending key lists. *)
From LibTw2 Require Import Base.Res Model.Receiver.
From Coq Require Import ZArith Lia Bool List ZifyBool ZifyNat.
Open Scope Z_scope.

(* ---------- lenZ, skipZ, slice ---------- *)

Lemma lenZ_acc_spec v : forall acc, lenZ_acc v acc = acc + Z.of_nat (length v).
Proof.
  assert (H : forall n v, (length v <= n)%nat -> forall acc, lenZ_acc v acc = acc + Z.of_nat (length v)).
  { induction n as [|n IH]; intros w Hw acc.
    - destruct w; [cbn; lia|cbn [length] in Hw; lia].
    - destruct w as [|x0 [|x1 [|x2 [|x3 [|x4 [|x5 [|x6 [|x7 w]]]]]]]];
        cbn [lenZ_acc length]; try lia;
        try (rewrite IH by (cbn [length] in *; lia); cbn [length]; lia). }
  apply (H (length v)). lia.
Qed.

Lemma lenZ_spec v : lenZ v = Z.of_nat (length v).
Proof. unfold lenZ. rewrite lenZ_acc_spec. lia. Qed.

Lemma lenZ_nonneg v : 0 <= lenZ v.
Proof. rewrite lenZ_spec. lia. Qed.

Lemma lenZ_app a b : lenZ (a ++ b) = lenZ a + lenZ b.
Proof. rewrite !lenZ_spec, app_length. lia. Qed.

Lemma lenZ_nil : lenZ [] = 0.
Proof. reflexivity. Qed.

Lemma skipn_tl {A} n (v : list A) : tl (skipn n v) = skipn (S n) v.
Proof.
  revert v. induction n as [|n IH]; intros v.
  - destruct v; reflexivity.
  - destruct v as [|x v]; [reflexivity|]. cbn [skipn] in *. apply IH.
Qed.

Lemma skipn_skipn {A} a b (v : list A) : skipn a (skipn b v) = skipn (a + b) v.
Proof.
  revert v. induction b as [|b IH]; intros v.
  - rewrite Nat.add_0_r. reflexivity.
  - rewrite Nat.add_succ_r. destruct v as [|x v]; [rewrite !skipn_nil; reflexivity|].
    cbn [skipn]. apply IH.
Qed.

Lemma skip_pos_spec p : forall v, skip_pos p v = skipn (Pos.to_nat p) v.
Proof.
  induction p as [p IH|p IH|]; intros v; cbn [skip_pos].
  - rewrite !IH, skipn_skipn, skipn_tl. f_equal; try lia.
  - rewrite !IH, skipn_skipn. f_equal; try lia.
  - destruct v; reflexivity.
Qed.

Lemma skipZ_spec n v : 0 <= n -> skipZ n v = skipn (Z.to_nat n) v.
Proof.
  intros Hn. destruct n as [|p|p]; cbn [skipZ].
  - reflexivity.
  - rewrite skip_pos_spec. f_equal; try lia.
  - lia.
Qed.

Definition sub_list (v : bytes) (st en : Z) : bytes :=
  firstn (Z.to_nat (en - st)) (skipn (Z.to_nat st) v).

Lemma slice_spec v st en : 0 <= st -> st <= en -> en <= lenZ v ->
  slice v (lenZ v) st en = Some (sub_list v st en).
Proof.
  intros H0 H1 H2. unfold slice, sub_list.
  replace (0 <=? st) with true by lia. replace (st <=? en) with true by lia.
  replace (en <=? lenZ v) with true by lia. cbn [andb].
  rewrite skipZ_spec by lia. reflexivity.
Qed.

Lemma slice_none_iff v st en : slice v (lenZ v) st en = None <-> ~ (0 <= st /\ st <= en /\ en <= lenZ v).
Proof.
  unfold slice.
  destruct (0 <=? st) eqn:E0, (st <=? en) eqn:E1, (en <=? lenZ v) eqn:E2; cbn [andb];
    split; intros H; try discriminate; try lia; try reflexivity.
Qed.

(* a range that lies inside `a` is not disturbed by appending to `a` *)
Lemma sub_list_app_l a b st en : 0 <= st -> st <= en -> en <= lenZ a ->
  sub_list (a ++ b) st en = sub_list a st en.
Proof.
  intros H0 H1 H2. unfold sub_list. rewrite lenZ_spec in H2.
  rewrite skipn_app. rewrite firstn_app.
  replace (Z.to_nat (en - st) - length (skipn (Z.to_nat st) a))%nat with 0%nat
    by (rewrite skipn_length; lia).
  cbn [firstn]. apply app_nil_r.
Qed.

(* the appended part is found at [len a, len a + len b) *)
Lemma sub_list_app_r a b : sub_list (a ++ b) (lenZ a) (lenZ a + lenZ b) = b.
Proof.
  unfold sub_list. rewrite !lenZ_spec.
  replace (Z.of_nat (length a) + Z.of_nat (length b) - Z.of_nat (length a)) with (Z.of_nat (length b)) by lia.
  rewrite !Nat2Z.id. rewrite skipn_app, skipn_all, Nat.sub_diag. cbn [skipn app].
  apply firstn_all.
Qed.

(* ---------- wrap32 ---------- *)

Lemma wrap32_range z : is_i32 (wrap32 z) = true.
Proof. unfold wrap32, is_i32, i32_min, i32_max. Z.div_mod_to_equations. lia. Qed.

Lemma wrap32_id z : is_i32 z = true -> wrap32 z = z.
Proof. unfold wrap32, is_i32, i32_min, i32_max. intros H. Z.div_mod_to_equations. lia. Qed.

(* the receiver's tick.wrapping_sub(delta_tick) undoes the sender's tick.wrapping_sub(base) *)
Lemma wrap32_sub_sub t b : is_i32 b = true -> wrap32 (t - wrap32 (t - b)) = b.
Proof. unfold wrap32, is_i32, i32_min, i32_max. intros H. Z.div_mod_to_equations. lia. Qed.

(* ---------- the part map ---------- *)

Definition keys (m : pmap) : list Z := map fst m.

(* strictly ascending *)
Fixpoint ascending (l : list Z) : bool :=
  match l with
  | [] => true
  | k :: l' => match l' with [] => true | k' :: _ => (k <? k') && ascending l' end
  end.

Lemma ascending_cons k l : ascending (k :: l) = true <-> (forall x, In x l -> k < x) /\ ascending l = true.
Proof.
  revert k. induction l as [|k' l IH]; intros k.
  - cbn. split; [intros _; split; [intros x []|reflexivity]|reflexivity].
  - change (ascending (k :: k' :: l)) with ((k <? k') && ascending (k' :: l)).
    rewrite andb_true_iff, Z.ltb_lt. split.
    + intros [Hk Ha]. split; [|exact Ha]. intros x [<-|Hx]; [exact Hk|].
      apply IH in Ha. destruct Ha as [Hall _]. specialize (Hall x Hx). lia.
    + intros [Hall Ha]. split; [apply Hall; left; reflexivity|exact Ha].
Qed.

Lemma pm_contains_In k m : pm_contains k m = true <-> In k (keys m).
Proof.
  unfold pm_contains, keys. rewrite existsb_exists, in_map_iff. split.
  - intros [e [Hin He]]. exists e. split; [lia|exact Hin].
  - intros [e [He Hin]]. exists e. split; [exact Hin|lia].
Qed.

Lemma pm_contains_false k m : pm_contains k m = false <-> ~ In k (keys m).
Proof.
  rewrite <- pm_contains_In. destruct (pm_contains k m); split; intros H.
  - discriminate.
  - exfalso. apply H. reflexivity.
  - intros Hc. discriminate.
  - reflexivity.
Qed.

(* inserting a key that is not there *)
Lemma pm_insert_new k v m : ~ In k (keys m) ->
  exists m', pm_insert k v m = (m', None)
    /\ length m' = S (length m)
    /\ (forall e, In e m' <-> e = (k, v) \/ In e m)
    /\ (ascending (keys m) = true -> ascending (keys m') = true).
Proof.
  induction m as [|[k' v'] m IH]; intros Hnin.
  - exists [(k, v)]. cbn. split; [reflexivity|]. split; [reflexivity|]. split; [|reflexivity].
    intros e. split; [intros [<-|[]]; left; reflexivity|intros [->|[]]; left; reflexivity].
  - cbn [keys map fst In] in Hnin. cbn [pm_insert].
    destruct (k <? k') eqn:Elt.
    + exists ((k, v) :: (k', v') :: m). split; [reflexivity|]. split; [reflexivity|]. split.
      * intros e. cbn [In]. split; intros [H|H]; auto.
      * intros Ha. change (keys ((k, v) :: (k', v') :: m)) with (k :: keys ((k', v') :: m)).
        apply ascending_cons. split; [|exact Ha].
        intros x Hx. cbn [keys map fst] in Hx, Ha. destruct Hx as [<-|Hx]; [lia|].
        apply ascending_cons in Ha. destruct Ha as [Hall _]. specialize (Hall x Hx). lia.
    + destruct (k =? k') eqn:Eeq; [exfalso; apply Hnin; left; lia|].
      destruct IH as [m' [Hins [Hlen [Hin Hasc]]]]; [intros H; apply Hnin; right; exact H|].
      rewrite Hins. exists ((k', v') :: m'). split; [reflexivity|]. split; [cbn [length]; lia|]. split.
      * intros e. cbn [In]. rewrite Hin. tauto.
      * intros Ha. change (keys ((k', v') :: m')) with (k' :: keys m').
        change (keys ((k', v') :: m)) with (k' :: keys m) in Ha.
        apply ascending_cons in Ha. destruct Ha as [Hall Ha]. apply ascending_cons. split; [|apply Hasc, Ha].
        intros x Hx. unfold keys in Hx. apply in_map_iff in Hx. destruct Hx as [e [<- He]].
        apply Hin in He. destruct He as [->|He]; [cbn [fst]; lia|].
        apply Hall. unfold keys. apply in_map. exact He.
Qed.

Lemma keys_insert_In k v m m' o x : pm_insert k v m = (m', o) -> In x (keys m') <-> x = k \/ In x (keys m).
Proof.
  revert m' o. induction m as [|[k' v'] m IH]; intros m' o H; cbn [pm_insert] in H.
  - injection H as <- <-. cbn. intuition.
  - destruct (k <? k').
    + injection H as <- <-. cbn [keys map fst In]. intuition.
    + destruct (k =? k') eqn:E.
      * injection H as <- <-. cbn [keys map fst In]. apply Z.eqb_eq in E. subst. intuition.
      * destruct (pm_insert k v m) as [m'' o'] eqn:E2. injection H as <- <-.
        cbn [keys map fst In]. specialize (IH m'' o' eq_refl). unfold keys in IH. rewrite IH. intuition.
Qed.

(* ---------- strictly ascending lists in a range ---------- *)

Fixpoint zseq (lo : Z) (n : nat) : list Z :=
  match n with O => [] | S n' => lo :: zseq (lo + 1) n' end.

Lemma zseq_length lo n : length (zseq lo n) = n.
Proof. revert lo. induction n; intros; cbn; auto. Qed.

Lemma zseq_In lo n x : In x (zseq lo n) <-> lo <= x < lo + Z.of_nat n.
Proof.
  revert lo. induction n as [|n IH]; intros lo; cbn [zseq In].
  - lia.
  - rewrite IH. lia.
Qed.

(* a strictly ascending list whose elements lie in [lo, lo + length) is lo, lo+1, ... *)
Lemma ascending_full l : forall lo, ascending l = true ->
  (forall x, In x l -> lo <= x < lo + Z.of_nat (length l)) -> l = zseq lo (length l).
Proof.
  induction l as [|h l IH]; intros lo Ha Hr; [reflexivity|].
  apply ascending_cons in Ha. destruct Ha as [Hall Ha].
  assert (Hl : l = zseq (lo + 1) (length l)).
  { apply IH; [exact Ha|]. intros x Hx.
    pose proof (Hall x Hx). pose proof (Hr h (or_introl eq_refl)). pose proof (Hr x (or_intror Hx)).
    cbn [length] in *. lia. }
  cbn [length zseq]. f_equal; [|exact Hl].
  pose proof (Hr h (or_introl eq_refl)) as Hh. cbn [length] in Hh.
  destruct l as [|h' l'].
  - cbn [length] in Hh. lia.
  - cbn [length zseq] in Hl. injection Hl as Hh' _.
    pose proof (Hall h' (or_introl eq_refl)). lia.
Qed.

(* at most hi - lo elements fit *)
Lemma ascending_length l : forall lo hi, ascending l = true ->
  (forall x, In x l -> lo <= x < hi) -> lo <= hi -> Z.of_nat (length l) <= hi - lo.
Proof.
  induction l as [|h l IH]; intros lo hi Ha Hr Hle; [cbn; lia|].
  apply ascending_cons in Ha. destruct Ha as [Hall Ha].
  pose proof (Hr h (or_introl eq_refl)) as Hh.
  assert (Z.of_nat (length l) <= hi - (h + 1)).
  { apply IH; [exact Ha| |lia]. intros x Hx. pose proof (Hall x Hx). pose proof (Hr x (or_intror Hx)). lia. }
  cbn [length]. lia.
Qed.

Lemma ascending_NoDup l : ascending l = true -> NoDup l.
Proof.
  induction l as [|h l IH]; intros Ha; [constructor|].
  apply ascending_cons in Ha. destruct Ha as [Hall Ha]. constructor; [|apply IH, Ha].
  intros Hin. specialize (Hall h Hin). lia.
Qed.

Lemma zseq_NoDup lo n : NoDup (zseq lo n).
Proof.
  revert lo. induction n as [|n IH]; intros lo; cbn [zseq]; constructor; [|apply IH].
  rewrite zseq_In. lia.
Qed.

(* if every number of [lo, lo+n) occurs in a duplicate-free list, it has at least n elements *)
Lemma covering_length l lo n : (forall x, lo <= x < lo + Z.of_nat n -> In x l) -> (n <= length l)%nat.
Proof.
  intros H. rewrite <- (zseq_length lo n). apply NoDup_incl_length; [apply zseq_NoDup|].
  intros x Hx. apply H. apply zseq_In, Hx.
Qed.

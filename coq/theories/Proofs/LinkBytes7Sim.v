(* C01 over bytes (0.7): the byte-level link (Model/LinkBytes7.v) and the abstract link
   (Model/Link7.v) run in lockstep. Every datagram in flight in an admissible run is one the
   connection layer emitted (dgram_ok, emit_wf7: it carries its tokens) and is made of bytes
   (wire_dgram7); the packet writer turns it into at most 1400 bytes which the packet reader
   turns back into the same value without a warning (Proofs/ConnBytes7.v); so feeding the bytes
   is feeding the value. Twin of Proofs/LinkBytes6Sim.v. *)
From LibTw2 Require Import Base.Res Model.PacketTypes Model.PacketBase Model.Packet7 Model.PacketInst
  Model.ConnCore Model.Conn7 Model.LinkGhost Model.Link7 Model.LinkBytes7
  Proofs.ConnCoreInv Proofs.Conn7Inv Proofs.LinkArith Proofs.LinkCore Proofs.Link7Inv
  Proofs.Packet7Write Proofs.PacketInstProofs
  Proofs.ConnBytes7 Proofs.ConnFeedBytes7 Proofs.Conn7Emit Proofs.ConnInert
  Proofs.LinkBytes6Wire Proofs.LinkBytes7Wire.
From Coq Require Import ZArith Lia Bool List.
Open Scope Z_scope.

(* ---------- one datagram: value -> bytes -> value ---------- *)
Theorem wire_read7 d bs :
  dgram_ok pp7 d -> wire_dgram7 d -> emit_wf7 d -> wire7 d = Ok bs ->
  exists p vs, encode7 d = Some p /\ (length bs <= 1400)%nat /\
    read7_tw bs 1400 = ([], Ok (p, vs)) /\ abstract7 p = d.
Proof.
  intros Hok Hw Hem Hwire.
  destruct (emit_wf7_encodable d Hem) as [p He].
  pose proof (wire_dgram7_bytes_ok d Hw) as Hb.
  destruct (emitted_reads_back7 d p Hok Hb (emit_wf7_tokens d Hem) He) as [out [Hwr [Hlen [[views Hrd] Hch]]]].
  unfold wire7 in Hwire. rewrite He, Hwr in Hwire. injection Hwire as <-.
  exists p, views. split; [exact He|]. split; [exact Hlen|]. split; [exact Hrd|].
  destruct d as [t r pl|tok ack ctl|tok ack rr n cs]; cbn [encode7] in He.
  - destruct t as [t|]; [|discriminate]. destruct r as [r|]; [|discriminate]. injection He as <-. reflexivity.
  - destruct tok as [tok|]; [|discriminate].
    destruct (ctl7_of ctl) as [c7|] eqn:Ec; [|discriminate]. injection He as <-.
    destruct ctl as [|[resp|]| | |reason|resp]; cbn [ctl7_of] in Ec; try discriminate; injection Ec as <-; reflexivity.
  - destruct tok as [tok|]; [|discriminate]. injection He as <-. destruct Hch as [cvs [it' [Hit Hmap]]].
    unfold abstract7. rewrite Hit, Hmap. reflexivity.
Qed.

(* feeding the bytes = feeding the value *)
Theorem feed_bytes7_wire c e d bs :
  dgram_ok pp7 d -> wire_dgram7 d -> emit_wf7 d -> wire7 d = Ok bs ->
  feed_bytes7 c e bs = step7 c e (Op7Feed d).
Proof.
  intros Hok Hw Hem Hwire.
  destruct (wire_read7 d bs Hok Hw Hem Hwire) as [p [vs [_ [_ [Hrd Habs]]]]].
  unfold feed_bytes7. rewrite Hrd. cbn [snd]. rewrite Habs. reflexivity.
Qed.

(* ---------- the relation between the two links ---------- *)
Definition flight_sim7 (bf : bflight7) (f : flight) : Prop :=
  wire7 (f_d f) = Ok (bf7_bytes bf) /\ bf7_n bf = f_n f /\ bf7_c bf = f_c f.

Definition link_sim7 (wb : link_bytes7) (w : link7) : Prop :=
  kb7_a wb = k7_a w /\ kb7_b wb = k7_b w /\ kb7_now wb = k7_now w /\
  Forall2 flight_sim7 (kb7_ab wb) (k7_ab w) /\ Forall2 flight_sim7 (kb7_ba wb) (k7_ba w).

Definition wire_side7 (x : lside7) : Prop := wire_state7 (c7_state (l7_conn x)) /\ Forall bytesP (l7_rand x).
Definition wire_flight7 (f : flight) : Prop := dgram_ok pp7 (f_d f) /\ wire_dgram7 (f_d f) /\ emit_wf7 (f_d f).
Definition wire_inv7 (w : link7) : Prop :=
  wire_side7 (k7_a w) /\ wire_side7 (k7_b w) /\ Forall wire_flight7 (k7_ab w) /\ Forall wire_flight7 (k7_ba w).

Lemma link_sim7_get wb w s : link_sim7 wb w -> getb7 wb s = get7 w s.
Proof. intros (Ha & Hb & _). destruct s; assumption. Qed.

Lemma link_sim7_bag wb w s : link_sim7 wb w -> Forall2 flight_sim7 (bagb7 wb s) (bag7 w s).
Proof. intros (_ & _ & _ & Hab & Hba). destruct s; assumption. Qed.

Lemma wire_inv7_get w s : wire_inv7 w -> wire_side7 (get7 w s).
Proof. intros (Ha & Hb & _). destruct s; assumption. Qed.

Lemma wire_inv7_bag w s : wire_inv7 w -> Forall wire_flight7 (bag7 w s).
Proof. intros (_ & _ & Hab & Hba). destruct s; assumption. Qed.

Lemma side_after7_app x o out : side_after7 x (sent_of7 o) out = after7 x o out.
Proof. destruct o; reflexivity. Qed.

Lemma wire_all7_ok n dc ds : Forall (dgram_ok pp7) ds -> Forall wire_dgram7 ds -> Forall emit_wf7 ds ->
  exists fl, wire_all7 n dc ds = Ok fl /\
    Forall2 flight_sim7 fl (map (fun d => {| f_d := d; f_n := n; f_c := dc |}) ds).
Proof.
  induction ds as [|d ds IH]; intros H1 H2 H3; cbn [wire_all7 map].
  - exists []. split; [reflexivity|constructor].
  - inversion H1 as [|d0 r0 Hd1 Hr1]; inversion H2 as [|d1 r1 Hd2 Hr2]; inversion H3 as [|d2 r2 Hd3 Hr3]; subst.
    destruct (IH Hr1 Hr2 Hr3) as [fl [E Hfl]].
    destruct (emit_wf7_encodable d Hd3) as [p He].
    destruct (emitted_reads_back7 d p Hd1 (wire_dgram7_bytes_ok d Hd2) (emit_wf7_tokens d Hd3) He) as [out [Hwr _]].
    assert (Hw : wire7 d = Ok out) by (unfold wire7; rewrite He, Hwr; reflexivity).
    rewrite Hw, E. eexists. split; [reflexivity|]. constructor; [|exact Hfl].
    split; [exact Hw|split; reflexivity].
Qed.

Lemma Forall2_nth7 {A B} (R : A -> B -> Prop) l1 l2 k : Forall2 R l1 l2 ->
  match nth_error l2 k with
  | Some b => exists a, nth_error l1 k = Some a /\ R a b
  | None => nth_error l1 k = None
  end.
Proof.
  intros H. revert k. induction H as [|a b l1 l2 Hab H IH]; intros k.
  - destruct k; reflexivity.
  - destruct k as [|k]; cbn [nth_error]; [exists a; split; [reflexivity|exact Hab]|apply IH].
Qed.

Lemma Forall2_remove_nth7 {A B} (R : A -> B -> Prop) k l1 l2 : Forall2 R l1 l2 ->
  Forall2 R (remove_nth7 k l1) (remove_nth7 k l2).
Proof.
  intros H. revert k. induction H as [|a b l1 l2 Hab H IH]; intros k; destruct k; cbn [remove_nth7]; try constructor; auto.
Qed.

(* one call at one side, in both worlds *)
Lemma side_call_sim7 now x o r :
  conn_ok7 (l7_conn x) -> valid_op7 (l7_conn x) {| e_now := now; e_rand := l7_rand x |} o ->
  wire_side7 x -> wire_op7 o ->
  r = step7 (l7_conn x) {| e_now := now; e_rand := l7_rand x |} o ->
  forall sent, (forall out, side_after7 x sent out = after7 x o out) ->
  exists x' fl flb, side_step7 now x o = Ok (x', fl) /\ bside_finish7 x sent r = Ok (x', flb) /\
    wire_side7 x' /\ Forall wire_flight7 fl /\ Forall2 flight_sim7 flb fl.
Proof.
  intros Hc Hv [Hst Hrnd] Ho -> sent Hsent.
  destruct (step7_ok _ _ _ Hc Hv) as [out [Hstep [Hc' Hds]]].
  destruct (step7_wire _ _ _ _ Hstep Hst Hrnd Ho) as (Hw1 & Hw2 & Hw3).
  pose proof (step7_emit _ _ _ _ Hc Hv Hstep) as Hem.
  destruct (wire_all7_ok (zlen (l7_sub x)) (zlen (l7_del x)) (out7_sent out) Hds Hw3 Hem) as [flb [Ewa Hsim]].
  exists (after7 x o out), (flights_of7 x out), flb.
  split; [apply side_step7_unfold, Hstep|]. split.
  - unfold bside_finish7. rewrite Hstep, Ewa, Hsent. reflexivity.
  - split; [split; [exact Hw1|exact Hw2]|]. split; [|exact Hsim].
    unfold flights_of7. apply Forall_map. rewrite Forall_forall in *. intros d Hin.
    split; [apply Hds, Hin|split; [apply Hw3, Hin|apply Hem, Hin]].
Qed.

Lemma set_side7_sim wb w s x flb fl : link_sim7 wb w -> Forall2 flight_sim7 flb fl ->
  link_sim7 (set_sideb7 wb s x flb) (set_side7 w s x fl).
Proof.
  intros (Ha & Hb & Hn & Hab & Hba) Hfl. unfold link_sim7, set_sideb7, set_side7.
  destruct s; cbn; repeat split; try assumption; try reflexivity; apply Forall2_app; assumption.
Qed.

Lemma set_side7_wire w s x fl : wire_inv7 w -> wire_side7 x -> Forall wire_flight7 fl ->
  wire_inv7 (set_side7 w s x fl).
Proof.
  intros (Ha & Hb & Hab & Hba) Hx Hfl. unfold wire_inv7, set_side7.
  destruct s; cbn.
  - split; [exact Hx|]. split; [exact Hb|]. split; [apply Forall_app; split; assumption|exact Hba].
  - split; [exact Ha|]. split; [exact Hx|]. split; [exact Hab|apply Forall_app; split; assumption].
Qed.

Lemma link_inv7_conn w s : link_inv7 w -> conn_ok7 (l7_conn (get7 w s)).
Proof. intros [Ha [Hb _]]. destruct s; [exact (sv7_conn _ _ _ _ _ Ha)|exact (sv7_conn _ _ _ _ _ Hb)]. Qed.

Lemma link_inv7_flight w s f : link_inv7 w -> In f (bag7 w s) -> dgram_in_ok7 (f_d f).
Proof.
  intros [_ [_ [Hab Hba]]] Hin. destruct s; cbn [bag7] in Hin.
  - unfold bag_inv7 in Hab. rewrite Forall_forall in Hab. apply (Hab f Hin).
  - unfold bag_inv7 in Hba. rewrite Forall_forall in Hba. apply (Hba f Hin).
Qed.

(* ---------- one label ---------- *)
Theorem link_bytes_step_sim7 w wb l :
  link_inv7 w -> wire_inv7 w -> link_sim7 wb w -> admissible7 w l -> bytes_label7 l ->
  exists w' wb', link_step7 w l = Ok w' /\ link_bytes_step7 wb l = Ok wb' /\
    link_inv7 w' /\ wire_inv7 w' /\ link_sim7 wb' w'.
Proof.
  intros Hinv Hwire Hsim Hadm Hbl.
  destruct (link_step_inv7 w l Hinv Hadm) as [w1 [Hstep1 Hinv1]].
  destruct l as [s o|dt|from k|from k]; cbn [link_step7 link_bytes_step7 admissible7 bytes_label7] in *.
  - (* an application call *)
    destruct Hadm as [Happ [Hv Hwin]].
    assert (Hop : wire_op7 o) by (destruct o; try exact I; try exact Hbl; contradiction).
    rewrite (link_sim7_get wb w s Hsim).
    assert (Hnow : kb7_now wb = k7_now w) by apply Hsim. rewrite Hnow.
    destruct (side_call_sim7 (k7_now w) (get7 w s) o _ (link_inv7_conn w s Hinv) Hv (wire_inv7_get w s Hwire) Hop eq_refl
                (sent_of7 o) (side_after7_app _ o)) as (x' & fl & flb & E1 & E2 & Hx' & Hfl & Hflsim).
    rewrite E1 in Hstep1. injection Hstep1 as <-. rewrite E1, E2.
    eexists _, _. split; [reflexivity|]. split; [reflexivity|]. split; [exact Hinv1|].
    split; [apply set_side7_wire; assumption|apply set_side7_sim; assumption].
  - (* time *)
    injection Hstep1 as <-. eexists _, _. split; [reflexivity|]. split; [reflexivity|]. split; [exact Hinv1|].
    destruct Hsim as (Ha & Hb & Hn & Hab & Hba). split; [exact Hwire|].
    unfold link_sim7. cbn. rewrite Hn. repeat split; assumption.
  - (* a datagram arrives *)
    pose proof (Forall2_nth7 _ _ _ k (link_sim7_bag wb w from Hsim)) as Hnth.
    destruct (nth_error (bag7 w from) k) as [f|] eqn:Ek.
    2:{ rewrite Hnth. injection Hstep1 as <-. eexists _, _. split; [reflexivity|]. split; [reflexivity|].
        split; [exact Hinv|]. split; [exact Hwire|exact Hsim]. }
    destruct Hnth as [bf [Ekb [Hw6 [Hn Hc]]]]. rewrite Ekb.
    destruct Hadm as [Hfresh Hrand].
    assert (Hin : In f (bag7 w from)) by (eapply nth_error_In, Ek).
    assert (Hwf : wire_flight7 f).
    { pose proof (wire_inv7_bag w from Hwire) as Hb. rewrite Forall_forall in Hb. apply Hb, Hin. }
    destruct Hwf as (Hdok & Hdw & Hdem).
    rewrite (link_sim7_get wb w (other7 from) Hsim).
    assert (Hnow : kb7_now wb = k7_now w) by apply Hsim. rewrite Hnow.
    pose proof (wire_inv7_get w (other7 from) Hwire) as Hrcv.
    assert (Hv : valid_op7 (l7_conn (get7 w (other7 from)))
                   {| e_now := k7_now w; e_rand := l7_rand (get7 w (other7 from)) |} (Op7Feed (f_d f))).
    { split; [exact (link_inv7_flight w from f Hinv Hin)|exact Hrand]. }
    destruct (side_call_sim7 (k7_now w) (get7 w (other7 from)) (Op7Feed (f_d f))
                (feed_bytes7 (l7_conn (get7 w (other7 from))) {| e_now := k7_now w; e_rand := l7_rand (get7 w (other7 from)) |} (bf7_bytes bf))
                (link_inv7_conn w (other7 from) Hinv) Hv Hrcv Hdw
                (feed_bytes7_wire _ _ _ _ Hdok Hdw Hdem Hw6) None (fun out => eq_refl))
      as (x' & fl & flb & E1 & E2 & Hx' & Hfl & Hflsim).
    rewrite E1 in Hstep1. injection Hstep1 as <-. rewrite E1, E2.
    eexists _, _. split; [reflexivity|]. split; [reflexivity|]. split; [exact Hinv1|].
    split; [apply set_side7_wire; assumption|apply set_side7_sim; assumption].
  - (* a datagram is lost *)
    injection Hstep1 as <-. eexists _, _. split; [reflexivity|]. split; [reflexivity|]. split; [exact Hinv1|].
    destruct Hsim as (Ha & Hb & Hn & Hab & Hba). destruct Hwire as (Wa & Wb & Wab & Wba).
    destruct from; (split; [unfold wire_inv7; cbn; split; [exact Wa|]; split; [exact Wb|]; split;
                             try assumption; apply remove_nth7_forall; assumption|]);
      unfold link_sim7; cbn; repeat split; try assumption; apply Forall2_remove_nth7; assumption.
Qed.

(* ---------- whole runs ---------- *)
Theorem link_bytes_run_sim7 ls : forall w wb,
  link_inv7 w -> wire_inv7 w -> link_sim7 wb w -> admissible_run7 w ls -> Forall bytes_label7 ls ->
  exists w' wb', link_run7 w ls = Ok w' /\ link_bytes_run7 wb ls = Ok wb' /\
    link_inv7 w' /\ wire_inv7 w' /\ link_sim7 wb' w'.
Proof.
  induction ls as [|l ls IH]; intros w wb Hinv Hwire Hsim Hadm Hbl; cbn [link_run7 link_bytes_run7 admissible_run7] in *.
  - exists w, wb. split; [reflexivity|]. split; [reflexivity|]. split; [exact Hinv|]. split; [exact Hwire|exact Hsim].
  - destruct Hadm as [Ha1 Ha2]. inversion Hbl as [|l0 r0 Hb1 Hb2]; subst.
    destruct (link_bytes_step_sim7 w wb l Hinv Hwire Hsim Ha1 Hb1) as (w1 & wb1 & E1 & E2 & Hinv1 & Hwire1 & Hsim1).
    rewrite E1 in *. rewrite E2. apply IH; assumption.
Qed.

Lemma link7_new_wire ra rb : tokens_bytes7 ra -> tokens_bytes7 rb -> wire_inv7 (link7_new ra rb).
Proof.
  intros Ha Hb. unfold wire_inv7, link7_new, wire_side7. cbn.
  split; [split; [exact I|exact Ha]|]. split; [split; [exact I|exact Hb]|]. split; constructor.
Qed.

Lemma link7_new_sim ra rb : link_sim7 (link_bytes7_new ra rb) (link7_new ra rb).
Proof. unfold link_sim7, link_bytes7_new, link7_new. cbn. repeat split; constructor. Qed.

(* the byte bag IS the abstract bag, datagram by datagram, through the writer *)
Definition wire_bytes7 (d : dgram) : bytes := match wire7 d with Ok bs => bs | _ => [] end.
Definition wire_flight_of7 (f : flight) : bflight7 :=
  {| bf7_bytes := wire_bytes7 (f_d f); bf7_n := f_n f; bf7_c := f_c f |}.

Lemma flight_sim7_map fb fa : Forall2 flight_sim7 fb fa ->
  fb = map wire_flight_of7 fa /\ Forall (fun f => exists bs, wire7 (f_d f) = Ok bs /\ (length bs <= 1400)%nat) fa.
Proof.
  induction 1 as [|bf f fb fa [H1 [H2 H3]] H IH]; [split; [reflexivity|constructor]|].
  destruct IH as [IH1 IH2]. split.
  - cbn [map]. f_equal; [|exact IH1]. unfold wire_flight_of7, wire_bytes7. rewrite H1, <- H2, <- H3.
    destruct bf; reflexivity.
  - constructor; [|exact IH2]. exists (bf7_bytes bf). split; [exact H1|].
    unfold wire7 in H1. destruct (encode7 (f_d f)) as [p|]; [|discriminate].
    destruct (write7_tw p 1400) as [out|e|s|] eqn:E; try discriminate. injection H1 as <-.
    unfold write7_tw in E. apply write7_ok_encoding in E. apply E.
Qed.

(* ---------- the assumptions of C01, stated on the byte-level link ---------- *)
Definition admissible_bytes7 (w : link_bytes7) (l : llabel7) : Prop :=
  match l with
  | L7App s o =>
    app_op7 o /\ valid_op7 (l7_conn (getb7 w s)) {| e_now := kb7_now w; e_rand := l7_rand (getb7 w s) |} o /\
    window_ok7 (getb7 w s) o /\ bytes_op7 o
  | L7Time _ => True
  | L7Deliver from k =>
    match nth_error (bagb7 w from) k with
    | Some bf => fresh_bytes7 bf (getb7 w (other7 from)) /\
                 rand_ok7 {| e_now := kb7_now w; e_rand := l7_rand (getb7 w (other7 from)) |}
    | None => True
    end
  | L7Drop _ _ => True
  end.

Fixpoint admissible_bytes_run7 (w : link_bytes7) (ls : list llabel7) : Prop :=
  match ls with
  | [] => True
  | l :: r => admissible_bytes7 w l /\
              match link_bytes_step7 w l with Ok w' => admissible_bytes_run7 w' r | _ => True end
  end.

Lemma admissible_bytes7_iff w wb l : wire_inv7 w -> link_sim7 wb w ->
  (admissible_bytes7 wb l <-> admissible7 w l /\ bytes_label7 l).
Proof.
  intros Hwire Hsim. assert (Hnow : kb7_now wb = k7_now w) by apply Hsim.
  destruct l as [s o|dt|from k|from k]; cbn [admissible_bytes7 admissible7 bytes_label7]; try tauto.
  - rewrite (link_sim7_get wb w s Hsim), Hnow. tauto.
  - pose proof (Forall2_nth7 _ _ _ k (link_sim7_bag wb w from Hsim)) as Hnth.
    destruct (nth_error (bag7 w from) k) as [f|] eqn:Ek; [|rewrite Hnth; tauto].
    destruct Hnth as [bf [Ekb [Hw6 [Hn Hc]]]]. rewrite Ekb.
    rewrite (link_sim7_get wb w (other7 from) Hsim), Hnow.
    assert (Hwf : wire_flight7 f).
    { pose proof (wire_inv7_bag w from Hwire) as Hb. rewrite Forall_forall in Hb. eapply Hb, nth_error_In, Ek. }
    destruct Hwf as (Hdok & Hdw & Hdem).
    destruct (wire_read7 (f_d f) (bf7_bytes bf) Hdok Hdw Hdem Hw6) as [p [vs [_ [_ [Hrd Habs]]]]].
    assert (Hfr : fresh_bytes7 bf (get7 w (other7 from)) <-> fresh7 f (get7 w (other7 from))).
    { unfold fresh_bytes7, fresh7, bflight_chunks7. rewrite Hrd. cbn [snd]. rewrite Habs, Hn, Hc. tauto. }
    tauto.
Qed.

Theorem admissible_bytes_run7_iff ls : forall w wb, link_inv7 w -> wire_inv7 w -> link_sim7 wb w ->
  (admissible_bytes_run7 wb ls <-> admissible_run7 w ls /\ Forall bytes_label7 ls).
Proof.
  induction ls as [|l ls IH]; intros w wb Hinv Hwire Hsim; cbn [admissible_bytes_run7 admissible_run7].
  - split; [intros _; split; [exact I|constructor]|intros _; exact I].
  - pose proof (admissible_bytes7_iff w wb l Hwire Hsim) as Hl. split.
    + intros [H1 H2]. apply Hl in H1 as [Ha Hb].
      destruct (link_bytes_step_sim7 w wb l Hinv Hwire Hsim Ha Hb) as (w1 & wb1 & E1 & E2 & Hinv1 & Hwire1 & Hsim1).
      rewrite E1. rewrite E2 in H2. destruct (proj1 (IH w1 wb1 Hinv1 Hwire1 Hsim1) H2) as [H3 H4].
      split; [split; assumption|constructor; assumption].
    + intros [[Ha H2] Hb]. inversion Hb as [|l0 r0 Hb1 Hb2]; subst.
      split; [apply Hl; split; assumption|].
      destruct (link_bytes_step_sim7 w wb l Hinv Hwire Hsim Ha Hb1) as (w1 & wb1 & E1 & E2 & Hinv1 & Hwire1 & Hsim1).
      rewrite E2. rewrite E1 in H2. apply (IH w1 wb1 Hinv1 Hwire1 Hsim1). split; assumption.
Qed.

(* executable check of the byte-ness of application data (for concrete traces) *)
Definition bytes_labelb7 (l : llabel7) : bool :=
  match l with
  | L7App _ (Op7Send d _) | L7App _ (Op7SendConnless d) | L7App _ (Op7Disconnect d) => bytes_ok d
  | _ => true
  end.

Lemma bytes_labelb7_ok ls : forallb bytes_labelb7 ls = true -> Forall bytes_label7 ls.
Proof.
  intros H. apply Forall_forall. intros l Hin. rewrite forallb_forall in H. specialize (H l Hin).
  destruct l as [s o| | |]; try exact I. destruct o; try exact I; exact H.
Qed.

Lemma tokens_bytesb7_ok rnd : forallb bytes_ok rnd = true -> tokens_bytes7 rnd.
Proof. intros H. apply Forall_forall. rewrite forallb_forall in H. exact H. Qed.

(* ---------- a corrupted datagram (partial): without the agreed token it changes nothing ---------- *)
Lemma bside_finish7_inert x e bs t : e_rand e = l7_rand x ->
  token_fixed7 (l7_conn x) t -> bytes_ok bs = true ->
  carried_token7 bs <> Some t -> token_request_exception7 (l7_conn x) bs = false ->
  connless_tokens_right7 (l7_conn x) bs = false ->
  bside_finish7 x None (feed_bytes7 (l7_conn x) e bs) = Ok (x, []).
Proof.
  intros He Hfix Hb Htok Hex Hcl. destruct (inert7_bytes (l7_conn x) e bs t Hfix Hb Htok Hex Hcl) as [ws E].
  rewrite E. unfold bside_finish7. cbn [out7_sent mk7 wire_all7]. f_equal. f_equal.
  unfold side_after7. cbn. rewrite He, !app_nil_r, orb_false_r. change (ready_events []) with 0.
  rewrite Z.add_0_r. destruct x; reflexivity.
Qed.
